#!/usr/bin/env python3
"""Regenerate DESIGN.md §12 (seeded changes and which checks catch them) from seeded/*/."""
import glob, json, os, re
HERE = os.path.dirname(os.path.dirname(os.path.abspath(__file__)))
rows = []


def hist(h):
    """history may be a string, a dict or a list of either (builders appended in different shapes)."""
    if isinstance(h, str):
        return h.replace("|", "/").replace("\n", " ")
    if isinstance(h, dict):
        return "; ".join("%s: %s" % (k, v if isinstance(v, str) else ", ".join(map(str, v)) if isinstance(v, list) else v)
                         for k, v in h.items()).replace("|", "/").replace("\n", " ")
    if isinstance(h, list):
        return " // ".join(hist(x) for x in h)
    return str(h)


for d in sorted(glob.glob(os.path.join(HERE, "seeded", "*"))):
    mp = os.path.join(d, "meta.json")
    if not os.path.exists(mp):
        continue
    m = json.load(open(mp))
    v = json.load(open(os.path.join(d, "validation.json"))) if os.path.exists(os.path.join(d, "validation.json")) else {}
    c = json.load(open(os.path.join(d, "check_result.json"))) if os.path.exists(os.path.join(d, "check_result.json")) else {}
    pid = m.get("property")
    r = c.get(pid, {})
    keys = []
    for l in r.get("violation_lines", []):
        k = re.search(r"replay=\S+/%s-\d+-([^ ]+?)\.(ops|txt)" % pid, l)
        if k and k.group(1) not in keys:
            keys.append(k.group(1))
    valid = (v.get("demo_without_patch") == "pass" and v.get("demo_with_patch") == "fail" and v.get("build") == "ok"
             and v.get("existing_tests_touched_pkgs") == "pass")
    rows.append((os.path.basename(d), pid, (m.get("summary") or "").replace("|", "/").replace("\n", " ")[:230],
                 (m.get("needs") or "").replace("|", "/").replace("\n", " ")[:200],
                 "yes" if valid else "NOT VALIDATED", r.get("result", "not run"), ", ".join(keys[:4]), hist(m.get("history", ""))))
out = ["## 12. Seeded changes and which checks catch them", "",
       "Each change below was written by a fresh sub-agent that saw only the property's text and a scratch worktree of",
       "/repo (nothing from /verif). `tools/seedtest.py validate` confirmed for each: the project builds, the touched",
       "packages' existing tests pass, the demonstration passes without the patch and fails with it. `tools/seedtest.py check`",
       "applies the patch in a scratch worktree and runs `VERIF_REPO=<wt> ./check <id> --tier quick`. Result",
       "`caught-with-replay` = exit 1 with a VIOLATION line whose replay is a concrete failing case; the keys are the",
       "monitor keys that fired. The *history* column records checks that first missed the change (or reported it only as",
       "`no-failing-input-found`) and were strengthened.", "",
       "| id | property | change | needs | validated | result of the property's check | monitor keys | history |",
       "|---|---|---|---|---|---|---|---|"]
for r in rows:
    out.append("| " + " | ".join(r) + " |")
text = "\n".join(out) + "\n"
p = os.path.join(HERE, "DESIGN.md")
s = open(p).read()
i = s.find("## 12. Seeded changes and which checks catch them")
if i >= 0:
    j = s.find("\n## ", i + 5)
    j2 = s.find("\n------", i + 5)
    ends = [x for x in (j, j2) if x > 0]
    e = min(ends) if ends else len(s)
    s = s[:i] + text + s[e:]
else:
    k = s.find("---------------------------------------------------------------------------------------\n\n## Appendix A.")
    s = s[:k] + text + "\n" + s[k:]
open(p, "w").write(s)
print("rows", len(rows))
