#!/usr/bin/env python3
"""Insert / refresh the per-property "As built" paragraphs of DESIGN.md §7 (idempotent)."""
import os
import re

HERE = os.path.dirname(os.path.dirname(os.path.abspath(__file__)))

AS_BUILT = {
"C04": """Fixed in /repo `2f3b640`+`732256b` (an undecodable `_torrentmeta` is reported as not-exist), `656172c` (a status vector
of the wrong length is reset) and `a502f20` (CreateTorrent uses SetMetadata). Shared `Util/FS.lean` (abstract file system,
`applyPrefix`, removal `Order`) and `harness/tools/crash_strace.py` (phase A: the test binary under strace between
`/VERIF_MARK` markers records the real syscall plan of every operation; phase B: every prefix of the **observed** plans —
not the model's — is materialised and the real `NewCADownloadStore` + `CreateTorrent` + finishing the pieces run on it).
`Spec/C04.lean`: `invariant_after_every_history`, `crash_safe` (every blob, piece length, history incl. wrong payloads, crash
point, removal order, sidecar copy order; under checksum separation), `restart_creates`, `finish_completes`. Cache/download
eviction is outside the modelled history (audit I shows a two-crash-with-eviction history that breaks it; round 2).""",
"C05": """The planned defect (empty `_torrentmeta` ⇒ 500 for ever) is repaired by the C04 commits `2f3b640`/`732256b`; re-verified
on the tree before them. `Model/OriginCrash.lean` (upload start/write/commit, persist flag, Generate,
WriteBlobToCacheWithMetaInfo via disk or memory+drain, NewCAStore with the upload wipe; digest, generator and decoder are
parameters). `Spec/C05.lean`: `served_blob_hashes_to_name`, `metainfo_absent_or_valid`, `refresh_regenerates(_live)`,
`dangling_not_served`. Two harness entries: `oc` (store level, 2918 crash points quick) and `ocs` (a real blobserver with
Refresher on enumerated crash trees). Interpretation as planned: a listed name is readable with matching hash or not
readable and re-creatable.""",
"C06": """Fixed in /repo `2b7266a` (the constructor removes blob directories it cannot reboot) and `96dbfa5` (an unparsable `_size`
is treated as missing). `Spec/C06.lean`, over both RebootIncompleteBlobs settings, sharded/unsharded, every history, every
crash point of every operation **and of the constructor**, every removal order: `reopen_succeeds`, `complete_blobs_survive`,
`nothing_incomplete_reported_complete`, `incomplete_restored_or_dropped`, `nothing_resurrected`, `crash_inside_constructor`,
`recreate_afterwards`; hypothesis `rebootSize ≤ capacity` is stated, not derived. 5629 crash points quick.""",
"C07": """Holds after /repo `76e9c07` (overflow-safe capacity comparison; the wrap was fixed rather than recorded). Shared
`Model/BlobStore.lean`. `Spec/C07.lean` (20 obligations): `size_is_sum`, `admission_exact`, `queue_is_evictable`,
`queue_is_lru` (ghost last-use trace), `evicts_front_only`, `evicts_minimally`, `evicts_only_evictable`, `scope_filter`,
`getMd_returns_last_set`, `markComplete_metadata`, `clean_respects_ban`, `clean_reaches_target`, `no_panic`,
`legacy_admits_wrap`.""",
"C08": """Holds after /repo `a8f8d23` (same wrap in the memory store, where `make()` then panicked). `Spec/C08.lean`:
`mem_store_is_lru_model`, `stale_handle_fails`, `stale_forever`, `incarnations_unique`, `bytes_change_only_by_own_writes`,
`handle_read_own_or_evicted`, over an interleaving system with an explicit `evict` action. The quick tier has a bounded
stress (growing WriteAt racing evicting Create/Delete; afterwards every stale handle must report evicted) added after
seeded change C08-1 was missed.""",
"C09": """Two races fixed (/repo `8791702`: abort check and disk.Create under the flusher lock; `c6f8fd6`: unban only while no
new dirty entry exists, re-ban on new dirty metadata), hook commit `607ef70` (three scheduling points behind tag
`verif`), and **one known finding** `recreate-during-flush` (flusher entries and queue are keyed by key, not by
incarnation; repairing it needs incarnation identities throughout). `Spec/C09.lean`: `deleted_never_resurfaces`,
`dirty_is_banned`, `tiers_stay_lru_models` for all schedules and any number of workers; `tiered_safe_target`,
`not_tiered_safe` (witness schedule), `tiered_safe_partial(_prefix)` (no Create while the key is queued or in flight).
Harness: a step controller parks the worker at nine scheduling points; six interleaving scripts enumerated (sampled
above a cap); client operations are atomic with respect to worker micro-steps; one worker is driven.""",
"C01": """Fixed in /repo `8124762` (verify the write-through buffer's digest before `memCache.Add`); the defect was first
reproduced by the harness (`mismatch-write-accepted`, `served-wrong-bytes`; corpus `fixed-mem-unverified.ops`). Model
`Model/CAStoreMem.lean` + `MemCache` + `OriginBlob` (HTTP operations as compositions of store operations); `H`, `crc` are
parameters. Theorems (`Spec/C01.lean`): `served_sound` (any configuration with verification on, any unbounded history incl.
drain ticks / TTL sweeps in any order: what is readable under a name hashes to it, size = length, metainfo from content
hashing to the name), `served_metainfo_exact`, `mismatch_invisible`, `matching_write_served`, `origin_served`,
`skip_config_serves_anything` (hypothesis is necessary). Two harnesses: `lib/store` in-package (mock clock, drain and sweep
stepped explicitly, every name probed after every op) and `origin/blobserver` through the real chi router. Granularity:
drain/TTL are whole calls interleaved in every order; interleavings inside one call are not modelled.""",
"C02": """Holds, no repo change. `Spec/C02.lean`: `generators_agree`, `newMetaInfo_eq_fromBytes`, `metainfo_describes_blob`, the
`chunks_*` laws, `pieceLength_spec` (every integer index), `parse_serialize`/`parse_sound`/`deserialize_*`/`generate_roundtrip`,
`table_get`, `failing_reader_is_error`. CRC and SHA-1 are parameters whose values come from Go. Harness in `core`
(in-package; sizes 0..4·pl+1, four reader modes incl. 1- and 3-byte short reads, failing readers, extreme piece lengths,
every byte value at 13 positions of a valid serialisation) and `lib/metainfogen`. The model JSON parser accepts exactly
the canonical text (`parse_sound`); `io.CopyN` is modelled by its contract.""",
"C03": """Holds, no repo change (negative indices were repaired under C14, `57a24ca`). `Model/AgentTorrent.lean`: WritePiece as a
15-point small-step program; a schedule is any list of `spawn`/`step tid k` (k = bytes of the next file write, so every
chunking)/`reopen`. `Spec/C03.lean` (18 obligations, all under checksum separation on the payloads of the schedule, shown
necessary by `separation_needed`): `complete_piece_verified`, `cache_file_is_blob`, `committed_only_verified`,
`exclusive_writer`, `complete_piece_stable`, `quiescent_no_dirty`, `progress_matches`, `result_meaning`,
`no_panic_no_store_error`, `quiescent_all_complete_committed`. Harness (public API, real CADownloadStore): sequential
exhaustive histories, **gate-scheduled real goroutines** parked at the model's program points (all interleavings of two
writers, three in thorough), free-running `-race` runs with history monitors. Deviation: history monitors instead of a
linearisation search (WritePiece is not atomic).""",
"C10": """Holds, no repo change. `Spec/C10.lean`: `persisted_survives(_step)`, `normal_pass_exact`, comparator total preorder
(`policyCmp_*`, `sortPolicy_sorted`, `served_first`), `policy_deletes_prefix`, `force_cleanup_safe`. Harnesses: `lib/store`
in-package (real CAS store with LRU map; `cleanup`, `ttlBasedCleanup`, `customPolicyBasedCleanup` with injected disk usage,
directory snapshots read from disk) and `origin/blobserver` `/forcecleanup` with a scripted write-back manager. Observation
recorded (not a violation of the statement): LRU-map eviction deletes the evicted non-persisted file, so with a map
smaller than the file set a pass removes non-idle files; theorem (2) excludes it by hypothesis (capacity 0 = unbounded).""",
"C11": """Fixed in /repo `439a60b` (`localFileEntryFactory.Create` rejects `.` and `..`). Re-verified end to end before the fix:
`GET/PUT /tags/..` and origin `PATCH/PUT …/uploads/..` touched files outside the store (the commit path removed the store
root). `Model/PathModel.lean` covers `filepath.Clean` (stack machine), `Join`, `url.PathUnescape`, net/url escaping and
`parseParam` incl. chi's double decoding. `Spec/C11.lean` (all strings, all absolute directories): `local_path_formula`,
`local_path_within`, `request_contained`, `local_path_injective`, `cas_path_within`, `rejects_dot_segments`,
`escaped_dotdot_rejected`, `old_check_let_dotdot_out`. Three harness entries: ~250k pure comparisons with Go's
`filepath.Rel` judging containment; the real tag server; the real origin upload endpoints, with a snapshot of everything
outside the store directories before/after every request. Agent/proxy/registry upload paths share the check but are not
driven end to end.""",
"C12": """Fixed in /repo `a4f0046` (zero-length `Write`/`WriteAt` return early in `BufferReadWriter` and `memory.File`).
`Model/FileModel.lean`: three step functions over one state type (OS file with POSIX semantics and several descriptors,
BufferReadWriter, memory.File). `Spec/C12.lean`: `bufrw_behaves_like_file` (every sequence, no domain restriction),
`memfile_behaves_like_file` (seeks within the written extent, non-negative offsets), `buffers_write_like_pwrite`,
`evicted_is_sticky`, `old_zero_length_write_grows`. Harness: each subject side by side with real `os.File` descriptors
(the POSIX model is itself validated against the real file system).""",
"C13": """Fixed in /repo `1bc0b00` (reject a buffer whose length differs from the reservation) and `a9dfd28` (overflow-safe
`TryReserve`). `Spec/C13.lean`: `reserve_within_budget` (exact arithmetic, no wrap), `total_within_budget`,
`accounting_balanced` (disciplined callers; `undisciplined_add_unbalances` shows necessity), `store_accounting_balanced`
(composed with the write-through caller, no hypotheses), `write_through_releases`, `failed_write_releases`, LRU:
`lru_size_bounded`, `lru_has_sound`, `lru_order_by_recency`, `lru_evicts_oldest_first`. LRUCache uses `time.Now()`: cases near
an expiry boundary are re-run or dropped.""",
"C14": """Fixed in five /repo commits, one per call-site group: `0c21b14` (conn: nil PiecePayload body, payload length bounds),
`df276b8` (handshake bitfield declaring more bits than it carries), `6e46594` (dispatcher nil-body guards + `validPiece`),
`8743191` (`addPeer` rejects a bitfield longer than the torrent), `57a24ca` (agent/origin storage reject negative piece
indices). `Model/PeerInput.lean` has explicit panic outcomes and lists every allocation. `Spec/C14.lean`:
`read_message_safe`, `handshake_safe`, `handshake_alloc_bounded`, `dispatcher_safe` (all input sequences: no panic, indices in
range, state well formed), `dispatch_total`, and refutations for the original code (`original_panics`: 8 sites). Three
machines: `wire` (real `readMessage` over `net.Pipe`), `hs`, `disp` (real dispatcher on agent and origin torrents), under
`recover` with allocation measured. Protobuf decoding is not modelled (the harness supplies the decoded view).""",
"C15": """Fixed in /repo `a788760` (ClearPeer removes every request of the peer). `Spec/C15.lean`: `pipeline_limit`,
`reserve_respects_outstanding`, `no_duplicate_per_peer`, `no_duplicate_outside_endgame`, `clear_peer_removes`, `clear_removes`,
`failed_exact`, `not_clear_peer_old`. The selection policies are not modelled as functions: each real `ReservePieces` answer
is validated against a selection contract and the theorems quantify over all admissible selections.""",
"C16": """Holds. `Spec/C16.lean` (18 obligations): `conn_limits` (Max ≥ 0 needed: `negative_max_unbounded`), `conn_keys_unique`,
`one_status`, `too_many_mutual_iff`, `mutual_refused`, `delete_active_identity`, `replaced_conn_survives`, `blacklist_lasts`,
`blacklisted_not_dialled`. Two harnesses: `cs` (public API with real `*conn.Conn` from real loopback handshakes) and `cse`
(in-package: the real `announceResultEvent`, `connClosedEvent`, handshake-failure events on a real scheduler state).""",
"C17": """Fixed in /repo `21854cc` (judged small: ~20 lines in events.go/state.go). The harness found three window defects on the
real code: waiter never answered (removal between completion and its event), waiter answered twice (waiters not cleared
on completion; shutdown sends a second result), success without blob (stale completion notice applied to the torrent's
new control). `Model/SchedWaiters.lean` (flag `rep` = repaired/original). `Spec/C17.lean`, over all schedules:
`at_most_once`, `never_lost`, `exactly_once` (at quiescence), `exactly_once_after_shutdown`, `success_implies_cached`,
`waiting_request_is_answered`, and refutations of the same statements for the original code. Harness: recording event loop
through `withEventLoop` holds the dispatcher's `go DispatcherComplete` notice until the schedule applies it. Cache eviction
under a live control is not modelled.""",
"C18": """Fixed in /repo `99818ba` (`err != nil` → `err == nil` in `pieceReaderCloseWatcher.Close`). `Spec/C18.lean`:
`seeder_drop_follows_activity`, `leecher_drop_follows_activity`, `idle_drop_exact` (iff), `incomplete_removal_deletes_partial`,
`complete_idle_drop_keeps_blob`, `cached_blob_survives`, `dropped_only_by_tick_or_rm`. Harness: real scheduler state, real
dispatchers and agent storage, events applied directly with a fake clock; the completion notice is an explicit op so the
window between completion and its event is explored (added after seeded change C18-1 was missed).""",
"C19": """Safety holds; progress is partial as planned. `Model/Swarm.lean` (each peer = a C03 torrent + connections, requests,
in-flight deliveries; `deliver` carries arbitrary bytes from a corrupting peer). `Spec/C19.lean`: `swarm_ok`,
`complete_peer_holds_blob`, `served_bytes_are_blob`, `complete_piece_untouched`, `accepted_delivery_is_blob_piece`,
`rejected_delivery_marked_invalid` for every schedule and fault sequence; `progress_possible` (possibility form, labelled
partial: fairness, time-outs and tracker hand-outs are not modelled). Harness: real schedulers on localhost against the
tracker fixture, every peer's `TorrentArchive` wrapped (records every WritePiece; the corrupting peer flips a byte); every
accepted piece is replayed on the model; quick = 10 swarms, thorough = 303 with `-race` (not 20/500, to stay within the
time budget). `no-convergence` is reported only after one retry of the whole swarm with twice the timeout.""",
"C20": """Holds at the queue level (this was the pilot) and, after /repo `7bedbef` (removeTorrent always ejects), at the scheduler
level: `Model/SchedQueue.lean` models the queue calls of every scheduler event; `sched_add_precondition` (for every
schedule the Add precondition holds at every Add), `sched_queue_nodup` (GoodQ with no hypothesis),
`sched_queued_have_controls`, `sched_removed_not_queued`, `not_sched_queue_nodup_original`. Second harness entry `aqs` wraps the
real QueueImpl in a recorder inside the controlled scheduler harness.""",
"C21": """Holds. `Spec/C21.lean`: `locations_spec` (the loop equals the property's own description for every ordered list, healthy set
and MaxReplica), `locations_good`, `locations_host_independent` (via C22 uniqueness), `ring_good`/`ring_locations_spec` (after
every Refresh history), `foreign_healthy_set_gives_empty`, `empty_ring_panics`. Harness in-package (`ring.hash` is
unexported): all 65 536 shards × several memberships/discovery orders, every health subset, Refresh histories.""",
"C22": """Holds. `score` is an uninterpreted function into any `Std.IsLinearOrder`; Go's sort is not modelled. `Spec/C22.lean`:
`ordered_perm_sorted`, `any_ordering_is_ordered` (any sorted permutation equals the reference when scores are distinct, so
the result is independent of the algorithm), `ordered_unique`, `remove_minimal`, `add_minimal`, `common_nodes_same_order`,
`top_k_stable`, history-level versions, `tie_admits_two_orderings`. Harness: murmur3 and sha256 scores sent as
order-preserving integers; all 65 536 four-hex keys; score ties are reported.""",
"C23": """Fixed in /repo `655fe47` (sync forgets unlisted hosts from `all`/`healthy`/`trend`, also on the single-host shortcut).
`Spec/C23.lean`: `hysteresis_refines` (every history, all Fails, Passes ≥ 1, every leave/rejoin pattern: a host is returned
exactly when the documented per-host automaton says so), `rejoin_starts_healthy`, `single_host_reported`, `update_comm`,
`not_rejoin_healthy_old`. The `Monitor` ticker loop is not modelled.""",
"C24": """Holds. `Spec/C24.lean`: `filtered_iff_rule` (every timeline, every Fails; FailTimeout ≥ 0), `rule_spelled_out`,
`run_sound`, `resolve_nonempty(_hist)`. `clock.Mock.Add` sleeps per call, so the harness wraps the mock and offsets `Now()`.""",
"C25": """Fixed in /repo `0eccf32` (`Sample` returns the sample). `Spec/C25.lean`: `sample_size`, `sample_members`,
`locations_bounded`, `do_bounded`, `doOnce_exactly_one`, `empty_cluster_contacts_nobody`, `receiver_sample_unbounded`. Both map
iterations are explicit permutation parameters. Three harness entries (Set.Sample; blobclient.Locations/Resolve with a
recording provider; the real tagclient cluster client against 40 counting servers).""",
"C26": """Fixed in /repo `e218bd6` (SortPeers excludes the announcer by peer id). `Model/Handout.lean` on top of the C27 store;
`Admissible` quantifies over every permutation the unstable sort may return. `Spec/C26.lean`: `handout_excludes_announcer`,
`handout_nodup`, `handout_length`, `handout_order`, `complete_gets_nothing`, `announce_spec` (every C27 history and interleaving,
every limit/origin set/policy/sort result). Harness: the real tracker handler on both announce endpoints.""",
"C27": """Holds. `Model/PeerStore.lean`: a heap of group objects + index, every lock section one atomic step by any number of
threads (`updA/updB`, `getA/getB`, `ceScan/ceSweep` with an arbitrary index list, `cgCheck/cgDelete`). `Spec/C27.lean`:
`store_good` (16-field invariant), `list_map_bijection`, `stored_is_latest`, `fresh_never_forgotten`, `removed_only_expired`,
`get_spec`, `get_returns_all_fresh`, `get_linearizable`, `sweep_safe`. Harness in-package: the split cleanup is forced
deterministically through an injected clock that parks the cleanup goroutine under the group's read lock while an
announcement queues on the write lock; every wait is bounded and degrades to "not forced". "Fresh" = `now < expiresAt`
(the sweep re-checks with `Before`).""",
"C28": """Fixed in /repo `e74c809` (peer id from the first part, port and flag from the last two). `Spec/C28.lean`:
`peer_roundtrip` (every address string), `old_parser_drops_ipv6`, plus store-level `announced_peer_is_returned` and
`returned_was_announced` (beyond the plan). Harness: codec in-package + `RedisStore` on miniredis with a mock clock.""",
"C29": """RequestCache and IntervalTrap hold; the Limiter race was exhibited through the `verif` hook `c0fde23` and **fixed** in
/repo `3b51022` (GC marks a collected task deleted under the task lock; `Run` retries the lookup). `Spec/C29.lean`:
`rc_one_in_flight`, `rc_pending_is_owned`, `rc_pending_reported`, `rc_cached_error_reported`,
`rc_busy_leaves_nothing_pending`, `rc_workers_bounded`, `it_once_per_interval`, `limiter_exclusive` (every interleaving incl.
GC), `not_limiter_exclusive_without_retry`. Harness: every request/task/runner blocks until released; goroutine states
are read from stack headers. `lib/blobrefresh` (a RequestCache client) is not modelled.""",
"C30": """Holds. Shared `Model/Retry.lean` (Add split at store call and channel send; poll pass = fetch/mark/send; worker
take/finish; crash at any point; restart). `Spec/C30.lean`: `good_always`, `removed_only_by_success(_hist)`, `add_existing_noop`,
`never_not_found`, `no_absorbing_state(_down)` (lexicographic measure), `eventually_executed_successfully` (every infinite
schedule under `FairQuiet`, shown satisfiable). Harness: real manager + goroutines on real stores over SQLite, pausing
store wrapper, scripted executor, simulated time by shifting row timestamps; a free-running entry uses the real ticker.""",
"C31": """**Partial: two genuine defects recorded as known findings** (both need a design change — per-blob lock or per-namespace
reference counts — so they are not repaired): `forced-cleanup-during-commit` (`maybeDelete` runs `Find` before a commit's
`Add`, clears the persist flag and deletes the file after the commit is acknowledged; the task then drops itself) and
`persist-flag-shared-across-namespaces` (one persist flag per blob shared by all namespaces' tasks; sequential, no race
needed). Lean witnesses `not_written_back_before_deletion(_shared)`; proved: `written_back_before_deletion_partial` (one
namespace per blob, no forced cleanup overlapping a write-back of the same blob), `delete_respects_flag`,
`forced_cleanup_writes_back_first`, `eventually_in_backend`. Harness: real blobserver/CAStore/executor/manager, two
namespaces, a manager wrapper parks commits before `Add` and forced cleanups after `Find`; `fetch` op (internal transfer)
added after seeded change C31-1.""",
"C32": """Holds. `Spec/C32.lean`: `put_only_with_all_dependencies`, `put_refused_stores_nothing`, `disk_stable_hist`,
`get_resolves_a_put_digest`, `write_through_is_synchronous`, `written_back_or_pending`, `backend_only_copies_disk`,
`eventually_written_back`. Harness in both write-through and asynchronous mode. Neighbours/`replicate=true` not exercised.""",
"C33": """Holds. `Spec/C33.lean`: `put_after_all_blobs` (a 202 never counts), `exec_ok_iff`, `poll_bounded`,
`removed_only_when_replicated`, `failure_is_retried`. Harness: real Executor, tagclient and blobclient HTTP clients against
scripted servers.""",
"C34": """Fixed in /repo `ad0af62` (each retry gets a fresh body from `req.GetBody`; a body that cannot be replayed ends the
retries). Re-verification showed the defect was **broader than planned**: bytes/strings bodies are *not* rewound by
net/http on a fresh `Do` here, so the two in-repo callers never actually retried. One known finding:
`accepted-code-in-retrycodes` (a code listed both as accepted and as retry code is retried — a semantic choice, not
repaired). `Spec/C34.lean`: `every_attempt_is_original`, `success_is_honest`, `attempts_bounded`,
`only_retryable_outcomes_are_retried`, `retries_until_done`, `plain_body_single_attempt`,
`accepted_never_retried_partial`/`not_accepted_never_retried`.""",
"C35": """Fixed in /repo `d0c23d0` (DownloadBlob counts bytes written and seeks a seekable destination back before the next
origin; fails without contacting further origins when it cannot seek). `Model/Poll.lean`; responses are sent with
Content-Length or chunked (added after seeded change C35-1 was missed). `Spec/C35.lean`: `download_exactly_once`,
`download_fails_without_delivery`, `requests_in_order`, `seekable_falls_through`, `unseekable_gives_up`,
`chunked_drop_is_failure`, `unguarded_duplicates` (pre-fix closure refuted).""",
"C36": """Fixed in /repo `9ce6e0a` (identity pather strips the cleaned root plus one `/`) and `c7a5972` (a second defect: the base
path was interpolated unquoted into the regexps; now `regexp.QuoteMeta`). `Spec/C36.lean`: `tag_roundtrip`, `shard_roundtrip`,
`ident_roundtrip` for every root string; `old_ident_loses_first_char`, `old_ident_panics`.""",
"C37": """Holds after two repairs: /repo `5e3fe88` (sqlbackend Upload of empty content kept the old bytes: gorm `Assign` ignores
zero fields) and `9b5d082` (non-paginated s3 `List` stopped after ListMaxKeys names). `Model/BackendSpec.lean` (abstract
store, S3-style pager, the page-accumulating loop). `Spec/C37.lean`: `download_returns_last_upload`, `stat_reports_last_size`,
`list_exactly_the_stored_names`, `paginated_listing_partitions`, `paginated_listing_exactly_once`, `first_page_full_or_final`.
Backends are tied by refinement *testing* only (real testfs client+server, sqlbackend on SQLite, s3backend over a stateful
in-memory S3 with real pagination, shadowbackend over pairs). gcs/hdfs/registry/http backends need external services.""",
"C38": """Fixed in /repo `b5ce8df` (GetRepo's groups are lazy) — the theorems are full, not `_partial`. A second defect class was
found (a tag named `_manifests`/`_layers`/`_uploads`). `Spec/C38.lean`: `getRepo_built` (any prefix, repository, suffix),
one `*_entry` theorem per layout entry, `old_getRepo_*`. The regexps are modelled by their meaning on path elements.""",
"C39": """Fixed in /repo `d6c10f9` (`binary.MaxVarintLen64` buffer; old 8-byte files still parse — sidecars are now 10 bytes).
`Spec/C39.lean` (23 obligations): round trips and exact accepted languages for hex, digests, digest lists, info hashes,
peer ids, LAT (`lat_roundtrip`, `lat_any_buffer`, `lat_old_buffer_panics`), persist, piece status, bitset/handshake.
After seeded change C39-1 was missed, every parser gets exhaustive single-byte substitution (all 256 values at
first/second/middle/last positions) with accepted⇔well-formed monitors in both directions.""",
}


def main():
    p = os.path.join(HERE, "DESIGN.md")
    s = open(p).read()
    for pid, text in AS_BUILT.items():
        m = re.search(r"^### %s .*?$" % pid, s, re.M)
        if not m:
            print("no section for", pid)
            continue
        # section end = next "### " or "-----" line
        nxt = re.search(r"^(### |-{20,})", s[m.end():], re.M)
        end = m.end() + (nxt.start() if nxt else len(s) - m.end())
        sec = s[m.end():end]
        sec = re.sub(r"\n\*\*As built\.\*\*.*?(?=\n\n|\Z)", "", sec, flags=re.S)
        sec = sec.rstrip("\n") + "\n\n**As built.** " + " ".join(l.strip() for l in text.strip().split("\n")) + "\n\n"
        s = s[:m.end()] + sec + s[end:]
    open(p, "w").write(s)
    print("DESIGN.md refreshed: %d sections" % len(AS_BUILT))


if __name__ == "__main__":
    main()
