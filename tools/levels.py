#!/usr/bin/env python3
"""Regenerate DESIGN.md §14 (what each check claims: level text, hypotheses, harness entries) from props/*.json."""
import glob, json, os
HERE = os.path.dirname(os.path.dirname(os.path.abspath(__file__)))
out = ["## 14. What each check claims (generated from props/Cxx.json)", "",
       "The authoritative, current description of every check: the level text (what is proved for which quantifier and how it",
       "is tied), the trusted base / partiality note, the hypotheses the theorems carry, the required theorem names and the",
       "harness entries (machine, package, `-race` in thorough). §7 holds the plan and the first as-built notes; where they",
       "differ from this section, this section is right.", ""]
for p in sorted(glob.glob(os.path.join(HERE, "props", "C*.json"))):
    pr = json.load(open(p))
    out.append("### %s" % pr["id"])
    out.append("")
    out.append("*Level.* " + " ".join(pr["level"]["text"].split()))
    out.append("")
    out.append("*Note.* " + " ".join(pr.get("level_note", "").split()))
    out.append("")
    if pr.get("assumptions"):
        out.append("*Hypotheses / assumptions.*")
        for a in pr["assumptions"]:
            out.append("- " + " ".join(a.split()))
        out.append("")
    rt = pr.get("lean", {}).get("required_theorems", [])
    if rt:
        out.append("*Required theorems.* " + ", ".join("`%s`" % t.split(".")[-1] for t in rt))
        out.append("")
    hs = []
    for h in pr.get("harness", []):
        hs.append("`%s` (%s%s%s)" % (h.get("machine", pr.get("machine", "?")), h.get("pkg", h.get("kind", "cmd")),
                                      ", -race in thorough" if h.get("race_thorough") else "",
                                      ", thorough only" if h.get("thorough_only") else ""))
    out.append("*Harness entries.* " + "; ".join(hs))
    out.append("")
text = "\n".join(out) + "\n"
p = os.path.join(HERE, "DESIGN.md")
s = open(p).read()
i = s.find("## 14. What each check claims")
k = s.find("---------------------------------------------------------------------------------------\n\n## Appendix A.")
if i >= 0:
    s = s[:i] + text + "\n" + s[k:]
else:
    s = s[:k] + text + "\n" + s[k:]
open(p, "w").write(s)
print("ok", len(text))
