#!/usr/bin/env python3
"""Regenerate DESIGN.md §13 (status per property: obligations, fixes, known findings) from known/, props/, evidence/."""
import glob, json, os
HERE = os.path.dirname(os.path.dirname(os.path.abspath(__file__)))
rows = []
for p in sorted(glob.glob(os.path.join(HERE, "props", "C*.json"))):
    pr = json.load(open(p)); pid = pr["id"]
    kn = {}
    kp = os.path.join(HERE, "known", pid + ".json")
    if os.path.exists(kp):
        kn = json.load(open(kp))
    ev = {}
    ep = os.path.join(HERE, "evidence", pid + ".json")
    if os.path.exists(ep):
        ev = json.load(open(ep))
    cov = ev.get("coverage", {})
    fixed = ", ".join("`%s`" % (f.get("commit", "?")[:7]) for f in kn.get("fixed", []))
    finds = ", ".join("`%s`" % f["key"] for f in kn.get("findings", []))
    machines = ", ".join(sorted({h.get("machine", pr.get("machine", "")) for h in pr.get("harness", [])}))
    rows.append("| %s | %s/%s | %s | %s | %s | %s | %s |" % (
        pid, cov.get("discharged", "?"), cov.get("obligations", "?"), cov.get("evaluations", "?"),
        len(pr.get("harness", [])), fixed or "–", finds or "–", (lambda rb: sum(len(v) for v in rb.values()) if rb and all(isinstance(v, dict) for v in rb.values()) else len(rb))(pr.get("required_branches") or {})))
out = ["## 13. Status per property (generated)", "",
       "From `known/Cxx.json`, `props/Cxx.json` and the last committed quick-tier evidence. *fixed* = `fix:` commits in /repo",
       "(each first reproduced by the property's own harness; the failing case is kept in `corpus/Cxx/fixed-*.ops` and must",
       "pass now); *known findings* = genuine defects recorded rather than repaired (each with a Lean `not_…` witness, a",
       "`…_partial` theorem, a corpus replay that re-exhibits it on every run and a specific monitor key).", "",
       "| property | obligations discharged | cases (quick) | harness entries | fixed by | known findings | required branches |",
       "|---|---|---|---|---|---|---|"] + rows
text = "\n".join(out) + "\n"
p = os.path.join(HERE, "DESIGN.md")
s = open(p).read()
i = s.find("## 13. Status per property (generated)")
if i >= 0:
    ends = [x for x in (s.find("\n## ", i + 5), s.find("\n------", i + 5)) if x > 0]
    e = min(ends) if ends else len(s)
    s = s[:i] + text + s[e:]
else:
    k = s.find("---------------------------------------------------------------------------------------\n\n## Appendix A.")
    s = s[:k] + text + "\n" + s[k:]
open(p, "w").write(s)
print("rows", len(rows))
