#!/usr/bin/env python3
"""Validate a seeded change and run the checks against it.

  tools/seedtest.py validate <dir>     <dir> holds patch.diff, the demonstration and meta.json
        (fields used: property, demo_cmd, demo_dest, demo_files(optional list), files). In a fresh
        scratch worktree of /repo: demo passes WITHOUT the patch, fails WITH it, project builds,
        touched packages' existing tests pass with the patch.
  tools/seedtest.py check <dir> [Cxx ...]   apply the patch in a scratch worktree and run
        `VERIF_REPO=<wt> ./check <id> --tier quick` for the property of meta.json (or the ids given);
        prints whether it was caught and how.

Scratch worktrees live under /tmp/seedtest-* and are removed afterwards. Nothing is written to /repo.
"""
import json
import os
import shutil
import subprocess
import sys
import tempfile

REPO = "/repo"
VERIF = os.path.dirname(os.path.dirname(os.path.abspath(__file__)))


def genv():
    e = dict(os.environ)
    e["GOFLAGS"] = "-mod=mod"
    e["GOPROXY"] = "off"
    return e


def run(cmd, cwd, timeout=1800, env=None):
    p = subprocess.run(cmd, cwd=cwd, shell=isinstance(cmd, str), stdout=subprocess.PIPE, stderr=subprocess.STDOUT,
                       text=True, errors="replace", timeout=timeout, env=env or genv())
    return p.returncode, p.stdout


class Worktree:
    def __enter__(self):
        self.d = tempfile.mkdtemp(prefix="seedtest-", dir="/tmp")
        os.rmdir(self.d)
        rc, out = run(["git", "-C", REPO, "worktree", "add", "-q", "--detach", self.d, "HEAD"], "/")
        if rc != 0:
            raise SystemExit("worktree add failed: " + out)
        return self.d

    def __exit__(self, *a):
        run(["git", "-C", REPO, "worktree", "remove", "--force", self.d], "/")
        shutil.rmtree(self.d, ignore_errors=True)
        run(["git", "-C", REPO, "worktree", "prune"], "/")


def place_demo(sdir, meta, wt):
    dest = os.path.join(wt, meta["demo_dest"])
    os.makedirs(os.path.dirname(dest), exist_ok=True)
    src = meta.get("demo_src") or next(
        (f for f in os.listdir(sdir) if f.startswith("demo") and f not in ("demo",)), None)
    srcp = os.path.join(sdir, src)
    if os.path.isdir(srcp):
        shutil.copytree(srcp, dest, dirs_exist_ok=True)
    else:
        shutil.copy(srcp, dest)
    return dest


def touched_pkgs(sdir):
    pk = set()
    for l in open(os.path.join(sdir, "patch.diff")):
        if l.startswith("+++ b/"):
            p = l[6:].strip()
            if p.endswith(".go"):
                pk.add("./" + os.path.dirname(p) + "/...")
    return sorted(pk)


def validate(sdir):
    meta = json.load(open(os.path.join(sdir, "meta.json")))
    res = {}
    with Worktree() as wt:
        place_demo(sdir, meta, wt)
        rc, out = run(meta["demo_cmd"], wt)
        res["demo_without_patch"] = "pass" if rc == 0 else "FAIL"
        if rc != 0:
            print(out[-2000:])
        rc, out = run(["git", "apply", os.path.join(os.path.abspath(sdir), "patch.diff")], wt)
        if rc != 0:
            print("patch does not apply:", out)
            res["applies"] = False
            print(json.dumps(res))
            return 1
        res["applies"] = True
        rc, out = run(meta["demo_cmd"], wt)
        res["demo_with_patch"] = "fail" if rc != 0 else "PASSES(bad)"
        res["demo_with_patch_tail"] = out[-600:]
        rc, out = run("go build ./...", wt)
        res["build"] = "ok" if rc == 0 else "BROKEN"
        # existing tests of the touched packages (demo removed so only existing tests count)
        dest = os.path.join(wt, meta["demo_dest"])
        if os.path.isdir(dest):
            shutil.rmtree(dest)
        else:
            os.remove(dest)
        pk = touched_pkgs(sdir)
        rc, out = run("go test -vet=off -count=1 " + " ".join(pk), wt)
        res["existing_tests_touched_pkgs"] = "pass" if rc == 0 else "FAIL"
        if rc != 0:
            res["existing_tests_tail"] = out[-1500:]
        res["touched_pkgs"] = pk
    print(json.dumps(res, indent=1))
    res["repo_head"] = run(["git", "-C", REPO, "rev-parse", "--short", "HEAD"], "/")[1].strip()
    json.dump(res, open(os.path.join(sdir, "validation.json"), "w"), indent=1)
    ok = (res["demo_without_patch"] == "pass" and res["demo_with_patch"] == "fail" and res["build"] == "ok"
          and res["existing_tests_touched_pkgs"] == "pass")
    print("VALID" if ok else "INVALID")
    return 0 if ok else 1


def check(sdir, ids):
    meta = json.load(open(os.path.join(sdir, "meta.json")))
    ids = ids or [meta["property"]]
    with Worktree() as wt:
        rc, out = run(["git", "apply", os.path.join(os.path.abspath(sdir), "patch.diff")], wt)
        if rc != 0:
            print("patch does not apply:", out)
            return 2
        env = genv()
        env["VERIF_REPO"] = wt
        allc = True
        results = {}
        for pid in ids:
            rc, out = run([os.path.join(VERIF, "check"), pid, "--tier", os.environ.get("SEED_TIER", "quick")], VERIF,
                          env=env, timeout=3600)
            viol = [l for l in out.split("\n") if l.startswith("VIOLATION")]
            kind = "MISSED"
            if rc != 0 and viol:
                kind = "caught-nfi" if all("no-failing-input-found" in v for v in viol) else "caught-with-replay"
            print("%s: rc=%d %s" % (pid, rc, kind))
            print("\n".join("   " + l for l in out.strip().split("\n")[-8:]))
            results[pid] = dict(result=kind, rc=rc, violation_lines=viol[:6],
                                tier=os.environ.get("SEED_TIER", "quick"))
            if kind == "MISSED":
                allc = False
        import hashlib
        shutil.rmtree(os.path.join(VERIF, ".build", "scratch-" + hashlib.sha1(os.path.realpath(wt).encode()).hexdigest()[:10]),
                      ignore_errors=True)
        rp = os.path.join(sdir, "check_result.json")
        old = json.load(open(rp)) if os.path.exists(rp) else {}
        old.update(results)
        old["_repo_head"] = run(["git", "-C", REPO, "rev-parse", "--short", "HEAD"], "/")[1].strip()
        old["_verif_head"] = run(["git", "-C", VERIF, "rev-parse", "--short", "HEAD"], "/")[1].strip()
        json.dump(old, open(rp, "w"), indent=1)
    return 0 if allc else 1


if __name__ == "__main__":
    if len(sys.argv) < 3:
        print(__doc__)
        sys.exit(2)
    if sys.argv[1] == "validate":
        sys.exit(validate(sys.argv[2]))
    sys.exit(check(sys.argv[2], sys.argv[3:]))
