#!/usr/bin/env python3
"""Run a property's check against a behaviour-preserving refactor: tools/reftest.py refactors/<id>-rN [Cxx ...]
Applies patch.diff in a scratch worktree, runs `VERIF_REPO=<wt> ./check <id>`; expected result: exit 0 (no alarm).
Writes <dir>/check_result.json."""
import json, os, sys
sys.path.insert(0, os.path.dirname(os.path.abspath(__file__)))
import seedtest as st

def main(d, ids):
    meta = json.load(open(os.path.join(d, "meta.json")))
    ids = ids or [meta["property"]]
    res = {}
    with st.Worktree() as wt:
        rc, out = st.run(["git", "apply", os.path.join(os.path.abspath(d), "patch.diff")], wt)
        if rc != 0:
            print("patch does not apply:", out[:300]); return 2
        env = st.genv(); env["VERIF_REPO"] = wt
        for pid in ids:
            rc, out = st.run([os.path.join(st.VERIF, "check"), pid, "--tier", "quick"], st.VERIF, env=env, timeout=3600)
            viol = [l for l in out.split("\n") if l.startswith("VIOLATION")]
            kind = "quiet" if rc == 0 else ("alarm-nfi" if viol and all("no-failing-input-found" in v for v in viol) else "ALARM-with-replay")
            print("%s: rc=%d %s" % (pid, rc, kind))
            if rc != 0:
                print("\n".join("   " + l[:260] for l in out.strip().split("\n")[-10:]))
            res[pid] = dict(result=kind, rc=rc, violation_lines=viol[:6])
        import hashlib, shutil
        shutil.rmtree(os.path.join(st.VERIF, ".build", "scratch-" + hashlib.sha1(os.path.realpath(wt).encode()).hexdigest()[:10]), ignore_errors=True)
    json.dump(res, open(os.path.join(d, "check_result.json"), "w"), indent=1)
    return 0 if all(r["rc"] == 0 for r in res.values()) else 1

if __name__ == "__main__":
    sys.exit(main(sys.argv[1], sys.argv[2:]))
