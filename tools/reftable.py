#!/usr/bin/env python3
"""Regenerate DESIGN.md §15 (behaviour-preserving refactors: do the checks stay quiet?) from refactors/*/."""
import glob, json, os
HERE = os.path.dirname(os.path.dirname(os.path.abspath(__file__)))
rows = []
cnt = {}
for d in sorted(glob.glob(os.path.join(HERE, "refactors", "*"))):
    mp = os.path.join(d, "meta.json")
    if not os.path.exists(mp):
        continue
    m = json.load(open(mp))
    c = json.load(open(os.path.join(d, "check_result.json"))) if os.path.exists(os.path.join(d, "check_result.json")) else {}
    pid = m.get("property")
    r = c.get(pid, {})
    res = r.get("result", "not run")
    cnt[res] = cnt.get(res, 0) + 1
    files = ", ".join(m.get("files") or [])
    rows.append((os.path.basename(d), pid, files[:160],
                 (m.get("summary") or "").replace("|", "/").replace("\n", " ")[:260], res,
                 (m.get("note") or r.get("note") or "").replace("|", "/").replace("\n", " ")))
out = ["## 15. Behaviour-preserving refactors: the checks stay quiet (generated)", "",
       "The dual of §12. For every property a fresh sub-agent that saw only the property's text and a scratch worktree of",
       "/repo (nothing from /verif) wrote a 20–80-line refactor of the code the property is anchored in that preserves",
       "behaviour (extracted helpers, renamed unexported identifiers, restructured loops, cached values…), and showed that",
       "the project builds with and without `-tags verif` and the touched packages' and their dependents' tests pass.",
       "`tools/reftest.py <dir>` applies `patch.diff` in a scratch worktree and runs `VERIF_REPO=<wt> ./check <id>`;",
       "the expectation is exit 0. `quiet` = exit 0. `alarm-nfi` = the tie to the source broke (typically a harness that",
       "reads an unexported field that was renamed, so it no longer compiles) and the check reported",
       "`no-failing-input-found` — allowed by the brief, but each such coupling is a cost and is listed in the note.",
       "`ALARM-with-replay` would be a false alarm (a replay that claims the property fails on code where it holds) and",
       "is treated as a defect of the machinery: the note says what was corrected.", "",
       "Totals: " + ", ".join("%s %d" % kv for kv in sorted(cnt.items())) + ".", "",
       "| id | property | files | refactor | result of the property's check | note |",
       "|---|---|---|---|---|---|"]
for r in rows:
    out.append("| " + " | ".join(r) + " |")
text = "\n".join(out) + "\n"
p = os.path.join(HERE, "DESIGN.md")
s = open(p).read()
H = "## 15. Behaviour-preserving refactors"
i = s.find(H)
if i >= 0:
    j = s.find("\n## ", i + 5)
    j2 = s.find("\n------", i + 5)
    ends = [x for x in (j, j2) if x > 0]
    e = min(ends) if ends else len(s)
    s = s[:i] + text + s[e:]
else:
    k = s.find("## Appendix A.")
    k2 = s.rfind("\n------", 0, k)
    k = k2 + 1 if k2 > 0 and k - k2 < 200 else k
    s = s[:k] + text + "\n" + s[k:]
open(p, "w").write(s)
print("rows", len(rows), cnt)
