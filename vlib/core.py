"""Orchestrator for the kraken Lean-4 verification checks (python3 stdlib only).

./check Cxx --tier quick|thorough      run the check of one property
./check Cxx --replay FILE              re-run a recorded case against the real code and the model
./check --setup                        build every Lean target and warm the Go build cache
./check --gen-manifest                 regenerate MANIFEST.json from props/*.json

See DESIGN.md sections 3 and 4.
"""
import fcntl
import glob
import hashlib
import json
import os
import re
import shutil
import subprocess
import sys
import time

VERIF = os.path.dirname(os.path.dirname(os.path.abspath(__file__)))
REPO = os.environ.get("VERIF_REPO", "/repo")
LEAN = os.environ.get("VERIF_LEAN_DIR", os.path.join(VERIF, "lean"))
# runs against a scratch worktree (VERIF_REPO) get their own build directory so that they never
# disturb a concurrent run against /repo
BUILD = os.path.join(VERIF, ".build") if os.path.realpath(REPO) == "/repo" else os.path.join(
    VERIF, ".build", "scratch-" + hashlib.sha1(os.path.realpath(REPO).encode()).hexdigest()[:10])
ALLOWED_AXIOMS = {"propext", "Classical.choice", "Quot.sound"}
FORBIDDEN = [r"\bsorry\b", r"\badmit\b", r"^\s*axiom\s", r"\bnative_decide\b", r"\bbv_decide\b",
             r"\bimplemented_by\b", r"\bunsafe\s", r"maxHeartbeats\s+0\b", r"\bextern\b"]
TRUSTED_BASE = [
    "Lean 4.33 kernel (theorems are elaborated and kernel-checked by `lake build`; re-checked with leanchecker in the thorough tier)",
    "axioms reported by `#print axioms` for each property theorem, restricted to propext, Classical.choice, Quot.sound",
    "the hand-written Lean model is tied to /repo only by the correspondence harness (Go, compiled from the working tree with `go test -tags verif -overlay`), its canonicalisation and the Lean driver's parser: differential testing bounded by the generators",
    "Lean compiler for the driver executable only (same definitions the theorems are about)",
    "Go runtime and standard/third-party libraries, hash functions (SHA-256, CRC-32, murmur3) are modelled as parameters, not verified",
]


def go_env():
    env = dict(os.environ)
    env["GOFLAGS"] = "-mod=mod"
    env["GOPROXY"] = "off"
    env.setdefault("GOTOOLCHAIN", "auto")
    return env


def sh(cmd, cwd=None, env=None, timeout=None, stdin=None):
    """Run a command, return (rc, combined output)."""
    try:
        p = subprocess.run(cmd, cwd=cwd, env=env, stdout=subprocess.PIPE, stderr=subprocess.STDOUT,
                           timeout=timeout, stdin=stdin, text=True, errors="replace")
        return p.returncode, p.stdout
    except subprocess.TimeoutExpired as e:
        out = e.stdout or ""
        if isinstance(out, bytes):
            out = out.decode(errors="replace")
        return 124, out + "\n[timeout after %ss]" % timeout


class LakeLock:
    """Serialises lake invocations that write into lean/.lake (several checks may run in parallel)."""

    def __enter__(self):
        os.makedirs(LEAN, exist_ok=True)
        self.f = open(os.path.join(LEAN, ".lake.lock"), "w")
        fcntl.flock(self.f, fcntl.LOCK_EX)
        return self

    def __exit__(self, *a):
        fcntl.flock(self.f, fcntl.LOCK_UN)
        self.f.close()


def load_prop(pid):
    path = os.path.join(VERIF, "props", pid + ".json")
    with open(path) as f:
        return json.load(f)


def all_props():
    out = []
    for p in sorted(glob.glob(os.path.join(VERIF, "props", "C*.json"))):
        with open(p) as f:
            out.append(json.load(f))
    return out


def load_known():
    """Known findings: known/Cxx.json files (one per property, committed, never written by a check)."""
    out = {"findings": [], "fixed": []}
    for path in sorted(glob.glob(os.path.join(VERIF, "known", "C*.json"))):
        with open(path) as f:
            d = json.load(f)
        out["findings"] += d.get("findings", [])
        out["fixed"] += d.get("fixed", [])
    return out


# ----------------------------------------------------------------------------- Lean side

def strip_lean_comments(src):
    # remove block comments (nested not handled beyond one level, good enough for a grep) and line comments
    out = []
    i, depth, n = 0, 0, len(src)
    while i < n:
        if src.startswith("/-", i):
            depth += 1
            i += 2
        elif depth > 0 and src.startswith("-/", i):
            depth -= 1
            i += 2
        elif depth > 0:
            if src[i] == "\n":
                out.append("\n")
            i += 1
        elif src.startswith("--", i):
            while i < n and src[i] != "\n":
                i += 1
        elif src[i] == '"':
            # string literal: skip (forbidden words inside strings are harmless)
            j = i + 1
            while j < n and src[j] != '"':
                j += 2 if src[j] == "\\" else 1
            out.append('""')
            i = j + 1
        else:
            out.append(src[i])
            i += 1
    return "".join(out)


def lean_imports_closure(rel_file):
    """Project-local .lean files transitively imported by rel_file (paths relative to LEAN)."""
    seen, todo = [], [rel_file]
    while todo:
        f = todo.pop()
        if f in seen or not os.path.exists(os.path.join(LEAN, f)):
            continue
        seen.append(f)
        for m in re.findall(r"^import\s+(\S+)", open(os.path.join(LEAN, f)).read(), re.M):
            if m.startswith("KrakenModel") or m.startswith("Driver"):
                todo.append(m.replace(".", "/") + ".lean")
    return seen


def forbidden_hits(files):
    hits = []
    for f in files:
        src = strip_lean_comments(open(os.path.join(LEAN, f)).read())
        for ln, line in enumerate(src.split("\n"), 1):
            for pat in FORBIDDEN:
                if re.search(pat, line):
                    hits.append("%s:%d: %s" % (f, ln, line.strip()[:120]))
    return hits


def theorems_in(rel_file):
    """Fully qualified names of the theorems declared in a Lean file (namespace tracking)."""
    src = strip_lean_comments(open(os.path.join(LEAN, rel_file)).read())
    ns, names = [], []
    for line in src.split("\n"):
        m = re.match(r"^\s*namespace\s+(\S+)", line)
        if m:
            ns.append(m.group(1))
            continue
        m = re.match(r"^\s*end\s+(\S+)\s*$", line)
        if m and ns and ns[-1] == m.group(1):
            ns.pop()
            continue
        m = re.match(r"^\s*(?:@\[[^\]]*\]\s*)?(?:private\s+|protected\s+)?theorem\s+([^\s:({\[]+)", line)
        if m:
            names.append(".".join(ns + [m.group(1)]))
    return names


def enclosing_theorem(rel_file, line):
    """Name of the last theorem/lemma/def declared at or before `line` of a Lean file."""
    try:
        src = open(os.path.join(LEAN, rel_file)).read().split("\n")
    except OSError:
        return None
    for i in range(min(line, len(src)) - 1, -1, -1):
        m = re.match(r"^\s*(?:@\[[^\]]*\]\s*)?(?:private\s+|protected\s+)?(?:theorem|lemma|def|instance|example)\s*([^\s:({\[]*)", src[i])
        if m:
            return "%s (%s:%d)" % (m.group(1) or "example", rel_file, i + 1)
    return None


def lean_obligations(prop, tier, log):
    """Build the property's Lean targets and audit its theorems.

    Returns dict(obligations, discharged, failures[list of str], theorems[list], axioms{name:[..]}, checker_cmd).
    """
    L = prop["lean"]
    spec_files = L["spec_files"]
    targets = [f[:-5].replace("/", ".") for f in spec_files] + [L["exe"]]
    failures = []
    checker_cmd = "cd %s && lake build %s && lake env lean .audit/%s.lean" % (LEAN, " ".join(targets), prop["id"])
    with LakeLock():
        drc, dout = sh(["lake", "build", L["exe"]], cwd=LEAN, timeout=3600)
        rc, out = sh(["lake", "build"] + targets[:-1], cwd=LEAN, timeout=3600)
    log.write("== lake build %s (rc=%d)\n%s\n" % (L["exe"], drc, dout[-6000:]))
    log.write("== lake build %s (rc=%d)\n%s\n" % (" ".join(targets[:-1]), rc, out[-6000:]))
    thms = []
    for f in spec_files:
        if os.path.exists(os.path.join(LEAN, f)):
            thms += theorems_in(f)
        else:
            failures.append("spec file missing: " + f)
    required = L.get("required_theorems", [])
    for r in required:
        if r not in thms:
            failures.append("required theorem missing from the Spec file: " + r)
            thms.append(r)
    obligations = len(thms) + 1
    axioms = {}
    if drc != 0:
        errs = [l for l in dout.split("\n") if "error" in l][:8]
        failures.append("the model driver does not build: " + " | ".join(errs))
    if rc != 0:
        errs = [l for l in out.split("\n") if "error" in l][:8]
        named = []
        for m in re.finditer(r"error: (\S+\.lean):(\d+):", out):
            t = enclosing_theorem(m.group(1), int(m.group(2)))
            if t and t not in named:
                named.append(t)
        failures.append("lake build failed%s: %s" % (
            (" in theorem(s) " + ", ".join(named)) if named else "", " | ".join(errs)))
    if rc != 0 or drc != 0:
        return dict(obligations=obligations, discharged=0, failures=failures, theorems=thms, axioms=axioms,
                    checker_cmd=checker_cmd, build_ok=(drc == 0))
    # forbidden constructs in everything the spec and the driver import
    files = []
    for f in spec_files + [L.get("driver_file", "Driver/%s.lean" % prop["id"])]:
        for g in lean_imports_closure(f):
            if g not in files:
                files.append(g)
    hits = forbidden_hits(files)
    discharged = 0
    if hits:
        failures.append("forbidden construct: " + "; ".join(hits[:5]))
    else:
        discharged += 1
    # axiom audit
    os.makedirs(os.path.join(LEAN, ".audit"), exist_ok=True)
    audit = os.path.join(LEAN, ".audit", prop["id"] + ".lean")
    with open(audit, "w") as f:
        for sf in spec_files:
            f.write("import %s\n" % sf[:-5].replace("/", "."))
        for t in thms:
            f.write("#print axioms %s\n" % t)
    rc, out = sh(["lake", "env", "lean", audit], cwd=LEAN, timeout=1800)
    log.write("== axiom audit (rc=%d)\n%s\n" % (rc, out[-8000:]))
    flat = re.sub(r"\s+", " ", out)
    for t in thms:
        m = re.search(r"'%s' depends on axioms: \[([^\]]*)\]" % re.escape(t), flat)
        if m:
            ax = [a.strip() for a in m.group(1).split(",") if a.strip()]
        elif re.search(r"'%s' does not depend on any axioms" % re.escape(t), flat):
            ax = []
        else:
            failures.append("theorem not found by the audit: " + t)
            continue
        axioms[t] = ax
        bad = [a for a in ax if a not in ALLOWED_AXIOMS]
        if bad:
            failures.append("theorem %s depends on non-permitted axioms %s" % (t, bad))
        else:
            discharged += 1
    if tier == "thorough" and not failures:
        obligations += 1
        mods = [f[:-5].replace("/", ".") for f in spec_files]
        rc, out = sh(["lake", "env", "leanchecker"] + mods, cwd=LEAN, timeout=3600)
        log.write("== leanchecker (rc=%d)\n%s\n" % (rc, out[-3000:]))
        if rc == 0:
            discharged += 1
        else:
            failures.append("leanchecker rejected the compiled modules: " + out[-300:])
        checker_cmd += " && lake env leanchecker " + " ".join(mods)
    return dict(obligations=obligations, discharged=discharged, failures=failures, theorems=thms, axioms=axioms,
                checker_cmd=checker_cmd, build_ok=True)


# ----------------------------------------------------------------------------- Go side

def overlay_for(prop, h, bdir):
    """Write the overlay json that injects the harness files of one harness entry into /repo."""
    rep = {}
    for root, _, files in os.walk(os.path.join(VERIF, "harness", "utils", "verifh")):
        for fn in files:
            if fn.endswith(".go"):
                rep[os.path.join(REPO, "utils", "verifh", fn)] = os.path.join(root, fn)
    for fn in h.get("files", []):
        rep[os.path.join(REPO, h["pkg"], fn)] = os.path.join(VERIF, "harness", h["pkg"], fn)
    for extra in h.get("extra_overlay", []):   # {"repo": relpath, "src": relpath under /verif/harness}
        rep[os.path.join(REPO, extra["repo"])] = os.path.join(VERIF, "harness", extra["src"])
    path = os.path.join(bdir, "overlay_%s.json" % h.get("name", "h"))
    with open(path, "w") as f:
        json.dump({"Replace": rep}, f, indent=1)
    return path


def build_harness(prop, h, idx, tier, log):
    """Compile the test binary of one harness entry from /repo's working tree. Returns (path|None, output)."""
    bdir = os.path.join(BUILD, prop["id"])
    os.makedirs(bdir, exist_ok=True)
    h = dict(h)
    h.setdefault("name", "h%d" % idx)
    ov = overlay_for(prop, h, bdir)
    race = tier == "thorough" and h.get("race_thorough", False)
    binp = os.path.join(bdir, "%s%s.test" % (h["name"], "_race" if race else ""))
    if os.path.exists(binp):
        os.remove(binp)
    cmd = ["go", "test", "-c", "-vet=off", "-tags", "verif", "-overlay", ov, "-o", binp]
    if race:
        cmd.append("-race")
    cmd.append("./" + h["pkg"])
    rc, out = sh(cmd, cwd=REPO, env=go_env(), timeout=1800)
    log.write("== %s (rc=%d)\n%s\n" % (" ".join(cmd), rc, out[-6000:]))
    if rc != 0 or not os.path.exists(binp):
        return None, out
    return binp, out


def parse_driver(out):
    res = dict(summary={}, branches={}, problems=[], caselines={}, failed_cases=[])
    for line in out.split("\n"):
        if line.startswith("SUMMARY "):
            for kv in line.split()[1:]:
                k, _, v = kv.partition("=")
                res["summary"][k] = int(v) if v.isdigit() else v
        elif line.startswith("BRANCH "):
            p = line.split()
            if len(p) == 3:
                res["branches"][p[1]] = int(p[2])
        elif line.startswith("CASELINE "):
            p = line.split(" ", 2)
            res["caselines"].setdefault(int(p[1]), []).append(p[2] if len(p) > 2 else "")
        elif line.startswith("CASE "):
            p = line.split(" ", 3)
            cid = int(p[1])
            kind = p[2]
            rest = p[3] if len(p) > 3 else ""
            if kind == "FAIL":
                res["failed_cases"].append(cid)
            else:
                key = None
                m = re.search(r"\bkey=(\S+)", rest)
                if m:
                    key = m.group(1)
                res["problems"].append(dict(case=cid, kind=kind, key=key, text=rest))
    return res


def run_harness(prop, h, idx, binp, tier, seed, log, replay=None, timeout=None):
    """Run one harness entry, streaming its transcript through the Lean driver. Returns dict."""
    bdir = os.path.join(BUILD, prop["id"])
    name = h.get("name", "h%d" % idx)
    fifo = os.path.join(bdir, "%s.%d.fifo" % (name, os.getpid()))
    stats_path = os.path.join(bdir, "%s.%d.stats.json" % (name, os.getpid()))
    for p in (fifo, stats_path):
        if os.path.exists(p):
            os.remove(p)
    os.mkfifo(fifo)
    env = go_env()
    env.update(VERIF_SEED=str(seed), VERIF_TIER=tier, VERIF_OUT=fifo, VERIF_STATS=stats_path,
               VERIF_CORPUS=os.path.join(VERIF, "corpus", prop["id"]), VERIF_DIR=VERIF, VERIF_REPO=REPO)
    env.pop("VERIF_REPLAY", None)
    if replay:
        env["VERIF_REPLAY"] = replay
    if timeout is None:
        timeout = h.get("timeout_" + tier, 600 if tier == "quick" else 3600)
    exe = os.path.join(LEAN, ".lake", "build", "bin", prop["lean"]["exe"])
    machine = h.get("machine", prop.get("machine"))
    if h.get("kind", "gotest") == "cmd":
        cmd = [c.replace("{bin}", binp or "") for c in h["cmd"]]
        cwd = VERIF
    else:
        cmd = [binp, "-test.run", "^%s$" % h["run"], "-test.count=1", "-test.timeout", "%ds" % (timeout + 60)]
        if h.get("verbose"):
            cmd.append("-test.v")
        cwd = os.path.join(REPO, h["pkg"])
    t0 = time.time()
    # The orchestrator owns both ends of the fifo: the read end becomes the driver's stdin before the
    # harness starts (so nothing the harness writes can be lost, however small or fast it is), and a
    # write end is held until the harness has exited (so the driver sees EOF exactly then).
    rfd = os.open(fifo, os.O_RDONLY | os.O_NONBLOCK)
    wfd = os.open(fifo, os.O_WRONLY)
    fcntl.fcntl(rfd, fcntl.F_SETFL, fcntl.fcntl(rfd, fcntl.F_GETFL) & ~os.O_NONBLOCK)
    # the driver writes to a file, not a pipe: with many failing cases its output exceeds the pipe
    # buffer and it would stop draining the fifo while we wait for the harness (deadlock)
    dout_path = os.path.join(bdir, "%s.%d.drv.out" % (name, os.getpid()))
    dout_f = open(dout_path, "w+")
    dp = subprocess.Popen([exe, machine], stdin=rfd, stdout=dout_f, stderr=subprocess.STDOUT, close_fds=True)
    os.close(rfd)
    hp = subprocess.Popen(cmd, cwd=cwd, env=env, stdout=subprocess.PIPE, stderr=subprocess.STDOUT, text=True,
                          errors="replace", close_fds=True)
    try:
        hout, _ = hp.communicate(timeout=timeout)
        hrc = hp.returncode
    except subprocess.TimeoutExpired:
        hp.kill()
        hout, _ = hp.communicate()
        hrc = 124
        hout += "\n[harness timeout after %ss]" % timeout
    os.close(wfd)
    try:
        drc = dp.wait(timeout=600)
    except subprocess.TimeoutExpired:
        dp.kill()
        dp.wait()
        drc = 124
    dout_f.seek(0)
    dout = dout_f.read(64 << 20)
    dout_f.close()
    os.remove(dout_path)
    os.remove(fifo)
    stats = {}
    if os.path.exists(stats_path):
        try:
            stats = json.load(open(stats_path))
        except Exception:
            stats = {}
        os.remove(stats_path)
    res = parse_driver(dout)
    res.update(harness_rc=hrc, driver_rc=drc, harness_out=hout[-4000:], stats=stats, wall=time.time() - t0, name=name)
    log.write("== harness %s rc=%d driver rc=%d wall=%.1fs\n%s\n-- driver:\n%s\n" % (
        name, hrc, drc, res["wall"], hout[-3000:], "\n".join(dout.split("\n")[:60]) + "\n...\n" + "\n".join(dout.split("\n")[-40:])))
    return res


# ----------------------------------------------------------------------------- shrinking

def shrink_case(prop, h, idx, binp, lines, want, seed, log, budget_s=60):
    """ddmin over the op lines of one failing case. `want` = (kind, key). Returns the reduced line list."""
    if h.get("kind", "gotest") == "cmd" or h.get("no_shrink"):
        return lines
    machine = h.get("machine", prop.get("machine"))
    head = [l for l in lines if l.split()[1:2] == ["cfg"]]
    body = [l for l in lines if l.split()[1:2] not in (["cfg"], ["end"], ["propfail"])]
    if len(body) <= 1:
        return lines
    bdir = os.path.join(BUILD, prop["id"])
    t0 = time.time()

    def still_fails(cands):
        """Run all candidate bodies in one harness invocation; return index of the first that still fails or None."""
        path = os.path.join(bdir, "shrink.%d.ops" % os.getpid())
        with open(path, "w") as f:
            for c in cands:
                for l in (head or [machine + " cfg"]):
                    f.write(l + "\n")
                for l in c:
                    f.write(l + "\n")
                f.write(machine + " end\n")
        res = run_harness(prop, h, idx, binp, "quick", seed, log, replay=path, timeout=120)
        os.remove(path)
        bad = {}
        for p in res["problems"]:
            if p["kind"] == want[0] and (want[1] is None or p["key"] == want[1]):
                bad.setdefault(p["case"], True)
        for i in range(len(cands)):
            if i in bad:
                return i
        return None

    n = 2
    cur = body
    while len(cur) >= 2 and time.time() - t0 < budget_s:
        chunk = max(1, len(cur) // n)
        cands = []
        for i in range(0, len(cur), chunk):
            cands.append(cur[:i] + cur[i + chunk:])
        cands = [c for c in cands if c]
        if not cands:
            break
        k = still_fails(cands)
        if k is not None:
            cur = cands[k]
            n = max(n - 1, 2)
        else:
            if chunk == 1:
                break
            n = min(len(cur), n * 2)
    return (head or [machine + " cfg"]) + cur + [machine + " end"]


# ----------------------------------------------------------------------------- verdict

def write_replay(prop, seed, tag, lines, header):
    d = os.path.join(VERIF, "replays")
    os.makedirs(d, exist_ok=True)
    path = os.path.join(d, "%s-%s-%s.%s" % (prop["id"], seed, tag, "ops" if lines is not None else "txt"))
    with open(path, "w") as f:
        for hl in header:
            f.write("# " + hl + "\n")
        for l in (lines or []):
            f.write(l + "\n")
    return path


def run_check(pid, tier, seed, replay=None):
    t0 = time.time()
    prop = load_prop(pid)
    os.makedirs(os.path.join(BUILD, pid), exist_ok=True)
    os.makedirs(os.path.join(VERIF, "evidence"), exist_ok=True)
    logp = os.path.join(BUILD, pid, "last.log")
    log = open(logp, "w")
    known = load_known()
    known_keys = {f["key"]: f for f in known.get("findings", []) if f["property"] == pid}

    lean = lean_obligations(prop, tier, log)
    violations = []      # (replay_path, no_failing_input: bool, text)
    known_hit = {}
    corr_problems = []   # DIFF / BADLINE / harness failures (correspondence not established)
    prop_fails = []      # (harness idx, problem, case lines)
    results = []
    bins = {}

    harnesses = prop.get("harness", [])
    driver_ok = lean["build_ok"]
    for idx, h in enumerate(harnesses):
        if h.get("thorough_only") and tier != "thorough" and not replay:
            continue
        if not driver_ok:
            corr_problems.append("harness %d not run: the Lean driver did not build" % idx)
            continue
        binp = None
        if h.get("kind", "gotest") == "gotest" or h.get("needs_bin"):
            binp, bout = build_harness(prop, h, idx, tier, log)
            if binp is None:
                errs = [l for l in bout.split("\n") if l.strip()][:12]
                corr_problems.append("harness %s does not compile against the working tree: %s" % (
                    h.get("name", idx), " | ".join(errs)))
                continue
        bins[idx] = binp
        if replay and h.get("machine", prop.get("machine")) not in open(replay).read():
            continue
        res = run_harness(prop, h, idx, binp, tier, seed, log, replay=replay)
        if res["harness_rc"] == 124 and not res["problems"] and not replay:
            # The wall-clock budget ran out with nothing wrong seen so far: on a heavily loaded machine the
            # harness is merely slow. Run it once more with four times the budget; a real hang times out
            # again and is reported below, a slow run completes and is judged on its full transcript.
            t1 = 4 * h.get("timeout_" + tier, 600 if tier == "quick" else 3600)
            log.write("== harness %s hit its time budget with no problem seen; one retry with %ds\n" % (res["name"], t1))
            res = run_harness(prop, h, idx, binp, tier, seed, log, replay=replay, timeout=t1)
            res["retried_after_timeout"] = True
        results.append((idx, h, res))
        if res["harness_rc"] != 0 or res["driver_rc"] != 0 or not res["summary"] or not res["summary"].get("complete"):
            corr_problems.append("harness %s did not complete (rc=%s, driver rc=%s): %s" % (
                res["name"], res["harness_rc"], res["driver_rc"], res["harness_out"][-600:].replace("\n", " | ")))
        for p in res["problems"]:
            lines = res["caselines"].get(p["case"])
            if p["kind"] == "PROPFAIL":
                if p["key"] in known_keys:
                    known_hit.setdefault(p["key"], p)
                else:
                    prop_fails.append((idx, p, lines))
            else:
                corr_problems.append("%s case %d: %s" % (p["kind"], p["case"], p["text"][:400]))
                if lines and len([c for c in corr_problems if c.startswith(("DIFF", "BADLINE"))]) <= 3:
                    p["_lines"] = lines
                    p["_idx"] = idx

    # ---- generator reach: model branches that the run must exercise at least N times (props
    # "required_branches": {"<branch id>": N, ...}, optionally per tier: {"quick": {...}, "thorough": {...}}).
    # A run in which the monitored domain is never entered proves nothing about the implementation, so a
    # branch below its minimum means the correspondence was not established.
    req = prop.get("required_branches") or {}
    if req and any(isinstance(v, dict) for v in req.values()):
        req = req.get(tier) or req.get("quick") or {}
    if req and not replay and results:
        seen = {}
        for _, _, r in results:
            for k, v in r["branches"].items():
                seen[k] = seen.get(k, 0) + v
        for b, n in sorted(req.items()):
            if seen.get(b, 0) < int(n):
                corr_problems.append("model branch %s was exercised %d times by this run, at least %d required "
                                     "(the generators no longer reach the domain the monitors judge)" % (
                                         b, seen.get(b, 0), int(n)))

    # ---- a predicate failure on the real code: shrink and report with the case as the replay
    reported = set()
    for idx, p, lines in prop_fails:
        if p["key"] in reported:
            continue
        reported.add(p["key"])
        h = harnesses[idx]
        if lines and not replay:
            try:
                lines = shrink_case(prop, h, idx, bins.get(idx), lines, ("PROPFAIL", p["key"]), seed, log)
            except Exception as e:  # shrinking is best effort
                log.write("shrink failed: %r\n" % (e,))
        path = write_replay(prop, seed, (p["key"] or "propfail"), lines or [],
                            ["property %s: predicate failure on the real code: %s" % (pid, p["text"]),
                             "replay: cd /verif && ./check %s --replay <this file>" % pid, "seed %s tier %s" % (seed, tier)])
        violations.append((path, False, p["text"]))

    # ---- correspondence or proof obligations broken without a predicate failure: search, then report
    undischarged = lean["failures"]
    if (corr_problems or undischarged) and not violations:
        found = None
        if not replay and tier == "quick" and driver_ok:
            # search for a failing input at the thorough depth, around the same seed
            for idx, h in enumerate(harnesses):
                if idx not in bins:
                    continue
                res = run_harness(prop, h, idx, bins[idx], "thorough", seed, log,
                                  timeout=h.get("timeout_search", 300))
                for p in res["problems"]:
                    if p["kind"] == "PROPFAIL" and p["key"] not in known_keys:
                        found = (idx, p, res["caselines"].get(p["case"]))
                        break
                if found:
                    break
        if found:
            idx, p, lines = found
            path = write_replay(prop, seed, (p["key"] or "propfail"), lines or [],
                                ["property %s: predicate failure on the real code (found by the search after a broken correspondence/proof): %s" % (pid, p["text"]),
                                 "replay: cd /verif && ./check %s --replay <this file>" % pid])
            violations.append((path, False, p["text"]))
        else:
            hdr = ["property %s is no longer shown to hold; no failing input was found by the search" % pid]
            for u in undischarged:
                hdr.append("proof obligation that no longer checks: " + u)
            for c in corr_problems[:10]:
                hdr.append("correspondence that no longer checks: " + c)
            lines = None
            for idx, h, res in results:
                for p in res["problems"]:
                    if "_lines" in p:
                        lines = p["_lines"]
                        break
                if lines:
                    break
            path = write_replay(prop, seed, "nfi", lines, hdr)
            violations.append((path, True, "; ".join((undischarged + corr_problems)[:3])[:300]))

    # ---- evidence
    evaluations = sum(r["summary"].get("cases", 0) for _, _, r in results)
    distinct = sum(r["summary"].get("distinct", 0) for _, _, r in results)
    ops = sum(r["summary"].get("ops", 0) for _, _, r in results)
    branches = {}
    gen_stats = {}
    samples = []
    for _, h, r in results:
        for k, v in r["branches"].items():
            branches[k] = branches.get(k, 0) + v
        gen_stats[r["name"]] = r["stats"].get("stats") or {}
        for s in (r["stats"].get("samples") or [])[:3]:
            samples.append({"harness": r["name"], "case": s})
    for t in lean["theorems"][:40]:
        samples.append({"obligation": t, "axioms": lean["axioms"].get(t)})
    cov = dict(
        obligations=lean["obligations"], discharged=lean["discharged"], checker_cmd=lean["checker_cmd"],
        trusted_base=TRUSTED_BASE + prop.get("trusted_base_extra", []),
        evaluations=evaluations, distinct_nontrivial=distinct,
        rule=prop.get("nontrivial_rule", "cases are generated by the Go harness (corpus, bounded-exhaustive, seeded random); a case counts as distinct and non-trivial when its transcript differs from every earlier one of the run and at least one record was replayed on the model (counted by the Lean driver)"),
        samples=samples or [{"note": "no case was executed"}],
        traces_validated_against_impl=evaluations - sum(len(r["failed_cases"]) for _, _, r in results),
        model_records_replayed=ops, model_branches=branches, generator_distribution=gen_stats,
        theorems=lean["theorems"], undischarged=lean["failures"],
        correspondence_problems=corr_problems[:20],
        known_findings_seen=sorted(known_hit.keys()),
        exhaustive=False,
    )
    ev = dict(property_id=pid, tier=tier, seed=int(seed), level=prop["level"]["category"], coverage=cov,
              assumptions=prop.get("assumptions", []), wall_s=round(time.time() - t0, 2),
              violations=len(violations))
    # evidence is only (re)written by runs against /repo itself; runs against a scratch worktree
    # (VERIF_REPO, used for mutation testing) leave their record under .build/
    evp = (os.path.join(VERIF, "evidence", pid + ".json") if os.path.realpath(REPO) == "/repo" and not replay
           else os.path.join(BUILD, pid, "evidence-scratch.json"))
    with open(evp, "w") as f:
        json.dump(ev, f, indent=1)
    log.close()

    # ---- verdict lines
    for key, p in sorted(known_hit.items()):
        print("KNOWN-FINDING: property=%s key=%s %s" % (pid, key, known_keys[key].get("what", "")))
    print("%s tier=%s seed=%s obligations=%d/%d cases=%d distinct=%d records=%d wall=%.1fs log=%s" % (
        pid, tier, seed, lean["discharged"], lean["obligations"], evaluations, distinct, ops, time.time() - t0, logp))
    if violations:
        for path, nfi, text in violations:
            print("  " + text[:300])
            print("VIOLATION property=%s replay=%s%s" % (pid, path, " no-failing-input-found" if nfi else ""))
        return 1
    return 0


# ----------------------------------------------------------------------------- setup / manifest

def setup():
    props = all_props()
    targets = []
    for p in props:
        targets += [f[:-5].replace("/", ".") for f in p["lean"]["spec_files"]] + [p["lean"]["exe"]]
    with LakeLock():
        rc, out = sh(["lake", "build"] + sorted(set(targets)), cwd=LEAN, timeout=7200)
    print(out[-3000:])
    if rc != 0:
        print("setup: lake build failed")
        return 1
    # warm the Go build cache: compile every harness once
    log = open(os.path.join(BUILD, "setup.log"), "w") if os.path.isdir(BUILD) or not os.makedirs(BUILD) else None
    bad = 0
    for p in props:
        for idx, h in enumerate(p.get("harness", [])):
            if h.get("kind", "gotest") == "gotest" or h.get("needs_bin"):
                binp, _ = build_harness(p, h, idx, "quick", log)
                if binp is None:
                    print("setup: harness of %s did not compile (see %s)" % (p["id"], log.name))
                    bad += 1
    log.close()
    return 0 if bad == 0 else 1


def gen_manifest():
    props = all_props()
    claimed = {p["id"] for p in props}
    checks = []
    for p in props:
        checks.append(dict(
            property_id=p["id"],
            quick_cmd="./check %s --tier quick" % p["id"],
            thorough_cmd="./check %s --tier thorough" % p["id"],
            evidence_file="/verif/evidence/%s.json" % p["id"],
            replay_cmd_template="./check %s --replay {path}" % p["id"],
            engine="lean4-model+correspondence",
            level_claimed=p["level"],
            level_note=p["level_note"],
            technique=p["technique"],
        ))
    na = []
    na_path = os.path.join(VERIF, "props", "not_applicable.json")
    na_decl = json.load(open(na_path)) if os.path.exists(na_path) else []
    with open(os.path.join(VERIF, "properties.jsonl")) as f:
        ids = [json.loads(l)["id"] for l in f if l.strip()]
    decl = {e["property_id"]: e["reason"] for e in na_decl}
    for i in ids:
        if i not in claimed:
            na.append(dict(property_id=i, reason=decl.get(i, "not claimed yet: the model, theorems and correspondence harness for this property are not finished (see DESIGN.md, Appendix C); the technique applies")))
    hooks_path = os.path.join(VERIF, "props", "hooks.json")
    hooks = json.load(open(hooks_path))
    man = dict(
        version=1,
        setup_cmd="./check --setup",
        hooks=hooks,
        engines=[dict(name="lean4-model+correspondence", path="/verif/lean + /verif/harness + /verif/check",
                      serves_properties=sorted(claimed),
                      kind_free_text="Lean 4 theorems about hand-written executable models (lake build + #print axioms audit), tied to /repo by Go correspondence harnesses compiled from the working tree via go test -overlay and replayed on the compiled Lean model driver")],
        checks=checks,
        notes="See DESIGN.md. Each check rebuilds the Lean obligations and the Go harness from the current trees; known findings are listed in known_findings.json.",
        not_applicable=na,
    )
    with open(os.path.join(VERIF, "MANIFEST.json"), "w") as f:
        json.dump(man, f, indent=1)
    with open(os.path.join(VERIF, "known_findings.json"), "w") as f:
        json.dump(load_known(), f, indent=1)
    print("MANIFEST.json: %d checks, %d not claimed" % (len(checks), len(na)))
    return 0


def main(argv):
    if "--setup" in argv:
        return setup()
    if "--gen-manifest" in argv:
        return gen_manifest()
    if not argv or not re.match(r"^C\d+$", argv[0]):
        print(__doc__)
        return 2
    pid = argv[0]
    tier = os.environ.get("VERIF_TIER") or "quick"
    replay = None
    i = 1
    while i < len(argv):
        if argv[i] == "--tier":
            tier = argv[i + 1]
            i += 2
        elif argv[i] == "--replay":
            replay = os.path.abspath(argv[i + 1])
            i += 2
        else:
            i += 1
    if tier not in ("quick", "thorough"):
        tier = "quick"
    seed = os.environ.get("VERIF_SEED", "1")
    try:
        seed = str(int(seed))
    except ValueError:
        seed = str(int(hashlib.sha1(seed.encode()).hexdigest()[:8], 16))
    return run_check(pid, tier, seed, replay)
