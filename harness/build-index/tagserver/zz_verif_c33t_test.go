//go:build verif

package tagserver_test

// C33, build-index side: a tag that matches several configured remote build-indexes must be queued for
// replication to every one of them (PUT ?replicate=true and POST /remotes/tags/<tag> on the real tag
// server → replicateTag).  The replication manager here keeps the tasks it is handed exactly as the real
// manager's channel does — by reference — and they are read after the request returned.

import (
	"context"
	"fmt"
	"sort"
	"strconv"
	"sync"
	"testing"
	"time"

	"github.com/uber-go/tally"
	"go.opentelemetry.io/otel/trace/noop"
	"go.uber.org/zap"

	"github.com/uber/kraken/build-index/tagclient"
	"github.com/uber/kraken/build-index/tagserver"
	"github.com/uber/kraken/build-index/tagstore"
	"github.com/uber/kraken/core"
	"github.com/uber/kraken/lib/backend"
	"github.com/uber/kraken/lib/persistedretry"
	"github.com/uber/kraken/lib/persistedretry/tagreplication"
	"github.com/uber/kraken/utils/httputil"
	"github.com/uber/kraken/utils/log"
	"github.com/uber/kraken/utils/testutil"
	"github.com/uber/kraken/utils/verifh"
)

type c33tStore struct {
	mu   sync.Mutex
	tags map[string]core.Digest
}

func (s *c33tStore) Put(ctx context.Context, tag string, d core.Digest, delay time.Duration) error {
	s.mu.Lock()
	defer s.mu.Unlock()
	s.tags[tag] = d
	return nil
}

func (s *c33tStore) Get(tag string) (core.Digest, error) {
	s.mu.Lock()
	defer s.mu.Unlock()
	d, ok := s.tags[tag]
	if !ok {
		return core.Digest{}, tagstore.ErrTagNotFound
	}
	return d, nil
}

// the queue of the replication manager: the tasks as handed over (references, like a channel of Task)
type c33tMgr struct {
	mu    sync.Mutex
	queue []persistedretry.Task
}

func (m *c33tMgr) Add(t persistedretry.Task) error {
	m.mu.Lock()
	defer m.mu.Unlock()
	m.queue = append(m.queue, t)
	return nil
}
func (m *c33tMgr) SyncExec(persistedretry.Task) error { return fmt.Errorf("not supported") }
func (m *c33tMgr) Close()                             {}
func (m *c33tMgr) Find(interface{}) ([]persistedretry.Task, error) {
	return nil, fmt.Errorf("not supported")
}

func (m *c33tMgr) dump() string {
	m.mu.Lock()
	defer m.mu.Unlock()
	var out []string
	for _, t := range m.queue {
		if x, ok := t.(*tagreplication.Task); ok {
			out = append(out, fmt.Sprintf("%s:%s:%d", x.Tag, x.Destination, len(x.Dependencies)))
		} else {
			out = append(out, "?")
		}
	}
	sort.Strings(out)
	return "q=" + verifh.List(out)
}

// remote build-indexes with overlapping patterns: r0 every tag, r1 t1 and t2, r2 t2 only
var c33tRemotes = func() tagreplication.Remotes {
	r, err := tagreplication.RemotesConfig{"r0": {".*"}, "r1": {"^t[12]$"}, "r2": {"^t2$"}}.Build()
	if err != nil {
		panic(err)
	}
	return r
}()

func c33tRun(tr *verifh.T, c verifh.Case) {
	tr.Cfg()
	defer tr.End()
	st := &c33tStore{tags: map[string]core.Digest{}}
	mgr := &c33tMgr{}
	dep := c32DigestTab[c32Digests]
	origin := &c32Origin{answers: map[string]string{dep.Hex(): "ok"}}
	deps := &c32Deps{deps: core.DigestList{dep}}
	srv := tagserver.New(tagserver.Config{}, tally.NoopScope, backend.ManagerFixture(), "local-origin", origin, c32NoNeighbors{}, st,
		c33tRemotes, mgr, tagclient.NewProvider(nil), deps, noop.NewTracerProvider().Tracer("verif"))
	addr, stop := testutil.StartServer(srv.Handler())
	defer stop()
	client := tagclient.NewSingleClient(addr, nil)
	for _, op := range c.Ops {
		if len(op) != 3 || op[0] != "op" {
			continue
		}
		t, ok := c32Idx(op[2], "t", c32Tags)
		if !ok {
			continue
		}
		tag := "t" + strconv.Itoa(t)
		var err error
		switch op[1] {
		case "put": // PUT /tags/<tag>/digest/<d>?replicate=true
			err = client.PutAndReplicate(tag, c32DigestTab[t])
		case "repl": // POST /remotes/tags/<tag>
			err = client.Replicate(tag)
		default:
			continue
		}
		res := "ok"
		if err != nil && httputil.IsNotFound(err) {
			res = "notfound"
		} else if err != nil {
			res = "err"
		}
		tr.Op(op[1:], res, mgr.dump())
	}
}

func TestVerif_C33Tag(t *testing.T) {
	log.SetGlobalLogger(zap.NewNop().Sugar())
	tr := verifh.Open("tagremotes")
	defer tr.Close()
	cases, replayOnly := verifh.InputCases("tagremotes")
	for _, c := range cases {
		c33tRun(tr, c)
		tr.Count("corpus_or_replay_cases", 1)
	}
	if replayOnly {
		return
	}
	var alpha [][]string
	for i := 0; i < c32Tags; i++ {
		alpha = append(alpha, []string{"op", "put", "t" + strconv.Itoa(i)}, []string{"op", "repl", "t" + strconv.Itoa(i)})
	}
	var rec func(prefix [][]string, d int)
	rec = func(prefix [][]string, d int) {
		if d == 0 {
			c33tRun(tr, verifh.Case{Ops: prefix})
			tr.Count("exhaustive_cases", 1)
			return
		}
		for _, o := range alpha {
			rec(append(prefix[:len(prefix):len(prefix)], o), d-1)
		}
	}
	for d := 1; d <= verifh.Scale(2, 4); d++ {
		rec(nil, d)
	}
	r := verifh.NewRand(verifh.Seed(), "c33t")
	for i := 0; i < verifh.Scale(60, 2000); i++ {
		var ops [][]string
		for j := 2 + r.Intn(6); j > 0; j-- {
			ops = append(ops, alpha[r.Intn(len(alpha))])
		}
		c33tRun(tr, verifh.Case{Ops: ops})
		tr.Count("random_cases", 1)
	}
}
