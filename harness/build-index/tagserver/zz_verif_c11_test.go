//go:build verif

package tagserver

import (
	"crypto/sha1"
	"fmt"
	"io"
	"net/http"
	"net/url"
	"os"
	"path/filepath"
	"sort"
	"strings"
	"testing"
	"time"

	"github.com/golang/mock/gomock"
	"github.com/uber-go/tally"
	"go.opentelemetry.io/otel/trace/noop"
	"go.uber.org/zap"

	"github.com/uber/kraken/build-index/tagstore"
	"github.com/uber/kraken/core"
	"github.com/uber/kraken/lib/backend"
	"github.com/uber/kraken/lib/backend/backenderrors"
	"github.com/uber/kraken/lib/persistedretry/tagreplication"
	"github.com/uber/kraken/lib/store"
	mocktagclient "github.com/uber/kraken/mocks/build-index/tagclient"
	mocktagtype "github.com/uber/kraken/mocks/build-index/tagtype"
	mockbackend "github.com/uber/kraken/mocks/lib/backend"
	mockpersistedretry "github.com/uber/kraken/mocks/lib/persistedretry"
	mockblobclient "github.com/uber/kraken/mocks/origin/blobclient"
	"github.com/uber/kraken/utils/log"
	"github.com/uber/kraken/utils/stringset"
	"github.com/uber/kraken/utils/testutil"
	"github.com/uber/kraken/utils/verifh"
)

// C11 harness (2/3): the real build-index tag server (chi router, ParseParam, tagstore, SimpleStore on
// disk) under an HTTP listener.  Every request's raw path segment is taken verbatim from the op record;
// after each request the directory tree OUTSIDE the store's upload/cache directories is compared with
// its state before the request.
//   tagsrv op put|dupput|get|head|replicate <raw segment> => <class> <every path under the test root that changed | ->
// (PUT /tags/{tag}/digest/{d}, PUT /internal/duplicate/tags/{tag}/digest/{d}, GET /tags/{tag}, HEAD /tags/{tag},
//  POST /remotes/tags/{tag}).  The snapshot covers the whole test root, store directories included; which of
// the changes the request was entitled to is judged by the driver.  `data` sentinels sit at every level a
// mis-resolved entry could alias (<root>/data, <store>/data, <upload>/data, <cache>/data).

type c11NoHosts struct{}

func (c11NoHosts) Resolve() stringset.Set { return stringset.New() }

const c11SentinelDigest = "sha256:1111111111111111111111111111111111111111111111111111111111111111"

type c11Env struct {
	root, storeDir, upload, cache string
	addr                          string
	stop                          []func()
}

func c11Snapshot(e *c11Env) map[string]string {
	snap := map[string]string{}
	filepath.Walk(e.root, func(p string, info os.FileInfo, err error) error {
		if err != nil {
			return nil
		}
		rel, _ := filepath.Rel(e.root, p)
		// the store roots are always reported as store/upload and store/cache, wherever the layout puts them
		for _, m := range [][2]string{{e.upload, "store/upload"}, {e.cache, "store/cache"}} {
			if p == m[0] || strings.HasPrefix(p, m[0]+"/") {
				rel = m[1] + p[len(m[0]):]
			}
		}
		if info.IsDir() {
			snap[rel] = "d"
			return nil
		}
		b, _ := os.ReadFile(p)
		snap[rel] = fmt.Sprintf("f:%d:%x", len(b), sha1.Sum(b))
		return nil
	})
	return snap
}

func c11Diff(a, b map[string]string) string {
	var out []string
	for k, v := range a {
		if w, ok := b[k]; !ok {
			out = append(out, "-"+k)
		} else if w != v {
			out = append(out, "~"+k)
		}
	}
	for k := range b {
		if _, ok := a[k]; !ok {
			out = append(out, "+"+k)
		}
	}
	sort.Strings(out)
	if len(out) > 14 {
		out = append(out[:14], "+more")
	}
	for i := range out {
		out[i] = verifh.Str(out[i])
	}
	return verifh.List(out)
}

// c11NewEnv builds the store tree.  layout "std": <root>/store/{upload,cache} with sentinels at every level.
// layout "bare-slash" | "bare-dslash" | "bare-dot": the store roots sit alone in otherwise EMPTY parent
// directories (<root>/nest/u/upload, <root>/nest/c/cache, no sentinel inside them) and are handed to the store in
// a form that is not filepath.Clean (trailing slash as in the shipped config/*/base.yaml, a doubled separator, a
// "./" segment): anything that prunes or walks directories must still stop at the store root.
func c11NewEnv(t *testing.T, layout string) *c11Env {
	root, err := os.MkdirTemp("", "verif-c11-tag-")
	if err != nil {
		panic(err)
	}
	e := &c11Env{root: root, storeDir: filepath.Join(root, "store")}
	e.upload = filepath.Join(e.storeDir, "upload")
	e.cache = filepath.Join(e.storeDir, "cache")
	cfgUpload, cfgCache := e.upload, e.cache
	bare := strings.HasPrefix(layout, "bare")
	if bare {
		e.upload = filepath.Join(root, "nest", "u", "upload")
		e.cache = filepath.Join(root, "nest", "c", "cache")
		switch layout {
		case "bare-dslash":
			cfgUpload, cfgCache = root+"/nest//u/upload", root+"/nest//c/cache"
		case "bare-dot":
			cfgUpload, cfgCache = root+"/./nest/u/upload", root+"/nest/c/./cache"
		default:
			cfgUpload, cfgCache = e.upload+"/", e.cache+"/"
		}
	}
	for _, d := range []string{e.upload, e.cache} {
		if err := os.MkdirAll(d, 0775); err != nil {
			panic(err)
		}
	}
	os.WriteFile(filepath.Join(root, "outer-sentinel"), []byte("outer"), 0644)
	if !bare {
		os.WriteFile(filepath.Join(e.storeDir, "sentinel"), []byte("inner"), 0644)
	}
	e.stop = append(e.stop, func() { os.RemoveAll(root) })

	ctrl := gomock.NewController(t)
	ss, err := store.NewSimpleStore(store.SimpleStoreConfig{UploadDir: cfgUpload, CacheDir: cfgCache}, tally.NoopScope)
	if err != nil {
		panic(err)
	}
	e.stop = append(e.stop, ss.Close)
	// files that a mis-resolved entry would alias, at every level
	if bare {
		os.WriteFile(filepath.Join(root, "data"), []byte(c11SentinelDigest), 0644)
	} else {
		for _, d := range []string{root, e.storeDir, e.upload, e.cache} {
			os.WriteFile(filepath.Join(d, "data"), []byte(c11SentinelDigest), 0644)
		}
	}
	backends := backend.ManagerFixture()
	bc := mockbackend.NewMockClient(ctrl)
	bc.EXPECT().Download(gomock.Any(), gomock.Any(), gomock.Any()).Return(backenderrors.ErrBlobNotFound).AnyTimes()
	bc.EXPECT().Stat(gomock.Any(), gomock.Any()).Return(nil, backenderrors.ErrBlobNotFound).AnyTimes()
	if err := backends.Register(".*", bc, false); err != nil {
		panic(err)
	}
	wb := mockpersistedretry.NewMockManager(ctrl)
	wb.EXPECT().Add(gomock.Any()).Return(nil).AnyTimes()
	ts := tagstore.New(tagstore.Config{}, ss, backends, wb)
	remotes, err := tagreplication.RemotesConfig{}.Build()
	if err != nil {
		panic(err)
	}
	dep := mocktagtype.NewMockDependencyResolver(ctrl)
	dep.EXPECT().Resolve(gomock.Any(), gomock.Any()).Return(core.DigestList{}, nil).AnyTimes()
	srv := New(Config{DuplicateReplicateStagger: 20 * time.Minute}, tally.NoopScope, backends, "origin-dns",
		mockblobclient.NewMockClusterClient(ctrl), c11NoHosts{}, ts, remotes,
		mockpersistedretry.NewMockManager(ctrl), mocktagclient.NewMockProvider(ctrl), dep,
		noop.NewTracerProvider().Tracer("verif"))
	addr, stop := testutil.StartServer(srv.Handler())
	e.addr = addr
	e.stop = append(e.stop, stop)
	return e
}

func (e *c11Env) close() {
	for i := len(e.stop) - 1; i >= 0; i-- {
		e.stop[i]()
	}
}

func c11Class(code int) string {
	switch code {
	case 200:
		return "ok"
	case 400:
		return "badreq"
	case 404:
		return "notfound"
	case 409:
		return "conflict"
	}
	return "error"
}

// c11Do sends the request with the path exactly as given (no client-side escaping or cleaning).
func c11Do(method, addr, rawPath string, body ...string) string {
	req := &http.Request{Method: method, Host: addr, Header: http.Header{},
		URL: &url.URL{Scheme: "http", Host: addr, Opaque: rawPath}}
	if len(body) > 0 {
		req.Body = io.NopCloser(strings.NewReader(body[0]))
		req.ContentLength = int64(len(body[0]))
	}
	resp, err := http.DefaultClient.Do(req)
	if err != nil {
		return "transport-error"
	}
	io.Copy(io.Discard, resp.Body)
	resp.Body.Close()
	return c11Class(resp.StatusCode)
}

func c11TagExec(t *testing.T, tr *verifh.T, c verifh.Case) {
	layout := "std"
	for _, k := range c.Cfg {
		if strings.HasPrefix(k, "layout=") {
			layout = k[len("layout="):]
		}
	}
	e := c11NewEnv(t, layout)
	defer e.close()
	tr.Cfg("layout=" + layout)
	const digest = "sha256:2222222222222222222222222222222222222222222222222222222222222222"
	for _, op := range c.Ops {
		if len(op) != 3 || op[0] != "op" {
			continue
		}
		seg, err := verifh.Unstr(op[2])
		if err != nil || seg == "" || strings.ContainsAny(seg, "/ ?#\r\n") {
			continue
		}
		before := c11Snapshot(e)
		var cls string
		switch op[1] {
		case "put":
			cls = c11Do("PUT", e.addr, "/tags/"+seg+"/digest/"+digest)
		case "get":
			cls = c11Do("GET", e.addr, "/tags/"+seg)
		case "head":
			cls = c11Do("HEAD", e.addr, "/tags/"+seg)
		case "replicate":
			cls = c11Do("POST", e.addr, "/remotes/tags/"+seg)
		case "dupput":
			cls = c11Do("PUT", e.addr, "/internal/duplicate/tags/"+seg+"/digest/"+digest, `{"delay":0}`)
		default:
			continue
		}
		tr.Op(op[1:], cls, c11Diff(before, c11Snapshot(e)))
	}
	tr.End()
}

var c11TagPieces = []string{".", "..", "a", "%2e", "%2E", "%2F", "%2f", "b.c", "%25", "%", "%zz", "%4", "%00", "%20",
	"+", "~", "%c3%a9", ":", "repo", "data", "-"}

func c11RandSeg(r *verifh.Rand) string {
	n := 1 + r.Intn(4)
	if r.Chance(1, 3) {
		n = 1
	}
	s := ""
	for i := 0; i < n; i++ {
		s += c11TagPieces[r.Intn(len(c11TagPieces))]
	}
	if r.Chance(1, 40) {
		s += strings.Repeat("x", 300)
	}
	return s
}

func TestVerif_C11TagServer(t *testing.T) {
	log.SetGlobalLogger(zap.NewNop().Sugar())
	tr := verifh.Open("tagsrv")
	defer tr.Close()
	cases, replayOnly := verifh.InputCases("tagsrv")
	for _, c := range cases {
		c11TagExec(t, tr, c)
		tr.Count("corpus_or_replay_cases", 1)
	}
	if replayOnly {
		return
	}
	op := func(v, seg string) []string { return []string{"op", v, verifh.Str(seg)} }
	// (a) every piece and every pair of pieces: PUT then GET
	var singles []string
	lead := map[string]bool{".": true, "..": true, "%2e": true, "%2E": true, "%2F": true, "%25": true, "a": true, "%": true}
	for _, a := range c11TagPieces {
		singles = append(singles, a)
		if !lead[a] && !verifh.Thorough() {
			continue // quick tier: pairs that start with a dot, separator, escape or plain piece
		}
		for _, b := range c11TagPieces {
			singles = append(singles, a+b)
		}
	}
	singles = append(singles, "..%2Fx", "..%2F..%2Fx", "a%2F..%2F..%2Fx", "a%2F..%2Fb", "%2E%2E%2Fstore%2Fsentinel",
		"..%2Fupload%2Fx", "%252e%252e%252Fx", "a%2F.%2Fb", "a%2F%2Fb", "%2Fetc%2Fx", "a%2F")
	// one case per segment and verb order (a DIFF ends a case, so every request must come first in some case)
	for i, sg := range singles {
		c11TagExec(t, tr, verifh.Case{Ops: [][]string{op("put", sg), op("get", sg), op("replicate", sg)}})
		c11TagExec(t, tr, verifh.Case{Ops: [][]string{op("get", sg), op("head", sg), op("put", sg), op("get", sg)}})
		tr.Count("exhaustive_pairs_cases", 2)
		if i%3 == 0 || len(sg) > 6 {
			c11TagExec(t, tr, verifh.Case{Ops: [][]string{op("dupput", sg), op("get", sg)}})
			c11TagExec(t, tr, verifh.Case{Ops: [][]string{op("replicate", sg), op("head", sg)}})
			tr.Count("exhaustive_pairs_cases", 2)
		}
	}
	// (a') nested names (a separator after unescaping: the temporary upload entry and the cache entry live below
	// sub-directories that are created and pruned) under store roots that are not in filepath.Clean form and
	// stand alone in empty parent directories
	nested := []string{"library%2Fbusybox:latest", "a%2Fb", "a%2Fb%2Fc%2Fd", "repo%2Fx.y", "a%252Fb", "plain"}
	for _, layout := range []string{"bare-slash", "bare-dslash", "bare-dot"} {
		for _, sg := range nested {
			c11TagExec(t, tr, verifh.Case{Cfg: []string{"layout=" + layout}, Ops: [][]string{
				op("put", sg), op("get", sg), op("put", sg), op("dupput", sg), op("replicate", sg)}})
			tr.Count("nonclean_root_cases", 1)
		}
		c11TagExec(t, tr, verifh.Case{Cfg: []string{"layout=" + layout}, Ops: [][]string{
			op("put", nested[0]), op("put", nested[1]), op("get", nested[0]), op("put", ".."), op("put", nested[2]), op("get", nested[2])}})
	}
	// (b) random sequences
	r := verifh.NewRand(verifh.Seed(), "c11tag")
	for i := 0; i < verifh.Scale(150, 6000); i++ {
		var c verifh.Case
		var used []string
		for j := 0; j < 2+r.Intn(8); j++ {
			s := c11RandSeg(r)
			if len(used) > 0 && r.Chance(1, 3) {
				s = used[r.Intn(len(used))]
			}
			used = append(used, s)
			c.Ops = append(c.Ops, op(r.Pick("put", "get", "put", "dupput", "head", "replicate", "get"), s))
		}
		if r.Chance(1, 4) {
			c.Cfg = []string{"layout=" + r.Pick("bare-slash", "bare-dslash", "bare-dot")}
		}
		c11TagExec(t, tr, c)
		tr.Count("random_cases", 1)
	}
}
