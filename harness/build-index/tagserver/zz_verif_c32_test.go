//go:build verif

package tagserver_test

// C32 harness: a real build-index tag server (tagserver.New + HTTP handler, driven through the real
// tagclient) on the real tagstore over a real SimpleStore, the real write-back executor and the real
// retry manager on an on-disk SQLite table, in write-through and in asynchronous mode.  The origin
// cluster's answers to the dependency checks and the dependency list are scripted per PUT; the
// backend fails the next n executor attempts on request.  After every op the tags on the node's
// disk, the backend and the task table are dumped.

import (
	"encoding/json"
	"bytes"
	"context"
	"errors"
	"fmt"
	"io"
	"os"
	"path/filepath"
	"sort"
	"strconv"
	"strings"
	"sync"
	"testing"
	"time"

	"github.com/jmoiron/sqlx"
	"github.com/uber-go/tally"
	"go.opentelemetry.io/otel/trace/noop"
	"go.uber.org/zap"

	"github.com/uber/kraken/build-index/tagclient"
	"github.com/uber/kraken/build-index/tagserver"
	"github.com/uber/kraken/build-index/tagstore"
	"github.com/uber/kraken/core"
	"github.com/uber/kraken/lib/backend"
	"github.com/uber/kraken/lib/backend/backenderrors"
	"github.com/uber/kraken/lib/persistedretry"
	"github.com/uber/kraken/lib/persistedretry/tagreplication"
	"github.com/uber/kraken/lib/persistedretry/writeback"
	"github.com/uber/kraken/lib/store"
	"github.com/uber/kraken/localdb"
	"github.com/uber/kraken/origin/blobclient"
	"github.com/uber/kraken/utils/httputil"
	"github.com/uber/kraken/utils/log"
	"github.com/uber/kraken/utils/stringset"
	"github.com/uber/kraken/utils/testutil"
	"github.com/uber/kraken/utils/verifh"
	"github.com/uber/kraken/utils/verifretry"
)

const (
	c32Tags    = 3
	c32Digests = 4
)

var c32DigestTab = func() []core.Digest {
	var ds []core.Digest
	for i := 0; i < c32Digests+4; i++ {
		d, err := core.NewSHA256DigestFromHex(strings.Repeat(fmt.Sprintf("%02x", 0xc0+i), 32))
		if err != nil {
			panic(err)
		}
		ds = append(ds, d)
	}
	return ds
}()

func c32DigestTok(s string) string {
	for i, d := range c32DigestTab[:c32Digests] {
		if d.String() == s {
			return "d" + strconv.Itoa(i)
		}
	}
	return "d?"
}

func c32DepTok(d core.Digest) string {
	for i, x := range c32DigestTab[c32Digests:] {
		if x == d {
			return "x" + strconv.Itoa(i)
		}
	}
	return "x?"
}

func c32Idx(tok, prefix string, n int) (int, bool) {
	if !strings.HasPrefix(tok, prefix) {
		return 0, false
	}
	i, err := strconv.Atoi(tok[len(prefix):])
	if err != nil || i < 0 || i >= n {
		return 0, false
	}
	return i, true
}

func c32TaskKey(t persistedretry.Task) string {
	if x, ok := t.(*writeback.Task); ok {
		return x.Name
	}
	return "t?"
}

// ---------------------------------------------------------------- scripted surroundings

// backend: fails the next `fail` executor attempts (an attempt starts with a Stat)
type c32Backend struct {
	mu      sync.Mutex
	fail    int
	curDown bool
	tags    map[string][]byte
}

func (b *c32Backend) Stat(namespace, name string) (*core.BlobInfo, error) {
	b.mu.Lock()
	defer b.mu.Unlock()
	if b.fail > 0 {
		b.fail--
		b.curDown = true
		return nil, errors.New("backend unreachable")
	}
	b.curDown = false
	c, ok := b.tags[name]
	if !ok {
		return nil, backenderrors.ErrBlobNotFound
	}
	return core.NewBlobInfo(int64(len(c))), nil
}

func (b *c32Backend) Upload(namespace, name string, src io.Reader) error {
	c, err := io.ReadAll(src)
	if err != nil {
		return err
	}
	b.mu.Lock()
	defer b.mu.Unlock()
	if b.curDown {
		return errors.New("backend unreachable")
	}
	b.tags[name] = c
	return nil
}

func (b *c32Backend) Download(namespace, name string, dst io.Writer) error {
	b.mu.Lock()
	defer b.mu.Unlock()
	if b.fail > 0 {
		return errors.New("backend unreachable")
	}
	c, ok := b.tags[name]
	if !ok {
		return backenderrors.ErrBlobNotFound
	}
	_, err := dst.Write(c)
	return err
}

func (b *c32Backend) List(prefix string, opts ...backend.ListOption) (*backend.ListResult, error) {
	return nil, errors.New("not supported")
}

func (b *c32Backend) Close() error { return nil }

// origin cluster: scripted answers to Stat(tag, dependency i)
type c32Origin struct {
	blobclient.ClusterClient
	mu      sync.Mutex
	answers map[string]string // dependency digest hex -> ok | nf | err
	asked   []string
	askedD  []string // the dependencies asked about (x<i>)
}

func (o *c32Origin) Stat(namespace string, d core.Digest) (*core.BlobInfo, error) {
	o.mu.Lock()
	defer o.mu.Unlock()
	a := o.answers[d.Hex()]
	o.asked = append(o.asked, a)
	o.askedD = append(o.askedD, c32DepTok(d))
	switch a {
	case "ok":
		return core.NewBlobInfo(1), nil
	case "nf":
		return nil, blobclient.ErrBlobNotFound
	}
	return nil, errors.New("origin unavailable")
}

// dependency resolver: the dependencies of the PUT being made
type c32Deps struct {
	mu   sync.Mutex
	deps core.DigestList
}

func (r *c32Deps) Resolve(tag string, d core.Digest) (core.DigestList, error) {
	r.mu.Lock()
	defer r.mu.Unlock()
	return r.deps, nil
}

// tag replication manager: records the tasks replicateTag adds (their execution is C33's subject)
type c32ReplMgr struct {
	mu    sync.Mutex
	tasks []string
}

func (m *c32ReplMgr) Add(t persistedretry.Task) error {
	m.mu.Lock()
	defer m.mu.Unlock()
	x, ok := t.(*tagreplication.Task)
	if !ok {
		m.tasks = append(m.tasks, "?")
		return nil
	}
	var deps []string
	for _, d := range x.Dependencies {
		deps = append(deps, c32DepTok(d))
	}
	dl := strings.Join(deps, ".")
	if dl == "" {
		dl = "none"
	}
	m.tasks = append(m.tasks, fmt.Sprintf("%s:%s:%s:%s:%d", x.Tag, c32DigestTok(x.Digest.String()), dl, x.Destination, int64(x.Delay)))
	return nil
}
func (m *c32ReplMgr) SyncExec(persistedretry.Task) error { return errors.New("not supported") }
func (m *c32ReplMgr) Close()                             {}
func (m *c32ReplMgr) Find(interface{}) ([]persistedretry.Task, error) {
	return nil, errors.New("not supported")
}

// remote build-indexes: ra replicates every tag, rb only t1
var c32Remotes = func() tagreplication.Remotes {
	r, err := tagreplication.RemotesConfig{"ra": {".*"}, "rb": {"^t1$"}}.Build()
	if err != nil {
		panic(err)
	}
	return r
}()

type c32NoNeighbors struct{}

func (c32NoNeighbors) Resolve() stringset.Set { return stringset.New() }

// ---------------------------------------------------------------- one case

type c32Sess struct {
	tr      *verifh.T
	dir     string
	wt      bool
	backend *c32Backend
	origin  *c32Origin
	deps    *c32Deps
	repl    *c32ReplMgr
	hdb     *sqlx.DB
	addr    string

	fs     *store.SimpleStore
	db     *sqlx.DB
	rec    *verifretry.RecStore
	gex    *verifretry.GateExec
	inner  persistedretry.Manager
	stop   func()
	client tagclient.Client

	started map[string]bool
	expect  int
	broken  bool
}

func (s *c32Sess) fail(key string, detail ...string) {
	s.tr.PropFail(key, detail...)
	s.broken = true
}

func (s *c32Sess) open() error {
	fs, err := store.NewSimpleStore(store.SimpleStoreConfig{
		UploadDir:     filepath.Join(s.dir, "upload"),
		CacheDir:      filepath.Join(s.dir, "cache"),
		UploadCleanup: store.CleanupConfig{Disabled: true},
		CacheCleanup:  store.CleanupConfig{Disabled: true},
	}, tally.NoopScope)
	if err != nil {
		return err
	}
	bm := backend.ManagerFixture()
	if err := bm.Register(".*", s.backend, false); err != nil {
		return err
	}
	db, err := localdb.New(localdb.Config{Source: filepath.Join(s.dir, "retry.db")})
	if err != nil {
		return err
	}
	s.rec = verifretry.NewRecStore(writeback.NewStore(db), c32TaskKey)
	s.gex = verifretry.NewGateExec(writeback.NewExecutor(tally.NoopScope, fs, bm), c32TaskKey)
	inner, err := persistedretry.NewManager(persistedretry.Config{
		IncomingBuffer: 16, RetryBuffer: 16, NumIncomingWorkers: 8, NumRetryWorkers: 8,
		MaxTaskThroughput: time.Nanosecond, RetryInterval: time.Nanosecond, PollRetriesInterval: 24 * time.Hour,
		SyncRetryBackoff: httputil.ExponentialBackOffConfig{Enabled: true, InitialInterval: time.Microsecond,
			MaxInterval: time.Microsecond, MaxRetries: 2},
		Testing: true,
	}, tally.NoopScope, s.rec, s.gex)
	if err != nil {
		return err
	}
	gm := verifretry.NewGateManager(inner, s.gex, c32TaskKey, func(interface{}) string { return "" })
	ts := tagstore.New(tagstore.Config{WriteThrough: s.wt}, fs, bm, gm)
	srv := tagserver.New(tagserver.Config{}, tally.NoopScope, bm, "local-origin", s.origin, c32NoNeighbors{}, ts,
		c32Remotes, s.repl, tagclient.NewProvider(nil), s.deps, noop.NewTracerProvider().Tracer("verif"))
	addr, stop := testutil.StartServer(srv.Handler())
	s.addr = addr
	s.fs, s.db, s.inner, s.stop = fs, db, inner, stop
	s.client = tagclient.NewSingleClient(addr, nil)
	s.started, s.expect = map[string]bool{}, 0
	s.rec.Drain()
	return nil
}

func (s *c32Sess) kill() {
	if s.inner == nil {
		return
	}
	s.rec.Kill()
	s.gex.Kill()
	s.stop()
	done := make(chan struct{})
	go func() { s.inner.Close(); close(done) }()
	select {
	case <-done:
	case <-time.After(verifretry.Timeout):
		s.fail("stuck-close", "Close_did_not_return")
	}
	s.db.Close()
	s.fs.Close()
	s.inner = nil
}

func (s *c32Sess) dump() []string {
	var disk, inb, tbl []string
	for i := 0; i < c32Tags; i++ {
		t := "t" + strconv.Itoa(i)
		if f, err := s.fs.GetCacheFileReader(t); err == nil {
			var b bytes.Buffer
			io.Copy(&b, f)
			f.Close()
			disk = append(disk, t+":"+c32DigestTok(b.String()))
		}
	}
	s.backend.mu.Lock()
	for t, c := range s.backend.tags {
		inb = append(inb, t+":"+c32DigestTok(string(c)))
	}
	s.backend.mu.Unlock()
	rows, err := s.hdb.Queryx("SELECT name, status, failures FROM writeback_task ORDER BY rowid")
	if err != nil {
		tbl = append(tbl, "err")
	} else {
		for rows.Next() {
			var name, status string
			var failures int
			if rows.Scan(&name, &status, &failures) == nil {
				tbl = append(tbl, fmt.Sprintf("%s:%s:%d", name, status[:1], failures))
			}
		}
		rows.Close()
	}
	var st []string
	for k := range s.started {
		st = append(st, k)
	}
	return []string{"disk=" + verifh.SortedList(disk), "b=" + verifh.SortedList(inb), "t=" + verifh.List(tbl), "x=" + verifh.SortedList(st)}
}

func (s *c32Sess) settle() {
	for s.expect > 0 {
		select {
		case k := <-s.gex.Starts:
			s.started[k] = true
			s.expect--
		case <-time.After(verifretry.Timeout):
			s.fail("stuck-not-started", "an_enqueued_write-back_task_was_not_picked_up")
			s.expect = 0
			return
		}
	}
	for {
		select {
		case k := <-s.gex.Starts:
			s.started[k] = true
		default:
			return
		}
	}
}

func (s *c32Sess) noteAdds() {
	evs := s.rec.Drain()
	for i, e := range evs {
		if (e.Meth == "AddPending" || e.Meth == "MarkPending") && e.Err == "" {
			over := false
			for _, f := range evs[i+1:] {
				if f.Meth == "MarkFailed" && f.Key == e.Key {
					over = true
				}
			}
			if !over {
				s.expect++
			}
		}
	}
}

func (s *c32Sess) do(op []string) []string {
	switch {
	case op[1] == "put" && (len(op) == 5 || len(op) == 6 && op[5] == "rep=1") && strings.HasPrefix(op[4], "deps="):
		rep := len(op) == 6
		t, ok1 := c32Idx(op[2], "t", c32Tags)
		d, ok2 := c32Idx(op[3], "d", c32Digests)
		answers := verifh.Unlist(op[4][5:])
		if !ok1 || !ok2 || len(answers) > 4 {
			return nil
		}
		var deps core.DigestList
		amap := map[string]string{}
		for i, a := range answers {
			if a != "ok" && a != "nf" && a != "err" {
				return nil
			}
			dep := c32DigestTab[c32Digests+i]
			deps = append(deps, dep)
			amap[dep.Hex()] = a
		}
		s.deps.mu.Lock()
		s.deps.deps = deps
		s.deps.mu.Unlock()
		s.origin.mu.Lock()
		s.origin.answers, s.origin.asked, s.origin.askedD = amap, nil, nil
		s.origin.mu.Unlock()
		s.repl.mu.Lock()
		s.repl.tasks = nil
		s.repl.mu.Unlock()
		var err error
		if rep {
			err = s.client.PutAndReplicate("t"+strconv.Itoa(t), c32DigestTab[d])
		} else {
			err = s.client.Put("t"+strconv.Itoa(t), c32DigestTab[d])
		}
		s.noteAdds()
		s.settle()
		s.origin.mu.Lock()
		asked := len(s.origin.asked)
		chk := verifh.List(s.origin.askedD)
		s.origin.mu.Unlock()
		res := []string{"ok", "asked=" + strconv.Itoa(asked)}
		if err != nil {
			res[0] = "err"
		}
		if rep {
			s.repl.mu.Lock()
			res = append(res, "chk="+chk, "rt="+verifh.SortedList(s.repl.tasks))
			s.repl.mu.Unlock()
		}
		return res
	case op[1] == "dupput" && len(op) == 5 && strings.HasPrefix(op[4], "delay="):
		// what a neighbour sends after it acknowledged a PUT (duplicatePutTagHandler): no dependency
		// check, write-back delayed by <delay> hours.  Sent without the client's retry option.
		t, ok1 := c32Idx(op[2], "t", c32Tags)
		d, ok2 := c32Idx(op[3], "d", c32Digests)
		h, err := strconv.Atoi(op[4][6:])
		if !ok1 || !ok2 || err != nil || h < 0 || h > 2 {
			return nil
		}
		body, _ := json.Marshal(tagclient.DuplicatePutRequest{Delay: time.Duration(h) * time.Hour})
		_, err = httputil.Put(fmt.Sprintf("http://%s/internal/duplicate/tags/t%d/digest/%s", s.addr, t, c32DigestTab[d].String()),
			httputil.SendBody(bytes.NewReader(body)), httputil.SendTimeout(verifretry.Timeout))
		s.noteAdds()
		s.settle()
		if err != nil {
			return []string{"err"}
		}
		return []string{"ok"}
	case op[1] == "adv" && len(op) == 2:
		// three hours pass: every stored task's timestamps move back
		for _, col := range []string{"created_at", "last_attempt"} {
			if _, err := s.hdb.Exec("UPDATE writeback_task SET " + col + " = datetime(" + col + ", '-3 hours')"); err != nil {
				s.fail("harness-sql", verifh.Str(err.Error()))
				return []string{"err"}
			}
		}
		return []string{"ok"}
	case op[1] == "get" && len(op) == 3:
		t, ok := c32Idx(op[2], "t", c32Tags)
		if !ok {
			return nil
		}
		d, err := s.client.Get("t" + strconv.Itoa(t))
		if err == tagclient.ErrTagNotFound {
			return []string{"notfound"}
		} else if err != nil {
			return []string{"err"}
		}
		return []string{c32DigestTok(d.String())}
	case op[1] == "evict" && len(op) == 3:
		// what the cache cleanup job does to an idle tag file (production TTI 6h): a flag-respecting delete
		t, ok := c32Idx(op[2], "t", c32Tags)
		if !ok {
			return nil
		}
		if err := s.fs.DeleteCacheFile("t" + strconv.Itoa(t)); err != nil {
			if os.IsNotExist(err) {
				return []string{"absent"}
			}
			return []string{"refused"}
		}
		return []string{"ok"}
	case op[1] == "fail" && len(op) == 3:
		n, err := strconv.Atoi(op[2])
		if err != nil || n < 0 || n > 6 {
			return nil
		}
		s.backend.mu.Lock()
		s.backend.fail = n
		s.backend.mu.Unlock()
		return []string{"ok"}
	case op[1] == "poll" && len(op) == 2:
		persistedretry.VerifPollOnce(s.inner)
		s.noteAdds()
		s.settle()
		return []string{"ok"}
	case op[1] == "exec" && len(op) == 3:
		if _, ok := c32Idx(op[2], "t", c32Tags); !ok {
			return nil
		}
		if !s.started[op[2]] {
			return []string{"none"}
		}
		delete(s.started, op[2])
		if !s.gex.Release(op[2]) {
			return []string{"none"}
		}
		res := ""
		deadline := time.After(verifretry.Timeout)
		for res == "" {
			select {
			case d := <-s.gex.Dones:
				if strings.HasPrefix(d, op[2]+":") {
					res = d[len(op[2])+1:]
				}
			case <-deadline:
				s.fail("stuck-exec", "executor_did_not_return")
				return []string{"err"}
			}
		}
		for seen := false; !seen; {
			select {
			case e := <-s.rec.Evs:
				seen = e.Key == op[2] && (e.Meth == "Remove" || e.Meth == "MarkFailed")
			case <-deadline:
				s.fail("outcome-not-recorded", "execution_of_"+op[2]+"_returned_and_the_table_was_never_updated")
				return []string{"err"}
			}
		}
		s.settle()
		return []string{res}
	case op[1] == "restart" && len(op) == 2:
		s.kill()
		if err := s.open(); err != nil {
			s.fail("start-failed", verifh.Str(err.Error()))
			return []string{"err"}
		}
		return []string{"ok"}
	}
	return nil
}

func (s *c32Sess) step(op []string) {
	if s.broken || len(op) < 2 || op[0] != "op" {
		return
	}
	var obs []string
	if p := verifh.Protect(func() { obs = s.do(op) }); p != "" {
		s.fail("panic", verifh.Str(p))
		return
	}
	if obs == nil {
		return
	}
	s.tr.Op(op[1:], append(obs, s.dump()...)...)
}

func (s *c32Sess) complete() {
	if s.broken {
		return
	}
	s.step([]string{"op", "fail", "0"})
	s.step([]string{"op", "adv"})
	for round := 0; round < 6 && !s.broken; round++ {
		var run []string
		for k := range s.started {
			run = append(run, k)
		}
		sort.Strings(run)
		for _, k := range run {
			s.step([]string{"op", "exec", k})
		}
		var n int
		if err := s.hdb.Get(&n, "SELECT COUNT(*) FROM writeback_task"); err == nil && n == 0 {
			break
		}
		if round == 5 {
			s.fail("never-completed", "write-back_tasks_were_not_executed_to_success_under_a_fair_schedule")
			return
		}
		s.step([]string{"op", "poll"})
	}
	for i := 0; i < c32Tags && !s.broken; i++ {
		s.step([]string{"op", "get", "t" + strconv.Itoa(i)})
	}
	if !s.broken {
		s.tr.Op([]string{"final"}, s.dump()...)
	}
}

var c32Broken int

func c32Run(base string, tr *verifh.T, c verifh.Case) {
	if c32Broken >= 3 {
		return
	}
	dir, err := os.MkdirTemp(base, "case-")
	if err != nil {
		panic(err)
	}
	defer os.RemoveAll(dir)
	wt := false
	for _, t := range c.Cfg {
		if t == "wt=1" {
			wt = true
		}
	}
	s := &c32Sess{tr: tr, dir: dir, wt: wt, backend: &c32Backend{tags: map[string][]byte{}},
		origin: &c32Origin{answers: map[string]string{}}, deps: &c32Deps{}, repl: &c32ReplMgr{}}
	tr.Cfg("wt=" + verifh.Bool(wt))
	defer tr.End()
	if err := s.open(); err != nil {
		s.fail("start-failed", verifh.Str(err.Error()))
		return
	}
	s.hdb, err = sqlx.Open("sqlite3", filepath.Join(dir, "retry.db"))
	if err != nil {
		panic(err)
	}
	s.hdb.SetMaxOpenConns(1)
	defer s.hdb.Close()
	for _, op := range c.Ops {
		s.step(op)
	}
	s.complete()
	s.kill()
	if s.broken {
		c32Broken++
	}
}

// ---------------------------------------------------------------- generators

var _ = context.Background

func TestVerif_C32(t *testing.T) {
	log.SetGlobalLogger(zap.NewNop().Sugar())
	tr := verifh.Open("tagstore")
	defer tr.Close()
	base := os.TempDir()
	if st, err := os.Stat("/dev/shm"); err == nil && st.IsDir() {
		base = "/dev/shm"
	}
	base, err := os.MkdirTemp(base, "verif-c32-")
	if err != nil {
		t.Fatal(err)
	}
	defer os.RemoveAll(base)

	cases, replayOnly := verifh.InputCases("tagstore")
	for _, c := range cases {
		c32Run(base, tr, c)
		tr.Count("corpus_or_replay_cases", 1)
	}
	if replayOnly {
		return
	}
	// (a) every subset of missing / failing dependencies for 0..3 dependencies, both modes
	var depLists []string
	var gen func(prefix []string, n int)
	gen = func(prefix []string, n int) {
		if n == 0 {
			depLists = append(depLists, verifh.List(prefix))
			return
		}
		for _, a := range []string{"ok", "nf", "err"} {
			gen(append(prefix[:len(prefix):len(prefix)], a), n-1)
		}
	}
	for n := 0; n <= verifh.Scale(3, 4); n++ {
		gen(nil, n)
	}
	for _, wt := range []string{"wt=0", "wt=1"} {
		for _, dl := range depLists {
			c32Run(base, tr, verifh.Case{Cfg: []string{wt}, Ops: [][]string{{"op", "put", "t0", "d0", "deps=" + dl}, {"op", "get", "t0"}}})
			tr.Count("dependency_cases", 1)
		}
	}
	// (a') the same with replicate=true: the replication tasks carry the checked dependencies
	for i, dl := range depLists {
		wt := []string{"wt=0", "wt=1"}[i%2]
		tg := []string{"t0", "t1"}[(i/2)%2]
		c32Run(base, tr, verifh.Case{Cfg: []string{wt}, Ops: [][]string{{"op", "put", tg, "d0", "deps=" + dl, "rep=1"}, {"op", "get", tg}}})
		tr.Count("replicate_dependency_cases", 1)
	}
	// (b) bounded-exhaustive histories over 2 tags x 2 digests, both modes
	alpha := [][]string{{"op", "poll"}, {"op", "restart"}, {"op", "fail", "1"}, {"op", "fail", "3"}, {"op", "fail", "0"}}
	for _, tg := range []string{"t0", "t1"} {
		alpha = append(alpha, []string{"op", "get", tg}, []string{"op", "exec", tg}, []string{"op", "evict", tg})
		for _, d := range []string{"d0", "d1"} {
			alpha = append(alpha, []string{"op", "put", tg, d, "deps=ok"})
		}
	}
	alpha = append(alpha, []string{"op", "put", "t0", "d2", "deps=ok,nf"}, []string{"op", "put", "t1", "d0", "deps=ok,ok", "rep=1"},
		[]string{"op", "dupput", "t0", "d1", "delay=1"}, []string{"op", "dupput", "t1", "d0", "delay=0"}, []string{"op", "adv"})
	var rec func(cfg string, prefix [][]string, d int)
	rec = func(cfg string, prefix [][]string, d int) {
		if d == 0 {
			c32Run(base, tr, verifh.Case{Cfg: []string{cfg}, Ops: prefix})
			tr.Count("exhaustive_cases", 1)
			return
		}
		for _, o := range alpha {
			rec(cfg, append(prefix[:len(prefix):len(prefix)], o), d-1)
		}
	}
	for _, wt := range []string{"wt=0", "wt=1"} {
		for d := 1; d <= verifh.Scale(2, 3); d++ {
			rec(wt, nil, d)
		}
	}
	// (b') after a tag was put, written back and evicted from the node: GET falls back to the backend
	for _, wt := range []string{"wt=0", "wt=1"} {
		pre := [][]string{{"op", "put", "t0", "d0", "deps=ok"}, {"op", "exec", "t0"}, {"op", "evict", "t0"}}
		for _, a := range alpha {
			for _, b := range alpha {
				c32Run(base, tr, verifh.Case{Cfg: []string{wt}, Ops: append(append([][]string{}, pre...), a, b)})
				tr.Count("prefixed_exhaustive_cases", 1)
			}
		}
	}
	// (c) random histories over 3 tags x 4 digests
	r := verifh.NewRand(verifh.Seed(), "c32")
	for i := 0; i < verifh.Scale(300, 10000); i++ {
		cfg := r.Pick("wt=0", "wt=0", "wt=1")
		single := r.Chance(1, 2) // every tag is put with one digest only: evictions must then be harmless
		var ops [][]string
		for j := 3 + r.Intn(14); j > 0; j-- {
			tg := "t" + strconv.Itoa(r.Intn(c32Tags))
			var o []string
			switch x := r.Intn(100); {
			case x < 6:
				dg := r.Intn(c32Digests)
				if single {
					dg = int(tg[1] - '0')
				}
				o = []string{"op", "dupput", tg, "d" + strconv.Itoa(dg), "delay=" + strconv.Itoa(r.Intn(3))}
			case x < 9:
				o = []string{"op", "adv"}
			case x < 40:
				var deps []string
				for k := r.Intn(4); k > 0; k-- {
					deps = append(deps, r.Pick("ok", "ok", "ok", "ok", "nf", "err"))
				}
				dg := r.Intn(c32Digests)
				if single {
					dg = int(tg[1] - '0')
				}
				o = []string{"op", "put", tg, "d" + strconv.Itoa(dg), "deps=" + verifh.List(deps)}
				if r.Chance(1, 4) {
					o = append(o, "rep=1")
				}
			case x < 58:
				o = []string{"op", "get", tg}
			case x < 74:
				o = []string{"op", "exec", tg}
			case x < 80:
				o = []string{"op", "poll"}
			case x < 86:
				o = []string{"op", "evict", tg}
			case x < 94:
				o = []string{"op", "fail", strconv.Itoa(r.Intn(5))}
			default:
				o = []string{"op", "restart"}
			}
			tr.Count("random_op_"+o[1], 1)
			ops = append(ops, o)
		}
		if i < 2 {
			tr.Sample(fmt.Sprint(cfg, ops))
		}
		c32Run(base, tr, verifh.Case{Cfg: []string{cfg}, Ops: ops})
		tr.Count("random_cases", 1)
	}
}
