//go:build verif

package tagclient_test

import (
	"fmt"
	"net"
	"net/http"
	"net/http/httptest"
	"sort"
	"strings"
	"sync"
	"testing"

	"github.com/uber/kraken/build-index/tagclient"
	"github.com/uber/kraken/core"
	"github.com/uber/kraken/utils/httputil"
	"github.com/uber/kraken/utils/stringset"
	"github.com/uber/kraken/utils/verifh"
)

// C25 harness (3/3): the tagclient cluster client against a pool of real HTTP servers that count
// and order the requests they receive.  A host's scripted behaviour: o = 200, e = 500 (an error that
// is not a network error), n = the server drops the connection without answering (network error).
//   tagcc one <do|once> <method> <hosts> <host=o|n|e,…> => <ok|neterr|err|nohosts> <contacted in order> <Failed() calls sorted>
// Hosts are named h00..h39 and mapped to the pool's listener addresses.

type c25Pool struct {
	mu        sync.Mutex
	servers   []*httptest.Server
	addrs     []string          // index -> listener address
	name      map[string]string // listener address -> h%02d
	behaviour map[string]byte   // host name -> 'o' | 'n' | 'e'
	contacted []string
}

var c25Digest = core.DigestFixture()

func c25NewPool(n int) *c25Pool {
	p := &c25Pool{name: map[string]string{}, behaviour: map[string]byte{}}
	for i := 0; i < n; i++ {
		host := fmt.Sprintf("h%02d", i)
		srv := httptest.NewUnstartedServer(http.HandlerFunc(func(w http.ResponseWriter, r *http.Request) {
			p.mu.Lock()
			p.contacted = append(p.contacted, host)
			b := p.behaviour[host]
			p.mu.Unlock()
			switch b {
			case 'o':
				w.Header().Set("Connection", "close")
				if strings.HasPrefix(r.URL.Path, "/tags/") && r.Method == "GET" {
					fmt.Fprint(w, c25Digest.String())
				} else if strings.HasPrefix(r.URL.Path, "/list/") || strings.HasPrefix(r.URL.Path, "/repositories/") {
					// a two-page listing: the client comes back to the same host for the second page
					next := ""
					if r.URL.Query().Get("offset") == "" && !strings.Contains(r.URL.RawQuery, "limit") {
						next = r.URL.Path + "?offset=page2"
					}
					fmt.Fprintf(w, `{"Links":{"next":%q,"self":""},"size":1,"result":["repo:tag"]}`, next)
				} else {
					fmt.Fprint(w, "ok")
				}
			case 'n':
				if hj, ok := w.(http.Hijacker); ok {
					if conn, _, err := hj.Hijack(); err == nil {
						if tc, ok := conn.(*net.TCPConn); ok {
							tc.SetLinger(0)
						}
						conn.Close()
						return
					}
				}
				panic(http.ErrAbortHandler)
			default:
				w.Header().Set("Connection", "close")
				w.WriteHeader(500)
			}
		}))
		srv.Config.SetKeepAlivesEnabled(false)
		srv.Start()
		p.servers = append(p.servers, srv)
		addr := srv.Listener.Addr().String()
		p.addrs = append(p.addrs, addr)
		p.name[addr] = host
	}
	return p
}

func (p *c25Pool) close() {
	for _, s := range p.servers {
		s.Close()
	}
}

type c25Hosts struct {
	addrs  []string
	failed []string
	pool   *c25Pool
}

func (h *c25Hosts) Resolve() stringset.Set { return stringset.New(h.addrs...) }
func (h *c25Hosts) Failed(addr string)     { h.failed = append(h.failed, h.pool.name[addr]) }

func c25TagExec(t *verifh.T, p *c25Pool, c verifh.Case) {
	// `op` records: one cluster client for the whole case (its host list changes from request to request)
	seq := false
	for _, op := range c.Ops {
		seq = seq || (len(op) > 0 && op[0] == "op")
	}
	shared := &c25Hosts{pool: p}
	sharedClient := tagclient.NewClusterClient(shared, nil)
	if seq {
		t.Cfg()
		defer t.End()
	}
	for _, op := range c.Ops {
		if len(op) != 5 || (op[0] != "one" && op[0] != "op") || (op[1] != "do" && op[1] != "once") {
			continue
		}
		hosts := &c25Hosts{pool: p}
		if op[0] == "op" {
			hosts = shared
			hosts.addrs, hosts.failed = nil, nil
		}
		p.mu.Lock()
		p.contacted = nil
		p.behaviour = map[string]byte{}
		okHosts := true
		for _, h := range verifh.Unlist(op[3]) {
			var i int
			if _, err := fmt.Sscanf(h, "h%d", &i); err != nil || i < 0 || i >= len(p.addrs) {
				okHosts = false
				break
			}
			hosts.addrs = append(hosts.addrs, p.addrs[i])
			p.behaviour[h] = 'e'
		}
		for _, e := range verifh.Unlist(op[4]) {
			if i := strings.LastIndex(e, "="); i >= 0 && len(e) == i+2 {
				p.behaviour[e[:i]] = e[i+1]
			}
		}
		p.mu.Unlock()
		if !okHosts {
			continue
		}
		cc := tagclient.NewClusterClient(hosts, nil)
		if op[0] == "op" {
			cc = sharedClient
		}
		var err error
		pan := verifh.Protect(func() {
			switch op[2] {
			case "Get":
				_, err = cc.Get("repo:tag")
			case "Has":
				_, err = cc.Has("repo:tag")
			case "Put":
				err = cc.Put("repo:tag", c25Digest)
			case "Origin":
				_, err = cc.Origin()
			case "List":
				_, err = cc.List("repo")
			case "ListWithPagination":
				_, err = cc.ListWithPagination("repo", tagclient.ListFilter{Limit: 5})
			case "ListRepository":
				_, err = cc.ListRepository("repo")
			case "ListRepositoryWithPagination":
				_, err = cc.ListRepositoryWithPagination("repo", tagclient.ListFilter{Limit: 5})
			case "PutAndReplicate":
				err = cc.PutAndReplicate("repo:tag", c25Digest)
			case "Replicate":
				err = cc.Replicate("repo:tag")
			case "CheckReadiness":
				err = cc.CheckReadiness()
			default:
				err = fmt.Errorf("unknown method")
			}
		})
		p.mu.Lock()
		contacted := append([]string(nil), p.contacted...)
		p.mu.Unlock()
		emit := t.One
		if op[0] == "op" {
			emit = t.Op
		}
		if pan != "" {
			emit(op[1:], "panic", verifh.List(contacted), "-")
			t.PropFail("panic", verifh.Str(pan))
			continue
		}
		res := "ok"
		switch {
		case err == nil:
		case len(contacted) == 0:
			res = "nohosts"
		case httputil.IsNetworkError(err):
			res = "neterr"
		default:
			res = "err"
		}
		failed := append([]string(nil), hosts.failed...)
		sort.Strings(failed)
		emit(op[1:], res, verifh.List(contacted), verifh.List(failed))
	}
}

func c25TagCase(mode, method string, idx []int, outs string) verifh.Case {
	var hosts, os []string
	for j, i := range idx {
		h := fmt.Sprintf("h%02d", i)
		hosts = append(hosts, h)
		os = append(os, h+"="+string(outs[j%len(outs)]))
	}
	return verifh.Case{Ops: [][]string{{"one", mode, method, verifh.List(hosts), verifh.List(os)}}}
}

func TestVerif_C25TagClient(t *testing.T) {
	tr := verifh.Open("tagcc")
	defer tr.Close()
	pool := c25NewPool(40)
	defer pool.close()
	cases, replayOnly := verifh.InputCases("tagcc")
	for _, c := range cases {
		c25TagExec(tr, pool, c)
		tr.Count("corpus_or_replay_cases", 1)
	}
	if replayOnly {
		return
	}
	r := verifh.NewRand(verifh.Seed(), "c25tag")
	first := func(k int) []int {
		var idx []int
		for i := 0; i < k; i++ {
			idx = append(idx, i)
		}
		return idx
	}
	// exhaustive: every outcome pattern over {o,n,e} for 0..5 hosts (0..6 thorough), method Get
	for k := 0; k <= verifh.Scale(5, 6); k++ {
		n := 1
		for i := 0; i < k; i++ {
			n *= 3
		}
		for m := 0; m < n; m++ {
			outs := ""
			x := m
			for i := 0; i < k; i++ {
				outs += string("one"[x%3])
				x /= 3
			}
			if outs == "" {
				outs = "o"
			}
			c25TagExec(tr, pool, c25TagCase("do", "Get", first(k), outs))
			tr.Count("exhaustive_patterns", 1)
		}
	}
	// every size 0..40: all hosts down (the defect's worst case), all erroring, all fine; single-attempt calls
	for k := 0; k <= 40; k++ {
		for _, outs := range []string{"n", "e", "o", "nno", "nne"} {
			c25TagExec(tr, pool, c25TagCase("do", "Has", first(k), outs))
			tr.Count("size_sweep", 1)
		}
		for _, outs := range []string{"n", "e", "o"} {
			c25TagExec(tr, pool, c25TagCase("once", "CheckReadiness", first(k), outs))
			tr.Count("size_sweep_once", 1)
		}
	}
	// every method that goes through clusterClient.do, on the worst case (all hosts down) and a mixed one
	for _, m := range []string{"Get", "Has", "Put", "PutAndReplicate", "Origin", "Replicate", "List", "ListWithPagination", "ListRepository", "ListRepositoryWithPagination"} {
		for _, k := range []int{1, 3, 4, 9} {
			for _, outs := range []string{"n", "nno", "o", "ne"} {
				c25TagExec(tr, pool, c25TagCase("do", m, first(k), outs))
				tr.Count("all_methods", 1)
			}
		}
	}
	// request SEQUENCES through one client object: a host serves a request, then leaves the host list, or it and
	// the sampled hosts start failing - every request must be judged against the list current at that moment
	seqOp := func(method string, idx []int, outs string) []string {
		c := c25TagCase("do", method, idx, outs)
		return append([]string{"op"}, c.Ops[0][1:]...)
	}
	for i := 0; i < verifh.Scale(150, 6000); i++ {
		var c verifh.Case
		n := 1 + r.Intn(6)
		cur := r.Perm(40)[:n]
		for j := 0; j < 3+r.Intn(6); j++ {
			switch r.Intn(4) {
			case 0: // the membership changes completely
				cur = r.Perm(40)[:1+r.Intn(6)]
			case 1: // one host leaves (often the one that just answered: all were fine)
				if len(cur) > 1 {
					cur = cur[1:]
				}
			}
			outs := r.Pick("o", "o", "n", "no", "nno", "on", "e")
			c.Ops = append(c.Ops, seqOp(r.Pick("Get", "Has", "Origin", "List"), cur, outs))
		}
		c25TagExec(tr, pool, c)
		tr.Count("sequence_cases", 1)
	}
	// the sharpest sequences: a single host answers, then the list is replaced by other hosts (all fine / all down)
	for h := 0; h < 8; h++ {
		for _, outs := range []string{"o", "n", "e"} {
			others := []int{(h + 1) % 40, (h + 2) % 40, (h + 3) % 40, (h + 4) % 40}
			c25TagExec(tr, pool, verifh.Case{Ops: [][]string{
				seqOp("Get", []int{h}, "o"), seqOp("Get", others, outs), seqOp("Has", others[:2], outs), seqOp("Get", []int{h}, "o")}})
			tr.Count("sequence_cases", 1)
		}
	}
	methods := []string{"Get", "Has", "Put", "Origin", "PutAndReplicate", "Replicate", "List", "ListWithPagination", "ListRepository", "ListRepositoryWithPagination"}
	for i := 0; i < verifh.Scale(600, 30000); i++ {
		k := r.Intn(41)
		idx := r.Perm(40)[:k]
		outs := ""
		for j := 0; j < k+1; j++ {
			outs += r.Pick("n", "n", "n", "o", "e")
		}
		if r.Chance(1, 6) {
			c25TagExec(tr, pool, c25TagCase("once", "CheckReadiness", idx, outs))
		} else {
			c25TagExec(tr, pool, c25TagCase("do", methods[r.Intn(len(methods))], idx, outs))
		}
		tr.Count("random_cases", 1)
	}
}
