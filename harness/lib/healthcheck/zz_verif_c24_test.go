//go:build verif

package healthcheck_test

import (
	"fmt"
	"sort"
	"strconv"
	"strings"
	"sync"
	"sync/atomic"
	"testing"
	"time"

	"github.com/andres-erbsen/clock"

	"github.com/uber/kraken/lib/healthcheck"
	"github.com/uber/kraken/utils/stringset"
	"github.com/uber/kraken/utils/verifh"
)

// C24 harness: drives healthcheck.NewPassiveFilter / NewPassive (public API) with a clock.Mock.

const c24NumHosts = 4

// c24Clock is a clock.Mock whose Now() is advanced without the 1ms real sleep clock.Mock.Add
// performs after every call (the passive filter only reads Now()).
type c24Clock struct {
	*clock.Mock
	off time.Duration
}

func (c *c24Clock) Now() time.Time { return c.Mock.Now().Add(c.off) }

// c24List is a fixed hostlist.List.
type c24List struct{ set stringset.Set }

func (l *c24List) Resolve() stringset.Set { return l.set }

func c24Addr(i int) string { return fmt.Sprintf("host%d:80", i) }

func c24Host(tok string) (int, bool) {
	if len(tok) < 2 || tok[0] != 'a' {
		return 0, false
	}
	i, err := strconv.Atoi(tok[1:])
	return i, err == nil && i >= 0 && i < c24NumHosts
}

func c24Sorted(s stringset.Set) string {
	var idx []int
	unknown := 0
	for a := range s {
		found := false
		for i := 0; i < c24NumHosts; i++ {
			if c24Addr(i) == a {
				idx = append(idx, i)
				found = true
			}
		}
		if !found {
			unknown++
		}
	}
	sort.Ints(idx)
	var toks []string
	for _, i := range idx {
		toks = append(toks, fmt.Sprintf("a%d", i))
	}
	for i := 0; i < unknown; i++ {
		toks = append(toks, "a?")
	}
	return verifh.List(toks)
}

func c24Int(cfg []string, key string) (int64, bool) {
	for _, t := range cfg {
		if strings.HasPrefix(t, key+"=") {
			v, err := strconv.ParseInt(t[len(key)+1:], 10, 64)
			return v, err == nil
		}
	}
	return 0, false
}

func c24Set(tok string) (stringset.Set, bool) {
	s := stringset.New()
	for _, ht := range verifh.Unlist(tok) {
		h, ok := c24Host(ht)
		if !ok {
			return nil, false
		}
		s.Add(c24Addr(h))
	}
	return s, true
}

func c24Exec(t *verifh.T, c verifh.Case) {
	fails, ok1 := c24Int(c.Cfg, "fails")
	timeout, ok2 := c24Int(c.Cfg, "timeout")
	if !ok1 || !ok2 {
		return
	}
	clk := &c24Clock{Mock: clock.NewMock()}
	f := healthcheck.NewPassiveFilter(
		healthcheck.PassiveFilterConfig{Fails: int(fails), FailTimeout: time.Duration(timeout)}, clk)
	// one Passive per case (the object clients hold): its Failed is the production call site
	list := &c24List{set: stringset.New()}
	passive := healthcheck.NewPassive(list, f)
	t.Cfg(c.Cfg...)
	used := map[int]bool{}
	do := func(op []string) {
		if len(op) < 2 || op[0] != "op" {
			return
		}
		switch op[1] {
		case "failed", "pfailed":
			if len(op) != 3 {
				return
			}
			if h, ok := c24Host(op[2]); ok {
				used[h] = true
				if op[1] == "pfailed" {
					passive.Failed(c24Addr(h)) // Passive.Failed -> PassiveFilter.Failed
				} else {
					f.Failed(c24Addr(h))
				}
				t.Op(op[1:], "ok")
			}
		case "run", "resolve":
			if len(op) != 3 {
				return
			}
			set, ok := c24Set(op[2])
			if !ok {
				return
			}
			if op[1] == "run" {
				t.Op(op[1:], c24Sorted(f.Run(set)))
			} else {
				list.set = set
				t.Op(op[1:], c24Sorted(passive.Resolve()))
			}
		case "adv":
			if len(op) != 3 {
				return
			}
			d, err := strconv.ParseInt(op[2], 10, 64)
			if err != nil || d < 0 || d > 1<<50 {
				return
			}
			clk.off += time.Duration(d)
			t.Op(op[1:], "ok")
		}
	}
	for _, op := range c.Ops {
		if p := verifh.Protect(func() { do(op) }); p != "" {
			t.PropFail("panic", verifh.Str(p))
		}
	}
	// drain: the filter's answer for every host touched, now and when the newest mark lapses
	if p := verifh.Protect(func() {
		var hs []string
		for h := 0; h < c24NumHosts; h++ {
			if used[h] {
				hs = append(hs, fmt.Sprintf("a%d", h))
			}
		}
		if len(hs) == 0 {
			return
		}
		all := verifh.List(hs)
		do([]string{"op", "run", all})
		if timeout > 0 && timeout < 1<<40 {
			do([]string{"op", "adv", strconv.FormatInt(timeout, 10)})
			do([]string{"op", "run", all})
			do([]string{"op", "adv", "1"})
			do([]string{"op", "resolve", all})
		}
	}); p != "" {
		t.PropFail("panic", verifh.Str(p))
	}
	t.End()
}

func c24Cfg(fails int, timeout int64) []string {
	return []string{fmt.Sprintf("fails=%d", fails), fmt.Sprintf("timeout=%d", timeout)}
}

func c24Op(toks ...string) []string { return append([]string{"op"}, toks...) }

func TestVerif_C24(t *testing.T) {
	tr := verifh.Open("ph")
	defer tr.Close()
	cases, replayOnly := verifh.InputCases("ph")
	for _, c := range cases {
		c24Exec(tr, c)
		tr.Count("corpus_or_replay_cases", 1)
	}
	if replayOnly {
		return
	}
	exhaust := func(name string, cfg []string, alpha [][]string, depth int) {
		var rec func(ops [][]string, d int)
		rec = func(ops [][]string, d int) {
			if d == 0 {
				c24Exec(tr, verifh.Case{Cfg: cfg, Ops: ops})
				tr.Count("exhaustive_"+name, 1)
				return
			}
			for _, o := range alpha {
				rec(append(ops[:len(ops):len(ops)], o), d-1)
			}
		}
		for d := 0; d <= depth; d++ {
			rec(nil, d)
		}
	}
	// (a1) one host's timeline: failures, Run, and advances of 0 < 1 < timeout-1, timeout, timeout+1
	// (timeout 10), Fails 1..3
	alphaOne := [][]string{
		c24Op("failed", "a0"), c24Op("run", "a0,a1"), c24Op("adv", "1"), c24Op("adv", "9"), c24Op("adv", "10"), c24Op("adv", "11"),
	}
	for fails := 1; fails <= 3; fails++ {
		exhaust(fmt.Sprintf("one_host_fails%d", fails), c24Cfg(fails, 10), alphaOne, verifh.Scale(5, 7))
	}
	// (a1') lapse of a mark followed by fresh failures, deeper over a 4-symbol alphabet
	alphaLapse := [][]string{c24Op("pfailed", "a0"), c24Op("run", "a0,a1"), c24Op("adv", "11"), c24Op("adv", "4")}
	exhaust("lapse_fails2", c24Cfg(2, 10), alphaLapse, verifh.Scale(7, 9))
	exhaust("lapse_fails3", c24Cfg(3, 10), alphaLapse, verifh.Scale(6, 9))
	// (a2) two hosts and Passive.Resolve
	alphaTwo := [][]string{
		c24Op("pfailed", "a0"), c24Op("failed", "a1"), c24Op("run", "a0,a1"), c24Op("resolve", "a0,a1"), c24Op("resolve", "a0"),
		c24Op("adv", "5"), c24Op("adv", "11"),
	}
	exhaust("two_hosts", c24Cfg(2, 10), alphaTwo, verifh.Scale(5, 6))

	// (b) random long timelines over 4 hosts: bursts of failures, Run at arbitrary moments
	r := verifh.NewRand(verifh.Seed(), "c24")
	for i := 0; i < verifh.Scale(4000, 200000); i++ {
		fails := []int{0, 1, 2, 3, 3, 4}[r.Intn(6)]
		timeout := []int64{10, 10, 20, 1000, 0}[r.Intn(5)]
		if r.Chance(1, 50) {
			timeout = -5
			tr.Count("random_cfg_negative_timeout", 1)
		}
		if r.Chance(1, 50) {
			fails = -1
			tr.Count("random_cfg_negative_fails", 1)
		}
		eff := timeout
		if eff == 0 {
			eff = 300000000000
		}
		nh := 1 + r.Intn(c24NumHosts)
		var all []string
		for h := 0; h < nh; h++ {
			all = append(all, fmt.Sprintf("a%d", h))
		}
		var ops [][]string
		n := 5 + r.Intn(50)
		for j := 0; j < n; j++ {
			var o []string
			switch x := r.Intn(100); {
			case x < 45:
				o = c24Op(r.Pick("failed", "pfailed"), fmt.Sprintf("a%d", r.Intn(nh)))
			case x < 62:
				var sub []string
				for _, a := range all {
					if r.Chance(3, 4) {
						sub = append(sub, a)
					}
				}
				o = c24Op("run", verifh.List(sub))
			case x < 68:
				o = c24Op("resolve", verifh.List(all))
			default:
				var d int64
				switch r.Intn(7) {
				case 0:
					d = 0
				case 1, 2:
					d = 1 + int64(r.Intn(3))
				case 3:
					d = eff - 1
				case 4:
					d = eff
				case 5:
					d = eff + 1
				case 6:
					d = eff / 2
				}
				if d < 0 {
					d = 0
				}
				o = c24Op("adv", strconv.FormatInt(d, 10))
			}
			ops = append(ops, o)
			tr.Count("random_op_"+o[1], 1)
		}
		if r.Chance(1, 20) {
			ops = append(ops, c24Op("failed", "a9"), c24Op("run", "a0,zz"), c24Op("adv", "-1"))
			tr.Count("random_malformed", 1)
		}
		cs := verifh.Case{Cfg: c24Cfg(fails, timeout), Ops: ops}
		if i < 2 {
			tr.Sample(fmt.Sprint(cs.Cfg, cs.Ops))
		}
		c24Exec(tr, cs)
		tr.Count("random_cases", 1)
	}
}

// ---------------------------------------------------------------- concurrent callers (machine phc)

// TestVerif_C24Concurrent exercises the filter's mutex: goroutines call Failed / Run / Resolve on one
// filter at the same time with the clock frozen. Judged by the rule itself where it is
// interleaving-independent: Run returns listed hosts only, and once all callers are done a host is
// filtered exactly when it collected at least Fails failures (all of them at the same instant, hence
// inside one window). The thorough tier builds this with -race.
func TestVerif_C24Concurrent(t *testing.T) {
	tr := verifh.Open("phc")
	defer tr.Close()
	if _, replayOnly := verifh.InputCases("phc"); replayOnly {
		return
	}
	for round := 0; round < verifh.Scale(40, 400); round++ {
		fails := 1 + round%4
		clk := &c24Clock{Mock: clock.NewMock()}
		f := healthcheck.NewPassiveFilter(healthcheck.PassiveFilterConfig{Fails: fails, FailTimeout: 10 * time.Second}, clk)
		all := stringset.New()
		for h := 0; h < c24NumHosts; h++ {
			all.Add(c24Addr(h))
		}
		passive := healthcheck.NewPassive(&c24List{all}, f)
		tr.Cfg(fmt.Sprintf("fails=%d", fails))
		var wg sync.WaitGroup
		var mu sync.Mutex
		problems := map[string]string{}
		count := make([]int32, c24NumHosts)
		for g := 0; g < 4; g++ {
			wg.Add(1)
			go func(g int) {
				defer wg.Done()
				r := verifh.NewRand(verifh.Seed(), fmt.Sprintf("c24c-%d-%d", round, g))
				for k := 0; k < 200; k++ {
					switch x := r.Intn(10); {
					case x < 4:
						h := r.Intn(c24NumHosts)
						if r.Chance(1, 6) || h > 0 { // host 0 fails rarely: often stays below Fails
							atomic.AddInt32(&count[h], 1)
							if r.Chance(1, 2) {
								passive.Failed(c24Addr(h))
							} else {
								f.Failed(c24Addr(h))
							}
						}
					case x < 8:
						for a := range f.Run(all) {
							if !all.Has(a) {
								mu.Lock()
								problems["filter-unlisted"] = "Run returned a host that was not listed"
								mu.Unlock()
							}
						}
					default:
						if len(passive.Resolve()) == 0 {
							mu.Lock()
							problems["resolve-empty"] = "Passive.Resolve returned no host for a non-empty list"
							mu.Unlock()
						}
					}
				}
			}(g)
		}
		wg.Wait()
		healthy := f.Run(all)
		for h := 0; h < c24NumHosts; h++ {
			n := int(atomic.LoadInt32(&count[h]))
			if n >= fails && healthy.Has(c24Addr(h)) {
				problems["filter-missed"] = fmt.Sprintf("a%d has %d failures at one instant (Fails=%d) but is returned", h, n, fails)
			}
			if n < fails && !healthy.Has(c24Addr(h)) {
				problems["filter-spurious"] = fmt.Sprintf("a%d has only %d failures (Fails=%d) but is filtered out", h, n, fails)
			}
		}
		for k, d := range problems {
			tr.PropFail(k, verifh.Str(d))
		}
		tr.Op([]string{"concurrent"}, fmt.Sprintf("healthy=%d", len(healthy)))
		tr.End()
	}
}
