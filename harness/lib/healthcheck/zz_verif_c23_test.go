//go:build verif

package healthcheck_test

import (
	"context"
	"errors"
	"fmt"
	"sort"
	"strconv"
	"strings"
	"sync"
	"sync/atomic"
	"testing"
	"time"

	"github.com/uber/kraken/lib/healthcheck"
	"github.com/uber/kraken/utils/stringset"
	"github.com/uber/kraken/utils/verifh"
)

// C23 harness: drives healthcheck.NewFilter (public API) with a scripted Checker.

const c23NumHosts = 5

func c23Addr(i int) string { return fmt.Sprintf("host%d:80", i) }

func c23Host(tok string) (int, bool) {
	if len(tok) < 2 || tok[0] != 'a' {
		return 0, false
	}
	i, err := strconv.Atoi(tok[1:])
	return i, err == nil && i >= 0 && i < c23NumHosts
}

func c23Tok(addr string) string {
	for i := 0; i < c23NumHosts; i++ {
		if c23Addr(i) == addr {
			return fmt.Sprintf("a%d", i)
		}
	}
	return "a?" + verifh.Str(addr)
}

// c23Checker is scripted per Run; Check is called from one goroutine per host and does not
// serialise the callers (the filter's own state mutex is what is exercised, -race in thorough).
type c23Checker struct {
	script  atomic.Value // *c23Script
	checked [c23NumHosts]int32
}

type c23Script struct {
	ok    map[string]bool
	block map[string]bool // the check hangs until the Run's timeout
}

func (c *c23Checker) set(s *c23Script) {
	c.script.Store(s)
	for i := range c.checked {
		atomic.StoreInt32(&c.checked[i], 0)
	}
}

func (c *c23Checker) checkedAddrs() []string {
	var out []string
	for i := range c.checked {
		if atomic.LoadInt32(&c.checked[i]) != 0 {
			out = append(out, c23Addr(i))
		}
	}
	return out
}

func (c *c23Checker) Check(ctx context.Context, addr string) error {
	s := c.script.Load().(*c23Script)
	for i := 0; i < c23NumHosts; i++ {
		if c23Addr(i) == addr {
			atomic.AddInt32(&c.checked[i], 1)
		}
	}
	if s.block[addr] {
		<-ctx.Done()
		return ctx.Err()
	}
	if s.ok[addr] {
		return nil
	}
	return errors.New("scripted failure")
}

// c23Parse reads "a0:1,a1:0,a2:t".
func c23Parse(tok string) (stringset.Set, *c23Script, bool) {
	addrs := stringset.New()
	sc := &c23Script{ok: map[string]bool{}, block: map[string]bool{}}
	for _, e := range verifh.Unlist(tok) {
		parts := strings.Split(e, ":")
		if len(parts) != 2 || (parts[1] != "0" && parts[1] != "1" && parts[1] != "t") {
			return nil, nil, false
		}
		h, ok := c23Host(parts[0])
		if !ok {
			return nil, nil, false
		}
		addrs.Add(c23Addr(h))
		sc.ok[c23Addr(h)] = parts[1] == "1"
		sc.block[c23Addr(h)] = parts[1] == "t"
	}
	return addrs, sc, true
}

func c23Int(cfg []string, key string) (int, bool) {
	for _, t := range cfg {
		if strings.HasPrefix(t, key+"=") {
			v, err := strconv.Atoi(t[len(key)+1:])
			return v, err == nil
		}
	}
	return 0, false
}

func c23Sorted(addrs []string) string {
	var toks []string
	for _, a := range addrs {
		toks = append(toks, c23Tok(a))
	}
	sort.Slice(toks, func(i, j int) bool {
		if len(toks[i]) != len(toks[j]) {
			return len(toks[i]) < len(toks[j])
		}
		return toks[i] < toks[j]
	})
	return verifh.List(toks)
}

func c23Exec(t *verifh.T, c verifh.Case) {
	fails, ok1 := c23Int(c.Cfg, "fails")
	passes, ok2 := c23Int(c.Cfg, "passes")
	if !ok1 || !ok2 {
		return
	}
	// timeout=<ms> (optional): the per-Run check timeout; cases with hanging checks set it small
	timeout, _ := c23Int(c.Cfg, "timeout")
	chk := &c23Checker{}
	f := healthcheck.NewFilter(healthcheck.FilterConfig{
		Fails: fails, Passes: passes, Timeout: time.Duration(timeout) * time.Millisecond}, chk)
	t.Cfg(c.Cfg...)
	do := func(op []string) {
		if len(op) != 3 || op[0] != "op" || op[1] != "run" {
			return
		}
		addrs, sc, ok := c23Parse(op[2])
		if !ok {
			return
		}
		if timeout <= 0 || timeout > 200 {
			for _, b := range sc.block {
				if b {
					return // a hanging check needs a small timeout
				}
			}
		}
		chk.set(sc)
		healthy := f.Run(addrs)
		t.Op(op[1:], c23Sorted(healthy.ToSlice()), c23Sorted(chk.checkedAddrs()))
	}
	for _, op := range c.Ops {
		if p := verifh.Protect(func() { do(op) }); p != "" {
			t.PropFail("panic", verifh.Str(p))
		}
	}
	t.End()
}

func c23Cfg(fails, passes int) []string {
	return []string{fmt.Sprintf("fails=%d", fails), fmt.Sprintf("passes=%d", passes)}
}

func c23Run(entries ...string) []string { return []string{"op", "run", verifh.List(entries)} }

func TestVerif_C23(t *testing.T) {
	tr := verifh.Open("hc")
	defer tr.Close()
	cases, replayOnly := verifh.InputCases("hc")
	for _, c := range cases {
		c23Exec(tr, c)
		tr.Count("corpus_or_replay_cases", 1)
	}
	if replayOnly {
		return
	}
	exhaust := func(name string, cfg []string, alpha [][]string, depth int) {
		var rec func(ops [][]string, d int)
		rec = func(ops [][]string, d int) {
			if d == 0 {
				c23Exec(tr, verifh.Case{Cfg: cfg, Ops: ops})
				tr.Count("exhaustive_"+name, 1)
				return
			}
			for _, o := range alpha {
				rec(append(ops[:len(ops):len(ops)], o), d-1)
			}
		}
		for d := 0; d <= depth; d++ {
			rec(nil, d)
		}
	}
	// (a1) one host's whole event alphabet (passes, fails, leaves, is the only host) next to a
	// steadily passing companion, for all Fails/Passes in 1..3
	alphaOne := [][]string{
		c23Run("a0:1", "a1:1"), c23Run("a0:0", "a1:1"), c23Run("a1:1", "a2:1"), c23Run("a0:0"), c23Run("a1:1"),
	}
	for fails := 1; fails <= 3; fails++ {
		for passes := 1; passes <= 3; passes++ {
			exhaust("one_host", c23Cfg(fails, passes), alphaOne, verifh.Scale(5, 7))
		}
	}
	// (a1') a hung host: the check blocks until the per-Run timeout (30 ms) and counts as failed
	alphaHang := [][]string{c23Run("a0:1", "a1:1"), c23Run("a0:0", "a1:1"), c23Run("a0:t", "a1:1")}
	exhaust("hung_host", append(c23Cfg(2, 1), "timeout=30"), alphaHang, verifh.Scale(4, 5))
	// (a2) two hosts moving independently (each absent / passing / failing), a third sometimes there
	var alphaTwo [][]string
	for _, e0 := range []string{"", "a0:1", "a0:0"} {
		for _, e1 := range []string{"", "a1:1", "a1:0"} {
			for _, e2 := range []string{"", "a2:1"} {
				var es []string
				for _, e := range []string{e0, e1, e2} {
					if e != "" {
						es = append(es, e)
					}
				}
				alphaTwo = append(alphaTwo, c23Run(es...))
			}
		}
	}
	exhaust("two_hosts", c23Cfg(2, 2), alphaTwo, verifh.Scale(3, 4))
	exhaust("two_hosts_defaults", c23Cfg(0, 0), alphaTwo, verifh.Scale(2, 3))

	// (b) random long histories over 5 hosts with leave / rejoin phases
	r := verifh.NewRand(verifh.Seed(), "c23")
	for i := 0; i < verifh.Scale(3000, 200000); i++ {
		fails := []int{0, 1, 2, 3, 4}[r.Intn(5)]
		passes := []int{0, 1, 2, 3}[r.Intn(4)]
		if r.Chance(1, 40) {
			fails = -1
			tr.Count("random_cfg_negative", 1)
		}
		nh := 2 + r.Intn(c23NumHosts-1)
		present := make([]bool, nh)
		okProb := make([]int, nh)
		for h := range present {
			present[h] = r.Chance(2, 3)
			okProb[h] = []int{1, 5, 9}[r.Intn(3)]
		}
		var ops [][]string
		n := 5 + r.Intn(40)
		for j := 0; j < n; j++ {
			var es []string
			for h := 0; h < nh; h++ {
				if r.Chance(1, 6) {
					present[h] = !present[h]
					tr.Count("random_membership_flip", 1)
				}
				if present[h] {
					es = append(es, fmt.Sprintf("a%d:%s", h, verifh.Bool(r.Chance(okProb[h], 10))))
				}
			}
			if verifh.Thorough() && i%400 == 0 && len(es) > 1 && r.Chance(1, 8) {
				es[0] = es[0][:len(es[0])-1] + "t" // a hung check (these cases run with timeout=30)
				tr.Count("random_hung_check", 1)
			}
			if r.Chance(1, 50) {
				es = append(es, "a9:1") // malformed: unknown host, the executor skips the record
				tr.Count("random_malformed", 1)
			}
			ops = append(ops, c23Run(es...))
			tr.Count(fmt.Sprintf("random_round_size_%d", len(es)), 1)
		}
		cfg := c23Cfg(fails, passes)
		if verifh.Thorough() && i%400 == 0 {
			cfg = append(cfg, "timeout=30")
		}
		cs := verifh.Case{Cfg: cfg, Ops: ops}
		if i < 2 {
			tr.Sample(fmt.Sprint(cs.Cfg, cs.Ops))
		}
		c23Exec(tr, cs)
		tr.Count("random_cases", 1)
	}
}

// TestVerif_C23Race is the part of the filter harness that the thorough tier builds with -race: random
// histories in which every Run updates the filter state from one goroutine per host.
func TestVerif_C23Race(t *testing.T) {
	tr := verifh.Open("hc")
	defer tr.Close()
	if _, replayOnly := verifh.InputCases("hc"); replayOnly {
		return
	}
	r := verifh.NewRand(verifh.Seed(), "c23race")
	for i := 0; i < 4000; i++ {
		var ops [][]string
		for j := 5 + r.Intn(20); j > 0; j-- {
			var es []string
			for h := 0; h < c23NumHosts; h++ {
				if r.Chance(4, 5) {
					es = append(es, fmt.Sprintf("a%d:%s", h, verifh.Bool(r.Chance(1, 2))))
				}
			}
			ops = append(ops, c23Run(es...))
		}
		c23Exec(tr, verifh.Case{Cfg: c23Cfg(1+r.Intn(3), 1+r.Intn(3)), Ops: ops})
		tr.Count("race_cases", 1)
	}
}

// ---------------------------------------------------------------- Monitor (machine hcm)

// c23Gate records what the monitor hands to the real filter and tells the harness when a loop
// iteration's Run has finished.
type c23Gate struct {
	inner healthcheck.Filter
	ran   chan stringset.Set
	hosts *c23Hosts
}

func (g *c23Gate) Run(addrs stringset.Set) stringset.Set {
	if g.hosts.isOpen() {
		return addrs.Copy() // shutting down
	}
	out := g.inner.Run(addrs)
	g.ran <- addrs.Copy()
	return out
}

// c23Hosts is the monitored host list. The monitor's loop resolves it at the start of every
// iteration: that call (every call but the constructor's) waits for the harness's permission,
// which is how the harness steps the loop one iteration at a time.
type c23Hosts struct {
	mu     sync.Mutex
	set    stringset.Set
	calls  int
	open   bool
	permit chan struct{}
}

func (l *c23Hosts) isOpen() bool {
	l.mu.Lock()
	defer l.mu.Unlock()
	return l.open
}

func (l *c23Hosts) Resolve() stringset.Set {
	l.mu.Lock()
	l.calls++
	first, open := l.calls == 1, l.open
	l.mu.Unlock()
	if !first && !open {
		<-l.permit
	}
	l.mu.Lock()
	defer l.mu.Unlock()
	return l.set.Copy()
}

func c23MonExec(t *verifh.T, c verifh.Case) {
	fails, ok1 := c23Int(c.Cfg, "fails")
	passes, ok2 := c23Int(c.Cfg, "passes")
	if !ok1 || !ok2 {
		return
	}
	chk := &c23Checker{}
	chk.set(&c23Script{ok: map[string]bool{}, block: map[string]bool{}})
	hosts := &c23Hosts{set: stringset.New(), permit: make(chan struct{})}
	gate := &c23Gate{
		inner: healthcheck.NewFilter(healthcheck.FilterConfig{Fails: fails, Passes: passes}, chk),
		ran:   make(chan stringset.Set, 1), hosts: hosts,
	}
	var mon *healthcheck.Monitor
	start := func() {
		if mon == nil {
			mon = healthcheck.NewMonitor(healthcheck.MonitorConfig{Interval: time.Millisecond}, hosts, gate)
		}
	}
	t.Cfg(c.Cfg...)
	do := func(op []string) {
		if len(op) < 2 || op[0] != "op" {
			return
		}
		switch {
		case op[1] == "hosts" && len(op) == 3:
			addrs, sc, ok := c23Parse(op[2])
			if !ok {
				return
			}
			for _, b := range sc.block {
				if b {
					return
				}
			}
			hosts.mu.Lock()
			hosts.set = addrs
			hosts.mu.Unlock()
			chk.set(sc)
			t.Op(op[1:], "ok")
		case op[1] == "tick" && len(op) == 2:
			start()
			hosts.permit <- struct{}{}
			input := <-gate.ran
			// the loop stores the result right after Run returns: wait (bounded) until Resolve shows
			// a set that differs from the one before, or settle for what it shows after 200 ms
			var got string
			deadline := time.Now().Add(200 * time.Millisecond)
			prev := ""
			for {
				got = c23Sorted(mon.Resolve().ToSlice())
				if got == prev || time.Now().After(deadline) {
					break
				}
				prev = got
				time.Sleep(300 * time.Microsecond)
			}
			t.Op(op[1:], c23Sorted(input.ToSlice()), got)
		case op[1] == "resolve" && len(op) == 2:
			start()
			t.Op(op[1:], c23Sorted(mon.Resolve().ToSlice()))
		}
	}
	for _, op := range c.Ops {
		if p := verifh.Protect(func() { do(op) }); p != "" {
			t.PropFail("panic", verifh.Str(p))
		}
	}
	if mon != nil {
		mon.Stop()
		hosts.mu.Lock()
		hosts.open = true
		hosts.mu.Unlock()
		select {
		case hosts.permit <- struct{}{}:
		case <-time.After(5 * time.Millisecond):
		}
	}
	t.End()
}

func TestVerif_C23Monitor(t *testing.T) {
	tr := verifh.Open("hcm")
	defer tr.Close()
	cases, replayOnly := verifh.InputCases("hcm")
	for _, c := range cases {
		c23MonExec(tr, c)
		tr.Count("corpus_or_replay_cases", 1)
	}
	if replayOnly {
		return
	}
	op := func(toks ...string) []string { return append([]string{"op"}, toks...) }
	alpha := [][]string{
		op("hosts", "a0:1,a1:1"), op("hosts", "a0:0,a1:1"), op("hosts", "a1:1,a2:1"), op("hosts", "a0:0"), op("tick"), op("resolve"),
	}
	var rec func(cfg []string, ops [][]string, d int)
	rec = func(cfg []string, ops [][]string, d int) {
		if d == 0 {
			c23MonExec(tr, verifh.Case{Cfg: cfg, Ops: ops})
			tr.Count("exhaustive_monitor", 1)
			return
		}
		for _, o := range alpha {
			rec(cfg, append(ops[:len(ops):len(ops)], o), d-1)
		}
	}
	for d := 0; d <= verifh.Scale(3, 5); d++ {
		rec(c23Cfg(1, 2), nil, d)
	}
	// longer scripted phases: fail until unhealthy, recover, leave, rejoin
	r := verifh.NewRand(verifh.Seed(), "c23m")
	for i := 0; i < verifh.Scale(150, 3000); i++ {
		fails, passes := 1+r.Intn(3), 1+r.Intn(3)
		var ops [][]string
		for j := 4 + r.Intn(16); j > 0; j-- {
			switch x := r.Intn(10); {
			case x < 4:
				var es []string
				for h := 0; h < 3; h++ {
					if r.Chance(3, 4) {
						es = append(es, fmt.Sprintf("a%d:%s", h, verifh.Bool(r.Chance(1, 2))))
					}
				}
				ops = append(ops, op("hosts", verifh.List(es)))
			case x < 9:
				ops = append(ops, op("tick"))
			default:
				ops = append(ops, op("resolve"))
			}
		}
		c23MonExec(tr, verifh.Case{Cfg: c23Cfg(fails, passes), Ops: ops})
		tr.Count("random_cases", 1)
	}
}
