//go:build verif

package healthcheck_test

import (
	"context"
	"errors"
	"fmt"
	"sort"
	"strconv"
	"strings"
	"sync"
	"testing"

	"github.com/uber/kraken/lib/healthcheck"
	"github.com/uber/kraken/utils/stringset"
	"github.com/uber/kraken/utils/verifh"
)

// C23 harness: drives healthcheck.NewFilter (public API) with a scripted Checker.

const c23NumHosts = 5

func c23Addr(i int) string { return fmt.Sprintf("host%d:80", i) }

func c23Host(tok string) (int, bool) {
	if len(tok) < 2 || tok[0] != 'a' {
		return 0, false
	}
	i, err := strconv.Atoi(tok[1:])
	return i, err == nil && i >= 0 && i < c23NumHosts
}

func c23Tok(addr string) string {
	for i := 0; i < c23NumHosts; i++ {
		if c23Addr(i) == addr {
			return fmt.Sprintf("a%d", i)
		}
	}
	return "a?" + verifh.Str(addr)
}

type c23Checker struct {
	mu      sync.Mutex
	ok      map[string]bool
	checked []string
}

func (c *c23Checker) Check(ctx context.Context, addr string) error {
	c.mu.Lock()
	defer c.mu.Unlock()
	c.checked = append(c.checked, addr)
	if c.ok[addr] {
		return nil
	}
	return errors.New("scripted failure")
}

func c23Int(cfg []string, key string) (int, bool) {
	for _, t := range cfg {
		if strings.HasPrefix(t, key+"=") {
			v, err := strconv.Atoi(t[len(key)+1:])
			return v, err == nil
		}
	}
	return 0, false
}

func c23Sorted(addrs []string) string {
	var toks []string
	for _, a := range addrs {
		toks = append(toks, c23Tok(a))
	}
	sort.Slice(toks, func(i, j int) bool {
		if len(toks[i]) != len(toks[j]) {
			return len(toks[i]) < len(toks[j])
		}
		return toks[i] < toks[j]
	})
	return verifh.List(toks)
}

func c23Exec(t *verifh.T, c verifh.Case) {
	fails, ok1 := c23Int(c.Cfg, "fails")
	passes, ok2 := c23Int(c.Cfg, "passes")
	if !ok1 || !ok2 {
		return
	}
	chk := &c23Checker{}
	f := healthcheck.NewFilter(healthcheck.FilterConfig{Fails: fails, Passes: passes}, chk)
	t.Cfg(c.Cfg...)
	do := func(op []string) {
		if len(op) != 3 || op[0] != "op" || op[1] != "run" {
			return
		}
		addrs := stringset.New()
		okm := map[string]bool{}
		for _, e := range verifh.Unlist(op[2]) {
			parts := strings.Split(e, ":")
			if len(parts) != 2 || (parts[1] != "0" && parts[1] != "1") {
				return
			}
			h, ok := c23Host(parts[0])
			if !ok {
				return
			}
			addrs.Add(c23Addr(h))
			okm[c23Addr(h)] = parts[1] == "1"
		}
		chk.mu.Lock()
		chk.ok, chk.checked = okm, nil
		chk.mu.Unlock()
		healthy := f.Run(addrs)
		chk.mu.Lock()
		checked := append([]string(nil), chk.checked...)
		chk.mu.Unlock()
		t.Op(op[1:], c23Sorted(healthy.ToSlice()), c23Sorted(checked))
	}
	for _, op := range c.Ops {
		if p := verifh.Protect(func() { do(op) }); p != "" {
			t.PropFail("panic", verifh.Str(p))
		}
	}
	t.End()
}

func c23Cfg(fails, passes int) []string {
	return []string{fmt.Sprintf("fails=%d", fails), fmt.Sprintf("passes=%d", passes)}
}

func c23Run(entries ...string) []string { return []string{"op", "run", verifh.List(entries)} }

func TestVerif_C23(t *testing.T) {
	tr := verifh.Open("hc")
	defer tr.Close()
	cases, replayOnly := verifh.InputCases("hc")
	for _, c := range cases {
		c23Exec(tr, c)
		tr.Count("corpus_or_replay_cases", 1)
	}
	if replayOnly {
		return
	}
	exhaust := func(name string, cfg []string, alpha [][]string, depth int) {
		var rec func(ops [][]string, d int)
		rec = func(ops [][]string, d int) {
			if d == 0 {
				c23Exec(tr, verifh.Case{Cfg: cfg, Ops: ops})
				tr.Count("exhaustive_"+name, 1)
				return
			}
			for _, o := range alpha {
				rec(append(ops[:len(ops):len(ops)], o), d-1)
			}
		}
		for d := 0; d <= depth; d++ {
			rec(nil, d)
		}
	}
	// (a1) one host's whole event alphabet (passes, fails, leaves, is the only host) next to a
	// steadily passing companion, for all Fails/Passes in 1..3
	alphaOne := [][]string{
		c23Run("a0:1", "a1:1"), c23Run("a0:0", "a1:1"), c23Run("a1:1", "a2:1"), c23Run("a0:0"), c23Run("a1:1"),
	}
	for fails := 1; fails <= 3; fails++ {
		for passes := 1; passes <= 3; passes++ {
			exhaust("one_host", c23Cfg(fails, passes), alphaOne, verifh.Scale(5, 7))
		}
	}
	// (a2) two hosts moving independently (each absent / passing / failing), a third sometimes there
	var alphaTwo [][]string
	for _, e0 := range []string{"", "a0:1", "a0:0"} {
		for _, e1 := range []string{"", "a1:1", "a1:0"} {
			for _, e2 := range []string{"", "a2:1"} {
				var es []string
				for _, e := range []string{e0, e1, e2} {
					if e != "" {
						es = append(es, e)
					}
				}
				alphaTwo = append(alphaTwo, c23Run(es...))
			}
		}
	}
	exhaust("two_hosts", c23Cfg(2, 2), alphaTwo, verifh.Scale(3, 4))
	exhaust("two_hosts_defaults", c23Cfg(0, 0), alphaTwo, verifh.Scale(2, 3))

	// (b) random long histories over 5 hosts with leave / rejoin phases
	r := verifh.NewRand(verifh.Seed(), "c23")
	for i := 0; i < verifh.Scale(3000, 200000); i++ {
		fails := []int{0, 1, 2, 3, 4}[r.Intn(5)]
		passes := []int{0, 1, 2, 3}[r.Intn(4)]
		if r.Chance(1, 40) {
			fails = -1
			tr.Count("random_cfg_negative", 1)
		}
		nh := 2 + r.Intn(c23NumHosts-1)
		present := make([]bool, nh)
		okProb := make([]int, nh)
		for h := range present {
			present[h] = r.Chance(2, 3)
			okProb[h] = []int{1, 5, 9}[r.Intn(3)]
		}
		var ops [][]string
		n := 5 + r.Intn(40)
		for j := 0; j < n; j++ {
			var es []string
			for h := 0; h < nh; h++ {
				if r.Chance(1, 6) {
					present[h] = !present[h]
					tr.Count("random_membership_flip", 1)
				}
				if present[h] {
					es = append(es, fmt.Sprintf("a%d:%s", h, verifh.Bool(r.Chance(okProb[h], 10))))
				}
			}
			if r.Chance(1, 50) {
				es = append(es, "a9:1") // malformed: unknown host, the executor skips the record
				tr.Count("random_malformed", 1)
			}
			ops = append(ops, c23Run(es...))
			tr.Count(fmt.Sprintf("random_round_size_%d", len(es)), 1)
		}
		cs := verifh.Case{Cfg: c23Cfg(fails, passes), Ops: ops}
		if i < 2 {
			tr.Sample(fmt.Sprint(cs.Cfg, cs.Ops))
		}
		c23Exec(tr, cs)
		tr.Count("random_cases", 1)
	}
}
