//go:build verif

package blobrefresh_test

import (
	"bytes"
	"crypto/sha256"
	"encoding/hex"
	"fmt"
	"io"
	"os"
	"sort"
	"strconv"
	"strings"
	"sync"
	"testing"
	"time"

	"github.com/andres-erbsen/clock"
	"github.com/c2h5oh/datasize"
	"github.com/uber-go/tally"
	"go.uber.org/zap"

	"github.com/uber/kraken/core"
	"github.com/uber/kraken/lib/backend"
	"github.com/uber/kraken/lib/backend/backenderrors"
	"github.com/uber/kraken/lib/blobrefresh"
	"github.com/uber/kraken/lib/metainfogen"
	"github.com/uber/kraken/lib/store"
	"github.com/uber/kraken/lib/store/metadata"
	"github.com/uber/kraken/utils/log"
	"github.com/uber/kraken/utils/verifh"
)

// C02, last clause at the refresh call site: Refresher.Refresh picks the piece length before the
// download, from the size the backend's Stat reports.  The harness refreshes a blob through the real
// Refresher (real CAStore, real metainfogen.Generator with a multi-entry piece-length table, scripted
// backend whose Stat size may differ from what it streams) and records the piece length of the
// metainfo that ends up stored for the blob.  Public API only.

func init() {
	zc := zap.NewProductionConfig()
	zc.OutputPaths = []string{}
	log.ConfigureLogger(zc)
}

type c02rBackend struct {
	mu   sync.Mutex
	size int64
	data []byte
}

func (b *c02rBackend) Stat(namespace, name string) (*core.BlobInfo, error) {
	return core.NewBlobInfo(b.size), nil
}
func (b *c02rBackend) Upload(namespace, name string, src io.Reader) error { return nil }
func (b *c02rBackend) Download(namespace, name string, dst io.Writer) error {
	_, err := io.Copy(dst, bytes.NewReader(b.data))
	return err
}
func (b *c02rBackend) List(prefix string, opts ...backend.ListOption) (*backend.ListResult, error) {
	return &backend.ListResult{}, nil
}
func (b *c02rBackend) Close() error { return nil }

var _ = backenderrors.ErrBlobNotFound

func c02rKV(toks []string, k string) string {
	for _, t := range toks {
		if strings.HasPrefix(t, k+"=") {
			return t[len(k)+1:]
		}
	}
	return ""
}

func c02rOne(t *verifh.T, toks []string) {
	tblTok := c02rKV(toks, "tbl")
	stat, err1 := strconv.ParseInt(c02rKV(toks, "stat"), 10, 64)
	data, err2 := verifh.Unhex(c02rKV(toks, "data"))
	mem := c02rKV(toks, "mem") == "1"
	max, err3 := strconv.ParseUint(c02rKV(toks, "max"), 10, 64)
	if err1 != nil || err2 != nil || err3 != nil || stat < 0 || stat > 1<<20 {
		return
	}
	table := map[datasize.ByteSize]datasize.ByteSize{}
	for _, kv := range strings.Split(tblTok, ",") {
		p := strings.Split(kv, ":")
		if len(p) != 2 {
			return
		}
		k, e1 := strconv.ParseUint(p[0], 10, 64)
		v, e2 := strconv.ParseUint(p[1], 10, 64)
		if e1 != nil || e2 != nil || v == 0 || v > 1<<20 {
			return
		}
		table[datasize.ByteSize(k)] = datasize.ByteSize(v)
	}
	up, err := os.MkdirTemp("", "verifc02up")
	if err != nil {
		panic(err)
	}
	defer os.RemoveAll(up)
	ca, err := os.MkdirTemp("", "verifc02ca")
	if err != nil {
		panic(err)
	}
	defer os.RemoveAll(ca)
	cas, closeCAS := store.CAStoreFixtureWithClock(store.CAStoreConfig{
		UploadDir: up, CacheDir: ca,
		UploadCleanup: store.CleanupConfig{Disabled: true}, CacheCleanup: store.CleanupConfig{Disabled: true},
		MemoryCache: store.MemoryCacheConfig{Enabled: mem, MaxSize: max, DrainWorkers: -1, TTLInterval: time.Duration(1 << 62)},
	}, clock.NewMock())
	defer closeCAS()
	mg, err := metainfogen.New(metainfogen.Config{PieceLengths: table}, cas)
	if err != nil {
		t.One(append([]string{"refresh"}, toks...), "errcfg")
		return
	}
	be := &c02rBackend{size: stat, data: data}
	bm := backend.ManagerFixture()
	if err := bm.Register("ns", be, false); err != nil {
		panic(err)
	}
	rstats := tally.NewTestScope("", nil)
	r := blobrefresh.New(blobrefresh.Config{}, rstats, cas, bm, mg)
	sum := sha256.Sum256(data)
	d, err := core.NewSHA256DigestFromHex(hex.EncodeToString(sum[:]))
	if err != nil {
		panic(err)
	}
	if err := r.Refresh("ns", d); err != nil {
		t.One(append([]string{"refresh"}, toks...), "fail")
		return
	}
	// completion: the RequestCache's num_requests gauge returns to 0 when the download function returned
	deadline := time.Now().Add(20 * time.Second)
	seen := false
	for !time.Now().After(deadline) {
		var v float64
		ok := false
		for _, g := range rstats.Snapshot().Gauges() {
			if g.Name() == "num_requests" {
				v, ok = g.Value(), true
			}
		}
		if ok {
			seen = true
			if v == 0 {
				break
			}
		} else if !seen && time.Now().After(deadline.Add(-19*time.Second)) {
			time.Sleep(50 * time.Millisecond) // no such gauge (renamed?): give the download time
			break
		}
		time.Sleep(100 * time.Microsecond)
	}
	var tm metadata.TorrentMeta
	if err := cas.GetCacheFileMetadata(d.Hex(), &tm); err != nil || tm.MetaInfo == nil {
		t.One(append([]string{"refresh"}, toks...), "nometa")
		return
	}
	t.One(append([]string{"refresh"}, toks...), "ok", "pl="+strconv.FormatInt(tm.MetaInfo.PieceLength(), 10),
		"len="+strconv.FormatInt(tm.MetaInfo.Length(), 10), "inmem="+verifh.Bool(mem && cas.CheckInMemCache(d.Hex())))
}

func TestVerif_C02_Refresh(t *testing.T) {
	tr := verifh.Open("refresh")
	defer tr.Close()
	cases, replayOnly := verifh.InputCases("refresh")
	for _, c := range cases {
		for _, op := range c.Ops {
			if len(op) >= 2 && op[0] == "one" && op[1] == "refresh" {
				op := op
				if p := verifh.Protect(func() { c02rOne(tr, op[2:]) }); p != "" {
					tr.PropFail("panic", verifh.Str(p))
				}
				tr.Count("corpus_or_replay_cases", 1)
			}
		}
	}
	if replayOnly {
		return
	}
	r := verifh.NewRand(verifh.Seed(), "c02refresh")
	tables := []string{"0:4,50:32", "0:2,8:4,16:8", "10:3,20:6", "0:5"}
	emit := func(tbl string, stat, n int, mem bool, max int) {
		data := r.Bytes(n)
		toks := []string{"tbl=" + tbl, "stat=" + strconv.Itoa(stat), "data=" + verifh.Hex(data), "mem=" + verifh.Bool(mem), "max=" + strconv.Itoa(max)}
		if p := verifh.Protect(func() { c02rOne(tr, toks) }); p != "" {
			tr.PropFail("panic", verifh.Str(p))
		}
	}
	// (a) every table × blob lengths around its thresholds × Stat sizes around them (equal, stale, zero)
	for _, tbl := range tables {
		var ths []int
		for _, kv := range strings.Split(tbl, ",") {
			k, _ := strconv.Atoi(strings.Split(kv, ":")[0])
			ths = append(ths, k)
		}
		sort.Ints(ths)
		var lens []int
		for _, th := range ths {
			for _, d := range []int{-1, 0, 1} {
				if th+d >= 0 {
					lens = append(lens, th+d)
				}
			}
		}
		lens = append(lens, 100)
		step := verifh.Scale(2, 1)
		for i, n := range lens {
			for j, st := range append([]int{0, 3}, lens...) {
				if (i+j)%step != 0 && st != n {
					continue
				}
				for _, mem := range []bool{false, true} {
					emit(tbl, st, n, mem, 1000)
					tr.Count("grid_cases", 1)
				}
			}
		}
	}
	// (b) random
	for i := 0; i < verifh.Scale(60, 3000); i++ {
		n := r.Intn(120)
		st := n
		if r.Chance(1, 2) {
			st = r.Intn(120)
		}
		emit(tables[r.Intn(len(tables))], st, n, r.Chance(1, 2), []int{0, 10, 64, 1000}[r.Intn(4)])
		tr.Count("random_cases", 1)
	}
	_ = fmt.Sprint
}
