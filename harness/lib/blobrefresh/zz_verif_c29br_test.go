//go:build verif

package blobrefresh_test

import (
	"errors"
	"fmt"
	"io"
	"runtime"
	"strconv"
	"strings"
	"sync"
	"testing"
	"time"

	"github.com/uber-go/tally"
	"github.com/uber/kraken/core"
	"github.com/uber/kraken/lib/backend"
	"github.com/uber/kraken/lib/backend/backenderrors"
	"github.com/uber/kraken/lib/blobrefresh"
	"github.com/uber/kraken/lib/metainfogen"
	"github.com/uber/kraken/lib/store"
	"github.com/uber/kraken/utils/verifh"
)

// C29, the Refresher's use of RequestCache (lib/blobrefresh/refresher.go): the real Refresher on a
// real CAStore with a backend whose Download blocks until the harness ends it. Two namespaces serve
// the same blobs: a blob must be downloaded by at most one request at a time whatever namespace asks.

const (
	c29brNS = 2
	c29brND = 2
)

type c29brDL struct {
	ns, d int
	gid   int64
	end   chan bool
}

type c29brBackend struct {
	e  *c29brEnv
	ns int
}

type c29brEnv struct {
	tr      *verifh.T
	blobs   []*core.BlobFixture
	mu      sync.Mutex
	active  []*c29brDL // downloads inside Download
	started chan *c29brDL
}

func (b *c29brBackend) digest(name string) int {
	for i, bl := range b.e.blobs {
		if bl.Digest.Hex() == name {
			return i
		}
	}
	return -1
}

func (b *c29brBackend) Stat(namespace, name string) (*core.BlobInfo, error) {
	d := b.digest(name)
	if d < 0 {
		return nil, backenderrors.ErrBlobNotFound
	}
	return core.NewBlobInfo(int64(len(b.e.blobs[d].Content))), nil
}

func (b *c29brBackend) Upload(namespace, name string, src io.Reader) error {
	return errors.New("unused")
}

func (b *c29brBackend) Download(namespace, name string, dst io.Writer) error {
	d := b.digest(name)
	if d < 0 {
		return backenderrors.ErrBlobNotFound
	}
	dl := &c29brDL{ns: b.ns, d: d, gid: c29brGID(), end: make(chan bool)}
	b.e.mu.Lock()
	for _, o := range b.e.active {
		if o.d == d {
			// impl-side fact: two downloads of one blob in flight
			b.e.tr.PropFail("concurrent-download", fmt.Sprintf("d%d-requested-through-ns%d-while-a-download-through-ns%d-is-in-flight", d, b.ns, o.ns))
		}
	}
	b.e.active = append(b.e.active, dl)
	b.e.mu.Unlock()
	b.e.started <- dl
	ok := <-dl.end
	b.e.mu.Lock()
	for i, o := range b.e.active {
		if o == dl {
			b.e.active = append(b.e.active[:i:i], b.e.active[i+1:]...)
		}
	}
	b.e.mu.Unlock()
	if !ok {
		return errors.New("c29br download failed")
	}
	_, err := dst.Write(b.e.blobs[d].Content)
	return err
}

func (b *c29brBackend) List(prefix string, opts ...backend.ListOption) (*backend.ListResult, error) {
	return nil, errors.New("unused")
}

func (b *c29brBackend) Close() error { return nil }

func c29brGID() int64 {
	var buf [64]byte
	n := runtime.Stack(buf[:], false)
	f := strings.Fields(string(buf[:n]))
	if len(f) < 2 {
		return -1
	}
	id, _ := strconv.ParseInt(f[1], 10, 64)
	return id
}

func c29brAlive(gid int64) bool {
	buf := make([]byte, 1<<18)
	n := runtime.Stack(buf, true)
	return strings.Contains(string(buf[:n]), fmt.Sprintf("goroutine %d [", gid))
}

func c29brIdx(tok, pfx string, n int) (int, bool) {
	if !strings.HasPrefix(tok, pfx) {
		return 0, false
	}
	i, err := strconv.Atoi(tok[len(pfx):])
	if err != nil || i < 0 || i >= n {
		return 0, false
	}
	return i, true
}

func c29brExec(tr *verifh.T, c verifh.Case, blobs []*core.BlobFixture) {
	cas, cleanup := store.CAStoreFixture()
	defer cleanup()
	backends := backend.ManagerFixture()
	e := &c29brEnv{tr: tr, blobs: blobs, started: make(chan *c29brDL, 8)}
	for ns := 0; ns < c29brNS; ns++ {
		if err := backends.Register(fmt.Sprintf("ns%d", ns), &c29brBackend{e, ns}, false); err != nil {
			panic(err)
		}
	}
	r := blobrefresh.New(blobrefresh.Config{}, tally.NoopScope, cas, backends, metainfogen.Fixture(cas, 4))
	tr.Cfg()
	find := func(ns, d int) *c29brDL {
		e.mu.Lock()
		defer e.mu.Unlock()
		for _, o := range e.active {
			if o.ns == ns && o.d == d {
				return o
			}
		}
		return nil
	}
	do := func(op []string) {
		switch {
		case len(op) == 4 && op[1] == "refresh":
			ns, ok1 := c29brIdx(op[2], "ns", c29brNS)
			d, ok2 := c29brIdx(op[3], "d", c29brND)
			if !ok1 || !ok2 {
				return
			}
			err := r.Refresh(fmt.Sprintf("ns%d", ns), blobs[d].Digest)
			switch err {
			case nil:
				// the request runs in its own goroutine: wait until it is inside Download
				select {
				case dl := <-e.started:
					if dl.ns != ns || dl.d != d {
						tr.PropFail("wrong-download-started", fmt.Sprintf("ns%d-d%d", dl.ns, dl.d))
					}
					tr.Op(op[1:], "ok")
				case <-time.After(5 * time.Second):
					tr.Op(op[1:], "ok-but-no-download")
				}
			case blobrefresh.ErrPending:
				tr.Op(op[1:], "pending")
			case blobrefresh.ErrNotFound:
				tr.Op(op[1:], "notfound")
			case blobrefresh.ErrWorkersBusy:
				tr.Op(op[1:], "busy")
			default:
				tr.Op(op[1:], "err")
			}
		case len(op) == 5 && op[1] == "dlend":
			ns, ok1 := c29brIdx(op[2], "ns", c29brNS)
			d, ok2 := c29brIdx(op[3], "d", c29brND)
			dl := (*c29brDL)(nil)
			if ok1 && ok2 {
				dl = find(ns, d)
			}
			if dl == nil || (op[4] != "ok" && op[4] != "fail") {
				return
			}
			dl.end <- op[4] == "ok"
			// the request goroutine writes the blob, clears pending and exits
			deadline := time.Now().Add(10 * time.Second)
			for c29brAlive(dl.gid) {
				time.Sleep(200 * time.Microsecond)
				if time.Now().After(deadline) {
					tr.PropFail("deadlock", "request-goroutine-did-not-finish")
					break
				}
			}
			tr.Op(op[1:], "done")
		}
	}
	for _, op := range c.Ops {
		if len(op) < 2 || op[0] != "op" {
			continue
		}
		o := op
		if p := verifh.Protect(func() { do(o) }); p != "" {
			tr.PropFail("panic", verifh.Str(p))
		}
	}
	// drain
	for {
		e.mu.Lock()
		var dl *c29brDL
		if len(e.active) > 0 {
			dl = e.active[0]
		}
		e.mu.Unlock()
		if dl == nil {
			break
		}
		do([]string{"op", "dlend", fmt.Sprintf("ns%d", dl.ns), fmt.Sprintf("d%d", dl.d), "ok"})
	}
	tr.End()
}

func TestVerif_C29_Refresher(t *testing.T) {
	tr := verifh.Open("br")
	defer tr.Close()
	var blobs []*core.BlobFixture
	for i := 0; i < c29brND; i++ {
		blobs = append(blobs, core.SizedBlobFixture(uint64(9+i), 4))
	}
	cases, replayOnly := verifh.InputCases("br")
	for _, c := range cases {
		c29brExec(tr, c, blobs)
		tr.Count("corpus_or_replay_cases", 1)
	}
	if replayOnly {
		return
	}
	var alpha [][]string
	for ns := 0; ns < c29brNS; ns++ {
		for d := 0; d < c29brND; d++ {
			alpha = append(alpha, []string{"op", "refresh", fmt.Sprintf("ns%d", ns), fmt.Sprintf("d%d", d)})
		}
		alpha = append(alpha, []string{"op", "dlend", fmt.Sprintf("ns%d", ns), "d0", "ok"}, []string{"op", "dlend", fmt.Sprintf("ns%d", ns), "d0", "fail"})
	}
	depth := verifh.Scale(3, 3)
	var rec func(prefix [][]string, d int)
	rec = func(prefix [][]string, d int) {
		if d == 0 {
			c29brExec(tr, verifh.Case{Ops: prefix}, blobs)
			tr.Count("exhaustive_cases", 1)
			return
		}
		for _, o := range alpha {
			rec(append(prefix[:len(prefix):len(prefix)], o), d-1)
		}
	}
	for d := 1; d <= depth; d++ {
		rec(nil, d)
	}
	r := verifh.NewRand(verifh.Seed(), "c29br")
	for i := 0; i < verifh.Scale(100, 1500); i++ {
		var ops [][]string
		for j := 1 + r.Intn(12); j > 0; j-- {
			ns, d := fmt.Sprintf("ns%d", r.Intn(c29brNS)), fmt.Sprintf("d%d", r.Intn(c29brND))
			if r.Chance(3, 5) {
				ops = append(ops, []string{"op", "refresh", ns, d})
			} else {
				ops = append(ops, []string{"op", "dlend", ns, d, r.Pick("ok", "ok", "fail")})
			}
		}
		c29brExec(tr, verifh.Case{Ops: ops}, blobs)
		tr.Count("random_cases", 1)
	}
}
