//go:build verif

package metainfogen_test

// C02 harness, piece-length table and Generator.Generate (machine "plt"), public API only.
//   one get tbl=<k:v,…> size=<int> => errcfg | panic | ok <int>
//   one generate tbl=<k:v,…> d=<str> data=<xbytes> crcs=<list> => err <class> | ok len= pl= sums= name= gpl=

import (
	"bytes"
	"fmt"
	"hash/crc32"
	"math"
	"sort"
	"strconv"
	"strings"
	"testing"

	"github.com/c2h5oh/datasize"
	"github.com/uber/kraken/core"
	"github.com/uber/kraken/lib/metainfogen"
	"github.com/uber/kraken/lib/store"
	"github.com/uber/kraken/lib/store/metadata"
	"github.com/uber/kraken/utils/verifh"
)

func c02pKv(toks []string, k string) (string, bool) {
	for _, t := range toks {
		if strings.HasPrefix(t, k+"=") {
			return t[len(k)+1:], true
		}
	}
	return "", false
}

func c02pTable(tok string) (map[datasize.ByteSize]datasize.ByteSize, bool) {
	m := map[datasize.ByteSize]datasize.ByteSize{}
	for _, kv := range verifh.Unlist(tok) {
		p := strings.Split(kv, ":")
		if len(p) != 2 {
			return nil, false
		}
		k, e1 := strconv.ParseUint(p[0], 10, 64)
		v, e2 := strconv.ParseUint(p[1], 10, 64)
		if e1 != nil || e2 != nil {
			return nil, false
		}
		if _, dup := m[datasize.ByteSize(k)]; dup {
			return nil, false
		}
		m[datasize.ByteSize(k)] = datasize.ByteSize(v)
	}
	return m, true
}

func c02pTableTok(m map[uint64]uint64) string {
	var ks []uint64
	for k := range m {
		ks = append(ks, k)
	}
	sort.Slice(ks, func(i, j int) bool { return ks[i] > ks[j] }) // deliberately not the lookup order
	var xs []string
	for _, k := range ks {
		xs = append(xs, fmt.Sprintf("%d:%d", k, m[k]))
	}
	return verifh.List(xs)
}

func c02pSumsTok(mi *core.MetaInfo) string {
	n := mi.NumPieces()
	if n == 0 {
		return "nil" // a parsed-back empty blob has a null PieceSums
	}
	xs := make([]string, n)
	for i := 0; i < n; i++ {
		xs[i] = strconv.FormatUint(uint64(mi.GetPieceSum(i)), 10)
	}
	return strings.Join(xs, ",")
}

func c02pCRCs(data []byte, pl int64) string {
	if pl <= 0 {
		return "-"
	}
	var xs []string
	for off := 0; off < len(data); {
		end := len(data)
		if int64(end-off) > pl {
			end = off + int(pl)
		}
		xs = append(xs, strconv.FormatUint(uint64(crc32.ChecksumIEEE(data[off:end])), 10))
		off = end
	}
	return verifh.List(xs)
}

func c02pExec(t *verifh.T, c verifh.Case) {
	for _, op := range c.Ops {
		if len(op) < 2 || op[0] != "one" {
			continue
		}
		op = op[1:]
		tblTok, ok := c02pKv(op, "tbl")
		if !ok {
			continue
		}
		m, ok := c02pTable(tblTok)
		if !ok {
			continue
		}
		switch op[0] {
		case "get":
			sizeS, ok := c02pKv(op, "size")
			size, err := strconv.ParseInt(sizeS, 10, 64)
			if !ok || err != nil {
				continue
			}
			g, err := metainfogen.New(metainfogen.Config{PieceLengths: m}, nil)
			if err != nil {
				t.One(op, "errcfg")
				continue
			}
			var pl int64
			if p := verifh.Protect(func() { pl = g.GetPieceLength(size) }); p != "" {
				t.One(op, "panic")
				t.PropFail("panic", verifh.Str(p))
				continue
			}
			t.One(op, "ok", strconv.FormatInt(pl, 10))
		case "generate":
			dataS, ok := c02pKv(op, "data")
			data, err := verifh.Unhex(dataS)
			if !ok || err != nil {
				continue
			}
			d, err := core.NewDigester().FromBytes(data)
			if err != nil {
				continue
			}
			cas, cleanup := store.CAStoreFixture()
			g, err := metainfogen.New(metainfogen.Config{PieceLengths: m}, cas)
			if err != nil {
				cleanup()
				continue
			}
			pl := g.GetPieceLength(int64(len(data)))
			preTok, _ := c02pKv(op, "pre")
			if preTok == "" {
				preTok = "none"
			}
			rec := []string{"generate", "tbl=" + tblTok, "pre=" + preTok, "d=" + verifh.Str(d.Hex()), "data=" + dataS, "crcs=" + c02pCRCs(data, pl)}
			if err := cas.CreateCacheFile(d.Hex(), bytes.NewReader(data)); err != nil {
				cleanup()
				t.One(rec, "err", "setup")
				continue
			}
			// a metainfo sidecar that is already there: generated earlier under another table (pre=gen:<k.v+k.v>), or
			// written directly with another piece length (pre=set:<pl>)
			preOK := true
			switch {
			case strings.HasPrefix(preTok, "gen:"):
				m1, ok := c02pTable(strings.NewReplacer(".", ":", "+", ",").Replace(preTok[4:]))
				g1, err := metainfogen.New(metainfogen.Config{PieceLengths: m1}, cas)
				if !ok || err != nil || g1.Generate(d) != nil {
					preOK = false
				}
			case strings.HasPrefix(preTok, "set:"):
				p1, err := strconv.ParseInt(preTok[4:], 10, 64)
				if err != nil || p1 <= 0 {
					preOK = false
					break
				}
				mi1, err := core.NewMetaInfoFromBytes(d, data, p1)
				if err != nil {
					preOK = false
					break
				}
				if _, err := cas.SetCacheFileMetadata(d.Hex(), metadata.NewTorrentMeta(mi1)); err != nil {
					preOK = false
				}
			}
			if !preOK {
				cleanup()
				continue
			}
			var gerr error
			if p := verifh.Protect(func() { gerr = g.Generate(d) }); p != "" {
				cleanup()
				t.One(rec, "panic")
				t.PropFail("panic", verifh.Str(p))
				continue
			}
			if gerr != nil {
				cleanup()
				if strings.HasPrefix(gerr.Error(), "create metainfo:") {
					t.One(rec, "err", "create")
				} else {
					t.One(rec, "err", "other")
				}
				continue
			}
			var tm metadata.TorrentMeta
			if err := cas.GetCacheFileMetadata(d.Hex(), &tm); err != nil {
				cleanup()
				t.One(rec, "err", "readback")
				continue
			}
			mi := tm.MetaInfo
			var gpl []string
			for i := -1; i <= mi.NumPieces()+1; i++ {
				gpl = append(gpl, strconv.FormatInt(mi.GetPieceLength(i), 10))
			}
			if mi.Digest() != d {
				t.PropFail("digest-mismatch", verifh.Str(mi.Digest().Hex()))
			}
			// the stored metainfo is the one both constructors compute directly
			m1, e1 := core.NewMetaInfo(d, bytes.NewReader(data), pl)
			m2, e2 := core.NewMetaInfoFromBytes(d, data, pl)
			if e1 != nil || e2 != nil || m1.InfoHash() != mi.InfoHash() || m2.InfoHash() != mi.InfoHash() {
				t.PropFail("generators-disagree", "d="+d.Hex())
			}
			t.One(rec, "ok", fmt.Sprintf("len=%d", mi.Length()), fmt.Sprintf("pl=%d", mi.PieceLength()),
				"sums="+c02pSumsTok(mi), "name="+verifh.Str(mi.Digest().Hex()), "gpl="+verifh.List(gpl))
			cleanup()
		}
	}
}

func TestVerif_C02_Table(t *testing.T) {
	tr := verifh.Open("plt")
	defer tr.Close()
	cases, replayOnly := verifh.InputCases("plt")
	for _, c := range cases {
		c02pExec(tr, c)
		tr.Count("corpus_or_replay_cases", 1)
	}
	if replayOnly {
		return
	}
	r := verifh.NewRand(verifh.Seed(), "c02plt")
	get := func(m map[uint64]uint64, size int64) {
		c02pExec(tr, verifh.Case{Ops: [][]string{{"one", "get", "tbl=" + c02pTableTok(m), "size=" + strconv.FormatInt(size, 10)}}})
	}
	// empty configuration
	get(map[uint64]uint64{}, 5)
	// (a) exhaustive: every table over thresholds {0..5} with 1..3 entries, sizes -1..7
	depth := verifh.Scale(3, 4)
	var rec func(start uint64, m map[uint64]uint64)
	rec = func(start uint64, m map[uint64]uint64) {
		if len(m) > 0 {
			for size := int64(-1); size <= 7; size++ {
				get(m, size)
				tr.Count("exhaustive_get", 1)
			}
		}
		if len(m) == depth {
			return
		}
		for k := start; k <= 5; k++ {
			m[k] = 10 + uint64(len(m))*7 + k
			rec(k+1, m)
			delete(m, k)
		}
	}
	rec(0, map[uint64]uint64{})
	// (b) random tables of 1..5 entries, sizes at, just below and just above each threshold
	for i := 0; i < verifh.Scale(300, 20000); i++ {
		n := 1 + r.Intn(5)
		m := map[uint64]uint64{}
		for len(m) < n {
			var k uint64
			switch r.Intn(6) {
			case 0:
				k = 0
			case 1:
				k = uint64(r.Intn(100))
			case 2:
				k = uint64(r.Intn(1 << 20))
			case 3:
				k = uint64(1)<<uint(r.Intn(63)) + uint64(r.Intn(3)) - 1
			case 4:
				k = math.MaxInt64 - uint64(r.Intn(3))
			default:
				k = r.Uint64() >> uint(r.Intn(64))
			}
			if k > math.MaxInt64 && !r.Chance(1, 20) {
				continue
			}
			m[k] = 1 + uint64(r.Intn(1<<22))
		}
		var ks []uint64
		for k := range m {
			ks = append(ks, k)
		}
		sort.Slice(ks, func(i, j int) bool { return ks[i] < ks[j] })
		for _, k := range ks {
			for _, dlt := range []int64{-1, 0, 1} {
				get(m, int64(k)+dlt)
				tr.Count("random_get_near_threshold", 1)
			}
		}
		get(m, int64(r.Uint64()>>uint(1+r.Intn(63))))
		get(m, -int64(r.Intn(5)))
		get(m, math.MaxInt64)
		if i < 2 {
			tr.Sample("get tbl=" + c02pTableTok(m))
		}
	}
	// (c) Generate end to end through the CA store
	for i := 0; i < verifh.Scale(40, 1500); i++ {
		m := map[uint64]uint64{}
		n := 1 + r.Intn(3)
		for len(m) < n {
			m[uint64(r.Intn(40))] = 1 + uint64(r.Intn(12))
		}
		size := r.Intn(60)
		if r.Chance(1, 3) {
			var ks []int
			for k := range m {
				ks = append(ks, int(k))
			}
			sort.Ints(ks)
			size = ks[r.Intn(len(ks))] + r.Intn(3) - 1
			if size < 0 {
				size = 0
			}
		}
		data := r.Bytes(size)
		c02pExec(tr, verifh.Case{Ops: [][]string{{"one", "generate", "tbl=" + c02pTableTok(m), "data=" + verifh.Hex(data)}}})
		tr.Count("generate", 1)
	}
	// (d) Generate on a store that already holds metainfo for the blob: generated under ANOTHER table, or written with
	// another piece length; the result must follow the current table
	for i := 0; i < verifh.Scale(60, 3000); i++ {
		size := 1 + r.Intn(80)
		data := r.Bytes(size)
		pl2 := 1 + uint64(r.Intn(30))
		pl1 := 1 + uint64(r.Intn(30))
		if r.Chance(3, 4) && pl1 == pl2 {
			pl1 = pl2 + 1 + uint64(r.Intn(5))
		}
		m2 := map[uint64]uint64{0: pl2}
		if r.Chance(1, 2) {
			m2 = map[uint64]uint64{0: 1 + uint64(r.Intn(9)), uint64(size): pl2, uint64(size + 1 + r.Intn(5)): 3}
		}
		pre := fmt.Sprintf("set:%d", pl1)
		if r.Chance(1, 2) {
			pre = "gen:" + strings.NewReplacer(":", ".", ",", "+").Replace(c02pTableTok(map[uint64]uint64{0: pl1, uint64(size) + 7: pl2}))
		}
		c02pExec(tr, verifh.Case{Ops: [][]string{{"one", "generate", "tbl=" + c02pTableTok(m2), "pre=" + pre, "data=" + verifh.Hex(data)}}})
		tr.Count("generate_over_existing", 1)
		if i < 2 {
			tr.Sample("generate over existing metainfo: pre=" + pre + " tbl=" + c02pTableTok(m2))
		}
	}
}
