//go:build verif

package persistedretry

// Bridge for harnesses outside this package (origin/blobserver, build-index/tagserver): one pass of
// the retry poller, which is otherwise only reachable through a wall-clock ticker.  Injected with
// `go test -overlay`; not part of /repo.

// VerifPollOnce runs one pass of the retry poller of a manager made by NewManager.
func VerifPollOnce(m Manager) { m.(*manager).pollRetries() }
