//go:build verif

package persistedretry

// In-package bridge for the C30 harness (which lives in package persistedretry_test because it
// needs the real stores, and those import this package): the retry poller is only reachable
// through a wall-clock ticker, so the harness calls one poll pass directly.

// VerifPollRetries runs one pass of the retry poller of a manager made by NewManager.
func VerifPollRetries(m Manager) { m.(*manager).pollRetries() }

// VerifClosed reports whether Close has been called on a manager made by NewManager (Close itself
// returns only after every worker left its current execution).
func VerifClosed(m Manager) bool { return m.(*manager).closed.Load() }

// VerifConfig returns the configuration a manager made by NewManager runs with (after applyDefaults).
func VerifConfig(m Manager) Config { return m.(*manager).config }
