//go:build verif

package persistedretry_test

// C30 harness: the real persistedretry manager (NewManager, real worker goroutines) over the real
// writeback / tagreplication stores on an on-disk SQLite file (localdb.New), with
//   - a scripted executor whose Exec blocks until the harness decides the outcome,
//   - a recording Store wrapper (delegates every call to the real store) that can pause a caller
//     right after a store call returned — this is how Add and pollRetries are stepped at the model's
//     atomic steps, and how a crash is simulated (the wrapper goes dead: nothing reaches the table),
//   - polls started by the harness (the ticker period is 24h), time moved by shifting the rows'
//     timestamps by whole hours (RetryInterval = ri hours + 30 min, Delay = whole hours).
// Every wait is for an event the correct code must produce (bounded by a generous timeout which is
// reported as a property failure: an accepted task that is never executed / marked).

import (
	"errors"
	"fmt"
	"os"
	"path/filepath"
	"sort"
	"strconv"
	"strings"
	"sync"
	"testing"
	"time"

	"github.com/jmoiron/sqlx"
	"github.com/uber-go/tally"
	"go.uber.org/zap"

	"github.com/uber/kraken/core"
	"github.com/uber/kraken/lib/persistedretry"
	"github.com/uber/kraken/lib/persistedretry/tagreplication"
	"github.com/uber/kraken/lib/persistedretry/writeback"
	"github.com/uber/kraken/localdb"
	"github.com/uber/kraken/utils/log"
	"github.com/uber/kraken/utils/verifh"
)

const (
	c30Unit    = time.Hour
	c30Timeout = 15 * time.Second
)

// ---------------------------------------------------------------- keys and tasks

func c30KeyTok(i int) string { return "k" + strconv.Itoa(i) }

func c30KeyIdx(tok string) (int, bool) {
	if !strings.HasPrefix(tok, "k") {
		return 0, false
	}
	i, err := strconv.Atoi(tok[1:])
	if err != nil || i < 0 || i > 7 {
		return 0, false
	}
	return i, true
}

func c30Suffix(s, prefix string) int {
	i, err := strconv.Atoi(strings.TrimPrefix(s, prefix))
	if err != nil {
		return 99
	}
	return i
}

// composite primary keys: writeback (namespace, name), tagreplication (tag, destination)
func c30TaskKey(t persistedretry.Task) string {
	switch x := t.(type) {
	case *writeback.Task:
		return c30KeyTok(2*c30Suffix(x.Name, "b") + c30Suffix(x.Namespace, "n"))
	case *tagreplication.Task:
		return c30KeyTok(2*c30Suffix(x.Tag, "t") + c30Suffix(x.Destination, "d"))
	}
	return "k?"
}

var c30Digest = func() core.Digest {
	d, err := core.NewSHA256DigestFromHex(strings.Repeat("ab", 32))
	if err != nil {
		panic(err)
	}
	return d
}()

func c30NewTask(store string, i int, delayUnits int) persistedretry.Task {
	delay := time.Duration(delayUnits) * c30Unit
	if store == "tr" {
		// the payload columns vary with the key: i%3+1 dependencies
		deps := core.DigestList{}
		for j := 0; j <= i%3; j++ {
			deps = append(deps, c30Digest)
		}
		return tagreplication.NewTask("t"+strconv.Itoa(i/2), c30Digest, deps, "d"+strconv.Itoa(i%2), delay)
	}
	return writeback.NewTask("n"+strconv.Itoa(i%2), "b"+strconv.Itoa(i/2), delay)
}

// c30Payload is the canonical token of the columns of a task the key does not determine: what the
// executor is handed must be what was added, also after the row went through the table.
func c30Payload(t persistedretry.Task) string {
	switch x := t.(type) {
	case *writeback.Task:
		return fmt.Sprintf("%d.0.g", int(x.Delay/c30Unit))
	case *tagreplication.Task:
		g := "g"
		if x.Digest != c30Digest {
			g = "b"
		}
		for _, d := range x.Dependencies {
			if d != c30Digest {
				g = "b"
			}
		}
		return fmt.Sprintf("%d.%d.%s", int(x.Delay/c30Unit), len(x.Dependencies), g)
	}
	return "?"
}

type c30Validator struct{ invalid map[string]bool }

func (v c30Validator) Valid(tag, addr string) bool {
	return !v.invalid[c30KeyTok(2*c30Suffix(tag, "t")+c30Suffix(addr, "d"))]
}

// ---------------------------------------------------------------- scripted executor

type c30Exec struct {
	mu     sync.Mutex
	dead   bool
	rel    map[string][]chan error
	starts chan string
}

func newC30Exec() *c30Exec {
	return &c30Exec{rel: map[string][]chan error{}, starts: make(chan string, 4096)}
}

func (e *c30Exec) Name() string { return "verif" }

func (e *c30Exec) Exec(t persistedretry.Task) error {
	k := c30TaskKey(t)
	ch := make(chan error, 1)
	e.mu.Lock()
	if e.dead {
		e.mu.Unlock()
		return errors.New("process is gone")
	}
	e.rel[k] = append(e.rel[k], ch)
	e.mu.Unlock()
	e.starts <- k + ":" + c30Payload(t)
	return <-ch
}

func (e *c30Exec) release(k string, err error) bool {
	e.mu.Lock()
	defer e.mu.Unlock()
	chs := e.rel[k]
	if len(chs) == 0 {
		return false
	}
	chs[0] <- err
	e.rel[k] = chs[1:]
	return true
}

func (e *c30Exec) kill() {
	e.mu.Lock()
	defer e.mu.Unlock()
	e.dead = true
	for k, chs := range e.rel {
		for _, ch := range chs {
			ch <- errors.New("process is gone")
		}
		delete(e.rel, k)
	}
}

// ---------------------------------------------------------------- recording / pausing store

type c30Ev struct {
	meth string
	key  string
	err  string // "" ok, "exists", "notfound", "err"
	n    int    // number of tasks returned (Get*)
}

type c30Gate struct {
	meth string
	key  string // "" = any
	hit  chan c30Ev
	rel  chan struct{}
}

type c30Store struct {
	inner persistedretry.Store
	mu    sync.Mutex
	dead  bool
	gates []*c30Gate
	evs   chan c30Ev
}

var errC30Dead = errors.New("process is gone")

func newC30Store(inner persistedretry.Store) *c30Store {
	return &c30Store{inner: inner, evs: make(chan c30Ev, 65536)}
}

func (s *c30Store) arm(meth, key string) *c30Gate {
	g := &c30Gate{meth: meth, key: key, hit: make(chan c30Ev, 1), rel: make(chan struct{})}
	s.mu.Lock()
	s.gates = append(s.gates, g)
	s.mu.Unlock()
	return g
}

func (s *c30Store) disarm(g *c30Gate) {
	s.mu.Lock()
	defer s.mu.Unlock()
	for i, x := range s.gates {
		if x == g {
			s.gates = append(s.gates[:i:i], s.gates[i+1:]...)
			return
		}
	}
}

func (s *c30Store) kill() {
	s.mu.Lock()
	s.dead = true
	gs := s.gates
	s.gates = nil
	s.mu.Unlock()
	for _, g := range gs {
		close(g.rel)
	}
}

func (s *c30Store) isDead() bool {
	s.mu.Lock()
	defer s.mu.Unlock()
	return s.dead
}

func c30ErrClass(err error) string {
	switch {
	case err == nil:
		return ""
	case err == persistedretry.ErrTaskExists:
		return "exists"
	case err == persistedretry.ErrTaskNotFound:
		return "notfound"
	}
	return "err"
}

// done records a completed store call and, if a matching gate is armed, parks the caller there.
func (s *c30Store) done(meth, key string, err error, n int) {
	ev := c30Ev{meth: meth, key: key, err: c30ErrClass(err), n: n}
	var g *c30Gate
	s.mu.Lock()
	if s.dead {
		s.mu.Unlock()
		return
	}
	if err == nil {
		for i, x := range s.gates {
			if x.meth == meth && (x.key == "" || x.key == key) {
				g = x
				s.gates = append(s.gates[:i:i], s.gates[i+1:]...)
				break
			}
		}
	}
	s.mu.Unlock()
	s.evs <- ev
	if g != nil {
		g.hit <- ev
		<-g.rel
	}
}

func (s *c30Store) call1(meth string, t persistedretry.Task, f func(persistedretry.Task) error) error {
	if s.isDead() {
		return errC30Dead
	}
	err := f(t)
	s.done(meth, c30TaskKey(t), err, 0)
	return err
}

func (s *c30Store) callN(meth string, f func() ([]persistedretry.Task, error)) ([]persistedretry.Task, error) {
	if s.isDead() {
		return nil, errC30Dead
	}
	ts, err := f()
	s.done(meth, "", err, len(ts))
	return ts, err
}

func (s *c30Store) AddPending(t persistedretry.Task) error {
	return s.call1("AddPending", t, s.inner.AddPending)
}
func (s *c30Store) AddFailed(t persistedretry.Task) error {
	return s.call1("AddFailed", t, s.inner.AddFailed)
}
func (s *c30Store) MarkPending(t persistedretry.Task) error {
	return s.call1("MarkPending", t, s.inner.MarkPending)
}
func (s *c30Store) MarkFailed(t persistedretry.Task) error {
	return s.call1("MarkFailed", t, s.inner.MarkFailed)
}
func (s *c30Store) Remove(t persistedretry.Task) error {
	return s.call1("Remove", t, s.inner.Remove)
}
func (s *c30Store) GetPending() ([]persistedretry.Task, error) {
	return s.callN("GetPending", s.inner.GetPending)
}
func (s *c30Store) GetFailed() ([]persistedretry.Task, error) {
	return s.callN("GetFailed", s.inner.GetFailed)
}
func (s *c30Store) Find(q interface{}) ([]persistedretry.Task, error) { return s.inner.Find(q) }

// ---------------------------------------------------------------- one case

type c30Cfg struct {
	store                     string
	capIn, capRe, wIn, wRe, ri int
}

func (c c30Cfg) toks() []string {
	return []string{"store=" + c.store, fmt.Sprintf("capin=%d", c.capIn), fmt.Sprintf("capre=%d", c.capRe),
		fmt.Sprintf("win=%d", c.wIn), fmt.Sprintf("wre=%d", c.wRe), fmt.Sprintf("ri=%d", c.ri)}
}

func c30ParseCfg(toks []string) c30Cfg {
	c := c30Cfg{store: "wb", capIn: 1, capRe: 1, wIn: 1, wRe: 1, ri: 1}
	for _, t := range toks {
		kv := strings.SplitN(t, "=", 2)
		if len(kv) != 2 {
			continue
		}
		n, _ := strconv.Atoi(kv[1])
		switch kv[0] {
		case "store":
			if kv[1] == "tr" {
				c.store = "tr"
			}
		case "capin":
			c.capIn = n
		case "capre":
			c.capRe = n
		case "win":
			c.wIn = n
		case "wre":
			c.wRe = n
		case "ri":
			c.ri = n
		}
	}
	clamp := func(v *int, lo, hi int) {
		if *v < lo {
			*v = lo
		}
		if *v > hi {
			*v = hi
		}
	}
	// 0 = the field is left unset, as in a configuration file: the real applyDefaults fills it in
	clamp(&c.capIn, 0, 8)
	clamp(&c.capRe, 0, 8)
	clamp(&c.wIn, 0, 4)
	clamp(&c.wRe, 0, 4)
	clamp(&c.ri, 0, 8)
	return c
}

type c30Adder struct {
	g   *c30Gate
	res chan error
}

type c30Env struct {
	dir  string
	path string
	hdb  *sqlx.DB // the harness's own read/shift handle
}

type c30Sess struct {
	env  *c30Env
	tr   *verifh.T
	cfg  c30Cfg
	mode string // up | closing (Close called, waits for running executions) | closed | down
	closeDone chan struct{} // closed when the pending Close() returned
	eff       persistedretry.Config // the configuration the real manager runs with (after applyDefaults)
	db   *sqlx.DB
	m    persistedretry.Manager
	st   *c30Store
	ex   *c30Exec

	// what the harness knows from the calls it saw (not a model of the manager)
	pool    map[string]string          // queued or running key -> "in" | "re"
	queued  map[string]int             // pool -> number of tasks sent to its channel and not yet started
	running map[string]map[string]bool // pool -> keys inside Exec
	adders  map[string]*c30Adder
	pollG   *c30Gate
	pollEnd chan struct{}
	marked  string // key the paused poller has marked pending and not yet sent
	started []string
	broken  bool
}

func (s *c30Sess) table() string {
	q := "SELECT namespace, name, status, failures, last_attempt, created_at FROM writeback_task ORDER BY rowid"
	if s.cfg.store == "tr" {
		q = "SELECT destination, tag, status, failures, last_attempt, created_at FROM replicate_tag_task ORDER BY rowid"
	}
	rows, err := s.env.hdb.Queryx(q)
	if err != nil {
		return "err:" + verifh.Str(err.Error())
	}
	defer rows.Close()
	now := time.Now()
	age := func(t time.Time) string {
		if t.Year() < 1971 {
			return "n"
		}
		return strconv.Itoa(int((now.Sub(t) + c30Unit/2) / c30Unit))
	}
	var out []string
	for rows.Next() {
		var a, b, status string
		var failures int
		var la, ca time.Time
		if err := rows.Scan(&a, &b, &status, &failures, &la, &ca); err != nil {
			return "err:" + verifh.Str(err.Error())
		}
		var k string
		if s.cfg.store == "tr" {
			k = c30KeyTok(2*c30Suffix(b, "t") + c30Suffix(a, "d"))
		} else {
			k = c30KeyTok(2*c30Suffix(b, "b") + c30Suffix(a, "n"))
		}
		st := "?"
		if status == "pending" {
			st = "p"
		} else if status == "failed" {
			st = "f"
		}
		out = append(out, fmt.Sprintf("%s:%s:%d:%s:%s", k, st, failures, age(la), age(ca)))
	}
	return verifh.List(out)
}

func (s *c30Sess) nrows() int {
	t := s.table()
	if t == "-" {
		return 0
	}
	return len(strings.Split(t, ","))
}

func (s *c30Sess) fail(key string, detail ...string) {
	s.tr.PropFail(key, detail...)
	s.broken = true
}

func (s *c30Sess) startIncarnation(invalid []string) error {
	db, err := localdb.New(localdb.Config{Source: s.env.path})
	if err != nil {
		return err
	}
	var inner persistedretry.Store
	if s.cfg.store == "tr" {
		inv := map[string]bool{}
		for _, k := range invalid {
			inv[k] = true
		}
		inner, err = tagreplication.NewStore(db, c30Validator{inv})
		if err != nil {
			db.Close()
			return err
		}
	} else {
		inner = writeback.NewStore(db)
	}
	s.st = newC30Store(inner)
	s.ex = newC30Exec()
	m, err := persistedretry.NewManager(persistedretry.Config{
		IncomingBuffer:      s.cfg.capIn,
		RetryBuffer:         s.cfg.capRe,
		NumIncomingWorkers:  s.cfg.wIn,
		NumRetryWorkers:     s.cfg.wRe,
		MaxTaskThroughput:   time.Nanosecond,
		RetryInterval:       time.Duration(s.cfg.ri)*c30Unit + c30Unit/2,
		PollRetriesInterval: 24 * time.Hour,
		// Testing only says "a channel size of 0 is meant"; with a size left unset the defaults apply
		Testing: s.cfg.capIn != 0 && s.cfg.capRe != 0,
	}, tally.NoopScope, s.st, s.ex)
	if err != nil {
		db.Close()
		return err
	}
	s.db, s.m, s.mode = db, m, "up"
	s.eff = persistedretry.VerifConfig(m)
	s.pool = map[string]string{}
	s.queued = map[string]int{"in": 0, "re": 0}
	s.running = map[string]map[string]bool{"in": {}, "re": {}}
	s.adders = map[string]*c30Adder{}
	s.pollG, s.pollEnd, s.marked = nil, nil, ""
	s.drainEvs()
	return nil
}

// killIncarnation: the process is gone — nothing it still does reaches the table.
func (s *c30Sess) killIncarnation() {
	if s.m == nil || s.mode == "down" {
		return
	}
	s.st.kill()
	s.ex.kill()
	// callers parked at a gate resume in the dead process: nothing they do reaches the table
	for _, a := range s.adders {
		close(a.g.rel)
	}
	if s.pollG != nil {
		close(s.pollG.rel)
	}
	done := make(chan struct{})
	go func() { s.m.Close(); close(done) }()
	select {
	case <-done:
	case <-time.After(c30Timeout):
		s.fail("stuck-close", "Close_did_not_return")
	}
	for _, a := range s.adders {
		select {
		case <-a.res:
		case <-time.After(c30Timeout):
		}
	}
	if s.pollEnd != nil {
		select {
		case <-s.pollEnd:
		case <-time.After(c30Timeout):
		}
	}
	s.db.Close()
	s.db = nil
	s.mode = "down"
	s.adders = map[string]*c30Adder{}
	s.pollG, s.pollEnd, s.marked = nil, nil, ""
	s.pool = map[string]string{}
	s.queued = map[string]int{"in": 0, "re": 0}
	s.running = map[string]map[string]bool{"in": {}, "re": {}}
}

func (s *c30Sess) drainEvs() []c30Ev {
	var out []c30Ev
	for {
		select {
		case e := <-s.st.evs:
			out = append(out, e)
		default:
			return out
		}
	}
}

func c30Has(evs []c30Ev, meth, key string) bool {
	for _, e := range evs {
		if e.meth == meth && e.key == key && e.err == "" {
			return true
		}
	}
	return false
}

func (s *c30Sess) workers(p string) int {
	if p == "in" {
		return s.eff.NumIncomingWorkers
	}
	return s.eff.NumRetryWorkers
}

func (s *c30Sess) noteQueued(k, p string) {
	s.pool[k] = p
	s.queued[p]++
}

func (s *c30Sess) noteStart(kp string) {
	s.started = append(s.started, kp)
	k := strings.SplitN(kp, ":", 2)[0]
	p, ok := s.pool[k]
	if !ok {
		p = "in"
		s.pool[k] = p
	}
	if s.queued[p] > 0 {
		s.queued[p]--
	}
	s.running[p][k] = true
}

// settle waits until every idle worker that has something to take is inside Exec.
func (s *c30Sess) settle() {
	if s.mode != "up" {
		return
	}
	want := 0
	for _, p := range []string{"in", "re"} {
		idle := s.workers(p) - len(s.running[p])
		if idle < 0 {
			idle = 0
		}
		if s.queued[p] < idle {
			idle = s.queued[p]
		}
		want += idle
	}
	for i := 0; i < want; i++ {
		select {
		case k := <-s.ex.starts:
			s.noteStart(k)
		case <-time.After(c30Timeout):
			s.fail("stuck-not-started", "a_queued_task_was_not_picked_up_by_an_idle_worker")
			return
		}
	}
	for {
		select {
		case k := <-s.ex.starts:
			s.noteStart(k)
		default:
			return
		}
	}
}

func (s *c30Sess) isRunning(k string) (string, bool) {
	for _, p := range []string{"in", "re"} {
		if s.running[p][k] {
			return p, true
		}
	}
	return "", false
}

func (s *c30Sess) busy() bool {
	return len(s.adders) > 0 || s.pollEnd != nil || len(s.running["in"])+len(s.running["re"]) > 0
}

func c30AddRes(err error) string {
	switch {
	case err == nil:
		return "ok"
	case err == persistedretry.ErrManagerClosed:
		return "closed"
	}
	return "err"
}

// pollStep releases the paused poller until its next MarkPending returned or the pass ended.
// Returns (enqueued key, overflowed key, newly marked key, done).
func (s *c30Sess) pollStep() (enq, over, mark string, done bool) {
	enq, over, mark = "-", "-", "-"
	g2 := s.st.arm("MarkPending", "")
	close(s.pollG.rel)
	prev := s.marked
	select {
	case ev := <-g2.hit:
		s.pollG, s.marked, mark = g2, ev.key, ev.key
	case <-s.pollEnd:
		s.st.disarm(g2)
		s.pollG, s.pollEnd, s.marked, done = nil, nil, "", true
	case <-time.After(c30Timeout):
		s.fail("stuck-poll", "poll_pass_did_not_advance")
		return
	}
	evs := s.drainEvs()
	if prev != "" {
		if c30Has(evs, "MarkFailed", prev) {
			over = prev
		} else {
			enq = prev
			s.noteQueued(prev, "re")
		}
	}
	s.settle()
	return
}

func (s *c30Sess) pollBegin() (string, bool) {
	if s.mode != "up" {
		return "none", false
	}
	if s.pollEnd != nil {
		return "busy", false
	}
	g := s.st.arm("GetFailed", "")
	end := make(chan struct{})
	m := s.m
	go func() { persistedretry.VerifPollRetries(m); close(end) }()
	select {
	case ev := <-g.hit:
		s.pollG, s.pollEnd, s.marked = g, end, ""
		s.drainEvs()
		return fmt.Sprintf("n=%d", ev.n), true
	case <-end:
		s.st.disarm(g)
		s.drainEvs()
		return "err", false
	case <-time.After(c30Timeout):
		s.fail("stuck-poll", "GetFailed_did_not_return")
		return "err", false
	}
}

func (s *c30Sess) do(op []string) []string {
	key := func(i int) (int, string, bool) {
		if len(op) <= i {
			return 0, "", false
		}
		n, ok := c30KeyIdx(op[i])
		return n, op[i], ok
	}
	switch op[1] {
	case "add", "addb":
		i, k, ok := key(2)
		if !ok || len(op) != 4 {
			return nil
		}
		d, err := strconv.Atoi(op[3])
		if err != nil || d < 0 || d > 8 {
			return nil
		}
		t := c30NewTask(s.cfg.store, i, d)
		if _, dup := s.adders[k]; dup && op[1] == "addb" && s.mode == "up" {
			return []string{"busy"}
		}
		if op[1] == "add" || s.mode != "up" {
			err := s.m.Add(t)
			evs := s.drainEvs()
			if c30Has(evs, "AddPending", k) && !c30Has(evs, "MarkFailed", k) {
				s.noteQueued(k, "in")
			}
			s.settle()
			return []string{c30AddRes(err)}
		}
		g := s.st.arm("AddPending", k)
		res := make(chan error, 1)
		m := s.m
		go func() { res <- m.Add(t) }()
		select {
		case <-g.hit:
			s.adders[k] = &c30Adder{g, res}
			s.drainEvs()
			return []string{"gate"}
		case err := <-res:
			s.st.disarm(g)
			s.drainEvs()
			return []string{c30AddRes(err)}
		case <-time.After(c30Timeout):
			s.fail("stuck-add", "Add_did_not_return")
			return []string{"err"}
		}
	case "adde":
		_, k, ok := key(2)
		if !ok || len(op) != 3 {
			return nil
		}
		a := s.adders[k]
		if a == nil {
			return []string{"none"}
		}
		delete(s.adders, k)
		close(a.g.rel)
		var err error
		select {
		case err = <-a.res:
		case <-time.After(c30Timeout):
			s.fail("stuck-add", "Add_did_not_return")
			return []string{"err"}
		}
		evs := s.drainEvs()
		r := "over"
		if !c30Has(evs, "MarkFailed", k) {
			s.noteQueued(k, "in")
			r = "enq"
		}
		s.settle()
		return []string{c30AddRes(err), r}
	case "pollb":
		if len(op) != 2 {
			return nil
		}
		r, _ := s.pollBegin()
		if strings.HasPrefix(r, "n=") {
			return []string{"ok", r}
		}
		return []string{r}
	case "polls":
		if len(op) != 2 {
			return nil
		}
		if s.pollEnd == nil {
			return []string{"none"}
		}
		enq, over, mark, done := s.pollStep()
		return []string{"ok", "enq=" + enq, "over=" + over, "mark=" + mark, "done=" + verifh.Bool(done)}
	case "poll":
		if len(op) != 2 {
			return nil
		}
		r, ok := s.pollBegin()
		if !ok {
			return []string{r}
		}
		var ms, os_ []string
		for i := 0; i < 64 && s.pollEnd != nil && !s.broken; i++ {
			_, over, mark, _ := s.pollStep()
			if mark != "-" {
				ms = append(ms, mark)
			}
			if over != "-" {
				os_ = append(os_, over)
			}
		}
		return []string{"ok", r, "m=" + verifh.List(ms), "o=" + verifh.List(os_)}
	case "fin":
		_, k, ok := key(2)
		if !ok || len(op) != 4 || (op[3] != "ok" && op[3] != "fail") {
			return nil
		}
		p, run := s.isRunning(k)
		if !run {
			return []string{"none"}
		}
		var xerr error
		if op[3] == "fail" {
			xerr = errors.New("scripted failure")
		}
		if !s.ex.release(k, xerr) {
			return []string{"none"}
		}
		// the worker now records the outcome: Remove or MarkFailed
		deadline := time.After(c30Timeout)
		seen := ""
		for seen == "" {
			select {
			case e := <-s.st.evs:
				if e.key == k && (e.meth == "Remove" || e.meth == "MarkFailed") {
					seen = e.meth
				}
			case <-deadline:
				s.fail("outcome-not-recorded", "exec_of_"+k+"_returned_"+op[3]+"_and_the_store_was_never_updated")
				return []string{"err"}
			}
		}
		delete(s.running[p], k)
		delete(s.pool, k)
		if s.mode == "closing" && len(s.running["in"])+len(s.running["re"]) == 0 {
			// the last execution ended: the pending Close() returns
			select {
			case <-s.closeDone:
				s.mode, s.closeDone = "closed", nil
			case <-time.After(c30Timeout):
				s.fail("stuck-close", "Close_did_not_return_after_the_last_execution_ended")
				return []string{"err"}
			}
		}
		s.settle()
		return []string{"ok"}
	case "adv":
		if len(op) != 3 {
			return nil
		}
		n, err := strconv.Atoi(op[2])
		if err != nil || n < 0 || n > 64 {
			return nil
		}
		if s.pollEnd != nil {
			// time is simulated by shifting the rows' timestamps, which would not age the task
			// copies a paused poll pass already holds: not simulated (the model covers it)
			return []string{"busy"}
		}
		shift := fmt.Sprintf("-%d hours", n)
		tbl := "writeback_task"
		if s.cfg.store == "tr" {
			tbl = "replicate_tag_task"
		}
		_, err = s.env.hdb.Exec("UPDATE "+tbl+" SET created_at = datetime(created_at, ?), "+
			"last_attempt = CASE WHEN last_attempt > '1971' THEN datetime(last_attempt, ?) ELSE last_attempt END", shift, shift)
		if err != nil {
			return []string{"err", verifh.Str(err.Error())}
		}
		return []string{"ok"}
	case "close":
		if len(op) != 2 {
			return nil
		}
		if s.mode != "up" {
			return []string{"none"}
		}
		nrun := len(s.running["in"]) + len(s.running["re"])
		if len(s.adders) > 0 || s.pollEnd != nil || (nrun > 0 && s.queued["in"]+s.queued["re"] > 0) {
			// a parked Add / poll pass, or a queued task next to a busy worker: what a worker leaving
			// Exec then does (select between done and the channel) is a coin toss; not simulated
			return []string{"busy"}
		}
		done := make(chan struct{})
		m := s.m
		go func() { m.Close(); close(done) }()
		if nrun > 0 {
			// Close waits for the running executions; they stay parked at the harness's gates
			deadline := time.Now().Add(c30Timeout)
			for !persistedretry.VerifClosed(m) {
				if time.Now().After(deadline) {
					s.fail("stuck-close", "Close_did_not_mark_the_manager_closed")
					return []string{"err"}
				}
				time.Sleep(20 * time.Microsecond)
			}
			s.mode, s.closeDone = "closing", done
			return []string{"ok"}
		}
		select {
		case <-done:
		case <-time.After(c30Timeout):
			s.fail("stuck-close", "Close_did_not_return")
			return []string{"err"}
		}
		s.mode = "closed"
		return []string{"ok"}
	case "crash":
		if len(op) != 2 {
			return nil
		}
		if s.mode == "down" {
			return []string{"none"}
		}
		s.killIncarnation()
		return []string{"ok"}
	case "start":
		if len(op) != 3 || !strings.HasPrefix(op[2], "inv=") {
			return nil
		}
		var inv []string
		for _, k := range verifh.Unlist(op[2][4:]) {
			if _, ok := c30KeyIdx(k); !ok {
				return nil
			}
			inv = append(inv, k)
		}
		if s.mode == "up" {
			return []string{"none"}
		}
		s.killIncarnation()
		if err := s.startIncarnation(inv); err != nil {
			s.fail("start-failed", verifh.Str(err.Error()))
			return []string{"err"}
		}
		return []string{"ok"}
	}
	return nil
}

func (s *c30Sess) step(op []string) {
	if s.broken || len(op) < 2 || op[0] != "op" {
		return
	}
	var obs []string
	if p := verifh.Protect(func() { obs = s.do(op) }); p != "" {
		s.fail("panic", verifh.Str(p))
		return
	}
	if obs == nil {
		return // malformed op: not executed, not recorded
	}
	st := append([]string(nil), s.started...)
	sort.Strings(st)
	s.started = nil
	obs = append(obs, "t="+s.table(), "s="+verifh.List(st))
	s.tr.Op(op[1:], obs...)
}

// complete: a fair continuation — restart if needed, let every paused caller finish, then rounds of
// (all running executions succeed; time passes; one poll pass) until the table is empty.  With the
// property, every stored task is executed successfully within rows+1 rounds.
func (s *c30Sess) complete() {
	if s.broken {
		return
	}
	if s.mode != "up" {
		s.step([]string{"op", "start", "inv=-"})
	}
	var paused []string
	for k := range s.adders {
		paused = append(paused, k)
	}
	sort.Strings(paused)
	for _, k := range paused {
		s.step([]string{"op", "adde", k})
	}
	for i := 0; i < 64 && s.pollEnd != nil && !s.broken; i++ {
		s.step([]string{"op", "polls"})
	}
	bound := 2*s.nrows() + 4
	for round := 0; !s.broken; round++ {
		for i := 0; i < 64 && !s.broken; i++ {
			var ks []string
			for _, p := range []string{"in", "re"} {
				for k := range s.running[p] {
					ks = append(ks, k)
				}
			}
			if len(ks) == 0 {
				break
			}
			sort.Strings(ks)
			for _, k := range ks {
				s.step([]string{"op", "fin", k, "ok"})
			}
		}
		if s.broken {
			return
		}
		t := s.table()
		if t == "-" {
			return
		}
		if round >= bound {
			s.fail("never-completed", "stored_tasks_were_not_executed_to_success_under_a_fair_schedule", "t="+t)
			return
		}
		s.step([]string{"op", "adv", "16"})
		s.step([]string{"op", "poll"})
	}
}

// after a few cases in which the real manager got stuck (each costs a timeout) generation stops:
// the failures are already recorded
var c30Broken int

func c30Run(env *c30Env, tr *verifh.T, c verifh.Case) {
	if c30Broken >= 3 {
		return
	}
	cfg := c30ParseCfg(c.Cfg)
	s := &c30Sess{env: env, tr: tr, cfg: cfg, mode: "down"}
	if _, err := env.hdb.Exec("DELETE FROM writeback_task; DELETE FROM replicate_tag_task"); err != nil {
		panic(err)
	}
	tr.Cfg(cfg.toks()...)
	if err := s.startIncarnation(nil); err != nil {
		s.fail("start-failed", verifh.Str(err.Error()))
		tr.End()
		return
	}
	tr.Op([]string{"defaults"}, fmt.Sprintf("win=%d", s.eff.NumIncomingWorkers), fmt.Sprintf("wre=%d", s.eff.NumRetryWorkers),
		fmt.Sprintf("capin=%d", s.eff.IncomingBuffer), fmt.Sprintf("capre=%d", s.eff.RetryBuffer))
	for _, op := range c.Ops {
		s.step(op)
	}
	s.complete()
	s.killIncarnation()
	if s.broken {
		c30Broken++
	}
	tr.End()
}

// ---------------------------------------------------------------- generators

func c30Alphabet(nk int, full bool) [][]string {
	ops := [][]string{{"op", "poll"}, {"op", "adv", "2"}, {"op", "crash"}, {"op", "start", "inv=-"}}
	for i := 0; i < nk; i++ {
		k := c30KeyTok(i)
		ops = append(ops, []string{"op", "add", k, "0"}, []string{"op", "fin", k, "ok"}, []string{"op", "fin", k, "fail"})
	}
	if full {
		ops = append(ops, []string{"op", "close"}, []string{"op", "pollb"}, []string{"op", "polls"},
			[]string{"op", "add", "k0", "1"}, []string{"op", "adv", "1"})
		for i := 0; i < nk; i++ {
			k := c30KeyTok(i)
			ops = append(ops, []string{"op", "addb", k, "0"}, []string{"op", "adde", k})
		}
	}
	return ops
}

func c30RandCase(r *verifh.Rand, tr *verifh.T) verifh.Case {
	cfg := c30Cfg{store: r.Pick("wb", "wb", "tr"), capIn: 1 + r.Intn(2), capRe: 1 + r.Intn(2), wIn: 1 + r.Intn(2), wRe: 1 + r.Intn(2), ri: r.Intn(3)}
	if r.Chance(1, 4) {
		// a configuration as written by a user: incoming workers 1..4, retry workers unset or 1..3,
		// channel sizes unset or small
		cfg.wIn, cfg.wRe = 1+r.Intn(4), r.Intn(4)
		cfg.capIn, cfg.capRe = r.Intn(3), r.Intn(3)
		tr.Count("random_user_config", 1)
	}
	nk := 2 + r.Intn(3)
	n := 4 + r.Intn(28)
	var ops [][]string
	maybeRunning := []string{}
	for j := 0; j < n; j++ {
		k := c30KeyTok(r.Intn(nk))
		var o []string
		switch x := r.Intn(100); {
		case x < 6:
			// burst: fill the incoming channel
			for i := 0; i < nk; i++ {
				ops = append(ops, []string{"op", "add", c30KeyTok(i), "0"})
				maybeRunning = append(maybeRunning, c30KeyTok(i))
			}
			tr.Count("random_burst", 1)
			continue
		case x < 10:
			// everything that may be running fails, time passes: the next poll has several due tasks
			for i := 0; i < nk; i++ {
				ops = append(ops, []string{"op", "fin", c30KeyTok(i), "fail"})
			}
			ops = append(ops, []string{"op", "adv", strconv.Itoa(cfg.ri + 1)})
			tr.Count("random_failall", 1)
			continue
		case x < 24:
			o = []string{"op", "add", k, r.Pick("0", "0", "0", "1", "3")}
			maybeRunning = append(maybeRunning, k)
		case x < 44:
			if len(maybeRunning) > 0 && r.Chance(4, 5) {
				k = maybeRunning[r.Intn(len(maybeRunning))]
			}
			o = []string{"op", "fin", k, r.Pick("ok", "fail", "fail")}
		case x < 58:
			o = []string{"op", "poll"}
		case x < 68:
			o = []string{"op", "adv", strconv.Itoa(r.Intn(5))}
		case x < 73:
			o = []string{"op", "crash"}
		case x < 80:
			inv := "-"
			if cfg.store == "tr" && r.Chance(1, 3) {
				inv = c30KeyTok(r.Intn(nk))
			}
			o = []string{"op", "start", "inv=" + inv}
		case x < 83:
			o = []string{"op", "close"}
		case x < 88:
			o = []string{"op", "addb", k, "0"}
		case x < 92:
			o = []string{"op", "adde", k}
		case x < 95:
			o = []string{"op", "pollb"}
		default:
			o = []string{"op", "polls"}
		}
		tr.Count("random_op_"+o[1], 1)
		ops = append(ops, o)
	}
	return verifh.Case{Cfg: cfg.toks(), Ops: ops}
}

func TestVerif_C30(t *testing.T) {
	log.SetGlobalLogger(zap.NewNop().Sugar())
	tr := verifh.Open("retry")
	defer tr.Close()

	base := os.TempDir()
	if st, err := os.Stat("/dev/shm"); err == nil && st.IsDir() {
		base = "/dev/shm"
	}
	dir, err := os.MkdirTemp(base, "verif-c30-")
	if err != nil {
		t.Fatal(err)
	}
	defer os.RemoveAll(dir)
	env := &c30Env{dir: dir, path: filepath.Join(dir, "retry.db")}
	db0, err := localdb.New(localdb.Config{Source: env.path})
	if err != nil {
		t.Fatal(err)
	}
	db0.Close()
	env.hdb, err = sqlx.Open("sqlite3", env.path)
	if err != nil {
		t.Fatal(err)
	}
	env.hdb.SetMaxOpenConns(1)
	defer env.hdb.Close()

	cases, replayOnly := verifh.InputCases("retry")
	for _, c := range cases {
		c30Run(env, tr, c)
		tr.Count("corpus_or_replay_cases", 1)
	}
	if replayOnly {
		return
	}
	// (a) bounded-exhaustive over 2 keys, both stores, queue capacity 1, one worker per pool
	for _, store := range []string{"wb", "tr"} {
		cfg := c30Cfg{store: store, capIn: 1, capRe: 1, wIn: 1, wRe: 1, ri: 1}
		var rec func(alpha [][]string, prefix [][]string, d int)
		rec = func(alpha [][]string, prefix [][]string, d int) {
			if d == 0 {
				c30Run(env, tr, verifh.Case{Cfg: cfg.toks(), Ops: prefix})
				tr.Count("exhaustive_cases", 1)
				return
			}
			for _, o := range alpha {
				rec(alpha, append(prefix[:len(prefix):len(prefix)], o), d-1)
			}
		}
		small, full := c30Alphabet(2, false), c30Alphabet(2, true)
		if store == "wb" {
			for d := 0; d <= verifh.Scale(2, 3); d++ {
				rec(full, nil, d)
			}
			rec(small, nil, verifh.Scale(3, 4))
		} else {
			rec(small, nil, verifh.Scale(2, 3))
		}
	}
	// (a') exhaustive suffixes of depth 2 over 3 keys after prefixes that fill the channels
	{
		cfg := c30Cfg{store: "wb", capIn: 1, capRe: 1, wIn: 1, wRe: 1, ri: 1}
		alpha := c30Alphabet(3, false)
		prefixes := [][][]string{
			{{"op", "add", "k0", "0"}, {"op", "add", "k1", "0"}},
			{{"op", "add", "k0", "0"}, {"op", "add", "k1", "0"}, {"op", "fin", "k0", "fail"}, {"op", "fin", "k1", "fail"}, {"op", "adv", "2"}},
			{{"op", "add", "k0", "0"}, {"op", "fin", "k0", "fail"}, {"op", "add", "k1", "0"}, {"op", "fin", "k1", "fail"}, {"op", "add", "k2", "0"}, {"op", "fin", "k2", "fail"}, {"op", "adv", "2"}, {"op", "pollb"}, {"op", "polls"}},
		}
		for _, pre := range prefixes {
			for _, a := range alpha {
				for _, b := range alpha {
					ops := append(append([][]string{}, pre...), a, b)
					c30Run(env, tr, verifh.Case{Cfg: cfg.toks(), Ops: ops})
					tr.Count("prefixed_exhaustive_cases", 1)
				}
			}
		}
	}
	// (a'') Close() while executions are running (it waits for them): every pair of ops afterwards
	for _, store := range []string{"wb", "tr"} {
		cfg := c30Cfg{store: store, capIn: 1, capRe: 1, wIn: 2, wRe: 1, ri: 1}
		alpha := c30Alphabet(2, false)
		alpha = append(alpha, []string{"op", "close"}, []string{"op", "pollb"})
		pre := [][]string{{"op", "add", "k0", "0"}, {"op", "add", "k1", "0"}, {"op", "close"}}
		for _, a := range alpha {
			for _, b := range alpha {
				if store == "tr" && (a[1] == "add" || b[1] == "add") {
					continue
				}
				ops := append(append([][]string{}, pre...), a, b)
				c30Run(env, tr, verifh.Case{Cfg: cfg.toks(), Ops: ops})
				tr.Count("close_while_running_cases", 1)
			}
		}
	}
	// (a3) the start-up purge of tasks with invalid destinations (tagreplication store) and an Add whose
	// channel send finds the channel full
	for _, inv := range []string{"k0", "k1", "k0,k1"} {
		for _, mid := range []string{"crash", "close"} {
			for _, f := range [][]string{nil, {"op", "fin", "k0", "fail"}, {"op", "fin", "k1", "ok"}} {
				cfg := c30Cfg{store: "tr", capIn: 1, capRe: 1, wIn: 2, wRe: 1, ri: 1}
				ops := [][]string{{"op", "add", "k0", "0"}, {"op", "add", "k1", "0"}, {"op", "add", "k2", "1"}}
				if f != nil {
					ops = append(ops, f)
				}
				ops = append(ops, []string{"op", mid}, []string{"op", "start", "inv=" + inv}, []string{"op", "adv", "2"}, []string{"op", "poll"})
				c30Run(env, tr, verifh.Case{Cfg: cfg.toks(), Ops: ops})
				tr.Count("purge_cases", 1)
			}
		}
	}
	for _, store := range []string{"wb", "tr"} {
		for _, x := range [][]string{nil, {"op", "fin", "k0", "ok"}, {"op", "adv", "1"}, {"op", "poll"}, {"op", "addb", "k3", "0"}} {
			cfg := c30Cfg{store: store, capIn: 1, capRe: 1, wIn: 1, wRe: 1, ri: 1}
			ops := [][]string{{"op", "add", "k0", "0"}, {"op", "add", "k1", "0"}, {"op", "addb", "k2", "0"}}
			if x != nil {
				ops = append(ops, x)
			}
			ops = append(ops, []string{"op", "adde", "k2"}, []string{"op", "adde", "k3"})
			c30Run(env, tr, verifh.Case{Cfg: cfg.toks(), Ops: ops})
			tr.Count("send_overflow_cases", 1)
		}
	}
	// (a4) configurations as a user writes them: worker counts and channel sizes set or left unset (0; the
	// real applyDefaults fills them in), followed by what routes a task through the retry path: an executor
	// failure, an incoming-channel overflow, a delayed task, a restart with pending tasks
	for _, wIn := range []int{0, 1, 2, 3, 4} {
		for _, wRe := range []int{0, 1, 2, 3} {
			for _, caps := range [][2]int{{0, 0}, {1, 1}, {2, 0}} {
				cfg := c30Cfg{store: []string{"wb", "tr"}[(wIn+wRe)%2], capIn: caps[0], capRe: caps[1], wIn: wIn, wRe: wRe, ri: 1}
				for _, ops := range [][][]string{
					{{"op", "add", "k0", "0"}, {"op", "fin", "k0", "fail"}, {"op", "adv", "2"}, {"op", "poll"}},
					{{"op", "add", "k0", "0"}, {"op", "add", "k1", "0"}, {"op", "add", "k2", "0"}, {"op", "add", "k3", "0"}, {"op", "fin", "k0", "fail"}},
					{{"op", "add", "k0", "2"}, {"op", "add", "k1", "0"}},
					{{"op", "add", "k0", "0"}, {"op", "add", "k1", "0"}, {"op", "crash"}, {"op", "start", "inv=-"}},
				} {
					c30Run(env, tr, verifh.Case{Cfg: cfg.toks(), Ops: ops})
					tr.Count("config_space_cases", 1)
				}
			}
		}
	}
	// (b) random histories
	r := verifh.NewRand(verifh.Seed(), "c30")
	for i := 0; i < verifh.Scale(200, 12000); i++ {
		c := c30RandCase(r, tr)
		if i < 2 {
			tr.Sample(fmt.Sprint(c.Cfg, c.Ops))
		}
		c30Run(env, tr, c)
		tr.Count("random_cases", 1)
	}
}

// ---------------------------------------------------------------- free-running check (machine retryfree)
//
// The real ticker loop, workers and poller run on their own (poll every 2ms, RetryInterval 1ns),
// the executor fails each task a scripted number of times, the process is closed and reopened in
// the middle.  Nothing timing dependent is compared: the harness only waits (generously) for the
// table to become empty and then checks the property's predicates on the recorded event order.

type c30FreeLog struct {
	mu       sync.Mutex
	failLeft map[string]int
	okExec   map[string]int // successful executions so far
	removed  map[string]int
	bad      []string
	execs    int
	payload  map[string]string
	hang     chan struct{} // non-nil: executions hang until it is closed, then fail
}

type c30FreeExec struct{ l *c30FreeLog }

func (e c30FreeExec) Name() string { return "verif-free" }
func (e c30FreeExec) Exec(t persistedretry.Task) error {
	k := c30TaskKey(t)
	e.l.mu.Lock()
	hang := e.l.hang
	e.l.mu.Unlock()
	if hang != nil {
		<-hang
		return errors.New("interrupted")
	}
	e.l.mu.Lock()
	defer e.l.mu.Unlock()
	e.l.execs++
	if want, ok := e.l.payload[k]; ok && want != c30Payload(t) {
		e.l.bad = append(e.l.bad, "payload-changed "+k+"_added_"+want+"_executed_"+c30Payload(t))
	}
	if e.l.removed[k] > 0 {
		e.l.bad = append(e.l.bad, "executed-after-success "+k)
	}
	if e.l.failLeft[k] > 0 {
		e.l.failLeft[k]--
		return errors.New("scripted failure")
	}
	e.l.okExec[k]++
	return nil
}

type c30FreeStore struct {
	persistedretry.Store
	l *c30FreeLog
}

func (s c30FreeStore) Remove(t persistedretry.Task) error {
	k := c30TaskKey(t)
	s.l.mu.Lock()
	if s.l.okExec[k] <= s.l.removed[k] {
		s.l.bad = append(s.l.bad, "removed-without-success "+k)
	}
	s.l.removed[k]++
	s.l.mu.Unlock()
	return s.Store.Remove(t)
}

var c30FreeStuck int

func c30FreeRun(env *c30Env, tr *verifh.T, c verifh.Case) {
	if c30FreeStuck >= 2 {
		return // each stuck case costs the full wait; the failures are already recorded
	}
	cfg := c30ParseCfg(c.Cfg)
	if _, err := env.hdb.Exec("DELETE FROM writeback_task; DELETE FROM replicate_tag_task"); err != nil {
		panic(err)
	}
	tr.Cfg(cfg.toks()...)
	defer tr.End()
	l := &c30FreeLog{failLeft: map[string]int{}, okExec: map[string]int{}, removed: map[string]int{}, payload: map[string]string{}}
	var db *sqlx.DB
	var m persistedretry.Manager
	open := func() bool {
		var err error
		db, err = localdb.New(localdb.Config{Source: env.path})
		if err != nil {
			tr.PropFail("start-failed", verifh.Str(err.Error()))
			return false
		}
		var inner persistedretry.Store = writeback.NewStore(db)
		if cfg.store == "tr" {
			inner, err = tagreplication.NewStore(db, c30Validator{})
			if err != nil {
				tr.PropFail("start-failed", verifh.Str(err.Error()))
				return false
			}
		}
		m, err = persistedretry.NewManager(persistedretry.Config{
			IncomingBuffer: cfg.capIn, RetryBuffer: cfg.capRe, NumIncomingWorkers: cfg.wIn, NumRetryWorkers: cfg.wRe,
			MaxTaskThroughput: time.Nanosecond, RetryInterval: time.Nanosecond, PollRetriesInterval: 2 * time.Millisecond,
			Testing: cfg.capIn != 0 && cfg.capRe != 0,
		}, tally.NoopScope, c30FreeStore{inner, l}, c30FreeExec{l})
		if err != nil {
			tr.PropFail("start-failed", verifh.Str(err.Error()))
			return false
		}
		return true
	}
	if !open() {
		return
	}
	s := &c30Sess{env: env, cfg: cfg}
	added := map[string]bool{}
	for _, op := range c.Ops {
		if len(op) < 2 || op[0] != "op" {
			continue
		}
		switch {
		case op[1] == "add" && len(op) == 4:
			i, ok := c30KeyIdx(op[2])
			f, err := strconv.Atoi(op[3])
			if !ok || err != nil || f < 0 || f > 5 {
				continue
			}
			if added[op[2]] {
				continue // each key once: a re-add after completion would legitimately execute again
			}
			task := c30NewTask(cfg.store, i, 0)
			l.mu.Lock()
			l.failLeft[op[2]] = f
			l.payload[op[2]] = c30Payload(task)
			l.mu.Unlock()
			if err := m.Add(task); err != nil {
				tr.PropFail("add-failed", verifh.Str(err.Error()))
			}
			added[op[2]] = true
			tr.Op(op[1:], "ok")
		case op[1] == "backlog" && len(op) == 4 && (op[3] == "hung" || op[3] == "failonce"):
			// a large backlog: n tasks added while the executor hangs (or fails each task once); the rows
			// pile up pending / failed in the table
			n, err := strconv.Atoi(op[2])
			if err != nil || n < 1 || n > 4000 {
				continue
			}
			if op[3] == "hung" {
				l.mu.Lock()
				l.hang = make(chan struct{})
				l.mu.Unlock()
			}
			for i := 0; i < n; i++ {
				k := c30KeyTok(100 + i)
				if added[k] {
					continue
				}
				task := c30NewTask(cfg.store, 100+i, 0)
				l.mu.Lock()
				if op[3] == "failonce" {
					l.failLeft[k] = 1
				}
				l.payload[k] = c30Payload(task)
				l.mu.Unlock()
				if err := m.Add(task); err != nil {
					tr.PropFail("add-failed", verifh.Str(err.Error()))
				}
				added[k] = true
			}
			tr.Op(op[1:], "ok")
		case op[1] == "restart" && len(op) == 2:
			l.mu.Lock()
			if l.hang != nil {
				close(l.hang) // the hung executions end with an error; the new process has a healthy executor
				l.hang = nil
			}
			l.mu.Unlock()
			m.Close()
			db.Close()
			if !open() {
				return
			}
			tr.Op(op[1:], "ok")
		case op[1] == "sleep" && len(op) == 2:
			time.Sleep(3 * time.Millisecond)
			tr.Op(op[1:], "ok")
		}
	}
	l.mu.Lock()
	if l.hang != nil {
		close(l.hang)
		l.hang = nil
	}
	l.mu.Unlock()
	deadline := time.Now().Add(60 * time.Second)
	for s.nrows() != 0 {
		if time.Now().After(deadline) {
			tr.PropFail("never-completed", "t="+s.table())
			c30FreeStuck++
			break
		}
		time.Sleep(2 * time.Millisecond)
	}
	m.Close()
	db.Close()
	l.mu.Lock()
	defer l.mu.Unlock()
	for k := range added {
		if l.okExec[k] == 0 {
			tr.PropFail("not-executed-to-success", k)
		}
	}
	for _, b := range l.bad {
		parts := strings.SplitN(b, " ", 2)
		tr.PropFail(parts[0], parts[1])
	}
	tr.Count("free_execs", l.execs)
	tr.Op([]string{"drain"}, "empty")
}

func TestVerif_C30Free(t *testing.T) {
	log.SetGlobalLogger(zap.NewNop().Sugar())
	tr := verifh.Open("retryfree")
	defer tr.Close()
	base := os.TempDir()
	if st, err := os.Stat("/dev/shm"); err == nil && st.IsDir() {
		base = "/dev/shm"
	}
	dir, err := os.MkdirTemp(base, "verif-c30f-")
	if err != nil {
		t.Fatal(err)
	}
	defer os.RemoveAll(dir)
	env := &c30Env{dir: dir, path: filepath.Join(dir, "retry.db")}
	db0, err := localdb.New(localdb.Config{Source: env.path})
	if err != nil {
		t.Fatal(err)
	}
	db0.Close()
	env.hdb, err = sqlx.Open("sqlite3", env.path)
	if err != nil {
		t.Fatal(err)
	}
	env.hdb.SetMaxOpenConns(1)
	defer env.hdb.Close()

	cases, replayOnly := verifh.InputCases("retryfree")
	for _, c := range cases {
		c30FreeRun(env, tr, c)
		tr.Count("corpus_or_replay_cases", 1)
	}
	if replayOnly {
		return
	}
	// a restart with a backlog of more than 1000 stored tasks: all of them are retried to success
	backlogs := [][]string{{"1100", "hung"}}
	if verifh.Thorough() {
		backlogs = append(backlogs, []string{"1000", "hung"}, []string{"1001", "hung"}, []string{"2500", "hung"}, []string{"1100", "failonce"}, []string{"2500", "failonce"})
	}
	for _, b := range backlogs {
		cfg := c30Cfg{store: "wb", capIn: 0, capRe: 0, wIn: 0, wRe: 0, ri: 0}
		c30FreeRun(env, tr, verifh.Case{Cfg: cfg.toks(), Ops: [][]string{{"op", "backlog", b[0], b[1]}, {"op", "restart"}}})
		tr.Count("backlog_cases", 1)
	}
	r := verifh.NewRand(verifh.Seed(), "c30free")
	for i := 0; i < verifh.Scale(60, 1500); i++ {
		cfg := c30Cfg{store: r.Pick("wb", "tr"), capIn: 1 + r.Intn(2), capRe: 1 + r.Intn(2), wIn: 1 + r.Intn(2), wRe: 1 + r.Intn(2), ri: 0}
		var ops [][]string
		n := 1 + r.Intn(4)
		for j := 0; j < n+r.Intn(3); j++ {
			ops = append(ops, []string{"op", "add", c30KeyTok(r.Intn(n)), strconv.Itoa(r.Intn(4))})
			if r.Chance(1, 4) {
				ops = append(ops, []string{"op", "restart"})
			}
			if r.Chance(1, 4) {
				ops = append(ops, []string{"op", "sleep"})
			}
		}
		if i < 2 {
			tr.Sample(fmt.Sprint(cfg.toks(), ops))
		}
		c30FreeRun(env, tr, verifh.Case{Cfg: cfg.toks(), Ops: ops})
		tr.Count("free_cases", 1)
	}
}
