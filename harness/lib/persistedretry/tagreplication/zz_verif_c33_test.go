//go:build verif

package tagreplication_test

// C33 harness: the real tagreplication.Executor with the real tag client (tagclient.NewProvider) and
// real origin HTTP clients (blobclient.New) talking to scripted HTTP servers; dependencies are
// replicated through the real clusterClient.ReplicateToRemote (its polling backoff replaced, through
// the verif hook in origin/blobclient, by `bo` zero-wait retries).  Tasks go through a real
// tagreplication.Store on SQLite: every execution runs what the store returns.  The servers record
// every request in order; that order and the result of Exec are the observation.

import (
	"fmt"
	"net/http"
	"net/http/httptest"
	"net/url"
	"os"
	"path/filepath"
	"strconv"
	"strings"
	"sync"
	"testing"

	"github.com/cenkalti/backoff"
	"github.com/jmoiron/sqlx"
	"github.com/uber-go/tally"
	"go.uber.org/zap"

	"github.com/uber/kraken/build-index/tagclient"
	"github.com/uber/kraken/core"
	"github.com/uber/kraken/lib/persistedretry"
	"github.com/uber/kraken/lib/persistedretry/tagreplication"
	"github.com/uber/kraken/localdb"
	"github.com/uber/kraken/origin/blobclient"
	"github.com/uber/kraken/utils/log"
	"github.com/uber/kraken/utils/verifh"
)

const (
	c33MaxReps = 3
	c33Tag     = "repo/img:v1"
)

var c33Digests = func() []core.Digest {
	var ds []core.Digest
	for i := 0; i < 4; i++ {
		d, err := core.NewSHA256DigestFromHex(strings.Repeat(fmt.Sprintf("%02x", 0xa0+i), 32))
		if err != nil {
			panic(err)
		}
		ds = append(ds, d)
	}
	return ds
}()

// image digests a tag can point to: g0 (= the digest of the plain `exec deps=` form), g1, g2
var c33Imgs = func() []core.Digest {
	ds := []core.Digest{c33Digests[3]}
	for i := 1; i < 3; i++ {
		d, err := core.NewSHA256DigestFromHex(strings.Repeat(fmt.Sprintf("%02x", 0xb0+i), 32))
		if err != nil {
			panic(err)
		}
		ds = append(ds, d)
	}
	return ds
}()

func c33ImgTok(d core.Digest) string {
	for i, x := range c33Imgs {
		if x == d {
			return "g" + strconv.Itoa(i)
		}
	}
	return "g?"
}

func c33DigestTok(hex string) string {
	for i, d := range c33Digests {
		if d.Hex() == hex {
			return "d" + strconv.Itoa(i)
		}
	}
	return "d?"
}

func c33Digest(tok string) (core.Digest, bool) {
	if len(tok) == 2 && tok[0] == 'd' && tok[1] >= '0' && tok[1] <= '3' {
		return c33Digests[tok[1]-'0'], true
	}
	return core.Digest{}, false
}

// world: scripted endpoints + request log
type c33World struct {
	mu      sync.Mutex
	scripts map[string][]string // endpoint -> remaining answers
	log     []string
	putd    string // the image digest of the last PUT /tags/<tag>/digest/<d> (g<i>)
}

func (w *c33World) next(ep string) string {
	w.mu.Lock()
	defer w.mu.Unlock()
	r := "net"
	if s := w.scripts[ep]; len(s) > 0 {
		r = s[0]
		w.scripts[ep] = s[1:]
	}
	w.log = append(w.log, ep+":"+r)
	return r
}

func c33Answer(rw http.ResponseWriter, r string, body string) {
	switch r {
	case "ok":
		rw.WriteHeader(200)
		fmt.Fprint(rw, body)
	case "acc":
		rw.WriteHeader(202)
	case "cli":
		rw.WriteHeader(404)
	case "srv":
		rw.WriteHeader(503)
	default: // net: drop the connection without an answer
		if hj, ok := rw.(http.Hijacker); ok {
			if c, _, err := hj.Hijack(); err == nil {
				c.Close()
				return
			}
		}
		panic(http.ErrAbortHandler)
	}
}

type c33Resolver struct{ clients []blobclient.Client }

func (r c33Resolver) Resolve(d core.Digest) ([]blobclient.Client, error) { return r.clients, nil }

// c33BackOff is what the verif hook hands to the real clusterClient.ReplicateToRemote instead of its
// default (seconds between 202 answers): `bo` zero-wait retries after a Reset.
func c33BackOff(bo int) backoff.BackOff {
	if bo <= 0 {
		return &backoff.StopBackOff{} // WithMaxRetries(_, 0) would mean "no limit"
	}
	return backoff.WithMaxRetries(&backoff.ZeroBackOff{}, uint64(bo))
}

type c33Env struct {
	w       *c33World
	index   *httptest.Server
	origins []*httptest.Server
	// the real task table: every execution runs the task as it comes back from the store
	db    *sqlx.DB
	store *tagreplication.Store
}

type c33AllValid struct{}

func (c33AllValid) Valid(tag, addr string) bool { return true }

func c33NewEnv() *c33Env {
	e := &c33Env{w: &c33World{scripts: map[string][]string{}}}
	e.index = httptest.NewServer(http.HandlerFunc(func(rw http.ResponseWriter, r *http.Request) {
		// the requests must name the task's tag and digest exactly
		tagPath := "/tags/" + url.PathEscape(c33Tag)
		ep := strings.Replace(r.URL.EscapedPath(), "%3A", ":", -1)
		putPath, putd := "", ""
		for _, g := range c33Imgs {
			if pp := strings.Replace(tagPath+"/digest/"+g.String(), "%3A", ":", -1); pp == ep {
				putPath, putd = tagPath+"/digest/"+g.String(), c33ImgTok(g)
			}
		}
		if r.Method == "PUT" && putd != "" {
			e.w.mu.Lock()
			e.w.putd = putd
			e.w.mu.Unlock()
		}
		switch {
		case r.Method == "HEAD" && ep == strings.Replace(tagPath, "%3A", ":", -1):
			c33Answer(rw, e.w.next("has"), "")
		case r.Method == "GET" && r.URL.Path == "/origin":
			c33Answer(rw, e.w.next("origin"), "remote-origin")
		case r.Method == "PUT" && putPath != "" && r.URL.Query().Get("replicate") == "true":
			c33Answer(rw, e.w.next("put"), "")
		default:
			e.w.next("unexpected." + r.Method + r.URL.Path)
			rw.WriteHeader(400)
		}
	}))
	for i := 0; i < c33MaxReps; i++ {
		i := i
		e.origins = append(e.origins, httptest.NewServer(http.HandlerFunc(func(rw http.ResponseWriter, r *http.Request) {
			p := strings.Split(strings.Trim(r.URL.EscapedPath(), "/"), "/")
			// namespace/<ns>/blobs/<digest>/remote/<remote>
			if r.Method == "POST" && len(p) == 6 && p[0] == "namespace" && strings.Replace(p[1], "%3A", ":", -1) == strings.Replace(url.PathEscape(c33Tag), "%3A", ":", -1) &&
				p[2] == "blobs" && p[4] == "remote" && p[5] == "remote-origin" {
				hex := strings.TrimPrefix(strings.Replace(p[3], "%3A", ":", 1), "sha256:")
				c33Answer(rw, e.w.next(fmt.Sprintf("rep.%s.%d", c33DigestTok(hex), i)), "")
				return
			}
			e.w.next("unexpected." + r.Method + r.URL.Path)
			rw.WriteHeader(400)
		})))
	}
	// no connection reuse: net/http silently re-sends idempotent requests whose reused connection
	// was dropped, which would show up as requests the kraken code never made
	e.index.Config.SetKeepAlivesEnabled(false)
	for _, o := range e.origins {
		o.Config.SetKeepAlivesEnabled(false)
	}
	return e
}

func (e *c33Env) close() {
	e.index.Close()
	for _, o := range e.origins {
		o.Close()
	}
}

func c33Addr(s *httptest.Server) string { return strings.TrimPrefix(s.URL, "http://") }

var c33Classes = []string{"ok", "acc", "cli", "srv", "net"}

func c33ValidScript(v string) ([]string, bool) {
	if v == "-" {
		return nil, true
	}
	rs := strings.Split(v, "/")
	for _, r := range rs {
		ok := false
		for _, c := range c33Classes {
			ok = ok || r == c
		}
		if !ok {
			return nil, false
		}
	}
	return rs, true
}

func c33Run(e *c33Env, tr *verifh.T, c verifh.Case) {
	reps, bo, real := 1, 0, false
	scripts := map[string][]string{}
	var cfgToks []string
	for _, t := range c.Cfg {
		kv := strings.SplitN(t, "=", 2)
		if len(kv) != 2 {
			continue
		}
		switch {
		case kv[0] == "reps":
			if n, err := strconv.Atoi(kv[1]); err == nil && n >= 1 && n <= c33MaxReps {
				reps = n
			}
		case kv[0] == "bo":
			if n, err := strconv.Atoi(kv[1]); err == nil && n >= 0 && n <= 6 {
				bo = n
			}
		case kv[0] == "real":
			real = kv[1] == "1"
		case kv[0] == "has" || kv[0] == "origin" || kv[0] == "put" || strings.HasPrefix(kv[0], "rep.d"):
			if s, ok := c33ValidScript(kv[1]); ok {
				scripts[kv[0]] = s
				cfgToks = append(cfgToks, t)
			}
		}
	}
	real = true // the real clusterClient.ReplicateToRemote, with the polling backoff supplied through the verif hook
	cfgToks = append([]string{fmt.Sprintf("reps=%d", reps), fmt.Sprintf("bo=%d", bo), "real=" + verifh.Bool(real)}, cfgToks...)
	tr.Cfg(cfgToks...)
	defer tr.End()
	e.w.mu.Lock()
	e.w.scripts, e.w.log = scripts, nil
	e.w.mu.Unlock()

	var clients []blobclient.Client
	for i := 0; i < reps; i++ {
		clients = append(clients, blobclient.New(c33Addr(e.origins[i])))
	}
	res := c33Resolver{clients}
	blobclient.VerifPollBackOff = func() backoff.BackOff { return c33BackOff(bo) }
	cluster := blobclient.NewClusterClient(res)
	ex := tagreplication.NewExecutor(tally.NoopScope, cluster, tagclient.NewProvider(nil))
	if _, err := e.db.Exec("DELETE FROM replicate_tag_task"); err != nil {
		panic(err)
	}
	// the stored task as the store returns it: image digest, dependencies, status
	stored := func() ([]persistedretry.Task, string) {
		var ts []persistedretry.Task
		var rows []string
		for _, q := range []struct {
			st  string
			get func() ([]persistedretry.Task, error)
		}{{"p", e.store.GetPending}, {"f", e.store.GetFailed}} {
			if got, err := q.get(); err == nil {
				for _, t := range got {
					ts = append(ts, t)
					x := t.(*tagreplication.Task)
					var deps []string
					for _, d := range x.Dependencies {
						deps = append(deps, c33DigestTok(d.Hex()))
					}
					dl := strings.Join(deps, ".")
					if dl == "" {
						dl = "none"
					}
					rows = append(rows, c33ImgTok(x.Digest)+":"+dl+":"+q.st)
				}
			}
		}
		return ts, "row=" + verifh.List(rows)
	}
	parseDeps := func(tok string) (core.DigestList, bool) {
		var deps core.DigestList
		for _, t := range verifh.Unlist(tok) {
			d, good := c33Digest(t)
			if !good {
				return nil, false
			}
			deps = append(deps, d)
		}
		return deps, len(deps) <= 6
	}
	add := func(g int, deps core.DigestList, failed bool) string {
		task := tagreplication.NewTask(c33Tag, c33Imgs[g], deps, c33Addr(e.index), 0)
		var err error
		if failed {
			err = e.store.AddFailed(task)
		} else {
			err = e.store.AddPending(task)
		}
		switch {
		case err == nil:
			return "ok"
		case err == persistedretry.ErrTaskExists:
			return "exists"
		}
		return "err"
	}
	added := false
	for _, op := range c.Ops {
		if len(op) < 2 || op[0] != "op" {
			continue
		}
		// add g<i> deps=<list> [st=f]: Add of a replication task for the tag pointing to image g<i>
		// (st=f: a delayed duplicate, stored as failed)
		if op[1] == "add" && (len(op) == 4 || len(op) == 5 && op[4] == "st=f") && strings.HasPrefix(op[3], "deps=") &&
			len(op[2]) == 2 && op[2][0] == 'g' && op[2][1] >= '0' && op[2][1] <= '2' {
			deps, ok := parseDeps(op[3][5:])
			if !ok {
				continue
			}
			added = true
			res := add(int(op[2][1]-'0'), deps, len(op) == 5)
			_, row := stored()
			tr.Op(op[1:], res, row)
			continue
		}
		if op[1] != "exec" || !(len(op) == 2 || len(op) == 3 && strings.HasPrefix(op[2], "deps=")) {
			continue
		}
		e.w.mu.Lock()
		e.w.log, e.w.putd = nil, ""
		e.w.mu.Unlock()
		// the task goes through the table: `exec deps=` adds it (image g0) when nothing was added in the
		// case yet; every execution — the first one and the retries — runs what GetPending / GetFailed return
		if len(op) == 3 && !added {
			deps, ok := parseDeps(op[2][5:])
			if !ok {
				continue
			}
			added = true
			if add(0, deps, false) != "ok" {
				tr.PropFail("harness-store", "first_add_refused")
				continue
			}
		}
		ts, _ := stored()
		if len(ts) != 1 {
			tr.Op(op[1:], "gone", "trace=-", "putd=-", "row=-")
			continue
		}
		task := ts[0]
		var err error
		if p := verifh.Protect(func() { err = ex.Exec(task) }); p != "" {
			tr.PropFail("panic", verifh.Str(p))
			continue
		}
		if err != nil {
			e.store.MarkFailed(task)
		} else {
			e.store.Remove(task)
		}
		e.w.mu.Lock()
		trace := verifh.List(e.w.log)
		putd := e.w.putd
		e.w.mu.Unlock()
		if putd == "" {
			putd = "-"
		}
		r := "ok"
		if err != nil {
			r = "err"
		}
		_, row := stored()
		tr.Op(op[1:], r, "trace="+trace, "putd="+putd, row)
	}
}

func TestVerif_C33(t *testing.T) {
	log.SetGlobalLogger(zap.NewNop().Sugar())
	tr := verifh.Open("tagrepl")
	defer tr.Close()
	e := c33NewEnv()
	defer e.close()
	base := os.TempDir()
	if st, err := os.Stat("/dev/shm"); err == nil && st.IsDir() {
		base = "/dev/shm"
	}
	dir, err := os.MkdirTemp(base, "verif-c33-")
	if err != nil {
		t.Fatal(err)
	}
	defer os.RemoveAll(dir)
	e.db, err = localdb.New(localdb.Config{Source: filepath.Join(dir, "tasks.db")})
	if err != nil {
		t.Fatal(err)
	}
	defer e.db.Close()
	e.store, err = tagreplication.NewStore(e.db, c33AllValid{})
	if err != nil {
		t.Fatal(err)
	}

	cases, replayOnly := verifh.InputCases("tagrepl")
	for _, c := range cases {
		c33Run(e, tr, c)
		tr.Count("corpus_or_replay_cases", 1)
	}
	if replayOnly {
		return
	}
	// (a) bounded-exhaustive: one dependency, two origins, every answer sequence of length <= 2 on the
	// first origin and <= 1 on the second, over all five answer classes
	var seqs func(n int) []string
	seqs = func(n int) []string {
		out := []string{"-"}
		if n == 0 {
			return out
		}
		for _, s := range seqs(n - 1) {
			if s == "-" {
				for _, c := range c33Classes {
					out = append(out, c)
				}
			} else if strings.Count(s, "/") == n-2 {
				for _, c := range c33Classes {
					out = append(out, s+"/"+c)
				}
			}
		}
		return out
	}
	for _, has := range []string{"ok", "cli"} {
		for _, origin := range []string{"ok", "net"} {
			for _, put := range []string{"ok", "srv"} {
				for _, s0 := range seqs(verifh.Scale(2, 3)) {
					for _, s1 := range seqs(1) {
						for _, bo := range []int{0, 1} {
							cfg := []string{"reps=2", fmt.Sprintf("bo=%d", bo), "real=" + verifh.Bool(bo == 0),
								"has=" + has, "origin=" + origin, "put=" + put, "rep.d0.0=" + s0, "rep.d0.1=" + s1}
							c33Run(e, tr, verifh.Case{Cfg: cfg, Ops: [][]string{{"op", "exec", "deps=d0"}}})
							tr.Count("exhaustive_cases", 1)
						}
					}
				}
			}
		}
	}
	// (a') the tag is overwritten while its replication task is stored: Add(tag, g0, deps0), an execution
	// that fails (or a delayed duplicate stored as failed), Add(tag, g1, deps1), then the retries — what
	// is executed and PUT must be one of the tasks as added
	for _, first := range [][]string{{"op", "add", "g0", "deps=d0"}, {"op", "add", "g0", "deps=d0", "st=f"}, {"op", "add", "g0", "deps=d0,d2"}} {
		for _, second := range [][]string{{"op", "add", "g1", "deps=d1"}, {"op", "add", "g1", "deps=-"}, {"op", "add", "g0", "deps=d0"}, {"op", "add", "g2", "deps=d1,d0", "st=f"}} {
			for _, rep0 := range []string{"srv/ok", "ok/ok", "acc/ok/ok"} {
				for _, put := range []string{"srv/ok", "ok"} {
					for _, mid := range []bool{true, false} {
						cfg := []string{"reps=1", "bo=1", "real=1", "has=cli/cli/cli", "origin=ok/ok/ok", "put=" + put,
							"rep.d0.0=" + rep0, "rep.d1.0=ok/ok", "rep.d2.0=ok/ok"}
						ops := [][]string{first}
						if mid {
							ops = append(ops, []string{"op", "exec"})
						}
						ops = append(ops, second, []string{"op", "exec"}, []string{"op", "exec"}, []string{"op", "add", "g1", "deps=d1"}, []string{"op", "exec"})
						c33Run(e, tr, verifh.Case{Cfg: cfg, Ops: ops})
						tr.Count("retag_cases", 1)
					}
				}
			}
		}
	}
	// (b) random: several dependencies (with repeats), 1..3 origins, longer scripts, repeated executions
	// against the same (consumed) scripts = the retries of the retry manager
	r := verifh.NewRand(verifh.Seed(), "c33")
	pick := func(weights [5]int) string {
		tot := 0
		for _, w := range weights {
			tot += w
		}
		x := r.Intn(tot)
		for i, w := range weights {
			if x < w {
				return c33Classes[i]
			}
			x -= w
		}
		return "net"
	}
	script := func(maxLen int, w [5]int) string {
		n := r.Intn(maxLen + 1)
		var s []string
		for i := 0; i < n; i++ {
			s = append(s, pick(w))
		}
		if len(s) == 0 {
			return "-"
		}
		return strings.Join(s, "/")
	}
	for i := 0; i < verifh.Scale(900, 60000); i++ {
		reps := 1 + r.Intn(3)
		cfg := []string{fmt.Sprintf("reps=%d", reps), fmt.Sprintf("bo=%d", r.Intn(4)), "real=" + verifh.Bool(r.Chance(1, 3)),
			"has=" + script(3, [5]int{1, 1, 6, 1, 1}), "origin=" + script(3, [5]int{8, 0, 1, 1, 1}), "put=" + script(3, [5]int{6, 1, 1, 2, 1})}
		for d := 0; d < 3; d++ {
			for o := 0; o < reps; o++ {
				cfg = append(cfg, fmt.Sprintf("rep.d%d.%d=%s", d, o, script(4, [5]int{5, 4, 1, 2, 2})))
			}
		}
		var ops [][]string
		var deps []string
		for j := r.Intn(4); j > 0; j-- {
			deps = append(deps, "d"+strconv.Itoa(r.Intn(3)))
		}
		if r.Chance(1, 3) {
			// re-tagging: each image has its own dependency list; Adds and executions interleave
			imgDeps := map[string]string{}
			for g := 0; g < 3; g++ {
				var dl []string
				for j := r.Intn(3); j > 0; j-- {
					dl = append(dl, "d"+strconv.Itoa(r.Intn(3)))
				}
				imgDeps["g"+strconv.Itoa(g)] = verifh.List(dl)
			}
			for j := 3 + r.Intn(5); j > 0; j-- {
				if r.Chance(2, 5) || len(ops) == 0 {
					g := "g" + strconv.Itoa(r.Intn(3))
					o := []string{"op", "add", g, "deps=" + imgDeps[g]}
					if r.Chance(1, 4) {
						o = append(o, "st=f")
					}
					ops = append(ops, o)
				} else {
					ops = append(ops, []string{"op", "exec"})
				}
			}
			tr.Count("random_retag_cases", 1)
		} else {
			for j := 1 + r.Intn(3); j > 0; j-- {
				ops = append(ops, []string{"op", "exec", "deps=" + verifh.List(deps)})
			}
		}
		if i < 2 {
			tr.Sample(fmt.Sprint(cfg, ops))
		}
		c33Run(e, tr, verifh.Case{Cfg: cfg, Ops: ops})
		tr.Count("random_cases", 1)
	}
}
