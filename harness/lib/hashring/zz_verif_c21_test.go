//go:build verif

package hashring

import (
	"fmt"
	"math"
	"sort"
	"strconv"
	"strings"
	"sync"
	"testing"

	"github.com/uber-go/tally"
	"go.uber.org/zap"

	"github.com/uber/kraken/core"
	"github.com/uber/kraken/utils/log"
	"github.com/uber/kraken/utils/stringset"
	"github.com/uber/kraken/utils/verifh"
)

// C21 harness: several ring objects per case (each = one process that discovered the hosts in its
// own order) over a scripted host list and a scripted health filter; records Locations for digests
// of every shard together with the scores of the ring's own hrw nodes (in-package: `ring.hash` is
// unexported) as order-preserving integers.

type c21List struct{ cur []string }

func (l *c21List) Resolve() stringset.Set { return stringset.New(l.cur...) }

// c21Filter is a scripted health filter that honours the Filter contract: it answers the scripted hosts
// that are in the set it was asked about, and remembers that set (`raw`: answers the script verbatim,
// for the outside-the-contract stream only).
type c21Filter struct {
	healthy []string
	raw     bool
	lastArg []string
	during  func() // called from inside Run: the health-check round of a Refresh is in flight
}

func (f *c21Filter) Run(addrs stringset.Set) stringset.Set {
	if f.during != nil {
		f.during()
	}
	f.lastArg = addrs.ToSlice()
	sort.Strings(f.lastArg)
	out := stringset.New()
	for _, h := range f.healthy {
		if f.raw || addrs.Has(h) {
			out.Add(h)
		}
	}
	return out
}

type c21Ring struct {
	list   *c21List
	filter *c21Filter
	r      *ring
}

func c21ScoreTok(f float64) string {
	if math.IsNaN(f) {
		return "nan"
	}
	if f == 0 {
		return "0"
	}
	b := math.Float64bits(f)
	mag := int64(b &^ (1 << 63))
	if b>>63 == 1 {
		return strconv.FormatInt(-mag, 10)
	}
	return strconv.FormatInt(mag, 10)
}

func c21Addrs(tok string) []string {
	var out []string
	for _, t := range verifh.Unlist(tok) {
		s, err := verifh.Unstr(t)
		if err != nil {
			s = t
		}
		out = append(out, s)
	}
	return out
}

func c21AddrsTok(as []string) string {
	var xs []string
	for _, a := range as {
		xs = append(xs, verifh.Str(a))
	}
	return verifh.List(xs)
}

func c21NodesTok(r *ring) string {
	if r.hash == nil {
		return "nil"
	}
	var xs []string
	for _, n := range r.hash.Nodes {
		xs = append(xs, verifh.Str(n.Label))
	}
	return verifh.List(xs)
}

func c21Digest(shard string) (core.Digest, error) {
	return core.NewSHA256DigestFromHex(shard + strings.Repeat("0", 64-len(shard)))
}

func c21Exec(t *verifh.T, c verifh.Case) {
	rings := map[string]*c21Ring{}
	raw := false
	for _, k := range c.Cfg {
		raw = raw || k == "rawfilter"
	}
	t.Cfg(c.Cfg...)
	lastTbl := ""
	do := func(op []string) {
		if len(op) < 2 || op[0] != "op" {
			return
		}
		switch {
		case op[1] == "new" && len(op) == 6:
			mr, err := strconv.Atoi(op[3])
			if err != nil {
				return
			}
			g := &c21Ring{list: &c21List{c21Addrs(op[4])}, filter: &c21Filter{healthy: c21Addrs(op[5]), raw: raw}}
			g.r = New(Config{MaxReplica: mr}, g.list, g.filter, tally.NoopScope).(*ring)
			rings[op[2]] = g
			lastTbl = ""
			t.Op(op[1:], c21NodesTok(g.r), "filterarg="+c21AddrsTok(g.filter.lastArg))
		case op[1] == "refresh" && len(op) == 5:
			g := rings[op[2]]
			if g == nil {
				return
			}
			g.list.cur = c21Addrs(op[3])
			g.filter.healthy = c21Addrs(op[4])
			g.r.Refresh()
			lastTbl = ""
			t.Op(op[1:], c21NodesTok(g.r), "filterarg="+c21AddrsTok(g.filter.lastArg))
		case op[1] == "refreshobs" && len(op) == 5:
			// a Refresh during whose health-check round other goroutines' Locations calls are simulated from inside
			// filter.Run (the filter is the scheduling point): every answer must be the answer of ONE published
			// (membership, healthy) pair - the one before or the one after this Refresh - and never empty
			g := rings[op[2]]
			if g == nil || g.r.hash == nil {
				return
			}
			var ds []core.Digest
			for b := 0; b < 256; b++ {
				d, _ := c21Digest(fmt.Sprintf("%02x%02x", b, (b*37+11)%256))
				ds = append(ds, d)
			}
			before := make([]string, len(ds))
			for i, d := range ds {
				before[i] = c21AddrsTok(g.r.Locations(d))
			}
			duringRes := make([]string, len(ds))
			g.list.cur = c21Addrs(op[3])
			g.filter.healthy = c21Addrs(op[4])
			g.filter.during = func() {
				for i, d := range ds {
					if p := verifh.Protect(func() { duringRes[i] = c21AddrsTok(g.r.Locations(d)) }); p != "" {
						duringRes[i] = "panic:" + verifh.Str(p)
					}
				}
			}
			g.r.Refresh()
			g.filter.during = nil
			lastTbl = ""
			t.Op(op[1:], c21NodesTok(g.r), "filterarg="+c21AddrsTok(g.filter.lastArg), "during="+strconv.Itoa(len(ds)))
			if len(g.list.cur) == 0 {
				return
			}
			for i, d := range ds {
				after := c21AddrsTok(g.r.Locations(d))
				switch {
				case duringRes[i] == "-":
					t.PropFail("locations-empty-during-refresh", "shard="+d.ShardID(), "before="+before[i], "after="+after)
					return
				case duringRes[i] != before[i] && duringRes[i] != after:
					t.PropFail("locations-inconsistent-during-refresh", "shard="+d.ShardID(), "during="+duringRes[i], "before="+before[i], "after="+after)
					return
				}
			}
		case op[1] == "conc" && len(op) == 5:
			g := rings[op[2]]
			if g == nil {
				return
			}
			c21Concurrent(t, g, op)
		case op[1] == "members" && len(op) == 3:
			g := rings[op[2]]
			if g == nil {
				return
			}
			ms := g.r.Members().ToSlice()
			sort.Strings(ms)
			t.Op(op[1:], c21AddrsTok(ms))
		case op[1] == "contains" && len(op) == 4:
			g := rings[op[2]]
			a, err := verifh.Unstr(op[3])
			if g == nil || err != nil {
				return
			}
			t.Op(op[1:], verifh.Bool(g.r.Contains(a)))
		case op[1] == "loc" && len(op) == 4:
			g := rings[op[2]]
			if g == nil {
				return
			}
			d, err := c21Digest(op[3])
			if err != nil {
				return
			}
			key := op[2] + "/" + op[3]
			if lastTbl != key {
				row := []string{d.ShardID()} // what the ring will hash: Digest.ShardID(), not the requested prefix
				if g.r.hash != nil {
					for _, nd := range g.r.hash.Nodes {
						row = append(row, verifh.Str(nd.Label)+"="+c21ScoreTok(nd.Score(d.ShardID())))
					}
				}
				t.Rec("tbl", row, nil)
				lastTbl = key
			}
			var locs []string
			if p := verifh.Protect(func() { locs = g.r.Locations(d) }); p != "" {
				t.Op(op[1:], "panic")
				if len(g.list.cur) > 0 {
					t.PropFail("panic", verifh.Str(p))
				}
				return
			}
			t.Op(op[1:], "ok", c21AddrsTok(locs))
		}
	}
	for _, op := range c.Ops {
		if p := verifh.Protect(func() { do(op) }); p != "" {
			t.PropFail("panic", verifh.Str(p))
		}
	}
	t.End()
}

// c21Concurrent: `op conc <rid> <goroutines> <calls>`: many goroutines call Locations on ONE ring (the ring
// takes only a read lock there) while another goroutine keeps refreshing it with unchanged membership, as
// Monitor does; every answer must equal the answer of a second ring with the same members and health that
// is only used sequentially.
func c21Concurrent(t *verifh.T, g *c21Ring, op []string) {
	n, _ := strconv.Atoi(op[3])
	calls, _ := strconv.Atoi(op[4])
	if n < 1 || n > 64 || calls < 1 || calls > 1000000 {
		return
	}
	ref := New(Config{MaxReplica: g.r.config.MaxReplica}, &c21List{append([]string(nil), g.list.cur...)},
		&c21Filter{healthy: append([]string(nil), g.filter.healthy...), raw: g.filter.raw}, tally.NoopScope)
	var ds []core.Digest
	var want []string
	for i := 0; i < 64; i++ {
		d, err := c21Digest(fmt.Sprintf("%04x", (i*1021+7)%65536))
		if err != nil {
			panic(err)
		}
		ds = append(ds, d)
		want = append(want, c21AddrsTok(ref.Locations(d)))
	}
	var mu sync.Mutex
	first := ""
	stop := make(chan struct{})
	var rw sync.WaitGroup
	rw.Add(1)
	go func() {
		defer rw.Done()
		for {
			select {
			case <-stop:
				return
			default:
				g.r.Refresh()
			}
		}
	}()
	var wg sync.WaitGroup
	for w := 0; w < n; w++ {
		wg.Add(1)
		go func(w int) {
			defer wg.Done()
			for i := 0; i < calls; i++ {
				j := (i + w*7) % len(ds)
				var got string
				if p := verifh.Protect(func() { got = c21AddrsTok(g.r.Locations(ds[j])) }); p != "" {
					got = "panic:" + verifh.Str(p)
				}
				if got != want[j] {
					mu.Lock()
					if first == "" {
						first = "shard=" + ds[j].ShardID() + " concurrent=" + got + " sequential=" + want[j]
					}
					mu.Unlock()
					return
				}
			}
		}(w)
	}
	wg.Wait()
	close(stop)
	rw.Wait()
	t.Op(op[1:], "ok")
	if first != "" {
		t.PropFail("wrong-replica-set-concurrent", strings.Fields(first)...)
	}
}

func c21Op(xs ...string) []string { return append([]string{"op"}, xs...) }

func c21Hosts(r *verifh.Rand, k int) []string {
	seen := map[string]bool{}
	var hs []string
	for len(hs) < k {
		h := fmt.Sprintf("10.0.%d.%d:%d", r.Intn(4), r.Intn(250), 15000+r.Intn(3))
		if r.Chance(1, 4) {
			h = fmt.Sprintf("origin%02d-dc%d:80", r.Intn(60), r.Intn(3))
		}
		if !seen[h] {
			seen[h] = true
			hs = append(hs, h)
		}
	}
	return hs
}

func c21Shuffle(r *verifh.Rand, xs []string) []string {
	out := make([]string, len(xs))
	for i, j := range r.Perm(len(xs)) {
		out[i] = xs[j]
	}
	return out
}

func c21Subset(xs []string, mask int) []string {
	var out []string
	for i, x := range xs {
		if mask>>uint(i)&1 == 1 {
			out = append(out, x)
		}
	}
	return out
}

type c21RingSpec struct {
	maxReplica int
	healthy    []string
}

// c21SweepCase: the same membership on several rings (per ring: MaxReplica, health subset; the first
// spec is instantiated on three rings = three discovery orders), every shard of the chunk on every ring.
func c21SweepCase(r *verifh.Rand, members []string, specs []c21RingSpec, shards []string) verifh.Case {
	var c verifh.Case
	var rids []string
	add := func(s c21RingSpec) {
		rid := fmt.Sprintf("r%d", len(rids))
		rids = append(rids, rid)
		c.Ops = append(c.Ops, c21Op("new", rid, strconv.Itoa(s.maxReplica),
			c21AddrsTok(c21Shuffle(r, members)), c21AddrsTok(c21Shuffle(r, s.healthy))))
	}
	for i, s := range specs {
		add(s)
		if i == 0 {
			add(s)
			// third discovery order through a Refresh sequence: grow, then shrink back
			rid := fmt.Sprintf("r%d", len(rids))
			rids = append(rids, rid)
			c.Ops = append(c.Ops,
				c21Op("new", rid, strconv.Itoa(s.maxReplica), c21AddrsTok(members[:1]), c21AddrsTok(members[:1])),
				c21Op("refresh", rid, c21AddrsTok(append(c21Shuffle(r, members), "extra:1")), c21AddrsTok(s.healthy)),
				c21Op("refresh", rid, c21AddrsTok(c21Shuffle(r, members)), c21AddrsTok(s.healthy)),
				c21Op("refresh", rid, c21AddrsTok(c21Shuffle(r, members)), c21AddrsTok(c21Shuffle(r, s.healthy))),
				c21Op("members", rid))
		}
	}
	for _, sh := range shards {
		for _, rid := range rids {
			c.Ops = append(c.Ops, c21Op("loc", rid, sh))
		}
	}
	return c
}

// TestVerif_C21Concurrent: concurrent Locations callers on one ring (built with -race in the thorough tier).
func TestVerif_C21Concurrent(t *testing.T) {
	log.SetGlobalLogger(zap.NewNop().Sugar())
	tr := verifh.Open("ring")
	defer tr.Close()
	cases, replayOnly := verifh.InputCases("ring")
	for _, c := range cases {
		for _, o := range c.Ops {
			if len(o) > 1 && o[1] == "conc" {
				c21Exec(tr, c)
				break
			}
		}
	}
	if replayOnly {
		return
	}
	r := verifh.NewRand(verifh.Seed(), "c21conc")
	for i := 0; i < verifh.Scale(6, 40); i++ {
		ms := c21Hosts(r, 2+r.Intn(7))
		hs := c21Subset(ms, 1+r.Intn(1<<uint(len(ms))-1))
		c := verifh.Case{Ops: [][]string{
			c21Op("new", "r0", strconv.Itoa(1+r.Intn(4)), c21AddrsTok(ms), c21AddrsTok(hs)),
			c21Op("conc", "r0", "8", strconv.Itoa(verifh.Scale(1500, 6000))),
			c21Op("members", "r0"), c21Op("loc", "r0", "00ff")}}
		c21Exec(tr, c)
		tr.Count("concurrent_cases", 1)
	}
}

func TestVerif_C21(t *testing.T) {
	log.SetGlobalLogger(zap.NewNop().Sugar())
	tr := verifh.Open("ring")
	defer tr.Close()
	cases, replayOnly := verifh.InputCases("ring")
	for _, c := range cases {
		c21Exec(tr, c)
		tr.Count("corpus_or_replay_cases", 1)
	}
	if replayOnly {
		return
	}
	r := verifh.NewRand(verifh.Seed(), "c21")

	sweep := func(members []string, specs []c21RingSpec, every int) {
		var chunk []string
		flush := func() {
			if len(chunk) > 0 {
				c21Exec(tr, c21SweepCase(r, members, specs, chunk))
				tr.Count("sweep_cases", 1)
				tr.Count("sweep_shards", len(chunk))
				chunk = nil
			}
		}
		for k := 0; k < 65536; k += every {
			chunk = append(chunk, fmt.Sprintf("%04x", k))
			if len(chunk) == 8 {
				flush()
			}
		}
		flush()
	}
	randSpecs := func(members []string, n int) []c21RingSpec {
		var specs []c21RingSpec
		for i := 0; i < n; i++ {
			specs = append(specs, c21RingSpec{1 + r.Intn(4), c21Subset(members, r.Intn(1<<uint(len(members))))})
		}
		return specs
	}

	// (a) every shard prefix
	if verifh.Thorough() {
		// all 65536 shards for memberships of 1..7 hosts, a few (MaxReplica, health) configurations each
		for k := 1; k <= 7; k++ {
			ms := c21Hosts(r, k)
			sweep(ms, randSpecs(ms, 4), 1)
		}
		// every health subset x MaxReplica 1..4 for <= 5 hosts, every 4th shard
		for k := 1; k <= 5; k++ {
			ms := c21Hosts(r, k)
			var specs []c21RingSpec
			for mask := 0; mask < 1<<uint(k); mask++ {
				for mr := 1; mr <= 4; mr++ {
					specs = append(specs, c21RingSpec{mr, c21Subset(ms, mask)})
				}
			}
			sweep(ms, specs, 4)
		}
	} else {
		ms := c21Hosts(r, 5)
		sweep(ms, []c21RingSpec{{2, c21Shuffle(r, ms)[:2]}, {0, ms}}, 1) // all shards; 2 of 5 healthy with MaxReplica 2, all healthy with the default (0 -> 3)
		for k := 1; k <= 4; k++ { // every health subset, MaxReplica 1..3, sampled shards
			ms := c21Hosts(r, k)
			var specs []c21RingSpec
			for mask := 0; mask < 1<<uint(k); mask++ {
				for mr := 1; mr <= 3; mr++ {
					specs = append(specs, c21RingSpec{mr, c21Subset(ms, mask)})
				}
			}
			sweep(ms, specs, 1024)
		}
		ms7 := c21Hosts(r, 7)
		sweep(ms7, randSpecs(ms7, 3), 64)
	}

	// (a'') Locations calls that overlap the health-check round of a Refresh: membership changes that replace every
	// healthy host, add hosts, remove hosts, or only change health
	for i := 0; i < verifh.Scale(40, 1500); i++ {
		pool := c21Hosts(r, 4+r.Intn(6))
		m1 := c21Subset(pool, 1+r.Intn(1<<uint(len(pool))-1))
		h1 := c21Subset(m1, 1+r.Intn(1<<uint(len(m1))-1))
		var c verifh.Case
		c.Ops = append(c.Ops, c21Op("new", "r0", strconv.Itoa(1+r.Intn(3)), c21AddrsTok(m1), c21AddrsTok(h1)))
		for j := 0; j < 1+r.Intn(3); j++ {
			var m2, h2 []string
			switch (i + j) % 4 {
			case 0: // every healthy host is replaced by a new one
				for _, x := range pool {
					keep := true
					for _, y := range h1 {
						keep = keep && x != y
					}
					if keep {
						m2 = append(m2, x)
					}
				}
				m2 = append(m2, fmt.Sprintf("fresh%d-%d:80", i, j))
				h2 = m2[len(m2)-1:]
			case 1: // hosts are added
				m2 = append(append([]string{}, m1...), fmt.Sprintf("fresh%d-%d:80", i, j))
				h2 = append([]string{}, h1...)
			case 2: // hosts are removed
				m2 = m1[:1+len(m1)/2]
				h2 = m2[:1]
			default: // only health changes
				m2 = m1
				h2 = c21Subset(m1, r.Intn(1<<uint(len(m1))))
			}
			c.Ops = append(c.Ops, c21Op("refreshobs", "r0", c21AddrsTok(c21Shuffle(r, m2)), c21AddrsTok(h2)), c21Op("loc", "r0", "00ff"))
			m1, h1 = m2, h2
			if len(h1) == 0 {
				h1 = m1[:1]
			}
		}
		c21Exec(tr, c)
		tr.Count("refresh_overlap_cases", 1)
	}
	// (b) bounded-exhaustive Refresh histories over three hosts: every (members, healthy ⊆ members) pair
	hosts := []string{"a:1", "b:1", "c:1"}
	type mh struct{ m, h []string }
	var states []mh
	for mm := 0; mm < 8; mm++ {
		m := c21Subset(hosts, mm)
		for hm := 0; hm < 1<<uint(len(m)); hm++ {
			states = append(states, mh{m, c21Subset(m, hm)})
		}
	}
	depth := verifh.Scale(2, 3)
	var rec func(prefix []mh, d int)
	rec = func(prefix []mh, d int) {
		if len(prefix) > 0 {
			var c verifh.Case
			for i, s := range prefix {
				if i == 0 {
					c.Ops = append(c.Ops, c21Op("new", "r0", "2", c21AddrsTok(s.m), c21AddrsTok(s.h)))
				} else {
					c.Ops = append(c.Ops, c21Op("refresh", "r0", c21AddrsTok(s.m), c21AddrsTok(s.h)))
				}
				c.Ops = append(c.Ops, c21Op("loc", "r0", "00ff"), c21Op("loc", "r0", "a1b2"))
			}
			c.Ops = append(c.Ops, c21Op("members", "r0"), c21Op("contains", "r0", "a:1"))
			c21Exec(tr, c)
			tr.Count("exhaustive_cases", 1)
		}
		if d == 0 {
			return
		}
		for _, s := range states {
			rec(append(prefix[:len(prefix):len(prefix)], s), d-1)
		}
	}
	rec(nil, depth)

	// (c) random Refresh histories on 1..3 rings, 1..10 hosts, random shards, healthy ⊆ members
	for i := 0; i < verifh.Scale(1500, 60000); i++ {
		pool := c21Hosts(r, 1+r.Intn(10))
		var c verifh.Case
		nr := 1 + r.Intn(3)
		pick := func() (string, string) {
			m := c21Subset(pool, 1+r.Intn(1<<uint(len(pool))-1))
			h := c21Subset(m, r.Intn(1<<uint(len(m))))
			return c21AddrsTok(c21Shuffle(r, m)), c21AddrsTok(c21Shuffle(r, h))
		}
		for j := 0; j < nr; j++ {
			m, h := pick()
			c.Ops = append(c.Ops, c21Op("new", fmt.Sprintf("r%d", j), strconv.Itoa(r.Intn(5)), m, h))
		}
		for j := 0; j < 2+r.Intn(20); j++ {
			rid := fmt.Sprintf("r%d", r.Intn(nr))
			switch x := r.Intn(10); {
			case x < 3:
				m, h := pick()
				c.Ops = append(c.Ops, c21Op("refresh", rid, m, h))
				tr.Count("random_refresh", 1)
			case x < 4:
				c.Ops = append(c.Ops, c21Op("members", rid), c21Op("contains", rid, verifh.Str(pool[r.Intn(len(pool))])))
			default:
				c.Ops = append(c.Ops, c21Op("loc", rid, fmt.Sprintf("%04x", r.Intn(65536))))
				tr.Count("random_loc", 1)
			}
		}
		if i < 2 {
			tr.Sample(fmt.Sprint(c.Ops))
		}
		c21Exec(tr, c)
		tr.Count("random_cases", 1)
	}

	// (d) outside the contract: empty host list, healthy hosts that are not members, negative MaxReplica
	for i := 0; i < verifh.Scale(200, 5000); i++ {
		pool := []string{"a:1", "b:1", "c:1", "d:1", "zz,=* :9"}
		var c verifh.Case
		m := c21Subset(pool, r.Intn(32))
		h := c21Subset(pool, r.Intn(32))
		c.Ops = append(c.Ops, c21Op("new", "r0", strconv.Itoa(r.Intn(6)-2), c21AddrsTok(m), c21AddrsTok(h)))
		for j := 0; j < 1+r.Intn(6); j++ {
			if r.Chance(1, 3) {
				c.Ops = append(c.Ops, c21Op("refresh", "r0", c21AddrsTok(c21Subset(pool, r.Intn(32))), c21AddrsTok(c21Subset(pool, r.Intn(32)))))
			} else {
				c.Ops = append(c.Ops, c21Op("loc", "r0", fmt.Sprintf("%04x", r.Intn(65536))))
			}
		}
		c.Ops = append(c.Ops, c21Op("members", "r0"))
		c.Cfg = []string{"rawfilter"}
		c21Exec(tr, c)
		tr.Count("outside_contract_cases", 1)
	}
}
