//go:build verif

package metadata_test

// C39 harness, machine "md": LastAccessTime and Persist metadata (public API).
// Record formats: /verif/lean/Driver/C39.lean.

import (
	"math"
	"strconv"
	"testing"
	"time"

	"github.com/uber/kraken/lib/store/metadata"
	"github.com/uber/kraken/utils/verifh"
)

func c39MdOp(t *verifh.T, op []string) {
	if len(op) != 2 {
		return
	}
	switch op[0] {
	case "lat":
		x, err := strconv.ParseInt(op[1], 10, 64)
		if err != nil {
			return
		}
		lat := metadata.NewLastAccessTime(time.Unix(x, 0))
		var b []byte
		var serr error
		if p := verifh.Protect(func() { b, serr = lat.Serialize() }); p != "" {
			t.One(op, "panic")
			return
		}
		if serr != nil {
			t.One(op, "err")
			return
		}
		var back metadata.LastAccessTime
		if err := back.Deserialize(b); err != nil {
			t.One(op, "ok", verifh.Hex(b), "back=err")
			return
		}
		t.One(op, "ok", verifh.Hex(b), "back="+strconv.FormatInt(back.Time.Unix(), 10))
	case "latde":
		b, err := verifh.Unhex(op[1])
		if err != nil {
			return
		}
		var lat metadata.LastAccessTime
		if err := lat.Deserialize(b); err != nil {
			t.One(op, "err")
			return
		}
		t.One(op, "ok", strconv.FormatInt(lat.Time.Unix(), 10))
	case "persist":
		v := op[1] == "1"
		if op[1] != "0" && op[1] != "1" {
			return
		}
		b, err := metadata.NewPersist(v).Serialize()
		if err != nil {
			t.One(op, "err")
			return
		}
		var back metadata.Persist
		if err := back.Deserialize(b); err != nil {
			t.One(op, verifh.Str(string(b)), "back=err")
			return
		}
		t.One(op, verifh.Str(string(b)), "back="+verifh.Bool(back.Value))
	case "persistde":
		b, err := verifh.Unhex(op[1])
		if err != nil {
			return
		}
		var p metadata.Persist
		if err := p.Deserialize(b); err != nil {
			t.One(op, "err")
			return
		}
		t.One(op, "ok", verifh.Bool(p.Value))
	}
}

func c39MdExec(t *verifh.T, c verifh.Case) {
	for _, op := range c.Ops {
		if len(op) < 2 || op[0] != "one" {
			continue
		}
		o := op[1:]
		if p := verifh.Protect(func() { c39MdOp(t, o) }); p != "" {
			t.One(o, "panic")
			t.PropFail("panic", verifh.Str(p))
		}
	}
}

func TestVerif_C39_Md(t *testing.T) {
	tr := verifh.Open("md")
	defer tr.Close()
	cases, replayOnly := verifh.InputCases("md")
	for _, c := range cases {
		c39MdExec(tr, c)
		tr.Count("corpus_or_replay_cases", 1)
	}
	if replayOnly {
		return
	}
	r := verifh.NewRand(verifh.Seed(), "c39md")
	run := func(toks ...string) {
		c39MdExec(tr, verifh.Case{Ops: [][]string{append([]string{"one"}, toks...)}})
	}
	// (a) access times: every power of two and its neighbours, both signs, and the int64 limits
	seen := map[int64]bool{}
	lat := func(x int64) {
		if !seen[x] {
			seen[x] = true
			run("lat", strconv.FormatInt(x, 10))
			tr.Count("lat_boundary", 1)
		}
	}
	for k := uint(0); k < 63; k++ {
		for _, d := range []int64{-1, 0, 1} {
			lat(int64(1)<<k + d)
			lat(-(int64(1) << k) + d)
		}
	}
	for _, x := range []int64{0, math.MaxInt64, math.MaxInt64 - 1, math.MinInt64, math.MinInt64 + 1, time.Now().Unix()} {
		lat(x)
	}
	for i := 0; i < verifh.Scale(1500, 200000); i++ {
		x := int64(r.Uint64()) >> uint(r.Intn(64))
		run("lat", strconv.FormatInt(x, 10))
		tr.Count("lat_random", 1)
	}
	// (b) arbitrary byte strings into Deserialize: all 1-byte inputs, a 2-byte grid, random ones
	for b := 0; b < 256; b++ {
		run("latde", verifh.Hex([]byte{byte(b)}))
	}
	grid := []byte{0, 1, 2, 0x7f, 0x80, 0x81, 0xff}
	for _, a := range grid {
		for _, b := range grid {
			run("latde", verifh.Hex([]byte{a, b}))
			run("latde", verifh.Hex([]byte{0xff, 0xff, 0xff, 0xff, 0xff, 0xff, 0xff, 0xff, a, b}))
			run("latde", verifh.Hex([]byte{0x80, 0x80, 0x80, 0x80, 0x80, 0x80, 0x80, 0x80, 0x80, a, b}))
		}
	}
	run("latde", "x")
	for i := 0; i < verifh.Scale(1500, 200000); i++ {
		b := r.Bytes(r.Intn(13))
		if r.Chance(1, 2) {
			for j := range b {
				if j+1 < len(b) {
					b[j] |= 0x80
				}
			}
		}
		run("latde", verifh.Hex(b))
		tr.Count("latde_random", 1)
	}
	// (c) persist
	run("persist", "0")
	run("persist", "1")
	alpha := []byte("01tTfFrueRUEalsALS ")
	var rec func(prefix []byte, d int)
	rec = func(prefix []byte, d int) {
		run("persistde", verifh.Hex(prefix))
		tr.Count("persistde_exhaustive", 1)
		if d == 0 {
			return
		}
		for _, a := range alpha {
			rec(append(prefix[:len(prefix):len(prefix)], a), d-1)
		}
	}
	rec(nil, verifh.Scale(2, 3))
	for _, s := range []string{"true", "false", "TRUE", "FALSE", "True", "False", "tRUE", "truE", "true\n", " true", "yes", "no", "on", "2", "-1", "00", "t1", "falsee", "\x00"} {
		run("persistde", verifh.Hex([]byte(s)))
	}
	// every byte value at every position of every accepted spelling
	for _, sp := range []string{"true", "false", "TRUE", "FALSE", "True", "False", "1", "0", "t", "f", "T", "F"} {
		for i := 0; i < len(sp); i++ {
			for b := 0; b < 256; b++ {
				m := []byte(sp)
				m[i] = byte(b)
				run("persistde", verifh.Hex(m))
				tr.Count("persistde_byte_subst", 1)
			}
		}
	}
	for i := 0; i < verifh.Scale(300, 20000); i++ {
		s := []byte(r.Pick("true", "false", "TRUE", "FALSE", "True", "False", "1", "0", "t", "f", "T", "F"))
		if r.Chance(2, 3) && len(s) > 0 {
			switch r.Intn(3) {
			case 0:
				s[r.Intn(len(s))] ^= 0x20
			case 1:
				s = append(s, alpha[r.Intn(len(alpha))])
			case 2:
				s = s[:len(s)-1]
			}
		}
		run("persistde", verifh.Hex(s))
		tr.Count("persistde_random", 1)
	}
}
