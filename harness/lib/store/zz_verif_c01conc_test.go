//go:build verif

package store

import (
	"bytes"
	"crypto/rand"
	"fmt"
	"io"
	"os"
	"strconv"
	"sync"
	"sync/atomic"
	"testing"
	"time"

	"github.com/andres-erbsen/clock"
	"github.com/uber-go/tally"
	"github.com/uber/kraken/lib/store/metadata"
	"github.com/uber/kraken/utils/verifh"
)

// C01 / C13, concurrent observers: readers run while a write is in progress.
//
//	concwrite  a write none of whose content hashes to the claimed name (memory path, disk path, upload
//	           commit, direct cache write) while reader goroutines spin on Stat / Reader / Metadata of that
//	           name: nothing may ever be visible under it (the payload is large enough — 1 MiB — for the
//	           digest computation to take milliseconds)
//	concok     a matching write with readers that hash whatever they get: complete and correct, or nothing
//	concdup    two goroutines refresh the same blob at once: both succeed, accounting balanced afterwards
//
// Uses helpers of zz_verif_c01_test.go (injected together).

func c01cStore(mem bool, max uint64) (*CAStore, func()) {
	up, err := os.MkdirTemp("", "verifc01cup")
	if err != nil {
		panic(err)
	}
	ca, err := os.MkdirTemp("", "verifc01cca")
	if err != nil {
		panic(err)
	}
	s, err := newCAStore(CAStoreConfig{
		UploadDir: up, CacheDir: ca,
		UploadCleanup: CleanupConfig{Disabled: true}, CacheCleanup: CleanupConfig{Disabled: true},
		MemoryCache: MemoryCacheConfig{Enabled: mem, MaxSize: max, DrainWorkers: -1, TTLInterval: time.Duration(1 << 62)},
	}, tally.NoopScope, clock.NewMock())
	if err != nil {
		panic(err)
	}
	return s, func() { s.Close(); os.RemoveAll(up); os.RemoveAll(ca) }
}

func c01cPayload(n int) []byte {
	b := make([]byte, n)
	rand.Read(b)
	return b
}

// readers spin on the three read APIs of name until stop is closed; visible counts successful reads,
// bad counts reads whose bytes do not hash to name (or whose size / metainfo length disagree).
func c01cReaders(s *CAStore, name string, k int, stop chan struct{}, hash bool) (visible, bad *int64, wg *sync.WaitGroup) {
	visible, bad, wg = new(int64), new(int64), &sync.WaitGroup{}
	for i := 0; i < k; i++ {
		wg.Add(1)
		go func(i int) {
			defer wg.Done()
			for {
				select {
				case <-stop:
					return
				default:
				}
				switch i % 3 {
				case 0:
					if fi, err := s.GetCacheFileStat(name); err == nil {
						atomic.AddInt64(visible, 1)
						_ = fi
					}
				case 1:
					if f, err := s.GetCacheFileReader(name); err == nil {
						atomic.AddInt64(visible, 1)
						if hash {
							b, rerr := io.ReadAll(f)
							if rerr != nil || c01Sha(b) != name {
								atomic.AddInt64(bad, 1)
							}
						}
						f.Close()
					}
				default:
					var tm metadata.TorrentMeta
					if err := s.GetCacheFileMetadata(name, &tm); err == nil {
						atomic.AddInt64(visible, 1)
						if tm.MetaInfo == nil || tm.MetaInfo.Digest().Hex() != name {
							atomic.AddInt64(bad, 1)
						}
					}
				}
			}
		}(i)
	}
	return
}

func c01cOne(t *verifh.T, toks []string) {
	kind := toks[0]
	path := c01KV(toks, "path")
	size, _ := strconv.Atoi(c01KV(toks, "size"))
	if size <= 0 || size > 8<<20 {
		return
	}
	switch kind {
	case "concwrite":
		s, done := c01cStore(path == "mem", uint64(4*size))
		defer done()
		content := c01cPayload(size)
		name := c01Sha(c01cPayload(32)) // a digest no content of this case has
		stop := make(chan struct{})
		visible, _, wg := c01cReaders(s, name, 3, stop, false)
		var err error
		switch path {
		case "mem", "disk":
			err = s.WriteBlobToCacheWithMetaInfo(name, uint64(size), func(w FileReadWriter) error {
				_, werr := io.Copy(w, bytes.NewReader(content))
				return werr
			}, 4096)
		case "createcache":
			err = s.CreateCacheFile(name, bytes.NewReader(content))
		case "commit":
			if err = s.CreateUploadFile("u0", 0); err == nil {
				var w FileReadWriter
				if w, err = s.GetUploadFileReadWriter("u0"); err == nil {
					_, err = io.Copy(w, bytes.NewReader(content))
					w.Close()
				}
				if err == nil {
					err = s.MoveUploadFileToCache("u0", name)
				}
			}
		default:
			close(stop)
			wg.Wait()
			return
		}
		close(stop)
		wg.Wait()
		res := "fail"
		if err == nil {
			res = "ok"
		}
		t.One(append([]string{kind}, toks[1:]...), res, "seen="+strconv.FormatInt(atomic.LoadInt64(visible), 10))
	case "concok":
		s, done := c01cStore(path == "mem", uint64(4*size))
		defer done()
		content := c01cPayload(size)
		name := c01Sha(content)
		stop := make(chan struct{})
		_, bad, wg := c01cReaders(s, name, 3, stop, true)
		err := s.WriteBlobToCacheWithMetaInfo(name, uint64(size), func(w FileReadWriter) error {
			_, werr := io.Copy(w, bytes.NewReader(content))
			return werr
		}, 4096)
		time.Sleep(2 * time.Millisecond) // let the readers see the final state as well
		close(stop)
		wg.Wait()
		res := "fail"
		if err == nil {
			res = "ok"
		}
		t.One(append([]string{kind}, toks[1:]...), res, "bad="+strconv.FormatInt(atomic.LoadInt64(bad), 10))
	case "concdup":
		max, _ := strconv.ParseUint(c01KV(toks, "max"), 10, 64)
		s, done := c01cStore(true, max)
		defer done()
		content := c01cPayload(size)
		name := c01Sha(content)
		var wg sync.WaitGroup
		errs := make([]error, 2)
		for i := 0; i < 2; i++ {
			wg.Add(1)
			go func(i int) {
				defer wg.Done()
				errs[i] = s.WriteBlobToCacheWithMetaInfo(name, uint64(size), func(w FileReadWriter) error {
					_, werr := io.Copy(w, bytes.NewReader(content))
					return werr
				}, 4096)
			}(i)
		}
		wg.Wait()
		res := "ok"
		if errs[0] != nil || errs[1] != nil {
			res = "fail"
		}
		var sum int64
		cnt := 0
		if s.CheckInMemCache(name) {
			cnt = 1
			if fi, err := s.GetCacheFileStat(name); err == nil {
				sum = fi.Size()
			}
		}
		readable := "0"
		if f, err := s.GetCacheFileReader(name); err == nil {
			if b, rerr := io.ReadAll(f); rerr == nil && c01Sha(b) == name {
				readable = "1"
			}
			f.Close()
		}
		t.One(append([]string{kind}, toks[1:]...), res, "readable="+readable,
			fmt.Sprintf("acct=%d/%d/%d/%d", s.memCache.TotalBytes(), s.memCache.NumEntries(), sum, cnt))
	}
}

func TestVerif_C01Conc(t *testing.T) {
	tr := verifh.Open("castoreconc")
	defer tr.Close()
	cases, replayOnly := verifh.InputCases("castoreconc")
	for _, c := range cases {
		for _, op := range c.Ops {
			if len(op) >= 2 && op[0] == "one" {
				op := op
				if p := verifh.Protect(func() { c01cOne(tr, op[1:]) }); p != "" {
					tr.PropFail("panic", verifh.Str(p))
				}
				tr.Count("corpus_or_replay_cases", 1)
			}
		}
	}
	if replayOnly {
		return
	}
	reps := verifh.Scale(2, 25)
	for i := 0; i < reps; i++ {
		for _, path := range []string{"mem", "disk", "commit", "createcache"} {
			c01cOne(tr, []string{"concwrite", "path=" + path, "size=" + strconv.Itoa(1<<20)})
			tr.Count("concwrite_cases", 1)
		}
		for _, path := range []string{"mem", "disk"} {
			c01cOne(tr, []string{"concok", "path=" + path, "size=" + strconv.Itoa(256<<10)})
			tr.Count("concok_cases", 1)
		}
		for _, max := range []string{"1000000", "70000", "0"} {
			c01cOne(tr, []string{"concdup", "size=65536", "max=" + max})
			tr.Count("concdup_cases", 1)
		}
	}
}
