//go:build verif

package memory

import (
	"errors"
	"fmt"
	"io"
	"math"
	"os"
	"regexp"
	"sort"
	"strconv"
	"strings"
	"sync"
	"sync/atomic"
	"testing"

	"github.com/uber-go/tally"
	storelib "github.com/uber/kraken/lib/store"
	"github.com/uber/kraken/lib/store/metadata"
	"github.com/uber/kraken/utils/verifh"
)

// C08 harness: drives memory.Store and the memory.File handles it returns; handles are kept across
// later operations (evictions, deletions, re-creations). Interpreter of op records; in-package only
// for the eviction queue and the size field read by the probes.

type c08Md struct {
	suffix  string
	movable bool
	val     []byte
}

func (m *c08Md) GetSuffix() string          { return m.suffix }
func (m *c08Md) Movable() bool              { return m.movable }
func (m *c08Md) Serialize() ([]byte, error) { return m.val, nil }
func (m *c08Md) Deserialize(b []byte) error { m.val = append([]byte{}, b...); return nil }

type c08MdFactory struct{ movable bool }

func (f c08MdFactory) Create(suffix string) metadata.Metadata {
	return &c08Md{suffix: suffix, movable: f.movable}
}

func init() {
	metadata.Register(regexp.MustCompile(`^_vm[0-9]+$`), c08MdFactory{true})
	metadata.Register(regexp.MustCompile(`^_vi[0-9]+$`), c08MdFactory{false})
}

func c08MdOf(tok string) (*c08Md, bool) {
	if len(tok) < 2 {
		return nil, false
	}
	if _, err := strconv.Atoi(tok[1:]); err != nil {
		return nil, false
	}
	switch tok[0] {
	case 'm':
		return &c08Md{suffix: "_vm" + tok[1:], movable: true}, true
	case 'i':
		return &c08Md{suffix: "_vi" + tok[1:], movable: false}, true
	}
	return nil, false
}

func c08SfxTok(suffix string) string {
	switch {
	case strings.HasPrefix(suffix, "_vm"):
		return "m" + suffix[3:]
	case strings.HasPrefix(suffix, "_vi"):
		return "i" + suffix[3:]
	}
	return "?" + verifh.Str(suffix)
}

func c08SfxLess(a, b string) bool {
	id := func(t string) int {
		n, _ := strconv.Atoi(t[1:])
		if t[0] == 'i' {
			return 2*n + 1
		}
		return 2 * n
	}
	return id(a) < id(b)
}

func c08KeyName(tok string) (string, bool) {
	if len(tok) < 2 || tok[0] != 'k' {
		return "", false
	}
	i, err := strconv.Atoi(tok[1:])
	if err != nil || i < 0 || i > 9999 {
		return "", false
	}
	return fmt.Sprintf("key-%d", i), true
}

func c08KeyTok(name string) string {
	if v, ok := strings.CutPrefix(name, "key-"); ok {
		if i, err := strconv.Atoi(v); err == nil {
			return fmt.Sprintf("k%d", i)
		}
	}
	return "k?" + verifh.Str(name)
}

func c08Keys(names []string) string {
	var idx []int
	var odd []string
	for _, n := range names {
		t := c08KeyTok(n)
		if i, err := strconv.Atoi(t[1:]); err == nil {
			idx = append(idx, i)
		} else {
			odd = append(odd, t)
		}
	}
	sort.Ints(idx)
	var toks []string
	for _, i := range idx {
		toks = append(toks, fmt.Sprintf("k%d", i))
	}
	sort.Strings(odd)
	return verifh.List(append(toks, odd...))
}

func c08Scope(s *Store, tok string) (*Store, bool) {
	switch tok {
	case "any":
		return s.Scoped(storelib.BlobScopeAny), true
	case "c":
		return s.ScopeComplete(), true
	case "i":
		return s.ScopeIncomplete(), true
	}
	return nil, false
}

func c08Err(err error) string {
	switch {
	case err == nil:
		return "ok"
	case errors.Is(err, os.ErrNotExist):
		return "notexist"
	case errors.Is(err, os.ErrExist):
		return "exist"
	case errors.Is(err, storelib.ErrOutOfScope):
		return "oos"
	case errors.Is(err, ErrNoSpace):
		return "nospace"
	case errors.Is(err, ErrEvicted):
		return "evicted"
	case err == io.EOF:
		return "eof"
	case err.Error() == "negative offset" || err.Error() == "invalid whence" || err.Error() == "invalid seek location" ||
		err.Error() == "offset too large":
		return "invalid"
	}
	return "other:" + verifh.Str(err.Error())
}

func c08Cap(cfg []string) uint64 {
	capacity := uint64(10)
	for _, t := range cfg {
		if v, ok := strings.CutPrefix(t, "cap="); ok {
			capacity, _ = strconv.ParseUint(v, 10, 64)
		}
	}
	if capacity == 0 {
		capacity = 10
	}
	return capacity
}

func c08NewStore(capacity uint64) *Store {
	s, err := NewStore(&Config{CapacityBytes: capacity, GOMEMLIMITBytes: math.MaxInt64}, tally.NoopScope)
	if err != nil {
		panic(err)
	}
	return s
}

func c08Queue(s *Store) []string {
	s.impl.mu.RLock()
	defer s.impl.mu.RUnlock()
	var out []string
	for e := s.impl.evictQueue.Front(); e != nil; e = e.Next() {
		out = append(out, c08KeyTok(e.Value.(string)))
	}
	return out
}

// c08Exec runs one case on a fresh store.
func c08Exec(t *verifh.T, c verifh.Case) {
	capacity := c08Cap(c.Cfg)
	s := c08NewStore(capacity)
	t.Cfg(fmt.Sprintf("cap=%d", capacity))
	var handles []*File

	probe := func() {
		t.Rec("probe", nil, []string{
			"keys=" + c08Keys(s.List()),
			"ckeys=" + c08Keys(s.ScopeComplete().List()),
			"q=" + verifh.List(c08Queue(s)),
			fmt.Sprintf("size=%d", s.impl.size),
		})
	}
	handle := func(tok string) (*File, bool) {
		if len(tok) < 2 || tok[0] != 'h' {
			return nil, false
		}
		i, err := strconv.Atoi(tok[1:])
		if err != nil || i < 0 || i >= len(handles) {
			return nil, false
		}
		return handles[i], true
	}

	do := func(op []string) bool {
		if len(op) < 2 || op[0] != "op" {
			return false
		}
		a := op[1:]
		switch {
		case a[0] == "create" && len(a) == 4:
			key, ok1 := c08KeyName(a[1])
			size, err := strconv.ParseUint(a[2], 10, 64)
			data, err2 := verifh.Unhex(a[3])
			if !ok1 || err != nil || err2 != nil {
				return false
			}
			f, err := s.Create(key, size)
			if err == nil {
				if len(data) > 0 {
					if _, werr := f.Write(data); werr != nil {
						t.Op(a, "other:write:"+verifh.Str(werr.Error()))
						return true
					}
				}
				handles = append(handles, f)
			}
			t.Op(a, c08Err(err))
		case a[0] == "open" && len(a) == 3:
			key, ok1 := c08KeyName(a[1])
			sc, ok2 := c08Scope(s, a[2])
			if !ok1 || !ok2 {
				return false
			}
			f, err := sc.Open(key)
			if err != nil {
				t.Op(a, c08Err(err))
				return true
			}
			handles = append(handles, f)
			buf := make([]byte, f.Size())
			n, rerr := f.ReadAt(buf, 0)
			if rerr != nil && rerr != io.EOF {
				t.Op(a, "other:read:"+verifh.Str(rerr.Error()))
				return true
			}
			t.Op(a, "ok", verifh.Hex(buf[:n]))
		case a[0] == "stat" && len(a) == 3:
			key, ok1 := c08KeyName(a[1])
			sc, ok2 := c08Scope(s, a[2])
			if !ok1 || !ok2 {
				return false
			}
			size, err := sc.Stat(key)
			if err != nil {
				t.Op(a, c08Err(err))
				return true
			}
			t.Op(a, "ok", fmt.Sprint(size))
		case a[0] == "has" && len(a) == 3:
			key, ok1 := c08KeyName(a[1])
			sc, ok2 := c08Scope(s, a[2])
			if !ok1 || !ok2 {
				return false
			}
			in, scoped := sc.Has(key)
			t.Op(a, verifh.Bool(in), verifh.Bool(scoped))
		case a[0] == "complete" && len(a) == 2:
			key, ok1 := c08KeyName(a[1])
			if !ok1 {
				return false
			}
			t.Op(a, c08Err(s.MarkComplete(key)))
		case (a[0] == "delete" || a[0] == "ban" || a[0] == "unban") && len(a) == 3:
			key, ok1 := c08KeyName(a[1])
			sc, ok2 := c08Scope(s, a[2])
			if !ok1 || !ok2 {
				return false
			}
			var err error
			switch a[0] {
			case "delete":
				err = sc.Delete(key)
			case "ban":
				err = sc.BanEviction(key)
			default:
				err = sc.UnbanEviction(key)
			}
			t.Op(a, c08Err(err))
		case a[0] == "setmd" && len(a) == 5:
			key, ok1 := c08KeyName(a[1])
			sc, ok2 := c08Scope(s, a[2])
			md, ok3 := c08MdOf(a[3])
			val, err := verifh.Unhex(a[4])
			if !ok1 || !ok2 || !ok3 || err != nil {
				return false
			}
			md.val = val
			t.Op(a, c08Err(sc.SetMetadata(key, md)))
		case a[0] == "getmd" && len(a) == 4:
			key, ok1 := c08KeyName(a[1])
			sc, ok2 := c08Scope(s, a[2])
			md, ok3 := c08MdOf(a[3])
			if !ok1 || !ok2 || !ok3 {
				return false
			}
			ok, err := sc.GetMetadata(key, md)
			switch {
			case err != nil:
				t.Op(a, c08Err(err))
			case !ok:
				t.Op(a, "absent")
			default:
				t.Op(a, "ok", verifh.Hex(md.val))
			}
		case a[0] == "delmd" && len(a) == 4:
			key, ok1 := c08KeyName(a[1])
			sc, ok2 := c08Scope(s, a[2])
			md, ok3 := c08MdOf(a[3])
			if !ok1 || !ok2 || !ok3 {
				return false
			}
			t.Op(a, c08Err(sc.DeleteMetadata(key, md.suffix)))
		case a[0] == "listmd" && len(a) == 3:
			key, ok1 := c08KeyName(a[1])
			sc, ok2 := c08Scope(s, a[2])
			if !ok1 || !ok2 {
				return false
			}
			mds, err := sc.ListMetadata(key)
			if err != nil {
				t.Op(a, c08Err(err))
				return true
			}
			var toks []string
			for _, md := range mds {
				toks = append(toks, c08SfxTok(md.GetSuffix()))
			}
			sort.Slice(toks, func(i, j int) bool { return c08SfxLess(toks[i], toks[j]) })
			t.Op(a, "ok", verifh.List(toks))
		case a[0] == "list" && len(a) == 2:
			sc, ok2 := c08Scope(s, a[1])
			if !ok2 {
				return false
			}
			t.Op(a, c08Keys(sc.List()))
		// ---- handle operations
		case a[0] == "hread" && len(a) == 3:
			f, ok1 := handle(a[1])
			n, err := strconv.Atoi(a[2])
			if !ok1 || err != nil || n < 0 || n > 1<<16 {
				return false
			}
			buf := make([]byte, n)
			m, rerr := f.Read(buf)
			if rerr != nil {
				t.Op(a, c08Err(rerr))
			} else {
				t.Op(a, "ok", verifh.Hex(buf[:m]), "0")
			}
		case a[0] == "hreadat" && len(a) == 4:
			f, ok1 := handle(a[1])
			n, err := strconv.Atoi(a[2])
			off, err2 := strconv.ParseInt(a[3], 10, 64)
			if !ok1 || err != nil || err2 != nil || n < 0 || n > 1<<16 {
				return false
			}
			buf := make([]byte, n)
			m, rerr := f.ReadAt(buf, off)
			switch {
			case rerr == nil:
				t.Op(a, "ok", verifh.Hex(buf[:m]), "0")
			case rerr == io.EOF && m > 0:
				t.Op(a, "ok", verifh.Hex(buf[:m]), "1")
			default:
				t.Op(a, c08Err(rerr))
			}
		case a[0] == "hseek" && len(a) == 4:
			f, ok1 := handle(a[1])
			off, err := strconv.ParseInt(a[2], 10, 64)
			whence, err2 := strconv.Atoi(a[3])
			if !ok1 || err != nil || err2 != nil || whence < 0 {
				return false
			}
			n, serr := f.Seek(off, whence)
			if serr != nil {
				t.Op(a, c08Err(serr))
			} else {
				t.Op(a, "ok", fmt.Sprint(n))
			}
		case a[0] == "hsize" && len(a) == 2:
			f, ok1 := handle(a[1])
			if !ok1 {
				return false
			}
			if n := f.Size(); n < 0 {
				t.Op(a, fmt.Sprint(n))
			} else {
				t.Op(a, "ok", fmt.Sprint(n))
			}
		case a[0] == "hoff" && len(a) == 2:
			f, ok1 := handle(a[1])
			if !ok1 {
				return false
			}
			t.Op(a, fmt.Sprint(f.Off()))
		case a[0] == "hwrite" && len(a) == 3:
			f, ok1 := handle(a[1])
			p, err := verifh.Unhex(a[2])
			if !ok1 || err != nil {
				return false
			}
			n, werr := f.Write(p)
			if werr != nil {
				t.Op(a, c08Err(werr))
			} else {
				t.Op(a, "ok", fmt.Sprint(n))
			}
		case a[0] == "hwriteat" && len(a) == 4:
			f, ok1 := handle(a[1])
			p, err := verifh.Unhex(a[2])
			off, err2 := strconv.ParseInt(a[3], 10, 64)
			// offsets up to 64 KiB (the slice is really allocated), or so large that the end of the write
			// does not fit an int (refused; in between the allocation itself would fail)
			if !ok1 || err != nil || err2 != nil || (off > 1<<16 && off <= math.MaxInt64-int64(len(p))) {
				return false
			}
			n, werr := f.WriteAt(p, off)
			if werr != nil {
				t.Op(a, c08Err(werr))
			} else {
				t.Op(a, "ok", fmt.Sprint(n))
			}
		default:
			return false
		}
		return true
	}

	for _, op := range c.Ops {
		if len(op) >= 1 && op[0] == "probe" {
			continue
		}
		if len(op) == 2 && op[0] == "op" && op[1] == "drain" {
			c08Drain(t, s, capacity, do, probe)
			continue
		}
		done := false
		if p := verifh.Protect(func() { done = do(op) }); p != "" {
			// a panic is an observation: record it as the result, look at the state it left behind
			t.Op(op[1:], "panic")
			t.PropFail("panic", verifh.Str(strings.Join(op, " ")), verifh.Str(p))
			verifh.Protect(probe)
			continue
		}
		if done {
			probe()
		} else {
			t.Count("skipped_malformed_op", 1)
		}
	}
	t.End()
}

// c08Drain forces evictions one by one through the public API (one-byte incomplete fillers).
func c08Drain(t *verifh.T, s *Store, capacity uint64, do func([]string) bool, probe func()) {
	limit := int(capacity) + len(s.List()) + 2
	if limit > 64 {
		limit = 64
	}
	for i := 0; i < limit; i++ {
		op := []string{"op", "create", fmt.Sprintf("k%d", 100+i), "1", "x"}
		if p := verifh.Protect(func() { do(op) }); p != "" {
			t.PropFail("panic", verifh.Str(strings.Join(op, " ")), verifh.Str(p))
			return
		}
		probe()
		if len(c08Queue(s)) == 0 && s.impl.size >= capacity {
			return
		}
	}
}

func c08Op(toks ...string) []string { return append([]string{"op"}, toks...) }

// alphabet of the eviction-order family: two keys, capacity 4
func c08AlphaLRU() [][]string {
	var ops [][]string
	for _, k := range []string{"k0", "k1"} {
		ops = append(ops,
			c08Op("create", k, "2", "xab"), c08Op("create", k, "3", "x"),
			c08Op("complete", k), c08Op("open", k, "any"), c08Op("delete", k, "any"),
			c08Op("ban", k, "any"), c08Op("unban", k, "any"))
	}
	return ops
}

// alphabet of the stale-handle family: two keys (sizes 2 and 3 of capacity 4, so that creating one
// evicts the other once complete), handle operations on the first two handles of the case
func c08AlphaHandles() [][]string {
	return [][]string{
		c08Op("create", "k0", "2", "xa1a2"), c08Op("create", "k1", "3", "xb1"),
		c08Op("complete", "k0"), c08Op("complete", "k1"), c08Op("delete", "k0", "any"), c08Op("open", "k0", "any"),
		c08Op("hread", "h0", "1"), c08Op("hreadat", "h0", "2", "1"), c08Op("hwrite", "h0", "xc1"),
		c08Op("hwriteat", "h1", "xd1d2", "1"), c08Op("hsize", "h0"), c08Op("hseek", "h0", "0", "0"),
		c08Op("hread", "h1", "4"), c08Op("stat", "k0", "any"),
	}
}

// alphabet of the scope/metadata family
func c08AlphaScope() [][]string {
	return [][]string{
		c08Op("create", "k0", "1", "x01"), c08Op("complete", "k0"),
		c08Op("setmd", "k0", "any", "m0", "x0a"), c08Op("setmd", "k0", "i", "i0", "x0b"), c08Op("setmd", "k0", "c", "m0", "x0c"),
		c08Op("getmd", "k0", "any", "m0"), c08Op("getmd", "k0", "c", "i0"), c08Op("getmd", "k0", "i", "m0"),
		c08Op("delmd", "k0", "any", "m0"), c08Op("listmd", "k0", "any"),
		c08Op("has", "k0", "c"), c08Op("has", "k0", "i"), c08Op("open", "k0", "i"), c08Op("stat", "k0", "c"),
		c08Op("delete", "k0", "c"), c08Op("delete", "k0", "i"), c08Op("list", "c"), c08Op("list", "i"),
		c08Op("ban", "k0", "i"), c08Op("unban", "k0", "c"),
	}
}

func c08Exhaustive(tr *verifh.T, cfg []string, alpha [][]string, depth int, drain bool, stat string) {
	var rec func(prefix [][]string, d int)
	rec = func(prefix [][]string, d int) {
		if d == 0 {
			ops := prefix
			if drain {
				ops = append(prefix[:len(prefix):len(prefix)], c08Op("drain"))
			}
			c08Exec(tr, verifh.Case{Cfg: cfg, Ops: ops})
			tr.Count(stat, 1)
			return
		}
		// handles that can exist after the prefix (each create/open makes at most one)
		nh := 0
		for _, p := range prefix {
			if p[1] == "create" || p[1] == "open" {
				nh++
			}
		}
		for _, o := range alpha {
			if strings.HasPrefix(o[1], "h") && len(o) > 2 {
				if i, err := strconv.Atoi(o[2][1:]); err == nil && i >= nh {
					continue // would be skipped by the executor: no such handle yet
				}
			}
			rec(append(prefix[:len(prefix):len(prefix)], o), d-1)
		}
	}
	for d := 1; d <= depth; d++ {
		rec(nil, d)
	}
}

var c08Scopes = []string{"any", "any", "any", "c", "i"}

// c08Random generates one long history, weighted towards operations on live keys and on handles
// that exist.
func c08Random(r *verifh.Rand, tr *verifh.T, malformed bool) verifh.Case {
	capacity := 4 + r.Intn(7)
	cfg := []string{fmt.Sprintf("cap=%d", capacity)}
	nkeys := 2 + r.Intn(3)
	live := map[string]bool{}
	nh := 0 // upper bound on the number of handles created so far
	pickKey := func() string {
		if !malformed && len(live) > 0 && r.Chance(4, 5) {
			ks := make([]string, 0, len(live))
			for k := range live {
				ks = append(ks, k)
			}
			sort.Strings(ks)
			return ks[r.Intn(len(ks))]
		}
		return fmt.Sprintf("k%d", r.Intn(nkeys))
	}
	pickH := func() string {
		if nh == 0 || (malformed && r.Chance(1, 5)) {
			return fmt.Sprintf("h%d", r.Intn(3))
		}
		// prefer old handles: they are the ones whose blob may be gone
		if r.Chance(1, 2) {
			return fmt.Sprintf("h%d", r.Intn((nh+1)/2))
		}
		return fmt.Sprintf("h%d", r.Intn(nh))
	}
	sizes := []uint64{0, 1, 1, 2, uint64(capacity) / 2, uint64(capacity) / 2, uint64(capacity) - 1, uint64(capacity), uint64(capacity) + 1}
	huge := []uint64{^uint64(0), ^uint64(0) - 1, ^uint64(0) - uint64(capacity) + 1, 1 << 63, 1<<63 + 1}
	sfx := []string{"m0", "m0", "m1", "i0", "i0", "i1"}
	n := 1 + r.Intn(50)
	var ops [][]string
	for j := 0; j < n; j++ {
		k := pickKey()
		sc := c08Scopes[r.Intn(len(c08Scopes))]
		var o []string
		switch w := r.Intn(100); {
		case w < 18:
			k = fmt.Sprintf("k%d", r.Intn(nkeys))
			size := sizes[r.Intn(len(sizes))]
			if r.Chance(1, 25) || (malformed && r.Chance(1, 4)) {
				size = huge[r.Intn(len(huge))]
				tr.Count("random_create_huge", 1)
			}
			dl := r.Intn(4)
			if size < 3 && r.Chance(3, 4) {
				dl = int(size)
			}
			o = c08Op("create", k, fmt.Sprint(size), verifh.Hex(r.Bytes(dl)))
			live[k] = true
			nh++
		case w < 30:
			o = c08Op("complete", k)
		case w < 38:
			o = c08Op("open", k, sc)
			nh++
		case w < 43:
			o = c08Op("delete", k, sc)
			if sc == "any" {
				delete(live, k)
			}
		case w < 47:
			o = c08Op("ban", k, sc)
		case w < 52:
			o = c08Op("unban", k, sc)
		case w < 56:
			o = c08Op("setmd", k, sc, sfx[r.Intn(len(sfx))], verifh.Hex(r.Bytes(r.Intn(3))))
		case w < 60:
			o = c08Op("getmd", k, sc, sfx[r.Intn(len(sfx))])
		case w < 62:
			o = c08Op("delmd", k, sc, sfx[r.Intn(len(sfx))])
		case w < 64:
			o = c08Op("listmd", k, sc)
		case w < 66:
			o = c08Op("stat", k, sc)
		case w < 67:
			o = c08Op("has", k, sc)
		case w < 68:
			o = c08Op("list", sc)
		case w < 75:
			o = c08Op("hread", pickH(), fmt.Sprint(r.Intn(4)))
		case w < 81:
			off := r.Intn(5)
			if malformed && r.Chance(1, 4) {
				off = -1 - r.Intn(2)
			}
			o = c08Op("hreadat", pickH(), fmt.Sprint(r.Intn(4)), fmt.Sprint(off))
		case w < 86:
			whence := r.Intn(3)
			off := r.Intn(6) - 2
			if malformed && r.Chance(1, 3) {
				whence = 3 + r.Intn(2)
			}
			o = c08Op("hseek", pickH(), fmt.Sprint(off), fmt.Sprint(whence))
		case w < 89:
			o = c08Op("hsize", pickH())
		case w < 90:
			o = c08Op("hoff", pickH())
		case w < 95:
			o = c08Op("hwrite", pickH(), verifh.Hex(r.Bytes(r.Intn(3))))
		default:
			off := int64(r.Intn(5))
			if malformed && r.Chance(1, 4) {
				off = -1
			}
			data := r.Bytes(r.Intn(3))
			if r.Chance(1, 12) || (malformed && r.Chance(1, 4)) {
				// the end of the write does not fit an int: refused (it used to panic)
				off = math.MaxInt64 - int64(r.Intn(2))
				data = r.Bytes(2 + r.Intn(2))
				tr.Count("random_hwriteat_huge", 1)
			}
			o = c08Op("hwriteat", pickH(), verifh.Hex(data), fmt.Sprint(off))
		}
		ops = append(ops, o)
		tr.Count("random_op_"+o[1], 1)
	}
	if r.Chance(1, 2) {
		ops = append(ops, c08Op("drain"))
		// … and use the handles once more after everything evictable is gone
		for j := 0; j < 3 && nh > 0; j++ {
			ops = append(ops, c08Op("hreadat", pickH(), "2", "0"), c08Op("hsize", pickH()))
		}
	}
	return verifh.Case{Cfg: cfg, Ops: ops}
}

func TestVerif_C08(t *testing.T) {
	tr := verifh.Open("ms")
	defer tr.Close()
	cases, replayOnly := verifh.InputCases("ms")
	for _, c := range cases {
		c08Exec(tr, c)
		tr.Count("corpus_or_replay_cases", 1)
	}
	if replayOnly {
		return
	}
	cfg := []string{"cap=4"}
	c08Exhaustive(tr, cfg, c08AlphaLRU(), verifh.Scale(3, 5), true, "exhaustive_lru_cases")
	c08Exhaustive(tr, cfg, c08AlphaHandles(), verifh.Scale(4, 6), false, "exhaustive_handle_cases")
	c08Exhaustive(tr, cfg, c08AlphaScope(), verifh.Scale(3, 4), false, "exhaustive_scope_cases")
	r := verifh.NewRand(verifh.Seed(), "c08")
	for i := 0; i < verifh.Scale(4000, 200000); i++ {
		c := c08Random(r, tr, false)
		if i < 2 {
			tr.Sample(fmt.Sprint(c.Cfg, c.Ops))
		}
		c08Exec(tr, c)
		tr.Count("random_cases", 1)
	}
	rm := verifh.NewRand(verifh.Seed(), "c08-malformed")
	for i := 0; i < verifh.Scale(500, 20000); i++ {
		c08Exec(tr, c08Random(rm, tr, true))
		tr.Count("malformed_cases", 1)
	}
}

// ---- concurrent readers / writers against eviction pressure (thorough tier, built with -race)
//
// Every incarnation of a blob is filled with one tag byte that is unique to it. A reader that holds a
// handle of the incarnation tagged T must, on every operation, see only bytes equal to T (its own
// incarnation) or ErrEvicted (size -1) — and once it has seen ErrEvicted, ErrEvicted for ever.

func TestVerif_C08_Concurrent(t *testing.T) {
	tr := verifh.Open("ms")
	defer tr.Close()
	if _, replayOnly := verifh.InputCases("ms"); replayOnly {
		return
	}
	r := verifh.NewRand(verifh.Seed(), "c08-conc")
	rounds := verifh.Scale(20, 300)
	for round := 0; round < rounds; round++ {
		capacity := uint64(8 + r.Intn(9))
		s := c08NewStore(capacity)
		nkeys := 3 + r.Intn(3)
		var tag atomic.Uint32
		var reads, evicted, foreign, resurrected atomic.Int64
		var wgR, wgW sync.WaitGroup
		stop := make(chan struct{})
		type held struct {
			f    *File
			tag  byte
			size int // bytes known to be filled with the tag (writes stay inside: no zero-filled gaps)
			dead bool
		}
		// readers: adopt handles published by the writers and hammer them
		pub := make(chan held, 256)
		for g := 0; g < 4; g++ {
			wgR.Add(1)
			seed := r.Uint64()
			go func() {
				defer wgR.Done()
				rr := verifh.NewRand(seed, "reader")
				var mine []held
				buf := make([]byte, 8)
				for {
					select {
					case <-stop:
						return
					case h := <-pub:
						mine = append(mine, h)
						if len(mine) > 16 {
							mine = mine[1:]
						}
					default:
					}
					if len(mine) == 0 {
						continue
					}
					h := &mine[rr.Intn(len(mine))]
					var n int
					var err error
					switch rr.Intn(4) {
					case 0:
						n, err = h.f.ReadAt(buf[:1+rr.Intn(7)], int64(rr.Intn(4)))
					case 1:
						_, _ = h.f.Seek(0, io.SeekStart)
						n, err = h.f.Read(buf[:1+rr.Intn(7)])
					case 2:
						if sz := h.f.Size(); sz < 0 {
							err = ErrEvicted
						}
					default:
						_, err = h.f.WriteAt([]byte{h.tag}, int64(rr.Intn(h.size)))
					}
					reads.Add(1)
					if errors.Is(err, ErrEvicted) {
						evicted.Add(1)
						if h.dead && rr.Chance(1, 2) {
							// seen stale twice: drop it to make room for live handles
							*h = mine[len(mine)-1]
							mine = mine[:len(mine)-1]
							continue
						}
						h.dead = true
						continue
					}
					if h.dead && (err == nil || err == io.EOF) {
						resurrected.Add(1)
					}
					for _, b := range buf[:n] {
						if b != h.tag {
							foreign.Add(1)
						}
					}
				}
			}()
		}
		// writers: create / complete / delete under pressure; each incarnation gets a fresh tag
		for g := 0; g < 3; g++ {
			wgW.Add(1)
			seed := r.Uint64()
			go func() {
				defer wgW.Done()
				wr := verifh.NewRand(seed, "writer")
				for i := 0; i < 400; i++ {
					key := fmt.Sprintf("key-%d", wr.Intn(nkeys))
					switch wr.Intn(6) {
					case 0, 1, 2:
						size := uint64(1 + wr.Intn(4))
						f, err := s.Create(key, size)
						if err != nil {
							continue
						}
						tg := byte(tag.Add(1))
						_, _ = f.Write([]byte(strings.Repeat(string([]byte{tg}), int(size))))
						select {
						case pub <- held{f: f, tag: tg, size: int(size)}:
						default:
						}
						if wr.Chance(3, 4) {
							_ = s.MarkComplete(key)
						}
					case 3:
						_ = s.Delete(key)
					case 4:
						_ = s.MarkComplete(key)
					default:
						if f, err := s.Open(key); err == nil {
							// the tag of an opened blob is its first byte (blobs are never empty here)
							b := make([]byte, 1)
							if n, _ := f.ReadAt(b, 0); n == 1 {
								select {
								case pub <- held{f: f, tag: b[0], size: 1}:
								default:
								}
							}
						}
					}
				}
			}()
		}
		wgW.Wait()
		close(stop)
		wgR.Wait()
		obs := "ok"
		if foreign.Load() > 0 {
			obs = "foreign"
			tr.PropFail("handle-foreign-bytes", fmt.Sprintf("round=%d", round), fmt.Sprintf("count=%d", foreign.Load()))
		}
		if resurrected.Load() > 0 {
			obs = "resurrected"
			tr.PropFail("stale-handle-served", fmt.Sprintf("round=%d", round), fmt.Sprintf("count=%d", resurrected.Load()))
		}
		tr.One([]string{"conc", fmt.Sprintf("round=%d", round)}, obs)
		tr.Count("concurrent_rounds", 1)
		tr.Count("concurrent_handle_ops", int(reads.Load()))
		tr.Count("concurrent_evicted_results", int(evicted.Load()))
	}
}

// ---- bounded stress of stale handles (quick and thorough tier)
//
// One record `one stress cap=<c> size=<n> writers=<w> ops=<o> mode=evict|delete spin=<s> reps=<r> rs=<seed>`
// = r races: a complete blob of `size` bytes is created and opened by `writers` goroutines, each of
// which performs `ops` GROWING writes (always past the current end, so that the slice must be
// re-allocated) interleaved with reads — even-numbered ones through WriteAt / ReadAt, odd-numbered ones
// through Seek(end) + Write and Seek(start) + Read —; while the blob lives its length never shrinks
// (a lost header update would shrink it) and reads return only bytes written to this incarnation;
// one more goroutine removes the blob after `spin` iterations of
// a busy loop, by an evicting Create (mode=evict) or a Delete (mode=delete). When everybody has
// finished the incarnation is gone for certain, and EVERY operation through EVERY handle of it must
// report the evicted result. The handle calls are atomic with respect to eviction only because each
// holds the slice lock for the whole call: this is what the run checks on real schedules.

type c08StressParams struct {
	capacity, size uint64
	writers, ops   int
	mode           string
	spin, reps     int
	rs             uint64
}

func c08ParseStress(toks []string) (p c08StressParams, ok bool) {
	p = c08StressParams{capacity: 8, size: 2, writers: 3, ops: 40, mode: "evict", spin: 50, reps: 10, rs: 1}
	for _, t := range toks {
		k, v, found := strings.Cut(t, "=")
		if !found {
			continue
		}
		n, err := strconv.ParseUint(v, 10, 64)
		if k == "mode" {
			if v != "evict" && v != "delete" {
				return p, false
			}
			p.mode = v
			continue
		}
		if err != nil {
			return p, false
		}
		switch k {
		case "cap":
			p.capacity = n
		case "size":
			p.size = n
		case "writers":
			p.writers = int(n)
		case "ops":
			p.ops = int(n)
		case "spin":
			p.spin = int(n)
		case "reps":
			p.reps = int(n)
		case "rs":
			p.rs = n
		}
	}
	if p.capacity == 0 || p.size == 0 || p.size > p.capacity || p.writers < 1 || p.writers > 16 || p.ops < 1 ||
		p.ops > 4096 || p.reps < 1 || p.reps > 100000 || p.spin > 1<<20 {
		return p, false
	}
	return p, true
}

func (p c08StressParams) toks() []string {
	return []string{"stress", fmt.Sprintf("cap=%d", p.capacity), fmt.Sprintf("size=%d", p.size),
		fmt.Sprintf("writers=%d", p.writers), fmt.Sprintf("ops=%d", p.ops), "mode=" + p.mode,
		fmt.Sprintf("spin=%d", p.spin), fmt.Sprintf("reps=%d", p.reps), fmt.Sprintf("rs=%d", p.rs)}
}

var c08Sink atomic.Uint64

// c08StressOnce runs the races of one record; returns what a stale handle was seen to do ("" = nothing wrong).
func c08StressOnce(p c08StressParams) (bad string, staleOps int) {
	r := verifh.NewRand(p.rs, "c08-stress")
	for rep := 0; rep < p.reps; rep++ {
		s := c08NewStore(p.capacity)
		key := "key-0"
		f0, err := s.Create(key, p.size)
		if err != nil {
			return "setup:" + err.Error(), staleOps
		}
		_, _ = f0.Write([]byte(strings.Repeat("a", int(p.size))))
		if p.mode == "evict" {
			_ = s.MarkComplete(key)
		}
		handles := []*File{f0}
		for i := 0; i < p.writers; i++ {
			f, err := s.Open(key)
			if err != nil {
				return "setup:" + err.Error(), staleOps
			}
			handles = append(handles, f)
		}
		spin := p.spin
		if spin > 0 {
			spin = r.Intn(2*p.spin + 1)
		}
		var wg sync.WaitGroup
		start := make(chan struct{})
		var raceMu sync.Mutex
		raceBad := ""
		note := func(format string, a ...any) {
			raceMu.Lock()
			if raceBad == "" {
				raceBad = fmt.Sprintf("rep=%d ", rep) + fmt.Sprintf(format, a...)
			}
			raceMu.Unlock()
		}
		own := func(b []byte) bool {
			for _, c := range b {
				if c != 'a' && c != 'b' && c != 'w' && !(c >= 'A' && c <= 'P') {
					return false
				}
			}
			return true
		}
		for i := 0; i < p.writers; i++ {
			wg.Add(1)
			f := handles[1+i]
			// roles: 0 = grows through WriteAt, 1 = grows through Seek(end)+Write, 2 = rewrites one byte of
			// its own (position i of the initial bytes, letter 'A'+i) through Seek+Write and reads it back
			role := i % 3
			if role == 2 && uint64(i) >= p.size {
				role = 1
			}
			useWrite := role == 1
			pos, letter := int64(i), byte('A'+i)
			go func() {
				defer wg.Done()
				<-start
				buf := make([]byte, 4)
				last := int64(p.size)
				for j := 0; j < p.ops; j++ {
					if role == 2 {
						// a write in place, acknowledged, must be there when read back (nobody else writes this
						// position) — unless the blob has been removed
						if _, serr := f.Seek(pos, io.SeekStart); serr != nil {
							continue
						}
						if n, werr := f.Write([]byte{letter}); werr != nil || n != 1 {
							continue
						}
						one := make([]byte, 1)
						if m, rerr := f.ReadAt(one, pos); m == 1 && one[0] != letter {
							note("lost-write: handle=%d wrote %q at %d and read back %q", 1+i, letter, pos, one[0])
						} else if rerr != nil && rerr != io.EOF && !errors.Is(rerr, ErrEvicted) {
							note("lost-write: handle=%d ReadAt(%d) = %v", 1+i, pos, rerr)
						}
						continue
					}
					// grow: write one byte past the current end (ErrEvicted is fine: the blob may be gone)
					sz := f.Size()
					if sz >= 0 && sz < last {
						note("lost-write: handle=%d the blob shrank from %d to %d bytes while it was live", 1+i, last, sz)
					}
					if sz >= 0 {
						last = sz
					}
					var n int
					var err error
					if useWrite {
						if _, serr := f.Seek(0, io.SeekEnd); serr == nil {
							n, err = f.Write([]byte{'w'})
						} else {
							err = serr
						}
					} else {
						if sz < 0 {
							sz = int64(j)
						}
						n, err = f.WriteAt([]byte{'b'}, sz)
					}
					if err == nil && n == 1 {
						// the write was acknowledged: from now on the blob is at least one byte longer than
						// what this goroutine saw before (until it is removed)
						if now := f.Size(); now >= 0 && now < last+1 {
							note("lost-write: handle=%d wrote a byte at the end of %d bytes, the blob is %d bytes long", 1+i, last, now)
						}
					}
					var m int
					if useWrite {
						if _, serr := f.Seek(0, io.SeekStart); serr == nil {
							m, _ = f.Read(buf)
						}
					} else {
						m, _ = f.ReadAt(buf, 0)
					}
					if !own(buf[:m]) {
						note("foreign-bytes: handle=%d read %q", 1+i, buf[:m])
					}
				}
			}()
		}
		wg.Add(1)
		go func() {
			defer wg.Done()
			<-start
			x := uint64(0)
			for j := 0; j < spin; j++ {
				x += uint64(j) * 2654435761
			}
			c08Sink.Add(x)
			if p.mode == "evict" {
				if _, err := s.Create("key-filler", p.capacity); err != nil {
					_ = s.Delete(key) // the blob grew no reservation, so this cannot happen; be safe
				}
			} else {
				_ = s.Delete(key)
			}
		}()
		close(start)
		wg.Wait()
		if raceBad != "" {
			return raceBad, staleOps
		}
		if in, _ := s.Has(key); in {
			return "setup:blob-survived", staleOps
		}
		// the incarnation is gone: every operation through every handle must say so, for ever
		for round := 0; round < 2; round++ {
			for hi, f := range handles {
				staleOps += 6
				if n, err := f.Write([]byte{'c'}); !errors.Is(err, ErrEvicted) {
					return fmt.Sprintf("rep=%d handle=%d Write=%d,%v", rep, hi, n, err), staleOps
				}
				if n, err := f.Read(make([]byte, 1)); !errors.Is(err, ErrEvicted) {
					return fmt.Sprintf("rep=%d handle=%d Read=%d,%v", rep, hi, n, err), staleOps
				}
				if n := f.Size(); n != -1 {
					return fmt.Sprintf("rep=%d handle=%d Size=%d", rep, hi, n), staleOps
				}
				if n, err := f.ReadAt(make([]byte, 4), 0); !errors.Is(err, ErrEvicted) {
					return fmt.Sprintf("rep=%d handle=%d ReadAt=%d,%v", rep, hi, n, err), staleOps
				}
				if n, err := f.WriteAt([]byte{'c'}, 0); !errors.Is(err, ErrEvicted) {
					return fmt.Sprintf("rep=%d handle=%d WriteAt=%d,%v", rep, hi, n, err), staleOps
				}
				if n, err := f.Seek(0, io.SeekStart); !errors.Is(err, ErrEvicted) {
					return fmt.Sprintf("rep=%d handle=%d Seek=%d,%v", rep, hi, n, err), staleOps
				}
			}
		}
	}
	return "", staleOps
}

func c08StressRecord(tr *verifh.T, p c08StressParams) {
	bad, n := c08StressOnce(p)
	tr.Count("stress_races", p.reps)
	tr.Count("stress_stale_handle_ops", n)
	if bad != "" {
		key := "stale-handle-revived"
		switch {
		case strings.HasPrefix(bad, "setup:"):
			key = "harness-stress-setup"
		case strings.Contains(bad, "lost-write:"):
			key = "handle-lost-write"
		case strings.Contains(bad, "foreign-bytes:"):
			key = "handle-foreign-bytes"
		}
		tr.PropFail(key, verifh.Str(bad), verifh.Str(strings.Join(p.toks(), " ")))
		tr.One(p.toks(), "revived")
		return
	}
	tr.One(p.toks(), "ok")
}

func TestVerif_C08_Stress(t *testing.T) {
	tr := verifh.Open("ms")
	defer tr.Close()
	cases, replayOnly := verifh.InputCases("ms")
	for _, c := range cases {
		for _, op := range c.Ops {
			if len(op) >= 2 && op[0] == "one" && op[1] == "stress" {
				if p, ok := c08ParseStress(op[2:]); ok {
					if replayOnly && p.reps < 600 {
						p.reps = 600 // a race is a matter of luck: give a replay many more attempts
					}
					c08StressRecord(tr, p)
				}
			}
		}
	}
	if replayOnly {
		return
	}
	r := verifh.NewRand(verifh.Seed(), "c08-stress-gen")
	for i := 0; i < verifh.Scale(160, 4000); i++ {
		p := c08StressParams{
			capacity: uint64(4 + r.Intn(13)),
			writers:  1 + r.Intn(5),
			ops:      8 + r.Intn(56),
			mode:     r.Pick("evict", "evict", "delete"),
			spin:     []int{0, 10, 100, 1000, 5000}[r.Intn(5)],
			reps:     12,
			rs:       r.Uint64() % 1000000,
		}
		p.size = 1 + uint64(r.Intn(int(p.capacity)))
		c08StressRecord(tr, p)
	}
}
