//go:build verif

package store_test

// C05 harness: an origin's CAStore (upload, commit, persist flag, metainfo generation, backend
// refresh through the disk path or the memory cache + drain). Given the syscall plans recorded by
// harness/tools/crash_strace.py, the tree a process crash would leave after every prefix of every
// operation's plan is materialised; a new process (NewCAStore) is started on it, every listed blob is
// read, its metainfo sidecar is read the way origin/blobserver.getMetaInfo does, and the on-demand
// path (WriteBlobToCacheWithMetaInfo, what a backend refresh runs) regenerates what is missing.

import (
	"bytes"
	"encoding/binary"
	"fmt"
	"io"
	"os"
	"path/filepath"
	"regexp"
	"sort"
	"strconv"
	"strings"
	"testing"
	"time"

	"github.com/uber-go/tally"
	"github.com/uber/kraken/core"
	"github.com/uber/kraken/lib/metainfogen"
	"github.com/uber/kraken/lib/store"
	"github.com/uber/kraken/lib/store/metadata"
	"github.com/uber/kraken/utils/log"
	"github.com/uber/kraken/utils/verifh"
	"go.uber.org/zap"
)

type c05Env struct {
	t         *verifh.T
	blobs     [][]byte
	names     []string
	mis       [][]byte
	pl        int
	wps       int
	mem       bool
	skip      bool
	crashMode string
	root      string
	scratch   string
	cas       *store.CAStore
	gen       *metainfogen.Generator
	caseIdx   int
	phase     string
	plans     map[[2]int][]verifh.FSCall
	r         *verifh.Rand
	maxSub    int
}

func (e *c05Env) start(root string, mem bool) (*store.CAStore, error) {
	cfg := store.CAStoreConfig{
		UploadDir:     filepath.Join(root, "upload"),
		CacheDir:      filepath.Join(root, "cache"),
		UploadCleanup: store.CleanupConfig{Disabled: true},
		CacheCleanup:  store.CleanupConfig{Disabled: true},
		WritePartSize: e.wps,

		SkipHashVerification: e.skip,
	}
	if mem {
		cfg.MemoryCache = store.MemoryCacheConfig{Enabled: true, MaxSize: 1 << 20, DrainWorkers: 1}
	}
	return store.NewCAStore(cfg, tally.NoopScope)
}

// the time a drain is given to finish: generous once (a loaded machine), short after a first timeout
var c05Patience = 20 * time.Second

var c05UUID = regexp.MustCompile(`[0-9a-f]{8}-[0-9a-f]{4}-[0-9a-f]{4}-[0-9a-f]{4}-[0-9a-f]{12}`)

// LAT payloads depend on the wall clock: the transcript shows `LAT` for a current one and `OLD` for one
// that the file map would refresh (older than its five minute resolution).
func c05LatTok(hexTok string) string {
	b, err := verifh.Unhex(hexTok)
	if err != nil || len(b) == 0 {
		return hexTok
	}
	sec, n := binary.Varint(b)
	if n > 0 && time.Since(time.Unix(sec, 0)) < 4*time.Minute {
		return "x4c4154"
	}
	return "x4f4c44"
}

// c05Canon: made-up upload names (`<name>.<uuid>`) become `<name>.U`, last access times LAT/OLD.
func c05Canon(tok string) string {
	tok = c05UUID.ReplaceAllString(tok, "U")
	p := strings.Split(tok, ":")
	switch {
	case len(p) == 3 && p[0] == "f" && strings.HasSuffix(p[1], "/_last_access_time"):
		return "f:" + p[1] + ":" + c05LatTok(p[2])
	case len(p) == 4 && p[0] == "pwrite" && strings.HasSuffix(p[1], "/_last_access_time"):
		return "pwrite:" + p[1] + ":" + p[2] + ":" + c05LatTok(p[3])
	case len(p) == 3 && p[0] == "trunc" && strings.HasSuffix(p[1], "/_last_access_time") && p[2] != "0":
		return "trunc:" + p[1] + ":3"
	}
	return tok
}

func c05CanonAll(toks []string) []string {
	out := make([]string, len(toks))
	for i, t := range toks {
		out[i] = c05Canon(t)
	}
	sort.Strings(out)
	return out
}

func c05CanonPlan(toks []string) []string {
	out := make([]string, len(toks))
	for i, t := range toks {
		out[i] = c05Canon(t)
	}
	return out
}

// c05Materialize turns the stand-ins of an `fs` record into real last access times.
func c05Materialize(tok string) string {
	p := strings.Split(tok, ":")
	if len(p) == 3 && p[0] == "f" && strings.HasSuffix(p[1], "/_last_access_time") {
		switch p[2] {
		case "x4c4154":
			b, _ := metadata.NewLastAccessTime(time.Now()).Serialize()
			return "f:" + p[1] + ":" + verifh.Hex(b)
		case "x4f4c44":
			b, _ := metadata.NewLastAccessTime(time.Unix(1000, 0)).Serialize()
			return "f:" + p[1] + ":" + verifh.Hex(b)
		}
	}
	return tok
}

// c05Freshen: the last access times a recorded plan writes carry the recording run's clock; replayed
// minutes later they would look old to the file map (5 minute resolution). Times of this run are
// replaced by the current time when the plan is used.
func c05Freshen(plan []verifh.FSCall) []verifh.FSCall {
	out := make([]verifh.FSCall, len(plan))
	copy(out, plan)
	for i, c := range out {
		if c.Kind != "pwrite" || !strings.HasSuffix(c.A, "/_last_access_time") || c.Off != 0 {
			continue
		}
		sec, n := binary.Varint(c.Data)
		if n > 0 && time.Since(time.Unix(sec, 0)) < 24*time.Hour {
			b, err := metadata.NewLastAccessTime(time.Now()).Serialize()
			if err == nil && len(b) == len(c.Data) {
				out[i].Data = b
			}
		}
	}
	return out
}

func (e *c05Env) fresh(name string) string {
	p := filepath.Join(e.scratch, name)
	os.RemoveAll(p)
	return p
}

func (e *c05Env) blobIdx(tok string) int {
	if strings.HasPrefix(tok, "b") {
		if i, err := strconv.Atoi(tok[1:]); err == nil && i >= 0 && i < len(e.names) {
			return i
		}
	}
	return -1
}

func (e *c05Env) idxOfName(name string) int {
	for i, n := range e.names {
		if n == name {
			return i
		}
	}
	return -1
}

func c05Err(err error) string {
	switch {
	case err == nil:
		return "ok"
	case os.IsExist(err):
		return "exist"
	case os.IsNotExist(err):
		return "notfound"
	case strings.Contains(err.Error(), "verify digest"):
		return "verifyfail"
	case strings.Contains(err.Error(), "file is persisted"):
		return "persisted"
	}
	return "err-other"
}

// read: GetCacheFileReader and the bytes it serves, with whether they hash to the name.
func (e *c05Env) read(cas *store.CAStore, name string) (string, string) {
	f, err := cas.GetCacheFileReader(name)
	if err != nil {
		return c05Err(err), "-"
	}
	defer f.Close()
	b, err := io.ReadAll(f)
	if err != nil {
		return "err-read", "-"
	}
	d, err := core.NewDigester().FromBytes(b)
	h := "0"
	if err == nil && d.Hex() == name {
		h = "1"
	}
	return "bytes=" + verifh.Hex(b), h
}

// getmeta: what origin/blobserver.getMetaInfo does with the sidecar: a decoded one is served, a
// missing one (os.IsNotExist) starts a refresh, any other error is answered with a 500.
func (e *c05Env) getmeta(cas *store.CAStore, name string) string {
	var tm metadata.TorrentMeta
	err := cas.GetCacheFileMetadata(name, &tm)
	if os.IsNotExist(err) {
		return "absent"
	}
	if err != nil {
		return "err"
	}
	b, err := tm.Serialize()
	if err != nil {
		return "err"
	}
	if i := e.idxOfName(name); i >= 0 && bytes.Equal(b, e.mis[i]) {
		return "valid"
	}
	return "found=" + verifh.Hex(b)
}

// refresh: blobrefresh.Refresher.download's store call; with the memory cache the call returns
// before the blob is on disk: wait for the drain.
func (e *c05Env) refresh(cas *store.CAStore, mem bool, name string, b []byte) string {
	err := cas.WriteBlobToCacheWithMetaInfo(name, uint64(len(b)), func(w store.FileReadWriter) error {
		_, err := w.Write(b)
		return err
	}, int64(e.pl))
	if mem {
		deadline := time.Now().Add(c05Patience)
		for cas.CheckInMemCache(name) && time.Now().Before(deadline) {
			time.Sleep(2 * time.Millisecond)
		}
		if cas.CheckInMemCache(name) {
			c05Patience = 2 * time.Second
			return "drain-timeout"
		}
	}
	if err != nil && strings.Contains(err.Error(), "verify digest") {
		return "verifyfail"
	}
	return c05Err(err)
}

// metareq: the store calls of origin/blobserver.getMetaInfo for a backend that does not hold the blob (the
// handler itself runs in the `ocs` harness; linking the server into this binary would double the run time):
// a sidecar that decodes is served; else a cached blob (GetCacheFileStat) gets its metainfo generated
// (metainfogen.Generate) and read again; a blob that is not cached is answered 404.
func (e *c05Env) metareq(cas *store.CAStore, name string) (string, string) {
	serve := func(tm *metadata.TorrentMeta) (string, string) {
		b, err := tm.Serialize()
		if err != nil {
			return "500", "-"
		}
		if i := e.idxOfName(name); i >= 0 && bytes.Equal(b, e.mis[i]) {
			return "200", "valid"
		}
		return "200", "wrong"
	}
	var tm metadata.TorrentMeta
	err := cas.GetCacheFileMetadata(name, &tm)
	if err == nil {
		return serve(&tm)
	}
	if !os.IsNotExist(err) {
		return "500", "-"
	}
	if _, serr := cas.GetCacheFileStat(name); serr != nil {
		return "404", "-"
	}
	d, derr := core.NewSHA256DigestFromHex(name)
	if derr != nil {
		return "400", "-"
	}
	if gerr := metainfogen.Fixture(cas, e.pl).Generate(d); gerr != nil {
		return "500", "-"
	}
	if err := cas.GetCacheFileMetadata(name, &tm); err != nil {
		return "500", "-"
	}
	return serve(&tm)
}

func (e *c05Env) tree(root string) string {
	return "fs=" + verifh.List(c05CanonAll(verifh.DumpTree(root)))
}

// recover starts a new process on root and reports what it lists and serves, then regenerates.
func (e *c05Env) recover(root string) []string {
	cas, err := e.start(root, false)
	if err != nil {
		return []string{"start-err"}
	}
	defer cas.Close()
	names, err := cas.ListCacheFiles()
	if err != nil {
		return []string{"list-err"}
	}
	sort.Strings(names)
	out := []string{"start=ok", "ls=" + verifh.List(names)}
	for _, n := range names {
		out = append(out, "|", "n="+n)
		var rd, h, gm string
		if p := verifh.Protect(func() { rd, h = e.read(cas, n); gm = e.getmeta(cas, n) }); p != "" {
			out = append(out, "panic")
			continue
		}
		out = append(out, "rd="+rd, "h="+h, "gm="+gm)
		i := e.idxOfName(n)
		if i < 0 {
			continue
		}
		// the origin's metainfo request, with a backend that does not hold the blob
		var mr, mv string
		if p := verifh.Protect(func() { mr, mv = e.metareq(cas, n) }); p != "" {
			out = append(out, "panic")
			continue
		}
		out = append(out, "mr="+mr, "mv="+mv)
		var rf string
		if p := verifh.Protect(func() {
			rf = e.refresh(cas, false, n, e.blobs[i])
			rd, h = e.read(cas, n)
			gm = e.getmeta(cas, n)
		}); p != "" {
			out = append(out, "panic")
			continue
		}
		out = append(out, "rf="+rf, "rd2="+rd, "h2="+h, "gm2="+gm)
	}
	out = append(out, "|", strings.Replace(e.tree(root), "fs=", "fs2=", 1))
	return out
}

func (e *c05Env) explore(snap string, plan []verifh.FSCall, opName string) {
	type point struct {
		k     int
		first []string
	}
	var pts []point
	for k := 0; k <= len(plan); k++ {
		pts = append(pts, point{k, nil})
	}
	for _, seg := range verifh.RemovalSegments(plan) {
		n := seg[1] - seg[0]
		if n < 2 || n > 8 {
			continue
		}
		var subs []point
		for mask := 1; mask < (1<<n)-1; mask++ {
			var first []string
			prefix := true
			for i := 0; i < n; i++ {
				if mask&(1<<i) != 0 {
					first = append(first, plan[seg[0]+i].A)
					if i >= len(first) {
						prefix = false
					}
				}
			}
			if prefix {
				continue
			}
			subs = append(subs, point{seg[0] + len(first), first})
		}
		if len(subs) > e.maxSub {
			for _, i := range e.r.Perm(len(subs))[:e.maxSub] {
				pts = append(pts, subs[i])
			}
		} else {
			pts = append(pts, subs...)
		}
	}
	for _, pt := range pts {
		dir := e.fresh("crash")
		if err := verifh.CopyTree(snap, dir); err != nil {
			panic(err)
		}
		p := verifh.ReorderRemovals(plan, pt.first)
		failed := ""
		for i := 0; i < pt.k; i++ {
			if err := p[i].Apply(dir); err != nil {
				failed = fmt.Sprintf("planerr=%d:%s", i, verifh.Str(err.Error()))
				break
			}
		}
		at := "start"
		if pt.k > 0 {
			base := filepath.Base(p[pt.k-1].A)
			if base != "data" && !strings.HasPrefix(base, "_") {
				base = "dir"
			}
			at = p[pt.k-1].Kind + "-" + strings.SplitN(p[pt.k-1].A, "/", 2)[0] + "-" + base
		}
		var first []string
		for _, f := range pt.first {
			first = append(first, c05UUID.ReplaceAllString(f, "U"))
		}
		args := []string{"k=" + strconv.Itoa(pt.k), "ord=" + verifh.List(first), "at=" + at}
		obs := []string{e.tree(dir)}
		if failed != "" {
			obs = append(obs, failed)
		} else {
			obs = append(obs, e.recover(dir)...)
			e.t.Count("crash_points", 1)
			e.t.Count("crash_points_"+opName, 1)
		}
		e.t.Rec("crash", args, obs)
	}
}

func c05Exec(t *verifh.T, c verifh.Case, caseIdx int, base string, plans map[[2]int][]verifh.FSCall) {
	e := &c05Env{t: t, pl: 2, crashMode: "all", caseIdx: caseIdx, phase: verifh.CrashPhase(), plans: plans,
		r: verifh.NewRand(verifh.Seed()+uint64(caseIdx), "c05x"), maxSub: verifh.Scale(4, 40)}
	for _, tok := range c.Cfg {
		kv := strings.SplitN(tok, "=", 2)
		if len(kv) != 2 {
			continue
		}
		n, _ := strconv.Atoi(kv[1])
		switch kv[0] {
		case "blobs":
			for _, h := range strings.Split(kv[1], ",") {
				if b, err := verifh.Unhex(h); err == nil {
					e.blobs = append(e.blobs, b)
				}
			}
		case "pl":
			if n > 0 {
				e.pl = n
			}
		case "wps":
			e.wps = n
		case "mem":
			e.mem = n == 1
		case "skip":
			e.skip = n == 1
		case "crash":
			e.crashMode = kv[1]
		}
	}
	var nameToks, miToks []string
	for _, b := range e.blobs {
		d, err := core.NewDigester().FromBytes(b)
		if err != nil {
			panic(err)
		}
		mi, err := core.NewMetaInfo(d, bytes.NewReader(b), int64(e.pl))
		if err != nil {
			panic(err)
		}
		mib, _ := mi.Serialize()
		e.names = append(e.names, d.Hex())
		e.mis = append(e.mis, mib)
		nameToks = append(nameToks, d.Hex())
		miToks = append(miToks, verifh.Hex(mib))
	}
	e.root = filepath.Join(base, strconv.Itoa(caseIdx))
	e.scratch = filepath.Join(base, "scratch"+strconv.Itoa(caseIdx))
	os.RemoveAll(e.root)
	os.RemoveAll(e.scratch)
	os.MkdirAll(e.root, 0775)
	os.MkdirAll(e.scratch, 0775)
	defer os.RemoveAll(e.root)
	defer os.RemoveAll(e.scratch)
	quiet := e.phase == "A"
	if !quiet {
		// names and serialized metainfo are derived from the blobs: the model takes them from here
		t.Cfg(append(append([]string{}, c.Cfg...), "names="+strings.Join(nameToks, ","), "mis="+strings.Join(miToks, ","))...)
	}
	// a case may start from a given tree (`$<i>` stands for the cache directory of blob i, `#<i>` for its name)
	subst := func(tk string) string {
		for i := len(e.names) - 1; i >= 0; i-- {
			n := e.names[i]
			tk = strings.ReplaceAll(tk, "$"+strconv.Itoa(i), "cache/"+n[0:2]+"/"+n[2:4]+"/"+n)
			tk = strings.ReplaceAll(tk, "#"+strconv.Itoa(i), n)
			tk = strings.ReplaceAll(tk, "@"+strconv.Itoa(i), verifh.Hex(e.mis[i]))
			tk = strings.ReplaceAll(tk, "%"+strconv.Itoa(i), verifh.Hex(make([]byte, len(e.mis[i]))))
		}
		return tk
	}
	for _, op := range c.Ops {
		if op[0] == "fs" {
			var toks []string
			for _, tk := range op[1:] {
				toks = append(toks, c05Materialize(subst(tk)))
			}
			if err := verifh.MaterializeTree(e.root, toks); err != nil {
				panic(err)
			}
			if !quiet {
				t.Rec("fs", c05CanonAll(verifh.DumpTree(e.root)), nil)
			}
		}
	}
	var err error
	e.cas, err = e.start(e.root, e.mem)
	if err != nil {
		panic(err)
	}
	e.gen = metainfogen.Fixture(e.cas, e.pl)
	defer func() { e.cas.Close() }()
	lastOp := -1
	for i, op := range c.Ops {
		if op[0] == "op" {
			lastOp = i
		}
	}
	for i, op := range c.Ops {
		if op[0] != "op" || len(op) < 2 {
			continue
		}
		wantCrash := e.crashMode == "all" || (e.crashMode == "last" && i == lastOp)
		var plan []verifh.FSCall
		havePlan := false
		snap := ""
		if e.phase == "B" && wantCrash {
			plan, havePlan = plans[[2]int{caseIdx, i}]
			plan = c05Freshen(plan)
		}
		if havePlan {
			snap = e.fresh("snap")
			if err := verifh.CopyTree(e.root, snap); err != nil {
				panic(err)
			}
		}
		var obs []string
		mark := e.phase == "A" && wantCrash
		bracket := func(f func()) {
			if mark {
				verifh.Mark("B", caseIdx, i)
			}
			f()
			if mark {
				verifh.Mark("E", caseIdx, i)
			}
		}
		run := func() {
			bi := -1
			if len(op) >= 3 {
				bi = e.blobIdx(op[len(op)-1])
				if op[1] == "refresh" {
					bi = e.blobIdx(op[2])
				}
			}
			switch op[1] {
			case "ustart":
				if len(op) < 3 {
					obs = []string{"badop"}
					return
				}
				bracket(func() { obs = []string{c05Err(e.cas.CreateUploadFile(op[2], 0))} })
			case "uwrite":
				if len(op) < 5 {
					obs = []string{"badop"}
					return
				}
				off, err1 := strconv.Atoi(op[3])
				data, err2 := verifh.Unhex(op[4])
				if err1 != nil || err2 != nil {
					obs = []string{"badop"}
					return
				}
				// uploader.patch: open, seek, copy
				bracket(func() {
					w, err := e.cas.GetUploadFileReadWriter(op[2])
					if err != nil {
						obs = []string{c05Err(err)}
						return
					}
					defer w.Close()
					if _, err := w.Seek(int64(off), 0); err != nil {
						obs = []string{"err-seek"}
						return
					}
					_, err = io.CopyN(w, bytes.NewReader(data), int64(len(data)))
					obs = []string{c05Err(err)}
				})
			case "commit":
				if len(op) < 4 || bi < 0 {
					obs = []string{"badop"}
					return
				}
				bracket(func() { obs = []string{c05Err(e.cas.MoveUploadFileToCache(op[2], e.names[bi]))} })
			case "persist":
				if bi < 0 {
					obs = []string{"badop"}
					return
				}
				bracket(func() {
					_, err := e.cas.SetCacheFileMetadata(e.names[bi], metadata.NewPersist(true))
					obs = []string{c05Err(err)}
				})
			case "genmeta":
				if bi < 0 {
					obs = []string{"badop"}
					return
				}
				d, _ := core.NewSHA256DigestFromHex(e.names[bi])
				bracket(func() {
					err := e.gen.Generate(d)
					switch {
					case err == nil:
						obs = []string{"ok"}
					case strings.Contains(err.Error(), "cache stat"):
						obs = []string{"notfound"}
					default:
						obs = []string{"err-other"}
					}
				})
			case "refresh":
				if len(op) < 4 || bi < 0 {
					obs = []string{"badop"}
					return
				}
				data, err := verifh.Unhex(op[3])
				if err != nil {
					obs = []string{"badop"}
					return
				}
				bracket(func() { obs = []string{e.refresh(e.cas, e.mem, e.names[bi], data)} })
			case "read":
				if bi < 0 {
					obs = []string{"badop"}
					return
				}
				bracket(func() {
					rd, h := e.read(e.cas, e.names[bi])
					obs = []string{rd}
					if h != "-" {
						obs = append(obs, "h="+h)
					}
				})
			case "getmeta":
				if bi < 0 {
					obs = []string{"badop"}
					return
				}
				bracket(func() { obs = []string{e.getmeta(e.cas, e.names[bi])} })
			case "delete":
				if bi < 0 {
					obs = []string{"badop"}
					return
				}
				bracket(func() { obs = []string{c05Err(e.cas.DeleteCacheFile(e.names[bi]))} })
			case "restart":
				e.cas.Close()
				bracket(func() {
					cas, err := e.start(e.root, e.mem)
					if err != nil {
						panic(err)
					}
					e.cas = cas
				})
				e.gen = metainfogen.Fixture(e.cas, e.pl)
				obs = []string{"ok"}
			default:
				obs = []string{"badop"}
			}
		}
		if p := verifh.Protect(run); p != "" {
			obs = []string{"panic"}
			if !quiet {
				t.PropFail("panic", verifh.Str(p))
			}
		}
		if quiet {
			continue
		}
		obs = append(obs, e.tree(e.root))
		t.Count("op_"+op[1], 1)
		if havePlan {
			t.Rec("begin", append(append(append([]string{}, op[1:]...), "|"), obs...), nil)
			t.Rec("plan", c05CanonPlan(verifh.PlanToks(plan)), nil)
			chk := e.fresh("chk")
			verifh.CopyTree(snap, chk)
			for _, pc := range plan {
				pc.Apply(chk)
			}
			if a, b := e.tree(chk), e.tree(e.root); a != b {
				t.Rec("planerr", []string{"replayed=" + a, "real=" + b}, nil)
			}
			e.explore(snap, plan, op[1])
			t.Rec("planchk", nil, []string{})
		}
		t.Op(op[1:], obs...)
	}
	if !quiet {
		t.End()
	}
}

// ---------------------------------------------------------------- generators

func c05Blob(r *verifh.Rand, n int) []byte {
	b := make([]byte, n)
	for i := range b {
		b[i] = byte('a' + r.Intn(20))
	}
	return b
}

func c05Cfg(blobs [][]byte, pl, wps, mem int, extra ...string) []string {
	var hs []string
	for _, b := range blobs {
		hs = append(hs, verifh.Hex(b))
	}
	return append([]string{"blobs=" + strings.Join(hs, ","), "pl=" + strconv.Itoa(pl), "wps=" + strconv.Itoa(wps),
		"mem=" + strconv.Itoa(mem), "crash=all"}, extra...)
}

func c05Cases() []verifh.Case {
	var out []verifh.Case
	r := verifh.NewRand(verifh.Seed(), "c05")
	op := func(toks ...string) []string { return append([]string{"op"}, toks...) }
	// the upload flows of the origin: start, patch (in parts), commit, then the write-back steps
	// (persist flag, metainfo) or the transfer steps (metainfo only), a restart, the read paths
	for _, shape := range []struct{ n, pl, wps, parts int }{{1, 2, 0, 1}, {3, 2, 0, 1}, {4, 2, 3, 2}, {5, 3, 2, 3}, {6, 4, 0, 2}} {
		blob := c05Blob(r, shape.n)
		other := c05Blob(r, shape.n+1)
		cfg := c05Cfg([][]byte{blob, other}, shape.pl, shape.wps, 0)
		ops := [][]string{op("ustart", "u1")}
		step := (len(blob) + shape.parts - 1) / shape.parts
		for off := 0; off < len(blob); off += step {
			hi := off + step
			if hi > len(blob) {
				hi = len(blob)
			}
			ops = append(ops, op("uwrite", "u1", strconv.Itoa(off), verifh.Hex(blob[off:hi])))
		}
		ops = append(ops, op("commit", "u1", "b0"), op("persist", "b0"), op("genmeta", "b0"), op("getmeta", "b0"),
			op("restart"), op("read", "b0"), op("getmeta", "b0"), op("genmeta", "b0"), op("persist", "b0"),
			op("refresh", "b0", verifh.Hex(blob)), op("refresh", "b1", verifh.Hex(other)), op("restart"),
			op("delete", "b0"), op("delete", "b1"), op("read", "b1"), op("refresh", "b1", verifh.Hex(other)), op("restart"), op("delete", "b1"))
		out = append(out, verifh.Case{Cfg: cfg, Ops: ops})
		// a second upload of a blob that is already cached, and an upload whose bytes do not match
		ops2 := [][]string{op("refresh", "b0", verifh.Hex(blob)), op("ustart", "u2"), op("uwrite", "u2", "0", verifh.Hex(blob)),
			op("commit", "u2", "b0"), op("ustart", "u3"), op("uwrite", "u3", "0", verifh.Hex(other)), op("commit", "u3", "b0"),
			op("refresh", "b1", verifh.Hex(blob)), op("genmeta", "b1"), op("persist", "b1"), op("restart"), op("genmeta", "b0")}
		out = append(out, verifh.Case{Cfg: cfg, Ops: ops2})
	}
	// the memory cache and its drain (each refresh waits for a drain tick)
	for c := 0; c < verifh.Scale(3, 12); c++ {
		blob := c05Blob(r, 1+r.Intn(6))
		other := c05Blob(r, 7)
		cfg := c05Cfg([][]byte{blob, other}, 1+r.Intn(3), r.Intn(3), 1)
		ops := [][]string{op("refresh", "b0", verifh.Hex(blob)), op("getmeta", "b0"), op("refresh", "b1", verifh.Hex(blob)),
			op("refresh", "b0", verifh.Hex(blob)), op("restart"), op("read", "b0")}
		out = append(out, verifh.Case{Cfg: cfg, Ops: ops})
	}
	// SkipHashVerification: outside the property (stated assumption); the model follows, monitors are off
	for c := 0; c < verifh.Scale(2, 20); c++ {
		blob := c05Blob(r, 2+r.Intn(4))
		other := c05Blob(r, 7)
		cfg := c05Cfg([][]byte{blob, other}, 2, r.Intn(2), 0, "skip=1", "crash=off")
		ops := [][]string{op("ustart", "u1"), op("uwrite", "u1", "0", verifh.Hex(other)), op("commit", "u1", "b0"), op("read", "b0"),
			op("restart"), op("read", "b0"), op("ustart", "u2"), op("uwrite", "u2", "0", verifh.Hex(other)), op("commit", "u2", "b1"), op("genmeta", "b1")}
		out = append(out, verifh.Case{Cfg: cfg, Ops: ops})
	}
	// random histories
	for c := 0; c < verifh.Scale(40, 1200); c++ {
		nb := 1 + r.Intn(2)
		var blobs [][]byte
		for i := 0; i < nb; i++ {
			blobs = append(blobs, c05Blob(r, 1+r.Intn(6)+3*i))
		}
		cfg := c05Cfg(blobs, 1+r.Intn(3), r.Intn(3), 0)
		var ops [][]string
		nu := 0
		var open []string
		bt := func() (string, int) { i := r.Intn(nb); return "b" + strconv.Itoa(i), i }
		for j := 0; j < 4+r.Intn(9); j++ {
			switch r.Intn(12) {
			case 0, 1:
				nu++
				u := "u" + strconv.Itoa(nu)
				open = append(open, u)
				_, i := bt()
				data := blobs[i]
				if r.Chance(1, 5) {
					data = c05Blob(r, len(data))
				}
				ops = append(ops, op("ustart", u))
				cut := r.Intn(len(data) + 1)
				if cut > 0 && cut < len(data) && r.Chance(1, 2) {
					// the second part first: a hole that is filled later
					ops = append(ops, op("uwrite", u, strconv.Itoa(cut), verifh.Hex(data[cut:])), op("uwrite", u, "0", verifh.Hex(data[:cut])))
				} else {
					ops = append(ops, op("uwrite", u, "0", verifh.Hex(data)))
				}
			case 2, 3:
				if len(open) > 0 {
					k := r.Intn(len(open))
					b, _ := bt()
					ops = append(ops, op("commit", open[k], b))
					open = append(open[:k], open[k+1:]...)
				} else {
					b, _ := bt()
					ops = append(ops, op("commit", "u0", b))
				}
			case 4:
				b, _ := bt()
				ops = append(ops, op("persist", b))
			case 5, 6:
				b, _ := bt()
				ops = append(ops, op("genmeta", b))
			case 7, 8:
				b, i := bt()
				data := blobs[i]
				if r.Chance(1, 6) {
					data = c05Blob(r, len(data)+r.Intn(2))
				}
				ops = append(ops, op("refresh", b, verifh.Hex(data)))
			case 9:
				b, _ := bt()
				ops = append(ops, op(r.Pick("read", "getmeta"), b))
			case 10:
				if r.Chance(1, 2) {
					b, _ := bt()
					ops = append(ops, op("delete", b))
					break
				}
				ops = append(ops, op("restart"))
				open = nil
			default:
				b, _ := bt()
				ops = append(ops, op("getmeta", b))
			}
		}
		out = append(out, verifh.Case{Cfg: cfg, Ops: ops})
	}
	// cases that start from a leftover tree: what earlier crashes can leave (monitored), and arbitrary
	// contents (compared with the model only)
	for c := 0; c < verifh.Scale(40, 1200); c++ {
		nb := 1 + r.Intn(2)
		var blobs [][]byte
		for i := 0; i < nb; i++ {
			blobs = append(blobs, c05Blob(r, 1+r.Intn(5)+2*i))
		}
		wild := r.Chance(1, 3)
		extra := []string{}
		if wild {
			extra = append(extra, "mon=0")
		}
		cfg := c05Cfg(blobs, 1+r.Intn(2), r.Intn(2), 0, extra...)
		fs := []string{"fs"}
		if r.Chance(1, 2) {
			fs = append(fs, "d:upload/zz", "f:upload/zz/data:x6162", "f:upload/zz/_last_access_time:"+r.Pick("x", "x4c4154"))
		}
		for i := 0; i < nb; i++ {
			if !r.Chance(4, 5) {
				continue
			}
			dir := "$" + strconv.Itoa(i)
			fs = append(fs, "d:"+dir)
			hasData := r.Chance(3, 4)
			if hasData {
				fs = append(fs, "f:"+dir+"/data:"+verifh.Hex(blobs[i]))
			}
			if r.Chance(3, 4) {
				fs = append(fs, "f:"+dir+"/_last_access_time:"+r.Pick("x", "x00000000000000000000", "x4c4154", "x4f4c44", "x4c4154"))
			}
			if hasData && r.Chance(2, 3) {
				tm := r.Pick("x", "%"+strconv.Itoa(i), "@"+strconv.Itoa(i))
				if wild && r.Chance(1, 2) {
					tm = r.Pick("x7b7d", "@"+strconv.Itoa((i+1)%nb), "x7b")
				}
				fs = append(fs, "f:"+dir+"/_torrentmeta:"+tm)
			}
			if hasData && r.Chance(1, 3) {
				fs = append(fs, "f:"+dir+"/_persist:"+r.Pick("x", "x74727565"))
			}
		}
		ops := [][]string{fs}
		for j := 0; j < 1+r.Intn(4); j++ {
			i := r.Intn(nb)
			b := "b" + strconv.Itoa(i)
			switch r.Intn(7) {
			case 6:
				ops = append(ops, op("delete", b))
			case 0:
				ops = append(ops, op("getmeta", b))
			case 1:
				ops = append(ops, op("genmeta", b))
			case 2:
				ops = append(ops, op("refresh", b, verifh.Hex(blobs[i])))
			case 3:
				ops = append(ops, op("read", b))
			case 4:
				ops = append(ops, op("ustart", "u1"), op("uwrite", "u1", "0", verifh.Hex(blobs[i])), op("commit", "u1", b))
			default:
				ops = append(ops, op("persist", b))
			}
		}
		out = append(out, verifh.Case{Cfg: cfg, Ops: ops})
	}
	return out
}

func TestVerif_C05(t *testing.T) {
	log.SetGlobalLogger(zap.NewNop().Sugar())
	tr := verifh.Open("oc")
	defer tr.Close()
	base := verifh.CrashBase()
	os.MkdirAll(base, 0775)
	var plans map[[2]int][]verifh.FSCall
	if p := os.Getenv("VERIF_CRASH_PLANS"); p != "" {
		var err error
		if plans, err = verifh.LoadPlans(p); err != nil {
			t.Fatal(err)
		}
	}
	cases, replayOnly := verifh.InputCases("oc")
	tr.Count("corpus_or_replay_cases", len(cases))
	if !replayOnly {
		gen := c05Cases()
		tr.Count("generated_cases", len(gen))
		if len(gen) > 0 {
			tr.Sample(fmt.Sprint(gen[len(gen)/2].Cfg, gen[len(gen)/2].Ops))
			tr.Sample(fmt.Sprint(gen[len(gen)-1].Cfg, gen[len(gen)-1].Ops))
		}
		cases = append(cases, gen...)
	}
	for i, c := range cases {
		// replayed cases carry the derived cfg tokens: drop them, they are recomputed
		var cfg []string
		for _, tok := range c.Cfg {
			if !strings.HasPrefix(tok, "names=") && !strings.HasPrefix(tok, "mis=") {
				cfg = append(cfg, tok)
			}
		}
		c.Cfg = cfg
		c05Exec(tr, c, i, base, plans)
	}
}
