//go:build verif

package store

import (
	"fmt"
	"hash"
	"math"
	"os"
	"path/filepath"
	"strconv"
	"strings"
	"testing"

	"github.com/spaolacci/murmur3"

	"github.com/uber/kraken/lib/hrw"
	"github.com/uber/kraken/utils/verifh"
)

// C22 harness (2/2): the call site initCASVolumes (lib/store/ca_store.go): every shard directory 00..FF
// of a CAS cache is linked to the volume GetOrderedNodes(subdir, 1) names.  The same volume set is
// configured in several list orders; the placement must not depend on the order.
//   casvol op init <tag> <v0*w,v1*w,…> => ok|err
//   casvol tbl <subdir> <v*w=score> …          (scores of an hrw instance configured like initCASVolumes)
//   casvol op vol <tag> <subdir> => <volume>|none

const c22VolRoot = "/tmp/verif-c22-casvol"

func c22vScoreTok(f float64) string {
	if math.IsNaN(f) {
		return "nan"
	}
	if f == 0 {
		return "0"
	}
	b := math.Float64bits(f)
	mag := int64(b &^ (1 << 63))
	if b>>63 == 1 {
		return strconv.FormatInt(-mag, 10)
	}
	return strconv.FormatInt(mag, 10)
}

type c22Vol struct {
	name   string
	weight int
}

func c22ParseVols(tok string) ([]c22Vol, bool) {
	var vs []c22Vol
	for _, e := range verifh.Unlist(tok) {
		i := strings.LastIndex(e, "*")
		if i < 0 {
			return nil, false
		}
		w, err := strconv.Atoi(e[i+1:])
		if err != nil || strings.ContainsAny(e[:i], "/%.") || e[:i] == "" {
			return nil, false
		}
		vs = append(vs, c22Vol{e[:i], w})
	}
	return vs, true
}

func c22VolExec(t *verifh.T, c verifh.Case) {
	os.RemoveAll(c22VolRoot)
	defer os.RemoveAll(c22VolRoot)
	t.Cfg()
	sets := map[string][]c22Vol{}
	lastTbl := ""
	for _, op := range c.Ops {
		if len(op) < 4 || op[0] != "op" {
			continue
		}
		switch op[1] {
		case "init":
			vs, ok := c22ParseVols(op[3])
			if !ok || strings.ContainsAny(op[2], "/.%") {
				continue
			}
			var volumes []Volume
			for _, v := range vs {
				loc := filepath.Join(c22VolRoot, "vol", v.name)
				os.MkdirAll(loc, 0775)
				volumes = append(volumes, Volume{Location: loc, Weight: v.weight})
			}
			dir := filepath.Join(c22VolRoot, "cfg-"+op[2], "cache")
			os.MkdirAll(dir, 0775)
			var err error
			if p := verifh.Protect(func() { err = initCASVolumes(dir, volumes) }); p != "" {
				t.Op(op[1:], "panic")
				t.PropFail("panic", verifh.Str(p))
				continue
			}
			sets[op[2]] = vs
			lastTbl = ""
			if err != nil {
				t.Op(op[1:], "err")
			} else {
				t.Op(op[1:], "ok")
			}
		case "vol":
			vs, ok := sets[op[2]]
			if !ok {
				continue
			}
			key := op[3]
			if lastTbl != op[2]+"/"+key {
				rh := hrw.NewRendezvousHash(func() hash.Hash { return murmur3.New64() }, hrw.UInt64ToFloat64)
				row := []string{key}
				for _, v := range vs {
					rh.AddNode(filepath.Join(c22VolRoot, "vol", v.name), v.weight)
				}
				for i, nd := range rh.Nodes {
					row = append(row, fmt.Sprintf("%s*%d=%s", vs[i].name, vs[i].weight, c22vScoreTok(nd.Score(key))))
				}
				t.Rec("tbl", row, nil)
				lastTbl = op[2] + "/" + key
			}
			target, err := os.Readlink(filepath.Join(c22VolRoot, "cfg-"+op[2], "cache", key))
			if err != nil {
				t.Op(op[1:], "none")
				continue
			}
			rel, _ := filepath.Rel(filepath.Join(c22VolRoot, "vol"), target)
			t.Op(op[1:], strings.SplitN(rel, "/", 2)[0])
		}
	}
	t.End()
}

func c22VolCase(r *verifh.Rand, vs []c22Vol, orders int, keys []string) verifh.Case {
	var c verifh.Case
	tok := func(perm []int) string {
		var xs []string
		for _, i := range perm {
			xs = append(xs, fmt.Sprintf("%s*%d", vs[i].name, vs[i].weight))
		}
		return verifh.List(xs)
	}
	var tags []string
	for o := 0; o < orders; o++ {
		perm := r.Perm(len(vs))
		if o == 0 {
			for i := range perm {
				perm[i] = i
			}
		} else if o == 1 {
			for i := range perm {
				perm[i] = len(vs) - 1 - i
			}
		}
		tag := string(rune('A' + o))
		tags = append(tags, tag)
		c.Ops = append(c.Ops, []string{"op", "init", tag, tok(perm)})
	}
	for _, k := range keys {
		for _, tag := range tags {
			c.Ops = append(c.Ops, []string{"op", "vol", tag, k})
		}
	}
	return c
}

func TestVerif_C22CASVolumes(t *testing.T) {
	tr := verifh.Open("casvol")
	defer tr.Close()
	cases, replayOnly := verifh.InputCases("casvol")
	for _, c := range cases {
		c22VolExec(tr, c)
		tr.Count("corpus_or_replay_cases", 1)
	}
	if replayOnly {
		return
	}
	var all []string
	for i := 0; i < 256; i++ {
		all = append(all, fmt.Sprintf("%02X", i)) // exactly the subdirectory names initCASVolumes uses
	}
	r := verifh.NewRand(verifh.Seed(), "c22vol")
	for i := 0; i < verifh.Scale(12, 200); i++ {
		k := 1 + r.Intn(6)
		var vs []c22Vol
		for j := 0; j < k; j++ {
			w := 100
			switch r.Intn(3) {
			case 0:
				w = 1 + r.Intn(500)
			case 1:
				w = 1 + r.Intn(3)
			}
			vs = append(vs, c22Vol{fmt.Sprintf("v%d", j), w})
		}
		c22VolExec(tr, c22VolCase(r, vs, 3, all))
		tr.Count("volume_cases", 1)
	}
}
