//go:build verif

package base

import (
	"encoding/binary"
	"fmt"
	"os"
	"path/filepath"
	"sort"
	"strconv"
	"strings"
	"sync"
	"testing"
	"time"

	"github.com/andres-erbsen/clock"
	"github.com/uber/kraken/lib/store/metadata"
	"github.com/uber/kraken/utils/verifh"
)

// C10, inside an LRU eviction (machine "evict").  The file map evicts its oldest entry at the end of
// TryStore: it locks the entry, deletes the entry's file (unless persisted) and removes the entry from the
// map.  Other operations run concurrently with that.  This harness opens the window deterministically: the
// store is built with an entry factory whose entries park in Delete — for one chosen name, once — until
// released.  While the eviction of that name is parked, other operations (on the evicted name and on
// others) are started; then the eviction is released and everything is joined.
//
//	mode=before  the entry parks on entering Delete; the real Delete runs after the release
//	mode=mid     the entry performs Delete's persist check, parks, then removes the directory (the two
//	             steps of localFileEntry.Delete with a slow disk in between)
//
// In-package: the store is assembled from the package's own (unexported) localFileStore and lruFileMap
// with the wrapping factory; everything else goes through FileOp.

type c10Park struct {
	mu      sync.Mutex
	name    string // armed for this name ("" = not armed)
	mode    string
	entered chan struct{}
	release chan struct{}
}

func (p *c10Park) arm(name, mode string) {
	p.mu.Lock()
	defer p.mu.Unlock()
	p.name, p.mode = name, mode
	p.entered = make(chan struct{})
	p.release = make(chan struct{})
}

// take disarms and returns the channels if Delete of name should park.
func (p *c10Park) take(name string) (mode string, entered, release chan struct{}, ok bool) {
	p.mu.Lock()
	defer p.mu.Unlock()
	if p.name == "" || p.name != name {
		return "", nil, nil, false
	}
	p.name = ""
	return p.mode, p.entered, p.release, true
}

func (p *c10Park) disarm() {
	p.mu.Lock()
	defer p.mu.Unlock()
	p.name = ""
}

type c10ParkFactory struct {
	inner FileEntryFactory
	park  *c10Park
}

func (f *c10ParkFactory) Create(name string, state FileState) (FileEntry, error) {
	e, err := f.inner.Create(name, state)
	if err != nil {
		return nil, err
	}
	return &c10ParkEntry{FileEntry: e, park: f.park}, nil
}
func (f *c10ParkFactory) GetRelativePath(name string) string { return f.inner.GetRelativePath(name) }
func (f *c10ParkFactory) ListNames(state FileState) ([]string, error) {
	return f.inner.ListNames(state)
}

type c10ParkEntry struct {
	FileEntry
	park *c10Park
}

func (e *c10ParkEntry) Delete() error {
	mode, entered, release, ok := e.park.take(e.GetName())
	if !ok {
		return e.FileEntry.Delete()
	}
	if mode == "mid" {
		// first half of localFileEntry.Delete: the persist check
		var persist metadata.Persist
		if err := e.FileEntry.GetMetadata(&persist); err != nil {
			if !os.IsNotExist(err) {
				close(entered)
				<-release
				return fmt.Errorf("get persist metadata: %s", err)
			}
		} else if persist.Value {
			close(entered)
			<-release
			return ErrFilePersisted
		}
		close(entered)
		<-release
		// second half: remove the files
		return os.RemoveAll(filepath.Dir(e.FileEntry.GetPath()))
	}
	close(entered)
	<-release
	return e.FileEntry.Delete()
}

type c10eRun struct {
	t     *verifh.T
	dir   string
	clk   *clock.Mock
	state FileState
	fs    FileStore
	park  *c10Park
}

func (r *c10eRun) op() FileOp { return r.fs.NewFileOp().AcceptState(r.state) }

func c10eClass(err error) string {
	switch {
	case err == nil:
		return "ok"
	case err == ErrFilePersisted:
		return "persisted"
	case os.IsNotExist(err):
		return "notexist"
	case os.IsExist(err):
		return "exist"
	default:
		return "fail"
	}
}

func c10eNameOK(n string) bool {
	if len(n) < 4 || len(n) > 16 {
		return false
	}
	for _, c := range n {
		if !(c >= '0' && c <= '9' || c >= 'a' && c <= 'f') {
			return false
		}
	}
	return true
}

// snapshot of <dir>/<2 hex>/<2 hex>/<name>/: name:size|nodata:persist:lat
func (r *c10eRun) snapshot() {
	var toks []string
	l1, _ := os.ReadDir(r.dir)
	for _, a := range l1 {
		l2, _ := os.ReadDir(filepath.Join(r.dir, a.Name()))
		for _, b := range l2 {
			l3, _ := os.ReadDir(filepath.Join(r.dir, a.Name(), b.Name()))
			for _, n := range l3 {
				d := filepath.Join(r.dir, a.Name(), b.Name(), n.Name())
				size := "nodata"
				if fi, err := os.Stat(filepath.Join(d, DefaultDataFileName)); err == nil {
					size = strconv.FormatInt(fi.Size(), 10)
				}
				persist := "-"
				if b, err := os.ReadFile(filepath.Join(d, "_persist")); err == nil {
					if v, err := strconv.ParseBool(string(b)); err == nil {
						persist = verifh.Bool(v)
					} else {
						persist = "?"
					}
				}
				lat := "-"
				if b, err := os.ReadFile(filepath.Join(d, "_last_access_time")); err == nil {
					if v, k := binary.Varint(b); k > 0 {
						lat = strconv.FormatInt(v*int64(time.Second), 10)
					}
				}
				toks = append(toks, fmt.Sprintf("%s:%s:%s:%s", n.Name(), size, persist, lat))
			}
		}
	}
	sort.Strings(toks)
	r.t.Op([]string{"fs"}, verifh.List(toks))
}

// simple runs one plain operation `kind:name` and returns its result class.
func (r *c10eRun) simple(kind, name string) string {
	switch kind {
	case "read":
		f, err := r.op().GetFileReader(name, 0)
		if err == nil {
			f.Close()
		}
		return c10eClass(err)
	case "stat":
		_, err := r.op().GetFileStat(name)
		return c10eClass(err)
	case "persist1":
		_, err := r.op().SetFileMetadata(name, metadata.NewPersist(true))
		return c10eClass(err)
	case "persist0":
		_, err := r.op().SetFileMetadata(name, metadata.NewPersist(false))
		return c10eClass(err)
	case "delete":
		return c10eClass(r.op().DeleteFile(name))
	}
	return "bad"
}

func (r *c10eRun) create(name string, size int64) string {
	err := r.op().CreateFile(name, r.state, size)
	if err == nil {
		if p, perr := r.op().GetFilePath(name); perr == nil {
			os.Chtimes(p, r.clk.Now(), r.clk.Now())
		}
	}
	return c10eClass(err)
}

func (r *c10eRun) persistedOnDisk(name string) bool {
	b, err := os.ReadFile(filepath.Join(r.dir, name[0:2], name[2:4], name, "_persist"))
	if err != nil {
		return false
	}
	v, _ := strconv.ParseBool(string(b))
	return v
}

func (r *c10eRun) do(op []string) bool {
	if len(op) < 2 || op[0] != "op" {
		return false
	}
	a := op[1:]
	switch {
	case len(a) == 3 && a[0] == "create" && c10eNameOK(a[1]):
		size, err := strconv.ParseInt(a[2], 10, 64)
		if err != nil || size < 0 || size > 1<<16 {
			return false
		}
		r.t.Op(a, r.create(a[1], size))
	case len(a) == 2 && (a[0] == "read" || a[0] == "stat" || a[0] == "persist1" || a[0] == "persist0" || a[0] == "delete") && c10eNameOK(a[1]):
		r.t.Op(a, r.simple(a[0], a[1]))
	case len(a) == 2 && a[0] == "tick":
		dt, err := strconv.ParseInt(a[1], 10, 64)
		if err != nil || dt < 0 || dt > int64(1000*time.Hour) {
			return false
		}
		r.clk.Add(time.Duration(dt))
		r.t.Op(a, "ok")
	case len(a) == 6 && a[0] == "evictwin" && c10eNameOK(a[2]) && c10eNameOK(a[4]):
		// evictwin <mode> <new name> <size> <evictee> <window ops kind:name,...>
		mode, trigger, evictee := a[1], a[2], a[4]
		size, err := strconv.ParseInt(a[3], 10, 64)
		if err != nil || size < 0 || size > 1<<16 || (mode != "before" && mode != "mid") {
			return false
		}
		var wops [][2]string
		for _, w := range verifh.Unlist(a[5]) {
			p := strings.SplitN(w, ":", 2)
			if len(p) != 2 || !c10eNameOK(p[1]) {
				return false
			}
			wops = append(wops, [2]string{p[0], p[1]})
		}
		// The window is opened only for an evictee that is not persisted when the eviction starts: then what
		// the operations of the window return does not depend on how far they got before the release.
		armed := !r.persistedOnDisk(evictee)
		if armed {
			r.park.arm(evictee, mode)
		}
		entered, release := r.park.entered, r.park.release
		createRes := make(chan string, 1)
		go func() { createRes <- r.create(trigger, size) }()
		parked := false
		if armed {
			select {
			case <-entered:
				parked = true
			case res := <-createRes:
				createRes <- res // no eviction of that name happened
			case <-time.After(5 * time.Second):
			}
		}
		if !parked {
			r.park.disarm()
			res := <-createRes
			var rs []string
			for _, w := range wops {
				rs = append(rs, c10eWinClass(w[0], r.simple(w[0], w[1])))
			}
			r.t.Op(a, "nopark", "create="+res, "w="+verifh.List(rs))
			break
		}
		results := make([]string, len(wops))
		var wg sync.WaitGroup
		for i, w := range wops {
			wg.Add(1)
			go func(i int, w [2]string) {
				defer wg.Done()
				results[i] = c10eWinClass(w[0], r.simple(w[0], w[1]))
			}(i, w)
			time.Sleep(500 * time.Microsecond) // start them in order
		}
		time.Sleep(3 * time.Millisecond) // let them reach the entry lock (or finish)
		close(release)
		wg.Wait()
		res := <-createRes
		r.t.Op(a, "parked", "create="+res, "w="+verifh.List(results))
	default:
		return false
	}
	return true
}

// c10eWinClass: a delete that started inside the window returns nil when it waited for the eviction and
// ErrNotExist when it only started after it: both mean "gone", recorded as done.
func c10eWinClass(kind, res string) string {
	if kind == "delete" && (res == "ok" || res == "notexist") {
		return "done"
	}
	return res
}

func c10eKV(toks []string, k string) string {
	for _, t := range toks {
		if strings.HasPrefix(t, k+"=") {
			return t[len(k)+1:]
		}
	}
	return ""
}

func c10eExec(t *verifh.T, c verifh.Case) {
	if len(c.Cfg) == 0 {
		c.Cfg = []string{"cap=1", "now=1600000000000000000"}
	}
	capN, _ := strconv.Atoi(c10eKV(c.Cfg, "cap"))
	now, _ := strconv.ParseInt(c10eKV(c.Cfg, "now"), 10, 64)
	dir, err := os.MkdirTemp("", "verifc10e")
	if err != nil {
		panic(err)
	}
	defer os.RemoveAll(dir)
	clk := clock.NewMock()
	clk.Set(time.Unix(0, now))
	park := &c10Park{}
	fs := &localFileStore{
		fileEntryFactory: &c10ParkFactory{inner: NewCASFileEntryFactory(), park: park},
		fileMap:          NewLRUFileMap(capN, clk),
	}
	r := &c10eRun{t: t, dir: dir, clk: clk, state: NewFileState(dir), fs: fs, park: park}
	t.Cfg(c.Cfg...)
	for _, op := range c.Ops {
		op := op
		var did bool
		if p := verifh.Protect(func() { did = r.do(op) }); p != "" {
			t.PropFail("panic", verifh.Str(strings.Join(op, " ")), verifh.Str(p))
			break
		}
		if did {
			r.snapshot()
		}
	}
	t.End()
}

func TestVerif_C10Evict(t *testing.T) {
	tr := verifh.Open("evict")
	defer tr.Close()
	cases, replayOnly := verifh.InputCases("evict")
	for _, c := range cases {
		c10eExec(tr, c)
		tr.Count("corpus_or_replay_cases", 1)
	}
	if replayOnly {
		return
	}
	nowTok := "now=1600000000000000000"
	A, B, T := "aa01", "ab02", "ac03"
	windows := [][]string{
		{}, {"read:" + A}, {"persist1:" + A}, {"delete:" + A}, {"stat:" + A},
		{"read:" + A, "persist1:" + A}, {"persist1:" + A, "read:" + T}, {"stat:" + A, "delete:" + A}, {"persist1:" + T, "persist1:" + A},
	}
	posts := [][][]string{
		{}, {{"op", "persist1", A}}, {{"op", "delete", A}}, {{"op", "read", A}, {"op", "persist1", A}},
		{{"op", "persist1", A}, {"op", "delete", A}}, {{"op", "stat", A}, {"op", "persist1", A}, {"op", "read", A}},
	}
	for _, capN := range []int{1, 2} {
		for _, mode := range []string{"before", "mid"} {
			for wi, w := range windows {
				for pi, post := range posts {
					if !verifh.Thorough() && (wi+pi+capN)%2 == 1 && wi > 2 {
						continue
					}
					ops := [][]string{{"op", "create", A, "3"}}
					if capN == 2 {
						ops = append(ops, []string{"op", "create", B, "5"})
					}
					ops = append(ops, []string{"op", "evictwin", mode, T, "7", A, verifh.List(w)})
					ops = append(ops, post...)
					c10eExec(tr, verifh.Case{Cfg: []string{"cap=" + strconv.Itoa(capN), nowTok}, Ops: ops})
					tr.Count("window_cases", 1)
				}
			}
		}
	}
	// the evictee is persisted when the eviction starts (no window is opened), or nothing is evicted
	for _, pre := range [][]string{{"op", "persist1", A}, {"op", "delete", A}} {
		ops := [][]string{{"op", "create", A, "3"}, pre, {"op", "evictwin", "mid", T, "7", A, "read:" + A + ",persist1:" + A}, {"op", "delete", A}}
		c10eExec(tr, verifh.Case{Cfg: []string{"cap=1", nowTok}, Ops: ops})
		tr.Count("nowindow_cases", 1)
	}
}
