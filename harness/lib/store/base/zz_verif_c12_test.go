//go:build verif

package base_test

import (
	"fmt"
	"io"
	"os"
	"path/filepath"
	"strconv"
	"testing"

	"github.com/uber/kraken/lib/store/base"
	"github.com/uber/kraken/utils/verifh"
)

// C12 harness (1/3): base.BufferReadWriter against a real os.File, same operation list on both.
//   brw cfg handles=1 cap=<initial capacity>
//   brw op write 0 x<hex> | writeat 0 x<hex> <off> | read 0 <n> | readat 0 <n> <off> | seek 0 <whence> <delta> | size
//       => S <obs> sz=<n> pos=<n> O <obs> sz=<n> pos=<n>

type c12File interface {
	io.Reader
	io.ReaderAt
	io.Writer
	io.WriterAt
	io.Seeker
}

func c12Obs(kind string, n int, data []byte, off int64, err error) string {
	if err != nil && err != io.EOF {
		return "err"
	}
	switch kind {
	case "w":
		return "n=" + strconv.Itoa(n)
	case "r":
		return verifh.Hex(data[:n])
	default:
		return "off=" + strconv.FormatInt(off, 10)
	}
}

// c12Apply runs one operation on f and returns its observation token ("" = not a data operation).
func c12Apply(f c12File, op []string) string {
	atoi := func(s string) int64 { v, _ := strconv.ParseInt(s, 10, 64); return v }
	switch {
	case op[1] == "write" && len(op) == 4:
		p, _ := verifh.Unhex(op[3])
		n, err := f.Write(p)
		return c12Obs("w", n, nil, 0, err)
	case op[1] == "writeat" && len(op) == 5:
		p, _ := verifh.Unhex(op[3])
		n, err := f.WriteAt(p, atoi(op[4]))
		return c12Obs("w", n, nil, 0, err)
	case op[1] == "read" && len(op) == 4:
		buf := make([]byte, atoi(op[3]))
		n, err := f.Read(buf)
		return c12Obs("r", n, buf, 0, err)
	case op[1] == "readat" && len(op) == 5:
		buf := make([]byte, atoi(op[3]))
		n, err := f.ReadAt(buf, atoi(op[4]))
		return c12Obs("r", n, buf, 0, err)
	case op[1] == "seek" && len(op) == 5:
		off, err := f.Seek(atoi(op[4]), int(atoi(op[3])))
		return c12Obs("s", 0, nil, off, err)
	}
	return ""
}

func c12Exec(t *verifh.T, c verifh.Case, dir string) {
	capacity := 0
	for _, k := range c.Cfg {
		fmt.Sscanf(k, "cap=%d", &capacity)
	}
	b := base.NewBufferReadWriter(uint64(capacity))
	path := filepath.Join(dir, "f")
	os.Remove(path)
	f, err := os.OpenFile(path, os.O_RDWR|os.O_CREATE|os.O_TRUNC, 0644)
	if err != nil {
		panic(err)
	}
	defer f.Close()
	t.Cfg("handles=1", fmt.Sprintf("cap=%d", capacity))
	for _, op := range c.Ops {
		if len(op) < 2 || op[0] != "op" || (len(op) > 2 && op[1] != "size" && op[2] != "0") {
			continue
		}
		var so, oo string
		if op[1] == "size" {
			so = "size=" + strconv.FormatInt(b.Size(), 10)
			fi, _ := f.Stat()
			oo = "size=" + strconv.FormatInt(fi.Size(), 10)
		} else {
			if p := verifh.Protect(func() { so = c12Apply(b, op) }); p != "" {
				so = "panic"
				t.PropFail("panic", verifh.Str(p))
			}
			oo = c12Apply(f, op)
			if so == "" || oo == "" {
				continue
			}
		}
		bpos, _ := b.Seek(0, io.SeekCurrent)
		fpos, _ := f.Seek(0, io.SeekCurrent)
		fi, _ := f.Stat()
		t.Op(op[1:], "S", so, "sz="+strconv.FormatInt(b.Size(), 10), "pos="+strconv.FormatInt(bpos, 10),
			"O", oo, "sz="+strconv.FormatInt(fi.Size(), 10), "pos="+strconv.FormatInt(fpos, 10))
	}
	t.End()
}

func c12Alphabet(maxLen, maxOff int, whences []int) [][]string {
	var ops [][]string
	pay := func(n int) string { return verifh.Hex([]byte("ABCDEFGHIJ")[:n]) }
	for l := 0; l <= maxLen; l++ {
		ops = append(ops, []string{"op", "write", "0", pay(l)}, []string{"op", "read", "0", strconv.Itoa(l)})
		for _, off := range []int{0, 1, maxOff / 2, maxOff} {
			ops = append(ops, []string{"op", "writeat", "0", pay(l), strconv.Itoa(off)},
				[]string{"op", "readat", "0", strconv.Itoa(l), strconv.Itoa(off)})
		}
	}
	for _, w := range whences {
		for _, d := range []int{-3, -1, 0, 1, 2, maxOff} {
			ops = append(ops, []string{"op", "seek", "0", strconv.Itoa(w), strconv.Itoa(d)})
		}
	}
	ops = append(ops, []string{"op", "size"})
	return ops
}

func c12Random(r *verifh.Rand, handles int, n int, withinExtent bool) [][]string {
	var ops [][]string
	size := 0 // the generator's own estimate of the file size, used to aim offsets around the end
	for i := 0; i < n; i++ {
		h := strconv.Itoa(r.Intn(handles))
		aim := func() int {
			switch r.Intn(4) {
			case 0:
				return r.Intn(size + 1)
			case 1:
				return size + r.Intn(12)
			case 2:
				return size
			}
			return r.Intn(40)
		}
		l := r.Intn(6)
		if r.Chance(1, 10) {
			l = 20 + r.Intn(60)
		}
		if r.Chance(1, 5) {
			l = 0
		}
		switch r.Intn(7) {
		case 0:
			ops = append(ops, []string{"op", "write", h, verifh.Hex(r.Bytes(l))})
			size += l
		case 1:
			off := aim()
			ops = append(ops, []string{"op", "writeat", h, verifh.Hex(r.Bytes(l)), strconv.Itoa(off)})
			if l > 0 && off+l > size {
				size = off + l
			}
		case 2:
			ops = append(ops, []string{"op", "read", h, strconv.Itoa(l)})
		case 3:
			ops = append(ops, []string{"op", "readat", h, strconv.Itoa(l), strconv.Itoa(aim())})
		case 4, 5:
			w := r.Intn(3)
			d := aim()
			switch w {
			case 1:
				d = r.Intn(9) - 4
			case 2:
				d = -r.Intn(size + 2)
				if !withinExtent && r.Chance(1, 3) {
					d = r.Intn(6)
				}
			}
			if withinExtent && w == 0 && d > size {
				d = size
			}
			ops = append(ops, []string{"op", "seek", h, strconv.Itoa(w), strconv.Itoa(d)})
		default:
			ops = append(ops, []string{"op", "size"})
		}
	}
	return ops
}

func TestVerif_C12BufRW(t *testing.T) {
	tr := verifh.Open("brw")
	defer tr.Close()
	dir, err := os.MkdirTemp("", "verif-c12-brw-")
	if err != nil {
		panic(err)
	}
	defer os.RemoveAll(dir)
	cases, replayOnly := verifh.InputCases("brw")
	for _, c := range cases {
		c12Exec(tr, c, dir)
		tr.Count("corpus_or_replay_cases", 1)
	}
	if replayOnly {
		return
	}
	// (a) bounded-exhaustive: lengths 0..2, offsets {0,1,6,12}, all whences, depth 2 (3 thorough)
	alpha := c12Alphabet(2, 12, []int{0, 1, 2})
	depth := verifh.Scale(2, 3)
	var rec func(prefix [][]string, d int)
	rec = func(prefix [][]string, d int) {
		if d == 0 {
			c12Exec(tr, verifh.Case{Cfg: []string{"cap=4"}, Ops: append(prefix[:len(prefix):len(prefix)], []string{"op", "size"})}, dir)
			tr.Count("exhaustive_cases", 1)
			return
		}
		for _, o := range alpha {
			rec(append(prefix[:len(prefix):len(prefix)], o), d-1)
		}
	}
	for d := 1; d <= depth; d++ {
		rec(nil, d)
	}
	// (b) random long histories, offsets aimed around the end, zero-length payloads, seeks past the end
	r := verifh.NewRand(verifh.Seed(), "c12brw")
	for i := 0; i < verifh.Scale(2000, 100000); i++ {
		ops := c12Random(r, 1, 1+r.Intn(40), false)
		if i < 2 {
			tr.Sample(fmt.Sprint(ops))
		}
		c12Exec(tr, verifh.Case{Cfg: []string{fmt.Sprintf("cap=%d", r.Intn(64))}, Ops: ops}, dir)
		tr.Count("random_cases", 1)
	}
	// (c) malformed: negative offsets, invalid whence
	for i := 0; i < verifh.Scale(200, 5000); i++ {
		ops := c12Random(r, 1, 1+r.Intn(10), false)
		ops = append(ops, []string{"op", "writeat", "0", "x41", "-1"}, []string{"op", "readat", "0", "2", "-3"},
			[]string{"op", "seek", "0", "7", "1"}, []string{"op", "seek", "0", "0", "-1"}, []string{"op", "size"})
		c12Exec(tr, verifh.Case{Cfg: []string{"cap=8"}, Ops: ops}, dir)
		tr.Count("malformed_cases", 1)
	}
}
