//go:build verif

package store

import (
	"fmt"
	"strconv"
	"testing"

	"github.com/uber/kraken/utils/verifh"
)

// C13, write-through caller: the same executor as C01's harness (zz_verif_c01_test.go is injected with
// this file), with a generator aimed at the reservation accounting: Stat sizes that differ from the
// streamed length, failing and duplicate writes, capacity-exact reservations, drain and TTL removal.
// After every mutating call the executor records TotalBytes/NumEntries and the memory-cache presence
// and size of every name.

func TestVerif_C13Store(t *testing.T) {
	tr := verifh.Open("castore")
	defer tr.Close()
	cases, replayOnly := verifh.InputCases("castore")
	for _, c := range cases {
		c01Exec(tr, c)
		tr.Count("corpus_or_replay_cases", 1)
	}
	if replayOnly {
		return
	}
	A := c01MkBlob([]byte("abcde"))
	B := c01MkBlob([]byte("xyz"))
	hA, hB := verifh.Hex(A.data), verifh.Hex(B.data)
	alpha := [][]string{
		c01WB(A.name, 5, 2, hA),
		c01WB(A.name, 3, 2, hA, hA), // Stat says 3, the backend streams 5
		c01WB(A.name, 7, 2, hA, hA), // Stat says 7, the backend streams 5
		c01WB(A.name, 5, 2, hA+"!", hA),
		c01WB(B.name, 3, 2, hB),
		c01WB(B.name, 4, 2, hB, hB),
		{"op", "drain"},
		{"op", "tick", "11000000000"},
		{"op", "ttl"},
	}
	cfgs := [][]string{
		{"mem=1", "max=8", "retries=1", "ttl=10000000000", "skip=0"},
		{"mem=1", "max=64", "retries=1", "ttl=10000000000", "skip=0"},
	}
	var rec func(cfg []string, prefix [][]string, d int)
	rec = func(cfg []string, prefix [][]string, d int) {
		if d == 0 {
			c01Exec(tr, verifh.Case{Cfg: cfg, Ops: prefix})
			tr.Count("exhaustive_cases", 1)
			return
		}
		for _, o := range alpha {
			rec(cfg, append(prefix[:len(prefix):len(prefix)], o), d-1)
		}
	}
	for ci, cfg := range cfgs {
		dd := verifh.Scale(3, 4)
		if ci > 0 {
			dd--
		}
		for d := 1; d <= dd; d++ {
			rec(cfg, nil, d)
		}
	}
	r := verifh.NewRand(verifh.Seed(), "c13store")
	for i := 0; i < verifh.Scale(200, 10000); i++ {
		var pool []c01Blob
		for j := 0; j < 3; j++ {
			pool = append(pool, c01MkBlob(r.Bytes(r.Intn(9))))
		}
		max := []int{0, 4, 8, 9, 16, 17, 100}[r.Intn(7)]
		cfg := []string{"mem=1", "max=" + strconv.Itoa(max), "retries=" + strconv.Itoa(r.Intn(3)),
			"ttl=" + []string{"0", "5000000000"}[r.Intn(2)], "skip=" + verifh.Bool(r.Chance(1, 10))}
		var ops [][]string
		n := 3 + r.Intn(20)
		for j := 0; j < n; j++ {
			switch k := r.Intn(100); {
			case k < 60:
				p := pool[r.Intn(3)]
				size := len(p.data)
				switch x := r.Intn(10); {
				case x < 2:
					size = r.Intn(12)
				case x < 3 && size > 0:
					size--
				case x < 4:
					size++
				}
				var atts []string
				for a := 0; a < 1+r.Intn(2); a++ {
					q := p
					if r.Chance(1, 6) {
						q = pool[r.Intn(3)]
					}
					tok := verifh.Hex(q.data)
					if r.Chance(1, 8) {
						tok += "!"
					}
					atts = append(atts, tok)
				}
				ops = append(ops, c01WB(p.name, size, 1+r.Intn(4), atts...))
				tr.Count("random_op_writeBlob", 1)
			case k < 78:
				ops = append(ops, []string{"op", "drain"})
			case k < 86:
				ops = append(ops, []string{"op", "tick", []string{"1000000000", "6000000000", "301000000000"}[r.Intn(3)]})
			case k < 94:
				ops = append(ops, []string{"op", "ttl"})
			default:
				p := pool[r.Intn(3)]
				ops = append(ops, []string{"op", "createCache", p.name, verifh.Hex(p.data)})
			}
		}
		if i < 2 {
			tr.Sample(fmt.Sprint(cfg, ops))
		}
		c01Exec(tr, verifh.Case{Cfg: cfg, Ops: ops})
		tr.Count("random_cases", 1)
	}
}
