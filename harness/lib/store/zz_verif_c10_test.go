//go:build verif

package store

import (
	"encoding/binary"
	"fmt"
	"os"
	"path/filepath"
	"sort"
	"strconv"
	"strings"
	"testing"
	"time"

	"github.com/andres-erbsen/clock"
	"github.com/uber-go/tally"
	"github.com/uber/kraken/lib/store/base"
	"github.com/uber/kraken/lib/store/metadata"
	"github.com/uber/kraken/utils/diskspaceutil"
	"github.com/uber/kraken/utils/verifh"
)

// C10 harness: a content-addressed file store with an LRU file map (base.NewCASFileStoreWithLRUMap, as
// the origin's cache store) on a temp dir with a mock clock, driven through base.FileOp, and the
// cleanup manager's passes (cleanup, ttlBasedCleanup, customPolicyBasedCleanup with an injected disk
// usage).  After every operation the state directory is read back directly from disk (names, sizes,
// mtimes, _persist and _last_access_time sidecars): observing through the FileOp API would itself
// reload entries into the map and trigger evictions.
//
// In-package because the cleanup manager and its passes are unexported.

var c10Epoch = time.Unix(1600000000, 0)

type c10Run struct {
	t     *verifh.T
	dir   string
	clk   *clock.Mock
	state base.FileState
	fs    base.FileStore
	m     *cleanupManager
}

func (r *c10Run) op() base.FileOp { return r.fs.NewFileOp().AcceptState(r.state) }

func (r *c10Run) now() int64 { return r.clk.Now().UnixNano() }

func c10Class(err error) string {
	switch {
	case err == nil:
		return "ok"
	case err == base.ErrFilePersisted:
		return "persisted"
	case os.IsNotExist(err):
		return "notexist"
	case os.IsExist(err):
		return "exist"
	default:
		return "fail"
	}
}

// snapshot reads <dir>/<s1>/<s2>/<name>/{data,_persist,_last_access_time} from disk.
func (r *c10Run) snapshot() {
	var toks []string
	l1, _ := os.ReadDir(r.dir)
	for _, a := range l1 {
		l2, _ := os.ReadDir(filepath.Join(r.dir, a.Name()))
		for _, b := range l2 {
			l3, _ := os.ReadDir(filepath.Join(r.dir, a.Name(), b.Name()))
			for _, n := range l3 {
				d := filepath.Join(r.dir, a.Name(), b.Name(), n.Name())
				fi, err := os.Stat(filepath.Join(d, base.DefaultDataFileName))
				if err != nil {
					continue
				}
				persist := "-"
				if b, err := os.ReadFile(filepath.Join(d, "_persist")); err == nil {
					if v, err := strconv.ParseBool(string(b)); err == nil {
						persist = verifh.Bool(v)
					} else {
						persist = "?"
					}
				}
				lat := "-"
				if b, err := os.ReadFile(filepath.Join(d, "_last_access_time")); err == nil {
					if v, k := binary.Varint(b); k > 0 {
						lat = strconv.FormatInt(v*int64(time.Second), 10)
					} else {
						lat = "?"
					}
				}
				toks = append(toks, fmt.Sprintf("%s:%d:%d:%s:%s", n.Name(), fi.Size(), fi.ModTime().UnixNano(), persist, lat))
			}
		}
	}
	sort.Strings(toks)
	r.t.Op([]string{"fs"}, verifh.List(toks))
}

func c10NameOK(n string) bool {
	if len(n) < 4 || len(n) > 16 {
		return false
	}
	for _, c := range n {
		if !(c >= '0' && c <= '9' || c >= 'a' && c <= 'f') {
			return false
		}
	}
	return true
}

func (r *c10Run) usageFn(total, used uint64) diskUsageFn {
	return func() (diskspaceutil.UsageInfo, error) {
		util := 0
		if total > 0 {
			util = int(used * 100 / total)
		}
		return diskspaceutil.UsageInfo{TotalBytes: total, UsedBytes: used, FreeBytes: total - used, Util: util}, nil
	}
}

func (r *c10Run) do(op []string) bool {
	if len(op) < 2 || op[0] != "op" {
		return false
	}
	a := op[1:]
	switch {
	case len(a) == 3 && a[0] == "create" && c10NameOK(a[1]):
		size, err := strconv.ParseInt(a[2], 10, 64)
		if err != nil || size < 0 || size > 1<<20 {
			return false
		}
		err = r.op().CreateFile(a[1], r.state, size)
		if err == nil {
			// the data file's mtime is the wall clock; pin it to the injected clock
			if p, perr := r.op().GetFilePath(a[1]); perr == nil {
				os.Chtimes(p, r.clk.Now(), r.clk.Now())
			}
		}
		r.t.Op(a, c10Class(err))
	case len(a) == 3 && a[0] == "setmtime" && c10NameOK(a[1]):
		t, err := strconv.ParseInt(a[2], 10, 64)
		if err != nil {
			return false
		}
		// directly on disk: no FileOp involved, the map is not touched
		p := filepath.Join(r.dir, a[1][0:2], a[1][2:4], a[1], base.DefaultDataFileName)
		if _, err := os.Stat(p); err == nil {
			os.Chtimes(p, time.Unix(0, t), time.Unix(0, t))
		}
		r.t.Op(a, "ok")
	case len(a) == 2 && a[0] == "read" && c10NameOK(a[1]):
		f, err := r.op().GetFileReader(a[1], 0)
		if err == nil {
			f.Close()
		}
		r.t.Op(a, c10Class(err))
	case len(a) == 2 && a[0] == "stat" && c10NameOK(a[1]):
		_, err := r.op().GetFileStat(a[1])
		r.t.Op(a, c10Class(err))
	case len(a) == 3 && a[0] == "persist" && c10NameOK(a[1]):
		_, err := r.op().SetFileMetadata(a[1], metadata.NewPersist(a[2] == "1"))
		r.t.Op(a, c10Class(err))
	case len(a) == 2 && a[0] == "unpersist" && c10NameOK(a[1]):
		err := r.op().DeleteFileMetadata(a[1], &metadata.Persist{})
		r.t.Op(a, c10Class(err))
	case len(a) == 3 && a[0] == "setlat" && c10NameOK(a[1]):
		t, err := strconv.ParseInt(a[2], 10, 64)
		if err != nil {
			return false
		}
		_, err = r.op().SetFileMetadata(a[1], metadata.NewLastAccessTime(time.Unix(0, t)))
		r.t.Op(a, c10Class(err))
	case len(a) == 2 && a[0] == "delete" && c10NameOK(a[1]):
		err := r.op().DeleteFile(a[1])
		r.t.Op(a, c10Class(err))
	case len(a) == 2 && a[0] == "tick":
		dt, err := strconv.ParseInt(a[1], 10, 64)
		if err != nil || dt < 0 || dt > int64(1000*time.Hour) {
			return false
		}
		r.clk.Add(time.Duration(dt))
		r.t.Op(a, "ok")
		return true
	case len(a) == 6 && a[0] == "cleanupttl":
		tti, e1 := strconv.ParseInt(a[1], 10, 64)
		ttl, e2 := strconv.ParseInt(a[2], 10, 64)
		pct, e3 := strconv.Atoi(a[3])
		total, e4 := strconv.ParseUint(a[4], 10, 64)
		used, e5 := strconv.ParseUint(a[5], 10, 64)
		if e1 != nil || e2 != nil || e3 != nil || e4 != nil || e5 != nil || pct < 0 || pct > 100 {
			return false
		}
		var scanned int64
		var err error
		if pct == 0 && total == 0 && used == 0 {
			// the periodic job's entry point in its default mode
			scanned, err = r.m.cleanup(r.op(), CleanupConfig{TTI: time.Duration(tti), TTL: time.Duration(ttl)}, cachedInAgentPolicy)
		} else {
			scanned, err = r.m.ttlBasedCleanup(r.op(), time.Duration(tti), time.Duration(ttl), pct, r.usageFn(total, used))
		}
		if err != nil {
			r.t.Op(a, "fail")
		} else {
			r.t.Op(a, strconv.FormatInt(scanned, 10))
		}
	case len(a) >= 7 && a[0] == "job":
		// the periodic job as wired by addJob: defaults applied, ticker on the injected clock, the policy
		// passed to cleanup(), which reads the real disk usage and dispatches.  The usage the dispatcher
		// sees is measured here and recorded (environment observation).
		interval, e0 := strconv.ParseInt(a[1], 10, 64)
		tti, e1 := strconv.ParseInt(a[2], 10, 64)
		ttl, e2 := strconv.ParseInt(a[3], 10, 64)
		athr, e3 := strconv.Atoi(a[4])
		attl, e4 := strconv.ParseInt(a[5], 10, 64)
		lower, e5 := strconv.Atoi(a[6])
		if e0 != nil || e1 != nil || e2 != nil || e3 != nil || e4 != nil || e5 != nil || interval <= 0 || interval > int64(100*time.Hour) ||
			athr < 0 || lower < 0 || lower > 100 {
			return false
		}
		du, err := diskspaceutil.Usage()
		if err != nil {
			return false
		}
		// bytes on disk before the pass: what every mode of cleanup() reports as usage when it has returned
		var before int64
		filepath.Walk(r.dir, func(p string, fi os.FileInfo, err error) error {
			if err == nil && !fi.IsDir() && fi.Name() == base.DefaultDataFileName {
				before += fi.Size()
			}
			return nil
		})
		scope := tally.NewTestScope("", nil)
		m := newCleanupManager(r.clk, scope)
		m.addJob("verif", CleanupConfig{Interval: time.Duration(interval), TTI: time.Duration(tti), TTL: time.Duration(ttl),
			AggressiveThreshold: athr, AggressiveTTL: time.Duration(attl), AggressiveLowerThreshold: lower}, r.op())
		r.clk.Add(time.Duration(interval)) // the ticker fires once
		// the job sets its disk_usage gauge to the scanned bytes when the pass has returned
		ran := "timeout"
		deadline := time.Now().Add(10 * time.Second)
		if before == 0 {
			time.Sleep(5 * time.Millisecond) // nothing on disk: nothing the pass could change
			ran = "ran"
		}
		for ran != "ran" && !time.Now().After(deadline) {
			for _, g := range scope.Snapshot().Gauges() {
				if g.Name() == "disk_usage" && g.Value() > 0 {
					ran = "ran"
				}
			}
			time.Sleep(100 * time.Microsecond)
		}
		m.stop()
		r.t.Op([]string{"job", a[1], a[2], a[3], a[4], a[5], a[6], strconv.Itoa(du.Util), strconv.FormatUint(du.TotalBytes, 10), strconv.FormatUint(du.UsedBytes, 10)}, ran)
	case len(a) == 4 && a[0] == "cleanuppolicy":
		pct, e3 := strconv.Atoi(a[1])
		total, e4 := strconv.ParseUint(a[2], 10, 64)
		used, e5 := strconv.ParseUint(a[3], 10, 64)
		if e3 != nil || e4 != nil || e5 != nil || pct < 0 || pct > 100 {
			return false
		}
		usage, err := r.m.customPolicyBasedCleanup(r.op(), CleanupConfig{AggressiveLowerThreshold: pct}, cachedInAgentPolicy, r.usageFn(total, used))
		if err != nil {
			r.t.Op(a, "fail")
		} else {
			r.t.Op(a, strconv.FormatInt(usage, 10))
		}
	default:
		return false
	}
	return true
}

func c10KV(toks []string, k string) string {
	for _, t := range toks {
		if strings.HasPrefix(t, k+"=") {
			return t[len(k)+1:]
		}
	}
	return ""
}

func c10Exec(t *verifh.T, c verifh.Case) {
	if len(c.Cfg) == 0 {
		c.Cfg = []string{"cap=0", "now=" + strconv.FormatInt(c10Epoch.UnixNano(), 10)}
	}
	capN, _ := strconv.Atoi(c10KV(c.Cfg, "cap"))
	now, _ := strconv.ParseInt(c10KV(c.Cfg, "now"), 10, 64)
	dir, err := os.MkdirTemp("", "verifc10")
	if err != nil {
		panic(err)
	}
	defer os.RemoveAll(dir)
	clk := clock.NewMock()
	clk.Set(time.Unix(0, now))
	r := &c10Run{t: t, dir: dir, clk: clk, state: base.NewFileState(dir),
		fs: base.NewCASFileStoreWithLRUMap(capN, clk), m: newCleanupManager(clk, tally.NoopScope)}
	defer r.m.stop()
	t.Cfg(c.Cfg...)
	for _, op := range c.Ops {
		op := op
		var did bool
		if p := verifh.Protect(func() { did = r.do(op) }); p != "" {
			t.PropFail("panic", verifh.Str(strings.Join(op, " ")), verifh.Str(p))
			break
		}
		if did {
			r.snapshot()
		}
	}
	t.End()
}

func TestVerif_C10(t *testing.T) {
	tr := verifh.Open("fstore")
	defer tr.Close()
	cases, replayOnly := verifh.InputCases("fstore")
	for _, c := range cases {
		c10Exec(tr, c)
		tr.Count("corpus_or_replay_cases", 1)
	}
	if replayOnly {
		return
	}
	now0 := c10Epoch.UnixNano()
	H := int64(time.Hour)
	S := int64(time.Second)
	nowTok := "now=" + strconv.FormatInt(now0, 10)
	tti, ttl := strconv.FormatInt(6*H, 10), strconv.FormatInt(24*H, 10)

	// (a) bounded-exhaustive: three files, map capacity 0 (no eviction) and 2 (evictions and reloads)
	alpha := [][]string{
		{"op", "create", "aa01", "3"}, {"op", "create", "ab02", "5"}, {"op", "create", "ac03", "7"},
		{"op", "read", "aa01"}, {"op", "stat", "ab02"},
		{"op", "persist", "aa01", "1"}, {"op", "persist", "aa01", "0"}, {"op", "unpersist", "aa01"},
		{"op", "delete", "aa01"}, {"op", "delete", "ab02"},
		{"op", "tick", strconv.FormatInt(6*H+S, 10)}, {"op", "tick", strconv.FormatInt(18*H, 10)},
		{"op", "cleanupttl", tti, ttl, "0", "0", "0"},
		{"op", "cleanuppolicy", "50", "20", "15"},
		{"op", "job", strconv.FormatInt(int64(30*time.Minute), 10), "0", ttl, "0", "0", "0"}, // TTI left to the default (6 h)
	}
	var rec func(cfg []string, prefix [][]string, d int)
	rec = func(cfg []string, prefix [][]string, d int) {
		if d == 0 {
			c10Exec(tr, verifh.Case{Cfg: cfg, Ops: prefix})
			tr.Count("exhaustive_cases", 1)
			return
		}
		for _, o := range alpha {
			rec(cfg, append(prefix[:len(prefix):len(prefix)], o), d-1)
		}
	}
	// quick: the full alphabet to depth 2 and its core (two creates, persist, delete, the idle-limit tick, the
	// two passes, a read) to depth 3, for both capacities; thorough: full alphabet depth 3, core depth 4
	core := [][]string{alpha[0], alpha[1], alpha[3], alpha[5], alpha[8], alpha[10], alpha[12], alpha[13]}
	recWith := func(al [][]string, cfg []string, d int) {
		var go_ func(prefix [][]string, d int)
		go_ = func(prefix [][]string, d int) {
			if d == 0 {
				c10Exec(tr, verifh.Case{Cfg: cfg, Ops: prefix})
				tr.Count("exhaustive_cases", 1)
				return
			}
			for _, o := range al {
				go_(append(prefix[:len(prefix):len(prefix)], o), d-1)
			}
		}
		go_(nil, d)
	}
	_ = rec
	for _, cfg := range [][]string{{"cap=0", nowTok}, {"cap=2", nowTok}, {"cap=1", nowTok}} {
		for d := 1; d <= verifh.Scale(2, 3); d++ {
			recWith(alpha, cfg, d)
		}
		recWith(core, cfg, verifh.Scale(3, 4))
	}

	// (a') access streaks: a file opened again and again with every gap just below / at / above the map's
	// time resolution (5 min), for longer than the idle limit, next to a file nobody touches; then a pass.
	// The on-disk access time may lag by less than the resolution, never by the length of the streak.
	{
		res := int64(5 * time.Minute)
		tti20 := strconv.FormatInt(int64(20*time.Minute), 10)
		for _, capN := range []string{"cap=0", "cap=3"} {
			for _, gap := range []int64{res - S, res, res + S, res / 2} {
				for _, k := range []int{5, 6, 9} {
					for _, via := range []string{"read", "persist"} {
						ops := [][]string{{"op", "create", "aa01", "4"}, {"op", "create", "ab02", "4"}}
						for i := 0; i < k; i++ {
							ops = append(ops, []string{"op", "tick", strconv.FormatInt(gap, 10)})
							if via == "read" {
								ops = append(ops, []string{"op", "read", "aa01"})
							} else {
								ops = append(ops, []string{"op", "persist", "aa01", "0"}) // a metadata write is an access too
							}
						}
						ops = append(ops, []string{"op", "cleanupttl", tti20, "0", "0", "0", "0"},
							[]string{"op", "tick", strconv.FormatInt(int64(20*time.Minute)+S, 10)},
							[]string{"op", "cleanupttl", tti20, "0", "0", "0", "0"})
						c10Exec(tr, verifh.Case{Cfg: []string{capN, nowTok}, Ops: ops})
						tr.Count("streak_cases", 1)
					}
				}
			}
		}
	}

	// (b) random: file sets with ages on both sides of TTI / TTL (±1 s), persist flags, capacities 0..3
	r := verifh.NewRand(verifh.Seed(), "c10")
	names := []string{"aa01", "ab02", "ac03", "ba04", "bb05"}
	for i := 0; i < verifh.Scale(300, 20000); i++ {
		capN := []int{0, 0, 1, 2, 3, 6}[r.Intn(6)]
		cfg := []string{"cap=" + strconv.Itoa(capN), nowTok}
		var ops [][]string
		nf := r.Intn(6)
		clock := now0
		used := map[int64]bool{}
		for j := 0; j < nf; j++ {
			n := names[j%len(names)]
			ops = append(ops, []string{"op", "create", n, strconv.Itoa(1 + r.Intn(9))})
			// download time (mtime) and access time on both sides of the limits; access times are kept
			// distinct (whole seconds) so that the policy order has no ties
			age := []int64{0, 6*H - S, 6 * H, 6*H + S, 24*H - S, 24 * H, 24*H + S, 30 * H}[r.Intn(8)]
			ops = append(ops, []string{"op", "setmtime", n, strconv.FormatInt(clock-age, 10)})
			if r.Chance(4, 5) {
				var lat int64
				for {
					lat = clock - []int64{0, S, 2 * S, 46 * 60 * S, 6*H - S, 6 * H, 6*H + S, 7 * H, 25 * H}[r.Intn(9)] - int64(r.Intn(50))*S
					jitter := int64(r.Intn(1000)) * 1000000 // the sidecar keeps whole seconds
					if r.Chance(1, 3) {
						// exactly at / around the policy's class boundaries relative to the download time (mtime):
						// |mtime - lat| in {1 s, 45 min} ± 1 s
						lat = clock - age + []int64{S, -S, 2 * S, -2 * S, 2699 * S, 2700 * S, 2701 * S, -2699 * S, -2700 * S, -2701 * S}[r.Intn(10)]
						jitter = 0
					}
					if !used[lat/S] {
						used[lat/S] = true
						lat += jitter
						break
					}
				}
				ops = append(ops, []string{"op", "setlat", n, strconv.FormatInt(lat, 10)})
			}
			if r.Chance(1, 3) {
				ops = append(ops, []string{"op", "persist", n, verifh.Bool(r.Chance(3, 4))})
			}
		}
		n := 1 + r.Intn(10)
		for j := 0; j < n; j++ {
			nm := names[r.Intn(len(names))]
			if nf > 0 && r.Chance(4, 5) {
				nm = names[r.Intn(nf)%len(names)]
			}
			switch k := r.Intn(100); {
			case k < 15:
				ops = append(ops, []string{"op", "read", nm})
			case k < 22:
				ops = append(ops, []string{"op", "stat", nm})
			case k < 32:
				ops = append(ops, []string{"op", "persist", nm, verifh.Bool(r.Chance(2, 3))})
			case k < 37:
				ops = append(ops, []string{"op", "unpersist", nm})
			case k < 47:
				ops = append(ops, []string{"op", "delete", nm})
			case k < 50 && nf > 0:
				// a short access streak on one file with gaps around the time resolution
				gap := []int64{299 * S, 300 * S, 301 * S, 150 * S}[r.Intn(4)]
				for x := 0; x < 2+r.Intn(6); x++ {
					clock += gap
					ops = append(ops, []string{"op", "tick", strconv.FormatInt(gap, 10)}, []string{"op", "read", nm})
				}
				ops = append(ops, []string{"op", "cleanupttl", strconv.FormatInt(int64(r.Intn(3)+1)*600*S, 10), "0", "0", "0", "0"})
				tr.Count("random_streaks", 1)
			case k < 57:
				dt := []int64{S, 5 * 60 * S, 6*H - S, 6 * H, 6*H + S, 24 * H}[r.Intn(6)]
				clock += dt
				ops = append(ops, []string{"op", "tick", strconv.FormatInt(dt, 10)})
			case k < 77:
				tt, tl := tti, ttl
				if r.Chance(1, 4) {
					tl = "0"
				}
				if r.Chance(1, 5) {
					// aggressive mode: shorter TTL, lower threshold against an injected disk usage
					ops = append(ops, []string{"op", "cleanupttl", tt, strconv.FormatInt(H, 10), strconv.Itoa(10 * r.Intn(10)), "100", strconv.Itoa(r.Intn(101))})
				} else {
					ops = append(ops, []string{"op", "cleanupttl", tt, tl, "0", "0", "0"})
				}
				tr.Count("random_op_cleanupttl", 1)
			case k < 86:
				// the periodic job: default / explicit TTI, aggressive mode never (0, 101) or always (1) reached,
				// lower threshold unset / 50 / 100
				iv := int64(30 * time.Minute)
				clock += iv
				ttiJ := []string{"0", tti, strconv.FormatInt(20*60*S, 10)}[r.Intn(3)]
				ops = append(ops, []string{"op", "job", strconv.FormatInt(iv, 10), ttiJ, []string{"0", ttl}[r.Intn(2)],
					[]string{"0", "1", "1", "101"}[r.Intn(4)], []string{"0", strconv.FormatInt(2*H, 10)}[r.Intn(2)],
					[]string{"0", "50", "100"}[r.Intn(3)]})
				tr.Count("random_op_job", 1)
			case k < 92:
				ops = append(ops, []string{"op", "cleanuppolicy", strconv.Itoa(10 * r.Intn(11)), strconv.Itoa(5 + r.Intn(40)), strconv.Itoa(r.Intn(40))})
				tr.Count("random_op_cleanuppolicy", 1)
			default:
				ops = append(ops, []string{"op", "create", nm, strconv.Itoa(1 + r.Intn(9))})
			}
		}
		if i < 2 {
			tr.Sample(fmt.Sprint(cfg, ops))
		}
		c10Exec(tr, verifh.Case{Cfg: cfg, Ops: ops})
		tr.Count("random_cases", 1)
	}
}
