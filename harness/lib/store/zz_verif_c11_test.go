//go:build verif

package store

import (
	"bytes"
	"encoding/hex"
	"os"
	"path/filepath"
	"strings"
	"testing"

	"github.com/uber-go/tally"

	"github.com/uber/kraken/utils/verifh"
)

// C11 harness (4/4): the stores as they are WIRED (which file store / entry factory each store was built
// with): a SimpleStore's and a CAStore's upload store and a SimpleStore's cache store are asked, through
// their own file operations, to create an entry for a client-chosen name and to say where it lives.
//   pathfn one upath simple-upload|cas-upload|simple-cache <name> => ok <path with the test root as /R> | invalid | fserr

type c11Stores struct {
	root   string
	simple *SimpleStore
	cas    *CAStore
}

func c11NewStores() *c11Stores {
	root, err := os.MkdirTemp("", "verif-c11-stores-")
	if err != nil {
		panic(err)
	}
	// deep enough that a path climbing out of a store directory still lands inside the test root
	base := filepath.Join(root, "l1", "l2", "l3")
	mk := func(kind string) (string, string) {
		u := filepath.Join(base, kind, "store", "upload")
		c := filepath.Join(base, kind, "store", "cache")
		return u, c
	}
	su, sc := mk("simple")
	cu, cc := mk("cas")
	simple, err := NewSimpleStore(SimpleStoreConfig{UploadDir: su, CacheDir: sc}, tally.NoopScope)
	if err != nil {
		panic(err)
	}
	cas, err := NewCAStore(CAStoreConfig{UploadDir: cu, CacheDir: cc}, tally.NoopScope)
	if err != nil {
		panic(err)
	}
	return &c11Stores{root, simple, cas}
}

func (s *c11Stores) close() {
	s.simple.Close()
	s.cas.Close()
	os.RemoveAll(s.root)
}

func (s *c11Stores) symbolic(kind, p string) string {
	prefix := filepath.Join(s.root, "l1", "l2", "l3", strings.SplitN(kind, "-", 2)[0])
	if strings.HasPrefix(p, prefix+"/") {
		return "/R" + p[len(prefix):]
	}
	return "/OUTSIDE" + p
}

func c11StoreExec(t *verifh.T, st *c11Stores, c verifh.Case) {
	for _, op := range c.Ops {
		if len(op) != 4 || op[0] != "one" || op[1] != "upath" {
			continue
		}
		name, err := verifh.Unstr(op[3])
		if err != nil {
			continue
		}
		var path string
		var cerr, perr error
		pan := verifh.Protect(func() {
			switch op[2] {
			case "simple-upload":
				cerr = st.simple.CreateUploadFile(name, 0)
				path, perr = st.simple.uploadStore.newFileOp().GetFilePath(name)
			case "cas-upload":
				cerr = st.cas.CreateUploadFile(name, 0)
				path, perr = st.cas.uploadStore.newFileOp().GetFilePath(name)
			case "simple-cache":
				cerr = st.simple.CreateCacheFile(name, bytes.NewReader([]byte("x")))
				path, perr = st.simple.cacheStore.newFileOp().GetFilePath(name)
			default:
				cerr = os.ErrInvalid
				perr = os.ErrInvalid
			}
		})
		switch {
		case pan != "":
			t.One(op[1:], "panic")
			t.PropFail("panic", verifh.Str(pan))
		case perr == nil:
			t.One(op[1:], "ok", verifh.Str(st.symbolic(op[2], path)))
		case cerr != nil && strings.Contains(cerr.Error(), "invalid name"):
			t.One(op[1:], "invalid")
		default:
			t.One(op[1:], "fserr")
		}
	}
}

var c11StoreSegs = []string{".", "..", "a", "b.c", "...", "data", "..a", "a..", "x y", "\x00", "%2e%2e", "tmp", "upload", "cache", "store"}

func TestVerif_C11Stores(t *testing.T) {
	tr := verifh.Open("pathfn")
	defer tr.Close()
	st := c11NewStores()
	defer st.close()
	cases, replayOnly := verifh.InputCases("pathfn")
	for _, c := range cases {
		c11StoreExec(tr, st, c)
		c11Exec(tr, c) // the pure-function records (clean / join / unescape / escape / local / cas)
		tr.Count("corpus_or_replay_cases", 1)
	}
	if replayOnly {
		return
	}
	c11PathGenerate(tr)
	kinds := []string{"simple-upload", "cas-upload", "simple-cache"}
	one := func(kind, name string) {
		c11StoreExec(tr, st, verifh.Case{Ops: [][]string{{"one", "upath", kind, verifh.Str(name)}}})
	}
	// every sequence of up to 3 segments (4 thorough) joined by '/', plus leading / trailing separators
	depth := verifh.Scale(3, 4)
	var rec func(prefix []string, d int)
	rec = func(prefix []string, d int) {
		if len(prefix) > 0 {
			s := strings.Join(prefix, "/")
			for _, k := range kinds {
				one(k, s)
			}
			tr.Count("exhaustive_names", 1)
			if len(prefix) == 1 {
				for _, k := range kinds {
					one(k, "/"+s)
					one(k, s+"/")
				}
			}
		}
		if d == 0 {
			return
		}
		for _, sg := range c11StoreSegs {
			rec(append(prefix[:len(prefix):len(prefix)], sg), d-1)
		}
	}
	rec(nil, depth)
	r := verifh.NewRand(verifh.Seed(), "c11stores")
	alpha := []byte("./ab.\\\x00 -_")
	for i := 0; i < verifh.Scale(1500, 60000); i++ {
		b := make([]byte, 1+r.Intn(12))
		for j := range b {
			b[j] = alpha[r.Intn(len(alpha))]
		}
		name := string(b)
		if r.Chance(1, 8) {
			name = hex.EncodeToString(r.Bytes(32)) // what an upload of a blob by digest would use
		}
		one(kinds[r.Intn(len(kinds))], name)
		tr.Count("random_names", 1)
	}
}
