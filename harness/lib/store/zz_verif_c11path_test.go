//go:build verif

package store

import (
	"fmt"
	"net/url"
	"path/filepath"
	"strings"

	"github.com/uber/kraken/core"
	"github.com/uber/kraken/lib/store/base"
	"github.com/uber/kraken/utils/verifh"
)

// C11 harness (1/3): the pure path functions and the store's name check.
//   pathfn one clean <s> => <out>            filepath.Clean
//   pathfn one join <a> <b> [<c>] => <out>   filepath.Join
//   pathfn one unescape <s> => ok <out>|err  url.PathUnescape
//   pathfn one local <dir> <name> => ok <path>|invalid    NewLocalFileEntryFactory().Create(name,state).GetPath()
//   pathfn one cas <dir> <name> => ok <path>              NewCASFileEntryFactory().Create(name,state).GetPath()

func c11Un(tok string) (string, bool) {
	s, err := verifh.Unstr(tok)
	return s, err == nil
}

// c11Outside: Go's own judgement whether p is strictly below dir (independent of the Lean model).
func c11Outside(dir, p string) bool {
	rel, err := filepath.Rel(dir, p)
	return err != nil || rel == "." || rel == ".." || strings.HasPrefix(rel, "../")
}

func c11Exec(t *verifh.T, c verifh.Case) {
	for _, op := range c.Ops {
		if len(op) < 3 || op[0] != "one" {
			continue
		}
		switch {
		case op[1] == "clean" && len(op) == 3:
			if s, ok := c11Un(op[2]); ok {
				t.One(op[1:], verifh.Str(filepath.Clean(s)))
			}
		case op[1] == "join" && (len(op) == 4 || len(op) == 5):
			var parts []string
			good := true
			for _, x := range op[2:] {
				s, ok := c11Un(x)
				good = good && ok
				parts = append(parts, s)
			}
			if good {
				t.One(op[1:], verifh.Str(filepath.Join(parts...)))
			}
		case op[1] == "escape" && len(op) == 3:
			if s, ok := c11Un(op[2]); ok {
				t.One(op[1:], verifh.Str(strings.TrimPrefix((&url.URL{Path: "/" + s}).EscapedPath(), "/"))) // escape(s, encodePath); the "/" avoids EscapedPath's special case for "*"
			}
		case op[1] == "unescape" && len(op) == 3:
			if s, ok := c11Un(op[2]); ok {
				if u, err := url.PathUnescape(s); err != nil {
					t.One(op[1:], "err")
				} else {
					t.One(op[1:], "ok", verifh.Str(u))
				}
			}
		case (op[1] == "local" || op[1] == "cas") && len(op) == 4:
			dir, ok1 := c11Un(op[2])
			name, ok2 := c11Un(op[3])
			if !ok1 || !ok2 {
				continue
			}
			f := base.NewLocalFileEntryFactory()
			if op[1] == "cas" {
				f = base.NewCASFileEntryFactory()
			}
			var e base.FileEntry
			var err error
			if p := verifh.Protect(func() { e, err = f.Create(name, base.NewFileState(dir)) }); p != "" {
				t.One(op[1:], "panic")
				t.PropFail("panic", verifh.Str(p))
				continue
			}
			if err != nil {
				t.One(op[1:], "invalid")
				continue
			}
			p := e.GetPath()
			if op[1] == "cas" {
				// what the only guard of CAS names says about this name
				t.One(op[1:], "ok", verifh.Str(p), "valid="+verifh.Bool(core.ValidateSHA256(name) == nil))
				if core.ValidateSHA256(name) == nil && filepath.IsAbs(dir) && c11Outside(dir, p) {
					t.PropFail("cas-escapes-store-dir", "go-rel", op[3], verifh.Str(p))
				}
				continue
			}
			t.One(op[1:], "ok", verifh.Str(p))
			if op[1] == "local" && filepath.IsAbs(dir) {
				if c11Outside(dir, p) {
					t.PropFail("escapes-store-dir", "go-rel", op[3], verifh.Str(p))
				}
				if c11Outside(dir, filepath.Dir(p)) {
					t.PropFail("entry-dir-not-inside", "go-rel", op[3], verifh.Str(filepath.Dir(p)))
				}
			}
		}
	}
}

var c11Segs = []string{".", "..", "a", "", "b.c", "...", "data", "%2e", "%2E%2E", "%2F", "..%2f", "a%2Fb",
	"%", "%zz", "%4", "\xc3\xa9", " ", "\x00", "+", "..a", "a..", ".a", "~", "%25", "%252e"}

func c11Emit(t *verifh.T, s string, dirs []string) {
	one := func(xs ...string) { c11Exec(t, verifh.Case{Ops: [][]string{append([]string{"one"}, xs...)}}) }
	one("clean", verifh.Str(s))
	one("unescape", verifh.Str(s))
	one("escape", verifh.Str(s))
	for _, d := range dirs {
		one("local", verifh.Str(d), verifh.Str(s))
		one("join", verifh.Str(d), verifh.Str(s))
		one("join", verifh.Str(d), verifh.Str(s), "data")
	}
	if u, err := url.PathUnescape(s); err == nil && u != s {
		one("clean", verifh.Str(u))
		for _, d := range dirs {
			one("local", verifh.Str(d), verifh.Str(u))
		}
	}
}

// c11PathGenerate: the generators of the pure-function part (run from TestVerif_C11Stores).
func c11PathGenerate(tr *verifh.T) {
	dirs := []string{"/var/cache/kraken/tags", "/", "/a/../b/", "rel/dir", ""}
	// (a) exhaustive: every sequence of up to 3 (4 thorough) segments joined by '/', with optional leading / trailing '/'
	depth := verifh.Scale(3, 4)
	var rec func(prefix []string, d int)
	rec = func(prefix []string, d int) {
		if len(prefix) > 0 {
			s := strings.Join(prefix, "/")
			c11Emit(tr, s, dirs[:2])
			tr.Count("exhaustive_names", 1)
			if len(prefix) <= 2 {
				c11Emit(tr, "/"+s, dirs[:1])
				c11Emit(tr, s+"/", dirs[:1])
			}
		}
		if d == 0 {
			return
		}
		for _, sg := range c11Segs {
			rec(append(prefix[:len(prefix):len(prefix)], sg), d-1)
		}
	}
	rec(nil, depth)
	// (b) random names: bytes from a small alphabet rich in '.', '/', '%', long names, all dirs
	r := verifh.NewRand(verifh.Seed(), "c11")
	alpha := []byte("./%2eEfF5a\\\x00 -_:@")
	for i := 0; i < verifh.Scale(4000, 300000); i++ {
		n := r.Intn(14)
		if r.Chance(1, 50) {
			n = 200 + r.Intn(200)
		}
		b := make([]byte, n)
		for j := range b {
			if r.Chance(1, 12) {
				b[j] = byte(r.Intn(256))
			} else {
				b[j] = alpha[r.Intn(len(alpha))]
			}
		}
		c11Emit(tr, string(b), dirs)
		tr.Count("random_names", 1)
	}
	// (c) CAS names: valid sha256 hex and junk
	one := func(xs ...string) { c11Exec(tr, verifh.Case{Ops: [][]string{append([]string{"one"}, xs...)}}) }
	for i := 0; i < verifh.Scale(500, 20000); i++ {
		hex := fmt.Sprintf("%x", r.Bytes(32))
		one("cas", verifh.Str(dirs[r.Intn(2)]), hex)
		junk := string(alpha[r.Intn(len(alpha))]) + hex[:r.Intn(8)] + c11Segs[r.Intn(len(c11Segs))]
		one("cas", verifh.Str(dirs[0]), verifh.Str(junk))
		tr.Count("cas_names", 2)
	}
	for _, sg := range c11Segs {
		one("cas", verifh.Str(dirs[0]), verifh.Str(sg))
	}
	// names of exactly 64 characters: a hex prefix of every length followed by separators and dot segments
	for _, nm := range C11MixedNames() {
		one("cas", verifh.Str(dirs[0]), verifh.Str(nm))
		tr.Count("cas_mixed_names", 1)
	}
}

// C11MixedNames: 64-character names made of k hex characters followed by climbing dot segments (or dots).
func C11MixedNames() []string {
	const hexs = "0123456789abcdefABCDEF0123456789abcdef0123456789abcdef0123456789ab"
	var out []string
	for k := 0; k <= 63; k++ {
		for j := 1; j <= 6; j++ {
			tail := strings.Repeat("/..", j) + "/"
			if pad := 64 - k - len(tail); pad >= 1 {
				out = append(out, hexs[:k]+tail+strings.Repeat("x", pad))
			}
		}
		out = append(out, hexs[:k]+strings.Repeat(".", 64-k))
		if 64-k >= 2 {
			out = append(out, hexs[:k]+"/"+strings.Repeat("a", 63-k))
		}
	}
	return out
}
