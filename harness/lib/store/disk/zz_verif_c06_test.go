//go:build verif

package disk

// C06 harness: drives the real disk blob store, records what it reports, and — given the syscall
// plans recorded by the strace recorder (harness/tools/crash_strace.py) — materialises the state a
// process crash would leave after every prefix of every operation's plan (and every subset of a
// directory removal), runs the real disk.NewStore on it and records what the store reports.
//
// In-package because the eviction-ban flag, the reserved size and the eviction queue have no public
// getter (impl.blobs, impl.size, impl.evictionOrder are read, never written).

import (
	"errors"
	"fmt"
	"os"
	"path/filepath"
	"regexp"
	"sort"
	"strconv"
	"strings"
	"testing"

	"github.com/uber-go/tally"
	"github.com/uber/kraken/lib/store/metadata"
	"github.com/uber/kraken/utils/log"
	"github.com/uber/kraken/utils/verifh"
	"go.uber.org/zap"
)

// ---------------------------------------------------------------- metadata used by the harness

type c06Md struct {
	suffix string
	data   []byte
}

func (m *c06Md) GetSuffix() string          { return m.suffix }
func (m *c06Md) Movable() bool              { return strings.HasPrefix(m.suffix, "_vm") }
func (m *c06Md) Serialize() ([]byte, error) { return m.data, nil }
func (m *c06Md) Deserialize(b []byte) error { m.data = append([]byte(nil), b...); return nil }

type c06MdFactory struct{}

func (c06MdFactory) Create(suffix string) metadata.Metadata { return &c06Md{suffix: suffix} }

func init() {
	metadata.Register(regexp.MustCompile(`^_v[mi][0-9]$`), c06MdFactory{})
}

var c06Mds = []string{"_vi0", "_vm0", "_vm1"}

// ---------------------------------------------------------------- executor

type c06Env struct {
	t         *verifh.T
	reboot    bool
	shard     int
	capacity  uint64
	crashMode string // all | last | none
	root      string
	scratch   string
	store     *Store
	keys      []string
	caseIdx   int
	phase     string
	plans     map[[2]int][]verifh.FSCall
	r         *verifh.Rand
	maxSub    int
}

func (e *c06Env) config(root string) *Config {
	return &Config{CapacityBytes: e.capacity, RootDir: root, RebootIncompleteBlobs: e.reboot, ShardLength: e.shard}
}

func c06Err(err error) string {
	switch {
	case err == nil:
		return "ok"
	case err == os.ErrNotExist:
		return "notexist"
	case err == os.ErrExist:
		return "exist"
	case errors.Is(err, errNoSpace):
		return "nospace"
	case err.Error() == "metadata does not exist":
		return "mdmissing"
	case err.Error() == "invalid blob key":
		return "invalidkey"
	case errors.Is(err, os.ErrExist):
		return "io-exist"
	case errors.Is(err, os.ErrNotExist):
		return "io-notexist"
	}
	return "io-other"
}

// observe renders what the store reports about itself and every key of the universe.
func (e *c06Env) observe(s *Store) []string {
	out := []string{"sz=" + strconv.FormatUint(s.impl.size, 10), "q=" + verifh.List(s.impl.evictionOrder())}
	keys := append([]string(nil), e.keys...)
	for k := range s.impl.blobs {
		found := false
		for _, x := range keys {
			if x == k {
				found = true
			}
		}
		if !found {
			keys = append(keys, k)
		}
	}
	sort.Strings(keys)
	for _, k := range keys {
		b, ok := s.impl.blobs[k]
		if !ok {
			continue
		}
		c, bn := "i", "u"
		if b.complete {
			c = "c"
		}
		if b.evictionBanned {
			bn = "b"
		}
		data := "-"
		if d, err := os.ReadFile(s.impl.blobPath(k, b.complete)); err == nil {
			data = verifh.Hex(d)
		}
		tok := fmt.Sprintf("b=%s:%s:%s:%d:%s", k, c, bn, b.size, data)
		for _, name := range c06Mds {
			md := &c06Md{suffix: name}
			ok, err := s.GetMetadata(k, md)
			switch {
			case err != nil:
				tok += ":" + name + "=!" + c06Err(err)
			case !ok:
				tok += ":" + name + "=-"
			default:
				tok += ":" + name + "=" + verifh.Hex(md.data)
			}
		}
		out = append(out, tok)
	}
	return out
}

// setMTimes gives the data files distinct modification times in the order `mt` (keys not listed
// follow in name order), so that the eviction queue rebuilt by NewStore is determined by the record.
func (e *c06Env) setMTimes(root string, mt []string) {
	p := newPather(root, e.shard)
	all := append([]string(nil), mt...)
	rest := []string{}
	for _, k := range e.keys {
		in := false
		for _, x := range mt {
			if x == k {
				in = true
			}
		}
		if !in {
			rest = append(rest, k)
		}
	}
	sort.Strings(rest)
	all = append(all, rest...)
	for i, k := range all {
		for _, c := range []bool{true, false} {
			verifh.SetMTime(p.blobPath(k, c), i)
		}
	}
}

func c06KV(toks []string, k string) string {
	for _, t := range toks {
		if strings.HasPrefix(t, k+"=") {
			return t[len(k)+1:]
		}
	}
	return ""
}

// open runs the real constructor on root and renders what it reports.
func (e *c06Env) open(root string, mt []string) (*Store, []string) {
	e.setMTimes(root, mt)
	var s *Store
	var err error
	if p := verifh.Protect(func() { s, err = NewStore(e.config(root), tally.NoopScope) }); p != "" {
		return nil, []string{"panic"}
	}
	if err != nil {
		if errors.Is(err, errNoSpace) {
			return nil, []string{"err-nospace"}
		}
		return nil, []string{"err-other"}
	}
	return s, append([]string{"ok"}, e.observe(s)...)
}

// probe re-creates and completes every key that is not complete in s, as the property promises.
func (e *c06Env) probe(s *Store) []string {
	keys := append([]string(nil), e.keys...)
	sort.Strings(keys)
	var out []string
	for _, k := range keys {
		b, ok := s.impl.blobs[k]
		if ok && b.complete {
			continue
		}
		res := []string{}
		good := true
		if !ok {
			f, err := s.Create(k, 0)
			if err == nil {
				f.Close()
			} else {
				good = false
			}
			res = append(res, "create-"+c06Err(err))
		}
		if good {
			res = append(res, "mc-"+c06Err(s.MarkComplete(k)))
		}
		out = append(out, "p="+k+":"+strings.Join(res, "/"))
	}
	return out
}

func (e *c06Env) runOp(op []string) []string {
	s := e.store
	if s == nil {
		return []string{"down"}
	}
	bad := []string{"badop"}
	arg := func(i int) string {
		if i < len(op) {
			return op[i]
		}
		return ""
	}
	key := arg(2)
	switch arg(1) {
	case "create":
		n, err := strconv.ParseUint(arg(3), 10, 64)
		if err != nil {
			return bad
		}
		f, err := s.Create(key, n)
		if err == nil {
			f.Close()
		}
		return []string{c06Err(err)}
	case "write":
		off, err := strconv.ParseInt(arg(3), 10, 64)
		data, err2 := verifh.Unhex(arg(4))
		if err != nil || err2 != nil {
			return bad
		}
		f, err := s.Open(key)
		if err != nil {
			return []string{c06Err(err)}
		}
		_, err = f.WriteAt(data, off)
		f.Close()
		return []string{c06Err(err)}
	case "mc":
		return []string{c06Err(s.MarkComplete(key))}
	case "delete":
		return []string{c06Err(s.Delete(key))}
	case "ban":
		return []string{c06Err(s.BanEviction(key))}
	case "unban":
		return []string{c06Err(s.UnbanEviction(key))}
	case "setmd":
		data, err := verifh.Unhex(arg(4))
		if err != nil {
			return bad
		}
		return []string{c06Err(s.SetMetadata(key, &c06Md{suffix: arg(3), data: data}))}
	case "delmd":
		return []string{c06Err(s.DeleteMetadata(key, arg(3)))}
	case "wamd":
		off, err := strconv.ParseInt(arg(4), 10, 64)
		data, err2 := verifh.Unhex(arg(5))
		if err != nil || err2 != nil {
			return bad
		}
		return []string{c06Err(s.WriteAtMetadata(key, &c06Md{suffix: arg(3)}, data, off))}
	}
	return bad
}

func c06IsKey(s string) bool {
	if len(s) < 4 || len(s) > 16 {
		return false
	}
	for _, c := range s {
		if !(c >= '0' && c <= '9' || c >= 'a' && c <= 'f') {
			return false
		}
	}
	return true
}

// universe collects the keys a case mentions (operation arguments, mt lists, fs listings).
func c06Universe(c verifh.Case) []string {
	set := map[string]bool{}
	for _, op := range c.Ops {
		for _, t := range op {
			for _, part := range strings.FieldsFunc(t, func(r rune) bool { return r == ',' || r == '=' || r == '/' || r == ':' }) {
				if c06IsKey(part) {
					set[part] = true
				}
			}
		}
	}
	var out []string
	for k := range set {
		out = append(out, k)
	}
	sort.Strings(out)
	return out
}

func (e *c06Env) fresh(name string) string {
	p := filepath.Join(e.scratch, name)
	os.RemoveAll(p)
	return p
}

// explore writes one `crash` record per crash point of the operation whose plan is given:
// every prefix length, and for every directory removal every subset of already-removed entries.
func (e *c06Env) explore(snap string, plan []verifh.FSCall) {
	type point struct {
		k     int
		first []string
	}
	var pts []point
	for k := 0; k <= len(plan); k++ {
		pts = append(pts, point{k, nil})
	}
	for _, seg := range verifh.RemovalSegments(plan) {
		n := seg[1] - seg[0]
		if n < 2 || n > 10 {
			continue
		}
		var subs []point
		for mask := 1; mask < (1<<n)-1; mask++ {
			var first []string
			lowRun := true // subsets that are a prefix of the recorded order are already covered
			for i := 0; i < n; i++ {
				if mask&(1<<i) != 0 {
					first = append(first, plan[seg[0]+i].A)
					if i >= len(first) {
						lowRun = false
					}
				}
			}
			if lowRun {
				continue
			}
			subs = append(subs, point{seg[0] + len(first), first})
		}
		if len(subs) > e.maxSub {
			for _, i := range e.r.Perm(len(subs))[:e.maxSub] {
				pts = append(pts, subs[i])
			}
		} else {
			pts = append(pts, subs...)
		}
	}
	for _, pt := range pts {
		dir := e.fresh("crash")
		if err := verifh.CopyTree(snap, dir); err != nil {
			panic(err)
		}
		p := verifh.ReorderRemovals(plan, pt.first)
		failed := ""
		for i := 0; i < pt.k; i++ {
			if err := p[i].Apply(dir); err != nil {
				failed = fmt.Sprintf("planerr=%d:%s", i, verifh.Str(err.Error()))
				break
			}
		}
		mt := append([]string(nil), e.keys...)
		if e.r.Chance(1, 2) {
			for i, j := 0, len(mt)-1; i < j; i, j = i+1, j-1 {
				mt[i], mt[j] = mt[j], mt[i]
			}
		}
		at := "start"
		if pt.k > 0 {
			base := filepath.Base(p[pt.k-1].A)
			if base != "data" && !strings.HasPrefix(base, "_") {
				base = "dir"
			}
			at = p[pt.k-1].Kind + "-" + base
		}
		args := []string{"k=" + strconv.Itoa(pt.k), "ord=" + verifh.List(pt.first), "mt=" + verifh.List(mt), "u=" + verifh.List(e.keys), "at=" + at}
		obs := []string{"fs=" + verifh.List(verifh.DumpTree(dir))}
		if failed != "" {
			obs = append(obs, failed)
			e.t.Rec("crash", args, obs)
			continue
		}
		s, rec := e.open(dir, mt)
		obs = append(obs, rec...)
		if s != nil {
			obs = append(obs, "|")
			obs = append(obs, e.probe(s)...)
			obs = append(obs, "|")
			obs = append(obs, e.observe(s)...)
			obs = append(obs, "|")
			_, rec2 := e.open(dir, mt)
			obs = append(obs, rec2...)
		}
		e.t.Rec("crash", args, obs)
		e.t.Count("crash_points", 1)
	}
}

func c06Exec(t *verifh.T, c verifh.Case, caseIdx int, base string, plans map[[2]int][]verifh.FSCall) {
	e := &c06Env{t: t, capacity: 100, crashMode: "all", caseIdx: caseIdx, phase: verifh.CrashPhase(), plans: plans,
		r: verifh.NewRand(verifh.Seed()+uint64(caseIdx), "c06x"), maxSub: verifh.Scale(6, 64)}
	for _, tok := range c.Cfg {
		kv := strings.SplitN(tok, "=", 2)
		if len(kv) != 2 {
			continue
		}
		n, _ := strconv.Atoi(kv[1])
		switch kv[0] {
		case "reboot":
			e.reboot = kv[1] == "1"
		case "shard":
			e.shard = n
		case "cap":
			if u, err := strconv.ParseUint(kv[1], 10, 64); err == nil {
				e.capacity = u
			}
		case "crash":
			e.crashMode = kv[1]
		}
	}
	e.keys = c06Universe(c)
	e.root = filepath.Join(base, strconv.Itoa(caseIdx))
	e.scratch = filepath.Join(base, "scratch"+strconv.Itoa(caseIdx))
	os.RemoveAll(e.root)
	os.RemoveAll(e.scratch)
	if err := os.MkdirAll(e.root, 0775); err != nil {
		panic(err)
	}
	os.MkdirAll(e.scratch, 0775)
	defer os.RemoveAll(e.root)
	defer os.RemoveAll(e.scratch)
	quiet := e.phase == "A" // under the recorder only the markers matter
	if !quiet {
		t.Cfg(c.Cfg...)
	}
	// a fresh store on the empty root, unless the case starts from a given tree
	if len(c.Ops) == 0 || c.Ops[0][0] != "fs" {
		s, err := NewStore(e.config(e.root), tally.NoopScope)
		if err != nil {
			panic(err)
		}
		e.store = s
	}
	lastOp := -1
	for i, op := range c.Ops {
		if op[0] == "op" {
			lastOp = i
		}
	}
	for i, op := range c.Ops {
		switch op[0] {
		case "fs":
			if err := verifh.MaterializeTree(e.root, op[1:]); err != nil {
				panic(err)
			}
			e.store = nil
			if !quiet {
				t.Rec("fs", op[1:], nil)
			}
		case "op":
			wantCrash := e.crashMode == "all" || (e.crashMode == "last" && i == lastOp)
			snap := ""
			var plan []verifh.FSCall
			havePlan := false
			if e.phase == "B" && wantCrash {
				plan, havePlan = plans[[2]int{caseIdx, i}]
			}
			if havePlan {
				snap = e.fresh("snap")
				if err := verifh.CopyTree(e.root, snap); err != nil {
					panic(err)
				}
			}
			var obs []string
			run := func() {
				if len(op) >= 2 && op[1] == "reboot" {
					mt := verifh.Unlist(c06KV(op[2:], "mt"))
					e.setMTimes(e.root, mt)
					if e.phase == "A" && wantCrash {
						verifh.Mark("B", caseIdx, i)
					}
					s, err := NewStore(e.config(e.root), tally.NoopScope)
					if e.phase == "A" && wantCrash {
						verifh.Mark("E", caseIdx, i)
					}
					e.store = nil
					switch {
					case err == nil:
						e.store = s
						obs = []string{"ok"}
					case errors.Is(err, errNoSpace):
						obs = []string{"err-nospace"}
					default:
						obs = []string{"err-other"}
					}
					return
				}
				if e.phase == "A" && wantCrash {
					verifh.Mark("B", caseIdx, i)
				}
				obs = e.runOp(op)
				if e.phase == "A" && wantCrash {
					verifh.Mark("E", caseIdx, i)
				}
			}
			if p := verifh.Protect(run); p != "" {
				obs = []string{"panic"}
				t.PropFail("panic", verifh.Str(p))
			}
			if quiet {
				continue
			}
			if e.store != nil {
				obs = append(obs, e.observe(e.store)...)
			}
			t.Count("op_"+op[1], 1)
			if havePlan {
				// begin … crash points … planchk, then the operation's own record: the property monitors see
				// every crash state of the observed plan before any model/implementation difference is reported
				t.Rec("begin", append(append(append([]string{}, op[1:]...), "|"), obs...), nil)
				t.Rec("plan", verifh.PlanToks(plan), nil)
				// the recorded plan must reproduce the operation's effect on the tree
				chk := e.fresh("chk")
				verifh.CopyTree(snap, chk)
				for _, pc := range plan {
					pc.Apply(chk)
				}
				if a, b := verifh.List(verifh.DumpTree(chk)), verifh.List(verifh.DumpTree(e.root)); a != b {
					t.Rec("planerr", []string{"replayed=" + a, "real=" + b}, nil)
				}
				e.explore(snap, plan)
				t.Rec("planchk", nil, []string{})
			}
			t.Op(op[1:], obs...)
		}
	}
	if !quiet {
		t.End()
	}
}

// ---------------------------------------------------------------- generators

func c06Alphabet(keys []string) [][]string {
	var ops [][]string
	for _, k := range keys {
		ops = append(ops,
			[]string{"op", "create", k, "3"},
			[]string{"op", "write", k, "0", "x6162"},
			[]string{"op", "mc", k},
			[]string{"op", "delete", k},
			[]string{"op", "ban", k},
			[]string{"op", "unban", k},
			[]string{"op", "setmd", k, "_vm0", "x78"},
			[]string{"op", "setmd", k, "_vi0", "x79"},
			[]string{"op", "delmd", k, "_vm0"},
			[]string{"op", "wamd", k, "_vm0", "0", "x7a7a"},
		)
	}
	ops = append(ops, []string{"op", "reboot", "mt=" + verifh.List(keys)})
	return ops
}

func c06Bases(k1, k2 string) [][][]string {
	return [][][]string{
		{},
		{{"op", "create", k1, "3"}, {"op", "write", k1, "0", "x616263"}, {"op", "setmd", k1, "_vm0", "x6d"}, {"op", "setmd", k1, "_vi0", "x69"}},
		{{"op", "create", k1, "3"}, {"op", "write", k1, "0", "x6162"}, {"op", "setmd", k1, "_vm0", "x6d"}, {"op", "ban", k1}, {"op", "mc", k1}},
		{{"op", "create", k1, "3"}, {"op", "mc", k1}, {"op", "create", k2, "3"}, {"op", "setmd", k2, "_vm1", "x6e"}, {"op", "mc", k2}},
	}
}

func c06RandomCase(r *verifh.Rand, garbage bool) verifh.Case {
	keys := []string{"aa11", "aa22", "bb33"}
	cfg := []string{"reboot=" + r.Pick("0", "1", "1"), "shard=" + r.Pick("0", "1", "1", "2"), "cap=" + r.Pick("5", "8", "100"), "crash=all"}
	var ops [][]string
	if garbage {
		cfg = append(cfg, "mon=0")
		shard, _ := strconv.Atoi(strings.TrimPrefix(cfg[1], "shard="))
		p := newPather("", shard)
		fs := []string{"fs"}
		for _, k := range keys {
			for _, c := range []bool{true, false} {
				if !r.Chance(2, 5) {
					continue
				}
				dir := p.dirPath(k, c)
				fs = append(fs, "d:"+dir)
				if r.Chance(3, 4) {
					fs = append(fs, "f:"+dir+"/data:"+r.Pick("x", "x6162", "x616263"))
				}
				if r.Chance(1, 2) {
					fs = append(fs, "f:"+dir+"/_size:"+r.Pick("x", "x33", "x37", "x7a7a", "x2b32", "x3033", "x33a0"))
				}
				if r.Chance(1, 4) {
					fs = append(fs, "f:"+dir+"/_eviction_banned:x")
				}
				if r.Chance(1, 4) {
					fs = append(fs, "f:"+dir+"/_vm0:x6d")
				}
				if r.Chance(1, 5) {
					fs = append(fs, "f:"+dir+"/_vi0:x69")
				}
				if r.Chance(1, 5) {
					fs = append(fs, "f:"+dir+"/_vm0-tmp:x74")
				}
			}
		}
		if len(fs) == 1 {
			fs = append(fs, "d:"+r.Pick("complete", "incomplete"))
		}
		ops = append(ops, fs, []string{"op", "reboot", "mt=" + verifh.List(keys)})
	}
	n := 3 + r.Intn(10)
	if garbage {
		n = 1 + r.Intn(4)
	}
	for j := 0; j < n; j++ {
		k := keys[r.Intn(len(keys))]
		md := r.Pick("_vm0", "_vm0", "_vm1", "_vi0")
		data := r.Pick("x", "x61", "x6162", "x616263")
		var op []string
		switch r.Intn(16) {
		case 0, 1, 2:
			op = []string{"op", "create", k, strconv.Itoa(r.Intn(5))}
		case 3, 4:
			op = []string{"op", "write", k, strconv.Itoa(r.Intn(3)), data}
		case 5, 6, 7:
			op = []string{"op", "mc", k}
		case 8:
			op = []string{"op", "delete", k}
		case 9:
			op = []string{"op", "ban", k}
		case 10:
			op = []string{"op", "unban", k}
		case 11, 12:
			op = []string{"op", "setmd", k, md, data}
		case 13:
			op = []string{"op", "delmd", k, md}
		case 14:
			op = []string{"op", "wamd", k, md, strconv.Itoa(r.Intn(3)), data}
		case 15:
			p := r.Perm(len(keys))
			op = []string{"op", "reboot", "mt=" + verifh.List([]string{keys[p[0]], keys[p[1]], keys[p[2]]})}
		}
		ops = append(ops, op)
	}
	return verifh.Case{Cfg: cfg, Ops: ops}
}

// c06LeftoverCase: a tree that crashes of the store's own operations can leave (blob directories that are
// whole, half created, half removed, with temporary metadata files), then NewStore with every crash point of
// its clean-up monitored (a second crash inside the recovery of the first), then a few operations.
func c06LeftoverCase(r *verifh.Rand) verifh.Case {
	keys := []string{"aa11", "aa22", "bb33"}
	shard := r.Intn(3)
	cfg := []string{"reboot=" + r.Pick("0", "1", "1"), "shard=" + strconv.Itoa(shard), "cap=100", "crash=all"}
	p := newPather("", shard)
	fs := []string{"fs", "d:complete", "d:incomplete"}
	for _, k := range keys {
		switch r.Intn(8) {
		case 0, 1: // a complete blob
			dir := p.dirPath(k, true)
			fs = append(fs, "d:"+dir, "f:"+dir+"/data:"+r.Pick("x", "x6162", "x616263"))
			if r.Chance(1, 3) {
				fs = append(fs, "f:"+dir+"/_eviction_banned:x")
			}
			if r.Chance(1, 2) {
				fs = append(fs, "f:"+dir+"/_vm0:x6d")
			}
			if r.Chance(1, 4) {
				fs = append(fs, "f:"+dir+"/_vm0-tmp:x74")
			}
			if r.Chance(1, 4) {
				fs = append(fs, "f:"+dir+"/_size:x33") // MarkComplete cut off before the immovable sidecars went
			}
		case 2, 3: // an incomplete blob with its reservation
			dir := p.dirPath(k, false)
			fs = append(fs, "d:"+dir, "f:"+dir+"/data:"+r.Pick("x", "x61", "x6162"), "f:"+dir+"/_size:"+r.Pick("x33", "x35", "x3132"))
			if r.Chance(1, 3) {
				fs = append(fs, "f:"+dir+"/_vi0:x69")
			}
		case 4: // Create cut off: the reservation not written, or not even created
			dir := p.dirPath(k, false)
			fs = append(fs, "d:"+dir, "f:"+dir+"/data:x")
			if r.Chance(1, 2) {
				fs = append(fs, "f:"+dir+"/_size:x")
			}
		case 5: // a removal cut off: the blob file gone, something else still there
			dir := p.dirPath(k, r.Chance(1, 2))
			fs = append(fs, "d:"+dir)
			if r.Chance(2, 3) {
				fs = append(fs, "f:"+dir+"/"+r.Pick("_vm0", "_eviction_banned", "_size")+":"+r.Pick("x", "x33"))
			}
		}
	}
	ops := [][]string{fs, {"op", "reboot", "mt=" + verifh.List(keys)}}
	for j := 0; j < 1+r.Intn(3); j++ {
		k := keys[r.Intn(len(keys))]
		ops = append(ops, [][]string{{"op", "create", k, "2"}, {"op", "mc", k}, {"op", "delete", k}, {"op", "setmd", k, "_vm0", "x6e"},
			{"op", "reboot", "mt=" + verifh.List(keys)}}[r.Intn(5)])
	}
	return verifh.Case{Cfg: cfg, Ops: ops}
}

func c06Cases() []verifh.Case {
	var out []verifh.Case
	k1, k2 := "aa11", "aa22"
	alpha := c06Alphabet([]string{k1, k2})
	// bounded-exhaustive: every operation sequence up to `depth` after each base history; the crash
	// points of the last operation are explored (those of earlier operations belong to shorter cases)
	for ci, cfg := range [][]string{
		{"reboot=1", "shard=1", "cap=6", "crash=last"},
		{"reboot=0", "shard=1", "cap=6", "crash=last"},
		{"reboot=1", "shard=0", "cap=6", "crash=last"},
		{"reboot=0", "shard=2", "cap=6", "crash=last"},
	} {
		for bi, base := range c06Bases(k1, k2) {
			depth := 1
			if verifh.Thorough() || (ci == 0 && (bi == 0 || bi == 2)) {
				depth = 2
			}
			if verifh.Thorough() && ci == 0 && bi == 0 {
				depth = 3
			}
			var rec func(prefix [][]string, d int)
			rec = func(prefix [][]string, d int) {
				if d == 0 {
					out = append(out, verifh.Case{Cfg: cfg, Ops: prefix})
					return
				}
				for _, o := range alpha {
					rec(append(prefix[:len(prefix):len(prefix)], o), d-1)
				}
			}
			for d := 1; d <= depth; d++ {
				rec(append([][]string(nil), base...), d)
			}
		}
	}
	r := verifh.NewRand(verifh.Seed(), "c06")
	// reservations of more than one digit, beyond 32 bits and at 2^63: the `_size` sidecar's text
	// (strconv.Itoa(int(size)) / Atoi) against the model's encodeNat / parseSize; one large blob per case
	for i := 0; i < verifh.Scale(12, 200); i++ {
		big := r.Pick("10", "12", "255", "4294967296", "4294967297", "9223372036854775807", "9223372036854775808", "12345678901")
		small := r.Pick("10", "11", "100")
		cfg := []string{"reboot=" + r.Pick("1", "1", "0"), "shard=" + r.Pick("0", "1", "2"), "cap=18000000000000000000", "crash=all"}
		ops := [][]string{{"op", "create", "aa11", big}, {"op", "write", "aa11", "0", "x6162"}, {"op", "create", "aa22", small},
			{"op", "write", "aa22", strconv.Itoa(r.Intn(12)), "x63"}, {"op", "reboot", "mt=aa11,aa22"}}
		if r.Chance(1, 2) {
			ops = append(ops, []string{"op", "mc", "aa22"}, []string{"op", "setmd", "aa22", "_vm0", "x6d"})
		}
		if r.Chance(1, 2) {
			ops = append(ops, []string{"op", "mc", "aa11"}, []string{"op", "reboot", "mt=aa22,aa11"})
		}
		ops = append(ops, []string{"op", "delete", r.Pick("aa11", "aa22")}, []string{"op", "create", "bb33", r.Pick("10", "1000000")})
		out = append(out, verifh.Case{Cfg: cfg, Ops: ops})
	}
	for i := 0; i < verifh.Scale(150, 3000); i++ {
		out = append(out, c06RandomCase(r, false))
	}
	for i := 0; i < verifh.Scale(80, 1500); i++ {
		out = append(out, c06RandomCase(r, true))
	}
	for i := 0; i < verifh.Scale(60, 1500); i++ {
		out = append(out, c06LeftoverCase(r))
	}
	return out
}

func TestVerif_C06(t *testing.T) {
	log.SetGlobalLogger(zap.NewNop().Sugar())
	tr := verifh.Open("dk")
	defer tr.Close()
	base := verifh.CrashBase()
	os.MkdirAll(base, 0775)
	var plans map[[2]int][]verifh.FSCall
	if p := os.Getenv("VERIF_CRASH_PLANS"); p != "" {
		var err error
		if plans, err = verifh.LoadPlans(p); err != nil {
			t.Fatal(err)
		}
	}
	cases, replayOnly := verifh.InputCases("dk")
	tr.Count("corpus_or_replay_cases", len(cases))
	if !replayOnly {
		gen := c06Cases()
		tr.Count("generated_cases", len(gen))
		if len(gen) > 0 {
			tr.Sample(fmt.Sprint(gen[len(gen)/2].Cfg, gen[len(gen)/2].Ops))
			tr.Sample(fmt.Sprint(gen[len(gen)-1].Cfg, gen[len(gen)-1].Ops))
		}
		cases = append(cases, gen...)
	}
	for i, c := range cases {
		c06Exec(tr, c, i, base, plans)
	}
}
