//go:build verif

package disk

import (
	"errors"
	"fmt"
	"io"
	"os"
	"path/filepath"
	"regexp"
	"sort"
	"strconv"
	"strings"
	"testing"

	"github.com/uber-go/tally"
	storelib "github.com/uber/kraken/lib/store"
	"github.com/uber/kraken/lib/store/metadata"
	"github.com/uber/kraken/utils/verifh"
)

// C07 harness: drives disk.Store through its public API (plus the eviction queue and the size
// field, which are unexported) and records what it returns. Interpreter of op records.

// ---- metadata types of the harness: m<j> movable, i<j> immovable

type c07Md struct {
	suffix  string
	movable bool
	val     []byte
}

func (m *c07Md) GetSuffix() string          { return m.suffix }
func (m *c07Md) Movable() bool              { return m.movable }
func (m *c07Md) Serialize() ([]byte, error) { return m.val, nil }
func (m *c07Md) Deserialize(b []byte) error { m.val = append([]byte{}, b...); return nil }

type c07MdFactory struct{ movable bool }

func (f c07MdFactory) Create(suffix string) metadata.Metadata {
	return &c07Md{suffix: suffix, movable: f.movable}
}

func init() {
	metadata.Register(regexp.MustCompile(`^_vm[0-9]+$`), c07MdFactory{true})
	metadata.Register(regexp.MustCompile(`^_vi[0-9]+$`), c07MdFactory{false})
}

func c07MdOf(tok string) (*c07Md, bool) {
	if len(tok) < 2 {
		return nil, false
	}
	if _, err := strconv.Atoi(tok[1:]); err != nil {
		return nil, false
	}
	switch tok[0] {
	case 'm':
		return &c07Md{suffix: "_vm" + tok[1:], movable: true}, true
	case 'i':
		return &c07Md{suffix: "_vi" + tok[1:], movable: false}, true
	case 'x':
		// suffixes that do not name a sidecar file of their own
		if j, _ := strconv.Atoi(tok[1:]); j < len(c07BadSuffixes) {
			return &c07Md{suffix: c07BadSuffixes[j], movable: true}, true
		}
	}
	return nil, false
}

var c07BadSuffixes = []string{"data", "", "..", "a/b", "_size", "_eviction_banned", "."}

func c07SfxTok(suffix string) string {
	switch {
	case strings.HasPrefix(suffix, "_vm"):
		return "m" + suffix[3:]
	case strings.HasPrefix(suffix, "_vi"):
		return "i" + suffix[3:]
	}
	return "?" + verifh.Str(suffix)
}

// ---- keys: k<i> <-> hex names (k0 and k3 share their first shard directory)

var c07Names = []string{"aa11aa11", "bb22bb22", "cc33cc33", "aa11bb44"}

// kb<j>: keys that do not name a directory of their own
var c07BadKeys = []string{"", ".", "..", "a/b"}

func c07KeyName(tok string) (string, bool) {
	if len(tok) < 2 || tok[0] != 'k' {
		return "", false
	}
	if tok[1] == 'b' {
		j, err := strconv.Atoi(tok[2:])
		if err != nil || j < 0 || j >= len(c07BadKeys) {
			return "", false
		}
		return c07BadKeys[j], true
	}
	i, err := strconv.Atoi(tok[1:])
	if err != nil || i < 0 || i > 9999 {
		return "", false
	}
	if i < len(c07Names) {
		return c07Names[i], true
	}
	return fmt.Sprintf("%04x%04x", i, i), true
}

func c07KeyTok(name string) string {
	for i, n := range c07Names {
		if n == name {
			return fmt.Sprintf("k%d", i)
		}
	}
	var a, b int
	if _, err := fmt.Sscanf(name, "%04x%04x", &a, &b); err == nil && a == b && len(name) == 8 {
		return fmt.Sprintf("k%d", a)
	}
	return "k?" + verifh.Str(name)
}

func c07Keys(names []string) string {
	var idx []int
	var odd []string
	for _, n := range names {
		t := c07KeyTok(n)
		if i, err := strconv.Atoi(t[1:]); err == nil {
			idx = append(idx, i)
		} else {
			odd = append(odd, t)
		}
	}
	sort.Ints(idx)
	var toks []string
	for _, i := range idx {
		toks = append(toks, fmt.Sprintf("k%d", i))
	}
	sort.Strings(odd)
	return verifh.List(append(toks, odd...))
}

func c07Scope(s *Store, tok string) (*Store, bool) {
	switch tok {
	case "any":
		return s.Scoped(storelib.BlobScopeAny), true
	case "c":
		return s.ScopeComplete(), true
	case "i":
		return s.ScopeIncomplete(), true
	}
	return nil, false
}

func c07Err(err error) string {
	switch {
	case err == nil:
		return "ok"
	case strings.HasPrefix(err.Error(), "ensure dir:") || strings.HasPrefix(err.Error(), "open file:") ||
		strings.HasPrefix(err.Error(), "move dir:"):
		// a file-system failure (it may wrap os.ErrExist / os.ErrNotExist: the prefix tells it apart)
		return "ioerr"
	case errors.Is(err, os.ErrNotExist):
		return "notexist"
	case errors.Is(err, os.ErrExist):
		return "exist"
	case errors.Is(err, storelib.ErrOutOfScope):
		return "oos"
	case errors.Is(err, errNoSpace):
		return "nospace"
	case errors.Is(err, errInvalidKey):
		return "invalidkey"
	case errors.Is(err, errInvalidMetadataSuffix):
		return "invalidsfx"
	case err.Error() == "metadata does not exist":
		return "mdnotexist"
	case strings.Contains(err.Error(), "target_util_percent"):
		return "badarg"
	}
	return "other:" + verifh.Str(err.Error())
}

func c07Cfg(cfg []string) (capacity uint64, shard int, rib bool) {
	capacity = 10
	for _, t := range cfg {
		if v, ok := strings.CutPrefix(t, "cap="); ok {
			capacity, _ = strconv.ParseUint(v, 10, 64)
		}
		if v, ok := strings.CutPrefix(t, "shard="); ok {
			shard, _ = strconv.Atoi(v)
		}
		if v, ok := strings.CutPrefix(t, "rib="); ok {
			rib = v == "1"
		}
	}
	if capacity == 0 {
		capacity = 10
	}
	return
}

var c07TmpBase = func() string {
	if fi, err := os.Stat("/dev/shm"); err == nil && fi.IsDir() {
		return "/dev/shm"
	}
	return ""
}()

// c07Exec runs one case on a fresh store.
func c07Exec(t *verifh.T, c verifh.Case) {
	capacity, shard, rib := c07Cfg(c.Cfg)
	dir, err := os.MkdirTemp(c07TmpBase, "verif-c07-")
	if err != nil {
		panic(err)
	}
	defer os.RemoveAll(dir)
	s, err := NewStore(&Config{CapacityBytes: capacity, RootDir: dir, ShardLength: shard, RebootIncompleteBlobs: rib}, tally.NoopScope)
	if err != nil {
		panic(err)
	}
	t.Cfg(fmt.Sprintf("cap=%d", capacity), fmt.Sprintf("shard=%d", shard), "rib="+verifh.Bool(rib))

	probe := func() {
		t.Rec("probe", nil, []string{
			"keys=" + c07Keys(s.List()),
			"ckeys=" + c07Keys(s.ScopeComplete().List()),
			"q=" + func() string {
				var toks []string
				for _, n := range s.impl.evictionOrder() {
					toks = append(toks, c07KeyTok(n))
				}
				return verifh.List(toks)
			}(),
			fmt.Sprintf("size=%d", s.impl.size),
		})
	}

	planted := map[string]bool{}
	do := func(op []string) bool {
		if len(op) < 2 || op[0] != "op" {
			return false
		}
		a := op[1:]
		switch {
		case (a[0] == "plant" || a[0] == "unplant") && len(a) == 3:
			// a file planted in the store's tree makes the next Create / MarkComplete of the key fail on
			// the file system: "data" = a regular file where the data file goes (O_EXCL fails), "dirfile" =
			// a regular file where the blob's directory goes (MkdirAll fails), "cdir" = a non-empty
			// directory where the complete blob goes (the rename fails)
			key, ok1 := c07KeyName(a[1])
			if !ok1 || strings.HasPrefix(a[1], "kb") {
				return false
			}
			in, _ := s.Has(key)
			var path string
			switch a[2] {
			case "data":
				path = s.impl.blobPath(key, _incompleteBlob)
			case "dirfile":
				path = s.impl.dirPath(key, _incompleteBlob)
			case "cdir":
				path = filepath.Join(s.impl.dirPath(key, _completeBlob), "planted")
			default:
				return false
			}
			if a[0] == "unplant" {
				if !planted[a[1]+a[2]] {
					return false
				}
				delete(planted, a[1]+a[2])
				if a[2] == "cdir" {
					os.RemoveAll(filepath.Dir(path))
				} else {
					os.Remove(path)
					if a[2] == "data" {
						os.Remove(filepath.Dir(path))
					}
				}
				t.Op(a, "ok")
				return true
			}
			// only where nothing of the store lives: the key is not in the store ("data", "dirfile"), or it
			// is there and incomplete ("cdir"); one planted file per key
			cin, _ := s.ScopeComplete().Has(key)
			if planted[a[1]+"data"] || planted[a[1]+"dirfile"] || planted[a[1]+"cdir"] {
				return false
			}
			if (a[2] != "cdir" && in) || (a[2] == "cdir" && cin) {
				return false
			}
			if err := os.MkdirAll(filepath.Dir(path), 0o775); err != nil {
				return false
			}
			if err := os.WriteFile(path, []byte("planted"), 0o664); err != nil {
				return false
			}
			planted[a[1]+a[2]] = true
			t.Op(a, "ok")
		case a[0] == "create" && len(a) == 4:
			key, ok1 := c07KeyName(a[1])
			size, err := strconv.ParseUint(a[2], 10, 64)
			data, err2 := verifh.Unhex(a[3])
			if !ok1 || err != nil || err2 != nil {
				return false
			}
			f, err := s.Create(key, size)
			if err == nil {
				if len(data) > 0 {
					if _, werr := f.Write(data); werr != nil {
						t.Op(a, "other:write:"+verifh.Str(werr.Error()))
						f.Close()
						return true
					}
				}
				f.Close()
			}
			t.Op(a, c07Err(err))
		case a[0] == "open" && len(a) == 3:
			key, ok1 := c07KeyName(a[1])
			sc, ok2 := c07Scope(s, a[2])
			if !ok1 || !ok2 {
				return false
			}
			f, err := sc.Open(key)
			if err != nil {
				t.Op(a, c07Err(err))
				return true
			}
			b, rerr := io.ReadAll(f)
			f.Close()
			if rerr != nil {
				t.Op(a, "other:read:"+verifh.Str(rerr.Error()))
				return true
			}
			t.Op(a, "ok", verifh.Hex(b))
		case a[0] == "write" && len(a) == 5:
			key, ok1 := c07KeyName(a[1])
			sc, ok2 := c07Scope(s, a[2])
			off, err := strconv.ParseInt(a[3], 10, 64)
			p, err2 := verifh.Unhex(a[4])
			if !ok1 || !ok2 || err != nil || err2 != nil || off < 0 {
				return false
			}
			f, err := sc.Open(key)
			if err != nil {
				t.Op(a, c07Err(err))
				return true
			}
			_, werr := f.WriteAt(p, off)
			f.Close()
			t.Op(a, c07Err(werr))
		case a[0] == "stat" && len(a) == 3:
			key, ok1 := c07KeyName(a[1])
			sc, ok2 := c07Scope(s, a[2])
			if !ok1 || !ok2 {
				return false
			}
			fi, err := sc.Stat(key)
			if err != nil {
				t.Op(a, c07Err(err))
				return true
			}
			t.Op(a, "ok", fmt.Sprint(fi.Size()))
		case a[0] == "has" && len(a) == 3:
			key, ok1 := c07KeyName(a[1])
			sc, ok2 := c07Scope(s, a[2])
			if !ok1 || !ok2 {
				return false
			}
			in, scoped := sc.Has(key)
			t.Op(a, verifh.Bool(in), verifh.Bool(scoped))
		case a[0] == "complete" && len(a) == 2:
			key, ok1 := c07KeyName(a[1])
			if !ok1 {
				return false
			}
			t.Op(a, c07Err(s.MarkComplete(key)))
		case (a[0] == "delete" || a[0] == "ban" || a[0] == "unban") && len(a) == 3:
			key, ok1 := c07KeyName(a[1])
			sc, ok2 := c07Scope(s, a[2])
			if !ok1 || !ok2 {
				return false
			}
			var err error
			switch a[0] {
			case "delete":
				err = sc.Delete(key)
			case "ban":
				err = sc.BanEviction(key)
			default:
				err = sc.UnbanEviction(key)
			}
			t.Op(a, c07Err(err))
		case a[0] == "setmd" && len(a) == 5:
			key, ok1 := c07KeyName(a[1])
			sc, ok2 := c07Scope(s, a[2])
			md, ok3 := c07MdOf(a[3])
			val, err := verifh.Unhex(a[4])
			if !ok1 || !ok2 || !ok3 || err != nil {
				return false
			}
			md.val = val
			t.Op(a, c07Err(sc.SetMetadata(key, md)))
		case a[0] == "getmd" && len(a) == 4:
			key, ok1 := c07KeyName(a[1])
			sc, ok2 := c07Scope(s, a[2])
			md, ok3 := c07MdOf(a[3])
			if !ok1 || !ok2 || !ok3 {
				return false
			}
			ok, err := sc.GetMetadata(key, md)
			switch {
			case err != nil:
				t.Op(a, c07Err(err))
			case !ok:
				t.Op(a, "absent")
			default:
				t.Op(a, "ok", verifh.Hex(md.val))
			}
		case a[0] == "delmd" && len(a) == 4:
			key, ok1 := c07KeyName(a[1])
			sc, ok2 := c07Scope(s, a[2])
			md, ok3 := c07MdOf(a[3])
			if !ok1 || !ok2 || !ok3 {
				return false
			}
			t.Op(a, c07Err(sc.DeleteMetadata(key, md.suffix)))
		case a[0] == "listmd" && len(a) == 3:
			key, ok1 := c07KeyName(a[1])
			sc, ok2 := c07Scope(s, a[2])
			if !ok1 || !ok2 {
				return false
			}
			mds, err := sc.ListMetadata(key)
			if err != nil {
				t.Op(a, c07Err(err))
				return true
			}
			var toks []string
			for _, md := range mds {
				toks = append(toks, c07SfxTok(md.GetSuffix()))
			}
			sort.Slice(toks, func(i, j int) bool { return c07SfxLess(toks[i], toks[j]) })
			t.Op(a, "ok", verifh.List(toks))
		case a[0] == "wamd" && len(a) == 6:
			key, ok1 := c07KeyName(a[1])
			sc, ok2 := c07Scope(s, a[2])
			md, ok3 := c07MdOf(a[3])
			p, err := verifh.Unhex(a[4])
			off, err2 := strconv.ParseInt(a[5], 10, 64)
			if !ok1 || !ok2 || !ok3 || err != nil || err2 != nil || off < 0 {
				return false
			}
			t.Op(a, c07Err(sc.WriteAtMetadata(key, md, p, off)))
		case a[0] == "list" && len(a) == 2:
			sc, ok2 := c07Scope(s, a[1])
			if !ok2 {
				return false
			}
			t.Op(a, c07Keys(sc.List()))
		case a[0] == "clean" && len(a) == 3:
			pct, err := strconv.Atoi(a[1])
			if err != nil || (a[2] != "0" && a[2] != "1") {
				return false
			}
			before := s.List()
			util, cerr := s.Clean(pct, a[2] == "1")
			after := map[string]bool{}
			for _, k := range s.List() {
				after[k] = true
			}
			var deleted []string
			for _, k := range before {
				if !after[k] {
					deleted = append(deleted, k)
				}
			}
			t.Op(a, c07Err(cerr), fmt.Sprint(util), c07Keys(deleted))
		default:
			return false
		}
		return true
	}

	for _, op := range c.Ops {
		if len(op) >= 1 && op[0] == "probe" {
			continue // probes are re-taken after every operation
		}
		if len(op) == 2 && op[0] == "op" && op[1] == "drain" {
			c07Drain(t, s, capacity, do, probe)
			continue
		}
		done := false
		if p := verifh.Protect(func() { done = do(op) }); p != "" {
			// a panic is an observation: record it as the result, look at the state it left behind
			t.Op(op[1:], "panic")
			t.PropFail("panic", verifh.Str(strings.Join(op, " ")), verifh.Str(p))
			verifh.Protect(probe)
			continue
		}
		if done {
			probe()
		} else {
			t.Count("skipped_malformed_op", 1)
		}
	}
	t.End()
}

// sorts m0 < m1 < … < i0 < i1 … like the driver: by suffix id (m<j> = 2j, i<j> = 2j+1)
func c07SfxLess(a, b string) bool {
	id := func(t string) int {
		n, _ := strconv.Atoi(t[1:])
		if t[0] == 'i' {
			return 2*n + 1
		}
		return 2 * n
	}
	return id(a) < id(b)
}

// c07Drain reveals the eviction behaviour through the public API: one-byte incomplete filler blobs
// are created until the store refuses, so that every evictable blob is evicted in turn.
func c07Drain(t *verifh.T, s *Store, capacity uint64, do func([]string) bool, probe func()) {
	limit := int(capacity) + len(s.List()) + 2
	if limit > 64 {
		limit = 64
	}
	for i := 0; i < limit; i++ {
		op := []string{"op", "create", fmt.Sprintf("k%d", 100+i), "1", "x"}
		if p := verifh.Protect(func() { do(op) }); p != "" {
			t.PropFail("panic", verifh.Str(strings.Join(op, " ")), verifh.Str(p))
			return
		}
		probe()
		if len(s.impl.evictionOrder()) == 0 && s.impl.size >= capacity {
			return
		}
	}
}

func c07Op(toks ...string) []string { return append([]string{"op"}, toks...) }

// alphabet of the eviction-order family: two keys, capacity 4
func c07AlphaLRU() [][]string {
	var ops [][]string
	for _, k := range []string{"k0", "k1"} {
		ops = append(ops,
			c07Op("create", k, "2", "xab"), c07Op("create", k, "3", "x"),
			c07Op("complete", k), c07Op("open", k, "any"), c07Op("delete", k, "any"),
			c07Op("ban", k, "any"), c07Op("unban", k, "any"))
	}
	return ops
}

// alphabet of the scope/metadata family: one key (+ a second one only created), capacity 4
func c07AlphaScope() [][]string {
	return [][]string{
		c07Op("create", "k0", "1", "x01"), c07Op("complete", "k0"),
		c07Op("setmd", "k0", "any", "m0", "x0a"), c07Op("setmd", "k0", "i", "i0", "x0b"), c07Op("setmd", "k0", "c", "m0", "x0c"),
		c07Op("getmd", "k0", "any", "m0"), c07Op("getmd", "k0", "c", "i0"), c07Op("getmd", "k0", "i", "m0"),
		c07Op("delmd", "k0", "any", "m0"), c07Op("listmd", "k0", "any"),
		c07Op("wamd", "k0", "any", "m0", "xff", "2"),
		c07Op("has", "k0", "c"), c07Op("has", "k0", "i"), c07Op("open", "k0", "i"), c07Op("stat", "k0", "c"),
		c07Op("delete", "k0", "c"), c07Op("delete", "k0", "i"), c07Op("list", "c"), c07Op("list", "i"),
		c07Op("ban", "k0", "i"), c07Op("unban", "k0", "c"), c07Op("write", "k0", "any", "1", "x0203"),
		c07Op("clean", "0", "1"),
	}
}

// alphabet of the I/O-failure family: creations and completions that fail on the file system
func c07AlphaIO() [][]string {
	return [][]string{
		c07Op("create", "k0", "2", "xab"), c07Op("complete", "k0"), c07Op("create", "k1", "3", "xcd"),
		c07Op("plant", "k1", "data"), c07Op("unplant", "k1", "data"), c07Op("plant", "k1", "dirfile"),
		c07Op("plant", "k0", "cdir"), c07Op("unplant", "k0", "cdir"), c07Op("delete", "k0", "any"),
		c07Op("create", "kb0", "1", "x"), c07Op("delete", "kb0", "any"), c07Op("delmd", "k0", "any", "x0"),
		c07Op("setmd", "k0", "any", "x3", "x01"), c07Op("open", "k0", "any"),
	}
}

func c07Exhaustive(tr *verifh.T, cfg []string, alpha [][]string, depth int, drain bool, stat string) {
	var rec func(prefix [][]string, d int)
	rec = func(prefix [][]string, d int) {
		if d == 0 {
			ops := prefix
			if drain {
				ops = append(prefix[:len(prefix):len(prefix)], c07Op("drain"))
			}
			c07Exec(tr, verifh.Case{Cfg: cfg, Ops: ops})
			tr.Count(stat, 1)
			return
		}
		for _, o := range alpha {
			rec(append(prefix[:len(prefix):len(prefix)], o), d-1)
		}
	}
	for d := 1; d <= depth; d++ {
		rec(nil, d)
	}
}

var c07Scopes = []string{"any", "any", "any", "c", "i"}

// c07Random generates one long history, weighted towards operations on live keys.
func c07Random(r *verifh.Rand, tr *verifh.T, malformed bool) verifh.Case {
	capacity := 4 + r.Intn(7)
	cfg := []string{fmt.Sprintf("cap=%d", capacity), fmt.Sprintf("shard=%d", []int{0, 0, 2}[r.Intn(3)]), "rib=" + verifh.Bool(r.Chance(1, 3))}
	nkeys := 2 + r.Intn(3)
	live := map[string]bool{}
	pickKey := func() string {
		if !malformed && len(live) > 0 && r.Chance(4, 5) {
			ks := make([]string, 0, len(live))
			for k := range live {
				ks = append(ks, k)
			}
			sort.Strings(ks)
			return ks[r.Intn(len(ks))]
		}
		return fmt.Sprintf("k%d", r.Intn(nkeys))
	}
	sizes := []uint64{0, 1, 1, 2, uint64(capacity) / 2, uint64(capacity) / 2, uint64(capacity) - 1, uint64(capacity), uint64(capacity) + 1}
	huge := []uint64{^uint64(0), ^uint64(0) - 1, ^uint64(0) - uint64(capacity) + 1, 1 << 63, 1<<63 + 1}
	sfx := []string{"m0", "m0", "m1", "i0", "i0", "i1"}
	mdOf := map[string][]string{} // suffixes set on a key so far (bias for reads)
	pickSfx := func(k string) string {
		if l := mdOf[k]; len(l) > 0 && r.Chance(3, 4) {
			return l[r.Intn(len(l))]
		}
		return sfx[r.Intn(len(sfx))]
	}
	n := 1 + r.Intn(40)
	var ops [][]string
	for j := 0; j < n; j++ {
		k := pickKey()
		sc := c07Scopes[r.Intn(len(c07Scopes))]
		var o []string
		if r.Chance(1, 20) || (malformed && r.Chance(1, 6)) {
			// file-system failures, keys and suffixes that do not name files of their own
			kk := fmt.Sprintf("k%d", r.Intn(nkeys))
			switch r.Intn(6) {
			case 0, 1:
				o = c07Op("plant", kk, []string{"data", "dirfile", "cdir"}[r.Intn(3)])
			case 2:
				o = c07Op("unplant", kk, []string{"data", "dirfile", "cdir"}[r.Intn(3)])
			case 3:
				bk := fmt.Sprintf("kb%d", r.Intn(len(c07BadKeys)))
				o = [][]string{c07Op("create", bk, "1", "x01"), c07Op("delete", bk, "any"), c07Op("open", bk, "any"),
					c07Op("complete", bk)}[r.Intn(4)]
			default:
				x := fmt.Sprintf("x%d", r.Intn(len(c07BadSuffixes)))
				o = [][]string{c07Op("delmd", k, sc, x), c07Op("setmd", k, sc, x, "x0102"), c07Op("getmd", k, sc, x),
					c07Op("wamd", k, sc, x, "x01", "0")}[r.Intn(4)]
			}
			ops = append(ops, o)
			tr.Count("random_op_"+o[1], 1)
			continue
		}
		switch w := r.Intn(100); {
		case w < 22:
			k = fmt.Sprintf("k%d", r.Intn(nkeys))
			size := sizes[r.Intn(len(sizes))]
			if r.Chance(1, 25) || (malformed && r.Chance(1, 4)) {
				size = huge[r.Intn(len(huge))]
				tr.Count("random_create_huge", 1)
			}
			dl := r.Intn(4)
			if size < 3 && r.Chance(3, 4) {
				dl = int(size)
			}
			o = c07Op("create", k, fmt.Sprint(size), verifh.Hex(r.Bytes(dl)))
			live[k] = true
		case w < 36:
			o = c07Op("complete", k)
		case w < 48:
			o = c07Op("open", k, sc)
		case w < 54:
			o = c07Op("delete", k, sc)
			if sc == "any" {
				delete(live, k)
			}
		case w < 61:
			o = c07Op("ban", k, sc)
		case w < 68:
			o = c07Op("unban", k, sc)
		case w < 75:
			x := sfx[r.Intn(len(sfx))]
			o = c07Op("setmd", k, sc, x, verifh.Hex(r.Bytes(r.Intn(3))))
			mdOf[k] = append(mdOf[k], x)
		case w < 81:
			o = c07Op("getmd", k, sc, pickSfx(k))
		case w < 84:
			o = c07Op("delmd", k, sc, pickSfx(k))
		case w < 87:
			o = c07Op("listmd", k, sc)
		case w < 89:
			o = c07Op("wamd", k, sc, pickSfx(k), verifh.Hex(r.Bytes(r.Intn(3))), fmt.Sprint(r.Intn(4)))
		case w < 91:
			o = c07Op("stat", k, sc)
		case w < 93:
			o = c07Op("has", k, sc)
		case w < 95:
			o = c07Op("list", sc)
		case w < 97:
			o = c07Op("write", k, sc, fmt.Sprint(r.Intn(4)), verifh.Hex(r.Bytes(r.Intn(3))))
		default:
			pct := []int{0, 0, 10, 30, 50, 70, 90, 99}[r.Intn(8)]
			if malformed || r.Chance(1, 10) {
				pct = []int{-1, 100, 150, -100}[r.Intn(4)]
			}
			o = c07Op("clean", fmt.Sprint(pct), verifh.Bool(r.Chance(1, 2)))
		}
		ops = append(ops, o)
		tr.Count("random_op_"+o[1], 1)
	}
	if r.Chance(1, 2) {
		ops = append(ops, c07Op("drain"))
	}
	return verifh.Case{Cfg: cfg, Ops: ops}
}

func TestVerif_C07(t *testing.T) {
	tr := verifh.Open("ds")
	defer tr.Close()
	cases, replayOnly := verifh.InputCases("ds")
	for _, c := range cases {
		c07Exec(tr, c)
		tr.Count("corpus_or_replay_cases", 1)
	}
	if replayOnly {
		return
	}
	// (a) bounded-exhaustive: eviction-order family (2 keys, capacity 4, each case ends with a drain)
	// and scope/metadata family (1 key)
	c07Exhaustive(tr, []string{"cap=4", "shard=0", "rib=0"}, c07AlphaLRU(), verifh.Scale(3, 5), true, "exhaustive_lru_cases")
	c07Exhaustive(tr, []string{"cap=4", "shard=2", "rib=1"}, c07AlphaScope(), verifh.Scale(3, 4), false, "exhaustive_scope_cases")
	c07Exhaustive(tr, []string{"cap=4", "shard=2", "rib=0"}, c07AlphaIO(), verifh.Scale(3, 5), true, "exhaustive_io_cases")
	// (b) random long histories + a malformed stream
	r := verifh.NewRand(verifh.Seed(), "c07")
	for i := 0; i < verifh.Scale(3000, 150000); i++ {
		c := c07Random(r, tr, false)
		if i < 2 {
			tr.Sample(fmt.Sprint(c.Cfg, c.Ops))
		}
		c07Exec(tr, c)
		tr.Count("random_cases", 1)
	}
	rm := verifh.NewRand(verifh.Seed(), "c07-malformed")
	for i := 0; i < verifh.Scale(500, 20000); i++ {
		c07Exec(tr, c07Random(rm, tr, true))
		tr.Count("malformed_cases", 1)
	}
}
