//go:build verif

package store

import (
	"bytes"
	"crypto/sha256"
	"encoding/hex"
	"errors"
	"fmt"
	"hash/crc32"
	"io"
	"os"
	"sort"
	"strconv"
	"strings"
	"testing"
	"time"

	"github.com/andres-erbsen/clock"
	"github.com/uber-go/tally"
	"github.com/uber/kraken/core"
	"github.com/uber/kraken/lib/store/metadata"
	"github.com/uber/kraken/utils/verifh"
)

// C01 (and the write-through half of C13) harness: drives a real CAStore (temp dirs, mock clock, no
// background drain workers: DrainWorkers=-1, the drain and the TTL sweep are stepped explicitly) through
// an interpreter of op records and writes what the real code returned.
//
// In-package because the drain step (drainNext), the TTL sweep (cleanupMemoryCacheExpiredEntries), the
// clock injection (newCAStore) and the memory cache accounting (memCache) are unexported.

var errC01Injected = errors.New("verif: injected write failure")

func c01Sha(b []byte) string {
	h := sha256.Sum256(b)
	return hex.EncodeToString(h[:])
}

type c01Run struct {
	t     *verifh.T
	s     *CAStore
	clk   *clock.Mock
	mem   bool
	names []string
	held  map[string]FileReader // readers kept open across later operations
	shaEm map[string]bool
	crcEm map[string]bool
}

func (r *c01Run) tblSha(b []byte) {
	k := verifh.Hex(b)
	if !r.shaEm[k] {
		r.shaEm[k] = true
		r.t.Rec("tbl", []string{"sha", k, c01Sha(b)}, nil)
	}
}

func (r *c01Run) tblCrc(b []byte, pl int64) {
	if pl <= 0 {
		return
	}
	for off := int64(0); off < int64(len(b)); off += pl {
		end := off + pl
		if end > int64(len(b)) {
			end = int64(len(b))
		}
		k := verifh.Hex(b[off:end])
		if !r.crcEm[k] {
			r.crcEm[k] = true
			r.t.Rec("tbl", []string{"crc", k, strconv.FormatUint(uint64(crc32.ChecksumIEEE(b[off:end])), 10)}, nil)
		}
	}
}

func c01Class(err error) string {
	switch {
	case err == nil:
		return "ok"
	case errors.Is(err, errC01Injected):
		return "write"
	case os.IsNotExist(err):
		return "notexist"
	case os.IsExist(err):
		return "exist"
	default:
		return "fail"
	}
}

func c01KV(toks []string, k string) string {
	for _, t := range toks {
		if strings.HasPrefix(t, k+"=") {
			return t[len(k)+1:]
		}
	}
	return ""
}

type c01Att struct {
	data []byte
	fail bool
}

func c01Atts(tok string) ([]c01Att, bool) {
	var out []c01Att
	for _, a := range verifh.Unlist(tok) {
		fail := strings.HasSuffix(a, "!")
		b, err := verifh.Unhex(strings.TrimSuffix(a, "!"))
		if err != nil {
			return nil, false
		}
		out = append(out, c01Att{b, fail})
	}
	return out, true
}

func (r *c01Run) probe(name string) {
	var rs, ss, ms, memS string
	var data []byte
	p := verifh.Protect(func() {
		f, err := r.s.GetCacheFileReader(name)
		switch {
		case err == nil:
			b, rerr := io.ReadAll(f)
			f.Close()
			if rerr != nil {
				rs = "err"
			} else {
				data = b
				rs = verifh.Hex(b)
			}
		case os.IsNotExist(err):
			rs = "notexist"
		default:
			rs = "err"
		}
		fi, err := r.s.GetCacheFileStat(name)
		switch {
		case err == nil:
			ss = strconv.FormatInt(fi.Size(), 10)
		case os.IsNotExist(err):
			ss = "notexist"
		default:
			ss = "err"
		}
		var tm metadata.TorrentMeta
		err = r.s.GetCacheFileMetadata(name, &tm)
		switch {
		case err == nil && tm.MetaInfo != nil:
			mi := tm.MetaInfo
			var sums []string
			for i := 0; i < mi.NumPieces(); i++ {
				sums = append(sums, strconv.FormatUint(uint64(mi.GetPieceSum(i)), 10))
			}
			sj := "-"
			if len(sums) > 0 {
				sj = strings.Join(sums, ".")
			}
			ms = fmt.Sprintf("%s:%d:%d:%s", mi.Digest().Hex(), mi.Length(), mi.PieceLength(), sj)
			if data != nil {
				r.tblCrc(data, mi.PieceLength())
			}
		case os.IsNotExist(err):
			ms = "notexist"
		default:
			ms = "err"
		}
		memS = "0"
		if r.mem && r.s.CheckInMemCache(name) {
			memS = "1"
		}
	})
	if p != "" {
		r.t.PropFail("panic", "probe", verifh.Str(p))
		return
	}
	if data != nil {
		r.tblSha(data)
	}
	r.t.Op([]string{"probe", name}, "r="+rs, "s="+ss, "m="+ms, "mem="+memS)
}

// readHeld reads a held reader to the end and closes it.
func (r *c01Run) readHeld(h string) {
	f, ok := r.held[h]
	if !ok {
		r.t.Op([]string{"readh", h}, "nohandle")
		return
	}
	delete(r.held, h)
	b, err := io.ReadAll(f)
	f.Close()
	if err != nil {
		r.t.Op([]string{"readh", h}, "err")
		return
	}
	r.tblSha(b)
	r.t.Op([]string{"readh", h}, verifh.Hex(b))
}

func (r *c01Run) probeAll() {
	for _, n := range r.names {
		r.probe(n)
	}
}

// acct is the memory-cache accounting as observed right after a call: TotalBytes / NumEntries reported by
// the cache, and the bytes / number of the entries actually present (every name of the case is asked).
func (r *c01Run) acct() []string {
	if !r.mem {
		return nil
	}
	var sum int64
	cnt := 0
	for _, n := range r.names {
		if r.s.CheckInMemCache(n) {
			cnt++
			if fi, err := r.s.GetCacheFileStat(n); err == nil {
				sum += fi.Size()
			}
		}
	}
	return []string{fmt.Sprintf("acct=%d/%d/%d/%d", r.s.memCache.TotalBytes(), r.s.memCache.NumEntries(), sum, cnt)}
}

// mop records a mutating operation: its result and the accounting observed right after it.
func (r *c01Run) mop(toks []string, res string) {
	r.t.Op(toks, append([]string{res}, r.acct()...)...)
}

// c01NameOK keeps names inside what the CAS file entry factory treats as a plain file name
// (path-like names are C11's subject).
func c01NameOK(n string) bool {
	return n != "" && n != "%" && !strings.ContainsAny(n, "/.%\\ ")
}

func (r *c01Run) do(op []string) (mutating bool) {
	if len(op) < 2 || op[0] != "op" {
		return false
	}
	a := op[1:]
	switch {
	case len(a) == 2 && a[0] == "createUpload" && c01NameOK(a[1]):
		err := r.s.CreateUploadFile(a[1], 0)
		r.mop(a, c01Class(err))
		return true
	case len(a) == 4 && a[0] == "writeUpload" && c01NameOK(a[1]):
		off, err1 := strconv.ParseInt(a[2], 10, 64)
		b, err2 := verifh.Unhex(a[3])
		if err1 != nil || err2 != nil || off < 0 || off > 1<<16 {
			return false
		}
		w, err := r.s.GetUploadFileReadWriter(a[1])
		if err == nil {
			// as uploader.patch: seek to the chunk start, then copy the chunk
			if _, err = w.Seek(off, 0); err == nil {
				_, err = io.CopyN(w, bytes.NewReader(b), int64(len(b)))
			}
			w.Close()
		}
		r.mop(a, c01Class(err))
		return true
	case (len(a) == 3 || len(a) == 4) && a[0] == "commit" && c01NameOK(a[1]) && c01NameOK(a[2]):
		have := "-"
		if f, err := r.s.GetUploadFileReader(a[1]); err == nil {
			b, _ := io.ReadAll(f)
			f.Close()
			have = verifh.Hex(b)
			r.tblSha(b)
		}
		err := r.s.MoveUploadFileToCache(a[1], a[2])
		r.mop([]string{"commit", a[1], a[2], have}, c01Class(err))
		return true
	case len(a) == 3 && a[0] == "createCache" && c01NameOK(a[1]):
		b, err := verifh.Unhex(a[2])
		if err != nil {
			return false
		}
		r.tblSha(b)
		err = r.s.CreateCacheFile(a[1], bytes.NewReader(b))
		r.mop(a, c01Class(err))
		return true
	case len(a) == 5 && a[0] == "writeBlob" && c01NameOK(a[1]):
		size, err1 := strconv.ParseUint(a[2], 10, 64)
		pl, err2 := strconv.ParseInt(a[3], 10, 64)
		atts, ok := c01Atts(a[4])
		if err1 != nil || err2 != nil || !ok || size > 1<<20 {
			return false
		}
		for _, at := range atts {
			r.tblSha(at.data)
			r.tblCrc(at.data, pl)
		}
		// the disk path generates the metainfo from what is readable under the name at that moment
		if f, err := r.s.GetCacheFileReader(a[1]); err == nil {
			b, _ := io.ReadAll(f)
			f.Close()
			r.tblCrc(b, pl)
		}
		calls := 0
		err := r.s.WriteBlobToCacheWithMetaInfo(a[1], size, func(w FileReadWriter) error {
			i := calls
			calls++
			if i >= len(atts) {
				return errC01Injected
			}
			// as a backend client's Download: stream the body into the writer
			if _, err := io.Copy(w, bytes.NewReader(atts[i].data)); err != nil {
				return err
			}
			if atts[i].fail {
				return errC01Injected
			}
			return nil
		}, pl)
		r.mop(a, c01Class(err))
		return true
	case len(a) == 3 && a[0] == "genMeta" && c01NameOK(a[1]):
		// the composition used by metainfogen.Generator.Generate and blobserver.overwriteMetaInfo
		pl, err1 := strconv.ParseInt(a[2], 10, 64)
		if err1 != nil {
			return false
		}
		d, derr := core.NewSHA256DigestFromHex(a[1])
		var err error
		if derr != nil {
			err = derr
		} else {
			var f FileReader
			f, err = r.s.GetCacheFileReader(a[1])
			if err == nil {
				b, _ := io.ReadAll(f)
				f.Close()
				r.tblCrc(b, pl)
				var mi *core.MetaInfo
				mi, err = core.NewMetaInfo(d, bytes.NewReader(b), pl)
				if err == nil {
					_, err = r.s.SetCacheFileMetadata(d.Hex(), metadata.NewTorrentMeta(mi))
				}
			}
		}
		r.mop(a, c01Class(err))
		return true
	case len(a) == 1 && a[0] == "drain":
		if !r.mem {
			return false
		}
		r.s.drainNext()
		r.mop(a, "ok")
		return true
	case len(a) == 1 && a[0] == "ttl":
		if !r.mem {
			return false
		}
		r.s.cleanupMemoryCacheExpiredEntries()
		r.mop(a, "ok")
		return true
	case len(a) == 2 && a[0] == "tick":
		dt, err := strconv.ParseInt(a[1], 10, 64)
		if err != nil || dt < 0 || dt > int64(100*time.Hour) {
			return false
		}
		r.clk.Add(time.Duration(dt))
		r.t.Op(a, "ok")
		return false
	case len(a) == 2 && a[0] == "delete" && c01NameOK(a[1]):
		err := r.s.DeleteCacheFile(a[1])
		r.mop(a, c01Class(err))
		return true
	case len(a) == 2 && (a[0] == "block" || a[0] == "unblock") && len(a[1]) == 2 && c01NameOK(a[1]):
		// fault injection: a plain file where the first-level shard directory of the cache would go makes
		// every file operation below it fail (ENOTDIR); only possible while no such directory exists
		p := r.s.config.CacheDir + "/" + a[1]
		fi, err := os.Lstat(p)
		res := "ok"
		if a[0] == "block" {
			if err == nil {
				res = "exist"
			} else if werr := os.WriteFile(p, nil, 0644); werr != nil {
				res = "fail"
			}
		} else {
			if err != nil || fi.IsDir() {
				res = "notexist"
			} else if rerr := os.Remove(p); rerr != nil {
				res = "fail"
			}
		}
		r.mop(a, res)
		return true
	case len(a) == 3 && a[0] == "open" && c01NameOK(a[1]) && c01NameOK(a[2]):
		// a reader that stays open while later operations run (a client streaming a blob)
		f, err := r.s.GetCacheFileReader(a[1])
		if err == nil {
			if old, ok := r.held[a[2]]; ok {
				old.Close()
			}
			r.held[a[2]] = f
		}
		r.t.Op(a, c01Class(err))
		return false
	case len(a) == 2 && a[0] == "readh" && c01NameOK(a[1]):
		r.readHeld(a[1])
		return false
	case len(a) == 2 && a[0] == "probe" && c01NameOK(a[1]):
		r.probe(a[1])
		return false
	case len(a) == 1 && a[0] == "list":
		names, err := r.s.ListCacheFiles()
		if err != nil {
			r.t.Op(a, "err")
		} else {
			sort.Strings(names)
			r.t.Op(a, verifh.List(names))
		}
		return false
	}
	return false
}

func c01Exec(t *verifh.T, c verifh.Case) {
	mem := c01KV(c.Cfg, "mem") == "1"
	max, _ := strconv.ParseUint(c01KV(c.Cfg, "max"), 10, 64)
	retries, _ := strconv.Atoi(c01KV(c.Cfg, "retries"))
	ttl, _ := strconv.ParseInt(c01KV(c.Cfg, "ttl"), 10, 64)
	skip := c01KV(c.Cfg, "skip") == "1"
	rps, _ := strconv.Atoi(c01KV(c.Cfg, "rps")) // ReadPartSize (absent = 0: plain file reads)
	if rps < 0 || rps > 1<<24 {
		rps = 0
	}
	if len(c.Cfg) == 0 {
		c.Cfg = []string{"mem=0", "max=0", "retries=0", "ttl=0", "skip=0"}
	}
	up, err := os.MkdirTemp("", "verifc01up")
	if err != nil {
		panic(err)
	}
	defer os.RemoveAll(up)
	ca, err := os.MkdirTemp("", "verifc01ca")
	if err != nil {
		panic(err)
	}
	defer os.RemoveAll(ca)
	clk := clock.NewMock()
	cfg := CAStoreConfig{
		UploadDir:            up,
		CacheDir:             ca,
		UploadCleanup:        CleanupConfig{Disabled: true},
		CacheCleanup:         CleanupConfig{Disabled: true},
		SkipHashVerification: skip,
		ReadPartSize:         rps,
		MemoryCache: MemoryCacheConfig{
			Enabled:         mem,
			MaxSize:         max,
			DrainWorkers:    -1, // no background workers: the harness steps the drain itself
			DrainMaxRetries: retries,
			TTL:             time.Duration(ttl),
			TTLInterval:     time.Duration(1 << 62), // the TTL sweep is stepped by the harness too
		},
	}
	s, err := newCAStore(cfg, tally.NoopScope, clk)
	if err != nil {
		panic(err)
	}
	defer s.Close()
	r := &c01Run{t: t, s: s, clk: clk, mem: mem, held: map[string]FileReader{}, shaEm: map[string]bool{}, crcEm: map[string]bool{}}
	// the names of the case: every name-position token of its ops
	seen := map[string]bool{}
	for _, op := range c.Ops {
		if len(op) < 3 || op[0] != "op" {
			continue
		}
		var n string
		switch op[1] {
		case "commit":
			if len(op) >= 4 {
				n = op[3]
			}
		case "createCache", "writeBlob", "genMeta", "delete", "probe", "open":
			n = op[2]
		}
		if n != "" && c01NameOK(n) && !seen[n] {
			seen[n] = true
			r.names = append(r.names, n)
		}
	}
	sort.Strings(r.names)
	t.Cfg(c.Cfg...)
	r.probeAll() // the initial view of every name (nothing is there yet)
	for _, op := range c.Ops {
		op := op
		var mut bool
		if p := verifh.Protect(func() { mut = r.do(op) }); p != "" {
			t.PropFail("panic", verifh.Str(strings.Join(op, " ")), verifh.Str(p))
			break
		}
		if mut {
			r.probeAll()
		}
	}
	// readers still open are read now, after everything that happened since they were opened
	var hs []string
	for h := range r.held {
		hs = append(hs, h)
	}
	sort.Strings(hs)
	for _, h := range hs {
		r.readHeld(h)
	}
	t.End()
}

// ---------------------------------------------------------------- generators

type c01Blob struct {
	data []byte
	name string
}

func c01MkBlob(b []byte) c01Blob { return c01Blob{b, c01Sha(b)} }

func c01WB(name string, size int, pl int, atts ...string) []string {
	return []string{"op", "writeBlob", name, strconv.Itoa(size), strconv.Itoa(pl), verifh.List(atts)}
}

func TestVerif_C01(t *testing.T) {
	tr := verifh.Open("castore")
	defer tr.Close()
	cases, replayOnly := verifh.InputCases("castore")
	for _, c := range cases {
		c01Exec(tr, c)
		tr.Count("corpus_or_replay_cases", 1)
	}
	if replayOnly {
		return
	}

	A := c01MkBlob([]byte("abcde"))
	B := c01MkBlob([]byte("xyz"))
	hA, hB := verifh.Hex(A.data), verifh.Hex(B.data)

	// (a) bounded-exhaustive over a small alphabet on one name (plus one op on a second name)
	alpha := [][]string{
		c01WB(A.name, 5, 2, hA),         // matching stream
		c01WB(A.name, 5, 2, hB, hB),     // every stream mismatches
		c01WB(A.name, 5, 2, hB, hA),     // first stream mismatches, the retry on the disk path matches
		c01WB(A.name, 5, 2, hA+"!", hA), // first stream fails after the body
		c01WB(B.name, 3, 2, hB),
		{"op", "createCache", A.name, hA},
		{"op", "createCache", A.name, hB},
		{"op", "drain"},
		{"op", "tick", "11000000000"},
		{"op", "ttl"},
		{"op", "delete", A.name},
		{"op", "genMeta", A.name, "3"},
		{"op", "block", A.name[:2]},
		{"op", "unblock", A.name[:2]},
	}
	cfgs := [][]string{
		{"mem=1", "max=64", "retries=1", "ttl=10000000000", "skip=0"},
		{"mem=1", "max=7", "retries=1", "ttl=10000000000", "skip=0"},
	}
	// quick: the full alphabet to depth 2 and its core (the first four writes, drain, tick, ttl) to depth 3;
	// thorough: full alphabet to depth 3, core to depth 4
	core := [][]string{alpha[0], alpha[1], alpha[2], alpha[7], alpha[8], alpha[9], alpha[6], alpha[12], alpha[13]}
	var rec func(al [][]string, cfg []string, prefix [][]string, d int)
	rec = func(al [][]string, cfg []string, prefix [][]string, d int) {
		if d == 0 {
			c01Exec(tr, verifh.Case{Cfg: cfg, Ops: prefix})
			tr.Count("exhaustive_cases", 1)
			return
		}
		for _, o := range al {
			rec(al, cfg, append(prefix[:len(prefix):len(prefix)], o), d-1)
		}
	}
	for ci, cfg := range cfgs {
		full, cor := verifh.Scale(2, 3), verifh.Scale(3, 4)
		if ci > 0 {
			full, cor = full-1, cor-1
		}
		for d := 1; d <= full; d++ {
			rec(alpha, cfg, nil, d)
		}
		rec(core, cfg, nil, cor)
	}

	// (a') held readers: a reader is opened on a blob served from memory (or from disk) and read to the end only
	// after the entry was drained / expired / deleted and other blobs (smaller, same size) went through the
	// memory cache
	{
		C := c01MkBlob([]byte("vwxyz"))
		hC := verifh.Hex(C.data)
		between := [][]string{
			{"op", "drain"}, {"op", "ttl"}, {"op", "tick", "11000000000"}, {"op", "delete", A.name},
			c01WB(B.name, 3, 2, hB), c01WB(C.name, 5, 2, hC), c01WB(A.name, 5, 2, hA),
		}
		starts := [][][]string{
			{c01WB(A.name, 5, 2, hA)},                 // A served from memory
			{c01WB(A.name, 5, 2, hA), {"op", "drain"}}, // A on disk
		}
		var rec2 func(start, mid [][]string, d int)
		rec2 = func(start, mid [][]string, d int) {
			ops := append(append([][]string{}, start...), []string{"op", "open", A.name, "h0"})
			ops = append(ops, mid...)
			ops = append(ops, []string{"op", "readh", "h0"})
			c01Exec(tr, verifh.Case{Cfg: cfgs[0], Ops: ops})
			tr.Count("held_reader_cases", 1)
			if d == 0 {
				return
			}
			for _, o := range between {
				rec2(start, append(mid[:len(mid):len(mid)], o), d-1)
			}
		}
		for _, st := range starts {
			rec2(st, nil, verifh.Scale(2, 3))
		}
	}

	// (a'') part-limited file reads (ReadPartSize ≠ 0: the last bytes of a file come back together with io.EOF)
	// and blobs at multiples of the 128 KB hashing buffer / of the part size: the genuine blob is accepted,
	// genuine ++ short tail and genuine minus a short tail are refused under the genuine name — through
	// CreateCacheFile and through an upload commit
	{
		mk := func(n int, salt byte) []byte {
			b := make([]byte, n)
			for i := range b {
				b[i] = byte(i*7+i/251) ^ salt
			}
			return b
		}
		type pc struct {
			rps, n int
		}
		list := []pc{{4096, 131072}, {131072, 131072}, {1048576, 262144}, {1, 0}, {3, 6}, {4096, 8192}, {0, 131072}}
		if verifh.Thorough() {
			list = append(list, pc{1, 131072}, pc{4096, 262144}, pc{131072, 393216}, pc{1048576, 1048576}, pc{65536, 131072})
		}
		for i, x := range list {
			cfg := []string{"mem=" + verifh.Bool(i%2 == 1), "max=2000000", "retries=1", "ttl=10000000000", "skip=0", "rps=" + strconv.Itoa(x.rps)}
			G := c01MkBlob(mk(x.n, byte(i)))
			ext := append(append([]byte{}, G.data...), 1, 2, 3, 4, 5)
			variants := [][]byte{ext, G.data}
			if x.n >= 5 {
				variants = append(variants, G.data[:x.n-5])
			}
			for vi, v := range variants {
				c01Exec(tr, verifh.Case{Cfg: cfg, Ops: [][]string{{"op", "createCache", G.name, verifh.Hex(v)}}})
				tr.Count("partread_cases", 1)
				if vi == 0 || x.n < 100000 {
					c01Exec(tr, verifh.Case{Cfg: cfg, Ops: [][]string{
						{"op", "createUpload", "u0"}, {"op", "writeUpload", "u0", "0", verifh.Hex(v)}, {"op", "commit", "u0", G.name}}})
					tr.Count("partread_cases", 1)
				}
			}
		}
	}

	// (b) seeded random histories
	r := verifh.NewRand(verifh.Seed(), "c01")
	nCases := verifh.Scale(300, 12000)
	for i := 0; i < nCases; i++ {
		// payload pool: sizes 0..9
		var pool []c01Blob
		for j := 0; j < 4; j++ {
			pool = append(pool, c01MkBlob(r.Bytes(r.Intn(10))))
		}
		if r.Chance(1, 4) {
			pool[3] = c01MkBlob(nil)
		}
		names := []string{pool[0].name, pool[1].name, pool[2].name, pool[3].name}
		extra := []string{c01Sha([]byte("never written")), strings.ToUpper(pool[0].name), "zz", pool[1].name[:63]}
		pickName := func() string {
			if r.Chance(1, 12) {
				return extra[r.Intn(len(extra))]
			}
			return names[r.Intn(3)]
		}
		mem := r.Chance(4, 5)
		max := []int{0, 3, 9, 10, 18, 64, 1000}[r.Intn(7)]
		cfg := []string{"mem=" + verifh.Bool(mem), "max=" + strconv.Itoa(max), "retries=" + strconv.Itoa(r.Intn(3)),
			"ttl=" + []string{"0", "5000000000", "10000000000"}[r.Intn(3)], "skip=" + verifh.Bool(r.Chance(1, 15))}
		if r.Chance(1, 3) {
			cfg = append(cfg, "rps="+r.Pick("1", "2", "3", "4096", "131072", "1048576"))
		}
		var ops [][]string
		uploads := []string{"u0", "u1"}
		lastUp := map[string]string{}
		n := 3 + r.Intn(22)
		for j := 0; j < n; j++ {
			k := r.Intn(100)
			switch {
			case k < 34: // write-through
				name := pickName()
				var want c01Blob
				found := false
				for _, p := range pool {
					if p.name == name {
						want, found = p, true
					}
				}
				if !found {
					want = pool[r.Intn(4)]
				}
				natt := 1 + r.Intn(2)
				var atts []string
				for a := 0; a < natt; a++ {
					p := want
					switch x := r.Intn(10); {
					case x < 5: // the right bytes
					case x < 7: // another blob's bytes
						p = pool[r.Intn(4)]
					case x < 8: // truncated
						if len(p.data) > 0 {
							p = c01Blob{p.data[:len(p.data)-1], ""}
						}
					case x < 9: // extended
						p = c01Blob{append(append([]byte{}, p.data...), byte(r.Intn(256))), ""}
					default: // one byte flipped
						if len(p.data) > 0 {
							d := append([]byte{}, p.data...)
							d[r.Intn(len(d))] ^= 1 << uint(r.Intn(8))
							p = c01Blob{d, ""}
						}
					}
					tok := verifh.Hex(p.data)
					if r.Chance(1, 8) {
						tok += "!"
					}
					atts = append(atts, tok)
				}
				if r.Chance(1, 30) {
					atts = nil
				}
				size := len(want.data)
				if r.Chance(1, 6) {
					size = r.Intn(12)
				}
				pl := []int{1, 2, 3, 4, 16, 0, -1}[r.Intn(7)]
				if r.Chance(3, 4) {
					pl = 1 + r.Intn(4)
				}
				ops = append(ops, c01WB(name, size, pl, atts...))
				tr.Count("random_op_writeBlob", 1)
			case k < 50:
				ops = append(ops, []string{"op", "drain"})
				tr.Count("random_op_drain", 1)
			case k < 56:
				ops = append(ops, []string{"op", "tick", []string{"1000000000", "6000000000", "11000000000", "301000000000"}[r.Intn(4)]})
			case k < 62:
				ops = append(ops, []string{"op", "ttl"})
				tr.Count("random_op_ttl", 1)
			case k < 70:
				p := pool[r.Intn(4)]
				name := pickName()
				if r.Chance(2, 3) {
					name = p.name
				}
				ops = append(ops, []string{"op", "createCache", name, verifh.Hex(p.data)})
				tr.Count("random_op_createCache", 1)
			case k < 86: // an upload flow: create, patch in one or two chunks, commit (stray steps with low probability)
				u := uploads[r.Intn(2)]
				p := pool[r.Intn(4)]
				if !r.Chance(1, 10) {
					ops = append(ops, []string{"op", "createUpload", u})
				}
				switch {
				case r.Chance(1, 12): // nothing written
				case r.Chance(1, 2) && len(p.data) > 1:
					// two chunks, possibly out of order, as chunked PATCH requests
					cut := 1 + r.Intn(len(p.data)-1)
					first := []string{"op", "writeUpload", u, "0", verifh.Hex(p.data[:cut])}
					second := []string{"op", "writeUpload", u, strconv.Itoa(cut), verifh.Hex(p.data[cut:])}
					if r.Chance(1, 2) {
						first, second = second, first
					}
					ops = append(ops, first, second)
				default:
					off := 0
					if r.Chance(1, 8) {
						off = 1 + r.Intn(3) // hole at the start: content differs from the blob
					}
					ops = append(ops, []string{"op", "writeUpload", u, strconv.Itoa(off), verifh.Hex(p.data)})
				}
				lastUp[u] = p.name
				tr.Count("random_op_upload_flow", 1)
				if !r.Chance(1, 10) {
					name := p.name
					if r.Chance(1, 4) {
						name = pickName()
					}
					ops = append(ops, []string{"op", "commit", u, name})
					tr.Count("random_op_commit", 1)
				}
			case k < 92:
				u := uploads[r.Intn(2)]
				name := pickName()
				if lastUp[u] != "" && r.Chance(2, 3) {
					name = lastUp[u]
				}
				ops = append(ops, []string{"op", "commit", u, name})
				tr.Count("random_op_commit", 1)
			case k < 95:
				ops = append(ops, []string{"op", "delete", pickName()})
			case k < 98:
				ops = append(ops, []string{"op", "genMeta", pickName(), strconv.Itoa(r.Intn(5))})
			default:
				ops = append(ops, []string{"op", "list"})
			}
			if r.Chance(1, 8) {
				// keep a reader open across what follows (read at a later point or at the end of the case)
				ops = append(ops, []string{"op", "open", names[r.Intn(3)], "h" + strconv.Itoa(r.Intn(3))})
				tr.Count("random_op_open", 1)
			} else if r.Chance(1, 20) {
				ops = append(ops, []string{"op", "readh", "h" + strconv.Itoa(r.Intn(3))})
			}
			if r.Chance(1, 12) {
				// the disk refuses one blob's shard for a while: drain retries, gives up, or succeeds later
				ops = append(ops, []string{"op", r.Pick("block", "block", "unblock"), names[r.Intn(3)][:2]})
				tr.Count("random_op_block", 1)
			}
		}
		if i < 2 {
			tr.Sample(fmt.Sprint(cfg, ops))
		}
		c01Exec(tr, verifh.Case{Cfg: cfg, Ops: ops})
		tr.Count("random_cases", 1)
	}
}
