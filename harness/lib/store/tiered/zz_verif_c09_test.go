//go:build verif

package tiered

import (
	"bytes"
	"errors"
	"fmt"
	"io"
	"math"
	"os"
	"path/filepath"
	"regexp"
	"sort"
	"strconv"
	"strings"
	"sync"
	"sync/atomic"
	"testing"
	"time"

	"github.com/uber-go/tally"
	storelib "github.com/uber/kraken/lib/store"
	"github.com/uber/kraken/lib/store/disk"
	"github.com/uber/kraken/lib/store/memory"
	"github.com/uber/kraken/lib/store/metadata"
	"github.com/uber/kraken/utils/verifh"
)

// C09 harness: tiered.Store with ONE flush worker under a step controller. The worker is parked at
// every scheduling point (the memOpen / ioCopy seams incl. every Read of the copy loop, and the `verif`
// hook points of flusher.go); client operations run while it is parked and a `step` record releases
// it to its next scheduling point. A client operation may itself be taken apart at the `c-…` hook
// points between its store calls (`@a,b` token: worker steps there). tiered.File handles are kept
// across worker steps and evictions. Interpreter of op records.
// TestVerif_C09_Free is the uncontrolled counterpart: the default number of workers, real goroutines.

// ---- metadata types of the harness: m<j> movable, i<j> immovable, u<j> no metadata type

type c09Md struct {
	suffix  string
	movable bool
	val     []byte
}

func (m *c09Md) GetSuffix() string          { return m.suffix }
func (m *c09Md) Movable() bool              { return m.movable }
func (m *c09Md) Serialize() ([]byte, error) { return m.val, nil }
func (m *c09Md) Deserialize(b []byte) error { m.val = append([]byte{}, b...); return nil }

type c09MdFactory struct{ movable, none bool }

// u<j> suffixes stand for suffixes without a metadata type: CreateFromSuffix returns nil for them
// (this factory does, exactly like the loop over the registered factories when none matches).
func (f c09MdFactory) Create(suffix string) metadata.Metadata {
	if f.none {
		return nil
	}
	return &c09Md{suffix: suffix, movable: f.movable}
}

func init() {
	metadata.Register(regexp.MustCompile(`^_vm[0-9]+$`), c09MdFactory{movable: true})
	metadata.Register(regexp.MustCompile(`^_vi[0-9]+$`), c09MdFactory{})
	metadata.Register(regexp.MustCompile(`^_vu[0-9]+$`), c09MdFactory{none: true})
}

func c09MdOf(tok string) (*c09Md, bool) {
	if len(tok) < 2 {
		return nil, false
	}
	if _, err := strconv.Atoi(tok[1:]); err != nil {
		return nil, false
	}
	switch tok[0] {
	case 'm':
		return &c09Md{suffix: "_vm" + tok[1:], movable: true}, true
	case 'i':
		return &c09Md{suffix: "_vi" + tok[1:], movable: false}, true
	case 'u':
		return &c09Md{suffix: "_vu" + tok[1:], movable: true}, true
	}
	return nil, false
}

func c09SfxTok(suffix string) string {
	switch {
	case strings.HasPrefix(suffix, "_vm"):
		return "m" + suffix[3:]
	case strings.HasPrefix(suffix, "_vi"):
		return "i" + suffix[3:]
	case strings.HasPrefix(suffix, "_vu"):
		return "u" + suffix[3:]
	}
	return "?" + verifh.Str(suffix)
}

func c09SfxID(t string) int {
	n, _ := strconv.Atoi(t[1:])
	switch t[0] {
	case 'i':
		return 2*n + 1
	case 'u':
		return 1000 + 2*n
	}
	return 2 * n
}

// ---- keys

func c09KeyName(tok string) (string, bool) {
	if len(tok) < 2 || tok[0] != 'k' {
		return "", false
	}
	i, err := strconv.Atoi(tok[1:])
	if err != nil || i < 0 || i > 9999 {
		return "", false
	}
	return fmt.Sprintf("%04x%04x", i, i), true
}

func c09KeyTok(name string) string {
	var a, b int
	if _, err := fmt.Sscanf(name, "%04x%04x", &a, &b); err == nil && a == b && len(name) == 8 {
		return fmt.Sprintf("k%d", a)
	}
	if name == "" {
		return "-"
	}
	return "k?" + verifh.Str(name)
}

func c09Keys(names []string) string {
	var idx []int
	for _, n := range names {
		t := c09KeyTok(n)
		if i, err := strconv.Atoi(t[1:]); err == nil {
			idx = append(idx, i)
		}
	}
	sort.Ints(idx)
	var toks []string
	for _, i := range idx {
		toks = append(toks, fmt.Sprintf("k%d", i))
	}
	return verifh.List(toks)
}

func c09Err(err error) string {
	switch {
	case err == nil:
		return "ok"
	case err == io.EOF:
		return "eof"
	case errors.Is(err, os.ErrNotExist) && !strings.Contains(err.Error(), "could not switch over"):
		return "notexist"
	case errors.Is(err, os.ErrExist):
		return "exist"
	case errors.Is(err, storelib.ErrOutOfScope):
		return "oos"
	case errors.Is(err, memory.ErrNoSpace) || strings.Contains(err.Error(), "cannot free enough space"):
		return "nospace"
	case strings.Contains(err.Error(), "could not switch over"):
		return "badswitch"
	}
	return "other:" + verifh.Str(err.Error())
}

// ---- step controller (one worker)

type c09Park struct {
	point, key, extra string
}

type c09Ctl struct {
	mu      sync.Mutex
	at      chan c09Park  // worker -> harness: parked
	resume  chan struct{} // harness -> worker
	cur     *c09Park      // where the worker is parked (nil: running)
	free    bool          // shutting down: scheduling points no longer park
	lastKey string        // key of the flush in progress (the ioCopy seam gets none)
	reads   int           // Read calls of the current copy
	buf     int           // size of the copy buffer (0: io.Copy's own)
	// the worker started by NewStore is held at its first scheduling point for the whole case; the
	// controlled worker is the same f.worker() on a goroutine that reports a panic instead of taking
	// the test process down
	heldSeen  bool
	heldReady chan struct{}
	hold      chan struct{}
	cs        *c09Case
}

var (
	c09CtlMu sync.Mutex
	c09Cur   *c09Ctl
)

func c09Active() *c09Ctl {
	c09CtlMu.Lock()
	defer c09CtlMu.Unlock()
	return c09Cur
}

func c09LastKey() string {
	if c := c09Active(); c != nil {
		c.mu.Lock()
		defer c.mu.Unlock()
		return c.lastKey
	}
	return ""
}

// c09Pause is called on a worker goroutine at a scheduling point.
func c09Pause(point, key string, extra ...string) {
	c := c09Active()
	if c == nil {
		return
	}
	c.mu.Lock()
	if point == "idle" && !c.heldSeen {
		c.heldSeen = true
		c.mu.Unlock()
		close(c.heldReady)
		<-c.hold
		return
	}
	if c.free {
		c.mu.Unlock()
		return
	}
	if key != "" {
		c.lastKey = key
	}
	c.mu.Unlock()
	p := c09Park{point: point, key: key}
	if len(extra) > 0 {
		p.extra = extra[0]
	}
	c.at <- p
	<-c.resume
}

type c09Reader struct{ r io.Reader }

func (r *c09Reader) Read(p []byte) (int, error) {
	c := c09Active()
	name := "copy"
	if c != nil {
		c.mu.Lock()
		c.reads++
		if c.reads >= 2 {
			name = "copyeof"
		}
		c.mu.Unlock()
	}
	c09Pause(name, c09LastKey())
	return r.r.Read(p)
}

var c09SeamsOnce sync.Once

func c09InstallSeams() {
	c09SeamsOnce.Do(func() {
		memOpen = func(mem *memory.Store, key string) (*memory.File, error) {
			c09Pause("open", key)
			f, err := mem.Open(key)
			if err == nil {
				c09Pause("opened", key)
			}
			return f, err
		}
		ioCopy = func(dst io.Writer, src io.Reader) (int64, error) {
			buf := 0
			if c := c09Active(); c != nil {
				c.mu.Lock()
				c.reads = 0
				buf = c.buf
				c.mu.Unlock()
			}
			var n int64
			var err error
			if buf > 0 {
				// a small copy buffer: blobs of a few bytes take many Read/Write rounds (the wrappers
				// hide ReaderFrom / WriterTo so that the buffer is really used)
				n, err = io.CopyBuffer(struct{ io.Writer }{dst}, &c09Reader{src}, make([]byte, buf))
			} else {
				n, err = io.Copy(dst, &c09Reader{src})
			}
			c09Pause("copied", c09LastKey())
			return n, err
		}
		verifHook = func(point, key string) {
			switch {
			case strings.HasPrefix(point, "c-"):
				c09ClientPoint(point, key)
			case strings.HasPrefix(point, "md:"):
				c09Pause("md", key, c09SfxTok(point[3:]))
			case strings.HasPrefix(point, "mdwrite:"):
				c09Pause("mdwrite", key, c09SfxTok(point[8:]))
			default:
				c09Pause(point, key)
			}
		}
	})
}

// c09ClientPoint is called on the harness goroutine, inside a client operation of tiered.store, at a
// point between two of its store calls: if the operation was armed with `@a,b`, the worker takes the
// given number of steps here.
func c09ClientPoint(point, key string) {
	ctl := c09Active()
	if ctl == nil || ctl.cs == nil || ctl.cs.split == nil {
		return
	}
	c := ctl.cs
	i := c.splitIdx
	c.splitIdx++
	c.t.Rec("cpoint", nil, []string{point, c09KeyTok(key)})
	n := 0
	if i < len(c.split) {
		n = c.split[i]
	}
	for j := 0; j < n && !c.broken; j++ {
		if !c.stepAs("cstep") {
			c.broken = true
			return
		}
		c.probe()
	}
}

// c09Worker runs the flush worker loop of f on a goroutine that survives a panic of the worker.
func c09Worker(ctl *c09Ctl, f *flusher) {
	defer func() {
		if r := recover(); r != nil {
			ctl.mu.Lock()
			free := ctl.free
			ctl.mu.Unlock()
			if !free {
				ctl.at <- c09Park{point: "panic", extra: verifh.Str(fmt.Sprint(r))}
			}
		}
	}()
	f.worker()
}

// wait until the worker is parked (it always reaches a scheduling point)
func (c *c09Ctl) waitParked() bool {
	select {
	case p := <-c.at:
		c.mu.Lock()
		c.cur = &p
		c.mu.Unlock()
		return true
	case <-time.After(5 * time.Second):
		return false
	}
}

// ---- executor

type c09Case struct {
	s        *Store
	ctl      *c09Ctl
	t        *verifh.T
	dir      string  // root directory of the disk store
	faults   map[string]string // planted directories (key token + suffix token -> path)
	files    []*File // handles kept open (nil: closed)
	split    []int   // worker steps at the points of the client operation in progress (nil: not armed)
	splitIdx int
	broken   bool
}

func c09Cfg(cfg []string) (mcap, dcap uint64, buf int) {
	mcap, dcap = 4, 64
	for _, t := range cfg {
		if v, ok := strings.CutPrefix(t, "mcap="); ok {
			mcap, _ = strconv.ParseUint(v, 10, 64)
		}
		if v, ok := strings.CutPrefix(t, "dcap="); ok {
			dcap, _ = strconv.ParseUint(v, 10, 64)
		}
		if v, ok := strings.CutPrefix(t, "buf="); ok {
			buf, _ = strconv.Atoi(v)
		}
	}
	if buf < 0 || buf > 1<<16 {
		buf = 0
	}
	if mcap == 0 {
		mcap = 4
	}
	if dcap == 0 {
		dcap = 64
	}
	return
}

var c09TmpBase = func() string {
	if fi, err := os.Stat("/dev/shm"); err == nil && fi.IsDir() {
		return "/dev/shm"
	}
	return ""
}()

func (c *c09Case) scoped(tok string) (*Store, bool) {
	switch tok {
	case "any":
		return c.s, true
	case "c":
		return c.s.ScopeComplete(), true
	case "i":
		return c.s.ScopeIncomplete(), true
	}
	return nil, false
}

// probe: the state of both tiers through their public APIs and the flusher's bookkeeping
func (c *c09Case) probe() {
	f := c.s.impl.flusher
	f.mu.Lock()
	var fe []string
	var fkeys []string
	for k := range f.blobs {
		fkeys = append(fkeys, k)
	}
	sort.Slice(fkeys, func(i, j int) bool { return c09KeyTok(fkeys[i]) < c09KeyTok(fkeys[j]) })
	for _, k := range fkeys {
		b := f.blobs[k]
		b.mu.Lock()
		var sf []string
		for s := range b.dirtyMD {
			sf = append(sf, c09SfxTok(s))
		}
		b.mu.Unlock()
		sort.Slice(sf, func(i, j int) bool { return c09SfxID(sf[i]) < c09SfxID(sf[j]) })
		d := "-"
		if len(sf) > 0 {
			d = strings.Join(sf, "+")
		}
		kind := "m"
		if b.dataDirty {
			kind = "d"
		}
		fe = append(fe, c09KeyTok(k)+":"+kind+":"+d)
	}
	var q []string
	for _, k := range f.queue {
		q = append(q, c09KeyTok(k))
	}
	f.mu.Unlock()
	c.t.Rec("probe", nil, []string{
		"mem=" + c09Keys(c.s.impl.mem.List()),
		"memc=" + c09Keys(c.s.impl.mem.ScopeComplete().List()),
		"disk=" + c09Keys(c.s.impl.disk.List()),
		"diskc=" + c09Keys(c.s.impl.disk.ScopeComplete().List()),
		"f=" + verifh.List(fe),
		"q=" + verifh.List(q),
	})
}

// step releases the worker to its next scheduling point
func (c *c09Case) step() bool { return c.stepAs("step") }

func (c *c09Case) stepAs(kind string) bool {
	ctl := c.ctl
	ctl.mu.Lock()
	cur := ctl.cur
	ctl.mu.Unlock()
	if cur == nil {
		c.t.PropFail("harness-worker-not-parked")
		return false
	}
	if cur.point == "panic" {
		return false
	}
	f := c.s.impl.flusher
	if cur.point == "idle" && len(f.notify) == 0 {
		// nothing to wake the worker up: it stays in front of its select
		c.t.Rec(kind, nil, []string{"idle", "-"})
		return true
	}
	ctl.mu.Lock()
	ctl.cur = nil
	ctl.mu.Unlock()
	ctl.resume <- struct{}{}
	if !ctl.waitParked() {
		c.t.PropFail("harness-worker-stuck", "after="+cur.point)
		return false
	}
	ctl.mu.Lock()
	p := *ctl.cur
	ctl.mu.Unlock()
	if p.point == "panic" {
		// the worker goroutine died: in production this takes the process down
		c.t.Rec(kind, nil, []string{"panic", p.extra})
		return false
	}
	obs := []string{p.point, c09KeyTok(p.key)}
	if p.point == "idle" {
		obs[1] = "-"
	}
	if p.extra != "" {
		obs = append(obs, p.extra)
	}
	c.t.Rec(kind, nil, obs)
	return true
}

func (c *c09Case) idleAndEmpty() bool {
	c.ctl.mu.Lock()
	cur := c.ctl.cur
	c.ctl.mu.Unlock()
	f := c.s.impl.flusher
	f.mu.Lock()
	defer f.mu.Unlock()
	return cur != nil && cur.point == "idle" && len(f.notify) == 0
}

func (c *c09Case) handle(tok string) (int, *File) {
	if len(tok) < 2 || tok[0] != 'h' {
		return -1, nil
	}
	i, err := strconv.Atoi(tok[1:])
	if err != nil || i < 0 || i >= len(c.files) || c.files[i] == nil {
		return -1, nil
	}
	return i, c.files[i]
}

func c09ReadObs(b []byte, m int, err error) []string {
	switch {
	case m > 0 && err == io.EOF:
		return []string{"ok", verifh.Hex(b[:m]), "eof"}
	case m > 0 && err == nil:
		return []string{"ok", verifh.Hex(b[:m])}
	case err == nil:
		return []string{"ok", "x"}
	}
	return []string{c09Err(err)}
}

// wellFormed: the tokens of a client operation parse (checked before an operation is begun in parts)
func (c *c09Case) wellFormed(a []string) bool {
	if len(a) < 2 {
		return false
	}
	if _, ok := c09KeyName(a[1]); !ok {
		return false
	}
	switch {
	case a[0] == "create" && len(a) == 4:
		size, err := strconv.ParseUint(a[2], 10, 64)
		_, err2 := verifh.Unhex(a[3])
		return err == nil && err2 == nil && size <= 1<<20
	case a[0] == "complete" && len(a) == 2:
		return true
	case a[0] == "delete" && len(a) == 3:
		_, ok := c.scoped(a[2])
		return ok
	case a[0] == "setmd" && len(a) == 5:
		_, ok := c.scoped(a[2])
		md, ok2 := c09MdOf(a[3])
		_, err := verifh.Unhex(a[4])
		return ok && ok2 && err == nil && !strings.HasPrefix(md.suffix, "_vu")
	case a[0] == "delmd" && len(a) == 4:
		_, ok := c.scoped(a[2])
		_, ok2 := c09MdOf(a[3])
		return ok && ok2
	}
	return false
}

func (c *c09Case) do(op []string) bool {
	if len(op) < 1 {
		return false
	}
	if op[0] == "step" {
		ok := c.step()
		if !ok {
			c.broken = true
		}
		return ok
	}
	if op[0] != "op" || len(op) < 2 {
		return false
	}
	full := op[1:]
	a := full
	s := c.s
	t := c.t
	if n := len(a); n > 1 && strings.HasPrefix(a[n-1], "@") {
		// `@x,y`: take the operation apart, the worker takes x steps at its first point, y at its second
		var split []int
		for _, f := range strings.Split(a[n-1][1:], ",") {
			v, err := strconv.Atoi(f)
			if err != nil || v < 0 || v > 64 {
				return false
			}
			split = append(split, v)
		}
		a = a[:n-1]
		if !c.wellFormed(a) {
			return false
		}
		c.split, c.splitIdx = split, 0
		defer func() { c.split = nil }()
		t.Rec("begin", a, nil)
		t.Count("split_ops", 1)
	}
	switch {
	case a[0] == "openk" && len(a) == 3:
		key, ok1 := c09KeyName(a[1])
		sc, ok2 := c.scoped(a[2])
		if !ok1 || !ok2 {
			return false
		}
		f, err := sc.Open(key)
		if err != nil {
			t.Op(full, c09Err(err))
			return true
		}
		c.files = append(c.files, f)
		t.Op(full, "ok", fmt.Sprintf("h%d", len(c.files)-1))
	case a[0] == "hread" && len(a) == 3:
		i, f := c.handle(a[1])
		n, err := strconv.Atoi(a[2])
		if i < 0 || err != nil || n < 0 || n > 1<<16 {
			return false
		}
		b := make([]byte, n)
		m, rerr := f.Read(b)
		t.Op(full, c09ReadObs(b, m, rerr)...)
	case a[0] == "hreadat" && len(a) == 4:
		i, f := c.handle(a[1])
		n, err := strconv.Atoi(a[2])
		off, err2 := strconv.Atoi(a[3])
		if i < 0 || err != nil || err2 != nil || n < 0 || n > 1<<16 || off < 0 || off > 1<<20 {
			return false
		}
		b := make([]byte, n)
		m, rerr := f.ReadAt(b, int64(off))
		t.Op(full, c09ReadObs(b, m, rerr)...)
	case a[0] == "hsize" && len(a) == 2:
		i, f := c.handle(a[1])
		if i < 0 {
			return false
		}
		t.Op(full, fmt.Sprint(f.Size()))
	case a[0] == "mdfault" && len(a) == 3:
		// make the disk store's next write of this sidecar fail: it writes "<suffix>-tmp" first, a directory
		// of that name makes the open fail. Only for a blob that is complete in memory and fully flushed
		// (complete on disk, unknown to the flusher), so that the next metadata update is a metadata-only flush.
		key, ok1 := c09KeyName(a[1])
		md, ok3 := c09MdOf(a[2])
		if !ok1 || !ok3 || strings.HasPrefix(md.suffix, "_vu") || c.faults[a[1]+a[2]] != "" {
			return false
		}
		_, inMem := s.impl.mem.ScopeComplete().Has(key)
		_, onDisk := s.impl.disk.ScopeComplete().Has(key)
		fl := s.impl.flusher
		fl.mu.Lock()
		_, dirty := fl.blobs[key]
		fl.mu.Unlock()
		if !inMem || !onDisk || dirty {
			return false
		}
		blobDir := ""
		filepath.WalkDir(filepath.Join(c.dir, "complete"), func(path string, d os.DirEntry, err error) error {
			if err == nil && d.IsDir() && d.Name() == key {
				blobDir = path
				return filepath.SkipAll
			}
			return nil
		})
		if blobDir == "" {
			return false
		}
		fp := filepath.Join(blobDir, md.suffix+"-tmp")
		if err := os.Mkdir(fp, 0o755); err != nil {
			return false
		}
		c.faults[a[1]+a[2]] = fp
		t.Op(full, "ok")
	case a[0] == "mdunfault" && len(a) == 3:
		fp := c.faults[a[1]+a[2]]
		if fp == "" {
			return false
		}
		delete(c.faults, a[1]+a[2])
		os.RemoveAll(fp)
		t.Op(full, "ok")
	case a[0] == "hclose" && len(a) == 2:
		i, f := c.handle(a[1])
		if i < 0 {
			return false
		}
		f.Close()
		c.files[i] = nil
		t.Op(full, "ok")
	case a[0] == "create" && len(a) == 4:
		key, ok1 := c09KeyName(a[1])
		size, err := strconv.ParseUint(a[2], 10, 64)
		data, err2 := verifh.Unhex(a[3])
		if !ok1 || err != nil || err2 != nil || size > 1<<20 {
			return false
		}
		f, err := s.Create(key, size)
		if err == nil {
			if len(data) > 0 {
				if _, werr := f.Write(data); werr != nil {
					t.Op(full, "other:write:"+verifh.Str(werr.Error()))
					return true
				}
			}
			f.Close()
		}
		t.Op(full, c09Err(err))
	case a[0] == "open" && len(a) == 3:
		key, ok1 := c09KeyName(a[1])
		sc, ok2 := c.scoped(a[2])
		if !ok1 || !ok2 {
			return false
		}
		f, err := sc.Open(key)
		if err != nil {
			t.Op(full, c09Err(err))
			return true
		}
		b, rerr := io.ReadAll(f)
		f.Close()
		if rerr != nil {
			t.Op(full, "other:read:"+verifh.Str(rerr.Error()))
			return true
		}
		t.Op(full, "ok", verifh.Hex(b))
	case a[0] == "has" && len(a) == 3:
		key, ok1 := c09KeyName(a[1])
		sc, ok2 := c.scoped(a[2])
		if !ok1 || !ok2 {
			return false
		}
		in, scoped := sc.Has(key)
		t.Op(full, verifh.Bool(in), verifh.Bool(scoped))
	case a[0] == "list" && len(a) == 2:
		sc, ok2 := c.scoped(a[1])
		if !ok2 {
			return false
		}
		t.Op(full, c09Keys(sc.List()))
	case a[0] == "stat" && len(a) == 3:
		key, ok1 := c09KeyName(a[1])
		sc, ok2 := c.scoped(a[2])
		if !ok1 || !ok2 {
			return false
		}
		n, err := sc.Stat(key)
		if err != nil {
			t.Op(full, c09Err(err))
			return true
		}
		t.Op(full, "ok", fmt.Sprint(n))
	case a[0] == "complete" && len(a) == 2:
		key, ok1 := c09KeyName(a[1])
		if !ok1 {
			return false
		}
		t.Op(full, c09Err(s.MarkComplete(key)))
	case a[0] == "delete" && len(a) == 3:
		key, ok1 := c09KeyName(a[1])
		sc, ok2 := c.scoped(a[2])
		if !ok1 || !ok2 {
			return false
		}
		t.Op(full, c09Err(sc.Delete(key)))
	case a[0] == "setmd" && len(a) == 5:
		key, ok1 := c09KeyName(a[1])
		sc, ok2 := c.scoped(a[2])
		md, ok3 := c09MdOf(a[3])
		val, err := verifh.Unhex(a[4])
		// a metadata type without a factory is outside the domain: every kraken metadata type
		// registers itself (assumption of the property)
		if !ok1 || !ok2 || !ok3 || err != nil || strings.HasPrefix(md.suffix, "_vu") {
			return false
		}
		md.val = val
		t.Op(full, c09Err(sc.SetMetadata(key, md)))
	case a[0] == "getmd" && len(a) == 4:
		key, ok1 := c09KeyName(a[1])
		sc, ok2 := c.scoped(a[2])
		md, ok3 := c09MdOf(a[3])
		if !ok1 || !ok2 || !ok3 {
			return false
		}
		ok, err := sc.GetMetadata(key, md)
		switch {
		case err != nil:
			t.Op(full, c09Err(err))
		case !ok:
			t.Op(full, "absent")
		default:
			t.Op(full, "ok", verifh.Hex(md.val))
		}
	case a[0] == "delmd" && len(a) == 4:
		key, ok1 := c09KeyName(a[1])
		sc, ok2 := c.scoped(a[2])
		md, ok3 := c09MdOf(a[3])
		if !ok1 || !ok2 || !ok3 {
			return false
		}
		t.Op(full, c09Err(sc.DeleteMetadata(key, md.suffix)))
	default:
		return false
	}
	return true
}

func (c *c09Case) drain() {
	// let the worker run until it is back in front of its select with nothing to do
	for i := 0; !c.broken && i < 400 && !c.idleAndEmpty(); i++ {
		if !c.step() {
			c.broken = true
			break
		}
		c.probe()
	}
}

// c09Exec runs one case: a fresh tiered store with one parked worker.
func c09Exec(t *verifh.T, cs verifh.Case) {
	c09InstallSeams()
	mcap, dcap, buf := c09Cfg(cs.Cfg)
	dir, err := os.MkdirTemp(c09TmpBase, "verif-c09-")
	if err != nil {
		panic(err)
	}
	defer os.RemoveAll(dir)
	ctl := &c09Ctl{at: make(chan c09Park), resume: make(chan struct{}), buf: buf,
		heldReady: make(chan struct{}), hold: make(chan struct{})}
	c09CtlMu.Lock()
	c09Cur = ctl
	c09CtlMu.Unlock()
	s, _, err := NewStore(&Config{
		NumFlushWorkers: 1,
		DiskConfig:      &disk.Config{RootDir: dir, CapacityBytes: dcap},
		MemConfig:       &memory.Config{CapacityBytes: mcap, GOMEMLIMITBytes: math.MaxInt64},
	}, tally.NoopScope)
	if err != nil {
		panic(err)
	}
	c := &c09Case{s: s, ctl: ctl, t: t, dir: dir, faults: map[string]string{}}
	ctl.cs = c
	cfg := []string{fmt.Sprintf("mcap=%d", mcap), fmt.Sprintf("dcap=%d", dcap)}
	if buf > 0 {
		cfg = append(cfg, fmt.Sprintf("buf=%d", buf))
	}
	t.Cfg(cfg...)
	started := false
	select {
	case <-ctl.heldReady:
		// the store's own worker is held at the top of its loop; the controlled one starts now
		go c09Worker(ctl, s.impl.flusher)
		started = ctl.waitParked()
	case <-time.After(5 * time.Second):
	}
	if !started {
		t.PropFail("harness-worker-stuck", "at=start")
		c.broken = true
	}
	for _, op := range cs.Ops {
		if c.broken {
			break
		}
		if len(op) >= 1 {
			switch op[0] {
			case "probe", "begin", "cpoint", "cstep":
				// produced by the harness itself while it runs the case
				continue
			}
		}
		if len(op) == 1 && op[0] == "drain" {
			c.drain()
			continue
		}
		done := false
		if p := verifh.Protect(func() { done = c.do(op) }); p != "" {
			t.PropFail("panic", verifh.Str(strings.Join(op, " ")), verifh.Str(p))
			c.broken = true
			break
		}
		if c.broken {
			break
		}
		if done {
			c.probe()
		} else {
			t.Count("skipped_malformed_op", 1)
		}
	}
	// drain: run the worker until it is back in front of its select with nothing to do, so that it
	// can be shut down without touching the next case
	c.drain()
	t.End()
	for _, f := range c.files {
		if f != nil {
			f.Close()
		}
	}
	// shut the workers down
	ctl.mu.Lock()
	ctl.free = true
	parked := ctl.cur != nil && ctl.cur.point != "panic"
	ctl.cur = nil
	ctl.mu.Unlock()
	select {
	case <-s.impl.flusher.notify:
	default:
	}
	close(s.impl.flusher.stop)
	close(ctl.hold)
	if parked {
		ctl.resume <- struct{}{}
	}
	if c.broken {
		// a worker that is not parked at a known point may still come by: give it a moment
		time.Sleep(50 * time.Millisecond)
	}
}

func c09Op(toks ...string) []string { return append([]string{"op"}, toks...) }

var c09Step = []string{"step"}

// the closing sequence of a generated case: let the worker finish, squeeze memory, look at everything
func c09Closing(mcap int, keys []string) [][]string {
	ops := [][]string{{"drain"}}
	ops = append(ops, c09Op("create", "k9", fmt.Sprint(mcap), "x"), c09Op("delete", "k9", "any"), []string{"drain"})
	for _, k := range keys {
		ops = append(ops, c09Op("has", k, "any"), c09Op("open", k, "any"), c09Op("open", k, "c"),
			c09Op("getmd", k, "any", "m0"), c09Op("getmd", k, "any", "m1"), c09Op("getmd", k, "any", "i0"))
	}
	// whatever handles the case kept open (operations on handles that do not exist are skipped)
	// h0: a positional call first, then the rest of the stream; h1: the other way round; h2: ReadAt first
	ops = append(ops, c09Op("hsize", "h0"), c09Op("hread", "h0", "8"), c09Op("hreadat", "h0", "8", "0"),
		c09Op("hread", "h1", "8"), c09Op("hsize", "h1"), c09Op("hreadat", "h1", "8", "0"),
		c09Op("hreadat", "h2", "8", "1"), c09Op("hread", "h2", "8"))
	ops = append(ops, c09Op("list", "any"), c09Op("list", "c"), c09Op("list", "i"))
	return ops
}

var c09Scopes = []string{"any", "any", "any", "any", "c", "i"}

// c09Random: a random schedule of client operations (whole, or taken apart with worker steps inside),
// handle operations and worker steps over two keys (+ a filler key used for memory pressure), with
// varying memory and disk capacities and copy-buffer sizes.
func c09Random(r *verifh.Rand, tr *verifh.T) verifh.Case {
	mcap := 3 + r.Intn(3)
	dcap := 64
	if r.Chance(1, 3) {
		dcap = 2 + r.Intn(7) // the disk store evicts, refuses flushes
	}
	cfg := []string{fmt.Sprintf("mcap=%d", mcap), fmt.Sprintf("dcap=%d", dcap)}
	if r.Chance(1, 2) {
		cfg = append(cfg, fmt.Sprintf("buf=%d", 1+r.Intn(2)))
	}
	keys := []string{"k0", "k1"}
	sfx := []string{"m0", "m0", "m1", "i0"}
	n := 4 + r.Intn(36)
	stepBias := 2 + r.Intn(5) // out of 10
	nh := 0
	split := func(o []string) []string {
		if r.Chance(1, 4) {
			tr.Count("random_split", 1)
			return append(o, fmt.Sprintf("@%d,%d", r.Intn(8), r.Intn(8)))
		}
		return o
	}
	var ops [][]string
	for j := 0; j < n; j++ {
		if r.Intn(10) < stepBias {
			ops = append(ops, c09Step)
			tr.Count("random_step", 1)
			continue
		}
		if r.Chance(1, 12) {
			// let the flush finish: most metadata races start from a flushed blob
			ops = append(ops, []string{"drain"})
			tr.Count("random_drain", 1)
			continue
		}
		k := keys[r.Intn(len(keys))]
		sc := c09Scopes[r.Intn(len(c09Scopes))]
		if r.Chance(1, 30) {
			// a metadata update whose flush to the disk store fails (only armed on a fully flushed blob)
			x := sfx[r.Intn(2)]
			ops = append(ops, []string{"drain"}, c09Op("mdfault", k, x), c09Op("setmd", k, "any", x, verifh.Hex(r.Bytes(1))))
			for j := r.Intn(8); j > 0; j-- {
				ops = append(ops, c09Step)
			}
			ops = append(ops, []string{"drain"}, c09Op("mdunfault", k, x))
			tr.Count("random_mdfault", 1)
			continue
		}
		var o []string
		switch w := r.Intn(112); {
		case w < 20:
			size := 1 + r.Intn(3)
			data := r.Bytes(1 + r.Intn(3))
			if r.Chance(1, 8) {
				size = mcap + 1 // does not fit in memory: falls back to disk
			} else if r.Chance(1, 6) {
				size, data = 0, nil // an empty blob: flushed (created and completed on disk) like any other
				tr.Count("random_create_empty", 1)
			}
			o = split(c09Op("create", k, fmt.Sprint(size), verifh.Hex(data)))
		case w < 38:
			o = split(c09Op("complete", k))
		case w < 50:
			o = split(c09Op("delete", k, sc))
		case w < 62:
			o = split(c09Op("setmd", k, sc, sfx[r.Intn(len(sfx))], verifh.Hex(r.Bytes(1))))
		case w < 67:
			s := sfx[r.Intn(len(sfx))]
			if r.Chance(1, 4) {
				s = "u0" // a suffix no metadata type is registered for
			}
			o = split(c09Op("delmd", k, sc, s))
		case w < 74:
			s := sfx[r.Intn(len(sfx))]
			if r.Chance(1, 8) {
				s = "u0"
			}
			o = c09Op("getmd", k, sc, s)
		case w < 82:
			o = c09Op("open", k, sc)
		case w < 86:
			o = c09Op("has", k, sc)
		case w < 89:
			o = c09Op("stat", k, sc)
		case w < 92:
			o = c09Op("list", sc)
		case w < 97:
			// memory pressure: a filler that needs everything evictable to go
			o = c09Op("create", "k9", fmt.Sprint(mcap-r.Intn(2)), "x")
		case w < 100:
			o = c09Op("delete", "k9", "any")
		case w < 104:
			o = c09Op("openk", k, []string{"any", "any", "c"}[r.Intn(3)])
			if r.Chance(1, 2) {
				// a cursor inside the blob before anything else happens to the handle (if the open fails the
				// read is on a handle that does not exist and is skipped)
				ops = append(ops, o)
				tr.Count("random_op_"+o[1], 1)
				o = c09Op("hread", fmt.Sprintf("h%d", nh), "1")
			}
			nh++ // an upper bound: a failed open takes no handle number
		case w < 107:
			o = c09Op("hread", fmt.Sprintf("h%d", r.Intn(nh+1)), fmt.Sprint(1+r.Intn(2)))
		case w < 109:
			o = c09Op("hreadat", fmt.Sprintf("h%d", r.Intn(nh+1)), fmt.Sprint(1+r.Intn(3)), fmt.Sprint(r.Intn(3)))
		case w < 111:
			o = c09Op("hsize", fmt.Sprintf("h%d", r.Intn(nh+1)))
		default:
			o = c09Op("hclose", fmt.Sprintf("h%d", r.Intn(nh+1)))
		}
		ops = append(ops, o)
		tr.Count("random_op_"+o[1], 1)
	}
	ops = append(ops, c09Closing(mcap, keys)...)
	return verifh.Case{Cfg: cfg, Ops: ops}
}

// c09Interleave enumerates the interleavings of a client script with the worker's steps: after each
// client operation the worker takes 0..maxSteps steps, and inside an operation marked with a trailing
// "@" it takes 0..maxSteps steps at each of its two points (bounded-exhaustive over schedules; sampled
// uniformly when there are more than `limit`).
func c09Interleave(tr *verifh.T, cfg []string, script [][]string, maxSteps int, closing [][]string, stat string, limit int) {
	// one dimension per place where the worker may run
	dims := 0
	for _, o := range script {
		dims++
		if o[len(o)-1] == "@" {
			dims += 2
		}
	}
	build := func(counts []int) [][]string {
		var ops [][]string
		d := 0
		for _, o := range script {
			if o[len(o)-1] == "@" {
				oo := append(append([]string{}, o[:len(o)-1]...), fmt.Sprintf("@%d,%d", counts[d], counts[d+1]))
				d += 2
				ops = append(ops, oo)
			} else {
				ops = append(ops, o)
			}
			for j := 0; j < counts[d]; j++ {
				ops = append(ops, c09Step)
			}
			d++
		}
		return append(ops, closing...)
	}
	counts := make([]int, dims)
	total := 1
	for i := 0; i < dims && total <= 1<<30; i++ {
		total *= maxSteps + 1
	}
	if limit > 0 && total > limit {
		// too many to enumerate: sample schedules uniformly instead of truncating the enumeration
		r := verifh.NewRand(verifh.Seed(), fmt.Sprintf("c09-interleave-%d-%d-%s", dims, maxSteps, strings.Join(script[len(script)-1], "_")))
		for e := 0; e < limit; e++ {
			for i := range counts {
				counts[i] = r.Intn(maxSteps + 1)
			}
			c09Exec(tr, verifh.Case{Cfg: cfg, Ops: build(counts)})
			tr.Count(stat+"_sampled", 1)
		}
		return
	}
	for {
		c09Exec(tr, verifh.Case{Cfg: cfg, Ops: build(counts)})
		tr.Count(stat, 1)
		// next vector
		i := dims - 1
		for i >= 0 {
			counts[i]++
			if counts[i] <= maxSteps {
				break
			}
			counts[i] = 0
			i--
		}
		if i < 0 {
			return
		}
	}
}

type c09Script struct {
	cfg []string
	ops [][]string
}

// client scripts whose interleavings with the flush worker are enumerated
func c09Scripts() []c09Script {
	std := []string{"mcap=4", "dcap=64"}
	return []c09Script{
		{std, [][]string{ // flush, metadata update, memory pressure
			c09Op("create", "k0", "2", "xa1a2"), c09Op("setmd", "k0", "any", "m0", "x01"), c09Op("complete", "k0"),
			c09Op("setmd", "k0", "any", "m0", "x02"), c09Op("setmd", "k0", "any", "m1", "x03"),
		}},
		{std, [][]string{ // delete while the flush is in flight
			c09Op("create", "k0", "2", "xa1a2"), c09Op("complete", "k0"), c09Op("delete", "k0", "any"),
			c09Op("has", "k0", "any"),
		}},
		{std, [][]string{ // delete and re-create while the flush is in flight
			c09Op("create", "k0", "2", "xa1a2"), c09Op("complete", "k0"), c09Op("delete", "k0", "any"),
			c09Op("create", "k0", "1", "xb1"), c09Op("complete", "k0"),
		}},
		{std, [][]string{ // metadata deletion and immovable metadata
			c09Op("create", "k0", "1", "xa1"), c09Op("setmd", "k0", "any", "i0", "x07"), c09Op("setmd", "k0", "any", "m0", "x01"),
			c09Op("complete", "k0"), c09Op("delmd", "k0", "any", "m0"), c09Op("setmd", "k0", "c", "i0", "x08"),
		}},
		{std, [][]string{ // metadata changes on a blob that has been flushed already (metadata-only flushes)
			c09Op("create", "k0", "2", "xa1a2"), c09Op("setmd", "k0", "any", "m0", "x01"), c09Op("complete", "k0"),
			{"drain"}, c09Op("delmd", "k0", "any", "m0"), c09Op("setmd", "k0", "any", "m1", "x04"),
			c09Op("setmd", "k0", "any", "m1", "x05"),
		}},
		{std, [][]string{ // two keys, the second one squeezes the first out of memory
			c09Op("create", "k0", "2", "xa1a2"), c09Op("complete", "k0"), c09Op("create", "k1", "3", "xb1b2b3"),
			c09Op("complete", "k1"), c09Op("open", "k0", "any"),
		}},
		{[]string{"mcap=4", "dcap=64", "buf=1"}, [][]string{ // a handle held across the (chunked) flush and the eviction from memory
			c09Op("create", "k0", "3", "xa1a2a3"), c09Op("complete", "k0"), c09Op("openk", "k0", "any"),
			c09Op("hread", "h0", "1"), c09Op("create", "k9", "4", "x"), c09Op("hread", "h0", "1"), c09Op("hsize", "h0"),
		}},
		{std, [][]string{ // partial sequential read, flush + eviction, then a POSITIONAL call (Size) is the first one to switch over
			c09Op("create", "k0", "3", "xa1a2a3"), c09Op("complete", "k0"), c09Op("openk", "k0", "any"), c09Op("hread", "h0", "1"),
			{"drain"}, c09Op("create", "k9", "4", "x"), c09Op("hsize", "h0"), c09Op("hread", "h0", "1"), c09Op("hread", "h0", "8"),
		}},
		{[]string{"mcap=4", "dcap=64", "buf=2"}, [][]string{ // … ReadAt first, two handles at different cursors
			c09Op("create", "k0", "3", "xa1a2a3"), c09Op("complete", "k0"), c09Op("openk", "k0", "c"), c09Op("openk", "k0", "any"),
			c09Op("hread", "h0", "2"), c09Op("hread", "h1", "1"), {"drain"}, c09Op("create", "k9", "4", "x"),
			c09Op("hreadat", "h0", "2", "0"), c09Op("hread", "h0", "2"), c09Op("hread", "h1", "2"), c09Op("hsize", "h1"),
		}},
		{std, [][]string{ // metadata updates taken apart: the worker runs between ban, set and mark-dirty
			c09Op("create", "k0", "1", "xa1"), c09Op("complete", "k0"), c09Op("setmd", "k0", "any", "m0", "x01", "@"),
			c09Op("setmd", "k0", "any", "m0", "x02", "@"), c09Op("create", "k9", "4", "x"),
		}},
		{std, [][]string{ // completion and deletion taken apart
			c09Op("create", "k0", "1", "xa1"), c09Op("setmd", "k0", "any", "m0", "x01"), c09Op("complete", "k0", "@"),
			c09Op("delmd", "k0", "any", "m0", "@"), c09Op("delete", "k0", "any", "@"), c09Op("has", "k0", "any"),
		}},
		{std, [][]string{ // a suffix that no metadata type is registered for
			c09Op("create", "k0", "1", "xa1"), c09Op("setmd", "k0", "any", "m0", "x01"), c09Op("complete", "k0"),
			c09Op("delmd", "k0", "any", "u0"), c09Op("setmd", "k0", "any", "m0", "x02"), c09Op("getmd", "k0", "any", "u0"),
		}},
		{std, [][]string{ // an empty blob: flushed like any other; the blob completed after it squeezes it out of memory
			c09Op("create", "k0", "0", "x"), c09Op("setmd", "k0", "any", "m0", "x01"), c09Op("complete", "k0"),
			c09Op("create", "k1", "2", "xb1b2"), c09Op("complete", "k1"), c09Op("setmd", "k0", "any", "m1", "x02"),
		}},
		{std, [][]string{ // a metadata-only flush whose write to the disk store fails: the flusher drops the blob from disk
			c09Op("create", "k0", "1", "xa1"), c09Op("setmd", "k0", "any", "m0", "x01"), c09Op("complete", "k0"), {"drain"},
			c09Op("mdfault", "k0", "m0"), c09Op("setmd", "k0", "any", "m0", "x02"), c09Op("setmd", "k0", "any", "m1", "x03"),
			c09Op("getmd", "k0", "any", "m0"),
		}},
		{[]string{"mcap=4", "dcap=3"}, [][]string{ // the flush of k1 evicts the flushed k0 from disk while k0 has dirty metadata in memory
			c09Op("create", "k0", "2", "xa1a2"), c09Op("complete", "k0"), {"drain"}, c09Op("setmd", "k0", "any", "m0", "x01"),
			c09Op("create", "k1", "2", "xb1b2"), c09Op("complete", "k1"), c09Op("setmd", "k0", "any", "m1", "x02"),
		}},
		{[]string{"mcap=4", "dcap=2"}, [][]string{ // the disk store refuses the flush: handleFlushFailure
			c09Op("create", "k0", "3", "xa1a2a3"), c09Op("setmd", "k0", "any", "m0", "x01"), c09Op("complete", "k0"),
			c09Op("setmd", "k0", "any", "m1", "x02"), c09Op("open", "k0", "any"), c09Op("delete", "k0", "any"),
		}},
	}
}

// TestVerif_C09_Race is the same run at the quick scale; the orchestrator builds it with -race in
// the thorough tier (the full thorough enumeration is too slow under the race detector).
func TestVerif_C09_Race(t *testing.T) {
	os.Setenv("VERIF_TIER", "quick")
	TestVerif_C09(t)
}

func TestVerif_C09(t *testing.T) {
	tr := verifh.Open("ts")
	defer tr.Close()
	cases, replayOnly := verifh.InputCases("ts")
	for _, c := range cases {
		if len(c.Ops) > 0 && len(c.Ops[0]) > 1 && c.Ops[0][0] == "one" {
			continue // a record of the uncontrolled run (TestVerif_C09_Free replays those)
		}
		c09Exec(tr, c)
		tr.Count("corpus_or_replay_cases", 1)
	}
	if replayOnly {
		return
	}
	closing := c09Closing(4, []string{"k0", "k1"})
	// (a) bounded-exhaustive over schedules: every way of giving the worker 0..N steps after each
	// client operation of a script (and inside the operations that are taken apart)
	for _, sc := range c09Scripts() {
		c09Interleave(tr, sc.cfg, sc.ops, verifh.Scale(4, 9), closing, "interleaving_cases", verifh.Scale(600, 20000))
	}
	// (b) random schedules
	r := verifh.NewRand(verifh.Seed(), "c09")
	for i := 0; i < verifh.Scale(2000, 100000); i++ {
		c := c09Random(r, tr)
		if i < 2 {
			tr.Sample(fmt.Sprint(c.Cfg, c.Ops))
		}
		c09Exec(tr, c)
		tr.Count("random_cases", 1)
	}
}

// ---- the uncontrolled run: the default number of flush workers, nothing parked, real goroutines

// TestVerif_C09_Free runs client goroutines against a tiered store with its default flush workers and
// no scheduling control: every key is used once (so every schedule is in the class of the partial
// theorem), memory is small (blobs are evicted as soon as they are flushed), the disk is large (nothing
// is evicted from it). Per operation: a completed blob opens with its bytes, the last acknowledged
// metadata update is read back, a deleted key is gone; at the end everything is read back once more.
// Under -race (thorough tier) the lock discipline of the flusher is checked as well.
func TestVerif_C09_Free(t *testing.T) {
	tr := verifh.Open("ts")
	defer tr.Close()
	c09InstallSeams()
	c09CtlMu.Lock()
	c09Cur = nil
	c09CtlMu.Unlock()
	cases, replayOnly := verifh.InputCases("ts")
	type params struct{ seed, writers, iters, mcap, reps int }
	var runs []params
	for _, c := range cases {
		if len(c.Ops) == 0 || len(c.Ops[0]) < 2 || c.Ops[0][0] != "one" || c.Ops[0][1] != "free" {
			continue
		}
		p := params{writers: 4, iters: 40, mcap: 16, reps: 1}
		for _, tok := range c.Ops[0][2:] {
			if v, ok := strings.CutPrefix(tok, "rs="); ok {
				p.seed, _ = strconv.Atoi(v)
			}
			if v, ok := strings.CutPrefix(tok, "writers="); ok {
				p.writers, _ = strconv.Atoi(v)
			}
			if v, ok := strings.CutPrefix(tok, "iters="); ok {
				p.iters, _ = strconv.Atoi(v)
			}
			if v, ok := strings.CutPrefix(tok, "mcap="); ok {
				p.mcap, _ = strconv.Atoi(v)
			}
		}
		if p.writers < 1 || p.writers > 64 || p.iters < 1 || p.iters > 100000 || p.mcap < 1 {
			continue
		}
		p.reps = 20 // a replayed run is repeated: the schedule is not under control
		runs = append(runs, p)
	}
	if !replayOnly {
		r := verifh.NewRand(verifh.Seed(), "c09-free")
		for i := 0; i < verifh.Scale(6, 60); i++ {
			runs = append(runs, params{seed: r.Intn(1 << 30), writers: 2 + r.Intn(5), iters: verifh.Scale(60, 300), mcap: 8 + r.Intn(24), reps: 1})
		}
	}
	for _, p := range runs {
		for rep := 0; rep < p.reps; rep++ {
			fails := c09FreeRun(p.seed+rep, p.writers, p.iters, p.mcap)
			toks := []string{"free", fmt.Sprintf("rs=%d", p.seed), fmt.Sprintf("writers=%d", p.writers),
				fmt.Sprintf("iters=%d", p.iters), fmt.Sprintf("mcap=%d", p.mcap)}
			if len(fails) > 0 {
				for _, f := range fails {
					tr.PropFail(f[0], append(f[1:], verifh.Str(strings.Join(toks, " ")))...)
				}
				tr.One(toks, "failed")
				tr.Count("free_failed_runs", 1)
				break
			}
			tr.One(toks, "ok")
			tr.Count("free_runs", 1)
		}
	}
}

// c09FreeRun: one uncontrolled run; returns the predicate failures (key, details…).
func c09FreeRun(seed, writers, iters, mcap int) [][]string {
	dir, err := os.MkdirTemp(c09TmpBase, "verif-c09f-")
	if err != nil {
		panic(err)
	}
	defer os.RemoveAll(dir)
	s, _, err := NewStore(&Config{
		DiskConfig: &disk.Config{RootDir: dir, CapacityBytes: 1 << 30},
		MemConfig:  &memory.Config{CapacityBytes: uint64(mcap), GOMEMLIMITBytes: math.MaxInt64},
	}, tally.NoopScope)
	if err != nil {
		panic(err)
	}
	defer close(s.impl.flusher.stop)
	var mu sync.Mutex
	var fails [][]string
	fail := func(key string, detail ...string) {
		mu.Lock()
		defer mu.Unlock()
		if len(fails) < 8 {
			fails = append(fails, append([]string{key}, detail...))
		}
	}
	type rec struct {
		key     string
		data    []byte
		md      map[string][]byte // last acknowledged value per suffix (nil: deleted)
		deleted bool
	}
	var all []*rec
	var allMu sync.Mutex
	var stop atomic.Bool
	check := func(w int, r *rec, when string) {
		f, err := s.Open(r.key)
		if err != nil {
			fail("free-lost-blob", fmt.Sprintf("w=%d", w), r.key, when, verifh.Str(err.Error()))
			return
		}
		b, rerr := io.ReadAll(f)
		f.Close()
		if rerr != nil || !bytes.Equal(b, r.data) {
			fail("free-corrupt-blob", fmt.Sprintf("w=%d", w), r.key, when, "want="+verifh.Hex(r.data), "got="+verifh.Hex(b), fmt.Sprint(rerr))
		}
		for sfx, want := range r.md {
			md := &c09Md{suffix: sfx, movable: true}
			ok, err := s.GetMetadata(r.key, md)
			switch {
			case err != nil:
				fail("free-lost-metadata-update", fmt.Sprintf("w=%d", w), r.key, when, sfx, verifh.Str(err.Error()))
			case want == nil && ok:
				fail("free-lost-metadata-update", fmt.Sprintf("w=%d", w), r.key, when, sfx, "deleted,got="+verifh.Hex(md.val))
			case want != nil && (!ok || !bytes.Equal(md.val, want)):
				fail("free-lost-metadata-update", fmt.Sprintf("w=%d", w), r.key, when, sfx, "want="+verifh.Hex(want), fmt.Sprintf("ok=%v", ok), "got="+verifh.Hex(md.val))
			}
		}
	}
	var wg sync.WaitGroup
	for w := 0; w < writers; w++ {
		wg.Add(1)
		go func(w int) {
			defer wg.Done()
			defer func() {
				if p := recover(); p != nil {
					fail("free-panic", fmt.Sprintf("w=%d", w), verifh.Str(fmt.Sprint(p)))
				}
			}()
			r := verifh.NewRand(uint64(seed), fmt.Sprintf("free-%d", w))
			var mine []*rec
			for it := 0; it < iters && !stop.Load(); it++ {
				rc := &rec{key: fmt.Sprintf("%02x%06x", w, it), data: r.Bytes(r.Intn(4)), md: map[string][]byte{}} // also empty blobs
				size := uint64(len(rc.data))
				if r.Chance(1, 16) {
					size = uint64(mcap + 1) // straight to disk
				}
				f, err := s.Create(rc.key, size)
				if err != nil {
					fail("free-create", rc.key, verifh.Str(err.Error()))
					continue
				}
				if _, err := f.Write(rc.data); err != nil {
					fail("free-create", rc.key, "write", verifh.Str(err.Error()))
				}
				f.Close()
				if r.Chance(1, 2) {
					v := r.Bytes(1)
					if err := s.SetMetadata(rc.key, &c09Md{suffix: "_vm0", movable: true, val: v}); err != nil {
						fail("free-setmd", rc.key, verifh.Str(err.Error()))
					} else {
						rc.md["_vm0"] = v
					}
				}
				if err := s.MarkComplete(rc.key); err != nil {
					fail("free-complete", rc.key, verifh.Str(err.Error()))
					continue
				}
				mine = append(mine, rc)
				allMu.Lock()
				all = append(all, rc)
				allMu.Unlock()
				// a few operations on this and on earlier blobs of this writer, racing the flush workers
				for j := r.Intn(5); j > 0; j-- {
					x := mine[len(mine)-1-r.Intn(min(len(mine), 4))]
					if x.deleted {
						continue
					}
					switch r.Intn(8) {
					case 0, 1, 2:
						sfx := []string{"_vm0", "_vm1"}[r.Intn(2)]
						v := r.Bytes(1)
						if err := s.SetMetadata(x.key, &c09Md{suffix: sfx, movable: true, val: v}); err != nil {
							fail("free-setmd", x.key, verifh.Str(err.Error()))
						} else {
							x.md[sfx] = v
						}
					case 3:
						sfx := []string{"_vm0", "_vm1", "_vu0"}[r.Intn(3)]
						if err := s.DeleteMetadata(x.key, sfx); err != nil {
							fail("free-delmd", x.key, verifh.Str(err.Error()))
						} else if sfx != "_vu0" {
							x.md[sfx] = nil
						}
					case 4, 5, 6:
						check(w, x, "during")
					case 7:
						if err := s.Delete(x.key); err != nil {
							fail("free-delete", x.key, verifh.Str(err.Error()))
						} else {
							x.deleted = true
							if in, _ := s.Has(x.key); in {
								fail("free-deleted-key-resurfaced", x.key)
							}
						}
					}
				}
			}
		}(w)
	}
	wg.Wait()
	stop.Store(true)
	// wait for the flusher to finish, then squeeze memory and read everything back
	f := s.impl.flusher
	for i := 0; i < 500; i++ {
		f.mu.Lock()
		n := len(f.blobs)
		f.mu.Unlock()
		if n == 0 {
			break
		}
		time.Sleep(10 * time.Millisecond)
	}
	if fl, err := s.Create("ffffffff", uint64(mcap)); err == nil {
		fl.Close()
		s.Delete("ffffffff")
	}
	for _, r := range all {
		if r.deleted {
			if in, _ := s.Has(r.key); in {
				fail("free-deleted-key-resurfaced", r.key, "at-end")
			}
			continue
		}
		check(-1, r, "at-end")
	}
	return fails
}
