//go:build verif

package tiered

import (
	"errors"
	"fmt"
	"io"
	"math"
	"os"
	"regexp"
	"runtime"
	"sort"
	"strconv"
	"strings"
	"sync"
	"testing"
	"time"

	"github.com/uber-go/tally"
	storelib "github.com/uber/kraken/lib/store"
	"github.com/uber/kraken/lib/store/disk"
	"github.com/uber/kraken/lib/store/memory"
	"github.com/uber/kraken/lib/store/metadata"
	"github.com/uber/kraken/utils/verifh"
)

// C09 harness: tiered.Store with ONE flush worker under a step controller. The worker is parked at
// every scheduling point (the memOpen / ioCopy seams, the metadata factory called by flushMetadata,
// and the `verif` hook points idle / created / unban); client operations run while it is parked and
// a `step` record releases it to its next scheduling point. Interpreter of op records.

// ---- metadata types of the harness: m<j> movable, i<j> immovable

type c09Md struct {
	suffix  string
	movable bool
	val     []byte
}

func (m *c09Md) GetSuffix() string          { return m.suffix }
func (m *c09Md) Movable() bool              { return m.movable }
func (m *c09Md) Serialize() ([]byte, error) { return m.val, nil }
func (m *c09Md) Deserialize(b []byte) error { m.val = append([]byte{}, b...); return nil }

type c09MdFactory struct{ movable bool }

// Create is also the scheduling point "md": flushMetadata calls metadata.CreateFromSuffix first.
func (f c09MdFactory) Create(suffix string) metadata.Metadata {
	if c09InFlushMetadata() {
		c09Pause("md", c09LastKey(), c09SfxTok(suffix))
	}
	return &c09Md{suffix: suffix, movable: f.movable}
}

func c09InFlushMetadata() bool {
	var pcs [24]uintptr
	n := runtime.Callers(2, pcs[:])
	frames := runtime.CallersFrames(pcs[:n])
	for {
		fr, more := frames.Next()
		if strings.HasSuffix(fr.Function, "(*flusher).flushMetadata") {
			return true
		}
		if !more {
			return false
		}
	}
}

func init() {
	metadata.Register(regexp.MustCompile(`^_vm[0-9]+$`), c09MdFactory{true})
	metadata.Register(regexp.MustCompile(`^_vi[0-9]+$`), c09MdFactory{false})
}

func c09MdOf(tok string) (*c09Md, bool) {
	if len(tok) < 2 {
		return nil, false
	}
	if _, err := strconv.Atoi(tok[1:]); err != nil {
		return nil, false
	}
	switch tok[0] {
	case 'm':
		return &c09Md{suffix: "_vm" + tok[1:], movable: true}, true
	case 'i':
		return &c09Md{suffix: "_vi" + tok[1:], movable: false}, true
	}
	return nil, false
}

func c09SfxTok(suffix string) string {
	switch {
	case strings.HasPrefix(suffix, "_vm"):
		return "m" + suffix[3:]
	case strings.HasPrefix(suffix, "_vi"):
		return "i" + suffix[3:]
	}
	return "?" + verifh.Str(suffix)
}

func c09SfxID(t string) int {
	n, _ := strconv.Atoi(t[1:])
	if t[0] == 'i' {
		return 2*n + 1
	}
	return 2 * n
}

// ---- keys

func c09KeyName(tok string) (string, bool) {
	if len(tok) < 2 || tok[0] != 'k' {
		return "", false
	}
	i, err := strconv.Atoi(tok[1:])
	if err != nil || i < 0 || i > 9999 {
		return "", false
	}
	return fmt.Sprintf("%04x%04x", i, i), true
}

func c09KeyTok(name string) string {
	var a, b int
	if _, err := fmt.Sscanf(name, "%04x%04x", &a, &b); err == nil && a == b && len(name) == 8 {
		return fmt.Sprintf("k%d", a)
	}
	if name == "" {
		return "-"
	}
	return "k?" + verifh.Str(name)
}

func c09Keys(names []string) string {
	var idx []int
	for _, n := range names {
		t := c09KeyTok(n)
		if i, err := strconv.Atoi(t[1:]); err == nil {
			idx = append(idx, i)
		}
	}
	sort.Ints(idx)
	var toks []string
	for _, i := range idx {
		toks = append(toks, fmt.Sprintf("k%d", i))
	}
	return verifh.List(toks)
}

func c09Err(err error) string {
	switch {
	case err == nil:
		return "ok"
	case errors.Is(err, os.ErrNotExist):
		return "notexist"
	case errors.Is(err, os.ErrExist):
		return "exist"
	case errors.Is(err, storelib.ErrOutOfScope):
		return "oos"
	case errors.Is(err, memory.ErrNoSpace) || strings.Contains(err.Error(), "cannot free enough space"):
		return "nospace"
	}
	return "other:" + verifh.Str(err.Error())
}

// ---- step controller (one worker)

type c09Park struct {
	point, key, extra string
}

type c09Ctl struct {
	mu      sync.Mutex
	at      chan c09Park  // worker -> harness: parked
	resume  chan struct{} // harness -> worker
	cur     *c09Park      // where the worker is parked (nil: running)
	free    bool          // shutting down: scheduling points no longer park
	lastKey string        // key of the flush in progress (the ioCopy seam and the factory get none)
	reads   int           // Read calls of the current copy
}

var (
	c09CtlMu sync.Mutex
	c09Cur   *c09Ctl
)

func c09Active() *c09Ctl {
	c09CtlMu.Lock()
	defer c09CtlMu.Unlock()
	return c09Cur
}

func c09LastKey() string {
	if c := c09Active(); c != nil {
		c.mu.Lock()
		defer c.mu.Unlock()
		return c.lastKey
	}
	return ""
}

// c09Pause is called on the worker goroutine at a scheduling point.
func c09Pause(point, key string, extra ...string) {
	c := c09Active()
	if c == nil {
		return
	}
	c.mu.Lock()
	if c.free {
		c.mu.Unlock()
		return
	}
	if key != "" {
		c.lastKey = key
	}
	c.mu.Unlock()
	p := c09Park{point: point, key: key}
	if len(extra) > 0 {
		p.extra = extra[0]
	}
	c.at <- p
	<-c.resume
}

type c09Reader struct{ r io.Reader }

func (r *c09Reader) Read(p []byte) (int, error) {
	c := c09Active()
	name := "copy"
	if c != nil {
		c.mu.Lock()
		c.reads++
		if c.reads == 2 {
			name = "copyeof"
		} else if c.reads > 2 {
			name = fmt.Sprintf("copy%d", c.reads)
		}
		c.mu.Unlock()
	}
	c09Pause(name, c09LastKey())
	return r.r.Read(p)
}

var c09SeamsOnce sync.Once

func c09InstallSeams() {
	c09SeamsOnce.Do(func() {
		memOpen = func(mem *memory.Store, key string) (*memory.File, error) {
			c09Pause("open", key)
			f, err := mem.Open(key)
			if err == nil {
				c09Pause("opened", key)
			}
			return f, err
		}
		ioCopy = func(dst io.Writer, src io.Reader) (int64, error) {
			if c := c09Active(); c != nil {
				c.mu.Lock()
				c.reads = 0
				c.mu.Unlock()
			}
			n, err := io.Copy(dst, &c09Reader{src})
			c09Pause("copied", c09LastKey())
			return n, err
		}
		verifHook = func(point, key string) { c09Pause(point, key) }
	})
}

// wait until the worker is parked (it always reaches a scheduling point)
func (c *c09Ctl) waitParked() bool {
	select {
	case p := <-c.at:
		c.mu.Lock()
		c.cur = &p
		c.mu.Unlock()
		return true
	case <-time.After(5 * time.Second):
		return false
	}
}

// ---- executor

type c09Case struct {
	s        *Store
	ctl      *c09Ctl
	t        *verifh.T
	universe []string // key tokens probed
}

func c09Cfg(cfg []string) (mcap, dcap uint64) {
	mcap, dcap = 4, 64
	for _, t := range cfg {
		if v, ok := strings.CutPrefix(t, "mcap="); ok {
			mcap, _ = strconv.ParseUint(v, 10, 64)
		}
		if v, ok := strings.CutPrefix(t, "dcap="); ok {
			dcap, _ = strconv.ParseUint(v, 10, 64)
		}
	}
	if mcap == 0 {
		mcap = 4
	}
	if dcap == 0 {
		dcap = 64
	}
	return
}

var c09TmpBase = func() string {
	if fi, err := os.Stat("/dev/shm"); err == nil && fi.IsDir() {
		return "/dev/shm"
	}
	return ""
}()

func (c *c09Case) scoped(tok string) (*Store, bool) {
	switch tok {
	case "any":
		return c.s, true
	case "c":
		return c.s.ScopeComplete(), true
	case "i":
		return c.s.ScopeIncomplete(), true
	}
	return nil, false
}

// probe: the state of both tiers through their public APIs and the flusher's bookkeeping
func (c *c09Case) probe() {
	f := c.s.impl.flusher
	f.mu.Lock()
	var fe []string
	var fkeys []string
	for k := range f.blobs {
		fkeys = append(fkeys, k)
	}
	sort.Slice(fkeys, func(i, j int) bool { return c09KeyTok(fkeys[i]) < c09KeyTok(fkeys[j]) })
	for _, k := range fkeys {
		b := f.blobs[k]
		b.mu.Lock()
		var sf []string
		for s := range b.dirtyMD {
			sf = append(sf, c09SfxTok(s))
		}
		b.mu.Unlock()
		sort.Slice(sf, func(i, j int) bool { return c09SfxID(sf[i]) < c09SfxID(sf[j]) })
		d := "-"
		if len(sf) > 0 {
			d = strings.Join(sf, "+")
		}
		kind := "m"
		if b.dataDirty {
			kind = "d"
		}
		fe = append(fe, c09KeyTok(k)+":"+kind+":"+d)
	}
	var q []string
	for _, k := range f.queue {
		q = append(q, c09KeyTok(k))
	}
	f.mu.Unlock()
	c.t.Rec("probe", nil, []string{
		"mem=" + c09Keys(c.s.impl.mem.List()),
		"memc=" + c09Keys(c.s.impl.mem.ScopeComplete().List()),
		"disk=" + c09Keys(c.s.impl.disk.List()),
		"diskc=" + c09Keys(c.s.impl.disk.ScopeComplete().List()),
		"f=" + verifh.List(fe),
		"q=" + verifh.List(q),
	})
}

// step releases the worker to its next scheduling point
func (c *c09Case) step() bool {
	ctl := c.ctl
	ctl.mu.Lock()
	cur := ctl.cur
	ctl.mu.Unlock()
	if cur == nil {
		c.t.PropFail("harness-worker-not-parked")
		return false
	}
	f := c.s.impl.flusher
	if cur.point == "idle" && len(f.notify) == 0 {
		// nothing to wake the worker up: it stays in front of its select
		c.t.Rec("step", nil, []string{"idle", "-"})
		return true
	}
	ctl.mu.Lock()
	ctl.cur = nil
	ctl.mu.Unlock()
	ctl.resume <- struct{}{}
	if !ctl.waitParked() {
		c.t.PropFail("harness-worker-stuck", "after="+cur.point)
		return false
	}
	ctl.mu.Lock()
	p := *ctl.cur
	ctl.mu.Unlock()
	obs := []string{p.point, c09KeyTok(p.key)}
	if p.point == "idle" || p.point == "md" {
		obs[1] = "-" // the factory is not told the key
	}
	if p.extra != "" {
		obs = append(obs, p.extra)
	}
	c.t.Rec("step", nil, obs)
	return true
}

func (c *c09Case) idleAndEmpty() bool {
	c.ctl.mu.Lock()
	cur := c.ctl.cur
	c.ctl.mu.Unlock()
	f := c.s.impl.flusher
	f.mu.Lock()
	defer f.mu.Unlock()
	return cur != nil && cur.point == "idle" && len(f.notify) == 0
}

func (c *c09Case) do(op []string) bool {
	if len(op) < 1 {
		return false
	}
	if op[0] == "step" {
		ok := c.step()
		return ok
	}
	if op[0] != "op" || len(op) < 2 {
		return false
	}
	a := op[1:]
	s := c.s
	t := c.t
	switch {
	case a[0] == "create" && len(a) == 4:
		key, ok1 := c09KeyName(a[1])
		size, err := strconv.ParseUint(a[2], 10, 64)
		data, err2 := verifh.Unhex(a[3])
		if !ok1 || err != nil || err2 != nil || size > 1<<20 {
			return false
		}
		f, err := s.Create(key, size)
		if err == nil {
			if len(data) > 0 {
				if _, werr := f.Write(data); werr != nil {
					t.Op(a, "other:write:"+verifh.Str(werr.Error()))
					return true
				}
			}
			f.Close()
		}
		t.Op(a, c09Err(err))
	case a[0] == "open" && len(a) == 3:
		key, ok1 := c09KeyName(a[1])
		sc, ok2 := c.scoped(a[2])
		if !ok1 || !ok2 {
			return false
		}
		f, err := sc.Open(key)
		if err != nil {
			t.Op(a, c09Err(err))
			return true
		}
		b, rerr := io.ReadAll(f)
		f.Close()
		if rerr != nil {
			t.Op(a, "other:read:"+verifh.Str(rerr.Error()))
			return true
		}
		t.Op(a, "ok", verifh.Hex(b))
	case a[0] == "has" && len(a) == 3:
		key, ok1 := c09KeyName(a[1])
		sc, ok2 := c.scoped(a[2])
		if !ok1 || !ok2 {
			return false
		}
		in, scoped := sc.Has(key)
		t.Op(a, verifh.Bool(in), verifh.Bool(scoped))
	case a[0] == "list" && len(a) == 2:
		sc, ok2 := c.scoped(a[1])
		if !ok2 {
			return false
		}
		t.Op(a, c09Keys(sc.List()))
	case a[0] == "stat" && len(a) == 3:
		key, ok1 := c09KeyName(a[1])
		sc, ok2 := c.scoped(a[2])
		if !ok1 || !ok2 {
			return false
		}
		n, err := sc.Stat(key)
		if err != nil {
			t.Op(a, c09Err(err))
			return true
		}
		t.Op(a, "ok", fmt.Sprint(n))
	case a[0] == "complete" && len(a) == 2:
		key, ok1 := c09KeyName(a[1])
		if !ok1 {
			return false
		}
		t.Op(a, c09Err(s.MarkComplete(key)))
	case a[0] == "delete" && len(a) == 3:
		key, ok1 := c09KeyName(a[1])
		sc, ok2 := c.scoped(a[2])
		if !ok1 || !ok2 {
			return false
		}
		t.Op(a, c09Err(sc.Delete(key)))
	case a[0] == "setmd" && len(a) == 5:
		key, ok1 := c09KeyName(a[1])
		sc, ok2 := c.scoped(a[2])
		md, ok3 := c09MdOf(a[3])
		val, err := verifh.Unhex(a[4])
		if !ok1 || !ok2 || !ok3 || err != nil {
			return false
		}
		md.val = val
		t.Op(a, c09Err(sc.SetMetadata(key, md)))
	case a[0] == "getmd" && len(a) == 4:
		key, ok1 := c09KeyName(a[1])
		sc, ok2 := c.scoped(a[2])
		md, ok3 := c09MdOf(a[3])
		if !ok1 || !ok2 || !ok3 {
			return false
		}
		ok, err := sc.GetMetadata(key, md)
		switch {
		case err != nil:
			t.Op(a, c09Err(err))
		case !ok:
			t.Op(a, "absent")
		default:
			t.Op(a, "ok", verifh.Hex(md.val))
		}
	case a[0] == "delmd" && len(a) == 4:
		key, ok1 := c09KeyName(a[1])
		sc, ok2 := c.scoped(a[2])
		md, ok3 := c09MdOf(a[3])
		if !ok1 || !ok2 || !ok3 {
			return false
		}
		t.Op(a, c09Err(sc.DeleteMetadata(key, md.suffix)))
	default:
		return false
	}
	return true
}

// c09Exec runs one case: a fresh tiered store with one parked worker.
func c09Exec(t *verifh.T, cs verifh.Case) {
	c09InstallSeams()
	mcap, dcap := c09Cfg(cs.Cfg)
	dir, err := os.MkdirTemp(c09TmpBase, "verif-c09-")
	if err != nil {
		panic(err)
	}
	defer os.RemoveAll(dir)
	ctl := &c09Ctl{at: make(chan c09Park), resume: make(chan struct{})}
	c09CtlMu.Lock()
	c09Cur = ctl
	c09CtlMu.Unlock()
	s, _, err := NewStore(&Config{
		NumFlushWorkers: 1,
		DiskConfig:      &disk.Config{RootDir: dir, CapacityBytes: dcap},
		MemConfig:       &memory.Config{CapacityBytes: mcap, GOMEMLIMITBytes: math.MaxInt64},
	}, tally.NoopScope)
	if err != nil {
		panic(err)
	}
	c := &c09Case{s: s, ctl: ctl, t: t}
	t.Cfg(fmt.Sprintf("mcap=%d", mcap), fmt.Sprintf("dcap=%d", dcap))
	if !ctl.waitParked() {
		t.PropFail("harness-worker-stuck", "at=start")
		t.End()
		return
	}
	broken := false
	for _, op := range cs.Ops {
		if len(op) >= 1 && op[0] == "probe" {
			continue
		}
		if len(op) == 1 && op[0] == "drain" {
			// let the worker run until it is back in front of its select with nothing to do
			for i := 0; !broken && i < 200 && !c.idleAndEmpty(); i++ {
				if !c.step() {
					broken = true
					break
				}
				c.probe()
			}
			if broken {
				break
			}
			continue
		}
		done := false
		if p := verifh.Protect(func() { done = c.do(op) }); p != "" {
			t.PropFail("panic", verifh.Str(strings.Join(op, " ")), verifh.Str(p))
			broken = true
			break
		}
		if done {
			c.probe()
		} else {
			t.Count("skipped_malformed_op", 1)
		}
	}
	// drain: run the worker until it is back in front of its select with nothing to do, so that it
	// can be shut down without touching the next case
	for i := 0; !broken && i < 200 && !c.idleAndEmpty(); i++ {
		if !c.step() {
			broken = true
			break
		}
		c.probe()
	}
	t.End()
	// shut the worker down
	ctl.mu.Lock()
	ctl.free = true
	parked := ctl.cur != nil
	ctl.cur = nil
	ctl.mu.Unlock()
	select {
	case <-s.impl.flusher.notify:
	default:
	}
	close(s.impl.flusher.stop)
	if parked {
		ctl.resume <- struct{}{}
	}
	if broken {
		// a worker that is not parked at a known point may still come by: give it a moment
		time.Sleep(50 * time.Millisecond)
	}
}

func c09Op(toks ...string) []string { return append([]string{"op"}, toks...) }

var c09Step = []string{"step"}

// the closing sequence of a generated case: let the worker finish, squeeze memory, look at everything
func c09Closing(mcap int, keys []string) [][]string {
	ops := [][]string{{"drain"}}
	ops = append(ops, c09Op("create", "k9", fmt.Sprint(mcap), "x"), c09Op("delete", "k9", "any"), []string{"drain"})
	for _, k := range keys {
		ops = append(ops, c09Op("has", k, "any"), c09Op("open", k, "any"), c09Op("open", k, "c"),
			c09Op("getmd", k, "any", "m0"), c09Op("getmd", k, "any", "m1"), c09Op("getmd", k, "any", "i0"))
	}
	ops = append(ops, c09Op("list", "any"), c09Op("list", "c"), c09Op("list", "i"))
	return ops
}

var c09Scopes = []string{"any", "any", "any", "any", "c", "i"}

// c09Random: a random schedule of client operations and worker steps over two keys (+ a filler key
// used for memory pressure).
func c09Random(r *verifh.Rand, tr *verifh.T) verifh.Case {
	mcap := 3 + r.Intn(3)
	cfg := []string{fmt.Sprintf("mcap=%d", mcap), "dcap=64"}
	keys := []string{"k0", "k1"}
	sfx := []string{"m0", "m0", "m1", "i0"}
	n := 4 + r.Intn(36)
	stepBias := 2 + r.Intn(5) // out of 10
	var ops [][]string
	for j := 0; j < n; j++ {
		if r.Intn(10) < stepBias {
			ops = append(ops, c09Step)
			tr.Count("random_step", 1)
			continue
		}
		if r.Chance(1, 12) {
			// let the flush finish: most metadata races start from a flushed blob
			ops = append(ops, []string{"drain"})
			tr.Count("random_drain", 1)
			continue
		}
		k := keys[r.Intn(len(keys))]
		sc := c09Scopes[r.Intn(len(c09Scopes))]
		var o []string
		switch w := r.Intn(100); {
		case w < 20:
			size := 1 + r.Intn(2)
			if r.Chance(1, 8) {
				size = mcap + 1 // does not fit in memory: falls back to disk
			}
			o = c09Op("create", k, fmt.Sprint(size), verifh.Hex(r.Bytes(1+r.Intn(2))))
		case w < 38:
			o = c09Op("complete", k)
		case w < 50:
			o = c09Op("delete", k, sc)
		case w < 62:
			o = c09Op("setmd", k, sc, sfx[r.Intn(len(sfx))], verifh.Hex(r.Bytes(1)))
		case w < 67:
			o = c09Op("delmd", k, sc, sfx[r.Intn(len(sfx))])
		case w < 74:
			o = c09Op("getmd", k, sc, sfx[r.Intn(len(sfx))])
		case w < 82:
			o = c09Op("open", k, sc)
		case w < 86:
			o = c09Op("has", k, sc)
		case w < 89:
			o = c09Op("stat", k, sc)
		case w < 92:
			o = c09Op("list", sc)
		case w < 97:
			// memory pressure: a filler that needs everything evictable to go
			o = c09Op("create", "k9", fmt.Sprint(mcap-r.Intn(2)), "x")
		default:
			o = c09Op("delete", "k9", "any")
		}
		ops = append(ops, o)
		tr.Count("random_op_"+o[1], 1)
	}
	ops = append(ops, c09Closing(mcap, keys)...)
	return verifh.Case{Cfg: cfg, Ops: ops}
}

// c09Interleave enumerates every interleaving of a client script with the worker's steps: after each
// client operation the worker takes 0..maxSteps steps (bounded-exhaustive over schedules).
func c09Interleave(tr *verifh.T, cfg []string, script [][]string, maxSteps int, closing [][]string, stat string, limit int) {
	n := len(script)
	counts := make([]int, n)
	emitted := 0
	total := 1
	for i := 0; i < n && total <= 1<<30; i++ {
		total *= maxSteps + 1
	}
	if limit > 0 && total > limit {
		// too many to enumerate: sample schedules uniformly instead of truncating the enumeration
		r := verifh.NewRand(verifh.Seed(), fmt.Sprintf("c09-interleave-%d-%d", n, maxSteps))
		for e := 0; e < limit; e++ {
			var ops [][]string
			for _, o := range script {
				ops = append(ops, o)
				for j := r.Intn(maxSteps + 1); j > 0; j-- {
					ops = append(ops, c09Step)
				}
			}
			ops = append(ops, closing...)
			c09Exec(tr, verifh.Case{Cfg: cfg, Ops: ops})
			tr.Count(stat+"_sampled", 1)
		}
		return
	}
	for {
		var ops [][]string
		for i, o := range script {
			ops = append(ops, o)
			for j := 0; j < counts[i]; j++ {
				ops = append(ops, c09Step)
			}
		}
		ops = append(ops, closing...)
		c09Exec(tr, verifh.Case{Cfg: cfg, Ops: ops})
		tr.Count(stat, 1)
		emitted++
		if limit > 0 && emitted >= limit {
			return
		}
		// next vector
		i := n - 1
		for i >= 0 {
			counts[i]++
			if counts[i] <= maxSteps {
				break
			}
			counts[i] = 0
			i--
		}
		if i < 0 {
			return
		}
	}
}

// client scripts whose interleavings with the flush worker are enumerated
func c09Scripts() [][][]string {
	return [][][]string{
		{ // flush, metadata update, memory pressure
			c09Op("create", "k0", "2", "xa1a2"), c09Op("setmd", "k0", "any", "m0", "x01"), c09Op("complete", "k0"),
			c09Op("setmd", "k0", "any", "m0", "x02"), c09Op("setmd", "k0", "any", "m1", "x03"),
		},
		{ // delete while the flush is in flight
			c09Op("create", "k0", "2", "xa1a2"), c09Op("complete", "k0"), c09Op("delete", "k0", "any"),
			c09Op("has", "k0", "any"),
		},
		{ // delete and re-create while the flush is in flight
			c09Op("create", "k0", "2", "xa1a2"), c09Op("complete", "k0"), c09Op("delete", "k0", "any"),
			c09Op("create", "k0", "1", "xb1"), c09Op("complete", "k0"),
		},
		{ // metadata deletion and immovable metadata
			c09Op("create", "k0", "1", "xa1"), c09Op("setmd", "k0", "any", "i0", "x07"), c09Op("setmd", "k0", "any", "m0", "x01"),
			c09Op("complete", "k0"), c09Op("delmd", "k0", "any", "m0"), c09Op("setmd", "k0", "c", "i0", "x08"),
		},
		{ // metadata changes on a blob that has been flushed already (metadata-only flushes)
			c09Op("create", "k0", "2", "xa1a2"), c09Op("setmd", "k0", "any", "m0", "x01"), c09Op("complete", "k0"),
			{"drain"}, c09Op("delmd", "k0", "any", "m0"), c09Op("setmd", "k0", "any", "m1", "x04"),
			c09Op("setmd", "k0", "any", "m1", "x05"),
		},
		{ // two keys, the second one squeezes the first out of memory
			c09Op("create", "k0", "2", "xa1a2"), c09Op("complete", "k0"), c09Op("create", "k1", "3", "xb1b2b3"),
			c09Op("complete", "k1"), c09Op("open", "k0", "any"),
		},
	}
}

// TestVerif_C09_Race is the same run at the quick scale; the orchestrator builds it with -race in
// the thorough tier (the full thorough enumeration is too slow under the race detector).
func TestVerif_C09_Race(t *testing.T) {
	os.Setenv("VERIF_TIER", "quick")
	TestVerif_C09(t)
}

func TestVerif_C09(t *testing.T) {
	tr := verifh.Open("ts")
	defer tr.Close()
	cases, replayOnly := verifh.InputCases("ts")
	for _, c := range cases {
		c09Exec(tr, c)
		tr.Count("corpus_or_replay_cases", 1)
	}
	if replayOnly {
		return
	}
	cfg := []string{"mcap=4", "dcap=64"}
	closing := c09Closing(4, []string{"k0", "k1"})
	// (a) bounded-exhaustive over schedules: every way of giving the worker 0..N steps after each
	// client operation of a script
	for _, sc := range c09Scripts() {
		c09Interleave(tr, cfg, sc, verifh.Scale(3, 7), closing, "interleaving_cases", verifh.Scale(1100, 70000))
	}
	// (b) random schedules
	r := verifh.NewRand(verifh.Seed(), "c09")
	for i := 0; i < verifh.Scale(2000, 120000); i++ {
		c := c09Random(r, tr)
		if i < 2 {
			tr.Sample(fmt.Sprint(c.Cfg, c.Ops))
		}
		c09Exec(tr, c)
		tr.Count("random_cases", 1)
	}
}
