//go:build verif

package scheduler

// C16 (second harness): the uses of connstate.State in scheduler/events.go. The real event handlers
// (announceResultEvent, connClosedEvent, failedOutgoingHandshakeEvent, failedIncomingHandshakeEvent)
// are applied to a real scheduler `state` (unstarted scheduler, discarding event loop, mock clock);
// the peers an announce result dials are read back by probing state.conns before and after.

import (
	"fmt"
	"net"
	"sort"
	"strconv"
	"strings"
	"testing"
	"time"

	"github.com/andres-erbsen/clock"
	"github.com/uber-go/tally"
	"github.com/willf/bitset"
	"go.uber.org/zap"

	"github.com/uber/kraken/core"
	"github.com/uber/kraken/lib/torrent/networkevent"
	"github.com/uber/kraken/lib/torrent/scheduler/announcequeue"
	"github.com/uber/kraken/lib/torrent/scheduler/conn"
	"github.com/uber/kraken/lib/torrent/scheduler/connstate"
	"github.com/uber/kraken/lib/torrent/storage"
	"github.com/uber/kraken/lib/torrent/storage/agentstorage"
	"github.com/uber/kraken/lib/torrent/storage/piecereader"
	"github.com/uber/kraken/tracker/announceclient"
	"github.com/uber/kraken/utils/log"
	"github.com/uber/kraken/utils/verifh"
)

const (
	c16eNumHashes = 2
	c16eNumPeers  = 4 // p0..p3 are generated; p4 is the harness's probe sentinel
	c16eSentinel  = 4
)

type c16eClock struct {
	*clock.Mock
	off time.Duration
}

func (c *c16eClock) Now() time.Time { return c.Mock.Now().Add(c.off) }

// c16eLoop discards every event the real code sends (failed dials of the outgoing handshakes).
type c16eLoop struct{}

func (c16eLoop) send(event) bool                        { return true }
func (c16eLoop) sendTimeout(event, time.Duration) error { return nil }
func (c16eLoop) run(*state)                             {}
func (c16eLoop) stop()                                  {}

type c16eNoopEvents struct{}

func (c16eNoopEvents) ConnClosed(*conn.Conn) {}

type c16eEnv struct {
	blobs    []*core.BlobFixture
	rconns   []*conn.Conn // remote ends, kept open so that started local conns stay up
	torrents []storage.Torrent
	infos    []*storage.TorrentInfo
	cleanups []func()
	peers    []core.PeerID
	pinfos   []*core.PeerInfo
	ta       storage.TorrentArchive
	pctx     core.PeerContext
	ln       net.Listener
	local    *conn.Handshaker
	localID  core.PeerID
	remote   []*conn.Handshaker
	pool     map[[2]int][]*conn.Conn
	scheds   map[string]*c16eSched
}

type c16eSched struct {
	sched *scheduler
	clk   *c16eClock
	ctrls map[core.InfoHash]*torrentControl
}

func c16eHandshaker(id core.PeerID) *conn.Handshaker {
	h, err := conn.NewHandshaker(conn.Config{}, tally.NoopScope, clock.New(), networkevent.NewTestProducer(),
		id, c16eNoopEvents{}, zap.NewNop().Sugar())
	if err != nil {
		panic(err)
	}
	return h
}

func c16eNewEnv() *c16eEnv {
	e := &c16eEnv{pool: map[[2]int][]*conn.Conn{}, scheds: map[string]*c16eSched{}}
	for i := 0; i < c16eNumHashes; i++ {
		blob := core.SizedBlobFixture(16, 4)
		e.blobs = append(e.blobs, blob)
		t, cleanup := agentstorage.TorrentFixture(blob.MetaInfo)
		e.torrents = append(e.torrents, t)
		e.infos = append(e.infos, t.Stat())
		e.cleanups = append(e.cleanups, cleanup)
	}
	ta, cleanup := agentstorage.TorrentArchiveFixture()
	e.ta = ta
	e.cleanups = append(e.cleanups, cleanup)
	for i := 0; i <= c16eSentinel; i++ {
		p, err := core.NewPeerID(strings.Repeat(fmt.Sprintf("%02x", i+1), 20))
		if err != nil {
			panic(err)
		}
		e.peers = append(e.peers, p)
		// Port 1 on loopback: the outgoing handshake's dial is refused at once.
		e.pinfos = append(e.pinfos, core.NewPeerInfo(p, "127.0.0.1", 1, false, false))
		e.remote = append(e.remote, c16eHandshaker(p))
	}
	e.pctx = core.PeerContextFixture()
	e.localID = e.pctx.PeerID
	e.local = c16eHandshaker(e.localID)
	ln, err := net.Listen("tcp", "127.0.0.1:0")
	if err != nil {
		panic(err)
	}
	e.ln = ln
	return e
}

func (e *c16eEnv) close() {
	e.ln.Close()
	for _, c := range e.rconns {
		c.Close()
	}
	for _, c := range e.cleanups {
		c()
	}
}

// sched returns the (unstarted) scheduler for a connstate configuration, with one torrent control
// per torrent that every case's fresh `state` shares.
func (e *c16eEnv) sched(cfg connstate.Config) *c16eSched {
	key := fmt.Sprint(cfg)
	if s, ok := e.scheds[key]; ok {
		return s
	}
	clk := &c16eClock{Mock: clock.NewMock()}
	sc, err := newScheduler(
		Config{ConnState: cfg, Log: log.Config{Disable: true}, TorrentLog: log.Config{Disable: true}},
		e.ta, tally.NoopScope, e.pctx, announceclient.Disabled(), networkevent.NewTestProducer(),
		withEventLoop(c16eLoop{}), withClock(clk))
	if err != nil {
		panic(err)
	}
	s := &c16eSched{sched: sc, clk: clk, ctrls: map[core.InfoHash]*torrentControl{}}
	tmp := newState(sc, announcequeue.New())
	for _, t := range e.torrents {
		ctrl, err := tmp.addTorrent("verif", t, true)
		if err != nil {
			panic(err)
		}
		s.ctrls[t.InfoHash()] = ctrl
	}
	e.scheds[key] = s
	return s
}

// dial makes a fresh local *conn.Conn whose PeerID is peers[p] and InfoHash is infos[h]
// (real handshake over loopback TCP through conn's public API).
func (e *c16eEnv) dial(h, p int) *conn.Conn {
	type res struct {
		r   *conn.HandshakeResult
		err error
	}
	done := make(chan res, 1)
	go func() {
		r, err := e.remote[p].Initialize(e.localID, false, e.ln.Addr().String(), e.infos[h], nil, "ns")
		done <- res{r, err}
	}()
	nc, err := e.ln.Accept()
	if err != nil {
		panic(err)
	}
	pc, err := e.local.Accept(nc)
	if err != nil {
		panic(err)
	}
	c, err := e.local.Establish(pc, e.infos[h], nil)
	if err != nil {
		panic(err)
	}
	r := <-done
	if r.err != nil {
		panic(r.err)
	}
	e.rconns = append(e.rconns, r.r.Conn)
	return c
}

// pending makes a real *conn.PendingConn: peer p opens a connection for torrent h and sends a
// handshake whose remote bitfields name the neighbours nbrs.
func (e *c16eEnv) pending(h, p int, nbrs []int) *conn.PendingConn {
	rb := conn.RemoteBitfields{}
	for _, q := range nbrs {
		rb[e.peers[q]] = bitset.New(uint(e.infos[h].Bitfield().Len()))
	}
	go func() {
		// fails (the handshake is never answered by a scheduler that knows the torrent): ignored
		r, err := e.remote[p].Initialize(e.localID, false, e.ln.Addr().String(), e.infos[h], rb, "verif")
		if err == nil {
			r.Conn.Close()
		}
	}()
	nc, err := e.ln.Accept()
	if err != nil {
		panic(err)
	}
	pc, err := e.local.Accept(nc)
	if err != nil {
		panic(err)
	}
	return pc
}

func (e *c16eEnv) take(h, p int) *conn.Conn {
	k := [2]int{h, p}
	if l := e.pool[k]; len(l) > 0 {
		c := l[len(l)-1]
		e.pool[k] = l[:len(l)-1]
		return c
	}
	return e.dial(h, p)
}

func c16eIdx(tok string, pfx byte, n int) (int, bool) {
	if len(tok) < 2 || tok[0] != pfx {
		return 0, false
	}
	i, err := strconv.Atoi(tok[1:])
	return i, err == nil && i >= 0 && i < n
}

func c16eInt(cfg []string, key string) (int64, bool) {
	for _, t := range cfg {
		if strings.HasPrefix(t, key+"=") {
			v, err := strconv.ParseInt(t[len(key)+1:], 10, 64)
			return v, err == nil
		}
	}
	return 0, false
}

type c16eConn struct {
	c    *conn.Conn
	h, p int
}

func c16eAddRes(err error) string {
	switch err {
	case nil:
		return "ok"
	case connstate.ErrTorrentAtCapacity:
		return "cap"
	case connstate.ErrConnAlreadyPending:
		return "pend"
	case connstate.ErrConnAlreadyActive:
		return "act"
	case connstate.ErrTooManyMutualConns:
		return "mutual"
	}
	return "other"
}

func c16eExec(t *verifh.T, e *c16eEnv, c verifh.Case) {
	max, ok1 := c16eInt(c.Cfg, "max")
	mutual, ok2 := c16eInt(c.Cfg, "mutual")
	disable, ok3 := c16eInt(c.Cfg, "disable")
	dur, ok4 := c16eInt(c.Cfg, "dur")
	if !(ok1 && ok2 && ok3 && ok4) {
		return
	}
	sc := e.sched(connstate.Config{
		MaxOpenConnectionsPerTorrent: int(max),
		MaxMutualConnections:         int(mutual),
		DisableBlacklist:             disable != 0,
		BlacklistDuration:            time.Duration(dur),
	})
	sc.clk.off = 0
	st := newState(sc.sched, announcequeue.New())
	// Cases that complete a torrent or hand conns to the dispatcher get their own torrents and
	// dispatchers (same metainfo, hence same info hashes); the others share the scheduler's.
	freshH := map[int]bool{}
	connHash := map[string]int{}
	for _, op := range c.Ops {
		if len(op) == 5 && op[1] == "newconn" {
			if h, ok := c16eIdx(op[3], 'h', c16eNumHashes); ok {
				if _, dup := connHash[op[2]]; !dup {
					connHash[op[2]] = h
				}
			}
		}
		if len(op) == 3 && op[1] == "complete" {
			if h, ok := c16eIdx(op[2], 'h', c16eNumHashes); ok {
				freshH[h] = true
			}
		}
		if len(op) == 3 && (op[1] == "outgoing" || op[1] == "inconn") {
			if h, ok := connHash[op[2]]; ok {
				freshH[h] = true
			}
		}
	}
	torrents := append([]storage.Torrent(nil), e.torrents...)
	var teardown []func()
	for h := range e.blobs {
		if !freshH[h] {
			st.torrentControls[e.infos[h].InfoHash()] = sc.ctrls[e.infos[h].InfoHash()]
			continue
		}
		tor, cleanup := agentstorage.TorrentFixture(e.blobs[h].MetaInfo)
		torrents[h] = tor
		ctrl, err := st.addTorrent("verif", tor, true)
		if err != nil {
			panic(err)
		}
		teardown = append(teardown, ctrl.dispatcher.TearDown, cleanup)
	}
	t.Cfg(c.Cfg...)
	conns := map[int]*c16eConn{}
	byPtr := map[*conn.Conn]int{}
	hash := func(h int) core.InfoHash { return e.infos[h].InfoHash() }
	isActive := func(c *conn.Conn) bool {
		for _, a := range st.conns.ActiveConns() {
			if a == c {
				return true
			}
		}
		return false
	}

	// records are written at once, or collected when the caller wants to place them later
	type rec struct {
		toks []string
		obs  string
	}
	var sink *[]rec
	write := func(toks []string, obs string) {
		if sink != nil {
			*sink = append(*sink, rec{toks, obs})
			return
		}
		t.Op(toks, obs)
	}
	// `padd` / `pdelp` are AddPending / DeletePending calls made by the harness itself (sentinel and
	// read-back probes): the driver replays them like `add` / `delp`, the executor skips them on input.
	emitAdd := func(p, h int, nbrs string, ids []core.PeerID) string {
		r := c16eAddRes(st.conns.AddPending(e.peers[p], hash(h), ids))
		write([]string{"padd", fmt.Sprintf("p%d", p), fmt.Sprintf("h%d", h), nbrs}, r)
		return r
	}
	emitDelp := func(p, h int) {
		st.conns.DeletePending(e.peers[p], hash(h))
		write([]string{"pdelp", fmt.Sprintf("p%d", p), fmt.Sprintf("h%d", h)}, "ok")
	}
	// probe reads the status of every generated peer for torrent h through the public API: the
	// sentinel's slot is freed so that AddPending never answers "at capacity". It leaves the
	// state as it found it.
	probe := func(h int) map[int]string {
		res := map[int]string{}
		emitDelp(c16eSentinel, h)
		for p := 0; p < c16eNumPeers; p++ {
			r := emitAdd(p, h, "-", nil)
			res[p] = r
			if r == "ok" {
				emitDelp(p, h)
			}
		}
		emitAdd(c16eSentinel, h, "-", nil)
		return res
	}
	do := func(op []string) {
		if len(op) < 2 || op[0] != "op" {
			return
		}
		switch op[1] {
		case "add":
			if len(op) != 5 {
				return
			}
			p, okp := c16eIdx(op[2], 'p', c16eNumPeers)
			h, okh := c16eIdx(op[3], 'h', c16eNumHashes)
			if !okp || !okh {
				return
			}
			var ids []core.PeerID
			for _, nt := range verifh.Unlist(op[4]) {
				q, ok := c16eIdx(nt, 'p', c16eNumPeers)
				if !ok {
					return
				}
				ids = append(ids, e.peers[q])
			}
			r := c16eAddRes(st.conns.AddPending(e.peers[p], hash(h), ids))
			t.Op(op[1:], r)
		case "newconn":
			if len(op) != 5 {
				return
			}
			k, okk := c16eIdx(op[2], 'c', 1<<20)
			h, okh := c16eIdx(op[3], 'h', c16eNumHashes)
			p, okp := c16eIdx(op[4], 'p', c16eNumPeers)
			if !okk || !okh || !okp || conns[k] != nil {
				return
			}
			conns[k] = &c16eConn{c: e.take(h, p), h: h, p: p}
			byPtr[conns[k].c] = k
			t.Op(op[1:], "ok")
		case "move", "connclosed":
			if len(op) != 3 {
				return
			}
			k, okk := c16eIdx(op[2], 'c', 1<<20)
			if !okk || conns[k] == nil {
				return
			}
			if op[1] == "move" {
				switch err := st.conns.MovePendingToActive(conns[k].c); err {
				case nil:
					t.Op(op[1:], "ok")
				case connstate.ErrConnClosed:
					t.Op(op[1:], "closed")
				case connstate.ErrInvalidActiveTransition:
					t.Op(op[1:], "invalid")
				default:
					t.Op(op[1:], "other")
				}
			} else {
				connClosedEvent{conns[k].c}.apply(st)
				t.Op(op[1:], "ok")
			}
		case "outgoing", "inconn":
			if len(op) != 3 {
				return
			}
			k, okk := c16eIdx(op[2], 'c', 1<<20)
			if !okk || conns[k] == nil || !freshH[conns[k].h] {
				return
			}
			cc := conns[k]
			wasActive, wasClosed := isActive(cc.c), cc.c.IsClosed()
			info := torrents[cc.h].Stat()
			if op[1] == "outgoing" {
				outgoingConnEvent{cc.c, info.Bitfield(), info}.apply(st)
			} else {
				incomingConnEvent{"verif", cc.c, info.Bitfield(), info}.apply(st)
			}
			if !wasActive && isActive(cc.c) {
				t.Op(op[1:], "ok")
			} else {
				t.Op(op[1:], "failed")
			}
			if !wasClosed && cc.c.IsClosed() {
				// the handler closed the conn (error path): a harness-level fact the model is told
				t.Op([]string{"close", op[2]}, "ok")
			}
		case "close":
			if len(op) != 3 {
				return
			}
			if k, okk := c16eIdx(op[2], 'c', 1<<20); okk && conns[k] != nil {
				conns[k].c.Close()
				t.Op(op[1:], "ok")
			}
		case "active":
			if len(op) != 2 {
				return
			}
			var ks []int
			unknown := 0
			for _, a := range st.conns.ActiveConns() {
				if k, ok := byPtr[a]; ok {
					ks = append(ks, k)
				} else {
					unknown++
				}
			}
			sort.Ints(ks)
			var toks []string
			for _, k := range ks {
				toks = append(toks, fmt.Sprintf("c%d", k))
			}
			for i := 0; i < unknown; i++ {
				toks = append(toks, "c?")
			}
			t.Op(op[1:], verifh.List(toks))
		case "complete":
			if len(op) != 3 {
				return
			}
			h, okh := c16eIdx(op[2], 'h', c16eNumHashes)
			if !okh || !freshH[h] || torrents[h].Complete() {
				return
			}
			content := e.blobs[h].Content
			pl := int(e.blobs[h].MetaInfo.PieceLength())
			for i := 0; i < torrents[h].NumPieces(); i++ {
				end := (i + 1) * pl
				if end > len(content) {
					end = len(content)
				}
				if err := torrents[h].WritePiece(piecereader.NewBuffer(content[i*pl:end]), i); err != nil {
					panic(err)
				}
			}
			dispatcherCompleteEvent{st.torrentControls[hash(h)].dispatcher}.apply(st)
			t.Op(op[1:], "ok")
		case "incoming":
			if len(op) != 5 {
				return
			}
			p, okp := c16eIdx(op[2], 'p', c16eNumPeers)
			h, okh := c16eIdx(op[3], 'h', c16eNumHashes)
			if !okp || !okh {
				return
			}
			var nbrs []int
			seen := map[int]bool{}
			for _, nt := range verifh.Unlist(op[4]) {
				q, ok := c16eIdx(nt, 'p', c16eNumPeers)
				if !ok || seen[q] {
					return // the neighbours are map keys: no duplicates
				}
				seen[q] = true
				nbrs = append(nbrs, q)
			}
			pc := e.pending(h, p, nbrs)
			before := probe(h)
			incomingHandshakeEvent{pc}.apply(st)
			var later []rec
			sink = &later
			after := probe(h)
			sink = nil
			if after[p] == "pend" && before[p] != "pend" {
				t.Op(op[1:], "ok")
			} else {
				t.Op(op[1:], "rejected")
			}
			for _, r := range later {
				t.Op(r.toks, r.obs)
			}
		case "failout", "failin", "bl", "isbl":
			if len(op) != 4 {
				return
			}
			p, okp := c16eIdx(op[2], 'p', c16eNumPeers)
			h, okh := c16eIdx(op[3], 'h', c16eNumHashes)
			if !okp || !okh {
				return
			}
			switch op[1] {
			case "failout":
				failedOutgoingHandshakeEvent{e.peers[p], hash(h)}.apply(st)
				t.Op(op[1:], "ok")
			case "failin":
				failedIncomingHandshakeEvent{e.peers[p], hash(h)}.apply(st)
				t.Op(op[1:], "ok")
			case "bl":
				if err := st.conns.Blacklist(e.peers[p], hash(h)); err != nil {
					t.Op(op[1:], "already")
				} else {
					t.Op(op[1:], "ok")
				}
			case "isbl":
				t.Op(op[1:], verifh.Bool(st.conns.Blacklisted(e.peers[p], hash(h))))
			}
		case "adv":
			if len(op) != 3 {
				return
			}
			d, err := strconv.ParseInt(op[2], 10, 64)
			if err != nil || d < 0 || d > 1<<50 {
				return
			}
			sc.clk.off += time.Duration(d)
			t.Op(op[1:], "ok")
		case "announce":
			if len(op) != 4 {
				return
			}
			h, okh := c16eIdx(op[2], 'h', c16eNumHashes)
			if !okh {
				return
			}
			var peers []*core.PeerInfo
			for _, pt := range verifh.Unlist(op[3]) {
				if pt == "self" {
					peers = append(peers, core.NewPeerInfo(e.localID, "127.0.0.1", 1, false, false))
					continue
				}
				p, ok := c16eIdx(pt, 'p', c16eNumPeers)
				if !ok {
					return
				}
				peers = append(peers, e.pinfos[p])
			}
			before := probe(h)
			announceResultEvent{hash(h), peers}.apply(st)
			t.Op(op[1:], "ok")
			// The read-back probe is state-neutral; its records are written after the `dialled`
			// record so that the dial set is judged before the probe answers are compared.
			var later []rec
			sink = &later
			after := probe(h)
			sink = nil
			var dialled []string
			for p := 0; p < c16eNumPeers; p++ {
				if after[p] == "pend" && before[p] != "pend" {
					dialled = append(dialled, fmt.Sprintf("p%d", p))
				}
			}
			sort.Strings(dialled)
			t.Op([]string{"dialled", op[2]}, verifh.List(dialled))
			for _, r := range later {
				t.Op(r.toks, r.obs)
			}
		}
	}
	// the sentinel occupies one slot of every torrent for the whole case
	for h := 0; h < c16eNumHashes; h++ {
		emitAdd(c16eSentinel, h, "-", nil)
	}
	for _, op := range c.Ops {
		if p := verifh.Protect(func() { do(op) }); p != "" {
			t.PropFail("panic", verifh.Str(p))
		}
	}
	// drain: final status of every peer and blacklist flag
	if p := verifh.Protect(func() {
		do([]string{"op", "active"})
		for h := 0; h < c16eNumHashes; h++ {
			probe(h)
			for p := 0; p < c16eNumPeers; p++ {
				do([]string{"op", "isbl", fmt.Sprintf("p%d", p), fmt.Sprintf("h%d", h)})
			}
		}
	}); p != "" {
		t.PropFail("panic", verifh.Str(p))
	}
	t.End()
	// tear the case's dispatchers down first: that closes the conns they were given
	for _, f := range teardown {
		f()
	}
	for _, cc := range conns {
		if !cc.c.IsClosed() {
			k := [2]int{cc.h, cc.p}
			e.pool[k] = append(e.pool[k], cc.c)
		}
	}
}

func c16eCfg(max, mutual, disable int, dur int64) []string {
	return []string{fmt.Sprintf("max=%d", max), fmt.Sprintf("mutual=%d", mutual), fmt.Sprintf("disable=%d", disable),
		fmt.Sprintf("dur=%d", dur)}
}

func c16eOp(toks ...string) []string { return append([]string{"op"}, toks...) }

func TestVerif_C16Events(t *testing.T) {
	tr := verifh.Open("cse")
	defer tr.Close()
	env := c16eNewEnv()
	defer env.close()
	cases, replayOnly := verifh.InputCases("cse")
	for _, c := range cases {
		c16eExec(tr, env, c)
		tr.Count("corpus_or_replay_cases", 1)
	}
	if replayOnly {
		return
	}
	exhaust := func(name string, cfg []string, prefix, alpha [][]string, depth int) {
		var rec func(ops [][]string, d int)
		rec = func(ops [][]string, d int) {
			if d == 0 {
				c16eExec(tr, env, verifh.Case{Cfg: cfg, Ops: ops})
				tr.Count("exhaustive_"+name, 1)
				return
			}
			for _, o := range alpha {
				rec(append(ops[:len(ops):len(ops)], o), d-1)
			}
		}
		for d := 0; d <= depth; d++ {
			rec(prefix, d)
		}
	}
	// (a) one torrent, Max 3 (one slot is the sentinel's): announce results against blacklisted,
	// pending and active peers, capacity cut-off, conn-closed and failed handshakes
	pre := [][]string{c16eOp("newconn", "c0", "h0", "p0"), c16eOp("newconn", "c1", "h0", "p0")}
	alpha := [][]string{
		c16eOp("announce", "h0", "p0,self,p1,p2"), c16eOp("announce", "h0", "p2,p1"), c16eOp("bl", "p1", "h0"),
		c16eOp("failout", "p1", "h0"), c16eOp("failin", "p2", "h0"), c16eOp("move", "c0"), c16eOp("move", "c1"),
		c16eOp("connclosed", "c0"), c16eOp("adv", "10"),
	}
	exhaust("events_max3", c16eCfg(3, 0, 0, 10), pre, alpha, verifh.Scale(3, 4))
	// (a') incoming handshakes with neighbours (MaxMutual 1), conns handed over by the real
	// outgoing/incoming conn events, completion of the torrent
	alpha2 := [][]string{
		c16eOp("announce", "h0", "p0,p1"), c16eOp("incoming", "p3", "h0", "p0,p1"), c16eOp("incoming", "p2", "h0", "p0"),
		c16eOp("outgoing", "c0"), c16eOp("inconn", "c1"), c16eOp("connclosed", "c0"),
		c16eOp("bl", "p1", "h0"), c16eOp("complete", "h0"),
	}
	exhaust("events_incoming_complete", c16eCfg(4, 1, 0, 10), pre, alpha2, 3)

	// (b) random histories over two torrents
	r := verifh.NewRand(verifh.Seed(), "c16e")
	for i := 0; i < verifh.Scale(400, 6000); i++ {
		max := []int{2, 3, 3, 4, 0}[r.Intn(5)]
		disable := 0
		if r.Chance(1, 10) {
			disable = 1
		}
		dur := []int64{5, 10, 10, 1000}[r.Intn(4)]
		var ops [][]string
		var made []int
		n := 4 + r.Intn(25)
		pt := func() string { return fmt.Sprintf("p%d", r.Intn(c16eNumPeers)) }
		ht := func() string { return fmt.Sprintf("h%d", r.Intn(c16eNumHashes)) }
		anyConn := func() string {
			if len(made) == 0 {
				return "c0"
			}
			return fmt.Sprintf("c%d", made[r.Intn(len(made))])
		}
		for j := 0; j < n; j++ {
			var o []string
			switch x := r.Intn(100); {
			case x < 25:
				var ps []string
				for q := 1 + r.Intn(5); q > 0; q-- {
					if r.Chance(1, 6) {
						ps = append(ps, "self")
					} else {
						ps = append(ps, pt())
					}
				}
				o = c16eOp("announce", ht(), verifh.List(ps))
			case x < 29:
				o = c16eOp("add", pt(), ht(), "-")
			case x < 33:
				var nb []string
				for q := 0; q < c16eNumPeers; q++ {
					if r.Chance(1, 2) {
						nb = append(nb, fmt.Sprintf("p%d", q))
					}
				}
				o = c16eOp("incoming", pt(), ht(), verifh.List(nb))
			case x < 43:
				k := len(made)
				made = append(made, k)
				o = c16eOp("newconn", fmt.Sprintf("c%d", k), ht(), pt())
			case x < 49:
				o = c16eOp("move", anyConn())
			case x < 53:
				o = c16eOp([]string{"outgoing", "inconn"}[r.Intn(2)], anyConn())
			case x < 55:
				o = c16eOp("complete", ht())
			case x < 65:
				o = c16eOp("connclosed", anyConn())
			case x < 73:
				o = c16eOp("failout", pt(), ht())
			case x < 78:
				o = c16eOp("failin", pt(), ht())
			case x < 84:
				o = c16eOp("bl", pt(), ht())
			case x < 88:
				o = c16eOp("isbl", pt(), ht())
			default:
				d := []int64{0, 1, dur - 1, dur, dur + 1}[r.Intn(5)]
				o = c16eOp("adv", strconv.FormatInt(d, 10))
			}
			ops = append(ops, o)
			tr.Count("random_op_"+o[1], 1)
		}
		cs := verifh.Case{Cfg: c16eCfg(max, []int{0, 1, 1, 2}[r.Intn(4)], disable, dur), Ops: ops}
		if i < 2 {
			tr.Sample(fmt.Sprint(cs.Cfg, cs.Ops))
		}
		c16eExec(tr, env, cs)
		tr.Count("random_cases", 1)
	}
}
