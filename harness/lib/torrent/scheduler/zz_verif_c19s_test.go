//go:build verif

package scheduler

import (
	"bytes"
	"encoding/binary"
	"fmt"
	"io"
	"net"
	"sort"
	"strconv"
	"strings"
	"sync"
	"testing"
	"time"

	"github.com/andres-erbsen/clock"
	"github.com/golang/protobuf/proto"
	"github.com/uber-go/tally"
	"github.com/willf/bitset"

	"github.com/uber/kraken/core"
	"github.com/uber/kraken/gen/go/proto/p2p"
	"github.com/uber/kraken/lib/store"
	"github.com/uber/kraken/lib/torrent/networkevent"
	"github.com/uber/kraken/lib/torrent/scheduler/announcequeue"
	"github.com/uber/kraken/lib/torrent/scheduler/conn"
	"github.com/uber/kraken/lib/torrent/scheduler/connstate"
	"github.com/uber/kraken/lib/torrent/storage/agentstorage"
	"github.com/uber/kraken/tracker/announceclient"
	"github.com/uber/kraken/tracker/metainfoclient"
	"github.com/uber/kraken/utils/log"
	"github.com/uber/kraken/utils/verifh"
)

// C19 controlled-scheduler harness (machine "cslot"): one real scheduler whose event loop is a queue
// the harness drains by hand, a mock clock, remote peers played over net.Pipe. It ties the model's slot
// accounting (a connection that ended does not occupy a slot: Spec.C19.conns_are_live /
// departure_frees_slots, the hypothesis-free progress theorem) to the real connClosedEvent /
// failedOutgoingHandshakeEvent / incoming handshake path and connstate. Deterministic.
//
//   dialfail pK     the agent's outgoing handshake to pK fails: AddPending + failedOutgoingHandshakeEvent
//   incoming pK     pK dials the agent: Handshaker.Accept, incomingHandshakeEvent, establishIncomingHandshake,
//                   incomingConnEvent / failedIncomingHandshakeEvent (real path, events applied by hand)
//   close pK        the connection to pK ends (conn.Close -> ConnClosed -> connClosedEvent, applied by hand)
//   tick <ms>       the mock clock advances
//   state
// Observation of every record: active=<peers with an active conn> sat=<Saturated> free=<a new peer can be
// added as pending> bl=<blacklisted peers>.

type c19sLoop struct {
	mu      sync.Mutex
	q       []event
	stopped bool
}

func (l *c19sLoop) send(e event) bool {
	l.mu.Lock()
	defer l.mu.Unlock()
	if l.stopped {
		return false
	}
	l.q = append(l.q, e)
	return true
}

func (l *c19sLoop) sendTimeout(e event, timeout time.Duration) error {
	if !l.send(e) {
		return ErrSchedulerStopped
	}
	return nil
}

func (l *c19sLoop) run(*state) {}

func (l *c19sLoop) stop() {
	l.mu.Lock()
	defer l.mu.Unlock()
	l.stopped = true
}

func (l *c19sLoop) take(match func(event) bool, wait time.Duration) (event, bool) {
	deadline := time.Now().Add(wait)
	for {
		l.mu.Lock()
		for i, e := range l.q {
			if match(e) {
				l.q = append(l.q[:i:i], l.q[i+1:]...)
				l.mu.Unlock()
				return e, true
			}
		}
		l.mu.Unlock()
		if time.Now().After(deadline) {
			return nil, false
		}
		time.Sleep(50 * time.Microsecond)
	}
}

type c19sEnv struct {
	s       *scheduler
	st      *state
	loop    *c19sLoop
	clk     *clock.Mock
	mi      *core.MetaInfo
	ids     map[string]core.PeerID
	names   map[core.PeerID]string
	order   []string
	remotes []net.Conn
	cleanup func()
	// incomplete: an event the real code must send did not arrive within the (generous) deadline; the rest
	// of the case is not executed and nothing further is observed (no observation can be trusted then)
	incomplete bool
	maxconn    int
	deadPort   int // a localhost port nobody listens on: outgoing handshakes to it are refused at once
}

func c19sClosedPort() int {
	l, err := net.Listen("tcp", "127.0.0.1:0")
	if err != nil {
		panic(err)
	}
	defer l.Close()
	_, p, _ := net.SplitHostPort(l.Addr().String())
	port, _ := strconv.Atoi(p)
	return port
}

// announceResult plays one announce round trip: the announce tick takes the torrent off the ready queue,
// the tracker's handout `names` arrives (announceResultEvent); every outgoing handshake it starts is refused
// (nobody listens) and its failedOutgoingHandshakeEvent is applied. Returns whether the torrent can be
// announced again afterwards (it is back in the announce queue's ready set).
func (e *c19sEnv) announceResult(names []string) (ready bool, dialled []string) {
	h := e.mi.InfoHash()
	if got, ok := e.st.announceQueue.Next(); !ok || got != h {
		e.incomplete = true // the torrent was not ready to announce: the scenario does not apply
		return false, nil
	}
	var peers []*core.PeerInfo
	for _, n := range names {
		peers = append(peers, core.NewPeerInfo(e.ids[n], "127.0.0.1", e.deadPort, false, false))
	}
	// which handshakes will be started (needed only to know which failure events to wait for): the peers the
	// agent is not connected to and has not blacklisted, while it has free slots (nothing is pending now)
	activeNow := map[core.PeerID]bool{}
	for _, c := range e.st.conns.ActiveConns() {
		activeNow[c.PeerID()] = true
	}
	slots := e.maxconn - len(activeNow)
	var expect []string
	for _, n := range names {
		if slots <= 0 {
			break
		}
		if activeNow[e.ids[n]] || e.st.conns.Blacklisted(e.ids[n], h) {
			continue
		}
		dup := false
		for _, x := range expect {
			dup = dup || x == n
		}
		if dup {
			continue
		}
		expect = append(expect, n)
		slots--
	}
	announceResultEvent{h, peers}.apply(e.st)
	for _, n := range expect {
		id := e.ids[n]
		ev, ok := e.loop.take(func(ev event) bool {
			x, is := ev.(failedOutgoingHandshakeEvent)
			return is && x.peerID == id
		}, c19sDeadline)
		if !ok {
			e.incomplete = true
			return false, nil
		}
		ev.apply(e.st)
		dialled = append(dialled, n)
	}
	if got, ok := e.st.announceQueue.Next(); ok && got == h {
		e.st.announceQueue.Ready(h) // observed through the queue's own API, then put back
		return true, dialled
	}
	return false, dialled
}

const c19sDeadline = 120 * time.Second

const c19sNS = "verif/c19s"

func c19sNew(cfg []string) (*c19sEnv, error) {
	kv := map[string]string{}
	for _, c := range cfg {
		if i := strings.IndexByte(c, '='); i > 0 {
			kv[c[:i]] = c[i+1:]
		}
	}
	maxconn, err := strconv.Atoi(kv["maxconn"])
	if err != nil || maxconn < 1 || maxconn > 8 {
		return nil, fmt.Errorf("maxconn")
	}
	blms, err := strconv.Atoi(kv["blms"])
	if err != nil || blms < 1 {
		return nil, fmt.Errorf("blms")
	}
	npeers, err := strconv.Atoi(kv["peers"])
	if err != nil || npeers < 1 || npeers > 8 {
		return nil, fmt.Errorf("peers")
	}
	blob := []byte("c19s-blob-0123456789")
	d, err := core.NewDigester().FromBytes(blob)
	if err != nil {
		return nil, err
	}
	mi, err := core.NewMetaInfo(d, bytes.NewReader(blob), 4)
	if err != nil {
		return nil, err
	}
	cads, cleanup := store.CADownloadStoreFixture()
	mic := metainfoclient.NewTestClient()
	if err := mic.Upload(mi); err != nil {
		cleanup()
		return nil, err
	}
	ta := agentstorage.NewTorrentArchive(tally.NoopScope, cads, mic)
	localTorrent, err := ta.CreateTorrent(c19sNS, d)
	if err != nil {
		cleanup()
		return nil, err
	}
	clk := clock.NewMock()
	clk.Set(time.Unix(1700000000, 0))
	loop := &c19sLoop{}
	config := Config{
		SeederTTI: time.Hour, LeecherTTI: time.Hour, PreemptionInterval: 1000 * time.Hour, EmitStatsInterval: 1000 * time.Hour,
		ConnTTI: 1000 * time.Hour, ConnTTL: 1000 * time.Hour, DisablePreemption: true,
		ConnState:  connstate.Config{MaxOpenConnectionsPerTorrent: maxconn, BlacklistDuration: time.Duration(blms) * time.Millisecond},
		TorrentLog: log.Config{Disable: true}, Log: log.Config{Disable: true},
	}
	pctx, err := core.NewPeerContext(core.AddrHashPeerIDFactory, "zone1", "verif", "127.0.0.1", 1, false)
	if err != nil {
		cleanup()
		return nil, err
	}
	s, err := newScheduler(config, ta, tally.NoopScope, pctx, announceclient.Disabled(),
		networkevent.NewTestProducer(), withEventLoop(loop), withClock(clk))
	if err != nil {
		cleanup()
		return nil, err
	}
	e := &c19sEnv{s: s, loop: loop, clk: clk, mi: mi, ids: map[string]core.PeerID{}, names: map[core.PeerID]string{}, cleanup: cleanup}
	e.st = newState(s, announcequeue.New())
	// the local download is known to the scheduler from the start (as after newTorrentEvent): it has a
	// torrent control and sits in the announce queue
	if _, err := e.st.addTorrent(c19sNS, localTorrent, true); err != nil {
		cleanup()
		return nil, err
	}
	e.deadPort = c19sClosedPort()
	e.maxconn = maxconn
	for k := 1; k <= npeers; k++ {
		n := fmt.Sprintf("p%d", k)
		id := core.PeerIDFixture()
		e.ids[n], e.names[id] = id, n
		e.order = append(e.order, n)
	}
	return e, nil
}

func (e *c19sEnv) close() {
	for _, ctrl := range e.st.torrentControls {
		ctrl.dispatcher.TearDown()
	}
	for _, c := range e.st.conns.ActiveConns() {
		c.Close()
	}
	for _, nc := range e.remotes {
		nc.Close()
	}
	e.loop.stop()
	e.cleanup()
}

// incoming plays a remote peer that dials the agent; the real accept path runs, its events are applied here.
func (e *c19sEnv) incoming(id core.PeerID) string {
	h := e.mi.InfoHash()
	nc1, nc2 := net.Pipe()
	e.remotes = append(e.remotes, nc2)
	bf, err := bitset.New(uint(e.mi.NumPieces())).Complement().MarshalBinary()
	if err != nil {
		panic(err)
	}
	msg := &p2p.Message{Type: p2p.Message_BITFIELD, Bitfield: &p2p.BitfieldMessage{
		PeerID: id.String(), InfoHash: h.Hex(), Name: e.mi.Digest().Hex(), Namespace: c19sNS, BitfieldBytes: bf}}
	data, err := proto.Marshal(msg)
	if err != nil {
		panic(err)
	}
	go func() {
		var hdr [4]byte
		binary.BigEndian.PutUint32(hdr[:], uint32(len(data)))
		nc2.Write(append(hdr[:], data...))
		io.Copy(io.Discard, nc2)
	}()
	pc, err := e.s.handshaker.Accept(nc1)
	if err != nil {
		nc1.Close()
		return "acceptfail"
	}
	// will the pair be admitted? (probe, undone at once: incomingHandshakeEvent itself reports nothing)
	if perr := e.st.conns.AddPending(id, h, nil); perr != nil {
		incomingHandshakeEvent{pc}.apply(e.st)
		return "rejected"
	}
	e.st.conns.DeletePending(id, h)
	incomingHandshakeEvent{pc}.apply(e.st)
	ev, ok := e.loop.take(func(ev event) bool {
		switch x := ev.(type) {
		case incomingConnEvent:
			return x.c.PeerID() == id
		case failedIncomingHandshakeEvent:
			return x.peerID == id
		}
		return false
	}, c19sDeadline)
	if !ok {
		e.incomplete = true
		return "noevent"
	}
	ev.apply(e.st)
	if ce, isConn := ev.(incomingConnEvent); isConn {
		if ce.c.IsClosed() {
			// the scheduler closed the conn itself (the dispatcher refused the peer): its connClosedEvent
			// is on its way; the state is only observed after it has been applied
			cev, ok := e.loop.take(func(ev event) bool {
				x, is := ev.(connClosedEvent)
				return is && x.c == ce.c
			}, c19sDeadline)
			if !ok {
				e.incomplete = true
				return "noevent"
			}
			cev.apply(e.st)
			return "connrejected"
		}
		return "active"
	}
	return "failed"
}

func (e *c19sEnv) obs() []string {
	h := e.mi.InfoHash()
	var active, bl []string
	for _, c := range e.st.conns.ActiveConns() {
		if n, ok := e.names[c.PeerID()]; ok {
			active = append(active, n)
		} else {
			active = append(active, "p?")
		}
	}
	sort.Strings(active)
	for _, n := range e.order {
		if e.st.conns.Blacklisted(e.ids[n], h) {
			bl = append(bl, n)
		}
	}
	probe := core.PeerIDFixture()
	free := e.st.conns.AddPending(probe, h, nil) == nil
	if free {
		e.st.conns.DeletePending(probe, h)
	}
	return []string{"active=" + verifh.List(active), "sat=" + verifh.Bool(e.st.conns.Saturated(h)),
		"free=" + verifh.Bool(free), "bl=" + verifh.List(bl)}
}

func c19sExec(tr *verifh.T, c verifh.Case) {
	e, err := c19sNew(c.Cfg)
	if err != nil {
		return
	}
	defer e.close()
	tr.Cfg(c.Cfg...)
	h := e.mi.InfoHash()
	for _, op := range c.Ops {
		if e.incomplete {
			break
		}
		if len(op) < 2 || op[0] != "op" {
			continue
		}
		a := op[1:]
		switch {
		case a[0] == "dialfail" && len(a) == 2:
			id, ok := e.ids[a[1]]
			if !ok {
				continue
			}
			res := "ok"
			if p := verifh.Protect(func() {
				if err := e.st.conns.AddPending(id, h, nil); err != nil {
					res = "nopending" // already connected / at capacity: the scheduler would not have dialled
					return
				}
				failedOutgoingHandshakeEvent{id, h}.apply(e.st)
			}); p != "" {
				res = "panic"
			}
			tr.Op(a, append([]string{"res=" + res}, e.obs()...)...)
		case a[0] == "incoming" && len(a) == 2:
			id, ok := e.ids[a[1]]
			if !ok {
				continue
			}
			res := "panic"
			verifh.Protect(func() { res = e.incoming(id) })
			if e.incomplete {
				break
			}
			tr.Op(a, append([]string{"res=" + res}, e.obs()...)...)
		case a[0] == "close" && len(a) == 2:
			id, ok := e.ids[a[1]]
			if !ok {
				continue
			}
			var target *conn.Conn
			for _, c := range e.st.conns.ActiveConns() {
				if c.PeerID() == id {
					target = c
				}
			}
			if target == nil {
				continue
			}
			res := "closed"
			if target.IsClosed() {
				// a connection that already ended is still listed as active: nothing more will happen to it
				tr.Op(a, append([]string{"res=deadconn"}, e.obs()...)...)
				continue
			}
			if p := verifh.Protect(func() {
				target.Close()
				ev, ok := e.loop.take(func(ev event) bool {
					x, is := ev.(connClosedEvent)
					return is && x.c == target
				}, c19sDeadline)
				if !ok {
					e.incomplete = true
					return
				}
				ev.apply(e.st)
				// the dispatcher drops the peer on its own goroutine (feed -> removePeer -> PeerRemoved): a
				// reconnect of the same peer before that is refused by the dispatcher, so wait for it
				pev, ok := e.loop.take(func(ev event) bool {
					x, is := ev.(peerRemovedEvent)
					return is && x.peerID == id
				}, c19sDeadline)
				if !ok {
					e.incomplete = true
					return
				}
				pev.apply(e.st)
			}); p != "" {
				res = "panic"
			}
			if e.incomplete {
				break
			}
			tr.Op(a, append([]string{"res=" + res}, e.obs()...)...)
		case a[0] == "aresult" && len(a) == 2:
			var names []string
			okNames := true
			for _, n := range verifh.Unlist(a[1]) {
				if _, ok := e.ids[n]; !ok {
					okNames = false
				}
				names = append(names, n)
			}
			if !okNames || len(names) == 0 {
				continue
			}
			var ready bool
			var dialled []string
			res := "ok"
			if p := verifh.Protect(func() { ready, dialled = e.announceResult(names) }); p != "" {
				res = "panic"
			}
			if e.incomplete {
				break
			}
			tr.Op(a, append([]string{"res=" + res, "ready=" + verifh.Bool(ready), "dialled=" + verifh.List(dialled)}, e.obs()...)...)
		case a[0] == "tick" && len(a) == 2:
			if ms, err := strconv.Atoi(a[1]); err == nil && ms >= 0 && ms <= 3600000 {
				e.clk.Add(time.Duration(ms) * time.Millisecond)
				tr.Op(a, append([]string{"res=ok"}, e.obs()...)...)
			}
		case a[0] == "state" && len(a) == 1:
			tr.Op(a, append([]string{"res=ok"}, e.obs()...)...)
		}
	}
	if e.incomplete {
		tr.Comment("case abandoned: an expected scheduler event did not arrive within the deadline")
		tr.Count("cases_incomplete", 1)
		tr.End()
		return
	}
	tr.Op([]string{"state"}, append([]string{"res=ok"}, e.obs()...)...)
	tr.Op([]string{"done"}, "ok")
	tr.End()
}

func TestVerif_C19Slots(t *testing.T) {
	tr := verifh.Open("cslot")
	defer tr.Close()
	cases, replayOnly := verifh.InputCases("cslot")
	for _, c := range cases {
		c19sExec(tr, c)
		tr.Count("corpus_or_replay_cases", 1)
	}
	if replayOnly {
		return
	}
	r := verifh.NewRand(verifh.Seed(), "c19s")
	for it := 0; it < verifh.Scale(150, 5000); it++ {
		maxconn := 1 + r.Intn(3)
		npeers := 1 + r.Intn(4)
		blms := []int{1000, 5000, 30000}[r.Intn(3)]
		cfg := []string{fmt.Sprintf("maxconn=%d", maxconn), fmt.Sprintf("blms=%d", blms), fmt.Sprintf("peers=%d", npeers)}
		var ops [][]string
		for j, n := 0, 4+r.Intn(20); j < n; j++ {
			pn := fmt.Sprintf("p%d", 1+r.Intn(npeers))
			switch x := r.Intn(10); {
			case x < 2:
				ops = append(ops, []string{"op", "dialfail", pn})
				tr.Count("op_dialfail", 1)
			case x < 6:
				ops = append(ops, []string{"op", "incoming", pn})
				tr.Count("op_incoming", 1)
			case x < 8:
				ops = append(ops, []string{"op", "close", pn})
				tr.Count("op_close", 1)
			case x < 9 && r.Chance(1, 2):
				// an announce response offering 1..npeers peers (often more than there are free slots)
				var offer []string
				for _, k := range r.Perm(npeers)[:1+r.Intn(npeers)] {
					offer = append(offer, fmt.Sprintf("p%d", k+1))
				}
				ops = append(ops, []string{"op", "aresult", verifh.List(offer)})
				tr.Count("op_aresult", 1)
			default:
				ops = append(ops, []string{"op", "tick", strconv.Itoa([]int{1, 999, 1001, 5001, 40000}[r.Intn(5)])})
			}
		}
		if it < 2 {
			tr.Sample(fmt.Sprint(cfg, ops))
		}
		c19sExec(tr, verifh.Case{Cfg: cfg, Ops: ops})
		tr.Count("cases", 1)
	}
}
