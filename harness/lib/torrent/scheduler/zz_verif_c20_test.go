//go:build verif

package scheduler

// C20 harness, scheduler level (machine "aqs"): schedules of scheduler events that use the announce
// queue — download requests (addTorrent → Add), torrent completion and its asynchronous completion
// event (Eject), removal by RemoveTorrent or idle preemption, announce ticks (Next, Ready of skipped
// saturated torrents), announce results and failures (Ready) — executed on the real scheduler state.
// The real announcequeue.QueueImpl is wrapped by a recorder, so every call the scheduler makes on it
// (and what Next returned) is observed; at the end of a case every torrent is Ready()'d and the queue is
// drained through its public API: no info hash may come out twice, and none without a torrent control.

import (
	"errors"
	"fmt"
	"strconv"
	"strings"
	"testing"
	"time"

	"github.com/uber/kraken/core"
	"github.com/uber/kraken/lib/torrent/scheduler/announcequeue"
	"github.com/uber/kraken/lib/torrent/scheduler/conn"
	"github.com/uber/kraken/lib/torrent/scheduler/dispatch"
	"github.com/uber/kraken/lib/torrent/storage"
	"github.com/uber/kraken/utils/verifh"
	"github.com/willf/bitset"
)

const c20Machine = "aqs"
const c20NTor = 3

// c20Queue records the calls made on the real queue.
type c20Queue struct {
	inner announcequeue.Queue
	name  func(core.InfoHash) string
	calls []string
}

func (q *c20Queue) Next() (core.InfoHash, bool) {
	h, ok := q.inner.Next()
	if ok {
		q.calls = append(q.calls, "next:"+q.name(h))
	} else {
		q.calls = append(q.calls, "next:-")
	}
	return h, ok
}
func (q *c20Queue) Add(h core.InfoHash) { q.calls = append(q.calls, "add:"+q.name(h)); q.inner.Add(h) }
func (q *c20Queue) Ready(h core.InfoHash) {
	q.calls = append(q.calls, "ready:"+q.name(h))
	q.inner.Ready(h)
}
func (q *c20Queue) Eject(h core.InfoHash) {
	q.calls = append(q.calls, "eject:"+q.name(h))
	q.inner.Eject(h)
}

func (q *c20Queue) take() []string {
	c := q.calls
	q.calls = nil
	return c
}

// c20Shadow is the content of the queue as implied by the calls made on it and by what Next returned
// (API-level ghost; the queue's own behaviour is tied by machine "aq").
type c20Shadow struct {
	ready   []string
	pending map[string]bool
}

func (sh *c20Shadow) apply(call string) {
	kv := strings.SplitN(call, ":", 2)
	h := kv[1]
	del := func() {
		for i, x := range sh.ready {
			if x == h {
				sh.ready = append(sh.ready[:i:i], sh.ready[i+1:]...)
				return
			}
		}
	}
	switch kv[0] {
	case "add":
		sh.ready = append(sh.ready, h)
	case "next":
		if h != "-" {
			del()
			sh.pending[h] = true
		}
	case "ready":
		if sh.pending[h] {
			delete(sh.pending, h)
			sh.ready = append(sh.ready, h)
		}
	case "eject":
		delete(sh.pending, h)
		del()
	}
}

func (sh *c20Shadow) tok() string {
	var p []string
	for h := range sh.pending {
		p = append(p, h)
	}
	return "q=" + verifh.List(sh.ready) + "|" + verifh.SortedList(p)
}

type c20Run struct {
	w        *vWorld
	tr       *verifh.T
	q        *c20Queue
	sh       *c20Shadow
	expected int // announce requests the scheduler must have sent so far
	nInc     int
	gens     map[*dispatch.Dispatcher]int
	disps    []*dispatch.Dispatcher
	// an active connection per saturated torrent (MaxOpenConnectionsPerTorrent is 1)
	satConn    [c20NTor]*conn.Conn
	satCleanup [c20NTor]func()
	// FIFO monitor of the announce tick: the ready list (as implied by the scheduler's calls) before it
	readyBefore []string
	wasTick     bool
}

// c20TickFifo: an announce tick takes a prefix off the ready list (saturated torrents it passes over, then at
// most one it announces or drops) and re-queues passed-over ones; so for some k the list afterwards is
// before[k:] followed by a subsequence of before[:k] in the same order.
func c20TickFifo(before, after []string) bool {
	for k := 0; k <= len(before); k++ {
		rest := before[k:]
		if len(after) < len(rest) {
			continue
		}
		ok := true
		for i := range rest {
			if after[i] != rest[i] {
				ok = false
				break
			}
		}
		if !ok {
			continue
		}
		// after[len(rest):] must be a subsequence of before[:k]
		j := 0
		for _, x := range after[len(rest):] {
			for j < k && before[j] != x {
				j++
			}
			if j == k {
				ok = false
				break
			}
			j++
		}
		if ok {
			return true
		}
	}
	return false
}

func c20Tor(tok string) (int, bool) {
	if !strings.HasPrefix(tok, "h") {
		return 0, false
	}
	i, err := strconv.Atoi(tok[1:])
	if err != nil || i < 0 || i >= c20NTor {
		return 0, false
	}
	return i, true
}

func (r *c20Run) note() {
	for i := 0; i < c20NTor; i++ {
		if ctrl := r.w.ctrl(i); ctrl != nil {
			if _, ok := r.gens[ctrl.dispatcher]; !ok {
				r.gens[ctrl.dispatcher] = len(r.disps)
				r.disps = append(r.disps, ctrl.dispatcher)
			}
		}
	}
}

func (r *c20Run) awaitNotice(d *dispatch.Dispatcher) {
	ok := r.w.loop.waitFor(func(e event) bool {
		ce, ok := e.(dispatcherCompleteEvent)
		return ok && ce.dispatcher == d
	}, 5*time.Second)
	if !ok {
		panic("harness: completion notice did not arrive")
	}
}

func (r *c20Run) status() {
	var obs []string
	for i := 0; i < c20NTor; i++ {
		if ctrl := r.w.ctrl(i); ctrl != nil {
			obs = append(obs, fmt.Sprintf("h%d=g%d:c%s", i, r.gens[ctrl.dispatcher], verifh.Bool(ctrl.dispatcher.Complete())))
		} else {
			obs = append(obs, fmt.Sprintf("h%d=-", i))
		}
	}
	sat := ""
	for i := 0; i < c20NTor; i++ {
		sat += verifh.Bool(r.w.st.conns.Saturated(r.w.blobs[i].mi.InfoHash()))
	}
	r.tr.Rec("st", nil, append(obs, "sat="+sat))
}

func (r *c20Run) do(op []string) bool {
	w := r.w
	if len(op) < 2 || op[0] != "op" {
		return false
	}
	rec := op[1:]
	var first []string
	tor := func(k int) (int, bool) {
		if len(op) <= k {
			return 0, false
		}
		return c20Tor(op[k])
	}
	switch op[1] {
	case "adv":
		if len(op) != 3 {
			return false
		}
		n, err := strconv.ParseInt(op[2], 10, 64)
		if err != nil || n < 0 || n > 1000000 {
			return false
		}
		w.clk.advance(time.Duration(n))
	case "req":
		i, ok := tor(2)
		if !ok {
			return false
		}
		t, err := w.createTorrent(i, 0)
		if err != nil {
			panic(err)
		}
		nd := len(r.disps)
		newTorrentEvent{vNamespace, t, make(chan error, 8)}.apply(w.st)
		r.note()
		if ctrl := w.ctrl(i); ctrl != nil && len(r.disps) > nd && ctrl.dispatcher.Complete() {
			r.awaitNotice(ctrl.dispatcher)
		}
		if ctrl := w.ctrl(i); ctrl != nil && !ctrl.dispatcher.Complete() {
			r.expected++ // "immediately announce new torrents"
		}
	case "inc", "incbad":
		// an honest remote peer connects for torrent i (the agent has it on disk): addIncomingConn adds the
		// torrent when it has no control. The peer leaves again at once.
		// incbad: the peer's bitfield is longer than the torrent — the dispatcher's AddPeer rejects the conn after
		// addIncomingConn has created (and queued) the control; the scheduler closes the conn.
		i, ok := tor(2)
		if !ok {
			return false
		}
		if !w.exists(w.cads.Any(), i) {
			if _, err := w.createTorrent(i, 0); err != nil {
				panic(err)
			}
		}
		r.nInc++
		id, err := core.HashedPeerID(fmt.Sprintf("verif-inc-%d", r.nInc))
		if err != nil {
			panic(err)
		}
		bf, _ := bitset.New(uint(w.np)).MarshalBinary()
		if op[1] == "incbad" {
			bf, _ = bitset.New(uint(w.np + 1)).MarshalBinary()
		}
		nd := len(r.disps)
		in := w.incoming(id, i, w.blobs[i].mi.InfoHash(), bf)
		first = []string{in.res}
		r.note()
		if ctrl := w.ctrl(i); ctrl != nil && len(r.disps) > nd && ctrl.dispatcher.Complete() {
			r.awaitNotice(ctrl.dispatcher)
		}
		if in.res == "active" || in.res == "connrejected" {
			if in.res == "active" {
				in.remote.Close()
			}
			e, ok := w.loop.take(func(e event) bool {
				ce, ok := e.(connClosedEvent)
				return ok && ce.c == in.c
			}, 10*time.Second)
			if !ok {
				panic("harness: no ConnClosed event")
			}
			e.apply(w.st)
		}
	case "evict":
		// the store's cleanup evicts the cached blob while the scheduler may still hold a control for it
		i, ok := tor(2)
		if !ok {
			return false
		}
		first = []string{"none"}
		if w.exists(w.cads.Cache(), i) {
			if err := w.cads.Cache().DeleteFile(w.blobs[i].digest.Hex()); err != nil {
				panic(err)
			}
			first = []string{"evicted"}
		}
	case "finish":
		i, ok := tor(2)
		if !ok {
			return false
		}
		res := w.deliverPiece(i, 0, true)
		first = []string{res}
		if res == "ok" {
			r.awaitNotice(w.ctrl(i).dispatcher)
		}
	case "notice":
		i, ok := tor(2)
		if !ok || len(op) != 4 || !strings.HasPrefix(op[3], "g") {
			return false
		}
		var d *dispatch.Dispatcher
		pending := func(x *dispatch.Dispatcher) bool {
			return w.loop.waitFor(func(e event) bool {
				ce, ok := e.(dispatcherCompleteEvent)
				return ok && ce.dispatcher == x
			}, 0)
		}
		torOf := func(x *dispatch.Dispatcher) int {
			for j, b := range w.blobs {
				if b.mi.InfoHash() == x.InfoHash() {
					return j
				}
			}
			return -1
		}
		if op[3] == "g*" {
			for _, x := range r.disps {
				if torOf(x) == i && pending(x) {
					d = x
					break
				}
			}
			if d == nil {
				return false
			}
			rec = []string{"notice", op[2], fmt.Sprintf("g%d", r.gens[d])}
		} else {
			g, err := strconv.Atoi(op[3][1:])
			if err != nil || g < 0 {
				return false
			}
			if g < len(r.disps) && torOf(r.disps[g]) == i && pending(r.disps[g]) {
				d = r.disps[g]
			}
		}
		first = []string{"none"}
		if d != nil {
			e, _ := w.takeCompletion(d, 0)
			if ctrl := w.ctrl(i); ctrl != nil && ctrl.dispatcher == d {
				r.expected++ // "immediately announce completed torrents"
			}
			e.apply(w.st)
			first = []string{"applied"}
		}
	case "rm":
		i, ok := tor(2)
		if !ok {
			return false
		}
		errc := make(chan error, 1)
		removeTorrentEvent{w.blobs[i].digest, errc}.apply(w.st)
		<-errc
	case "tick":
		before := [c20NTor]bool{}
		for i := range before {
			before[i] = w.ctrl(i) != nil
		}
		preemptionTickEvent{}.apply(w.st)
		var dropped []string
		for i := range before {
			if before[i] && w.ctrl(i) == nil {
				dropped = append(dropped, fmt.Sprintf("h%d", i))
			}
		}
		first = []string{"dropped=" + verifh.List(dropped)}
	case "sat", "unsat":
		i, ok := tor(2)
		if !ok {
			return false
		}
		if op[1] == "sat" && r.satConn[i] == nil {
			info := storage.NewTorrentInfo(w.blobs[i].mi, bitset.New(uint(w.np)))
			c, _, cleanup := conn.PipeFixture(conn.Config{}, info)
			if err := w.st.conns.AddPending(c.PeerID(), c.InfoHash(), nil); err != nil {
				panic(err)
			}
			if err := w.st.conns.MovePendingToActive(c); err != nil {
				panic(err)
			}
			r.satConn[i], r.satCleanup[i] = c, cleanup
		} else if op[1] == "unsat" && r.satConn[i] != nil {
			w.st.conns.DeleteActive(r.satConn[i])
			r.satCleanup[i]()
			r.satConn[i], r.satCleanup[i] = nil, nil
		}
	case "atick":
		r.readyBefore = append([]string(nil), r.sh.ready...)
		r.wasTick = true
		announceTickEvent{}.apply(w.st)
		// did the tick break out with a torrent to announce? (last Next result that was not re-queued)
		last := ""
		readied := map[string]bool{}
		for _, c := range r.q.calls {
			if strings.HasPrefix(c, "next:") {
				last = c[5:]
			}
			if strings.HasPrefix(c, "ready:") {
				readied[c[6:]] = true
			}
		}
		if j, okj := c20Tor(last); okj && !readied[last] && w.ctrl(j) != nil {
			r.expected++
		}
	case "ares", "aerr":
		// the tracker answers the oldest announce request of torrent i that is in flight; the scheduler's
		// announce goroutine turns the answer into its event, which is applied
		i, ok := tor(2)
		if !ok {
			return false
		}
		h := w.blobs[i].mi.InfoHash()
		var reply error
		if op[1] == "aerr" {
			reply = errors.New("verif: tracker error")
		}
		first = []string{"none"}
		if w.ac.release(h, reply) {
			e, ok := w.loop.take(func(e event) bool {
				switch x := e.(type) {
				case announceResultEvent:
					return op[1] == "ares" && x.infoHash == h
				case announceErrEvent:
					return op[1] == "aerr" && x.infoHash == h
				}
				return false
			}, 10*time.Second)
			if !ok {
				panic("harness: the released announce produced no event")
			}
			e.apply(w.st)
			first = []string{"answered"}
		}
	default:
		return false
	}
	r.note()
	w.ac.waitTotal(r.expected)
	calls := r.q.take()
	for _, c := range calls {
		r.sh.apply(c)
	}
	if r.wasTick {
		r.wasTick = false
		if !c20TickFifo(r.readyBefore, r.sh.ready) {
			// first come first served: the torrents a tick passes over re-enter the queue in their arrival order,
			// behind the ones it did not reach
			r.tr.PropFail("tick-requeue-not-fifo", "before="+verifh.List(r.readyBefore), "after="+verifh.List(r.sh.ready))
		}
	}
	fl := ""
	for i := 0; i < c20NTor; i++ {
		n := w.ac.count(w.blobs[i].mi.InfoHash())
		fl += strconv.Itoa(n)
		if n > 0 {
			for _, x := range r.sh.ready {
				if x == fmt.Sprintf("h%d", i) {
					// the clause "ready again only after its in-flight announce finished", on what the scheduler did
					r.tr.PropFail("ready-while-announce-in-flight", x, fmt.Sprintf("inflight=%d", n))
				}
			}
		}
	}
	r.tr.Op(rec, append(first, r.sh.tok(), "fl="+fl)...)
	r.tr.Rec("calls", []string{verifh.List(calls)}, nil) // evidence only: the exact call sequence is not compared
	r.status()
	return true
}

func c20SchedExec(tr *verifh.T, c verifh.Case) {
	sttl, lttl := int64(5), int64(5)
	for _, t := range c.Cfg {
		kv := strings.SplitN(t, "=", 2)
		if len(kv) != 2 {
			continue
		}
		n, err := strconv.ParseInt(kv[1], 10, 64)
		if err != nil {
			continue
		}
		switch kv[0] {
		case "sttl":
			sttl = n
		case "lttl":
			lttl = n
		}
	}
	if sttl < 1 || lttl < 1 {
		return
	}
	w := vWorldFor(time.Duration(sttl), time.Duration(lttl), 1, c20NTor)
	// one connection saturates a torrent; the state is rebuilt over the recording queue
	w.sched.config.ConnState.MaxOpenConnectionsPerTorrent = 1
	w.sched.config.ConnState.MaxMutualConnections = 1
	q := &c20Queue{inner: announcequeue.New(), name: func(h core.InfoHash) string {
		for i, b := range w.blobs {
			if b.mi.InfoHash() == h {
				return fmt.Sprintf("h%d", i)
			}
		}
		return "h?"
	}}
	w.st = newState(w.sched, q)
	w.ac.mu.Lock()
	w.ac.scripted = true
	w.ac.mu.Unlock()
	r := &c20Run{w: w, tr: tr, q: q, sh: &c20Shadow{pending: map[string]bool{}}, gens: map[*dispatch.Dispatcher]int{}}
	defer func() {
		for _, c := range r.satCleanup {
			if c != nil {
				c()
			}
		}
	}()
	tr.Cfg(fmt.Sprintf("sttl=%d", sttl), fmt.Sprintf("lttl=%d", lttl))
	ok := true
	for _, op := range c.Ops {
		op := op
		if len(op) >= 2 && op[0] == "op" && op[1] == "drain" {
			continue
		}
		if p := verifh.Protect(func() { r.do(op) }); p != "" {
			tr.PropFail("panic", verifh.Str(p))
			ok = false
			break
		}
	}
	if ok {
		// epilogue: make every pending torrent ready again, then drain the queue through its public API
		for i := 0; i < c20NTor; i++ {
			q.inner.Ready(w.blobs[i].mi.InfoHash())
		}
		var order []string
		seen := map[string]bool{}
		for k := 0; k < 64; k++ {
			h, more := q.inner.Next()
			if !more {
				break
			}
			name := q.name(h)
			order = append(order, name)
			if seen[name] {
				tr.PropFail("queued-twice", name)
			}
			seen[name] = true
			if i, okk := c20Tor(name); !okk || w.ctrl(i) == nil {
				tr.PropFail("queued-after-removal", name)
			}
		}
		tr.Op([]string{"drain"}, "order="+verifh.List(order))
	}
	tr.End()
}

func TestVerif_C20Sched(t *testing.T) {
	tr := verifh.Open(c20Machine)
	defer tr.Close()
	defer vCloseWorlds()
	cases, replayOnly := verifh.InputCases(c20Machine)
	for _, c := range cases {
		c20SchedExec(tr, c)
		tr.Count("corpus_or_replay_cases", 1)
	}
	if replayOnly {
		return
	}
	cfg := []string{"sttl=5", "lttl=5"}
	// (a) bounded-exhaustive over one torrent (+ a second one only as a bystander in the queue)
	letters := [][][]string{
		{{"op", "req", "h0"}},
		{{"op", "finish", "h0"}},
		{{"op", "notice", "h0", "g*"}},
		{{"op", "rm", "h0"}},
		{{"op", "adv", "5"}, {"op", "tick"}},
		{{"op", "atick"}},
		{{"op", "ares", "h0"}},
		{{"op", "sat", "h0"}},
		{{"op", "inc", "h0"}},
		{{"op", "evict", "h0"}},
		{{"op", "incbad", "h0"}},
	}
	if verifh.Thorough() {
		letters = append(letters, [][]string{{"op", "aerr", "h0"}}, [][]string{{"op", "unsat", "h0"}}, [][]string{{"op", "req", "h1"}})
	}
	// (thorough: depth 4 over 13 letters; the driver's transcript of the cases that show the known finding
	// ready-while-announce-in-flight — about a third of them — has to stay below the orchestrator's 64 MB limit)
	depth := verifh.Scale(3, 4)
	var rec func(prefix [][]string, d int)
	rec = func(prefix [][]string, d int) {
		if d == 0 {
			c20SchedExec(tr, verifh.Case{Cfg: cfg, Ops: prefix})
			tr.Count("exhaustive_cases", 1)
			return
		}
		for _, l := range letters {
			rec(append(prefix[:len(prefix):len(prefix)], l...), d-1)
		}
	}
	for d := 1; d <= depth; d++ {
		rec(nil, d)
	}
	// (a2) every schedule to depth 4 over the events around completion, removal, eviction and re-request
	core := [][][]string{
		{{"op", "req", "h0"}}, {{"op", "finish", "h0"}}, {{"op", "notice", "h0", "g*"}}, {{"op", "rm", "h0"}},
		{{"op", "adv", "5"}, {"op", "tick"}}, {{"op", "evict", "h0"}}, {{"op", "inc", "h0"}}, {{"op", "incbad", "h0"}},
	}
	var rec2 func(prefix [][]string, d int)
	rec2 = func(prefix [][]string, d int) {
		if d == 0 {
			c20SchedExec(tr, verifh.Case{Cfg: cfg, Ops: prefix})
			tr.Count("core_exhaustive_cases", 1)
			return
		}
		for _, l := range core {
			rec2(append(prefix[:len(prefix):len(prefix)], l...), d-1)
		}
	}
	rec2(nil, verifh.Scale(4, 5))
	// (a3) eviction of the cached blob under a live control, then a new request (Eject + Add in one event),
	// with the completion event before the eviction, after the re-request, or never; every 2-letter continuation
	for when := 0; when < 3; when++ {
		for _, l1 := range core {
			for _, l2 := range core {
				ops := [][]string{{"op", "req", "h0"}, {"op", "atick"}, {"op", "finish", "h0"}}
				if when == 0 {
					ops = append(ops, []string{"op", "notice", "h0", "g*"})
				}
				ops = append(ops, []string{"op", "evict", "h0"}, []string{"op", "req", "h0"})
				if when == 1 {
					ops = append(ops, []string{"op", "notice", "h0", "g*"})
				}
				ops = append(ops, l1...)
				ops = append(ops, l2...)
				ops = append(ops, []string{"op", "notice", "h0", "g*"}, []string{"op", "atick"})
				c20SchedExec(tr, verifh.Case{Cfg: cfg, Ops: ops})
				tr.Count("eviction_cases", 1)
			}
		}
	}
	// (a4) several torrents saturated at once: three torrents queued in every arrival order, every subset of them
	// saturated (one active conn each, MaxOpenConnectionsPerTorrent=1), the announce tick that passes over them,
	// then continuations that show the order in which they come back
	cont := [][]string{{"op", "atick"}, {"op", "ares", "h0"}, {"op", "ares", "h1"}, {"op", "ares", "h2"},
		{"op", "unsat", "h0"}, {"op", "unsat", "h1"}, {"op", "unsat", "h2"}}
	perms := [][3]int{{0, 1, 2}, {0, 2, 1}, {1, 0, 2}, {1, 2, 0}, {2, 0, 1}, {2, 1, 0}}
	for pi, perm := range perms {
		for sub := 0; sub < 8; sub++ {
			for _, rev := range []bool{false, true} {
				var prefix [][]string
				for _, i := range perm {
					prefix = append(prefix, []string{"op", "req", fmt.Sprintf("h%d", i)})
				}
				for k := 0; k < 3; k++ {
					i := k
					if rev {
						i = 2 - k
					}
					if sub&(1<<uint(i)) != 0 {
						prefix = append(prefix, []string{"op", "sat", fmt.Sprintf("h%d", i)})
					}
				}
				prefix = append(prefix, []string{"op", "atick"})
				for _, c1 := range cont {
					if pi > 0 || rev {
						c20SchedExec(tr, verifh.Case{Cfg: cfg, Ops: append(prefix[:len(prefix):len(prefix)], c1)})
						tr.Count("multi_saturated_cases", 1)
						continue
					}
					for _, c2 := range cont {
						c20SchedExec(tr, verifh.Case{Cfg: cfg, Ops: append(prefix[:len(prefix):len(prefix)], c1, c2)})
						tr.Count("multi_saturated_cases", 1)
					}
				}
			}
		}
	}
	// (b) random long schedules over three torrents
	rnd := verifh.NewRand(verifh.Seed(), "c20sched")
	for n := 0; n < verifh.Scale(300, 8000); n++ {
		var ops [][]string
		for j := 0; j < 4+rnd.Intn(30); j++ {
			h := fmt.Sprintf("h%d", rnd.Intn(c20NTor))
			var o []string
			switch x := rnd.Intn(100); {
			case x < 20:
				o = []string{"op", "req", h}
			case x < 32:
				o = []string{"op", "finish", h}
			case x < 44:
				o = []string{"op", "notice", h, "g*"}
			case x < 54:
				o = []string{"op", "rm", h}
			case x < 58:
				o = []string{"op", "adv", strconv.Itoa([]int{1, 3, 5}[rnd.Intn(3)])}
			case x < 63:
				o = []string{"op", "tick"}
			case x < 79:
				o = []string{"op", "atick"}
			case x < 86:
				o = []string{"op", "ares", h}
			case x < 89:
				o = []string{"op", "aerr", h}
			case x < 94:
				o = []string{"op", "sat", h}
			case x < 96:
				o = []string{"op", "unsat", h}
			case x < 98:
				o = []string{"op", rnd.Pick("inc", "inc", "incbad"), h}
			default:
				o = []string{"op", "evict", h}
			}
			ops = append(ops, o)
			tr.Count("random_op_"+o[1], 1)
		}
		if n < 2 {
			tr.Sample(fmt.Sprint(ops))
		}
		c20SchedExec(tr, verifh.Case{Cfg: cfg, Ops: ops})
		tr.Count("random_cases", 1)
	}
}
