//go:build verif

package scheduler

// C17 harness: schedules of download requests, torrent completion (last piece written by the
// dispatcher's goroutine), the asynchronous completion notice, idle preemption ticks, manual
// removal and shutdown, executed on the real scheduler state. The recording event loop holds the
// dispatcher's completion notice until the schedule says it is applied, so the window between
// "torrent complete" and "completion event applied" is forced to overlap with every other event.
//
// A download request is executed like scheduler.doDownload does (CreateTorrent, newTorrentEvent with
// a result channel), except that the harness keeps the channel and drains it after every operation,
// recording every value ever sent on it.

import (
	"fmt"
	"sort"
	"strconv"
	"strings"
	"testing"
	"time"

	"github.com/uber/kraken/lib/torrent/scheduler/dispatch"
	"github.com/uber/kraken/lib/torrent/storage"
	"github.com/uber/kraken/utils/verifh"
)

const c17Machine = "sched"
const c17NTor = 2

type c17Run struct {
	w       *vWorld
	tr      *verifh.T
	errcs   []chan error // waiter id -> result channel
	got     [][]string   // waiter id -> every result delivered so far
	gens    map[*dispatch.Dispatcher]int
	disps   []*dispatch.Dispatcher
	missing *vBlob
	pending []string // sends of the current operation
}

func c17Class(err error) string {
	switch err {
	case nil:
		return "ok"
	case ErrTorrentTimeout:
		return "timeout"
	case ErrTorrentRemoved:
		return "removed"
	case ErrSchedulerStopped:
		return "stopped"
	case ErrTorrentNotFound:
		return "notfound"
	}
	return "err"
}

func (r *c17Run) deliver(wid int, class string, i int) {
	ca := i >= 0 && r.w.exists(r.w.cads.Cache(), i)
	r.got[wid] = append(r.got[wid], class)
	r.pending = append(r.pending, fmt.Sprintf("w%d:%s:%s", wid, class, verifh.Bool(ca)))
	if class == "ok" && !ca {
		r.tr.PropFail("success-without-blob", fmt.Sprintf("w%d", wid))
	}
	if len(r.got[wid]) == 2 {
		r.tr.PropFail("waiter-answered-twice", fmt.Sprintf("w%d", wid), strings.Join(r.got[wid], "+"))
	}
}

// drain records everything that was sent to the waiters' channels since the last call.
func (r *c17Run) drain(tors []int) {
	for wid, c := range r.errcs {
		if c == nil {
			continue
		}
		for more := true; more; {
			select {
			case err := <-c:
				r.deliver(wid, c17Class(err), tors[wid])
			default:
				more = false
			}
		}
	}
}

func (r *c17Run) sends() string {
	s := "sends=" + verifh.List(r.pending)
	r.pending = nil
	return s
}

// noteDispatchers numbers dispatchers in creation order and waits until the completion notice of a
// dispatcher that is complete has reached the event loop's queue.
func (r *c17Run) noteDispatchers() {
	for i := 0; i < c17NTor; i++ {
		ctrl := r.w.ctrl(i)
		if ctrl == nil {
			continue
		}
		if _, ok := r.gens[ctrl.dispatcher]; !ok {
			r.gens[ctrl.dispatcher] = len(r.disps)
			r.disps = append(r.disps, ctrl.dispatcher)
		}
	}
}

func (r *c17Run) awaitNotice(d *dispatch.Dispatcher) {
	if r.w.loop.isStopped() {
		// the real send returns false once the loop is stopped; nothing to wait for
		time.Sleep(200 * time.Microsecond)
		return
	}
	ok := r.w.loop.waitFor(func(e event) bool {
		ce, ok := e.(dispatcherCompleteEvent)
		return ok && ce.dispatcher == d
	}, 5*time.Second)
	if !ok {
		panic("harness: completion notice did not arrive")
	}
}

func (r *c17Run) pendingNotices() []string {
	var out []string
	r.w.loop.mu.Lock()
	defer r.w.loop.mu.Unlock()
	for _, e := range r.w.loop.q {
		if ce, ok := e.(dispatcherCompleteEvent); ok {
			if g, ok := r.gens[ce.dispatcher]; ok {
				out = append(out, fmt.Sprintf("h%dg%d", r.torOf(ce.dispatcher), g))
			}
		}
	}
	sort.Strings(out)
	return out
}

func (r *c17Run) torOf(d *dispatch.Dispatcher) int {
	for i, b := range r.w.blobs {
		if b.mi.InfoHash() == d.InfoHash() {
			return i
		}
	}
	return -1
}

func (r *c17Run) status() {
	w := r.w
	var obs []string
	for i := 0; i < c17NTor; i++ {
		ctrl := w.ctrl(i)
		if ctrl == nil {
			obs = append(obs, fmt.Sprintf("h%d=-", i))
			continue
		}
		var ws []string
		for _, c := range ctrl.errors {
			id := "?"
			for wid, x := range r.errcs {
				if x == c {
					id = fmt.Sprintf("w%d", wid)
				}
			}
			ws = append(ws, id)
		}
		wl := strings.Join(ws, "+")
		if wl == "" {
			wl = "-"
		}
		obs = append(obs, fmt.Sprintf("h%d=g%d:c%s:%s", i, r.gens[ctrl.dispatcher], verifh.Bool(ctrl.dispatcher.Complete()), wl))
	}
	ca := ""
	for i := 0; i < c17NTor; i++ {
		ca += verifh.Bool(w.exists(w.cads.Cache(), i))
	}
	obs = append(obs, "n="+verifh.List(r.pendingNotices()), "stopped="+verifh.Bool(w.loop.isStopped()), "ca="+ca)
	r.tr.Rec("st", nil, obs)
}

func (r *c17Run) do(op []string, tors *[]int) bool {
	w := r.w
	if len(op) < 2 || op[0] != "op" {
		return false
	}
	rec := op[1:]
	var first []string
	switch {
	case op[1] == "adv" && len(op) == 3:
		n, err := strconv.ParseInt(op[2], 10, 64)
		if err != nil || n < 0 || n > 1000000 {
			return false
		}
		w.clk.advance(time.Duration(n))
	case op[1] == "req" && len(op) == 3:
		wid := len(r.errcs)
		first = []string{fmt.Sprintf("w%d", wid)}
		if op[2] == "hx" {
			// unknown to the tracker: Download returns before any event is sent
			r.errcs = append(r.errcs, nil)
			r.got = append(r.got, nil)
			*tors = append(*tors, -1)
			_, err := w.ta.CreateTorrent(vNamespace, r.missing.digest)
			cl := "err"
			if err == storage.ErrNotFound {
				cl = c17Class(ErrTorrentNotFound)
			}
			r.deliver(wid, cl, -1)
			break
		}
		i, ok := c17Tor(op[2])
		if !ok {
			return false
		}
		errc := make(chan error, 4) // the real one has capacity 1 and a reader; see drain
		r.errcs = append(r.errcs, errc)
		r.got = append(r.got, nil)
		*tors = append(*tors, i)
		t, err := w.createTorrent(i, 0)
		if err != nil {
			r.deliver(wid, "err", i)
			break
		}
		if !w.submit(newTorrentEvent{vNamespace, t, errc}) {
			r.deliver(wid, c17Class(ErrSchedulerStopped), i)
			break
		}
		nd := len(r.disps)
		r.noteDispatchers()
		if ctrl := w.ctrl(i); ctrl != nil && len(r.disps) > nd && ctrl.dispatcher.Complete() {
			r.awaitNotice(ctrl.dispatcher) // dispatch.New on a cached blob sends the notice right away
		}
	case op[1] == "finish" && len(op) == 3:
		i, ok := c17Tor(op[2])
		if !ok {
			return false
		}
		res := w.deliverPiece(i, 0, true)
		first = []string{res}
		if res == "ok" {
			r.awaitNotice(w.ctrl(i).dispatcher)
		}
	case op[1] == "notice" && len(op) == 4:
		i, ok := c17Tor(op[2])
		if !ok || !strings.HasPrefix(op[3], "g") {
			return false
		}
		var d *dispatch.Dispatcher
		if op[3] == "g*" { // generator shorthand: the oldest pending notice of this torrent
			for _, x := range r.disps {
				if r.torOf(x) == i && w.loop.waitFor(func(e event) bool {
					ce, ok := e.(dispatcherCompleteEvent)
					return ok && ce.dispatcher == x
				}, 0) {
					d = x
					break
				}
			}
			if d == nil {
				return false
			}
			rec = []string{"notice", op[2], fmt.Sprintf("g%d", r.gens[d])}
		} else {
			g, err := strconv.Atoi(op[3][1:])
			if err != nil || g < 0 {
				return false
			}
			if g < len(r.disps) && r.torOf(r.disps[g]) == i {
				d = r.disps[g]
			}
		}
		first = []string{"none"}
		if d != nil {
			if e, ok := w.takeCompletion(d, 0); ok {
				if w.submit(e) {
					first = []string{"applied"}
				} else {
					first = []string{"dropped"}
				}
			}
		}
	case op[1] == "tick" && len(op) == 2:
		before := [c17NTor]bool{}
		for i := range before {
			before[i] = w.ctrl(i) != nil
		}
		if !w.submit(preemptionTickEvent{}) {
			first = []string{"stopped"}
			break
		}
		var dropped []string
		for i := range before {
			if before[i] && w.ctrl(i) == nil {
				dropped = append(dropped, fmt.Sprintf("h%d", i))
			}
		}
		first = []string{"dropped=" + verifh.List(dropped)}
	case op[1] == "rm" && len(op) == 3:
		i, ok := c17Tor(op[2])
		if !ok {
			return false
		}
		errc := make(chan error, 1)
		if !w.submit(removeTorrentEvent{w.blobs[i].digest, errc}) {
			first = []string{"stopped"}
		} else if err := <-errc; err != nil {
			first = []string{"err"}
		} else {
			first = []string{"ok"}
		}
	case op[1] == "stop" && len(op) == 2:
		if w.submit(shutdownEvent{}) {
			first = []string{"ok"}
		} else {
			first = []string{"stopped"}
		}
	default:
		return false
	}
	r.noteDispatchers()
	r.drain(*tors)
	r.tr.Op(rec, append(first, r.sends())...)
	r.status()
	return true
}

func c17Exec(tr *verifh.T, c verifh.Case) {
	sttl, lttl := int64(10), int64(10)
	for _, t := range c.Cfg {
		kv := strings.SplitN(t, "=", 2)
		if len(kv) != 2 {
			continue
		}
		n, err := strconv.ParseInt(kv[1], 10, 64)
		if err != nil {
			continue
		}
		switch kv[0] {
		case "sttl":
			sttl = n
		case "lttl":
			lttl = n
		}
	}
	if sttl < 1 || lttl < 1 {
		return
	}
	w := vWorldFor(time.Duration(sttl), time.Duration(lttl), 1, c17NTor)
	r := &c17Run{w: w, tr: tr, gens: map[*dispatch.Dispatcher]int{}, missing: vBlobFor(7, 1)}
	tr.Cfg(fmt.Sprintf("sttl=%d", sttl), fmt.Sprintf("lttl=%d", lttl))
	var tors []int
	run := func(op []string) bool {
		if p := verifh.Protect(func() { r.do(op, &tors) }); p != "" {
			tr.PropFail("panic", verifh.Str(p))
			return false
		}
		return true
	}
	okSoFar := true
	for _, op := range c.Ops {
		if len(op) >= 2 && op[0] == "op" && (op[1] == "fin") {
			continue
		}
		if !run(op) {
			okSoFar = false
			break
		}
	}
	if okSoFar {
		// epilogue: bring the scheduler to rest (apply every pending notice, then stop it); after that
		// every download request must have exactly one result.
		for _, n := range r.pendingNotices() {
			parts := strings.SplitN(n, "g", 2)
			run([]string{"op", "notice", parts[0], "g" + parts[1]})
		}
		run([]string{"op", "stop"})
		var answered []string
		for wid, g := range r.got {
			answered = append(answered, fmt.Sprintf("w%d:%d", wid, len(g)))
			if len(g) == 0 {
				tr.PropFail("waiter-never-answered", fmt.Sprintf("w%d", wid), "torrent="+fmt.Sprint(tors[wid]))
			}
		}
		tr.Rec("fin", nil, []string{"answered=" + verifh.List(answered)})
	}
	tr.End()
}

func c17Cfg(sttl, lttl int) []string {
	return []string{fmt.Sprintf("sttl=%d", sttl), fmt.Sprintf("lttl=%d", lttl)}
}

func TestVerif_C17(t *testing.T) {
	tr := verifh.Open(c17Machine)
	defer tr.Close()
	defer vCloseWorlds()
	cases, replayOnly := verifh.InputCases(c17Machine)
	for _, c := range cases {
		c17Exec(tr, c)
		tr.Count("corpus_or_replay_cases", 1)
	}
	if replayOnly {
		return
	}
	// (a) bounded-exhaustive: every schedule up to a depth over these letters (6 in quick, 9 in thorough; idle limits 5 ns, the
	// "idle" letter advances the clock past both limits and ticks)
	letters := [][][]string{
		{{"op", "req", "h0"}},
		{{"op", "finish", "h0"}},
		{{"op", "notice", "h0", "g*"}},
		{{"op", "adv", "5"}, {"op", "tick"}},
		{{"op", "rm", "h0"}},
		{{"op", "stop"}},
	}
	if verifh.Thorough() {
		letters = append(letters, [][]string{{"op", "req", "h1"}}, [][]string{{"op", "finish", "h1"}},
			[][]string{{"op", "notice", "h1", "g*"}})
	}
	depth := verifh.Scale(4, 5)
	var rec func(prefix [][]string, d int)
	rec = func(prefix [][]string, d int) {
		if d == 0 {
			c17Exec(tr, verifh.Case{Cfg: c17Cfg(5, 5), Ops: prefix})
			tr.Count("exhaustive_cases", 1)
			return
		}
		for _, l := range letters {
			rec(append(prefix[:len(prefix):len(prefix)], l...), d-1)
		}
	}
	for d := 1; d <= depth; d++ {
		rec(nil, d)
	}
	// (b) random long schedules over two torrents + an unknown blob, with separate idle limits
	rnd := verifh.NewRand(verifh.Seed(), "c17")
	for n := 0; n < verifh.Scale(300, 15000); n++ {
		sttl, lttl := 1+rnd.Intn(6), 1+rnd.Intn(6)
		var ops [][]string
		steps := 4 + rnd.Intn(30)
		for j := 0; j < steps; j++ {
			h := fmt.Sprintf("h%d", rnd.Intn(c17NTor))
			var o []string
			switch x := rnd.Intn(100); {
			case x < 25:
				o = []string{"op", "req", h}
			case x < 28:
				o = []string{"op", "req", "hx"}
			case x < 45:
				o = []string{"op", "finish", h}
			case x < 62:
				o = []string{"op", "notice", h, "g*"}
			case x < 74:
				o = []string{"op", "adv", strconv.Itoa([]int{0, 1, 2, sttl, lttl, sttl + lttl}[rnd.Intn(6)])}
			case x < 88:
				o = []string{"op", "tick"}
			case x < 97:
				o = []string{"op", "rm", h}
			default:
				o = []string{"op", "stop"}
			}
			ops = append(ops, o)
			tr.Count("random_op_"+o[1], 1)
		}
		if n < 2 {
			tr.Sample(fmt.Sprint(c17Cfg(sttl, lttl), ops))
		}
		c17Exec(tr, verifh.Case{Cfg: c17Cfg(sttl, lttl), Ops: ops})
		tr.Count("random_cases", 1)
	}
}

func c17Tor(tok string) (int, bool) {
	if !strings.HasPrefix(tok, "h") {
		return 0, false
	}
	i, err := strconv.Atoi(tok[1:])
	if err != nil || i < 0 || i >= c17NTor {
		return 0, false
	}
	return i, true
}
