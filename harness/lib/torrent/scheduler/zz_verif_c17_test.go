//go:build verif

package scheduler

// C17 harness: schedules of download requests, torrent completion (last piece written by the
// dispatcher's goroutine), the asynchronous completion notice, idle preemption ticks, manual
// removal and shutdown, executed on the real scheduler state. The recording event loop holds the
// dispatcher's completion notice until the schedule says it is applied, so the window between
// "torrent complete" and "completion event applied" is forced to overlap with every other event.
//
// A download request is a real call of scheduler.Download on its own goroutine: the caller's half
// (CreateTorrent, handing newTorrentEvent to the event loop, the error mapping, the wait on the result
// channel) is the real code. The recording event loop holds the newTorrentEvent until the schedule applies
// it (`req` = create and apply at once, `creq` / `apply` = split); when it is applied, the event's result
// channel is swapped for one the harness reads, so that EVERY value the scheduler sends is observed, and the
// first one is passed on to the real channel, after which the real Download must return (with that result).

import (
	"fmt"
	"net"
	"sort"
	"strconv"
	"strings"
	"sync"
	"testing"
	"time"

	"github.com/uber-go/tally"
	"github.com/uber/kraken/core"
	"github.com/uber/kraken/gen/go/proto/p2p"
	"github.com/uber/kraken/lib/store"
	"github.com/uber/kraken/lib/torrent/networkevent"
	"github.com/uber/kraken/lib/torrent/scheduler/announcequeue"
	"github.com/uber/kraken/lib/torrent/scheduler/conn"
	"github.com/uber/kraken/lib/torrent/scheduler/dispatch"
	"github.com/uber/kraken/lib/torrent/storage/agentstorage"
	"github.com/uber/kraken/lib/torrent/storage/piecereader"
	"github.com/uber/kraken/tracker/announceclient"
	"github.com/uber/kraken/tracker/metainfoclient"
	"github.com/uber/kraken/utils/log"
	"github.com/uber/kraken/utils/verifh"
	"github.com/willf/bitset"
)

const c17Machine = "sched"
const c17NTor = 2

type c17Run struct {
	w       *vWorld
	tr      *verifh.T
	errcs   []chan error // waiter id -> the channel the scheduler's events send to (harness-owned)
	got     [][]string   // waiter id -> every result delivered so far
	reqs    []*c17Req    // waiter id -> the real Download call
	gens    map[*dispatch.Dispatcher]int
	disps   []*dispatch.Dispatcher
	missing *vBlob
	nInc    int
	evicted [c17NTor]bool // the blob of the torrent was evicted from the cache since it last became complete
	pending []string      // sends of the current operation
	curOp   string        // kind of the operation being executed
	// a piece writer parked inside agentstorage's WritePiece (between marking its piece complete and counting it)
	parked [c17NTor]*c17Parked
	early  map[*dispatch.Dispatcher]bool // its completion notice was seen before the blob was committed
}

type c17Parked struct {
	release chan struct{}
	a, b    *vPeer
	d       *dispatch.Dispatcher
}

func c17PieceMsg(b *vBlob, pi int) *conn.Message {
	data := append([]byte(nil), b.piece(pi)...)
	return &conn.Message{Message: &p2p.Message{Type: p2p.Message_PIECE_PAYLOAD,
		PiecePayload: &p2p.PiecePayloadMessage{Index: int32(pi), Offset: 0, Length: int32(len(data))}},
		Payload: piecereader.NewBuffer(data)}
}

// c17Req is one real Download call.
type c17Req struct {
	tor     int
	done    chan error       // what Download returned
	ev      *newTorrentEvent // its event while it waits in the loop's queue (nil once applied)
	real    chan error       // the result channel doDownload waits on
	fwd     bool             // a result was passed on to it
	retd    bool             // Download has returned
	created bool
	// the request was split (creq … apply) and the torrent object its CreateTorrent made was complete
	staleComplete bool
}

func c17Class(err error) string {
	switch err {
	case nil:
		return "ok"
	case ErrTorrentTimeout:
		return "timeout"
	case ErrTorrentRemoved:
		return "removed"
	case ErrSchedulerStopped:
		return "stopped"
	case ErrTorrentNotFound:
		return "notfound"
	}
	return "err"
}

func (r *c17Run) deliver(wid int, class string, i int) {
	ca := i >= 0 && r.w.exists(r.w.cads.Cache(), i)
	r.got[wid] = append(r.got[wid], class)
	r.pending = append(r.pending, fmt.Sprintf("w%d:%s:%s", wid, class, verifh.Bool(ca)))
	if class == "ok" && !ca {
		// two situations are known findings with their own keys; anything else is a plain violation
		// (each known key is tied to its own history: the stale-object one to the application of the event of a
		// request whose CreateTorrent saw the blob cached; the eviction one to the waiters of a completed torrent being
		// answered — by its completion notice or by its idle removal — after the eviction. An `ok` for an evicted blob from a request's own event — e.g. the complete-control fast path — is
		// neither.)
		key := "success-without-blob"
		if q := r.reqs[wid]; q != nil && q.staleComplete && r.curOp == "apply" {
			key = "success-from-stale-torrent-object"
		} else if i >= 0 && r.evicted[i] && (r.curOp == "notice" || r.curOp == "tick") {
			key = "success-after-eviction"
		}
		r.tr.PropFail(key, fmt.Sprintf("w%d", wid))
	}
	if len(r.got[wid]) == 2 {
		r.tr.PropFail("waiter-answered-twice", fmt.Sprintf("w%d", wid), strings.Join(r.got[wid], "+"))
	}
}

// drain records everything that was sent to the waiters' channels since the last call; the first value of
// a request is passed on to the real Download call, which must then return that very result.
func (r *c17Run) drain(tors []int) {
	for wid, c := range r.errcs {
		if c == nil {
			continue
		}
		for more := true; more; {
			select {
			case err := <-c:
				r.deliver(wid, c17Class(err), tors[wid])
				if q := r.reqs[wid]; q != nil && !q.fwd {
					q.fwd = true
					q.real <- err
					r.awaitReturn(wid, c17Class(err))
				}
			default:
				more = false
			}
		}
	}
}

// awaitReturn waits for the real Download call of request wid to return and checks what it returned.
func (r *c17Run) awaitReturn(wid int, want string) {
	q := r.reqs[wid]
	select {
	case err := <-q.done:
		q.retd = true
		if got := c17Class(err); got != want {
			r.tr.PropFail("download-returned-other", fmt.Sprintf("w%d", wid), "sent="+want, "returned="+got)
		}
	case <-time.After(10 * time.Second):
		r.tr.PropFail("download-never-returned", fmt.Sprintf("w%d", wid), "after="+want)
	}
}

// create starts a real Download call for torrent i (or the unknown blob, i < 0) and waits until it either
// returned (not found, scheduler stopped, …) or handed its newTorrentEvent to the event loop.
func (r *c17Run) create(i int, tors *[]int) int {
	w := r.w
	wid := len(r.errcs)
	d := r.missing.digest
	if i >= 0 {
		d = w.blobs[i].digest
	}
	q := &c17Req{tor: i, done: make(chan error, 1), created: true}
	r.errcs = append(r.errcs, make(chan error, 4))
	r.got = append(r.got, nil)
	r.reqs = append(r.reqs, q)
	*tors = append(*tors, i)
	go func() { q.done <- w.sched.Download(vNamespace, d) }()
	deadline := time.Now().Add(10 * time.Second)
	for {
		select {
		case err := <-q.done:
			// returned without an event: the result of the call is the result of the request
			q.retd, q.fwd = true, true
			r.deliver(wid, c17Class(err), i)
			return wid
		default:
		}
		if e, ok := w.loop.take(func(e event) bool {
			ne, ok := e.(newTorrentEvent)
			return ok && ne.torrent.Digest() == d
		}, 0); ok {
			ne := e.(newTorrentEvent)
			q.ev, q.real = &ne, ne.errc
			return wid
		}
		if time.Now().After(deadline) {
			panic("harness: Download neither returned nor sent its event")
		}
		time.Sleep(20 * time.Microsecond)
	}
}

// applyReq lets the event loop apply the newTorrentEvent of request wid (a stopped loop refuses it:
// the caller's send fails and Download returns "stopped").
func (r *c17Run) applyReq(wid int) string {
	w := r.w
	q := r.reqs[wid]
	if q == nil || q.ev == nil {
		return "none"
	}
	ev := newTorrentEvent{q.ev.namespace, q.ev.torrent, r.errcs[wid]}
	q.ev = nil
	if !w.submit(ev) {
		r.errcs[wid] <- ErrSchedulerStopped
		return "refused"
	}
	return "applied"
}

func (r *c17Run) sends() string {
	s := "sends=" + verifh.List(r.pending)
	r.pending = nil
	return s
}

// noteDispatchers numbers dispatchers in creation order and waits until the completion notice of a
// dispatcher that is complete has reached the event loop's queue.
func (r *c17Run) noteDispatchers() {
	for i := 0; i < c17NTor; i++ {
		ctrl := r.w.ctrl(i)
		if ctrl == nil {
			continue
		}
		if _, ok := r.gens[ctrl.dispatcher]; !ok {
			r.gens[ctrl.dispatcher] = len(r.disps)
			r.disps = append(r.disps, ctrl.dispatcher)
		}
	}
}

func (r *c17Run) awaitNotice(d *dispatch.Dispatcher) {
	if r.w.loop.isStopped() {
		// the real send returns false once the loop is stopped; nothing to wait for
		time.Sleep(200 * time.Microsecond)
		return
	}
	ok := r.w.loop.waitFor(func(e event) bool {
		ce, ok := e.(dispatcherCompleteEvent)
		return ok && ce.dispatcher == d
	}, 5*time.Second)
	if !ok {
		panic("harness: completion notice did not arrive")
	}
}

func (r *c17Run) pendingNotices() []string {
	var out []string
	r.w.loop.mu.Lock()
	defer r.w.loop.mu.Unlock()
	for _, e := range r.w.loop.q {
		if ce, ok := e.(dispatcherCompleteEvent); ok {
			if g, ok := r.gens[ce.dispatcher]; ok {
				out = append(out, fmt.Sprintf("h%dg%d", r.torOf(ce.dispatcher), g))
			}
		}
	}
	sort.Strings(out)
	return out
}

func (r *c17Run) torOf(d *dispatch.Dispatcher) int {
	for i, b := range r.w.blobs {
		if b.mi.InfoHash() == d.InfoHash() {
			return i
		}
	}
	return -1
}

func (r *c17Run) status() {
	w := r.w
	var obs []string
	for i := 0; i < c17NTor; i++ {
		ctrl := w.ctrl(i)
		if ctrl == nil {
			obs = append(obs, fmt.Sprintf("h%d=-", i))
			continue
		}
		var ws []string
		for _, c := range ctrl.errors {
			id := "?"
			for wid, x := range r.errcs {
				if x == c {
					id = fmt.Sprintf("w%d", wid)
				}
			}
			ws = append(ws, id)
		}
		wl := strings.Join(ws, "+")
		if wl == "" {
			wl = "-"
		}
		obs = append(obs, fmt.Sprintf("h%d=g%d:c%s:%s", i, r.gens[ctrl.dispatcher], verifh.Bool(ctrl.dispatcher.Complete()), wl))
	}
	ca := ""
	for i := 0; i < c17NTor; i++ {
		ca += verifh.Bool(w.exists(w.cads.Cache(), i))
	}
	var pc []string
	for wid, q := range r.reqs {
		if q != nil && q.ev != nil {
			pc = append(pc, fmt.Sprintf("w%d", wid))
		}
	}
	notices := r.pendingNotices()
	obs = append(obs, "n="+verifh.List(notices), "stopped="+verifh.Bool(w.loop.isStopped()), "ca="+ca, "pc="+verifh.List(pc))
	r.tr.Rec("st", nil, obs)
	// at rest (every event applied, and stopped or nothing in progress and no notice in flight) every request
	// made so far must have exactly one result and its Download must have returned
	rest := len(pc) == 0
	if rest && !w.loop.isStopped() {
		rest = len(notices) == 0
		for i := 0; i < c17NTor && rest; i++ {
			if ctrl := w.ctrl(i); ctrl != nil && !ctrl.dispatcher.Complete() {
				rest = false
			}
		}
	}
	if rest {
		for wid, g := range r.got {
			if len(g) == 0 {
				r.tr.PropFail("waiter-unanswered-at-rest", fmt.Sprintf("w%d", wid))
			} else if q := r.reqs[wid]; q != nil && !q.retd {
				r.tr.PropFail("download-never-returned", fmt.Sprintf("w%d", wid))
			}
		}
	}
}

func (r *c17Run) do(op []string, tors *[]int) bool {
	w := r.w
	if len(op) < 2 || op[0] != "op" {
		return false
	}
	rec := op[1:]
	var first []string
	switch op[1] {
	case "rm", "tick", "stop", "evict", "finish", "req", "creq":
		// a parked writer goes on first (as its own, recorded operation): these events remove or replace what it writes
		// to (and a CreateTorrent in that window finds every piece marked complete and commits the blob itself)
		for i := range r.parked {
			if r.parked[i] != nil {
				r.do([]string{"op", "rfinish", fmt.Sprintf("h%d", i)}, tors)
			}
		}
	}
	r.curOp = op[1]
	switch {
	case op[1] == "adv" && len(op) == 3:
		n, err := strconv.ParseInt(op[2], 10, 64)
		if err != nil || n < 0 || n > 1000000 {
			return false
		}
		w.clk.advance(time.Duration(n))
	case (op[1] == "req" || op[1] == "creq") && len(op) == 3:
		i := -1
		if op[2] != "hx" {
			var ok bool
			if i, ok = c17Tor(op[2]); !ok {
				return false
			}
		}
		wid := r.create(i, tors)
		first = []string{fmt.Sprintf("w%d", wid)}
		if q := r.reqs[wid]; op[1] == "creq" && q.ev != nil && q.ev.torrent.Complete() {
			q.staleComplete = true
		}
		if op[1] == "req" {
			nd := len(r.disps)
			r.applyReq(wid)
			r.noteDispatchers()
			if i >= 0 {
				if ctrl := w.ctrl(i); ctrl != nil && len(r.disps) > nd && ctrl.dispatcher.Complete() {
					r.awaitNotice(ctrl.dispatcher) // dispatch.New on a cached blob sends the notice right away
				}
			}
		}
	case op[1] == "apply" && len(op) == 3:
		if !strings.HasPrefix(op[2], "w") {
			return false
		}
		if op[2] == "w*" || op[2] == "w^" { // generator shorthand: the oldest / newest request whose event waits
			pick := -1
			for wid, q := range r.reqs {
				if q != nil && q.ev != nil && (pick < 0 || op[2] == "w^") {
					pick = wid
				}
			}
			if pick < 0 {
				return false
			}
			op = []string{"op", "apply", fmt.Sprintf("w%d", pick)}
			rec = op[1:]
		}
		wid, err := strconv.Atoi(op[2][1:])
		if err != nil || wid < 0 {
			return false
		}
		if wid >= len(r.reqs) {
			first = []string{"none"}
			break
		}
		nd := len(r.disps)
		first = []string{r.applyReq(wid)}
		r.noteDispatchers()
		if i := r.reqs[wid].tor; i >= 0 {
			if ctrl := w.ctrl(i); ctrl != nil && len(r.disps) > nd && ctrl.dispatcher.Complete() {
				r.awaitNotice(ctrl.dispatcher)
			}
		}
	case op[1] == "evict" && len(op) == 3:
		i, ok := c17Tor(op[2])
		if !ok {
			return false
		}
		first = []string{"none"}
		if w.exists(w.cads.Cache(), i) {
			if err := w.cads.Cache().DeleteFile(w.blobs[i].digest.Hex()); err != nil {
				panic(err)
			}
			first = []string{"evicted"}
			r.evicted[i] = true
		}
	case op[1] == "inc" && len(op) == 3:
		// a remote peer connects for torrent i: addIncomingConn creates a control without any waiter
		i, ok := c17Tor(op[2])
		if !ok {
			return false
		}
		if w.loop.isStopped() {
			first = []string{"stopped"}
			break
		}
		if !w.exists(w.cads.Any(), i) {
			if _, err := w.createTorrent(i, 0); err != nil {
				panic(err)
			}
		}
		r.nInc++
		id, err := core.HashedPeerID(fmt.Sprintf("verif-c17-inc-%d", r.nInc))
		if err != nil {
			panic(err)
		}
		bf, _ := bitset.New(uint(w.np)).MarshalBinary()
		nd := len(r.disps)
		in := w.incoming(id, i, w.blobs[i].mi.InfoHash(), bf)
		first = []string{in.res}
		r.noteDispatchers()
		if ctrl := w.ctrl(i); ctrl != nil && len(r.disps) > nd && ctrl.dispatcher.Complete() {
			r.awaitNotice(ctrl.dispatcher)
		}
		if in.res == "active" || in.res == "connrejected" {
			if in.res == "active" {
				in.remote.Close()
			}
			if e, ok := w.loop.take(func(e event) bool {
				ce, ok := e.(connClosedEvent)
				return ok && ce.c == in.c
			}, 10*time.Second); ok {
				e.apply(w.st)
			} else {
				panic("harness: no ConnClosed event")
			}
		}
	case op[1] == "finish" && len(op) == 3:
		i, ok := c17Tor(op[2])
		if !ok {
			return false
		}
		res := "absent"
		if ctrl := w.ctrl(i); ctrl != nil {
			was := ctrl.dispatcher.Complete()
			for pi := 0; pi < w.np; pi++ {
				res = w.deliverPiece(i, pi, true)
			}
			switch {
			case was:
				res = "dup"
			case ctrl.dispatcher.Complete():
				res = "ok"
			default:
				res = "invalid"
			}
		}
		first = []string{res}
		if res == "ok" {
			r.evicted[i] = false
			r.awaitNotice(w.ctrl(i).dispatcher)
		}
	case op[1] == "pfinish" && len(op) == 3:
		// the last two pieces are written concurrently by two peers: writer A is parked inside WritePiece after it
		// marked its piece complete and before it counted it (agentstorage VerifPoint inc_num_complete); writer B
		// then runs to the end: it must not find the torrent complete — nothing is committed yet.
		i, ok := c17Tor(op[2])
		if !ok || w.np < 2 {
			return false
		}
		first = []string{"none"}
		ctrl := w.ctrl(i)
		if ctrl == nil || ctrl.dispatcher.Complete() || r.parked[i] != nil || w.loop.isStopped() {
			break
		}
		if !w.exists(w.cads.Download(), i) {
			first = []string{"invalid"} // stale torrent object: its download file was deleted
			break
		}
		bf := ctrl.dispatcher.Stat().Bitfield()
		if bf.Test(uint(w.np-2)) || bf.Test(uint(w.np-1)) {
			break
		}
		for pi := 0; pi < w.np-2; pi++ {
			w.deliverPiece(i, pi, true)
		}
		pk := &c17Parked{release: make(chan struct{}), d: ctrl.dispatcher}
		reached := make(chan struct{}, 1)
		var once sync.Once
		agentstorage.VerifPoint = func(pt string) {
			if pt != "inc_num_complete" {
				return
			}
			hit := false
			once.Do(func() { hit = true })
			if hit {
				reached <- struct{}{}
				<-pk.release
			}
		}
		pk.a = w.peer(i)
		pk.a.push(c17PieceMsg(w.blobs[i], w.np-2))
		select {
		case <-reached:
		case <-time.After(5 * time.Second):
			panic("harness: the piece writer did not reach the parking point")
		}
		agentstorage.VerifPoint = nil
		w.npeers++
		pk.b = newVPeer(w.npeers)
		if err := ctrl.dispatcher.AddPeer(pk.b.id, false, bitset.New(uint(w.np)), pk.b); err != nil {
			panic(err)
		}
		pk.b.roundTrip(c17PieceMsg(w.blobs[i], w.np-1))
		pk.b.drainSent()
		r.parked[i] = pk
		first = []string{"parked"}
		// the completion notice is enabled only by the commit: none may be on its way now
		if w.loop.waitFor(func(e event) bool {
			ce, ok := e.(dispatcherCompleteEvent)
			return ok && ce.dispatcher == pk.d
		}, 20*time.Millisecond) && !pk.d.Complete() {
			r.tr.PropFail("completion-notice-before-commit", op[2])
			r.early[pk.d] = true
		}
	case op[1] == "rfinish" && len(op) == 3:
		// the parked writer goes on: counts its piece, commits the blob to the cache, the torrent is complete
		i, ok := c17Tor(op[2])
		if !ok {
			return false
		}
		first = []string{"none"}
		pk := r.parked[i]
		if pk == nil {
			break
		}
		r.parked[i] = nil
		close(pk.release)
		pk.a.push(&conn.Message{Message: &p2p.Message{Type: p2p.Message_CANCEL_PIECE, CancelPiece: &p2p.CancelPieceMessage{}}})
		pk.b.Close()
		pk.b.recvOnce.Do(func() { close(pk.b.recv) })
		first = []string{"invalid"}
		if pk.d.Complete() {
			first = []string{"ok"}
			r.evicted[i] = false
			if !r.early[pk.d] {
				r.awaitNotice(pk.d)
			}
		}
	case op[1] == "notice" && len(op) == 4:
		i, ok := c17Tor(op[2])
		if !ok || !strings.HasPrefix(op[3], "g") {
			return false
		}
		var d *dispatch.Dispatcher
		if op[3] == "g*" || op[3] == "g^" { // generator shorthand: the oldest / newest pending notice of this torrent
			order := append([]*dispatch.Dispatcher(nil), r.disps...)
			if op[3] == "g^" {
				for a, b := 0, len(order)-1; a < b; a, b = a+1, b-1 {
					order[a], order[b] = order[b], order[a]
				}
			}
			for _, x := range order {
				if r.torOf(x) == i && w.loop.waitFor(func(e event) bool {
					ce, ok := e.(dispatcherCompleteEvent)
					return ok && ce.dispatcher == x
				}, 0) {
					d = x
					break
				}
			}
			if d == nil {
				return false
			}
			rec = []string{"notice", op[2], fmt.Sprintf("g%d", r.gens[d])}
		} else {
			g, err := strconv.Atoi(op[3][1:])
			if err != nil || g < 0 {
				return false
			}
			if g < len(r.disps) && r.torOf(r.disps[g]) == i {
				d = r.disps[g]
			}
		}
		first = []string{"none"}
		if d != nil {
			if e, ok := w.takeCompletion(d, 0); ok {
				if w.submit(e) {
					first = []string{"applied"}
				} else {
					first = []string{"dropped"}
				}
			}
		}
	case op[1] == "tick" && len(op) == 2:
		before := [c17NTor]bool{}
		for i := range before {
			before[i] = w.ctrl(i) != nil
		}
		if !w.submit(preemptionTickEvent{}) {
			first = []string{"stopped"}
			break
		}
		var dropped []string
		for i := range before {
			if before[i] && w.ctrl(i) == nil {
				dropped = append(dropped, fmt.Sprintf("h%d", i))
			}
		}
		first = []string{"dropped=" + verifh.List(dropped)}
	case op[1] == "rm" && len(op) == 3:
		i, ok := c17Tor(op[2])
		if !ok {
			return false
		}
		errc := make(chan error, 1)
		if !w.submit(removeTorrentEvent{w.blobs[i].digest, errc}) {
			first = []string{"stopped"}
		} else if err := <-errc; err != nil {
			first = []string{"err"}
		} else {
			first = []string{"ok"}
		}
	case op[1] == "stop" && len(op) == 2:
		if w.submit(shutdownEvent{}) {
			first = []string{"ok"}
		} else {
			first = []string{"stopped"}
		}
	default:
		return false
	}
	r.noteDispatchers()
	r.drain(*tors)
	r.tr.Op(rec, append(first, r.sends())...)
	r.status()
	return true
}

func c17Exec(tr *verifh.T, c verifh.Case) {
	sttl, lttl := int64(10), int64(10)
	np := 1
	for _, t := range c.Cfg {
		kv := strings.SplitN(t, "=", 2)
		if len(kv) != 2 {
			continue
		}
		n, err := strconv.ParseInt(kv[1], 10, 64)
		if err != nil {
			continue
		}
		switch kv[0] {
		case "sttl":
			sttl = n
		case "lttl":
			lttl = n
		case "np":
			np = int(n)
		}
	}
	if sttl < 1 || lttl < 1 || np < 1 || np > 4 {
		return
	}
	w := vWorldFor(time.Duration(sttl), time.Duration(lttl), np, c17NTor)
	r := &c17Run{w: w, tr: tr, gens: map[*dispatch.Dispatcher]int{}, missing: vBlobFor(7, 1), early: map[*dispatch.Dispatcher]bool{}}
	if np == 1 {
		tr.Cfg(fmt.Sprintf("sttl=%d", sttl), fmt.Sprintf("lttl=%d", lttl))
	} else {
		tr.Cfg(fmt.Sprintf("sttl=%d", sttl), fmt.Sprintf("lttl=%d", lttl), fmt.Sprintf("np=%d", np))
	}
	defer func() {
		// never leave a writer parked (the world is reused)
		agentstorage.VerifPoint = nil
		for i := range r.parked {
			if pk := r.parked[i]; pk != nil {
				close(pk.release)
				r.parked[i] = nil
			}
		}
	}()
	var tors []int
	run := func(op []string) bool {
		if p := verifh.Protect(func() { r.do(op, &tors) }); p != "" {
			tr.PropFail("panic", verifh.Str(p))
			return false
		}
		return true
	}
	okSoFar := true
	for _, op := range c.Ops {
		if len(op) >= 2 && op[0] == "op" && (op[1] == "fin") {
			continue
		}
		if !run(op) {
			okSoFar = false
			break
		}
	}
	if okSoFar {
		// epilogue: bring the scheduler to rest (apply every pending notice, then stop it); after that
		// every download request must have exactly one result.
		for i := range r.parked {
			if r.parked[i] != nil {
				run([]string{"op", "rfinish", fmt.Sprintf("h%d", i)})
			}
		}
		for wid, q := range r.reqs {
			if q != nil && q.ev != nil {
				run([]string{"op", "apply", fmt.Sprintf("w%d", wid)})
			}
		}
		for _, n := range r.pendingNotices() {
			parts := strings.SplitN(n, "g", 2)
			run([]string{"op", "notice", parts[0], "g" + parts[1]})
		}
		run([]string{"op", "stop"})
		var answered []string
		for wid, g := range r.got {
			answered = append(answered, fmt.Sprintf("w%d:%d", wid, len(g)))
			if len(g) == 0 {
				tr.PropFail("waiter-never-answered", fmt.Sprintf("w%d", wid), "torrent="+fmt.Sprint(tors[wid]))
			}
		}
		tr.Rec("fin", nil, []string{"answered=" + verifh.List(answered)})
	}
	tr.End()
}

func c17Cfg(sttl, lttl int) []string {
	return []string{fmt.Sprintf("sttl=%d", sttl), fmt.Sprintf("lttl=%d", lttl)}
}

func TestVerif_C17(t *testing.T) {
	tr := verifh.Open(c17Machine)
	defer tr.Close()
	defer vCloseWorlds()
	cases, replayOnly := verifh.InputCases(c17Machine)
	for _, c := range cases {
		c17Exec(tr, c)
		tr.Count("corpus_or_replay_cases", 1)
	}
	if replayOnly {
		return
	}
	// (a) bounded-exhaustive: every schedule up to a depth over these letters (6 in quick, 9 in thorough; idle limits 5 ns, the
	// "idle" letter advances the clock past both limits and ticks)
	letters := [][][]string{
		{{"op", "req", "h0"}},
		{{"op", "finish", "h0"}},
		{{"op", "notice", "h0", "g*"}},
		{{"op", "adv", "5"}, {"op", "tick"}},
		{{"op", "rm", "h0"}},
		{{"op", "stop"}},
	}
	if verifh.Thorough() {
		letters = append(letters, [][]string{{"op", "req", "h1"}}, [][]string{{"op", "finish", "h1"}},
			[][]string{{"op", "notice", "h1", "g*"}})
	}
	// (a2) split requests, eviction and incoming connections around completion and removal
	core2 := [][][]string{
		{{"op", "req", "h0"}}, {{"op", "creq", "h0"}}, {{"op", "apply", "w*"}}, {{"op", "finish", "h0"}},
		{{"op", "notice", "h0", "g*"}}, {{"op", "rm", "h0"}}, {{"op", "evict", "h0"}}, {{"op", "inc", "h0"}},
	}
	var rec2 func(prefix [][]string, d int)
	rec2 = func(prefix [][]string, d int) {
		if d == 0 {
			c17Exec(tr, verifh.Case{Cfg: c17Cfg(5, 5), Ops: prefix})
			tr.Count("core2_exhaustive_cases", 1)
			return
		}
		for _, l := range core2 {
			rec2(append(prefix[:len(prefix):len(prefix)], l...), d-1)
		}
	}
	for d := 1; d <= verifh.Scale(3, 5); d++ {
		rec2(nil, d)
	}
	// (a3) a completed torrent, then every 3-letter continuation over the same letters plus the idle tick
	// (eviction under a live complete control, stale torrent objects, late notices)
	core3 := append(append([][][]string{}, core2...), [][]string{{"op", "adv", "5"}, {"op", "tick"}}, [][]string{{"op", "apply", "w^"}})
	for _, withNotice := range []bool{true, false} {
		for _, l1 := range core3 {
			for _, l2 := range core3 {
				for _, l3 := range core3 {
					ops := [][]string{{"op", "req", "h0"}, {"op", "finish", "h0"}}
					if withNotice {
						ops = append(ops, []string{"op", "notice", "h0", "g*"})
					}
					ops = append(ops, l1...)
					ops = append(ops, l2...)
					ops = append(ops, l3...)
					if !verifh.Thorough() && len(ops)%3 == 0 && withNotice {
						continue // quick tier: two thirds of this stream
					}
					c17Exec(tr, verifh.Case{Cfg: c17Cfg(5, 5), Ops: ops})
					tr.Count("completed_then_cases", 1)
				}
			}
		}
	}
	depth := verifh.Scale(4, 5)
	var rec func(prefix [][]string, d int)
	rec = func(prefix [][]string, d int) {
		if d == 0 {
			c17Exec(tr, verifh.Case{Cfg: c17Cfg(5, 5), Ops: prefix})
			tr.Count("exhaustive_cases", 1)
			return
		}
		for _, l := range letters {
			rec(append(prefix[:len(prefix):len(prefix)], l...), d-1)
		}
	}
	for d := 1; d <= depth; d++ {
		rec(nil, d)
	}
	// (a4) two-piece blobs whose last two pieces are written concurrently (writer A parked between marking its piece
	// complete and counting it, writer B running to the end): the completion notice is enabled only by the commit.
	// Every 2-letter continuation over the events that could use a premature notice.
	cfg2 := append(c17Cfg(5, 5), "np=2")
	cont2 := [][][]string{
		{{"op", "notice", "h0", "g*"}}, {{"op", "req", "h0"}}, {{"op", "rfinish", "h0"}}, {{"op", "adv", "5"}, {"op", "tick"}},
		{{"op", "rm", "h0"}}, {{"op", "stop"}}, {{"op", "creq", "h0"}}, {{"op", "finish", "h0"}},
	}
	for _, first := range [][][]string{{{"op", "req", "h0"}}, {{"op", "inc", "h0"}, {"op", "req", "h0"}}, {{"op", "creq", "h0"}, {"op", "apply", "w*"}}, {{"op", "inc", "h0"}}} {
		for _, l1 := range cont2 {
			for _, l2 := range cont2 {
				ops := append(append([][]string{}, first...), []string{"op", "pfinish", "h0"})
				ops = append(ops, l1...)
				ops = append(ops, l2...)
				c17Exec(tr, verifh.Case{Cfg: cfg2, Ops: ops})
				tr.Count("concurrent_last_pieces_cases", 1)
			}
		}
	}
	// plain two-piece downloads: every schedule to depth 3 over the core letters
	core2p := [][][]string{{{"op", "req", "h0"}}, {{"op", "finish", "h0"}}, {{"op", "notice", "h0", "g*"}}, {{"op", "rm", "h0"}}, {{"op", "evict", "h0"}}}
	for _, l1 := range core2p {
		for _, l2 := range core2p {
			for _, l3 := range core2p {
				ops := append(append(append([][]string{}, l1...), l2...), l3...)
				c17Exec(tr, verifh.Case{Cfg: cfg2, Ops: ops})
				tr.Count("two_piece_cases", 1)
			}
		}
	}
	// (b) random long schedules over two torrents + an unknown blob, with separate idle limits
	rnd := verifh.NewRand(verifh.Seed(), "c17")
	for n := 0; n < verifh.Scale(300, 15000); n++ {
		sttl, lttl := 1+rnd.Intn(6), 1+rnd.Intn(6)
		var ops [][]string
		steps := 4 + rnd.Intn(30)
		for j := 0; j < steps; j++ {
			h := fmt.Sprintf("h%d", rnd.Intn(c17NTor))
			var o []string
			switch x := rnd.Intn(100); {
			case x < 6:
				o = []string{"op", "creq", h}
			case x < 12:
				o = []string{"op", "apply", rnd.Pick("w*", "w^")}
			case x < 15:
				o = []string{"op", "evict", h}
			case x < 18:
				o = []string{"op", "inc", h}
			case x < 25:
				o = []string{"op", "req", h}
			case x < 28:
				o = []string{"op", "req", "hx"}
			case x < 45:
				o = []string{"op", "finish", h}
			case x < 62:
				o = []string{"op", "notice", h, rnd.Pick("g*", "g*", "g^")}
			case x < 74:
				o = []string{"op", "adv", strconv.Itoa([]int{0, 1, 2, sttl, lttl, sttl + lttl}[rnd.Intn(6)])}
			case x < 88:
				o = []string{"op", "tick"}
			case x < 97:
				o = []string{"op", "rm", h}
			default:
				o = []string{"op", "stop"}
			}
			ops = append(ops, o)
			tr.Count("random_op_"+o[1], 1)
		}
		if n < 2 {
			tr.Sample(fmt.Sprint(c17Cfg(sttl, lttl), ops))
		}
		c17Exec(tr, verifh.Case{Cfg: c17Cfg(sttl, lttl), Ops: ops})
		tr.Count("random_cases", 1)
	}
}

func c17Tor(tok string) (int, bool) {
	if !strings.HasPrefix(tok, "h") {
		return 0, false
	}
	i, err := strconv.Atoi(tok[1:])
	if err != nil || i < 0 || i >= c17NTor {
		return 0, false
	}
	return i, true
}

// ---------------------------------------------------------------- started scheduler (machine "schedlive")

// TestVerif_C17Live runs real, started schedulers (real baseEventLoop, listener, ticker loops) — the part the
// controlled harness replaces: N concurrent Download calls (blobs that can never complete because there is no
// peer, blobs unknown to the tracker, a blob that is already cached), then Stop, then Download calls after
// Stop. Every call must return within the deadline, with the result the statement allows.
func TestVerif_C17Live(t *testing.T) {
	tr := verifh.Open("schedlive")
	defer tr.Close()
	run := func(known, missing, cached, after int) {
		cads, cleanup := store.CADownloadStoreFixture()
		defer cleanup()
		mic := metainfoclient.NewTestClient()
		ta := agentstorage.NewTorrentArchive(tally.NoopScope, cads, mic)
		blobs := []*vBlob{vBlobFor(20, 2), vBlobFor(21, 2)}
		for _, b := range blobs {
			mic.Upload(b.mi)
		}
		if cached > 0 {
			tor, err := ta.CreateTorrent(vNamespace, blobs[1].digest)
			if err != nil {
				panic(err)
			}
			for i := 0; i < tor.NumPieces(); i++ {
				if err := tor.WritePiece(piecereader.NewBuffer(blobs[1].piece(i)), i); err != nil {
					panic(err)
				}
			}
		}
		l, err := net.Listen("tcp", "localhost:0")
		if err != nil {
			panic(err)
		}
		port := l.Addr().(*net.TCPAddr).Port
		l.Close()
		pctx, err := core.NewPeerContext(core.AddrHashPeerIDFactory, "zone1", "verif", "127.0.0.1", port, false)
		if err != nil {
			panic(err)
		}
		s, err := newScheduler(Config{TorrentLog: log.Config{Disable: true}, Log: log.Config{Disable: true}},
			ta, tally.NoopScope, pctx, announceclient.Disabled(), networkevent.NewTestProducer())
		if err != nil {
			panic(err)
		}
		if err := s.start(announcequeue.New()); err != nil {
			panic(err)
		}
		type res struct {
			kind string
			err  error
		}
		results := make(chan res, 64)
		call := func(kind string, d core.Digest) {
			go func() { results <- res{kind, s.Download(vNamespace, d)} }()
		}
		for i := 0; i < known; i++ {
			call("known", blobs[0].digest)
		}
		for i := 0; i < missing; i++ {
			call("missing", vBlobFor(22, 1).digest)
		}
		for i := 0; i < cached; i++ {
			call("cached", blobs[1].digest)
		}
		// the requests for the known blob must be waiting before the scheduler is stopped
		deadline := time.Now().Add(10 * time.Second)
		got := map[string]int{}
		returned := 0
		collect := func(until int) {
			for returned < until && time.Now().Before(deadline) {
				select {
				case r := <-results:
					returned++
					got[r.kind+":"+c17Class(r.err)]++
					if r.err == nil && r.kind != "cached" {
						tr.PropFail("success-without-blob", r.kind)
					}
				case <-time.After(50 * time.Millisecond):
				}
			}
		}
		collect(missing + cached)
		time.Sleep(20 * time.Millisecond)
		s.Stop()
		for i := 0; i < after; i++ {
			call("after", blobs[0].digest)
		}
		total := known + missing + cached + after
		collect(total)
		var classes []string
		for k, v := range got {
			classes = append(classes, fmt.Sprintf("%s=%d", k, v))
		}
		hung := total - returned
		if hung > 0 {
			tr.PropFail("download-never-returned", fmt.Sprintf("hung=%d", hung))
		}
		tr.One([]string{"live", fmt.Sprintf("known=%d", known), fmt.Sprintf("missing=%d", missing), fmt.Sprintf("cached=%d", cached),
			fmt.Sprintf("after=%d", after)}, fmt.Sprintf("hung=%d", hung), verifh.SortedList(classes))
	}
	for _, c := range [][4]int{{1, 0, 0, 0}, {0, 1, 0, 0}, {0, 0, 1, 1}, {2, 1, 1, 2}, {3, 2, 0, 1}} {
		run(c[0], c[1], c[2], c[3])
	}
	if verifh.Thorough() {
		for i := 0; i < 20; i++ {
			run(1+i%4, i%3, i%2, 1+i%3)
		}
	}
}
