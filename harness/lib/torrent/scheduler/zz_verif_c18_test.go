//go:build verif

package scheduler

// C18 harness: timelines of piece serves / piece writes / clock advances / preemption ticks /
// manual removals, executed on the real scheduler state (events applied directly, mock clock) with
// real dispatchers over real agent storage. After every operation the harness records, per torrent,
// whether the scheduler still holds it, Dispatcher.LastReadTime/LastWriteTime and which files exist.
//
// Piece serves go through a real conn.Conn (its write loop closes the piece reader — that is what
// refreshes lastRead); controls are created by download requests and by connecting peers (real
// incoming handshake path, no local request); the store's eviction, the eviction branch of
// newTorrentEvent, shutdown and announce events are operations too, so that the predicates (no drop
// without timeout, no deletion of a cached blob, partial file deleted) are evaluated after them.

import (
	"errors"
	"fmt"
	"strconv"
	"strings"
	"testing"
	"time"

	"github.com/uber/kraken/core"
	"github.com/uber/kraken/gen/go/proto/p2p"
	"github.com/uber/kraken/lib/torrent/networkevent"
	"github.com/uber/kraken/lib/torrent/scheduler/conn"
	"github.com/uber/kraken/lib/torrent/scheduler/dispatch"
	"github.com/uber/kraken/lib/torrent/storage/piecereader"
	"github.com/uber/kraken/utils/verifh"
	"github.com/willf/bitset"
)

const c18Machine = "idle"
const c18NTor = 2

type c18Run struct {
	w       *vWorld
	tr      *verifh.T
	noticed map[*dispatch.Dispatcher]bool
	errcs   []chan error
	nInc    int
	stopped bool
	sttl    int64
	lttl    int64
	// monitor state (the same predicates as the Lean driver's monitor; evaluated here as well
	// because the driver stops following a case at the first model/code difference)
	prev   [c18NTor]c18Status
	serves [c18NTor][]int64
	writes [c18NTor][]int64
}

type c18Status struct{ p, c, dl, ca bool }

// check evaluates the property's predicates on the status change of torrent i caused by op.
func (r *c18Run) check(i int, op []string, cur c18Status) {
	old := r.prev[i]
	r.prev[i] = cur
	now := r.w.now()
	kind := op[1]
	dropped := old.p && !cur.p
	where := fmt.Sprintf("h%d@t=%d", i, now)
	if dropped && kind == "tick" && old.c {
		for _, t := range r.serves[i] {
			if now < t+r.sttl {
				r.tr.PropFail("seeder-dropped-while-serving", where, fmt.Sprintf("served-at=%d", t), fmt.Sprintf("limit=%d", r.sttl))
				break
			}
		}
		if old.ca && !cur.ca {
			r.tr.PropFail("idle-drop-deleted-blob", where)
		}
	}
	if dropped && kind == "tick" && !old.c {
		for _, t := range r.writes[i] {
			if now < t+r.lttl {
				r.tr.PropFail("leecher-dropped-while-receiving", where, fmt.Sprintf("received-at=%d", t), fmt.Sprintf("limit=%d", r.lttl))
				break
			}
		}
	}
	if dropped && (kind == "tick" || kind == "rm") && !old.c && cur.dl {
		r.tr.PropFail("partial-file-left", where)
	}
	if dropped && kind != "tick" && kind != "rm" {
		r.tr.PropFail("dropped-without-timeout", where, verifh.Str(strings.Join(op[1:], " ")))
	}
	if old.ca && !cur.ca && kind != "rm" && kind != "evict" && !(dropped && kind == "tick" && old.c) {
		r.tr.PropFail("cached-blob-deleted", where, verifh.Str(strings.Join(op[1:], " ")))
	}
}

func c18Tor(tok string) (int, bool) {
	if !strings.HasPrefix(tok, "h") {
		return 0, false
	}
	i, err := strconv.Atoi(tok[1:])
	if err != nil || i < 0 || i >= c18NTor {
		return 0, false
	}
	return i, true
}

func c18Piece(tok string) (int, bool) {
	if !strings.HasPrefix(tok, "p") {
		return 0, false
	}
	i, err := strconv.Atoi(tok[1:])
	if err != nil || i < 0 || i > 8 {
		return 0, false
	}
	return i, true
}

func (r *c18Run) status(op []string) {
	w := r.w
	for i := 0; i < c18NTor; i++ {
		ctrl := w.ctrl(i)
		obs := []string{"p=0", "c=-", "lr=-", "lw=-"}
		cur := c18Status{dl: w.exists(w.cads.Download(), i), ca: w.exists(w.cads.Cache(), i)}
		if ctrl != nil {
			d := ctrl.dispatcher
			cur.p, cur.c = true, d.Complete()
			obs = []string{"p=1", "c=" + verifh.Bool(d.Complete()),
				fmt.Sprintf("lr=%d", w.ns(d.LastReadTime())),
				fmt.Sprintf("lw=%d", w.ns(d.LastWriteTime()))}
		}
		obs = append(obs, "dl="+verifh.Bool(cur.dl), "ca="+verifh.Bool(cur.ca))
		r.tr.Rec("st", []string{fmt.Sprintf("h%d", i)}, obs)
		r.check(i, op, cur)
	}
}

// settle waits until the completion notice of every dispatcher that became complete has reached the
// event loop's queue (it is sent from a goroutine). The notice is NOT applied here: the schedule says
// when (`notice` operation), so that ticks and removals can fall between completion and its event.
func (r *c18Run) settle() {
	w := r.w
	for i := 0; i < c18NTor; i++ {
		ctrl := w.ctrl(i)
		if ctrl == nil || !ctrl.dispatcher.Complete() || r.noticed[ctrl.dispatcher] {
			continue
		}
		d := ctrl.dispatcher
		ok := w.loop.waitFor(func(e event) bool {
			ce, ok := e.(dispatcherCompleteEvent)
			return ok && ce.dispatcher == d
		}, 5*time.Second)
		if !ok {
			panic("harness: completion notice did not arrive")
		}
		r.noticed[d] = true
	}
}

// applyNotices applies every queued completion notice of torrent i, oldest first.
func (r *c18Run) applyNotices(i int) {
	h := r.w.blobs[i].mi.InfoHash()
	for {
		e, ok := r.w.loop.take(func(e event) bool {
			ce, ok := e.(dispatcherCompleteEvent)
			return ok && ce.dispatcher.InfoHash() == h
		}, 0)
		if !ok {
			return
		}
		e.apply(r.w.st)
	}
}

func (r *c18Run) do(op []string) bool {
	w := r.w
	if len(op) < 2 || op[0] != "op" {
		return false
	}
	switch {
	case op[1] == "adv" && len(op) == 3:
		n, err := strconv.ParseInt(op[2], 10, 64)
		if err != nil || n < 0 || n > 1000000 {
			return false
		}
		w.clk.advance(time.Duration(n))
		r.tr.Op(op[1:])
	case op[1] == "new" && len(op) == 4:
		i, ok := c18Tor(op[2])
		k, err := strconv.Atoi(op[3])
		if !ok || err != nil || k < 0 || k > 8 {
			return false
		}
		t, cerr := w.createTorrent(i, k)
		if cerr != nil {
			r.tr.Op(op[1:], "createerr")
			break
		}
		before := w.ctrl(i)
		errc := make(chan error, 8)
		r.errcs = append(r.errcs, errc)
		newTorrentEvent{vNamespace, t, errc}.apply(w.st)
		if w.ctrl(i) != before {
			w.tors[i] = t // the new dispatcher wraps this torrent object
		}
		select {
		case err := <-errc:
			if err == nil {
				r.tr.Op(op[1:], "done")
			} else {
				r.tr.Op(op[1:], "err")
			}
		default:
			r.tr.Op(op[1:], "waiting")
		}
	case op[1] == "serve" && len(op) == 5:
		i, ok := c18Tor(op[2])
		pi, ok2 := c18Piece(op[3])
		if !ok || !ok2 || (op[4] != "ok" && op[4] != "egress" && op[4] != "closefail") {
			return false
		}
		res := w.servePiece(i, pi, op[4])
		if strings.HasPrefix(res, "sent") && op[4] != "closefail" {
			r.serves[i] = append(r.serves[i], w.now())
		}
		if res == "sent-unclosed" {
			// the payload was handed to the connection and nobody closed its reader: the serve is not counted
			r.tr.PropFail("served-piece-reader-not-closed", fmt.Sprintf("h%d", i), op[4])
		}
		if res == "sent-garbled" {
			r.tr.PropFail("served-piece-garbled", fmt.Sprintf("h%d", i), op[4])
		}
		r.tr.Op(op[1:], res)
	case op[1] == "lost" && len(op) == 4:
		// the peer's connection is gone when the dispatcher answers: Send fails, the reader is never closed
		i, ok := c18Tor(op[2])
		pi, ok2 := c18Piece(op[3])
		if !ok || !ok2 {
			return false
		}
		switch res := w.servePiece(i, pi, "lost"); res {
		case "absent", "rejected":
			r.tr.Op(op[1:], res)
		case "nothing":
			r.tr.Op(op[1:])
		default:
			r.tr.Op(op[1:], "unexpected-"+res)
		}
	case op[1] == "peer" && len(op) == 4:
		// a remote peer connects for torrent i (real handshake path → incomingConnEvent → addIncomingConn);
		// without a control the scheduler opens whatever is on disk: the cached blob, or a download file
		// (created here, with k pieces, when there is none — as an earlier Download's CreateTorrent leaves it)
		i, ok := c18Tor(op[2])
		k, err := strconv.Atoi(op[3])
		if !ok || err != nil || k < 0 || k > 8 {
			return false
		}
		if w.ctrl(i) == nil && !w.exists(w.cads.Any(), i) {
			if _, err := w.createTorrent(i, k); err != nil {
				panic(err)
			}
		}
		r.nInc++
		id, err := core.HashedPeerID(fmt.Sprintf("verif-c18-peer-%d", r.nInc))
		if err != nil {
			panic(err)
		}
		bf, _ := bitset.New(uint(w.np)).MarshalBinary()
		in := w.incoming(id, i, w.blobs[i].mi.InfoHash(), bf)
		if in.res == "active" || in.res == "connrejected" {
			if in.res == "active" {
				in.remote.Close()
			}
			if e, ok := w.loop.take(func(e event) bool {
				ce, ok := e.(connClosedEvent)
				return ok && ce.c == in.c
			}, 10*time.Second); ok {
				e.apply(w.st)
			} else {
				panic("harness: no ConnClosed event")
			}
		}
		r.tr.Op(op[1:])
	case op[1] == "evict" && len(op) == 3:
		// the store's cleanup deletes the cached blob
		i, ok := c18Tor(op[2])
		if !ok {
			return false
		}
		if w.exists(w.cads.Cache(), i) {
			if err := w.cads.Cache().DeleteFile(w.blobs[i].digest.Hex()); err != nil {
				panic(err)
			}
			r.tr.Op(op[1:], "ok")
		} else {
			r.tr.Op(op[1:], "absent")
		}
	case op[1] == "aerr" && len(op) == 3:
		i, ok := c18Tor(op[2])
		if !ok {
			return false
		}
		announceErrEvent{w.blobs[i].mi.InfoHash(), errors.New("verif: announce failed")}.apply(w.st)
		r.tr.Op(op[1:])
	case op[1] == "ares" && len(op) == 3:
		i, ok := c18Tor(op[2])
		if !ok {
			return false
		}
		announceResultEvent{w.blobs[i].mi.InfoHash(), nil}.apply(w.st)
		r.tr.Op(op[1:])
	case op[1] == "stop" && len(op) == 2:
		// shutdown; the case ends here (nothing is applied to a stopped scheduler)
		shutdownEvent{}.apply(w.st)
		r.stopped = true
		r.tr.Op(op[1:])
	case op[1] == "write" && len(op) == 5:
		i, ok := c18Tor(op[2])
		pi, ok2 := c18Piece(op[3])
		if !ok || !ok2 || (op[4] != "good" && op[4] != "bad") {
			return false
		}
		res := w.deliverPiece(i, pi, op[4] == "good")
		if res == "ok" {
			r.writes[i] = append(r.writes[i], w.now())
		}
		r.tr.Op(op[1:], res)
	case op[1] == "tick" && len(op) == 2:
		preemptionTickEvent{}.apply(w.st)
		r.tr.Op(op[1:])
	case op[1] == "notice" && len(op) == 3:
		i, ok := c18Tor(op[2])
		if !ok {
			return false
		}
		r.applyNotices(i)
		r.tr.Op(op[1:])
	case op[1] == "rm" && len(op) == 3:
		i, ok := c18Tor(op[2])
		if !ok {
			return false
		}
		errc := make(chan error, 1)
		removeTorrentEvent{w.blobs[i].digest, errc}.apply(w.st)
		if err := <-errc; err != nil {
			r.tr.Op(op[1:], "err")
		} else {
			r.tr.Op(op[1:], "ok")
		}
	default:
		return false
	}
	r.settle()
	r.status(op)
	return true
}

func c18Exec(tr *verifh.T, c verifh.Case) {
	sttl, lttl, np := int64(10), int64(12), 2
	for _, t := range c.Cfg {
		kv := strings.SplitN(t, "=", 2)
		if len(kv) != 2 {
			continue
		}
		n, err := strconv.ParseInt(kv[1], 10, 64)
		if err != nil {
			continue
		}
		switch kv[0] {
		case "sttl":
			sttl = n
		case "lttl":
			lttl = n
		case "np":
			np = int(n)
		}
	}
	if sttl < 1 || lttl < 1 || np < 1 || np > 8 {
		return
	}
	w := vWorldFor(time.Duration(sttl), time.Duration(lttl), np, c18NTor)
	r := &c18Run{w: w, tr: tr, noticed: map[*dispatch.Dispatcher]bool{}, sttl: sttl, lttl: lttl}
	tr.Cfg(fmt.Sprintf("sttl=%d", sttl), fmt.Sprintf("lttl=%d", lttl), fmt.Sprintf("np=%d", np))
	for _, op := range c.Ops {
		op := op
		if p := verifh.Protect(func() { r.do(op) }); p != "" {
			tr.PropFail("panic", verifh.Str(p))
			break
		}
		if r.stopped {
			break
		}
	}
	tr.End()
}

func c18Cfg(sttl, lttl, np int) []string {
	return []string{fmt.Sprintf("sttl=%d", sttl), fmt.Sprintf("lttl=%d", lttl), fmt.Sprintf("np=%d", np)}
}

func TestVerif_C18(t *testing.T) {
	tr := verifh.Open(c18Machine)
	defer tr.Close()
	defer vCloseWorlds()
	cases, replayOnly := verifh.InputCases(c18Machine)
	for _, c := range cases {
		c18Exec(tr, c)
		tr.Count("corpus_or_replay_cases", 1)
	}
	if replayOnly {
		return
	}
	// (a) bounded-exhaustive over one torrent of 2 pieces, limits 2 (seeder) and 3 (leecher)
	alpha := [][]string{
		{"op", "adv", "1"}, {"op", "adv", "2"}, {"op", "tick"},
		{"op", "new", "h0", "0"}, {"op", "new", "h0", "1"}, {"op", "new", "h0", "2"},
		{"op", "serve", "h0", "p0", "ok"}, {"op", "serve", "h0", "p0", "closefail"},
		{"op", "write", "h0", "p0", "good"}, {"op", "write", "h0", "p1", "good"}, {"op", "write", "h0", "p1", "bad"},
		{"op", "rm", "h0"}, {"op", "notice", "h0"},
	}
	depth := verifh.Scale(3, 4)
	// (a2) the same over the round-2 letters: peer-created controls, eviction (+ the eviction branch of the next
	// request), payloads that are not sent / cannot be handed over, other scheduler events, shutdown
	alpha2 := [][]string{
		{"op", "adv", "2"}, {"op", "tick"}, {"op", "new", "h0", "1"}, {"op", "new", "h0", "2"},
		{"op", "peer", "h0", "0"}, {"op", "peer", "h0", "1"}, {"op", "peer", "h0", "2"},
		{"op", "evict", "h0"}, {"op", "serve", "h0", "p0", "ok"}, {"op", "serve", "h0", "p0", "egress"}, {"op", "lost", "h0", "p0"},
		{"op", "write", "h0", "p1", "good"}, {"op", "rm", "h0"}, {"op", "notice", "h0"},
		{"op", "aerr", "h0"}, {"op", "ares", "h0"}, {"op", "stop"},
	}
	var rec2 func(prefix [][]string, d int)
	rec2 = func(prefix [][]string, d int) {
		if d == 0 {
			c18Exec(tr, verifh.Case{Cfg: c18Cfg(2, 3, 2), Ops: prefix})
			tr.Count("exhaustive2_cases", 1)
			return
		}
		for _, o := range alpha2 {
			if len(prefix) > 0 && prefix[len(prefix)-1][1] == "stop" {
				return
			}
			rec2(append(prefix[:len(prefix):len(prefix)], o), d-1)
		}
	}
	for d := 1; d <= verifh.Scale(3, 4); d++ {
		rec2(nil, d)
	}
	// (a3) eviction timelines: a seeding torrent (requested or peer-created) whose blob is evicted, then every
	// 2-letter continuation, then a tick after the limit
	for _, first := range [][]string{{"op", "new", "h0", "2"}, {"op", "peer", "h0", "2"}, {"op", "new", "h0", "1"}} {
		for _, l1 := range alpha2 {
			for _, l2 := range alpha2 {
				if l1[1] == "stop" {
					continue
				}
				ops := [][]string{first, {"op", "write", "h0", "p1", "good"}, {"op", "evict", "h0"}, l1, l2, {"op", "adv", "3"}, {"op", "tick"}}
				c18Exec(tr, verifh.Case{Cfg: c18Cfg(2, 3, 2), Ops: ops})
				tr.Count("eviction_cases", 1)
			}
		}
	}
	var rec func(prefix [][]string, d int)
	rec = func(prefix [][]string, d int) {
		if d == 0 {
			c18Exec(tr, verifh.Case{Cfg: c18Cfg(2, 3, 2), Ops: prefix})
			tr.Count("exhaustive_cases", 1)
			return
		}
		for _, o := range alpha {
			rec(append(prefix[:len(prefix):len(prefix)], o), d-1)
		}
	}
	for d := 1; d <= depth; d++ {
		rec(nil, d)
	}
	// (b) boundary timelines: activity at every offset around the limit, tick at every offset
	for _, seeder := range []bool{true, false} {
		for ttl := 1; ttl <= 4; ttl++ {
			for a := 0; a <= ttl+1; a++ { // activity a ns after creation
				for b := 0; b <= ttl+1; b++ { // tick b ns after the activity
					var ops [][]string
					if seeder {
						ops = append(ops, []string{"op", "new", "h0", "2"})
					} else {
						ops = append(ops, []string{"op", "new", "h0", "0"})
					}
					ops = append(ops, []string{"op", "adv", strconv.Itoa(a)})
					if seeder {
						ops = append(ops, []string{"op", "serve", "h0", "p1", "ok"})
					} else {
						ops = append(ops, []string{"op", "write", "h0", "p0", "good"})
					}
					ops = append(ops, []string{"op", "adv", strconv.Itoa(b)}, []string{"op", "tick"},
						[]string{"op", "adv", "1"}, []string{"op", "tick"})
					cfg := c18Cfg(ttl, ttl+1, 2)
					if !seeder {
						cfg = c18Cfg(ttl+1, ttl, 2)
					}
					c18Exec(tr, verifh.Case{Cfg: cfg, Ops: ops})
					tr.Count("boundary_cases", 1)
				}
			}
		}
	}
	// (b2) the completion window: a download of 2 pieces whose last piece arrives a ns after creation; the
	// completion event is applied before the tick, after it, or never; tick c ns after completion; then the
	// blob is requested again
	for ttl := 1; ttl <= 3; ttl++ {
		for a := 0; a <= ttl+1; a++ {
			for c := 0; c <= ttl+1; c++ {
				for when := 0; when < 3; when++ {
					for _, cfg := range [][]string{c18Cfg(ttl, ttl+2, 2), c18Cfg(ttl+2, ttl, 2), c18Cfg(ttl, ttl, 2)} {
						ops := [][]string{{"op", "new", "h0", "1"}, {"op", "adv", strconv.Itoa(a)}, {"op", "write", "h0", "p1", "good"}}
						if when == 0 {
							ops = append(ops, []string{"op", "notice", "h0"})
						}
						ops = append(ops, []string{"op", "adv", strconv.Itoa(c)}, []string{"op", "tick"})
						if when == 1 {
							ops = append(ops, []string{"op", "notice", "h0"})
						}
						ops = append(ops, []string{"op", "new", "h0", "0"}, []string{"op", "serve", "h0", "p0", "ok"})
						c18Exec(tr, verifh.Case{Cfg: cfg, Ops: ops})
						tr.Count("window_cases", 1)
					}
				}
			}
		}
	}
	// (b3) every ordering of {last piece written, completion event applied, tick, removal, re-request} and clock
	// advances, to a depth, starting from a 2-piece download with one piece present
	walpha := [][]string{
		{"op", "write", "h0", "p1", "good"}, {"op", "notice", "h0"}, {"op", "tick"}, {"op", "rm", "h0"},
		{"op", "adv", "2"}, {"op", "new", "h0", "1"}, {"op", "serve", "h0", "p0", "ok"},
	}
	wdepth := verifh.Scale(4, 6)
	var wrec func(prefix [][]string, d int)
	wrec = func(prefix [][]string, d int) {
		if d == 0 {
			c18Exec(tr, verifh.Case{Cfg: c18Cfg(2, 3, 2), Ops: prefix})
			tr.Count("window_exhaustive_cases", 1)
			return
		}
		for _, o := range walpha {
			wrec(append(prefix[:len(prefix):len(prefix)], o), d-1)
		}
	}
	for d := 1; d <= wdepth; d++ {
		wrec([][]string{{"op", "new", "h0", "1"}}, d)
	}
	// (c) random long timelines over two torrents
	rnd := verifh.NewRand(verifh.Seed(), "c18")
	for n := 0; n < verifh.Scale(300, 15000); n++ {
		sttl, lttl, np := 1+rnd.Intn(9), 1+rnd.Intn(9), 1+rnd.Intn(3)
		var ops [][]string
		steps := 5 + rnd.Intn(40)
		for j := 0; j < steps; j++ {
			h := fmt.Sprintf("h%d", rnd.Intn(c18NTor))
			p := fmt.Sprintf("p%d", rnd.Intn(np+1)) // np itself is out of range
			var o []string
			switch x := rnd.Intn(116); {
			case x < 22:
				adv := []int{0, 1, 1, 2, sttl - 1, sttl, lttl - 1, lttl, sttl + 1, lttl + 1}[rnd.Intn(10)]
				if adv < 0 {
					adv = 0
				}
				o = []string{"op", "adv", strconv.Itoa(adv)}
			case x < 37:
				o = []string{"op", "tick"}
			case x < 52:
				o = []string{"op", "new", h, strconv.Itoa(rnd.Intn(np + 2))}
			case x < 72:
				o = []string{"op", "serve", h, p, rnd.Pick("ok", "ok", "ok", "egress", "closefail")}
			case x < 88:
				o = []string{"op", "write", h, p, rnd.Pick("good", "good", "good", "bad")}
			case x < 95:
				o = []string{"op", "notice", h}
			case x < 100:
				o = []string{"op", "rm", h}
			case x < 106:
				o = []string{"op", "peer", h, strconv.Itoa(rnd.Intn(np + 2))}
			case x < 110:
				o = []string{"op", "evict", h}
			case x < 113:
				o = []string{"op", "lost", h, p}
			case x < 115:
				o = []string{"op", rnd.Pick("aerr", "ares"), h}
			default:
				o = []string{"op", "stop"}
				if j < steps-3 {
					o = []string{"op", "tick"}
				}
			}
			ops = append(ops, o)
			tr.Count("random_op_"+o[1], 1)
		}
		if n < 2 {
			tr.Sample(fmt.Sprint(c18Cfg(sttl, lttl, np), ops))
		}
		c18Exec(tr, verifh.Case{Cfg: c18Cfg(sttl, lttl, np), Ops: ops})
		tr.Count("random_cases", 1)
	}
}

// ---------------------------------------------------------------- below the event granularity (machine "idlerace")

// TestVerif_C18Race drives the one schedule that the event-level model cannot express: the last piece of an idle
// download is being written on the dispatcher's goroutine while the event loop removes the torrent. removeTorrent
// tests `!Complete()`, tears the dispatcher down, emits the TorrentCancelled network event and then calls
// DeleteTorrent, which deletes the file from whatever directory it is in. The harness parks the write (a wrapper
// around the torrent's WritePiece), lets removeTorrent pass its test, and releases the write when the network
// event is produced: the blob completes, moves to the cache — and is deleted.
func TestVerif_C18Race(t *testing.T) {
	tr := verifh.Open("idlerace")
	defer tr.Close()
	defer vCloseWorlds()
	for _, kind := range []string{"tick", "rm", "tick-late"} {
		w := vWorldFor(2, 3, 2, 1)
		t0, err := w.createTorrent(0, 1)
		if err != nil {
			panic(err)
		}
		errc := make(chan error, 8)
		newTorrentEvent{vNamespace, t0, errc}.apply(w.st)
		w.clk.advance(5) // no piece for longer than LeecherTTI
		p := w.peer(0)
		data := w.blobs[0].piece(1)
		msg := &conn.Message{Message: &p2p.Message{Type: p2p.Message_PIECE_PAYLOAD,
			PiecePayload: &p2p.PiecePayloadMessage{Index: 1, Offset: 0, Length: int32(len(data))}},
			Payload: piecereader.NewBuffer(data)}
		g := &vGate{entered: make(chan struct{}, 1), release: make(chan struct{}), done: make(chan error, 1)}
		vSetGate(g)
		go p.push(msg)
		select {
		case <-g.entered:
		case <-time.After(10 * time.Second):
			panic("harness: the piece write did not start")
		}
		fired, completedInBetween := false, false
		inner := w.sched.netevents
		w.sched.netevents = vProducer{inner, func(e *networkevent.Event) {
			if e.Name == networkevent.TorrentCancelled && !fired && kind != "tick-late" {
				fired = true
				close(g.release)
				<-g.done
				completedInBetween = w.exists(w.cads.Cache(), 0)
			}
		}}
		if kind == "rm" {
			rc := make(chan error, 1)
			removeTorrentEvent{w.blobs[0].digest, rc}.apply(w.st)
		} else {
			preemptionTickEvent{}.apply(w.st)
		}
		w.sched.netevents = inner
		if !fired {
			close(g.release)
			<-g.done
		}
		vSetGate((*vGate)(nil))
		held := w.ctrl(0) != nil
		cached := w.exists(w.cads.Cache(), 0)
		if completedInBetween && !cached && kind != "rm" {
			// RemoveTorrent is meant to delete the blob in any state; an idle drop is not
			tr.PropFail("idle-drop-deleted-completed-blob", kind)
		}
		tr.One([]string{"race", kind}, "held="+verifh.Bool(held), "completed_in_between="+verifh.Bool(completedInBetween), "cached_after="+verifh.Bool(cached))
	}
}
