//go:build verif

package scheduler

// C18 harness: timelines of piece serves / piece writes / clock advances / preemption ticks /
// manual removals, executed on the real scheduler state (events applied directly, mock clock) with
// real dispatchers over real agent storage. After every operation the harness records, per torrent,
// whether the scheduler still holds it, Dispatcher.LastReadTime/LastWriteTime and which files exist.

import (
	"fmt"
	"strconv"
	"strings"
	"testing"
	"time"

	"github.com/uber/kraken/lib/torrent/scheduler/dispatch"
	"github.com/uber/kraken/utils/verifh"
)

const c18Machine = "idle"
const c18NTor = 2

type c18Run struct {
	w       *vWorld
	tr      *verifh.T
	noticed map[*dispatch.Dispatcher]bool
	errcs   []chan error
	sttl    int64
	lttl    int64
	// monitor state (the same predicates as the Lean driver's monitor; evaluated here as well
	// because the driver stops following a case at the first model/code difference)
	prev   [c18NTor]c18Status
	serves [c18NTor][]int64
	writes [c18NTor][]int64
}

type c18Status struct{ p, c, dl, ca bool }

// check evaluates the property's predicates on the status change of torrent i caused by op.
func (r *c18Run) check(i int, op []string, cur c18Status) {
	old := r.prev[i]
	r.prev[i] = cur
	now := r.w.now()
	kind := op[1]
	dropped := old.p && !cur.p
	where := fmt.Sprintf("h%d@t=%d", i, now)
	if dropped && kind == "tick" && old.c {
		for _, t := range r.serves[i] {
			if now < t+r.sttl {
				r.tr.PropFail("seeder-dropped-while-serving", where, fmt.Sprintf("served-at=%d", t), fmt.Sprintf("limit=%d", r.sttl))
				break
			}
		}
		if old.ca && !cur.ca {
			r.tr.PropFail("idle-drop-deleted-blob", where)
		}
	}
	if dropped && kind == "tick" && !old.c {
		for _, t := range r.writes[i] {
			if now < t+r.lttl {
				r.tr.PropFail("leecher-dropped-while-receiving", where, fmt.Sprintf("received-at=%d", t), fmt.Sprintf("limit=%d", r.lttl))
				break
			}
		}
	}
	if dropped && (kind == "tick" || kind == "rm") && !old.c && cur.dl {
		r.tr.PropFail("partial-file-left", where)
	}
	if dropped && kind != "tick" && kind != "rm" {
		r.tr.PropFail("dropped-without-timeout", where, verifh.Str(strings.Join(op[1:], " ")))
	}
	if old.ca && !cur.ca && kind != "rm" && !(dropped && kind == "tick" && old.c) {
		r.tr.PropFail("cached-blob-deleted", where, verifh.Str(strings.Join(op[1:], " ")))
	}
}

func c18Tor(tok string) (int, bool) {
	if !strings.HasPrefix(tok, "h") {
		return 0, false
	}
	i, err := strconv.Atoi(tok[1:])
	if err != nil || i < 0 || i >= c18NTor {
		return 0, false
	}
	return i, true
}

func c18Piece(tok string) (int, bool) {
	if !strings.HasPrefix(tok, "p") {
		return 0, false
	}
	i, err := strconv.Atoi(tok[1:])
	if err != nil || i < 0 || i > 8 {
		return 0, false
	}
	return i, true
}

func (r *c18Run) status(op []string) {
	w := r.w
	for i := 0; i < c18NTor; i++ {
		ctrl := w.ctrl(i)
		obs := []string{"p=0", "c=-", "lr=-", "lw=-"}
		cur := c18Status{dl: w.exists(w.cads.Download(), i), ca: w.exists(w.cads.Cache(), i)}
		if ctrl != nil {
			d := ctrl.dispatcher
			cur.p, cur.c = true, d.Complete()
			obs = []string{"p=1", "c=" + verifh.Bool(d.Complete()),
				fmt.Sprintf("lr=%d", w.ns(d.LastReadTime())),
				fmt.Sprintf("lw=%d", w.ns(d.LastWriteTime()))}
		}
		obs = append(obs, "dl="+verifh.Bool(cur.dl), "ca="+verifh.Bool(cur.ca))
		r.tr.Rec("st", []string{fmt.Sprintf("h%d", i)}, obs)
		r.check(i, op, cur)
	}
}

// settle waits until the completion notice of every dispatcher that became complete has reached the
// event loop's queue (it is sent from a goroutine). The notice is NOT applied here: the schedule says
// when (`notice` operation), so that ticks and removals can fall between completion and its event.
func (r *c18Run) settle() {
	w := r.w
	for i := 0; i < c18NTor; i++ {
		ctrl := w.ctrl(i)
		if ctrl == nil || !ctrl.dispatcher.Complete() || r.noticed[ctrl.dispatcher] {
			continue
		}
		d := ctrl.dispatcher
		ok := w.loop.waitFor(func(e event) bool {
			ce, ok := e.(dispatcherCompleteEvent)
			return ok && ce.dispatcher == d
		}, 5*time.Second)
		if !ok {
			panic("harness: completion notice did not arrive")
		}
		r.noticed[d] = true
	}
}

// applyNotices applies every queued completion notice of torrent i, oldest first.
func (r *c18Run) applyNotices(i int) {
	h := r.w.blobs[i].mi.InfoHash()
	for {
		e, ok := r.w.loop.take(func(e event) bool {
			ce, ok := e.(dispatcherCompleteEvent)
			return ok && ce.dispatcher.InfoHash() == h
		}, 0)
		if !ok {
			return
		}
		e.apply(r.w.st)
	}
}

func (r *c18Run) do(op []string) bool {
	w := r.w
	if len(op) < 2 || op[0] != "op" {
		return false
	}
	switch {
	case op[1] == "adv" && len(op) == 3:
		n, err := strconv.ParseInt(op[2], 10, 64)
		if err != nil || n < 0 || n > 1000000 {
			return false
		}
		w.clk.advance(time.Duration(n))
		r.tr.Op(op[1:])
	case op[1] == "new" && len(op) == 4:
		i, ok := c18Tor(op[2])
		k, err := strconv.Atoi(op[3])
		if !ok || err != nil || k < 0 || k > 8 {
			return false
		}
		t, cerr := w.createTorrent(i, k)
		if cerr != nil {
			r.tr.Op(op[1:], "createerr")
			break
		}
		before := w.ctrl(i)
		errc := make(chan error, 8)
		r.errcs = append(r.errcs, errc)
		newTorrentEvent{vNamespace, t, errc}.apply(w.st)
		if w.ctrl(i) != before {
			w.tors[i] = t // the new dispatcher wraps this torrent object
		}
		select {
		case err := <-errc:
			if err == nil {
				r.tr.Op(op[1:], "done")
			} else {
				r.tr.Op(op[1:], "err")
			}
		default:
			r.tr.Op(op[1:], "waiting")
		}
	case op[1] == "serve" && len(op) == 5:
		i, ok := c18Tor(op[2])
		pi, ok2 := c18Piece(op[3])
		if !ok || !ok2 || (op[4] != "ok" && op[4] != "noread" && op[4] != "closefail") {
			return false
		}
		if ctrl := w.ctrl(i); ctrl != nil && w.tors[i] != nil {
			w.tors[i].setFailClose(op[4] == "closefail")
		}
		res := w.servePiece(i, pi, op[4] != "noread")
		if res == "sent" && op[4] != "closefail" {
			r.serves[i] = append(r.serves[i], w.now())
		}
		if w.tors[i] != nil {
			w.tors[i].setFailClose(false)
		}
		r.tr.Op(op[1:], res)
	case op[1] == "write" && len(op) == 5:
		i, ok := c18Tor(op[2])
		pi, ok2 := c18Piece(op[3])
		if !ok || !ok2 || (op[4] != "good" && op[4] != "bad") {
			return false
		}
		res := w.deliverPiece(i, pi, op[4] == "good")
		if res == "ok" {
			r.writes[i] = append(r.writes[i], w.now())
		}
		r.tr.Op(op[1:], res)
	case op[1] == "tick" && len(op) == 2:
		preemptionTickEvent{}.apply(w.st)
		r.tr.Op(op[1:])
	case op[1] == "notice" && len(op) == 3:
		i, ok := c18Tor(op[2])
		if !ok {
			return false
		}
		r.applyNotices(i)
		r.tr.Op(op[1:])
	case op[1] == "rm" && len(op) == 3:
		i, ok := c18Tor(op[2])
		if !ok {
			return false
		}
		errc := make(chan error, 1)
		removeTorrentEvent{w.blobs[i].digest, errc}.apply(w.st)
		if err := <-errc; err != nil {
			r.tr.Op(op[1:], "err")
		} else {
			r.tr.Op(op[1:], "ok")
		}
	default:
		return false
	}
	r.settle()
	r.status(op)
	return true
}

func c18Exec(tr *verifh.T, c verifh.Case) {
	sttl, lttl, np := int64(10), int64(12), 2
	for _, t := range c.Cfg {
		kv := strings.SplitN(t, "=", 2)
		if len(kv) != 2 {
			continue
		}
		n, err := strconv.ParseInt(kv[1], 10, 64)
		if err != nil {
			continue
		}
		switch kv[0] {
		case "sttl":
			sttl = n
		case "lttl":
			lttl = n
		case "np":
			np = int(n)
		}
	}
	if sttl < 1 || lttl < 1 || np < 1 || np > 8 {
		return
	}
	w := vWorldFor(time.Duration(sttl), time.Duration(lttl), np, c18NTor)
	r := &c18Run{w: w, tr: tr, noticed: map[*dispatch.Dispatcher]bool{}, sttl: sttl, lttl: lttl}
	tr.Cfg(fmt.Sprintf("sttl=%d", sttl), fmt.Sprintf("lttl=%d", lttl), fmt.Sprintf("np=%d", np))
	for _, op := range c.Ops {
		op := op
		if p := verifh.Protect(func() { r.do(op) }); p != "" {
			tr.PropFail("panic", verifh.Str(p))
			break
		}
	}
	tr.End()
}

func c18Cfg(sttl, lttl, np int) []string {
	return []string{fmt.Sprintf("sttl=%d", sttl), fmt.Sprintf("lttl=%d", lttl), fmt.Sprintf("np=%d", np)}
}

func TestVerif_C18(t *testing.T) {
	tr := verifh.Open(c18Machine)
	defer tr.Close()
	defer vCloseWorlds()
	cases, replayOnly := verifh.InputCases(c18Machine)
	for _, c := range cases {
		c18Exec(tr, c)
		tr.Count("corpus_or_replay_cases", 1)
	}
	if replayOnly {
		return
	}
	// (a) bounded-exhaustive over one torrent of 2 pieces, limits 2 (seeder) and 3 (leecher)
	alpha := [][]string{
		{"op", "adv", "1"}, {"op", "adv", "2"}, {"op", "tick"},
		{"op", "new", "h0", "0"}, {"op", "new", "h0", "1"}, {"op", "new", "h0", "2"},
		{"op", "serve", "h0", "p0", "ok"}, {"op", "serve", "h0", "p0", "closefail"},
		{"op", "write", "h0", "p0", "good"}, {"op", "write", "h0", "p1", "good"}, {"op", "write", "h0", "p1", "bad"},
		{"op", "rm", "h0"}, {"op", "notice", "h0"},
	}
	depth := verifh.Scale(3, 4)
	var rec func(prefix [][]string, d int)
	rec = func(prefix [][]string, d int) {
		if d == 0 {
			c18Exec(tr, verifh.Case{Cfg: c18Cfg(2, 3, 2), Ops: prefix})
			tr.Count("exhaustive_cases", 1)
			return
		}
		for _, o := range alpha {
			rec(append(prefix[:len(prefix):len(prefix)], o), d-1)
		}
	}
	for d := 1; d <= depth; d++ {
		rec(nil, d)
	}
	// (b) boundary timelines: activity at every offset around the limit, tick at every offset
	for _, seeder := range []bool{true, false} {
		for ttl := 1; ttl <= 4; ttl++ {
			for a := 0; a <= ttl+1; a++ { // activity a ns after creation
				for b := 0; b <= ttl+1; b++ { // tick b ns after the activity
					var ops [][]string
					if seeder {
						ops = append(ops, []string{"op", "new", "h0", "2"})
					} else {
						ops = append(ops, []string{"op", "new", "h0", "0"})
					}
					ops = append(ops, []string{"op", "adv", strconv.Itoa(a)})
					if seeder {
						ops = append(ops, []string{"op", "serve", "h0", "p1", "ok"})
					} else {
						ops = append(ops, []string{"op", "write", "h0", "p0", "good"})
					}
					ops = append(ops, []string{"op", "adv", strconv.Itoa(b)}, []string{"op", "tick"},
						[]string{"op", "adv", "1"}, []string{"op", "tick"})
					cfg := c18Cfg(ttl, ttl+1, 2)
					if !seeder {
						cfg = c18Cfg(ttl+1, ttl, 2)
					}
					c18Exec(tr, verifh.Case{Cfg: cfg, Ops: ops})
					tr.Count("boundary_cases", 1)
				}
			}
		}
	}
	// (b2) the completion window: a download of 2 pieces whose last piece arrives a ns after creation; the
	// completion event is applied before the tick, after it, or never; tick c ns after completion; then the
	// blob is requested again
	for ttl := 1; ttl <= 3; ttl++ {
		for a := 0; a <= ttl+1; a++ {
			for c := 0; c <= ttl+1; c++ {
				for when := 0; when < 3; when++ {
					for _, cfg := range [][]string{c18Cfg(ttl, ttl+2, 2), c18Cfg(ttl+2, ttl, 2), c18Cfg(ttl, ttl, 2)} {
						ops := [][]string{{"op", "new", "h0", "1"}, {"op", "adv", strconv.Itoa(a)}, {"op", "write", "h0", "p1", "good"}}
						if when == 0 {
							ops = append(ops, []string{"op", "notice", "h0"})
						}
						ops = append(ops, []string{"op", "adv", strconv.Itoa(c)}, []string{"op", "tick"})
						if when == 1 {
							ops = append(ops, []string{"op", "notice", "h0"})
						}
						ops = append(ops, []string{"op", "new", "h0", "0"}, []string{"op", "serve", "h0", "p0", "ok"})
						c18Exec(tr, verifh.Case{Cfg: cfg, Ops: ops})
						tr.Count("window_cases", 1)
					}
				}
			}
		}
	}
	// (b3) every ordering of {last piece written, completion event applied, tick, removal, re-request} and clock
	// advances, to a depth, starting from a 2-piece download with one piece present
	walpha := [][]string{
		{"op", "write", "h0", "p1", "good"}, {"op", "notice", "h0"}, {"op", "tick"}, {"op", "rm", "h0"},
		{"op", "adv", "2"}, {"op", "new", "h0", "1"}, {"op", "serve", "h0", "p0", "ok"},
	}
	wdepth := verifh.Scale(4, 6)
	var wrec func(prefix [][]string, d int)
	wrec = func(prefix [][]string, d int) {
		if d == 0 {
			c18Exec(tr, verifh.Case{Cfg: c18Cfg(2, 3, 2), Ops: prefix})
			tr.Count("window_exhaustive_cases", 1)
			return
		}
		for _, o := range walpha {
			wrec(append(prefix[:len(prefix):len(prefix)], o), d-1)
		}
	}
	for d := 1; d <= wdepth; d++ {
		wrec([][]string{{"op", "new", "h0", "1"}}, d)
	}
	// (c) random long timelines over two torrents
	rnd := verifh.NewRand(verifh.Seed(), "c18")
	for n := 0; n < verifh.Scale(300, 15000); n++ {
		sttl, lttl, np := 1+rnd.Intn(9), 1+rnd.Intn(9), 1+rnd.Intn(3)
		var ops [][]string
		steps := 5 + rnd.Intn(40)
		for j := 0; j < steps; j++ {
			h := fmt.Sprintf("h%d", rnd.Intn(c18NTor))
			p := fmt.Sprintf("p%d", rnd.Intn(np+1)) // np itself is out of range
			var o []string
			switch x := rnd.Intn(100); {
			case x < 22:
				adv := []int{0, 1, 1, 2, sttl - 1, sttl, lttl - 1, lttl, sttl + 1, lttl + 1}[rnd.Intn(10)]
				if adv < 0 {
					adv = 0
				}
				o = []string{"op", "adv", strconv.Itoa(adv)}
			case x < 37:
				o = []string{"op", "tick"}
			case x < 52:
				o = []string{"op", "new", h, strconv.Itoa(rnd.Intn(np + 2))}
			case x < 72:
				o = []string{"op", "serve", h, p, rnd.Pick("ok", "ok", "ok", "noread", "closefail")}
			case x < 88:
				o = []string{"op", "write", h, p, rnd.Pick("good", "good", "good", "bad")}
			case x < 95:
				o = []string{"op", "notice", h}
			default:
				o = []string{"op", "rm", h}
			}
			ops = append(ops, o)
			tr.Count("random_op_"+o[1], 1)
		}
		if n < 2 {
			tr.Sample(fmt.Sprint(c18Cfg(sttl, lttl, np), ops))
		}
		c18Exec(tr, verifh.Case{Cfg: c18Cfg(sttl, lttl, np), Ops: ops})
		tr.Count("random_cases", 1)
	}
}
