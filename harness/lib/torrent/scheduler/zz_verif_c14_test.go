//go:build verif

package scheduler

// C14 harness, scheduler level (machine "hsched"): remote peers open connections with arbitrary handshakes —
// the Name of a torrent the agent has (or not), a claimed InfoHash that matches it, belongs to another live
// torrent or to none, and bitfields that are fine, too long or dirty — through the real path
// Handshaker.Accept → incomingHandshakeEvent → scheduler.establishIncomingHandshake → incomingConnEvent /
// failedIncomingHandshakeEvent → addIncomingConn. After every operation the connection bookkeeping
// (connstate) is read through its public API for every (peer, info hash) pair: once a connection attempt
// has ended, nothing of it may remain (key pending-leak), and an honest peer must still get in
// (key capacity-stolen).

import (
	"encoding/binary"
	"fmt"
	"strconv"
	"strings"
	"testing"
	"time"

	"github.com/uber/kraken/core"
	"github.com/uber/kraken/lib/torrent/scheduler/announcequeue"
	"github.com/uber/kraken/lib/torrent/scheduler/conn"
	"github.com/uber/kraken/utils/verifh"
	"github.com/willf/bitset"
)

const c14sMachine = "hsched"
const c14sNTor = 2
const c14sNPeer = 3
const c14sMax = 2

type c14sRun struct {
	w      *vWorld
	tr     *verifh.T
	peers  [c14sNPeer]core.PeerID
	bogus  core.InfoHash
	active map[string]*vIncoming // "p0h1" -> established connection
	// pair ("p0h1") whose connection was closed, and its ConnClosed event applied, by the last operation
	justClosed string
}

func (r *c14sRun) hash(tok string) (core.InfoHash, bool) {
	switch tok {
	case "h0", "h1":
		return r.w.blobs[int(tok[1]-'0')].mi.InfoHash(), true
	case "hb":
		return r.bogus, true
	}
	return core.InfoHash{}, false
}

func (r *c14sRun) status() {
	var obs []string
	for k := 0; k < c14sNPeer; k++ {
		for _, ht := range []string{"h0", "h1", "hb"} {
			h, _ := r.hash(ht)
			st := r.w.pairStatus(r.peers[k], h)
			obs = append(obs, fmt.Sprintf("p%d%s=%s", k, ht, st))
			if st == "pending" {
				// every connection attempt of this harness has ended when its operation returns
				r.tr.PropFail("pending-leak", fmt.Sprintf("p%d", k), ht)
			}
			if st == "active" && r.justClosed == fmt.Sprintf("p%d%s", k, ht) {
				// a closed connection must give its slot back (else the torrent stays saturated for ever)
				r.tr.PropFail("closed-conn-keeps-slot", fmt.Sprintf("p%d", k), ht)
			}
		}
	}
	r.tr.Rec("st", nil, obs)
	r.justClosed = ""
}

func c14sBitfield(kind string, np int) ([]byte, bool) {
	word := func(l uint64, w uint64) []byte {
		b := make([]byte, 16)
		binary.BigEndian.PutUint64(b, l)
		binary.BigEndian.PutUint64(b[8:], w)
		return b
	}
	switch kind {
	case "ok":
		b, _ := bitset.New(uint(np)).MarshalBinary()
		return b, true
	case "full":
		return word(uint64(np), 1<<uint(np)-1), true
	case "long":
		return word(uint64(np+1), 0), true
	case "dirty":
		return word(uint64(np), 0xffffffffffffffff), true
	case "short":
		return []byte{1, 2, 3}, true
	}
	return nil, false
}

func (r *c14sRun) do(op []string) bool {
	w := r.w
	if len(op) < 2 || op[0] != "op" {
		return false
	}
	kv := func(k string) string {
		for _, t := range op[2:] {
			if strings.HasPrefix(t, k+"=") {
				return t[len(k)+1:]
			}
		}
		return ""
	}
	switch op[1] {
	case "inconn":
		// op inconn p<k> name=<h0|h1|hx> claim=<h0|h1|hb> bf=<ok|full|long|dirty|short>
		if len(op) != 6 || !strings.HasPrefix(op[2], "p") {
			return false
		}
		k, err := strconv.Atoi(op[2][1:])
		if err != nil || k < 0 || k >= c14sNPeer {
			return false
		}
		name := map[string]int{"h0": 0, "h1": 1, "hx": 2}
		ni, ok := name[kv("name")]
		claim, ok2 := r.hash(kv("claim"))
		bf, ok3 := c14sBitfield(kv("bf"), w.np)
		if !ok || !ok2 || !ok3 {
			return false
		}
		in := w.incoming(r.peers[k], ni, claim, bf)
		if in.res == "connrejected" {
			// the scheduler closed the conn; its ConnClosed event is applied as the event loop would
			if e, ok := w.loop.take(func(e event) bool {
				ce, ok := e.(connClosedEvent)
				return ok && ce.c == in.c
			}, 10*time.Second); ok {
				e.apply(w.st)
				r.justClosed = op[2] + kv("name")
			} else {
				panic("harness: no ConnClosed event for a conn the scheduler closed")
			}
		}
		if in.res == "active" {
			r.active[op[2]+kv("name")] = in
		}
		r.tr.Op(op[1:], in.res)
	case "drop":
		// op drop p<k> <h0|h1>: the remote peer goes away
		if len(op) != 4 {
			return false
		}
		in, ok := r.active[op[2]+op[3]]
		if !ok {
			r.tr.Op(op[1:], "none")
			break
		}
		delete(r.active, op[2]+op[3])
		in.remote.Close()
		if e, ok := w.loop.take(func(e event) bool {
			ce, ok := e.(connClosedEvent)
			return ok && ce.c == in.c
		}, 10*time.Second); ok {
			e.apply(w.st)
			r.justClosed = op[2] + op[3]
			r.tr.Op(op[1:], "closed")
		} else {
			panic("harness: no ConnClosed event after the remote end went away")
		}
	default:
		return false
	}
	r.status()
	return true
}

func c14sExec(tr *verifh.T, c verifh.Case) {
	w := vWorldFor(time.Hour, time.Hour, 2, c14sNTor+1)
	w.sched.config.ConnState.MaxOpenConnectionsPerTorrent = c14sMax
	w.sched.config.ConnState.MaxMutualConnections = c14sMax
	w.st = newState(w.sched, announcequeue.New())
	r := &c14sRun{w: w, tr: tr, active: map[string]*vIncoming{}}
	for k := range r.peers {
		id, err := core.HashedPeerID(fmt.Sprintf("verif-remote-%d", k))
		if err != nil {
			panic(err)
		}
		r.peers[k] = id
	}
	bogus, err := core.NewInfoHashFromHex(strings.Repeat("ab", 20))
	if err != nil {
		panic(err)
	}
	r.bogus = bogus
	// the agent has torrents h0 and h1 on disk (download in progress, no control yet); hx is unknown to it
	for i := 0; i < c14sNTor; i++ {
		if _, err := w.createTorrent(i, 1); err != nil {
			panic(err)
		}
	}
	tr.Cfg(fmt.Sprintf("max=%d", c14sMax))
	for _, op := range c.Ops {
		op := op
		if p := verifh.Protect(func() { r.do(op) }); p != "" {
			tr.PropFail("panic", verifh.Str(p))
			break
		}
	}
	// epilogue: an honest peer must still be able to connect to each torrent unless max honest conns are active
	for i := 0; i < c14sNTor; i++ {
		h := w.blobs[i].mi.InfoHash()
		activeN := 0
		for _, c := range w.st.conns.ActiveConns() {
			if c.InfoHash() == h {
				activeN++
			}
		}
		honest, _ := core.HashedPeerID("verif-honest")
		if st := w.pairStatus(honest, h); st == "cap" && activeN < c14sMax {
			tr.PropFail("capacity-stolen", fmt.Sprintf("h%d", i), fmt.Sprintf("active=%d", activeN))
		}
	}
	tr.End()
}

var _ = conn.Config{}

func TestVerif_C14Sched(t *testing.T) {
	tr := verifh.Open(c14sMachine)
	defer tr.Close()
	defer vCloseWorlds()
	cases, replayOnly := verifh.InputCases(c14sMachine)
	for _, c := range cases {
		c14sExec(tr, c)
		tr.Count("corpus_or_replay_cases", 1)
	}
	if replayOnly {
		return
	}
	names := []string{"h0", "h1", "hx"}
	claims := []string{"h0", "h1", "hb"}
	bfs := []string{"ok", "full", "long", "dirty", "short"}
	mk := func(p int, name, claim, bf string) []string {
		return []string{"op", "inconn", fmt.Sprintf("p%d", p), "name=" + name, "claim=" + claim, "bf=" + bf}
	}
	// (a) every single handshake, followed by an honest one from another peer and by the first peer leaving
	for _, n := range names {
		for _, cl := range claims {
			for _, bf := range bfs {
				ops := [][]string{mk(0, n, cl, bf), mk(1, "h0", "h0", "ok"), {"op", "drop", "p0", n}, mk(0, "h0", "h0", "ok")}
				c14sExec(tr, verifh.Case{Ops: ops})
				tr.Count("single_handshake_cases", 1)
			}
		}
	}
	// (a2) a peer whose connection was closed (and which is therefore blacklisted) connects again — incoming
	// connections are not checked against the blacklist — and goes away again: both closes must free the slot
	for _, n := range []string{"h0", "h1"} {
		for _, bf := range []string{"ok", "full", "dirty"} {
			for _, other := range []string{"h0", "h1"} {
				ops := [][]string{mk(0, n, n, "ok"), {"op", "drop", "p0", n}, mk(0, n, n, bf), {"op", "drop", "p0", n},
					mk(1, other, other, "ok"), mk(0, n, n, "ok"), {"op", "drop", "p0", n}, mk(2, n, n, "ok")}
				c14sExec(tr, verifh.Case{Ops: ops})
				tr.Count("reconnect_cases", 1)
			}
		}
	}
	// (b) every pair of handshakes from two peers (bitfield ok / dirty)
	for _, n1 := range names {
		for _, c1 := range claims {
			for _, n2 := range names {
				for _, c2 := range claims {
					for _, bf := range []string{"ok", "dirty"} {
						ops := [][]string{mk(0, n1, c1, "ok"), mk(1, n2, c2, bf), mk(2, "h1", "h1", "ok"), {"op", "drop", "p0", n1}}
						c14sExec(tr, verifh.Case{Ops: ops})
						tr.Count("pair_cases", 1)
					}
				}
			}
		}
	}
	// (c) random sequences
	rnd := verifh.NewRand(verifh.Seed(), "c14sched")
	for n := 0; n < verifh.Scale(150, 8000); n++ {
		var ops [][]string
		for j := 0; j < 2+rnd.Intn(8); j++ {
			if rnd.Chance(1, 5) {
				ops = append(ops, []string{"op", "drop", fmt.Sprintf("p%d", rnd.Intn(c14sNPeer)), rnd.Pick("h0", "h1")})
				continue
			}
			name := rnd.Pick("h0", "h0", "h1", "hx")
			claim := name
			if name == "hx" || rnd.Chance(1, 3) {
				claim = rnd.Pick(claims...)
			}
			ops = append(ops, mk(rnd.Intn(c14sNPeer), name, claim, rnd.Pick("ok", "ok", "ok", "full", "long", "dirty", "short")))
		}
		if n < 2 {
			tr.Sample(fmt.Sprint(ops))
		}
		c14sExec(tr, verifh.Case{Ops: ops})
		tr.Count("random_cases", 1)
	}
}
