//go:build verif

package scheduler

// C20 harness, reloadable-scheduler level (machine "aqr"): real agent schedulers built by NewAgentScheduler
// (started: real event loop, listener, ticker loops), a scripted announce client, and the operations
// add-torrent (Download) / announce tick / announce answered / RemoveTorrent / Reload(config). After every
// operation a probe event, applied by the scheduler's own event loop, reads the announce queue through its
// public API (everything Next hands out, with no Ready in between; then put back in the same order) and the
// set of torrent controls. Judged: each torrent at most once in the queue (never handed out twice without
// Ready), nothing queued without a control, and the queue content against the model, in which a reload
// starts from a fresh empty queue.

import (
	"fmt"
	"strconv"
	"strings"
	"testing"
	"time"

	"github.com/uber-go/tally"
	"github.com/uber/kraken/core"
	"github.com/uber/kraken/lib/hashring"
	"github.com/uber/kraken/lib/hostlist"
	"github.com/uber/kraken/lib/store"
	"github.com/uber/kraken/lib/torrent/networkevent"
	"github.com/uber/kraken/lib/torrent/storage/agentstorage"
	"github.com/uber/kraken/tracker/metainfoclient"
	"github.com/uber/kraken/utils/log"
	"github.com/uber/kraken/utils/verifh"
)

const c20rMachine = "aqr"
const c20rNTor = 2

// c20rProbe is applied by the event loop of the scheduler generation it is sent to.
type c20rProbe struct {
	result chan c20rView
}

type c20rView struct {
	ready []core.InfoHash // in the order Next handed them out
	ctrls map[core.InfoHash]bool
}

func (e c20rProbe) apply(s *state) {
	v := c20rView{ctrls: map[core.InfoHash]bool{}}
	for k := 0; k < 64; k++ {
		h, ok := s.announceQueue.Next()
		if !ok {
			break
		}
		v.ready = append(v.ready, h)
	}
	for _, h := range v.ready {
		s.announceQueue.Ready(h) // back to the ready list, in the same order
	}
	for h := range s.torrentControls {
		v.ctrls[h] = true
	}
	e.result <- v
}

type c20rRun struct {
	tr      *verifh.T
	rs      *reloadableScheduler
	config  Config
	cads    *store.CADownloadStore
	side    *agentstorage.TorrentArchive
	blobs   []*vBlob
	ac      *vAnnounceClient
	total   int                    // announce requests expected so far
	handed  map[core.InfoHash]bool // handed out by a tick of the current generation, not answered yet
	last    c20rView
	nonempt bool
}

func (r *c20rRun) name(h core.InfoHash) string {
	for i, b := range r.blobs {
		if b.mi.InfoHash() == h {
			return fmt.Sprintf("h%d", i)
		}
	}
	return "h?"
}

func (r *c20rRun) probe() c20rView {
	res := make(chan c20rView, 1)
	if !r.rs.scheduler.eventLoop.send(c20rProbe{res}) {
		panic("harness: scheduler stopped")
	}
	select {
	case v := <-res:
		return v
	case <-time.After(10 * time.Second):
		panic("harness: probe not applied")
	}
}

func (r *c20rRun) status() {
	v := r.probe()
	r.last = v
	var q, ctrls []string
	seen := map[string]bool{}
	for _, h := range v.ready {
		n := r.name(h)
		q = append(q, n)
		if seen[n] {
			// handed out twice by Next with no Ready in between
			r.tr.PropFail("queued-twice", n)
		}
		seen[n] = true
		if !v.ctrls[h] {
			r.tr.PropFail("queued-after-removal", n)
		}
	}
	for i, b := range r.blobs {
		if v.ctrls[b.mi.InfoHash()] {
			ctrls = append(ctrls, fmt.Sprintf("h%d", i))
		}
	}
	r.tr.Rec("st", nil, []string{"q=" + verifh.List(q), "ctrl=" + verifh.List(ctrls)})
}

func (r *c20rRun) do(op []string) bool {
	if len(op) < 2 || op[0] != "op" {
		return false
	}
	tor := func() (int, bool) {
		if len(op) != 3 || !strings.HasPrefix(op[2], "h") {
			return 0, false
		}
		i, err := strconv.Atoi(op[2][1:])
		return i, err == nil && i >= 0 && i < c20rNTor
	}
	var first []string
	switch op[1] {
	case "add":
		// Download (a first request adds the torrent to the scheduler and to its announce queue and announces at once)
		i, ok := tor()
		if !ok {
			return false
		}
		b := r.blobs[i]
		if _, err := r.cads.Any().GetFileStat(b.digest.Hex()); err != nil {
			if _, err := r.side.CreateTorrent(vNamespace, b.digest); err != nil {
				panic(err)
			}
		}
		go r.rs.Download(vNamespace, b.digest)
		r.total++
		r.ac.waitTotal(r.total) // newTorrentEvent announces every incomplete torrent it is applied for
	case "tick":
		// the announce tick: the first torrent of the ready list that has a control is announced
		want := false
		for _, h := range r.last.ready {
			if r.last.ctrls[h] {
				want = true
				r.handed[h] = true
				break
			}
		}
		if !r.rs.scheduler.eventLoop.send(announceTickEvent{}) {
			panic("harness: scheduler stopped")
		}
		if want {
			r.total++
			r.ac.waitTotal(r.total)
		}
	case "ares":
		// the tracker answers the oldest announce request of the torrent that is in flight
		i, ok := tor()
		if !ok {
			return false
		}
		h := r.blobs[i].mi.InfoHash()
		first = []string{"none"}
		if r.ac.release(h, nil) {
			first = []string{"answered"}
			// the announce goroutine turns the answer into its event; when the torrent was handed out by a tick it
			// comes back to the ready list
			wait := 20 * time.Millisecond
			if r.handed[h] && r.last.ctrls[h] {
				wait = 5 * time.Second
			}
			delete(r.handed, h)
			for dl := time.Now().Add(wait); time.Now().Before(dl); time.Sleep(200 * time.Microsecond) {
				back := false
				for _, x := range r.probe().ready {
					if x == h {
						back = true
					}
				}
				if back && wait > time.Second {
					break
				}
			}
		}
	case "rm":
		i, ok := tor()
		if !ok {
			return false
		}
		if err := r.rs.RemoveTorrent(r.blobs[i].digest); err != nil {
			first = []string{"err"}
		} else {
			first = []string{"ok"}
		}
		delete(r.handed, r.blobs[i].mi.InfoHash())
	case "reload":
		// a configuration reload: the scheduler is stopped and a new one started — with no torrents and a new queue
		if len(r.last.ready) > 0 || len(r.handed) > 0 {
			first = []string{"nonempty"}
		} else {
			first = []string{"empty"}
		}
		r.rs.Reload(r.config)
		// announce requests of the stopped generation: their answers go nowhere
		for _, b := range r.blobs {
			for r.ac.release(b.mi.InfoHash(), nil) {
			}
		}
		r.handed = map[core.InfoHash]bool{}
		time.Sleep(200 * time.Microsecond)
	default:
		return false
	}
	r.tr.Op(op[1:], first...)
	r.status()
	return true
}

func c20rFreePort() int {
	return findFreePort()
}

func c20rExec(tr *verifh.T, c verifh.Case) {
	cads, cleanup := store.CADownloadStoreFixture()
	defer cleanup()
	mic := metainfoclient.NewTestClient()
	r := &c20rRun{tr: tr, cads: cads, handed: map[core.InfoHash]bool{}, ac: &vAnnounceClient{scripted: true},
		side: agentstorage.NewTorrentArchive(tally.NoopScope, cads, mic)}
	for i := 0; i < c20rNTor; i++ {
		b := vBlobFor(30+i, 1)
		if err := mic.Upload(b.mi); err != nil {
			panic(err)
		}
		r.blobs = append(r.blobs, b)
	}
	r.config = Config{
		PreemptionInterval: 1000 * time.Hour,
		EmitStatsInterval:  1000 * time.Hour,
		DisablePreemption:  true,
		TorrentLog:         log.Config{Disable: true},
		Log:                log.Config{Disable: true},
	}
	pctx := core.PeerContext{PeerID: core.PeerIDFixture(), Zone: "zone1", IP: "localhost", Port: c20rFreePort()}
	trackers := hashring.NoopPassiveRing(hostlist.Fixture("localhost:1"))
	sched, err := NewAgentScheduler(r.config, tally.NoopScope, pctx, cads, networkevent.NewTestProducer(), trackers, r.ac, nil)
	if err != nil {
		panic(err)
	}
	r.rs = sched.(*reloadableScheduler)
	defer func() {
		r.rs.scheduler.Stop()
		r.ac.reset()
	}()
	tr.Cfg()
	r.last = r.probe()
	for _, op := range c.Ops {
		op := op
		if p := verifh.Protect(func() { r.do(op) }); p != "" {
			tr.PropFail("panic", verifh.Str(p))
			break
		}
	}
	tr.End()
}

func TestVerif_C20Reload(t *testing.T) {
	tr := verifh.Open(c20rMachine)
	defer tr.Close()
	cases, replayOnly := verifh.InputCases(c20rMachine)
	for _, c := range cases {
		c20rExec(tr, c)
		tr.Count("corpus_or_replay_cases", 1)
	}
	if replayOnly {
		return
	}
	letters := [][]string{
		{"op", "add", "h0"}, {"op", "add", "h1"}, {"op", "tick"}, {"op", "ares", "h0"}, {"op", "rm", "h0"}, {"op", "reload"},
	}
	// (a) every schedule to depth 3 (thorough: 4)
	var rec func(prefix [][]string, d int)
	rec = func(prefix [][]string, d int) {
		if d == 0 {
			c20rExec(tr, verifh.Case{Ops: prefix})
			tr.Count("exhaustive_cases", 1)
			return
		}
		for _, l := range letters {
			rec(append(prefix[:len(prefix):len(prefix)], l), d-1)
		}
	}
	for d := 1; d <= verifh.Scale(3, 4); d++ {
		rec(nil, d)
	}
	// (b) a reload with a non-empty queue (torrents waiting and/or handed out), then every 2-letter continuation, then
	// the events that bring leftovers to light
	for _, pre := range [][][]string{
		{{"op", "add", "h0"}},
		{{"op", "add", "h0"}, {"op", "tick"}},
		{{"op", "add", "h0"}, {"op", "add", "h1"}, {"op", "tick"}},
		{{"op", "add", "h0"}, {"op", "tick"}, {"op", "ares", "h0"}, {"op", "ares", "h0"}},
	} {
		for _, l1 := range letters {
			for _, l2 := range letters {
				ops := append(append([][]string{}, pre...), []string{"op", "reload"}, l1, l2,
					[]string{"op", "tick"}, []string{"op", "ares", "h0"}, []string{"op", "ares", "h0"}, []string{"op", "tick"})
				c20rExec(tr, verifh.Case{Ops: ops})
				tr.Count("reload_nonempty_cases", 1)
			}
		}
	}
	// (c) random schedules
	rnd := verifh.NewRand(verifh.Seed(), "c20reload")
	for n := 0; n < verifh.Scale(60, 1500); n++ {
		var ops [][]string
		for j := 0; j < 3+rnd.Intn(10); j++ {
			h := fmt.Sprintf("h%d", rnd.Intn(c20rNTor))
			switch x := rnd.Intn(10); {
			case x < 3:
				ops = append(ops, []string{"op", "add", h})
			case x < 5:
				ops = append(ops, []string{"op", "tick"})
			case x < 7:
				ops = append(ops, []string{"op", "ares", h})
			case x < 8:
				ops = append(ops, []string{"op", "rm", h})
			default:
				ops = append(ops, []string{"op", "reload"})
			}
		}
		c20rExec(tr, verifh.Case{Ops: ops})
		tr.Count("random_cases", 1)
	}
}
