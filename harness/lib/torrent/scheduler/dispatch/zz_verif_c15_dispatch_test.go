//go:build verif

package dispatch

// C15 (third harness, machine prd): the dispatcher's call sites of the piece request manager.
// A peer whose message stream closes is removed by the real feed goroutine (feed -> removePeer ->
// ClearPeer); afterwards none of its requests may be reported pending or failed. Judged by the
// property's predicate on the real Manager's answers (no model replay).

import (
	"fmt"
	"testing"
	"time"

	"github.com/andres-erbsen/clock"
	"github.com/willf/bitset"

	"github.com/uber/kraken/core"
	"github.com/uber/kraken/lib/torrent/scheduler/dispatch/piecerequest"
	"github.com/uber/kraken/lib/torrent/storage/agentstorage"
	"github.com/uber/kraken/utils/verifh"
)

func TestVerif_C15Dispatch(t *testing.T) {
	tr := verifh.Open("prd")
	defer tr.Close()
	if _, replayOnly := verifh.InputCases("prd"); replayOnly {
		return
	}
	for _, limit := range []int{1, 3} {
		for _, variant := range []string{"plain", "rerequest-after-expiry", "two-peers", "origin"} {
			clk := clock.NewMock()
			torrent, cleanup := agentstorage.TorrentFixture(core.SizedBlobFixture(16, 1).MetaInfo)
			d := testDispatcher(Config{AgentPipelineLimit: limit, OriginPipelineLimit: limit, DisableEndgame: true}, clk, torrent)
			full := bitset.New(uint(torrent.NumPieces())).Complement()
			tr.Cfg(fmt.Sprintf("limit=%d", limit), "variant="+variant)
			p, err := d.addPeer(core.PeerIDFixture(), variant == "origin", full, newMockMessages())
			if err != nil {
				t.Fatal(err)
			}
			if _, err := d.maybeRequestMorePieces(p); err != nil {
				t.Fatal(err)
			}
			n1 := len(d.pieceRequestManager.PendingPieces(p.id))
			if n1 > limit {
				tr.PropFail("over-pipeline", fmt.Sprintf("dispatcher reserved %d pieces for one peer, pipeline limit %d", n1, limit))
			}
			var q *peer
			if variant == "two-peers" {
				q, _ = d.addPeer(core.PeerIDFixture(), false, full, newMockMessages())
				d.maybeRequestMorePieces(q)
			}
			if variant == "rerequest-after-expiry" {
				clk.Add(d.pieceRequestTimeout + time.Second)
				d.maybeRequestMorePieces(p) // the same pieces may be requested from the same peer again
			}
			// the peer's connection closes: the real feed loop removes it
			done := make(chan struct{})
			go func() { d.feed(p); close(done) }()
			p.messages.Close()
			select {
			case <-done:
			case <-time.After(5 * time.Second):
				t.Fatal("feed did not return")
			}
			pend := d.pieceRequestManager.PendingPieces(p.id)
			clk.Add(d.pieceRequestTimeout + time.Second)
			bad := 0
			for _, f := range d.pieceRequestManager.GetFailedRequests() {
				if f.PeerID == p.id {
					bad++
				}
			}
			if len(pend) > 0 || bad > 0 {
				tr.PropFail("cleared-peer-reported", fmt.Sprintf(
					"after the dispatcher removed the peer (variant %s) it still has %d pending and %d failed requests", variant, len(pend), bad))
			}
			if q != nil {
				// the other peer's requests are untouched (they expire, they are not removed)
				other := 0
				for _, f := range d.pieceRequestManager.GetFailedRequests() {
					if f.PeerID == q.id && f.Status == piecerequest.StatusExpired {
						other++
					}
				}
				tr.Op([]string{"other-peer"}, fmt.Sprintf("expired=%d", other))
			}
			tr.Op([]string{"removed"}, fmt.Sprintf("reserved=%d", n1), fmt.Sprintf("pending=%d", len(pend)), fmt.Sprintf("failed=%d", bad))
			tr.End()
			d.TearDown()
			cleanup()
		}
	}
}
