//go:build verif

package piecerequest_test

import (
	"fmt"
	"sort"
	"strconv"
	"strings"
	"testing"
	"time"

	"github.com/andres-erbsen/clock"
	"github.com/willf/bitset"

	"github.com/uber/kraken/core"
	"github.com/uber/kraken/lib/torrent/scheduler/dispatch/piecerequest"
	"github.com/uber/kraken/utils/syncutil"
	"github.com/uber/kraken/utils/verifh"
)

// C15 harness: drives piecerequest.Manager through its public API with a clock.Mock.

const (
	c15NumPeers  = 4
	c15NumPieces = 6
)

// c15Clock is a clock.Mock whose Now() is advanced without the 1ms real sleep clock.Mock.Add
// performs after every call (the manager only reads Now()).
type c15Clock struct {
	*clock.Mock
	off time.Duration
}

func (c *c15Clock) Now() time.Time { return c.Mock.Now().Add(c.off) }

var c15Peers = func() []core.PeerID {
	var ps []core.PeerID
	for i := 0; i < c15NumPeers; i++ {
		p, err := core.NewPeerID(strings.Repeat(fmt.Sprintf("%02x", i+1), 20))
		if err != nil {
			panic(err)
		}
		ps = append(ps, p)
	}
	return ps
}()

func c15Peer(tok string) (int, bool) {
	if len(tok) < 2 || tok[0] != 'p' {
		return 0, false
	}
	i, err := strconv.Atoi(tok[1:])
	return i, err == nil && i >= 0 && i < c15NumPeers
}

func c15PeerTok(p core.PeerID) string {
	for i, q := range c15Peers {
		if q == p {
			return fmt.Sprintf("p%d", i)
		}
	}
	return "p?"
}

func c15Piece(tok string) (int, bool) {
	i, err := strconv.Atoi(tok)
	return i, err == nil && i >= 0 && i < c15NumPieces
}

func c15Kv(cfg []string, key string) (string, bool) {
	for _, t := range cfg {
		if strings.HasPrefix(t, key+"=") {
			return t[len(key)+1:], true
		}
	}
	return "", false
}

func c15StatusTok(s piecerequest.Status) string {
	switch s {
	case piecerequest.StatusPending:
		return "pending"
	case piecerequest.StatusExpired:
		return "expired"
	case piecerequest.StatusUnsent:
		return "unsent"
	case piecerequest.StatusInvalid:
		return "invalid"
	}
	return fmt.Sprintf("status%d", int(s))
}

func c15Exec(t *verifh.T, c verifh.Case) {
	pol, ok0 := c15Kv(c.Cfg, "policy")
	ts, ok1 := c15Kv(c.Cfg, "timeout")
	as, ok2 := c15Kv(c.Cfg, "agent")
	os, ok3 := c15Kv(c.Cfg, "origin")
	timeout, e1 := strconv.ParseInt(ts, 10, 64)
	agent, e2 := strconv.Atoi(as)
	origin, e3 := strconv.Atoi(os)
	if !(ok0 && ok1 && ok2 && ok3) || e1 != nil || e2 != nil || e3 != nil {
		return
	}
	policy := map[string]string{"default": piecerequest.DefaultPolicy, "rarest": piecerequest.RarestFirstPolicy}[pol]
	if policy == "" {
		return
	}
	clk := &c15Clock{Mock: clock.NewMock()}
	m, err := piecerequest.NewManager(clk, time.Duration(timeout), policy, agent, origin)
	if err != nil {
		return
	}
	t.Cfg(c.Cfg...)
	usedPeers := map[int]bool{}
	do := func(op []string) {
		if len(op) < 2 || op[0] != "op" {
			return
		}
		switch op[1] {
		case "reserve":
			if len(op) != 7 {
				return
			}
			p, okp := c15Peer(op[2])
			if !okp || (op[3] != "0" && op[3] != "1") || (op[6] != "0" && op[6] != "1") {
				return
			}
			cands := bitset.New(c15NumPieces)
			last := -1
			for _, ct := range verifh.Unlist(op[4]) {
				i, ok := c15Piece(ct)
				if !ok || i <= last {
					return
				}
				last = i
				cands.Set(uint(i))
			}
			cts := verifh.Unlist(op[5])
			if len(cts) != c15NumPieces {
				return
			}
			counters := syncutil.NewCounters(c15NumPieces)
			for i, ct := range cts {
				v, err := strconv.Atoi(ct)
				if err != nil {
					return
				}
				counters.Set(i, v)
			}
			usedPeers[p] = true
			pieces, err := m.ReservePieces(c15Peers[p], op[3] == "1", cands, counters, op[6] == "1")
			if err != nil {
				t.Op(op[1:], "err")
				return
			}
			var toks []string
			for _, i := range pieces {
				toks = append(toks, strconv.Itoa(i))
			}
			t.Op(op[1:], verifh.List(toks))
		case "unsent", "invalid":
			if len(op) != 4 {
				return
			}
			p, okp := c15Peer(op[2])
			i, oki := c15Piece(op[3])
			if !okp || !oki {
				return
			}
			usedPeers[p] = true
			if op[1] == "unsent" {
				m.MarkUnsent(c15Peers[p], i)
			} else {
				m.MarkInvalid(c15Peers[p], i)
			}
			t.Op(op[1:], "ok")
		case "clear":
			if len(op) != 3 {
				return
			}
			if i, ok := c15Piece(op[2]); ok {
				m.Clear(i)
				t.Op(op[1:], "ok")
			}
		case "clearpeer":
			if len(op) != 3 {
				return
			}
			if p, ok := c15Peer(op[2]); ok {
				usedPeers[p] = true
				m.ClearPeer(c15Peers[p])
				t.Op(op[1:], "ok")
			}
		case "pending":
			if len(op) != 3 {
				return
			}
			if p, ok := c15Peer(op[2]); ok {
				usedPeers[p] = true
				var toks []string
				for _, i := range m.PendingPieces(c15Peers[p]) {
					toks = append(toks, strconv.Itoa(i))
				}
				t.Op(op[1:], verifh.List(toks))
			}
		case "failed":
			if len(op) != 2 {
				return
			}
			fs := m.GetFailedRequests()
			sort.Slice(fs, func(a, b int) bool {
				if fs[a].Piece != fs[b].Piece {
					return fs[a].Piece < fs[b].Piece
				}
				pa, pb := c15PeerTok(fs[a].PeerID), c15PeerTok(fs[b].PeerID)
				if pa != pb {
					return pa < pb
				}
				return fs[a].Status < fs[b].Status
			})
			var toks []string
			for _, f := range fs {
				toks = append(toks, fmt.Sprintf("%d:%s:%s", f.Piece, c15PeerTok(f.PeerID), c15StatusTok(f.Status)))
			}
			t.Op(op[1:], verifh.List(toks))
		case "adv":
			if len(op) != 3 {
				return
			}
			d, err := strconv.ParseInt(op[2], 10, 64)
			if err != nil || d < 0 || d > 1<<50 {
				return
			}
			clk.off += time.Duration(d)
			t.Op(op[1:], "ok")
		}
	}
	for _, op := range c.Ops {
		if p := verifh.Protect(func() { do(op) }); p != "" {
			t.PropFail("panic", verifh.Str(p))
		}
	}
	// drain: read everything back now and once every outstanding request has expired
	if p := verifh.Protect(func() {
		var ps []int
		for p := range usedPeers {
			ps = append(ps, p)
		}
		sort.Ints(ps)
		do([]string{"op", "failed"})
		for _, p := range ps {
			do([]string{"op", "pending", fmt.Sprintf("p%d", p)})
		}
		if timeout >= 0 && timeout < 1<<40 {
			do([]string{"op", "adv", strconv.FormatInt(timeout+1, 10)})
			do([]string{"op", "failed"})
		}
	}); p != "" {
		t.PropFail("panic", verifh.Str(p))
	}
	t.End()
}

func c15Cfg(policy string, timeout int64, agent, origin int) []string {
	return []string{"policy=" + policy, fmt.Sprintf("timeout=%d", timeout), fmt.Sprintf("agent=%d", agent),
		fmt.Sprintf("origin=%d", origin)}
}

func c15Op(toks ...string) []string { return append([]string{"op"}, toks...) }

const c15Zero = "0,0,0,0,0,0"

func TestVerif_C15(t *testing.T) {
	tr := verifh.Open("pr")
	defer tr.Close()
	cases, replayOnly := verifh.InputCases("pr")
	for _, c := range cases {
		c15Exec(tr, c)
		tr.Count("corpus_or_replay_cases", 1)
	}
	if replayOnly {
		return
	}
	exhaust := func(name string, cfg []string, alpha [][]string, depth int) {
		var rec func(ops [][]string, d int)
		rec = func(ops [][]string, d int) {
			if d == 0 {
				c15Exec(tr, verifh.Case{Cfg: cfg, Ops: ops})
				tr.Count("exhaustive_"+name, 1)
				return
			}
			for _, o := range alpha {
				rec(append(ops[:len(ops):len(ops)], o), d-1)
			}
		}
		for d := 0; d <= depth; d++ {
			rec(nil, d)
		}
	}
	// (a1) timeout 5ns, two agents and pieces 0,1: reservations (plain and endgame), marks, clears,
	// peer removal and clock advances across the timeout
	alpha := [][]string{
		c15Op("reserve", "p0", "0", "0,1", c15Zero, "0"), c15Op("reserve", "p0", "0", "0", c15Zero, "1"),
		c15Op("reserve", "p1", "0", "0,1", c15Zero, "0"), c15Op("reserve", "p1", "0", "0", c15Zero, "1"),
		c15Op("unsent", "p0", "0"), c15Op("invalid", "p0", "1"), c15Op("clear", "0"), c15Op("clearpeer", "p0"),
		c15Op("adv", "5"), c15Op("adv", "1"), c15Op("pending", "p0"), c15Op("failed"),
	}
	for _, lim := range []int{1, 2} {
		exhaust(fmt.Sprintf("limit%d", lim), c15Cfg("default", 5, lim, lim), alpha, verifh.Scale(4, 5))
	}
	// (a2) the re-reservation / peer removal neighbourhood, deeper
	alphaRe := [][]string{
		c15Op("reserve", "p0", "0", "0", c15Zero, "0"), c15Op("reserve", "p1", "0", "0", c15Zero, "1"),
		c15Op("adv", "6"), c15Op("clearpeer", "p0"), c15Op("unsent", "p0", "0"), c15Op("failed"), c15Op("pending", "p0"),
	}
	exhaust("rereserve", c15Cfg("default", 5, 1, 1), alphaRe, verifh.Scale(5, 7))
	exhaust("rereserve_rarest", c15Cfg("rarest", 5, 2, 1), alphaRe, verifh.Scale(5, 6))

	// (b) random long histories: 4 peers (p3 is the origin), 6 pieces, both policies
	r := verifh.NewRand(verifh.Seed(), "c15")
	for i := 0; i < verifh.Scale(3000, 150000); i++ {
		policy := r.Pick("default", "rarest")
		timeout := []int64{5, 5, 10, 0, 1000}[r.Intn(5)]
		agent := []int{1, 2, 3, 3, 0, 6}[r.Intn(6)]
		origin := []int{1, 2, 4, 0}[r.Intn(4)]
		if r.Chance(1, 40) {
			agent = -1
		}
		if r.Chance(1, 60) {
			timeout = -2
		}
		np := 2 + r.Intn(c15NumPeers-1)
		var ops [][]string
		n := 5 + r.Intn(50)
		pt := func() string { return fmt.Sprintf("p%d", r.Intn(np)) }
		for j := 0; j < n; j++ {
			var o []string
			switch x := r.Intn(100); {
			case x < 40:
				p := r.Intn(np)
				isOrigin := p == 3
				if r.Chance(1, 50) {
					isOrigin = !isOrigin // malformed: the peer's kind changes
					tr.Count("random_kind_flip", 1)
				}
				var cands, cnts []string
				for k := 0; k < c15NumPieces; k++ {
					if r.Chance(1, 2) {
						cands = append(cands, strconv.Itoa(k))
					}
					cnts = append(cnts, strconv.Itoa(r.Intn(4)))
				}
				o = c15Op("reserve", fmt.Sprintf("p%d", p), verifh.Bool(isOrigin), verifh.List(cands), strings.Join(cnts, ","),
					verifh.Bool(r.Chance(1, 4)))
			case x < 48:
				o = c15Op("unsent", pt(), strconv.Itoa(r.Intn(c15NumPieces)))
			case x < 54:
				o = c15Op("invalid", pt(), strconv.Itoa(r.Intn(c15NumPieces)))
			case x < 62:
				o = c15Op("clear", strconv.Itoa(r.Intn(c15NumPieces)))
			case x < 70:
				o = c15Op("clearpeer", pt())
			case x < 76:
				o = c15Op("pending", pt())
			case x < 82:
				o = c15Op("failed")
			default:
				var d int64
				switch r.Intn(5) {
				case 0:
					d = 0
				case 1:
					d = 1
				case 2:
					d = timeout - 1
				case 3:
					d = timeout
				case 4:
					d = timeout + 1
				}
				if d < 0 {
					d = 0
				}
				o = c15Op("adv", strconv.FormatInt(d, 10))
			}
			ops = append(ops, o)
			tr.Count("random_op_"+o[1], 1)
		}
		if r.Chance(1, 20) {
			ops = append(ops, c15Op("reserve", "p9", "0", "0", c15Zero, "0"), c15Op("clear", "99"), c15Op("adv", "x"))
			tr.Count("random_malformed", 1)
		}
		cs := verifh.Case{Cfg: c15Cfg(policy, timeout, agent, origin), Ops: ops}
		if i < 2 {
			tr.Sample(fmt.Sprint(cs.Cfg, cs.Ops))
		}
		c15Exec(tr, cs)
		tr.Count("random_cases", 1)
	}
}
