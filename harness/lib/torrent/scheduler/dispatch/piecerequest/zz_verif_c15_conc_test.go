//go:build verif

package piecerequest_test

// C15 (second harness, machine prc): the Manager's mutex. Several goroutines, one per peer, issue
// random operations against one Manager at the same time (clock frozen, so nothing expires). There
// is no sequential model to replay against; the implementation is judged by the property's own
// predicates, each evaluated where it is interleaving-independent:
//   - a ReservePieces answer never leaves its own peer above its pipeline limit (only the owner
//     reserves for a peer; the others can only take requests away) and names distinct candidate pieces;
//   - right after the owner's ClearPeer none of the peer's requests is pending or failed;
//   - at the end (quiescent) no piece is pending for two peers.
// The thorough tier builds this with -race.

import (
	"fmt"
	"sync"
	"testing"
	"time"

	"github.com/andres-erbsen/clock"
	"github.com/willf/bitset"

	"github.com/uber/kraken/lib/torrent/scheduler/dispatch/piecerequest"
	"github.com/uber/kraken/utils/syncutil"
	"github.com/uber/kraken/utils/verifh"
)

func TestVerif_C15Concurrent(t *testing.T) {
	tr := verifh.Open("prc")
	defer tr.Close()
	if _, replayOnly := verifh.InputCases("prc"); replayOnly {
		return
	}
	const np, pieces = 4, 12
	for round := 0; round < verifh.Scale(40, 400); round++ {
		limit := 1 + round%3
		policy := []string{piecerequest.DefaultPolicy, piecerequest.RarestFirstPolicy}[round%2]
		m, err := piecerequest.NewManager(clock.NewMock(), time.Hour, policy, limit, limit)
		if err != nil {
			t.Fatal(err)
		}
		tr.Cfg(fmt.Sprintf("limit=%d", limit), "policy="+policy)
		var wg sync.WaitGroup
		var mu sync.Mutex
		fails := map[string]string{}
		fail := func(key, detail string) {
			mu.Lock()
			if _, ok := fails[key]; !ok {
				fails[key] = detail
			}
			mu.Unlock()
		}
		counts := make([]int, np)
		for g := 0; g < np; g++ {
			wg.Add(1)
			go func(g int) {
				defer wg.Done()
				r := verifh.NewRand(verifh.Seed(), fmt.Sprintf("c15c-%d-%d", round, g))
				me := c15Peers[g]
				counters := syncutil.NewCounters(pieces)
				for k := 0; k < 300; k++ {
					switch x := r.Intn(100); {
					case x < 45:
						cands := bitset.New(pieces)
						for i := 0; i < pieces; i++ {
							if r.Chance(1, 2) {
								cands.Set(uint(i))
							}
						}
						got, err := m.ReservePieces(me, false, cands, counters, false)
						if err != nil {
							fail("panic", "ReservePieces error "+err.Error())
							continue
						}
						seen := map[int]bool{}
						for _, i := range got {
							if seen[i] || !cands.Test(uint(i)) {
								fail("duplicate-request", fmt.Sprintf("ReservePieces returned piece %d twice or outside the candidates", i))
							}
							seen[i] = true
						}
						if n := len(m.PendingPieces(me)); n > limit {
							fail("over-pipeline", fmt.Sprintf("a peer has %d unexpired pending requests, pipeline limit %d", n, limit))
						}
						counts[g] += len(got)
					case x < 60:
						m.MarkUnsent(me, r.Intn(pieces))
					case x < 70:
						m.MarkInvalid(me, r.Intn(pieces))
					case x < 80:
						m.Clear(r.Intn(pieces))
					case x < 90:
						m.ClearPeer(me)
						if n := len(m.PendingPieces(me)); n > 0 {
							fail("cleared-peer-reported", fmt.Sprintf("%d pieces pending right after ClearPeer", n))
						}
						for _, f := range m.GetFailedRequests() {
							if f.PeerID == me {
								fail("cleared-peer-reported", "a request of the peer is reported failed right after ClearPeer")
							}
						}
					default:
						m.GetFailedRequests()
						m.PendingPieces(c15Peers[r.Intn(np)])
					}
				}
			}(g)
		}
		wg.Wait()
		owner := map[int]int{}
		for g := 0; g < np; g++ {
			for _, i := range m.PendingPieces(c15Peers[g]) {
				if o, ok := owner[i]; ok {
					fail("duplicate-request", fmt.Sprintf("piece %d is pending for p%d and p%d outside endgame", i, o, g))
				}
				owner[i] = g
			}
		}
		total := 0
		for _, c := range counts {
			total += c
		}
		for k, d := range fails {
			tr.PropFail(k, verifh.Str(d))
		}
		tr.Op([]string{"concurrent"}, fmt.Sprintf("reserved=%d", total), fmt.Sprintf("pending=%d", len(owner)))
		tr.End()
	}
}
