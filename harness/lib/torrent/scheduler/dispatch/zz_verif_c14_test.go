//go:build verif

package dispatch

// C14 harness (dispatch part): feeds arbitrary peer messages — every type, with the sub-message absent
// or with arbitrary index/offset/length values — and arbitrary handshake bitfields to a real Dispatcher
// over a real agent torrent (download in progress) or a real origin torrent, through the unexported
// entry points the connection feeds (`addPeer`, `dispatch`). A panic is an observation; after every
// operation the torrent bitfield, every peer's bitfield and the per-piece peer counters are recorded.

import (
	"bytes"
	"encoding/binary"
	"fmt"
	"io"
	"strconv"
	"strings"
	"sync"
	"testing"

	"github.com/andres-erbsen/clock"
	"github.com/uber-go/tally"
	"github.com/uber/kraken/core"
	"github.com/uber/kraken/gen/go/proto/p2p"
	"github.com/uber/kraken/lib/store"
	"github.com/uber/kraken/lib/torrent/networkevent"
	"github.com/uber/kraken/lib/torrent/scheduler/conn"
	"github.com/uber/kraken/lib/torrent/scheduler/torrentlog"
	"github.com/uber/kraken/lib/torrent/storage"
	"github.com/uber/kraken/lib/torrent/storage/agentstorage"
	"github.com/uber/kraken/lib/torrent/storage/originstorage"
	"github.com/uber/kraken/lib/torrent/storage/piecereader"
	"github.com/uber/kraken/tracker/metainfoclient"
	"github.com/uber/kraken/utils/verifh"
	"github.com/willf/bitset"
	"go.uber.org/zap"
)

const c14Machine = "disp"
const c14PieceLen = 4

type c14Events struct{}

func (c14Events) DispatcherComplete(*Dispatcher)         {}
func (c14Events) PeerRemoved(core.PeerID, core.InfoHash) {}

type c14Msgs struct {
	mu     sync.Mutex
	sent   []*conn.Message
	closed bool
	recv   chan *conn.Message
}

func (m *c14Msgs) Send(msg *conn.Message) error {
	m.mu.Lock()
	defer m.mu.Unlock()
	m.sent = append(m.sent, msg)
	return nil
}
func (m *c14Msgs) Receiver() <-chan *conn.Message { return m.recv }
func (m *c14Msgs) Close() {
	m.mu.Lock()
	defer m.mu.Unlock()
	m.closed = true
}
func (m *c14Msgs) drain() []*conn.Message {
	m.mu.Lock()
	defer m.mu.Unlock()
	s := m.sent
	m.sent = nil
	return s
}

type c14Blob struct {
	content []byte
	mi      *core.MetaInfo
}

var c14Blobs = map[int]*c14Blob{}

func c14BlobFor(np int) *c14Blob {
	if b, ok := c14Blobs[np]; ok {
		return b
	}
	r := verifh.NewRand(uint64(4000+np), "c14blob")
	content := r.Bytes(np*c14PieceLen - (np-1)%2)
	d, err := core.NewDigester().FromBytes(content)
	if err != nil {
		panic(err)
	}
	mi, err := core.NewMetaInfo(d, bytes.NewReader(content), c14PieceLen)
	if err != nil {
		panic(err)
	}
	b := &c14Blob{content, mi}
	c14Blobs[np] = b
	return b
}

func (b *c14Blob) piece(i int) []byte {
	if i < 0 || i >= b.mi.NumPieces() {
		return nil
	}
	s := i * c14PieceLen
	return b.content[s : s+int(b.mi.GetPieceLength(i))]
}

// storage shared by all cases (files are deleted between cases)
type c14Stores struct {
	cads    *store.CADownloadStore
	cas     *store.CAStore
	mic     *metainfoclient.TestClient
	ta      *agentstorage.TorrentArchive
	cleanup []func()
}

var c14St *c14Stores

func c14Storage() *c14Stores {
	if c14St != nil {
		return c14St
	}
	cads, c1 := store.CADownloadStoreFixture()
	cas, c2 := store.CAStoreFixture()
	mic := metainfoclient.NewTestClient()
	c14St = &c14Stores{cads: cads, cas: cas, mic: mic, ta: agentstorage.NewTorrentArchive(tally.NoopScope, cads, mic),
		cleanup: []func(){c1, c2}}
	return c14St
}

func c14Torrent(kind string, np int, have []int) storage.Torrent {
	st := c14Storage()
	b := c14BlobFor(np)
	name := b.mi.Digest().Hex()
	if kind == "origin" {
		if _, err := st.cas.GetCacheFileStat(name); err != nil {
			if err := st.cas.CreateCacheFile(name, bytes.NewReader(b.content)); err != nil {
				panic(err)
			}
		}
		t, err := originstorage.NewTorrent(st.cas, b.mi)
		if err != nil {
			panic(err)
		}
		return t
	}
	st.cads.Any().DeleteFile(name)
	st.mic.Upload(b.mi) // "already exists" after the first time
	t, err := st.ta.CreateTorrent("verif", b.mi.Digest())
	if err != nil {
		panic(err)
	}
	for _, i := range have {
		if err := t.WritePiece(piecereader.NewBuffer(b.piece(i)), i); err != nil {
			panic(err)
		}
	}
	return t
}

type c14Run struct {
	tr    *verifh.T
	d     *Dispatcher
	np    int
	blob  *c14Blob
	peers map[string]*peer
	msgs  map[string]*c14Msgs
	order []string
	stop  bool // a panic ends the case
}

func c14Ints(tok string) ([]int, bool) {
	var out []int
	for _, t := range verifh.Unlist(tok) {
		n, err := strconv.Atoi(t)
		if err != nil {
			return nil, false
		}
		out = append(out, n)
	}
	return out, true
}

func c14IntList(xs []int) string {
	var s []string
	for _, x := range xs {
		s = append(s, strconv.Itoa(x))
	}
	return verifh.List(s)
}

func c14Bits(b *bitset.BitSet) string {
	var set []int
	for i, e := b.NextSet(0); e; i, e = b.NextSet(i + 1) {
		set = append(set, int(i))
	}
	return fmt.Sprintf("%d/%s", b.Len(), c14IntList(set))
}

func (r *c14Run) status() {
	obs := []string{"have=" + c14Bits(r.d.torrent.Bitfield())}
	for _, name := range r.order {
		bf := r.peers[name].bitfield
		var set []int
		for _, i := range bf.GetAllSet() {
			set = append(set, int(i))
		}
		obs = append(obs, fmt.Sprintf("%s=%d/%s", name, bf.Len(), c14IntList(set)))
	}
	var cnt []int
	for i := 0; i < r.d.numPeersByPiece.Len(); i++ {
		cnt = append(cnt, r.d.numPeersByPiece.Get(i))
	}
	obs = append(obs, "cnt="+c14IntList(cnt))
	r.tr.Rec("st", nil, obs)
}

// triple parses "nil" or "a:b:c" (n fields)
func c14Fields(tok string, n int) ([]int32, bool, bool) {
	if tok == "nil" {
		return nil, true, true
	}
	parts := strings.Split(tok, ":")
	if len(parts) != n {
		return nil, false, false
	}
	var out []int32
	for _, p := range parts {
		v, err := strconv.ParseInt(p, 10, 32)
		if err != nil {
			return nil, false, false
		}
		out = append(out, int32(v))
	}
	return out, false, true
}

func (r *c14Run) do(op []string) bool {
	if len(op) < 3 || op[0] != "op" {
		return false
	}
	switch op[1] {
	case "addpeer":
		// op addpeer <name> <len> <bits>
		if len(op) != 5 {
			return false
		}
		name := op[2]
		l, err := strconv.Atoi(op[3])
		bits, ok := c14Ints(op[4])
		if err != nil || !ok || l < 0 || l > 4096 || !strings.HasPrefix(name, "p") {
			return false
		}
		b := bitset.New(uint(l))
		for _, i := range bits {
			if i < 0 || i >= l {
				return false
			}
			b.Set(uint(i))
		}
		id, err := core.HashedPeerID("verif-" + name)
		if err != nil {
			panic(err)
		}
		m := &c14Msgs{recv: make(chan *conn.Message)}
		var p *peer
		var aerr error
		if pm := verifh.Protect(func() { p, aerr = r.d.addPeer(id, false, b, m) }); pm != "" {
			r.tr.Op(op[1:], "panic")
			r.tr.PropFail("panic", "addpeer", verifh.Str(pm))
			r.stop = true
			return false
		}
		if aerr != nil {
			r.tr.Op(op[1:], "err")
			break
		}
		if _, dup := r.peers[name]; !dup {
			r.order = append(r.order, name)
		}
		r.peers[name], r.msgs[name] = p, m
		r.tr.Op(op[1:], "ok")
	case "addpeer_wire":
		// op addpeer_wire <name> <hex of the serialized bitfield>: the bitfield is decoded by the real decoder
		// (bitset.UnmarshalBinary, as the handshake does), which does not clear the bits of the last word
		// beyond the declared length
		if len(op) != 4 {
			return false
		}
		name := op[2]
		raw, err := verifh.Unhex(op[3])
		if err != nil || len(raw) < 8 || len(raw) > 8+64 || !strings.HasPrefix(name, "p") {
			return false
		}
		if n := binary.BigEndian.Uint64(raw); n > 8*uint64(len(raw)-8) {
			return false // the handshake rejects these before decoding
		}
		b := bitset.New(0)
		if err := b.UnmarshalBinary(raw); err != nil {
			r.tr.Op(op[1:], "undecodable")
			break
		}
		id, err := core.HashedPeerID("verif-" + name)
		if err != nil {
			panic(err)
		}
		m := &c14Msgs{recv: make(chan *conn.Message)}
		var p *peer
		var aerr error
		if pm := verifh.Protect(func() { p, aerr = r.d.addPeer(id, false, b, m) }); pm != "" {
			r.tr.Op(op[1:], "panic")
			r.tr.PropFail("panic", "addpeer_wire", verifh.Str(pm))
			r.stop = true
			return false
		}
		if aerr != nil {
			r.tr.Op(op[1:], "err")
			break
		}
		if _, dup := r.peers[name]; !dup {
			r.order = append(r.order, name)
		}
		r.peers[name], r.msgs[name] = p, m
		r.tr.Op(op[1:], "ok")
	case "close":
		// op close <peer>: the connection of the peer ended; the feed loop calls removePeer
		p, ok := r.peers[op[2]]
		if !ok || len(op) != 3 {
			return false
		}
		if pm := verifh.Protect(func() { r.d.removePeer(p) }); pm != "" {
			r.tr.Op(op[1:], "panic")
			r.tr.PropFail("panic", "removePeer", verifh.Str(pm))
			r.stop = true
			return false
		}
		delete(r.peers, op[2])
		delete(r.msgs, op[2])
		for i, n := range r.order {
			if n == op[2] {
				r.order = append(r.order[:i:i], r.order[i+1:]...)
				break
			}
		}
		r.tr.Op(op[1:], "ok")
	case "msg":
		// op msg <peer> <type> <fields> [data]
		if len(op) < 5 {
			return false
		}
		p, ok := r.peers[op[2]]
		if !ok {
			return false
		}
		msg := &conn.Message{Message: &p2p.Message{}}
		var f []int32
		var isNil, okf bool
		switch op[3] {
		case "announce":
			msg.Message.Type = p2p.Message_ANNOUCE_PIECE
			if f, isNil, okf = c14Fields(op[4], 1); !okf {
				return false
			}
			if !isNil {
				msg.Message.AnnouncePiece = &p2p.AnnouncePieceMessage{Index: f[0]}
			}
		case "request":
			msg.Message.Type = p2p.Message_PIECE_REQUEST
			if f, isNil, okf = c14Fields(op[4], 3); !okf {
				return false
			}
			if !isNil {
				msg.Message.PieceRequest = &p2p.PieceRequestMessage{Index: f[0], Offset: f[1], Length: f[2]}
			}
		case "payload":
			// data: good (the piece's bytes, padded/truncated to the declared length when that differs),
			// bad (same, first byte flipped), short (one byte less than declared)
			msg.Message.Type = p2p.Message_PIECE_PAYLOAD
			if f, isNil, okf = c14Fields(op[4], 3); !okf || len(op) != 6 {
				return false
			}
			n := 0
			var src []byte
			if !isNil {
				msg.Message.PiecePayload = &p2p.PiecePayloadMessage{Index: f[0], Offset: f[1], Length: f[2]}
				n = int(f[2])
				src = r.blob.piece(int(f[0]))
			}
			if n < 0 || n > 1<<16 {
				n = 0
			}
			data := make([]byte, n)
			copy(data, src)
			switch op[5] {
			case "good":
			case "bad":
				if len(data) > 0 {
					data[0] ^= 0xff
				}
			case "short":
				if len(data) > 0 {
					data = data[:len(data)-1]
				}
			default:
				return false
			}
			msg.Payload = piecereader.NewBuffer(data)
		case "error":
			msg.Message.Type = p2p.Message_ERROR
			if f, isNil, okf = c14Fields(op[4], 2); !okf {
				return false
			}
			if !isNil {
				msg.Message.Error = &p2p.ErrorMessage{Code: p2p.ErrorMessage_ErrorCode(f[0]), Index: f[1], Error: "verif"}
			}
		case "cancel":
			msg.Message.Type = p2p.Message_CANCEL_PIECE
			if f, isNil, okf = c14Fields(op[4], 1); !okf {
				return false
			}
			if !isNil {
				msg.Message.CancelPiece = &p2p.CancelPieceMessage{Index: f[0]}
			}
		case "bitfield":
			msg.Message.Type = p2p.Message_BITFIELD
			if op[4] != "nil" {
				msg.Message.Bitfield = &p2p.BitfieldMessage{PeerID: "x", BitfieldBytes: []byte{1, 2, 3}}
			}
		case "complete":
			msg.Message.Type = p2p.Message_COMPLETE
		case "type":
			n, err := strconv.ParseInt(op[4], 10, 32)
			if err != nil {
				return false
			}
			msg.Message.Type = p2p.Message_Type(n)
		default:
			return false
		}
		m := r.msgs[op[2]]
		m.drain()
		var derr error
		if pm := verifh.Protect(func() { derr = r.d.dispatch(p, msg) }); pm != "" {
			r.tr.Op(op[1:], "panic")
			r.tr.PropFail("panic", op[3], verifh.Str(op[4]), verifh.Str(pm))
			r.stop = true
			return false
		}
		res := "ok"
		if derr != nil {
			res = "unknown"
		}
		sent := "none"
		for _, s := range m.drain() {
			switch s.Message.Type {
			case p2p.Message_PIECE_PAYLOAD:
				// what the connection would put on the wire: the bytes of the reader
				data, rerr := io.ReadAll(s.Payload)
				s.Payload.Close()
				idx := int(s.Message.PiecePayload.Index)
				sent = fmt.Sprintf("payload:%d:%d", idx, len(data))
				if rerr != nil || !bytes.Equal(data, r.blob.piece(idx)) || idx < 0 || idx >= r.np ||
					int(s.Message.PiecePayload.Length) != len(data) {
					r.tr.PropFail("read-outside-piece", fmt.Sprintf("piece=%d", idx), fmt.Sprintf("got=%d", len(data)), verifh.Hex(data))
				}
			case p2p.Message_ERROR:
				sent = fmt.Sprintf("error:%d", s.Message.Error.Index)
			}
		}
		m.mu.Lock()
		cl := m.closed
		m.mu.Unlock()
		r.tr.Op(op[1:], res, "sent="+sent, "closed="+verifh.Bool(cl))
	default:
		return false
	}
	r.status()
	// every complete piece holds exactly the blob's bytes (a payload written outside its piece, or into
	// another piece, shows here)
	tb := r.d.torrent.Bitfield()
	for i := 0; i < r.np; i++ {
		if !tb.Test(uint(i)) {
			continue
		}
		pr, err := r.d.torrent.Torrent.GetPieceReader(i)
		if err != nil {
			r.tr.PropFail("piece-unreadable", strconv.Itoa(i))
			continue
		}
		data, _ := io.ReadAll(pr)
		pr.Close()
		if !bytes.Equal(data, r.blob.piece(i)) {
			r.tr.PropFail("write-outside-piece", fmt.Sprintf("piece=%d", i), verifh.Hex(data))
		}
	}
	// property predicates on the state the implementation is in now
	if n := int(r.d.torrent.Bitfield().Len()); n != r.np {
		r.tr.PropFail("torrent-bitfield-resized", strconv.Itoa(n))
	}
	for _, name := range r.order {
		bf := r.peers[name].bitfield
		if n := int(bf.Len()); n > r.np {
			r.tr.PropFail("peer-bitfield-beyond-torrent", name, strconv.Itoa(n))
		}
		for _, i := range bf.GetAllSet() {
			if i >= bf.Len() {
				r.tr.PropFail("peer-bit-beyond-length", name, fmt.Sprintf("bit=%d", i), fmt.Sprintf("len=%d", bf.Len()))
				break
			}
		}
	}
	return true
}

func c14Exec(tr *verifh.T, c verifh.Case) {
	kind, np := "agent", 3
	var have []int
	for _, t := range c.Cfg {
		kv := strings.SplitN(t, "=", 2)
		if len(kv) != 2 {
			continue
		}
		switch kv[0] {
		case "kind":
			kind = kv[1]
		case "np":
			np, _ = strconv.Atoi(kv[1])
		case "have":
			have, _ = c14Ints(kv[1])
		}
	}
	if np < 1 || np > 8 || (kind != "agent" && kind != "origin") {
		return
	}
	for _, i := range have {
		if i < 0 || i >= np {
			return
		}
	}
	if kind == "origin" {
		have = nil
		for i := 0; i < np; i++ {
			have = append(have, i)
		}
	}
	t := c14Torrent(kind, np, have)
	d, err := newDispatcher(Config{}, tally.NoopScope, clock.NewMock(), networkevent.NewTestProducer(), c14Events{},
		core.PeerIDFixture(), t, zap.NewNop().Sugar(), torrentlog.NewNopLogger())
	if err != nil {
		panic(err)
	}
	r := &c14Run{tr: tr, d: d, np: np, blob: c14BlobFor(np), peers: map[string]*peer{}, msgs: map[string]*c14Msgs{}}
	tr.Cfg("kind="+kind, fmt.Sprintf("np=%d", np), "have="+c14IntList(have))
	for _, op := range c.Ops {
		r.do(op)
		if r.stop {
			break
		}
	}
	tr.End()
}

// the values a remote peer may put into an int32 field, relative to a torrent of np pieces
func c14IndexValues(np int) []int {
	return []int{-2147483648, -2, -1, 0, 1, np - 1, np, np + 1, 64, 2147483647}
}

func c14LenValues(pl int) []int {
	return []int{-2147483648, -1, 0, 1, pl - 1, pl, pl + 1, 65536, 2147483647}
}

func TestVerif_C14Dispatch(t *testing.T) {
	tr := verifh.Open(c14Machine)
	defer tr.Close()
	defer func() {
		if c14St != nil {
			for _, c := range c14St.cleanup {
				c()
			}
		}
	}()
	cases, replayOnly := verifh.InputCases(c14Machine)
	for _, c := range cases {
		c14Exec(tr, c)
		tr.Count("corpus_or_replay_cases", 1)
	}
	if replayOnly {
		return
	}
	cfgs := [][]string{
		{"kind=agent", "np=3", "have=0,2"}, {"kind=agent", "np=3", "have=-"}, {"kind=agent", "np=1", "have=-"},
		{"kind=agent", "np=2", "have=0"}, {"kind=origin", "np=3"}, {"kind=origin", "np=1"},
	}
	npOf := func(cfg []string) int { n, _ := strconv.Atoi(strings.TrimPrefix(cfg[1], "np=")); return n }
	// (a) exhaustive over single messages: every type × nil body × every boundary value of every field,
	// each followed by a well-formed request from a second peer (the dispatcher must still serve it)
	for _, cfg := range cfgs {
		np := npOf(cfg)
		var msgs [][]string
		for _, ty := range []string{"announce", "request", "payload", "error", "cancel", "bitfield"} {
			msgs = append(msgs, []string{ty, "nil"})
		}
		msgs = append(msgs, []string{"bitfield", "x"}, []string{"complete", "-"})
		for _, ty := range []int{-1, 7, 8, 100, 2147483647} {
			msgs = append(msgs, []string{"type", strconv.Itoa(ty)})
		}
		for _, i := range c14IndexValues(np) {
			msgs = append(msgs, []string{"announce", strconv.Itoa(i)}, []string{"cancel", strconv.Itoa(i)},
				[]string{"error", fmt.Sprintf("0:%d", i)}, []string{"error", fmt.Sprintf("7:%d", i)})
			for _, off := range []int{0, 1, -1} {
				for _, l := range c14LenValues(c14PieceLen) {
					msgs = append(msgs, []string{"request", fmt.Sprintf("%d:%d:%d", i, off, l)})
					if off == 0 || l == c14PieceLen {
						for _, data := range []string{"good", "bad", "short"} {
							msgs = append(msgs, []string{"payload", fmt.Sprintf("%d:%d:%d", i, off, l), data})
						}
					}
				}
			}
		}
		for _, m := range msgs {
			op := append([]string{"op", "msg", "p0"}, m...)
			if m[0] == "payload" && len(m) == 2 {
				op = append(op, "good")
			}
			ops := [][]string{{"op", "addpeer", "p0", strconv.Itoa(np), "0"}, {"op", "addpeer", "p1", strconv.Itoa(np), "-"}, op,
				{"op", "msg", "p1", "request", fmt.Sprintf("0:0:%d", c14PieceLen)}, {"op", "close", "p0"}, {"op", "close", "p1"}}
			c14Exec(tr, verifh.Case{Cfg: cfg, Ops: ops})
			tr.Count("single_message_cases", 1)
		}
		// handshake bitfields as they come off the wire: declared length l, one 64-bit word with a pattern
		for _, l := range []int{0, 1, np - 1, np, np + 1, 63, 64} {
			if l < 0 {
				continue
			}
			for _, word := range []uint64{0, 1, 1 << uint(np-1), 1 << uint(np), 0xffffffffffffffff, 1 << 40, 1 << 63, 0x5555555555555555} {
				raw := make([]byte, 16)
				binary.BigEndian.PutUint64(raw, uint64(l))
				binary.BigEndian.PutUint64(raw[8:], word)
				if l == 0 {
					raw = raw[:8]
				}
				ops := [][]string{{"op", "addpeer_wire", "p0", verifh.Hex(raw)}, {"op", "addpeer", "p1", strconv.Itoa(np), "-"},
					{"op", "msg", "p1", "request", fmt.Sprintf("0:0:%d", c14PieceLen)}, {"op", "msg", "p0", "complete", "-"}}
				c14Exec(tr, verifh.Case{Cfg: cfg, Ops: ops})
				tr.Count("wire_bitfield_cases", 1)
			}
		}
		// handshake bitfields of every length around the torrent's
		for _, l := range []int{0, 1, np - 1, np, np + 1, 40, 64, 65, 1000} {
			if l < 0 {
				continue
			}
			for _, bits := range [][]int{{}, {0}, {l - 1}, {0, l - 1}} {
				okb := true
				for _, b := range bits {
					if b < 0 || b >= l {
						okb = false
					}
				}
				if !okb {
					continue
				}
				ops := [][]string{{"op", "addpeer", "p0", strconv.Itoa(l), c14IntList(bits)},
					{"op", "addpeer", "p0", strconv.Itoa(np), "-"}, {"op", "addpeer", "p1", strconv.Itoa(np), "-"},
					{"op", "msg", "p1", "request", fmt.Sprintf("0:0:%d", c14PieceLen)}}
				c14Exec(tr, verifh.Case{Cfg: cfg, Ops: ops})
				tr.Count("handshake_bitfield_cases", 1)
			}
		}
	}
	// (b) random message sequences from two peers, field values drawn from the boundary sets and at random
	rnd := verifh.NewRand(verifh.Seed(), "c14disp")
	for n := 0; n < verifh.Scale(500, 40000); n++ {
		cfg := cfgs[rnd.Intn(len(cfgs))]
		np := npOf(cfg)
		val := func(xs []int) int {
			if rnd.Chance(1, 5) {
				return int(int32(rnd.Uint64()))
			}
			return xs[rnd.Intn(len(xs))]
		}
		ops := [][]string{{"op", "addpeer", "p0", strconv.Itoa(np), "-"}}
		if rnd.Chance(1, 2) {
			ops = append(ops, []string{"op", "addpeer", "p1", strconv.Itoa(rnd.Intn(np + 3)), "-"})
		}
		for j := 0; j < 3+rnd.Intn(12); j++ {
			p := rnd.Pick("p0", "p0", "p1")
			i := val(c14IndexValues(np))
			if rnd.Chance(1, 2) {
				i = rnd.Intn(np + 1) // mostly plausible
			}
			l := val(c14LenValues(c14PieceLen))
			if rnd.Chance(1, 2) {
				l = int(c14BlobFor(np).mi.GetPieceLength(i))
			}
			off := []int{0, 0, 0, 1, -1}[rnd.Intn(5)]
			var o []string
			switch x := rnd.Intn(100); {
			case x < 20:
				o = []string{"op", "msg", p, "announce", strconv.Itoa(i)}
			case x < 45:
				o = []string{"op", "msg", p, "request", fmt.Sprintf("%d:%d:%d", i, off, l)}
			case x < 75:
				o = []string{"op", "msg", p, "payload", fmt.Sprintf("%d:%d:%d", i, off, l), rnd.Pick("good", "good", "good", "bad", "short")}
			case x < 80:
				o = []string{"op", "msg", p, "error", fmt.Sprintf("%d:%d", rnd.Intn(3), i)}
			case x < 84:
				o = []string{"op", "msg", p, "complete", "-"}
			case x < 88:
				o = []string{"op", "msg", p, "cancel", strconv.Itoa(i)}
			case x < 92:
				o = []string{"op", "msg", p, rnd.Pick("announce", "request", "error", "cancel", "bitfield"), "nil"}
			case x < 94:
				o = []string{"op", "msg", p, "payload", "nil", "good"}
			case x < 96:
				o = []string{"op", "msg", p, "type", strconv.Itoa(int(int32(rnd.Uint64())))}
			case x < 99:
				o = []string{"op", "addpeer", rnd.Pick("p1", "p2"), strconv.Itoa(rnd.Intn(np + 3)), "-"}
			default:
				o = []string{"op", "close", p, "-"}[:3]
			}
			ops = append(ops, o)
			tr.Count("random_"+o[1], 1)
		}
		if n < 2 {
			tr.Sample(fmt.Sprint(cfg, ops))
		}
		c14Exec(tr, verifh.Case{Cfg: cfg, Ops: ops})
		tr.Count("random_cases", 1)
	}
}
