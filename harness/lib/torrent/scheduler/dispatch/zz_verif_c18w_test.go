//go:build verif

package dispatch

// C18 harness, watcher level (machine "watch"): the real torrentAccessWatcher over a gated storage.Torrent stub and a
// mock clock. Piece writes run on their own goroutines, are parked inside the stub's WritePiece and finish — with
// the result the schedule chose — when the schedule says so, so that writes overlap in every order with clock
// advances in between. After every operation LastWriteTime is read.
// Judged (monitor last-write-time-rolled-back): LastWriteTime never decreases, and after a write that succeeded at
// time t it is at least t. Model: creation time, then the completion time of the latest successful write.

import (
	"errors"
	"fmt"
	"strconv"
	"testing"
	"time"

	"github.com/andres-erbsen/clock"
	"github.com/uber/kraken/lib/torrent/storage"
	"github.com/uber/kraken/utils/verifh"
)

type c18wGate struct {
	storage.Torrent
	entered chan int
	release [2]chan error
}

func (g *c18wGate) WritePiece(src storage.PieceReader, piece int) error {
	g.entered <- piece
	return <-g.release[piece]
}

var errC18wAbandon = errors.New("abandon")

func c18wExec(tr *verifh.T, c verifh.Case) {
	clk := clock.NewMock()
	clk.Set(time.Unix(1000, 0))
	base := clk.Now()
	g := &c18wGate{entered: make(chan int, 2), release: [2]chan error{make(chan error, 1), make(chan error, 1)}}
	w := newTorrentAccessWatcher(g, clk)
	var open [2]bool
	var okRes [2]bool
	var done [2]chan error
	defer func() {
		for k := range open {
			if open[k] {
				g.release[k] <- errors.New("case over")
			}
		}
	}()
	type rec struct {
		op  []string
		obs []string
	}
	var recs []rec
	var fails [][]string
	prev := int64(0)
	abandon := false
	for _, op := range c.Ops {
		if len(op) < 2 || op[0] != "op" {
			continue
		}
		slot := func() (int, bool) {
			if len(op) < 3 {
				return 0, false
			}
			switch op[2] {
			case "a":
				return 0, true
			case "b":
				return 1, true
			}
			return 0, false
		}
		var first []string
		succeededAt := int64(-1)
		switch op[1] {
		case "adv":
			if len(op) != 3 {
				continue
			}
			n, err := strconv.ParseInt(op[2], 10, 64)
			if err != nil || n < 0 || n > 1000000 {
				continue
			}
			clk.Add(time.Duration(n))
		case "start":
			// op start <a|b> <ok|fail>: a piece write begins and stays in flight inside the storage layer
			k, ok := slot()
			if !ok || len(op) != 4 || (op[3] != "ok" && op[3] != "fail") || open[k] {
				continue
			}
			open[k], okRes[k] = true, op[3] == "ok"
			done[k] = make(chan error, 1)
			dc := done[k]
			go func() { dc <- w.WritePiece(nil, k) }()
			select {
			case <-g.entered:
			case <-time.After(20 * time.Second):
				abandon = true
			}
		case "end":
			// op end <a|b>: the write finishes (nil, or ErrPieceComplete for a write chosen to fail)
			k, ok := slot()
			if !ok || len(op) != 3 || !open[k] {
				continue
			}
			open[k] = false
			var res error
			if !okRes[k] {
				res = storage.ErrPieceComplete
			}
			g.release[k] <- res
			select {
			case err := <-done[k]:
				if (err == nil) != okRes[k] {
					first = []string{"unexpected"}
				} else if err == nil {
					first = []string{"ok"}
					succeededAt = clk.Now().Sub(base).Nanoseconds()
				} else {
					first = []string{"failed"}
				}
			case <-time.After(20 * time.Second):
				abandon = true
			}
		default:
			continue
		}
		if abandon {
			break
		}
		lw := w.getLastWriteTime().Sub(base).Nanoseconds()
		if lw < prev {
			fails = append(fails, []string{"last-write-time-rolled-back", fmt.Sprintf("from=%d", prev), fmt.Sprintf("to=%d", lw)})
		} else if succeededAt >= 0 && lw < succeededAt {
			fails = append(fails, []string{"last-write-time-rolled-back", fmt.Sprintf("written-at=%d", succeededAt), fmt.Sprintf("lw=%d", lw)})
		}
		prev = lw
		recs = append(recs, rec{op[1:], append(first, fmt.Sprintf("lw=%d", lw))})
	}
	if abandon {
		// a goroutine did not get scheduled within the deadline: no observation is emitted for this case
		tr.Count("abandoned_cases", 1)
		return
	}
	tr.Cfg()
	for _, r := range recs {
		tr.Op(r.op, r.obs...)
	}
	for _, f := range fails {
		tr.PropFail(f[0], f[1:]...)
	}
	tr.End()
}

func TestVerif_C18Watch(t *testing.T) {
	tr := verifh.Open("watch")
	defer tr.Close()
	cases, replayOnly := verifh.InputCases("watch")
	for _, c := range cases {
		c18wExec(tr, c)
		tr.Count("corpus_or_replay_cases", 1)
	}
	if replayOnly {
		return
	}
	letters := [][]string{
		{"op", "adv", "1"}, {"op", "adv", "3"},
		{"op", "start", "a", "ok"}, {"op", "start", "a", "fail"}, {"op", "start", "b", "ok"}, {"op", "start", "b", "fail"},
		{"op", "end", "a"}, {"op", "end", "b"},
	}
	var rec func(prefix [][]string, d int)
	rec = func(prefix [][]string, d int) {
		if d == 0 {
			c18wExec(tr, verifh.Case{Ops: prefix})
			tr.Count("exhaustive_cases", 1)
			return
		}
		for _, l := range letters {
			rec(append(prefix[:len(prefix):len(prefix)], l), d-1)
		}
	}
	for d := 1; d <= verifh.Scale(4, 5); d++ {
		rec(nil, d)
	}
	// overlapping writes with clock advances between every two steps: a failing write around a good one, and the
	// other way round, at every pair of offsets
	for _, outer := range []string{"fail", "ok"} {
		for _, inner := range []string{"ok", "fail"} {
			for d1 := 0; d1 <= 2; d1++ {
				for d2 := 0; d2 <= 2; d2++ {
					for d3 := 0; d3 <= 2; d3++ {
						ops := [][]string{{"op", "adv", "5"}, {"op", "start", "a", outer}, {"op", "adv", strconv.Itoa(d1)},
							{"op", "start", "b", inner}, {"op", "adv", strconv.Itoa(d2)}, {"op", "end", "b"},
							{"op", "adv", strconv.Itoa(d3)}, {"op", "end", "a"}, {"op", "adv", "2"}}
						c18wExec(tr, verifh.Case{Ops: ops})
						tr.Count("overlap_cases", 1)
					}
				}
			}
		}
	}
}
