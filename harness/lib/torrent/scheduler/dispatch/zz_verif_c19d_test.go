//go:build verif

package dispatch

import (
	"bytes"
	"errors"
	"fmt"
	"sort"
	"strconv"
	"strings"
	"testing"
	"time"

	"github.com/andres-erbsen/clock"
	"github.com/uber-go/tally"
	"github.com/willf/bitset"
	"go.uber.org/zap"

	"github.com/uber/kraken/core"
	"github.com/uber/kraken/gen/go/proto/p2p"
	"github.com/uber/kraken/lib/store"
	"github.com/uber/kraken/lib/torrent/networkevent"
	"github.com/uber/kraken/lib/torrent/scheduler/conn"
	"github.com/uber/kraken/lib/torrent/scheduler/dispatch/piecerequest"
	"github.com/uber/kraken/lib/torrent/scheduler/torrentlog"
	"github.com/uber/kraken/lib/torrent/storage/agentstorage"
	"github.com/uber/kraken/lib/torrent/storage/piecereader"
	"github.com/uber/kraken/tracker/metainfoclient"
	"github.com/uber/kraken/utils/verifh"
)

// C19 dispatch-level harness (machine "dsp"): one real Dispatcher over a real agent torrent, a mock
// clock that only moves on `tick`, fake peers whose messages are recorded. It ties the mechanism
// "invalid piece -> request marked invalid and re-sent to another peer" (handlePiecePayload,
// handleError, resendFailedPieceRequests, piecerequest.Manager) to the swarm model's
// deliver / resolve / expire / resend actions. No goroutine, no timer: fully deterministic apart from
// the piece selection policy's random choices, which the transcript carries.
//
//   addpeer pK <bits> <origin>     d.addPeer
//   more pK                        d.maybeRequestMorePieces(pK)
//   payload pK <i> <hex>           d.handlePiecePayload(pK, i, bytes)
//   error pK <i>                   d.handleError(pK, PIECE_REQUEST_FAILED i)
//   announce pK <i>                d.handleAnnouncePiece(pK, i)
//   resend                         d.resendFailedPieceRequests()
//   tick <ms>                      the mock clock advances
//   state                          observations only
// Every record's observation: has=<bits of the local torrent> sent=<pK:i,…> (PIECE_REQUESTs sent by this
// op, in order) failed=<pK:i:status,…> (piecerequest.Manager.GetFailedRequests, sorted).

type c19dMsgs struct {
	sent   []*conn.Message
	recv   chan *conn.Message
	closed bool
}

func (m *c19dMsgs) Send(msg *conn.Message) error {
	if m.closed {
		return errors.New("messages closed")
	}
	m.sent = append(m.sent, msg)
	return nil
}
func (m *c19dMsgs) Receiver() <-chan *conn.Message { return m.recv }
func (m *c19dMsgs) Close() {
	if !m.closed {
		m.closed = true
		close(m.recv)
	}
}

type c19dEvents struct{}

func (c19dEvents) DispatcherComplete(*Dispatcher)         {}
func (c19dEvents) PeerRemoved(core.PeerID, core.InfoHash) {}

type c19dEnv struct {
	d     *Dispatcher
	clk   *clock.Mock
	peers map[string]*peer
	msgs  map[string]*c19dMsgs
	names map[core.PeerID]string
	order []string
	drawn map[string]int
	np    int
	blob  []byte
	pl    int
	close func()
}

func c19dNew(cfg []string) (*c19dEnv, error) {
	kv := map[string]string{}
	for _, c := range cfg {
		if i := strings.IndexByte(c, '='); i > 0 {
			kv[c[:i]] = c[i+1:]
		}
	}
	pl, err := strconv.Atoi(kv["pl"])
	if err != nil || pl <= 0 {
		return nil, fmt.Errorf("pl")
	}
	blob, err := verifh.Unhex(kv["blob"])
	if err != nil || len(blob) == 0 {
		return nil, fmt.Errorf("blob")
	}
	pipeline, _ := strconv.Atoi(kv["pipeline"])
	if pipeline < 1 {
		return nil, fmt.Errorf("pipeline")
	}
	opipeline, _ := strconv.Atoi(kv["opipeline"])
	if opipeline < 1 {
		opipeline = pipeline + 1
	}
	dg, err := core.NewDigester().FromBytes(blob)
	if err != nil {
		return nil, err
	}
	mi, err := core.NewMetaInfo(dg, bytes.NewReader(blob), int64(pl))
	if err != nil {
		return nil, err
	}
	cads, cleanup := store.CADownloadStoreFixture()
	tc := metainfoclient.NewTestClient()
	if err := tc.Upload(mi); err != nil {
		cleanup()
		return nil, err
	}
	t, err := agentstorage.NewTorrentArchive(tally.NoopScope, cads, tc).CreateTorrent("ns", dg)
	if err != nil {
		cleanup()
		return nil, err
	}
	clk := clock.NewMock()
	clk.Set(time.Unix(1700000000, 0))
	d, err := newDispatcher(
		Config{DisableEndgame: true, AgentPipelineLimit: pipeline, OriginPipelineLimit: opipeline,
			PieceRequestMinTimeout: 4 * time.Second, PieceRequestTimeoutPerMb: time.Millisecond},
		tally.NoopScope, clk, networkevent.NewTestProducer(), c19dEvents{}, core.PeerIDFixture(), t,
		zap.NewNop().Sugar(), torrentlog.NewNopLogger())
	if err != nil {
		cleanup()
		return nil, err
	}
	return &c19dEnv{d: d, clk: clk, peers: map[string]*peer{}, msgs: map[string]*c19dMsgs{}, names: map[core.PeerID]string{},
		drawn: map[string]int{}, np: mi.NumPieces(), blob: blob, pl: pl, close: cleanup}, nil
}

// newly sent piece requests of all peers since the last call, in peer order
func (e *c19dEnv) sent() string {
	var out []string
	for _, n := range e.order {
		m := e.msgs[n]
		for _, msg := range m.sent[e.drawn[n]:] {
			if msg.Message.Type == p2p.Message_PIECE_REQUEST {
				out = append(out, fmt.Sprintf("%s:%d", n, msg.Message.PieceRequest.Index))
			}
		}
		e.drawn[n] = len(m.sent)
	}
	return verifh.List(out)
}

func (e *c19dEnv) failed() string {
	var out []string
	for _, r := range e.d.pieceRequestManager.GetFailedRequests() {
		st := map[piecerequest.Status]string{piecerequest.StatusExpired: "expired", piecerequest.StatusUnsent: "unsent",
			piecerequest.StatusInvalid: "invalid", piecerequest.StatusPending: "pending"}[r.Status]
		out = append(out, fmt.Sprintf("%s:%d:%s", e.names[r.PeerID], r.Piece, st))
	}
	sort.Strings(out)
	return verifh.List(out)
}

func (e *c19dEnv) obs() []string {
	var sb strings.Builder
	b := e.d.torrent.Bitfield()
	for i := 0; i < e.np; i++ {
		if b.Test(uint(i)) {
			sb.WriteByte('1')
		} else {
			sb.WriteByte('0')
		}
	}
	return []string{"has=" + sb.String(), "sent=" + e.sent(), "failed=" + e.failed()}
}

func c19dExec(tr *verifh.T, c verifh.Case) {
	e, err := c19dNew(c.Cfg)
	if err != nil {
		return
	}
	defer e.close()
	tr.Cfg(c.Cfg...)
	atoi := func(s string) (int, bool) { v, err := strconv.Atoi(s); return v, err == nil }
	for _, op := range c.Ops {
		if len(op) < 2 || op[0] != "op" {
			continue
		}
		a := op[1:]
		run := func(f func()) {
			if p := verifh.Protect(f); p != "" {
				tr.Op(a, "panic", verifh.Str(p))
				return
			}
			tr.Op(a, e.obs()...)
		}
		switch {
		case a[0] == "addpeer" && len(a) == 4:
			if e.peers[a[1]] != nil || len(a[2]) != e.np {
				continue
			}
			bits := bitset.New(uint(e.np))
			for i, ch := range a[2] {
				if ch == '1' {
					bits.Set(uint(i))
				}
			}
			m := &c19dMsgs{recv: make(chan *conn.Message)}
			id := core.PeerIDFixture()
			run(func() {
				p, err := e.d.addPeer(id, a[3] == "1", bits, m)
				if err != nil {
					panic(err)
				}
				e.peers[a[1]], e.msgs[a[1]], e.names[id] = p, m, a[1]
				e.order = append(e.order, a[1])
			})
		case a[0] == "more" && len(a) == 2:
			if p := e.peers[a[1]]; p != nil {
				run(func() { e.d.maybeRequestMorePieces(p) })
			}
		case a[0] == "payload" && len(a) == 4:
			p := e.peers[a[1]]
			i, ok := atoi(a[2])
			data, err := verifh.Unhex(a[3])
			if p == nil || !ok || err != nil || i < 0 || i >= e.np {
				continue
			}
			run(func() {
				msg := conn.NewPiecePayloadMessage(i, piecereader.NewBuffer(data))
				e.d.handlePiecePayload(p, msg.Message.PiecePayload, msg.Payload)
			})
		case a[0] == "error" && len(a) == 3:
			p := e.peers[a[1]]
			i, ok := atoi(a[2])
			if p == nil || !ok || i < 0 || i >= e.np {
				continue
			}
			run(func() {
				e.d.handleError(p, conn.NewErrorMessage(i, p2p.ErrorMessage_PIECE_REQUEST_FAILED, errors.New("x")).Message.Error)
			})
		case a[0] == "announce" && len(a) == 3:
			p := e.peers[a[1]]
			i, ok := atoi(a[2])
			if p == nil || !ok || i < 0 || i >= e.np {
				continue
			}
			run(func() { e.d.handleAnnouncePiece(p, conn.NewAnnouncePieceMessage(i).Message.AnnouncePiece) })
		case a[0] == "resend" && len(a) == 1:
			run(func() { e.d.resendFailedPieceRequests() })
		case a[0] == "tick" && len(a) == 2:
			if ms, ok := atoi(a[1]); ok && ms >= 0 && ms <= 3600000 {
				run(func() { e.clk.Add(time.Duration(ms) * time.Millisecond) })
			}
		case a[0] == "state" && len(a) == 1:
			run(func() {})
		}
	}
	tr.Op([]string{"state"}, e.obs()...)
	tr.Op([]string{"done"}, "ok")
	tr.End()
}

func c19dPiece(blob []byte, pl, i int) []byte {
	lo, hi := pl*i, pl*i+pl
	if hi > len(blob) {
		hi = len(blob)
	}
	return blob[lo:hi]
}

func TestVerif_C19Dispatch(t *testing.T) {
	tr := verifh.Open("dsp")
	defer tr.Close()
	cases, replayOnly := verifh.InputCases("dsp")
	for _, c := range cases {
		c19dExec(tr, c)
		tr.Count("corpus_or_replay_cases", 1)
	}
	if replayOnly {
		return
	}
	r := verifh.NewRand(verifh.Seed(), "c19d")
	for it := 0; it < verifh.Scale(300, 20000); it++ {
		pl := 1 + r.Intn(4)
		np := 1 + r.Intn(5)
		blob := r.Bytes(pl*(np-1) + 1 + r.Intn(pl))
		npeers := 1 + r.Intn(4)
		pipeline := 1 + r.Intn(3)
		opipeline := []int{1, pipeline, pipeline + 1}[r.Intn(3)]
		cfg := []string{fmt.Sprintf("pl=%d", pl), "blob=" + verifh.Hex(blob), fmt.Sprintf("pipeline=%d", pipeline),
			fmt.Sprintf("opipeline=%d", opipeline)}
		var ops [][]string
		var names []string
		for k := 0; k < npeers; k++ {
			var sb strings.Builder
			for i := 0; i < np; i++ {
				if r.Chance(3, 4) {
					sb.WriteByte('1')
				} else {
					sb.WriteByte('0')
				}
			}
			n := fmt.Sprintf("p%d", k+1)
			names = append(names, n)
			ops = append(ops, []string{"op", "addpeer", n, sb.String(), verifh.Bool(r.Chance(1, 5))}, []string{"op", "more", n})
		}
		for j, n := 0, 5+r.Intn(40); j < n; j++ {
			pn := names[r.Intn(len(names))]
			i := r.Intn(np)
			switch x := r.Intn(20); {
			case x < 6:
				ops = append(ops, []string{"op", "payload", pn, strconv.Itoa(i), verifh.Hex(c19dPiece(blob, pl, i))})
				tr.Count("op_payload_good", 1)
			case x < 10:
				bad := append([]byte{}, c19dPiece(blob, pl, i)...)
				bad[r.Intn(len(bad))] ^= 0x40
				ops = append(ops, []string{"op", "payload", pn, strconv.Itoa(i), verifh.Hex(bad)})
				tr.Count("op_payload_bad", 1)
			case x < 11:
				ops = append(ops, []string{"op", "payload", pn, strconv.Itoa(i), verifh.Hex(append(c19dPiece(blob, pl, i), 7))})
				tr.Count("op_payload_long", 1)
			case x < 12:
				ops = append(ops, []string{"op", "error", pn, strconv.Itoa(i)})
			case x < 14:
				ops = append(ops, []string{"op", "announce", pn, strconv.Itoa(i)})
			case x < 17:
				ops = append(ops, []string{"op", "resend"})
				tr.Count("op_resend", 1)
			case x < 18:
				ops = append(ops, []string{"op", "tick", strconv.Itoa([]int{1, 1000, 3999, 4001, 10000}[r.Intn(5)])})
			default:
				ops = append(ops, []string{"op", "more", pn})
			}
		}
		if it < 2 {
			tr.Sample(fmt.Sprint(cfg, ops))
		}
		c19dExec(tr, verifh.Case{Cfg: cfg, Ops: ops})
		tr.Count("cases", 1)
	}
}
