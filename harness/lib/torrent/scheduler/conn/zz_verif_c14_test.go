//go:build verif

package conn

// C14 harness (connection part).
//
// machine "wire": arbitrary frames (length prefix, body bytes, payload bytes) are written to one end of
// a net.Pipe and read by the real Conn.readMessage (what the read loop calls) on the other end; observed:
// message delivered / connection error class / panic, and how much the call allocated.
// machine "hs": arbitrary handshake (bitfield) messages through the real handshakeFromP2PMessage.
//
// protobuf decoding is not modelled: the harness decodes the same bytes with proto.Unmarshal and gives the
// decoded view (type, whether the piece-payload body is present, its fields) to the model.

import (
	"encoding/binary"
	"fmt"
	"net"
	"runtime"
	"strconv"
	"strings"
	"testing"
	"time"

	"github.com/golang/protobuf/proto"
	"github.com/uber/kraken/core"
	"github.com/uber/kraken/gen/go/proto/p2p"
	"github.com/uber/kraken/lib/torrent/storage"
	"github.com/uber/kraken/utils/verifh"
	"github.com/willf/bitset"
)

const c14PieceLen = 1024 // piece length of the torrent the connection belongs to

// what one call may allocate at most: the 32 KiB message buffer, one piece, and slack for decoding
const c14AllocBound = 32*1024 + c14PieceLen + 256*1024

var c14Info = func() *storage.TorrentInfo {
	r := verifh.NewRand(77, "c14conn")
	content := r.Bytes(3*c14PieceLen - 100)
	d, err := core.NewDigester().FromBytes(content)
	if err != nil {
		panic(err)
	}
	mi, err := core.NewMetaInfo(d, strings.NewReader(string(content)), c14PieceLen)
	if err != nil {
		panic(err)
	}
	return storage.NewTorrentInfo(mi, bitset.New(uint(mi.NumPieces())))
}()

var c14H = HandshakerFixture(Config{})

func c14Alloc(f func()) uint64 {
	var a, b runtime.MemStats
	runtime.ReadMemStats(&a)
	f()
	runtime.ReadMemStats(&b)
	return b.TotalAlloc - a.TotalAlloc
}

func c14AllocClass(n uint64) string {
	if n > c14AllocBound {
		return "big"
	}
	return "small"
}

func c14ErrClass(err error) string {
	s := err.Error()
	switch {
	case strings.Contains(s, "exceeds max size"):
		return "toolarge"
	case strings.Contains(s, "read message length"):
		return "nolength"
	case strings.Contains(s, "read data"):
		return "shortbody"
	case strings.Contains(s, "proto unmarshal"):
		return "unmarshal"
	case strings.Contains(s, "read payload"):
		return "shortpayload"
	case strings.Contains(s, "piece payload"):
		return "badpayload"
	}
	return "err"
}

// c14Wire executes `one dlen=<declared> body=<hex> pay=<n>`: the frame is the 4-byte length `dlen`, the
// body bytes as given (possibly fewer or more than declared) and `pay` further zero bytes; what follows the
// length prefix is one stream of `avail` bytes, of which the first `dlen` are the message.
func c14Wire(tr *verifh.T, toks []string) {
	var dlen uint64
	var body []byte
	pay := 0
	for _, t := range toks {
		kv := strings.SplitN(t, "=", 2)
		if len(kv) != 2 {
			return
		}
		switch kv[0] {
		case "dlen":
			v, err := strconv.ParseUint(kv[1], 10, 32)
			if err != nil {
				return
			}
			dlen = v
		case "body":
			b, err := verifh.Unhex(kv[1])
			if err != nil {
				return
			}
			body = b
		case "pay":
			v, err := strconv.Atoi(kv[1])
			if err != nil || v < 0 || v > 1<<20 {
				return
			}
			pay = v
		}
	}
	nc1, nc2 := net.Pipe()
	c, err := c14H.newConn(noopDeadline{nc1}, core.PeerIDFixture(), false, c14Info, true)
	if err != nil {
		panic(err)
	}
	// the whole frame is built before the measurement starts (TotalAlloc is process-wide)
	frame := make([]byte, 4, 4+len(body)+pay)
	binary.BigEndian.PutUint32(frame, uint32(dlen))
	frame = append(frame, body...)
	frame = append(frame, make([]byte, pay)...)
	go func() {
		nc2.SetWriteDeadline(time.Now().Add(5 * time.Second))
		nc2.Write(frame)
		nc2.Close()
	}()
	var msg *Message
	var rerr error
	var pm string
	alloc := c14Alloc(func() { pm = verifh.Protect(func() { msg, rerr = c.readMessage() }) })
	nc1.Close()
	// the decoded view of the body, for the model
	view := []string{"parse=na"}
	if dlen <= 32*1024 && uint64(len(frame)-4) >= dlen {
		m := new(p2p.Message)
		if err := proto.Unmarshal(frame[4:4+dlen], m); err != nil {
			view = []string{"parse=err"}
		} else {
			pp := "nil"
			if m.PiecePayload != nil {
				pp = fmt.Sprintf("%d:%d:%d", m.PiecePayload.Index, m.PiecePayload.Offset, m.PiecePayload.Length)
			}
			view = []string{"parse=ok", fmt.Sprintf("typ=%d", int32(m.Type)), "pp=" + pp}
		}
	}
	in := append([]string{fmt.Sprintf("dlen=%d", dlen), fmt.Sprintf("avail=%d", len(frame)-4), fmt.Sprintf("pay=%d", pay),
		fmt.Sprintf("maxpl=%d", c14PieceLen)}, view...)
	in = append(in, "body="+verifh.Hex(body))
	var obs []string
	switch {
	case pm != "":
		obs = []string{"panic"}
	case rerr != nil:
		obs = []string{"close", c14ErrClass(rerr)}
	default:
		pl := "-"
		if msg.Payload != nil {
			pl = strconv.Itoa(msg.Payload.Length())
		}
		obs = []string{"msg", fmt.Sprintf("typ=%d", int32(msg.Message.Type)), "payload=" + pl}
	}
	obs = append(obs, "alloc="+c14AllocClass(alloc))
	tr.One(in, obs...)
	if pm != "" {
		tr.PropFail("panic", "readMessage", verifh.Str(pm))
	}
	if alloc > c14AllocBound {
		tr.PropFail("alloc-unbounded", "readMessage", strconv.FormatUint(alloc, 10))
	}
}

func c14Frame(m *p2p.Message) []byte {
	b, err := proto.Marshal(m)
	if err != nil {
		panic(err)
	}
	return b
}

func c14WireCase(dlen int, body []byte, pay int) []string {
	return []string{"one", fmt.Sprintf("dlen=%d", dlen), "body=" + verifh.Hex(body), fmt.Sprintf("pay=%d", pay)}
}

func TestVerif_C14Wire(t *testing.T) {
	tr := verifh.Open("wire")
	defer tr.Close()
	cases, replayOnly := verifh.InputCases("wire")
	for _, c := range cases {
		for _, op := range c.Ops {
			if len(op) > 1 && op[0] == "one" {
				c14Wire(tr, op[1:])
				tr.Count("corpus_or_replay_cases", 1)
			}
		}
	}
	if replayOnly {
		return
	}
	run := func(dlen int, body []byte, pay int) { c14Wire(tr, c14WireCase(dlen, body, pay)[1:]) }
	lens := []int32{-2147483648, -1, 0, 1, c14PieceLen - 1, c14PieceLen, c14PieceLen + 1, 32 * 1024, 1 << 20, 1 << 26, 1 << 27}
	// (a) every message type with its body absent / present, piece payloads with every boundary length and
	// with fewer / exactly / more payload bytes than declared
	for ty := int32(-1); ty <= 8; ty++ {
		m := &p2p.Message{Type: p2p.Message_Type(ty)}
		b := c14Frame(m)
		run(len(b), b, 0)
		run(len(b), b, 7)
		tr.Count("bare_type_cases", 2)
	}
	bodies := []*p2p.Message{
		{Type: p2p.Message_PIECE_REQUEST, PieceRequest: &p2p.PieceRequestMessage{Index: -1, Offset: -1, Length: -1}},
		{Type: p2p.Message_ANNOUCE_PIECE, AnnouncePiece: &p2p.AnnouncePieceMessage{Index: -1}},
		{Type: p2p.Message_ERROR, Error: &p2p.ErrorMessage{Index: -7, Code: 9, Error: "x"}},
		{Type: p2p.Message_BITFIELD, Bitfield: &p2p.BitfieldMessage{PeerID: "zz", BitfieldBytes: []byte{0xff}}},
		{Type: p2p.Message_PIECE_PAYLOAD, PieceRequest: &p2p.PieceRequestMessage{Index: 1, Length: 4}},       // wrong body
		{Type: p2p.Message_PIECE_REQUEST, PiecePayload: &p2p.PiecePayloadMessage{Index: 1, Length: 1 << 26}}, // body of another type
		{Type: p2p.Message_COMPLETE}, {Type: p2p.Message_CANCEL_PIECE, CancelPiece: &p2p.CancelPieceMessage{Index: 1 << 30}},
	}
	for _, m := range bodies {
		b := c14Frame(m)
		run(len(b), b, 0)
		tr.Count("typed_body_cases", 1)
	}
	for _, l := range lens {
		for _, idx := range []int32{-1, 0, 2, 3} {
			m := &p2p.Message{Type: p2p.Message_PIECE_PAYLOAD, PiecePayload: &p2p.PiecePayloadMessage{Index: idx, Offset: 0, Length: l}}
			b := c14Frame(m)
			pays := []int{0}
			if l > 0 && l <= 1<<20 {
				pays = []int{0, int(l) - 1, int(l), int(l) + 3}
			}
			for _, p := range pays {
				run(len(b), b, p)
				tr.Count("payload_length_cases", 1)
			}
		}
	}
	// (a2) Offset varied jointly with Length (the bound on what is allocated is a function of Length alone): offsets
	// that cancel the length (Offset = -Length, sums ≤ the piece length), extremes, and sums that overflow int32
	for _, l := range append(lens, 2*c14PieceLen, 1<<16, 1<<31-1) {
		offs := []int64{-int64(l), -int64(l) + 1, int64(c14PieceLen) - int64(l), -2147483648, -1, 1, c14PieceLen, 2147483647}
		for _, o := range offs {
			if o < -2147483648 || o > 2147483647 {
				continue
			}
			if l > 1<<26 && o+int64(l) <= c14PieceLen {
				continue // a check fooled by the offset would make the conn allocate this much: 64 MiB is enough to see it
			}
			m := &p2p.Message{Type: p2p.Message_PIECE_PAYLOAD, PiecePayload: &p2p.PiecePayloadMessage{Index: 1, Offset: int32(o), Length: l}}
			b := c14Frame(m)
			pays := []int{0}
			if l > 0 && l <= 2*c14PieceLen {
				pays = []int{0, int(l)}
			}
			for _, p := range pays {
				run(len(b), b, p)
				tr.Count("payload_offset_cases", 1)
			}
		}
	}
	// (b) the length prefix: 0, around the 32 KiB cap, huge; body shorter / longer than declared
	for _, d := range []int{0, 1, 2, 32*1024 - 1, 32 * 1024, 32*1024 + 1, 1 << 24, 1<<31 - 1, 1 << 31, 1<<32 - 1} {
		for _, n := range []int{0, 1, 40} {
			body := make([]byte, n)
			run(d, body, 0)
			tr.Count("length_prefix_cases", 1)
		}
	}
	full := make([]byte, 32*1024)
	run(32*1024, full, 0)
	run(32*1024-1, full, 0)
	// (c) random bytes and mutated valid messages after the length prefix
	rnd := verifh.NewRand(verifh.Seed(), "c14wire")
	for n := 0; n < verifh.Scale(1500, 100000); n++ {
		var body []byte
		switch rnd.Intn(3) {
		case 0:
			body = rnd.Bytes(rnd.Intn(40))
		case 1:
			m := &p2p.Message{Type: p2p.Message_Type(rnd.Intn(8))}
			if rnd.Chance(2, 3) {
				m.PiecePayload = &p2p.PiecePayloadMessage{Index: int32(rnd.Uint64()), Offset: int32(rnd.Intn(3)) - 1,
					Length: []int32{int32(rnd.Uint64()), int32(rnd.Intn(2 * c14PieceLen)), lens[rnd.Intn(len(lens))]}[rnd.Intn(3)]}
				if l := m.PiecePayload.Length; rnd.Chance(1, 3) && l > 0 && l <= 1<<26 {
					m.PiecePayload.Offset = -l + int32(rnd.Intn(3)) - 1 + int32(rnd.Intn(2))*c14PieceLen
				}
			}
			if rnd.Chance(1, 3) {
				m.PieceRequest = &p2p.PieceRequestMessage{Index: int32(rnd.Uint64()), Length: int32(rnd.Uint64())}
			}
			body = c14Frame(m)
		default:
			m := &p2p.Message{Type: p2p.Message_PIECE_PAYLOAD, PiecePayload: &p2p.PiecePayloadMessage{Index: 1, Length: int32(rnd.Intn(c14PieceLen + 2))}}
			body = c14Frame(m)
			for k := 0; k < 1+rnd.Intn(3) && len(body) > 0; k++ {
				body[rnd.Intn(len(body))] ^= byte(1 << uint(rnd.Intn(8)))
			}
		}
		dlen := len(body)
		if rnd.Chance(1, 10) {
			dlen = rnd.Intn(len(body) + 3)
		}
		run(dlen, body, rnd.Intn(c14PieceLen+8))
		tr.Count("random_cases", 1)
	}
}

// ---------------------------------------------------------------- handshake

// c14Hs executes `one pid=<ok|bad> ih=<ok|bad> name=<ok|bad> body=<0|1> bits=<declared> bytes=<n> rbits= rbytes=`:
// a BITFIELD message whose serialized bitfield declares `bits` bits and carries `bytes` bytes after the
// 8-byte header (bytes=-1: fewer than 8 bytes in total); the same for one remote bitfield (rbits=-: none).
func c14Hs(tr *verifh.T, toks []string) {
	get := func(k, def string) string {
		for _, t := range toks {
			if strings.HasPrefix(t, k+"=") {
				return t[len(k)+1:]
			}
		}
		return def
	}
	fillN, ferr := strconv.Atoi(get("fill", "85"))
	if ferr != nil || fillN < 0 || fillN > 255 {
		return
	}
	fill := byte(fillN)
	ser := func(bitsTok, bytesTok string) ([]byte, bool) {
		bits, err1 := strconv.ParseUint(bitsTok, 10, 64)
		n, err2 := strconv.Atoi(bytesTok)
		if err1 != nil || err2 != nil || n > 1<<16 {
			return nil, false
		}
		if n < 0 {
			return []byte{1, 2, 3}, true
		}
		b := make([]byte, 8+n)
		binary.BigEndian.PutUint64(b, bits)
		for i := 8; i < len(b); i++ {
			b[i] = fill
		}
		return b, true
	}
	m := &p2p.Message{Type: p2p.Message_BITFIELD}
	if get("typ", "0") != "0" {
		m.Type = p2p.Message_COMPLETE
	}
	if get("body", "1") == "1" {
		bm := &p2p.BitfieldMessage{PeerID: core.PeerIDFixture().String(), InfoHash: core.InfoHashFixture().Hex(),
			Name: core.DigestFixture().Hex(), Namespace: "ns"}
		if get("pid", "ok") != "ok" {
			bm.PeerID = "nothex"
		}
		if get("ih", "ok") != "ok" {
			bm.InfoHash = "zz"
		}
		if get("name", "ok") != "ok" {
			bm.Name = "short"
		}
		b, ok := ser(get("bits", "0"), get("bytes", "0"))
		if !ok {
			return
		}
		bm.BitfieldBytes = b
		if rb := get("rbits", "-"); rb != "-" {
			b, ok := ser(rb, get("rbytes", "0"))
			if !ok {
				return
			}
			bm.RemoteBitfieldBytes = map[string][]byte{core.PeerIDFixture().String(): b}
		}
		m.Bitfield = bm
	}
	var hs *handshake
	var herr error
	var pm string
	alloc := c14Alloc(func() { pm = verifh.Protect(func() { hs, herr = handshakeFromP2PMessage(m) }) })
	var obs []string
	switch {
	case pm != "":
		obs = []string{"panic"}
	case herr != nil:
		obs = []string{"err"}
	default:
		// the bits the decoder left set, whatever the declared length (what addPeer will iterate over)
		cnt := 0
		for i, e := hs.bitfield.NextSet(0); e; i, e = hs.bitfield.NextSet(i + 1) {
			cnt++
		}
		obs = []string{"ok", fmt.Sprintf("len=%d", hs.bitfield.Len()), fmt.Sprintf("cnt=%d", cnt)}
	}
	obs = append(obs, "alloc="+c14AllocClass(alloc))
	tr.One(toks, obs...)
	if pm != "" {
		tr.PropFail("panic", "handshake", verifh.Str(pm))
	}
	if alloc > c14AllocBound {
		tr.PropFail("alloc-unbounded", "handshake", strconv.FormatUint(alloc, 10))
	}
}

func TestVerif_C14Handshake(t *testing.T) {
	tr := verifh.Open("hs")
	defer tr.Close()
	cases, replayOnly := verifh.InputCases("hs")
	for _, c := range cases {
		for _, op := range c.Ops {
			if len(op) > 1 && op[0] == "one" {
				c14Hs(tr, op[1:])
				tr.Count("corpus_or_replay_cases", 1)
			}
		}
	}
	if replayOnly {
		return
	}
	bitsVals := []uint64{0, 1, 3, 63, 64, 65, 128, 4096, 1 << 20, 1 << 28, 1 << 30, 1<<63 - 1, 1 << 63, 1<<64 - 1}
	bytesVals := []int{-1, 0, 1, 7, 8, 9, 16, 512}
	for _, bits := range bitsVals {
		for _, n := range bytesVals {
			for _, fill := range []int{0, 255} {
				c14Hs(tr, []string{"pid=ok", "ih=ok", "name=ok", "body=1", fmt.Sprintf("bits=%d", bits), fmt.Sprintf("bytes=%d", n), "rbits=-", "rbytes=0", fmt.Sprintf("fill=%d", fill)})
				tr.Count("bitfield_fill_cases", 1)
			}
			c14Hs(tr, []string{"pid=ok", "ih=ok", "name=ok", "body=1", fmt.Sprintf("bits=%d", bits), fmt.Sprintf("bytes=%d", n), "rbits=-", "rbytes=0"})
			c14Hs(tr, []string{"pid=ok", "ih=ok", "name=ok", "body=1", "bits=3", "bytes=8", fmt.Sprintf("rbits=%d", bits), fmt.Sprintf("rbytes=%d", n)})
			tr.Count("bitfield_cases", 2)
		}
	}
	for _, v := range [][]string{{"body=0"}, {"typ=6", "body=1"}, {"pid=bad"}, {"ih=bad"}, {"name=bad"}} {
		c14Hs(tr, append(append([]string{}, v...), "bits=3", "bytes=8", "rbits=-", "rbytes=0"))
		tr.Count("field_cases", 1)
	}
	rnd := verifh.NewRand(verifh.Seed(), "c14hs")
	for n := 0; n < verifh.Scale(300, 20000); n++ {
		bits := bitsVals[rnd.Intn(len(bitsVals))]
		if rnd.Chance(1, 2) {
			bits = uint64(rnd.Intn(600))
		}
		toks := []string{"pid=" + rnd.Pick("ok", "ok", "ok", "bad"), "ih=" + rnd.Pick("ok", "ok", "ok", "bad"), "name=" + rnd.Pick("ok", "ok", "ok", "bad"),
			"body=" + rnd.Pick("1", "1", "1", "0"), fmt.Sprintf("bits=%d", bits), fmt.Sprintf("bytes=%d", rnd.Intn(80)-1),
			"fill=" + rnd.Pick("0", "85", "255", "1", "128")}
		if rnd.Chance(1, 3) {
			toks = append(toks, fmt.Sprintf("rbits=%d", bitsVals[rnd.Intn(len(bitsVals))]), fmt.Sprintf("rbytes=%d", rnd.Intn(40)-1))
		} else {
			toks = append(toks, "rbits=-", "rbytes=0")
		}
		c14Hs(tr, toks)
		tr.Count("random_cases", 1)
	}
}
