//go:build verif

package conn

// C39 harness, machine "hs": handshake <-> p2p bitfield message (unexported, in-package).
// Record formats: /verif/lean/Driver/C39.lean.

import (
	"encoding/binary"
	"encoding/hex"
	"fmt"
	"net"
	"sort"
	"strconv"
	"strings"
	"testing"

	"github.com/uber/kraken/core"
	"github.com/uber/kraken/gen/go/proto/p2p"
	"github.com/uber/kraken/utils/verifh"
	"github.com/willf/bitset"
)

func c39Kv(toks []string, k string) (string, bool) {
	for _, t := range toks {
		if strings.HasPrefix(t, k+"=") {
			return t[len(k)+1:], true
		}
	}
	return "", false
}

func c39BitSpec(spec string) (*bitset.BitSet, bool) {
	p := strings.Split(spec, ":")
	if len(p) != 2 {
		return nil, false
	}
	n, err := strconv.ParseUint(p[0], 10, 32)
	if err != nil || n > 1<<20 {
		return nil, false
	}
	b := bitset.New(uint(n))
	if p[1] != "-" && p[1] != "" {
		for _, s := range strings.Split(p[1], ".") {
			i, err := strconv.ParseUint(s, 10, 32)
			if err != nil {
				return nil, false
			}
			if uint(i) < uint(n) {
				b.Set(uint(i))
			}
		}
	}
	return b, true
}

func c39BitTok(b *bitset.BitSet) string {
	var ws []string
	for _, w := range b.Bytes() {
		ws = append(ws, strconv.FormatUint(w, 10))
	}
	if len(ws) == 0 {
		return fmt.Sprintf("%d:-", b.Len())
	}
	return fmt.Sprintf("%d:%s", b.Len(), strings.Join(ws, "."))
}

func c39Esc(s string) string { return strings.ReplaceAll(verifh.Str(s), ":", "%3a") }

func c39HsOp(t *verifh.T, op []string) {
	switch op[0] {
	case "hs":
		pidS, _ := c39Kv(op, "pid")
		ihS, _ := c39Kv(op, "ih")
		dS, _ := c39Kv(op, "d")
		bfS, _ := c39Kv(op, "bf")
		remS, _ := c39Kv(op, "remote")
		nsS, _ := c39Kv(op, "ns")
		pidB, e1 := verifh.Unhex(pidS)
		ihB, e2 := verifh.Unhex(ihS)
		dstr, e3 := verifh.Unstr(dS)
		ns, e4 := verifh.Unstr(nsS)
		bf, ok := c39BitSpec(bfS)
		if e1 != nil || e2 != nil || e3 != nil || e4 != nil || !ok || len(pidB) != 20 || len(ihB) != 20 {
			return
		}
		d, err := core.NewSHA256DigestFromHex(dstr)
		if err != nil {
			return
		}
		h := &handshake{digest: d, bitfield: bf, namespace: ns, remoteBitfields: RemoteBitfields{}}
		copy(h.peerID[:], pidB)
		copy(h.infoHash[:], ihB)
		if remS != "-" {
			for _, e := range strings.Split(remS, ";") {
				p := strings.SplitN(e, ":", 2)
				if len(p) != 2 {
					return
				}
				pid, err := core.NewPeerID(p[0])
				b, ok := c39BitSpec(p[1])
				if err != nil || !ok {
					return
				}
				if _, dup := h.remoteBitfields[pid]; dup {
					return
				}
				h.remoteBitfields[pid] = b
			}
		}
		m, err := h.toP2PMessage()
		if err != nil {
			t.One(op, "err", "marshal")
			return
		}
		bm := m.GetBitfield()
		var rem []string
		for k, v := range bm.RemoteBitfieldBytes {
			rem = append(rem, c39Esc(k)+":"+hex.EncodeToString(v))
		}
		sort.Strings(rem)
		remTok := "-"
		if len(rem) > 0 {
			remTok = strings.Join(rem, ";")
		}
		// the message crosses the wire exactly as between two peers: sendMessage / readMessage (length prefix + protobuf)
		wire := "ok"
		c1, c2 := net.Pipe()
		sendErr := make(chan error, 1)
		go func() { sendErr <- sendMessage(c1, m); c1.Close() }()
		mWire, rerr := readMessage(c2)
		c2.Close()
		if serr := <-sendErr; serr != nil {
			wire = "senderr"
		} else if rerr != nil {
			wire = "readerr"
		}
		if wire != "ok" {
			t.One(op, "ok", "pid="+verifh.Str(bm.PeerID), "name="+verifh.Str(bm.Name), "ih="+verifh.Str(bm.InfoHash),
				"bf="+verifh.Hex(bm.BitfieldBytes), "remote="+remTok, "wire="+wire, "back=-")
			return
		}
		back := "ok"
		h2, err := handshakeFromP2PMessage(mWire)
		if err != nil {
			back = c39HsErr(bm, err)
		} else {
			same := h2.peerID == h.peerID && h2.infoHash == h.infoHash && h2.digest == h.digest &&
				h2.namespace == h.namespace && h2.bitfield.Equal(h.bitfield) && len(h2.remoteBitfields) == len(h.remoteBitfields)
			for k, v := range h.remoteBitfields {
				if w, ok := h2.remoteBitfields[k]; !ok || !w.Equal(v) {
					same = false
				}
			}
			if !same {
				back = "differs"
			}
		}
		if bm.Namespace != ns {
			t.PropFail("handshake-roundtrip", "namespace")
		}
		t.One(op, "ok", "pid="+verifh.Str(bm.PeerID), "name="+verifh.Str(bm.Name), "ih="+verifh.Str(bm.InfoHash),
			"bf="+verifh.Hex(bm.BitfieldBytes), "remote="+remTok, "wire="+wire, "back="+back)
	case "hsde":
		pidS, _ := c39Kv(op, "pid")
		ihS, _ := c39Kv(op, "ih")
		nameS, _ := c39Kv(op, "name")
		bfS, _ := c39Kv(op, "bf")
		remS, _ := c39Kv(op, "remote")
		nsS, _ := c39Kv(op, "ns")
		pid, e1 := verifh.Unstr(pidS)
		ih, e2 := verifh.Unstr(ihS)
		name, e3 := verifh.Unstr(nameS)
		ns, e4 := verifh.Unstr(nsS)
		bf, e5 := verifh.Unhex(bfS)
		if e1 != nil || e2 != nil || e3 != nil || e4 != nil || e5 != nil {
			return
		}
		bm := &p2p.BitfieldMessage{PeerID: pid, Name: name, InfoHash: ih, BitfieldBytes: bf, Namespace: ns,
			RemoteBitfieldBytes: map[string][]byte{}}
		if remS != "-" {
			for _, e := range strings.Split(remS, ";") {
				p := strings.SplitN(e, ":", 2)
				if len(p) != 2 {
					return
				}
				k, err1 := verifh.Unstr(p[0])
				v, err2 := hex.DecodeString(p[1])
				if err1 != nil || err2 != nil {
					return
				}
				if _, dup := bm.RemoteBitfieldBytes[k]; dup {
					return
				}
				bm.RemoteBitfieldBytes[k] = v
			}
		}
		h, err := handshakeFromP2PMessage(&p2p.Message{Type: p2p.Message_BITFIELD, Bitfield: bm})
		if err != nil {
			t.One(op, "err", c39HsErr(bm, err))
			return
		}
		var rem []string
		for k, v := range h.remoteBitfields {
			rem = append(rem, k.String()+":"+c39BitTok(v))
		}
		sort.Strings(rem)
		remTok := "-"
		if len(rem) > 0 {
			remTok = strings.Join(rem, ";")
		}
		if h.namespace != ns {
			t.PropFail("handshake-roundtrip", "namespace")
		}
		t.One(op, "ok", "bf="+c39BitTok(h.bitfield), "remote="+remTok)
	}
}

// c39HsErr classifies a handshakeFromP2PMessage error by the first field that is malformed.
func c39HsErr(bm *p2p.BitfieldMessage, err error) string {
	m := err.Error()
	if _, e := core.NewPeerID(bm.PeerID); e != nil {
		return "peerid"
	}
	switch {
	case strings.HasPrefix(m, "info hash:"):
		return "infohash"
	case strings.HasPrefix(m, "name:"):
		return "name"
	case strings.HasPrefix(m, "peer id:"):
		return "remotepeer"
	}
	if e := bitset.New(0).UnmarshalBinary(bm.BitfieldBytes); e != nil {
		return "bitfield"
	}
	return "remotebitfield"
}

func c39HsExec(t *verifh.T, c verifh.Case) {
	for _, op := range c.Ops {
		if len(op) < 2 || op[0] != "one" {
			continue
		}
		o := op[1:]
		if p := verifh.Protect(func() { c39HsOp(t, o) }); p != "" {
			t.One(o, "panic")
			t.PropFail("panic", verifh.Str(p))
		}
	}
}

func c39RandBitSpec(r *verifh.Rand) string {
	lens := []int{0, 1, 2, 63, 64, 65, 127, 128, 129, 191, 192, 193, 1000}
	n := lens[r.Intn(len(lens))]
	if r.Chance(1, 3) {
		n = r.Intn(300)
	}
	var idx []string
	switch r.Intn(4) {
	case 0: // empty
	case 1: // full
		for i := 0; i < n; i++ {
			idx = append(idx, strconv.Itoa(i))
		}
	default:
		for i := 0; i < n; i++ {
			if r.Chance(1, 3) || i == n-1 && r.Chance(1, 2) {
				idx = append(idx, strconv.Itoa(i))
			}
		}
	}
	if len(idx) == 0 {
		return fmt.Sprintf("%d:-", n)
	}
	return fmt.Sprintf("%d:%s", n, strings.Join(idx, "."))
}

func c39Hex(r *verifh.Rand, n int, upper bool) string {
	s := hex.EncodeToString(r.Bytes(n))
	if upper {
		return strings.ToUpper(s)
	}
	return s
}

func c39BadBits(r *verifh.Rand, good []byte) []byte {
	switch r.Intn(7) {
	case 0:
		return good[:r.Intn(len(good)+1)]
	case 1:
		return append(append([]byte{}, good...), r.Bytes(1+r.Intn(9))...)
	case 2:
		b := make([]byte, 8+r.Intn(17))
		binary.BigEndian.PutUint64(b, uint64(1)<<uint(60+r.Intn(4))+uint64(r.Intn(100)))
		return b
	case 3:
		b := make([]byte, 8)
		binary.BigEndian.PutUint64(b, ^uint64(0)-uint64(r.Intn(70)))
		return b
	case 4:
		return nil
	case 5:
		b := append([]byte{}, good...)
		if len(b) > 0 {
			b[r.Intn(len(b))] ^= byte(1 << uint(r.Intn(8)))
		}
		if len(b) >= 8 && binary.BigEndian.Uint64(b) > 1<<16 && binary.BigEndian.Uint64(b) < 1<<60 {
			return good // a flipped high length bit would ask the library for a huge allocation
		}
		return b
	default:
		return r.Bytes(r.Intn(8))
	}
}

func TestVerif_C39_Hs(t *testing.T) {
	tr := verifh.Open("hs")
	defer tr.Close()
	cases, replayOnly := verifh.InputCases("hs")
	for _, c := range cases {
		c39HsExec(tr, c)
		tr.Count("corpus_or_replay_cases", 1)
	}
	if replayOnly {
		return
	}
	r := verifh.NewRand(verifh.Seed(), "c39hs")
	run := func(toks ...string) {
		c39HsExec(tr, verifh.Case{Ops: [][]string{append([]string{"one"}, toks...)}})
	}
	// (a) every bitfield length 0..130 (thorough 0..260), empty / full / last-bit-only
	for n := 0; n <= verifh.Scale(130, 260); n++ {
		var full []string
		for i := 0; i < n; i++ {
			full = append(full, strconv.Itoa(i))
		}
		specs := []string{fmt.Sprintf("%d:-", n)}
		if n > 0 {
			specs = append(specs, fmt.Sprintf("%d:%s", n, strings.Join(full, ".")), fmt.Sprintf("%d:%d", n, n-1))
		}
		for _, s := range specs {
			run("hs", "pid="+verifh.Hex(r.Bytes(20)), "ih="+verifh.Hex(r.Bytes(20)), "d="+c39Hex(r, 32, false),
				"bf="+s, "remote=-", "ns=%")
			tr.Count("hs_lengths", 1)
		}
	}
	// (b) random handshakes with remote bitfields
	for i := 0; i < verifh.Scale(400, 30000); i++ {
		var rem []string
		seen := map[string]bool{}
		for j := r.Intn(4); j > 0; j-- {
			p := c39Hex(r, 20, false)
			if !seen[p] {
				seen[p] = true
				rem = append(rem, p+":"+c39RandBitSpec(r))
			}
		}
		sort.Strings(rem)
		remTok := "-"
		if len(rem) > 0 {
			remTok = strings.Join(rem, ";")
		}
		ns := r.Pick("", "library/ubuntu", "a b", "ns:1", "üñí")
		run("hs", "pid="+verifh.Hex(r.Bytes(20)), "ih="+verifh.Hex(r.Bytes(20)), "d="+c39Hex(r, 32, r.Chance(1, 5)),
			"bf="+c39RandBitSpec(r), "remote="+remTok, "ns="+verifh.Str(ns))
		tr.Count("hs_random", 1)
		if i < 2 {
			tr.Sample("hs remote=" + remTok)
		}
	}
	// (b') every byte value at the first, middle and last position of the peer id, info hash, name and a remote
	// peer id of an otherwise valid message
	{
		pid, ih, name, rp := c39Hex(r, 20, false), c39Hex(r, 20, true), c39Hex(r, 32, false), c39Hex(r, 20, false)
		g, _ := c39BitSpec("70:1.69")
		gb, _ := g.MarshalBinary()
		for field := 0; field < 4; field++ {
			src := []string{pid, ih, name, rp}[field]
			for _, i := range []int{0, len(src) / 2, len(src) - 1} {
				for b := 0; b < 256; b++ {
					m := src[:i] + string([]byte{byte(b)}) + src[i+1:]
					f := []string{pid, ih, name, rp}
					f[field] = m
					run("hsde", "pid="+c39Esc(f[0]), "ih="+c39Esc(f[1]), "name="+c39Esc(f[2]), "bf="+verifh.Hex(gb),
						"remote="+c39Esc(f[3])+":"+hex.EncodeToString(gb), "ns=%")
					tr.Count("hsde_byte_subst", 1)
				}
			}
		}
	}
	// (c) malformed / arbitrary bitfield messages
	for i := 0; i < verifh.Scale(1500, 100000); i++ {
		pid := c39Hex(r, 20, r.Chance(1, 4))
		ih := c39Hex(r, 20, r.Chance(1, 4))
		name := c39Hex(r, 32, r.Chance(1, 4))
		good, _ := func() (*bitset.BitSet, bool) { return c39BitSpec(c39RandBitSpec(r)) }()
		bf, _ := good.MarshalBinary()
		var rem []string
		seen := map[string]bool{}
		for j := r.Intn(3); j > 0; j-- {
			p := c39Hex(r, 20, false)
			g, _ := c39BitSpec(c39RandBitSpec(r))
			gb, _ := g.MarshalBinary()
			if r.Chance(1, 6) {
				p = r.Pick(p[:39], p+"0", "zz"+p[2:], "", p[:38])
			}
			if r.Chance(1, 6) {
				gb = c39BadBits(r, gb)
			}
			if !seen[strings.ToLower(p)] {
				seen[strings.ToLower(p)] = true
				rem = append(rem, c39Esc(p)+":"+hex.EncodeToString(gb))
			}
		}
		sort.Strings(rem)
		switch r.Intn(8) {
		case 0:
			pid = r.Pick(pid[:39], pid+"a", "g"+pid[1:], "", pid+pid, pid[:20])
		case 1:
			ih = r.Pick(ih[:39], ih+"a", "g"+ih[1:], "", ih+ih, "x"+ih[:39])
		case 2:
			name = r.Pick(name[:63], name+"a", "g"+name[1:], "", "sha256:"+name)
		case 3, 4:
			bf = c39BadBits(r, bf)
		}
		remTok := "-"
		if len(rem) > 0 {
			remTok = strings.Join(rem, ";")
		}
		run("hsde", "pid="+c39Esc(pid), "ih="+c39Esc(ih), "name="+c39Esc(name), "bf="+verifh.Hex(bf),
			"remote="+remTok, "ns="+verifh.Str(r.Pick("", "ns")))
		tr.Count("hsde", 1)
	}
}
