//go:build verif

package scheduler

// Shared helpers of the scheduler correspondence harnesses (C17, C18): a recording event loop that
// is plugged in with withEventLoop, a mock clock plugged in with withClock, real agent storage, and
// a fake remote peer (dispatch.Messages) through which piece requests / payloads reach the real
// dispatcher of a torrent. Nothing here touches /repo; the file is overlay-injected.

import (
	"bytes"
	"encoding/binary"
	"errors"
	"fmt"
	"io"
	"net"
	"sync"
	"sync/atomic"
	"time"

	"github.com/golang/protobuf/proto"
	"github.com/uber/kraken/lib/torrent/scheduler/connstate"

	"github.com/andres-erbsen/clock"
	"github.com/uber-go/tally"
	"github.com/uber/kraken/core"
	"github.com/uber/kraken/gen/go/proto/p2p"
	"github.com/uber/kraken/lib/store"
	"github.com/uber/kraken/lib/torrent/networkevent"
	"github.com/uber/kraken/lib/torrent/scheduler/announcequeue"
	"github.com/uber/kraken/lib/torrent/scheduler/conn"
	"github.com/uber/kraken/lib/torrent/scheduler/dispatch"
	"github.com/uber/kraken/lib/torrent/storage"
	"github.com/uber/kraken/lib/torrent/storage/agentstorage"
	"github.com/uber/kraken/lib/torrent/storage/piecereader"
	"github.com/uber/kraken/tracker/announceclient"
	"github.com/uber/kraken/tracker/metainfoclient"
	"github.com/uber/kraken/utils/bandwidth"
	"github.com/uber/kraken/utils/log"
	"github.com/uber/kraken/utils/verifh"
	"github.com/willf/bitset"
)

const vNamespace = "verif"
const vPieceLen = 4

// ---------------------------------------------------------------- recording event loop

// vLoop implements eventLoop: every event the real code sends is queued; the harness decides
// when (and whether) to apply it.
type vLoop struct {
	mu      sync.Mutex
	q       []event
	stopped bool
}

func (l *vLoop) send(e event) bool {
	l.mu.Lock()
	defer l.mu.Unlock()
	if l.stopped {
		return false
	}
	l.q = append(l.q, e)
	return true
}

func (l *vLoop) sendTimeout(e event, timeout time.Duration) error {
	if !l.send(e) {
		return ErrSchedulerStopped
	}
	return nil
}

func (l *vLoop) run(*state) {}

func (l *vLoop) stop() {
	l.mu.Lock()
	defer l.mu.Unlock()
	l.stopped = true
}

func (l *vLoop) isStopped() bool {
	l.mu.Lock()
	defer l.mu.Unlock()
	return l.stopped
}

// take removes and returns the first queued event accepted by match, waiting up to wait for one to
// arrive (events such as DispatcherComplete are sent from goroutines of the real code).
func (l *vLoop) take(match func(event) bool, wait time.Duration) (event, bool) {
	deadline := time.Now().Add(wait)
	for {
		l.mu.Lock()
		for i, e := range l.q {
			if match(e) {
				l.q = append(l.q[:i:i], l.q[i+1:]...)
				l.mu.Unlock()
				return e, true
			}
		}
		l.mu.Unlock()
		if time.Now().After(deadline) {
			return nil, false
		}
		time.Sleep(50 * time.Microsecond)
	}
}

// ---------------------------------------------------------------- fault-injecting torrent wrapper

// vTorrent wraps the real agent torrent; when failClose is set, piece readers report a Close error
// (after really closing), which is the only way to reach the err != nil branch of the close watcher.
type vTorrent struct {
	storage.Torrent
	mu        sync.Mutex
	failClose bool
}

func (t *vTorrent) setFailClose(b bool) {
	t.mu.Lock()
	defer t.mu.Unlock()
	t.failClose = b
}

// vFailClose makes the Close of every piece reader fail (whatever torrent object it came from);
// vCloses counts the Close calls of piece readers.
var vFailClose, vCloses, vUnclosed int32

type vReader struct {
	storage.PieceReader
	t *vTorrent
}

func (r *vReader) Close() error {
	err := r.PieceReader.Close()
	defer atomic.AddInt32(&vCloses, 1)
	r.t.mu.Lock()
	defer r.t.mu.Unlock()
	if r.t.failClose || atomic.LoadInt32(&vFailClose) != 0 {
		return errors.New("verif: injected close failure")
	}
	return err
}

// vGate, when installed, parks every WritePiece call (the dispatcher's goroutine) just before the real
// write until it is released; done receives the write's result.
type vGate struct {
	entered chan struct{}
	release chan struct{}
	done    chan error
}

var vGateP atomic.Value // *vGate

func vSetGate(g *vGate) { vGateP.Store(g) }

func (t *vTorrent) WritePiece(src storage.PieceReader, piece int) error {
	if g, _ := vGateP.Load().(*vGate); g != nil {
		g.entered <- struct{}{}
		<-g.release
		err := t.Torrent.WritePiece(src, piece)
		g.done <- err
		return err
	}
	return t.Torrent.WritePiece(src, piece)
}

// vProducer is a networkevent.Producer that shows every event to a hook first.
type vProducer struct {
	networkevent.Producer
	hook func(*networkevent.Event)
}

func (p vProducer) Produce(e *networkevent.Event) {
	p.hook(e)
	p.Producer.Produce(e)
}

func (t *vTorrent) GetPieceReader(piece int) (storage.PieceReader, error) {
	pr, err := t.Torrent.GetPieceReader(piece)
	if err != nil {
		return nil, err
	}
	return &vReader{pr, t}, nil
}

// vArchive is the scheduler's torrent archive: the real one, with every torrent it hands out wrapped so that
// piece readers are observable (torrents opened by the scheduler itself — Download's CreateTorrent,
// addIncomingConn's GetTorrent — included).
type vArchive struct{ storage.TorrentArchive }

func (a vArchive) CreateTorrent(ns string, d core.Digest) (storage.Torrent, error) {
	t, err := a.TorrentArchive.CreateTorrent(ns, d)
	if err != nil {
		return nil, err
	}
	return &vTorrent{Torrent: t}, nil
}

func (a vArchive) GetTorrent(ns string, d core.Digest) (storage.Torrent, error) {
	t, err := a.TorrentArchive.GetTorrent(ns, d)
	if err != nil {
		return nil, err
	}
	return &vTorrent{Torrent: t}, nil
}

// ---------------------------------------------------------------- fake remote peer

// vPeer implements dispatch.Messages. Only the harness goroutine sends on / closes recv.
type vPeer struct {
	id       core.PeerID
	recv     chan *conn.Message
	done     chan struct{}
	doneOnce sync.Once
	recvOnce sync.Once
	mu       sync.Mutex
	sent     []*conn.Message
	fwd      func(*conn.Message) error // when set: piece payload messages are handed to it (a real conn's Send)
}

func (p *vPeer) setFwd(f func(*conn.Message) error) {
	p.mu.Lock()
	defer p.mu.Unlock()
	p.fwd = f
}

func newVPeer(n int) *vPeer {
	id, err := core.HashedPeerID(fmt.Sprintf("verif-peer-%d", n))
	if err != nil {
		panic(err)
	}
	return &vPeer{id: id, recv: make(chan *conn.Message), done: make(chan struct{})}
}

func (p *vPeer) Send(msg *conn.Message) error {
	select {
	case <-p.done:
		return errors.New("conn closed")
	default:
	}
	p.mu.Lock()
	defer p.mu.Unlock()
	if p.fwd != nil && msg.Message.Type == p2p.Message_PIECE_PAYLOAD {
		if err := p.fwd(msg); err != nil {
			return err
		}
	}
	p.sent = append(p.sent, msg)
	return nil
}

func (p *vPeer) Receiver() <-chan *conn.Message { return p.recv }

func (p *vPeer) Close() { p.doneOnce.Do(func() { close(p.done) }) }

func (p *vPeer) closed() bool {
	select {
	case <-p.done:
		return true
	default:
		return false
	}
}

// push hands msg to the dispatcher's feed goroutine; false when the dispatcher closed the peer.
func (p *vPeer) push(msg *conn.Message) bool {
	select {
	case p.recv <- msg:
		return true
	case <-p.done:
		p.recvOnce.Do(func() { close(p.recv) })
		return false
	}
}

// roundTrip delivers msg and returns once the dispatcher has finished handling it (a second,
// no-op message is accepted by the unbuffered channel only after the first one was dispatched).
func (p *vPeer) roundTrip(msg *conn.Message) bool {
	if !p.push(msg) {
		return false
	}
	p.push(&conn.Message{Message: &p2p.Message{Type: p2p.Message_CANCEL_PIECE, CancelPiece: &p2p.CancelPieceMessage{}}})
	return true
}

func (p *vPeer) drainSent() []*conn.Message {
	p.mu.Lock()
	defer p.mu.Unlock()
	s := p.sent
	p.sent = nil
	return s
}

// ---------------------------------------------------------------- world

type vBlob struct {
	content []byte
	digest  core.Digest
	mi      *core.MetaInfo
}

var vBlobCache = map[string]*vBlob{}
var vBlobMu sync.Mutex

// vBlobFor returns a deterministic blob of np pieces for torrent index i.
func vBlobFor(i, np int) *vBlob {
	vBlobMu.Lock()
	defer vBlobMu.Unlock()
	k := fmt.Sprintf("%d/%d", i, np)
	if b, ok := vBlobCache[k]; ok {
		return b
	}
	r := verifh.NewRand(uint64(1000+i), "blob"+k)
	// last piece shorter than the others when np > 1
	n := np*vPieceLen - (np-1)%2
	content := r.Bytes(n)
	d, err := core.NewDigester().FromBytes(content)
	if err != nil {
		panic(err)
	}
	mi, err := core.NewMetaInfo(d, bytes.NewReader(content), vPieceLen)
	if err != nil {
		panic(err)
	}
	b := &vBlob{content, d, mi}
	vBlobCache[k] = b
	return b
}

func (b *vBlob) piece(i int) []byte {
	s := i * vPieceLen
	e := s + int(b.mi.GetPieceLength(i))
	if s > len(b.content) || e > len(b.content) || i < 0 {
		return nil
	}
	return b.content[s:e]
}

// vClock is the injected clock: a clock.Mock whose timers never fire (the harnesses apply tick
// events themselves) plus an offset that the harness advances; unlike Mock.Add it does not sleep.
type vClock struct {
	*clock.Mock
	mu  sync.Mutex
	off time.Duration
}

func (c *vClock) Now() time.Time {
	c.mu.Lock()
	defer c.mu.Unlock()
	return c.Mock.Now().Add(c.off)
}

func (c *vClock) Since(t time.Time) time.Duration { return c.Now().Sub(t) }

func (c *vClock) advance(d time.Duration) {
	c.mu.Lock()
	defer c.mu.Unlock()
	c.off += d
}

// vWorld is one real scheduler (unstarted: no listener, no ticker loops) over real agent storage.
// It is reused by consecutive cases with the same number of pieces: reset() tears down what the
// previous case left, deletes its files and starts from a fresh scheduler state.
type vWorld struct {
	clk      *vClock
	loop     *vLoop
	sched    *scheduler
	st       *state
	cads     *store.CADownloadStore
	ta       *agentstorage.TorrentArchive
	mic      *metainfoclient.TestClient
	np       int
	blobs    []*vBlob
	tors     []*vTorrent // last torrent object handed to the scheduler, per blob
	peers    []*vPeer    // fake peer attached to the current dispatcher, per blob
	peerCtrl []*torrentControl
	npeers   int
	base     time.Time  // clock reading at the start of the current case
	remotes  []net.Conn // remote ends of incoming connections of the current case
	ac       *vAnnounceClient
	cleanup  func()
}

var vWorlds = map[string]*vWorld{}

// vWorldFor returns the (reset) world for blobs of np pieces and ntor torrents.
func vWorldFor(seederTTI, leecherTTI time.Duration, np, ntor int) *vWorld {
	k := fmt.Sprintf("%d/%d", np, ntor)
	w, ok := vWorlds[k]
	if !ok {
		w = newVWorld(np, ntor)
		vWorlds[k] = w
	}
	w.reset(seederTTI, leecherTTI)
	return w
}

// vCloseWorlds releases every world (end of the test function).
func vCloseWorlds() {
	for k, w := range vWorlds {
		w.reset(time.Hour, time.Hour)
		w.cleanup()
		delete(vWorlds, k)
	}
}

func newVWorld(np, ntor int) *vWorld {
	cads, cleanup := store.CADownloadStoreFixture()
	mic := metainfoclient.NewTestClient()
	ta := agentstorage.NewTorrentArchive(tally.NoopScope, cads, mic)
	clk := &vClock{Mock: clock.NewMock()}
	loop := &vLoop{}
	config := Config{
		SeederTTI:          time.Hour,
		LeecherTTI:         time.Hour,
		PreemptionInterval: 1000 * time.Hour,
		EmitStatsInterval:  1000 * time.Hour,
		ConnTTI:            1000 * time.Hour,
		ConnTTL:            1000 * time.Hour,
		DisablePreemption:  true,
		TorrentLog:         log.Config{Disable: true},
		Log:                log.Config{Disable: true},
	}
	pctx, err := core.NewPeerContext(core.AddrHashPeerIDFactory, "zone1", "verif", "127.0.0.1", 1, false)
	if err != nil {
		panic(err)
	}
	ac := &vAnnounceClient{}
	s, err := newScheduler(config, vArchive{ta}, tally.NoopScope, pctx, ac,
		networkevent.NewTestProducer(), withEventLoop(loop), withClock(clk))
	if err != nil {
		panic(err)
	}
	w := &vWorld{clk: clk, loop: loop, sched: s, cads: cads, ta: ta, mic: mic, np: np, cleanup: cleanup, ac: ac}
	for i := 0; i < ntor; i++ {
		b := vBlobFor(i, np)
		if err := mic.Upload(b.mi); err != nil {
			panic(err)
		}
		w.blobs = append(w.blobs, b)
		w.tors = append(w.tors, nil)
		w.peers = append(w.peers, nil)
		w.peerCtrl = append(w.peerCtrl, nil)
	}
	return w
}

// reset tears down what the previous case left (dispatchers, fake peers, files, queued events) and
// installs a fresh scheduler state with the given idle limits.
func (w *vWorld) reset(seederTTI, leecherTTI time.Duration) {
	if w.st != nil {
		for _, ctrl := range w.st.torrentControls {
			ctrl.dispatcher.TearDown()
		}
	}
	for i, p := range w.peers {
		if p != nil {
			p.Close()
			p.recvOnce.Do(func() { close(p.recv) })
		}
		w.peers[i], w.peerCtrl[i], w.tors[i] = nil, nil, nil
	}
	w.ac.reset()
	for _, nc := range w.remotes {
		nc.Close()
	}
	w.remotes = nil
	for _, c := range w.stConns() {
		c.Close()
	}
	for _, b := range w.blobs {
		w.cads.Any().DeleteFile(b.digest.Hex())
	}
	w.loop.mu.Lock()
	w.loop.q, w.loop.stopped = nil, false
	w.loop.mu.Unlock()
	w.sched.config.SeederTTI = seederTTI
	w.sched.config.LeecherTTI = leecherTTI
	w.st = newState(w.sched, announcequeue.New())
	w.base = w.clk.Now()
}

// ns converts a time of the real code into nanoseconds since the start of the case.
func (w *vWorld) ns(t time.Time) int64 { return t.Sub(w.base).Nanoseconds() }

func (w *vWorld) now() int64 { return w.ns(w.clk.Now()) }

func (w *vWorld) ctrl(i int) *torrentControl {
	return w.st.torrentControls[w.blobs[i].mi.InfoHash()]
}

func (w *vWorld) exists(sc *store.CADownloadStoreScope, i int) bool {
	_, err := sc.GetFileStat(w.blobs[i].digest.Hex())
	return err == nil
}

// createTorrent does what scheduler.doDownload does before it sends newTorrentEvent; when the
// torrent is new on disk, the first prefill pieces are written through the storage API first.
func (w *vWorld) createTorrent(i, prefill int) (*vTorrent, error) {
	fresh := !w.exists(w.cads.Any(), i)
	t, err := w.ta.CreateTorrent(vNamespace, w.blobs[i].digest)
	if err != nil {
		return nil, err
	}
	if fresh {
		for p := 0; p < prefill && p < t.NumPieces(); p++ {
			if err := t.WritePiece(piecereader.NewBuffer(w.blobs[i].piece(p)), p); err != nil {
				return nil, err
			}
		}
	}
	return &vTorrent{Torrent: t}, nil
}

// peer returns a fake remote peer attached to the current dispatcher of torrent i (attaching a new
// one when there is none or the dispatcher closed the previous one); nil when there is no control.
func (w *vWorld) peer(i int) *vPeer {
	ctrl := w.ctrl(i)
	if ctrl == nil {
		return nil
	}
	if p := w.peers[i]; p != nil && !p.closed() && w.peerCtrl[i] == ctrl {
		return p
	}
	if p := w.peers[i]; p != nil {
		// retire the old one: let its feed goroutine exit
		p.Close()
		p.recvOnce.Do(func() { close(p.recv) })
	}
	w.npeers++
	p := newVPeer(w.npeers)
	if err := ctrl.dispatcher.AddPeer(p.id, false, bitset.New(uint(w.np)), p); err != nil {
		panic(err)
	}
	w.peers[i] = p
	w.peerCtrl[i] = ctrl
	return p
}

// servePiece makes the fake peer request piece pi of torrent i. The payload message the dispatcher answers
// with is handed to a real conn.Conn (conn.PipeFixture): its write loop — conn.sendPiecePayload — is what
// closes the piece reader in production, and closing the reader is what counts as "served".
// mode: "ok"; "closefail" (the reader's Close returns an error); "egress" (the conn's egress limiter
// refuses the piece: nothing is sent, the reader is closed all the same); "lost" (the conn's Send fails —
// closed conn or full buffer: the reader is never closed).
// Result: "absent" (no control), "closed" (the dispatcher dropped the peer), "rejected" (error message),
// "nothing", "sent" (payload handed over and its reader closed), "sent-unclosed" (handed over, but the
// reader was not closed within the deadline), "sent-garbled" (the remote end received other bytes).
func (w *vWorld) servePiece(i, pi int, mode string) string {
	p := w.peer(i)
	if p == nil {
		return "absent"
	}
	p.drainSent()
	var cfg conn.Config
	if mode == "egress" {
		cfg.Bandwidth = bandwidth.Config{Enable: true, EgressBitsPerSec: 8, IngressBitsPerSec: 1 << 30, TokenSize: 1}
	}
	local, remote, cleanup := conn.PipeFixture(cfg, storage.NewTorrentInfo(w.blobs[i].mi, bitset.New(uint(w.np))))
	defer cleanup()
	atomic.StoreInt32(&vFailClose, 0)
	if mode == "closefail" {
		atomic.StoreInt32(&vFailClose, 1)
	}
	defer atomic.StoreInt32(&vFailClose, 0)
	closes := atomic.LoadInt32(&vCloses)
	p.setFwd(local.Send)
	if mode == "lost" {
		// (conn.Send on a closed conn picks between "conn closed" and its buffer at random; the failing
		// outcome is the one meant here)
		p.setFwd(func(*conn.Message) error { return errors.New("conn closed") })
	}
	defer p.setFwd(nil)
	length := w.blobs[i].mi.GetPieceLength(pi)
	msg := &conn.Message{Message: &p2p.Message{Type: p2p.Message_PIECE_REQUEST,
		PieceRequest: &p2p.PieceRequestMessage{Index: int32(pi), Offset: 0, Length: int32(length)}}}
	if !p.roundTrip(msg) {
		return "closed"
	}
	res := "nothing"
	for _, m := range p.drainSent() {
		switch m.Message.Type {
		case p2p.Message_PIECE_PAYLOAD:
			res = "sent"
			// the conn's write loop closes the reader when it is done with the payload (sent or not)
			wait := 20 * time.Second // generous: on an overloaded machine the write loop may not be scheduled for seconds
			if atomic.LoadInt32(&vUnclosed) >= 3 {
				wait = 30 * time.Millisecond // it has been reported; do not spend 2 s on every further serve
			}
			for dl := time.Now().Add(wait); atomic.LoadInt32(&vCloses) == closes; {
				if time.Now().After(dl) {
					res = "sent-unclosed"
					atomic.AddInt32(&vUnclosed, 1)
					break
				}
				time.Sleep(20 * time.Microsecond)
			}
			// barrier: the watcher refreshes lastRead after the reader's Close returned, still inside the conn's
			// sendMessage. The write loop is sequential, so once a marker message sent behind the payload has
			// reached the remote end — or the conn has closed itself after a failed send — that has happened.
			if res == "sent" {
				local.Send(conn.NewCompleteMessage())
				for dl := time.Now().Add(300 * time.Second); ; time.Sleep(20 * time.Microsecond) {
					if local.IsClosed() {
						break
					}
					var got *conn.Message
					select {
					case got = <-remote.Receiver():
					default:
					}
					if got != nil && got.Message.Type == p2p.Message_COMPLETE {
						break
					}
					if got != nil && got.Message.Type == p2p.Message_PIECE_PAYLOAD {
						b, _ := io.ReadAll(got.Payload)
						got.Payload.Close()
						if !bytes.Equal(b, w.blobs[i].piece(pi)) {
							res = "sent-garbled"
						}
					}
					if time.Now().After(dl) {
						panic("harness: serve barrier not reached")
					}
				}
			}
			if false {
				// what the remote end received, unless the conn broke (evicted blob: the copy fails)
				for dl := time.Now().Add(5 * time.Second); time.Now().Before(dl); time.Sleep(20 * time.Microsecond) {
					var got *conn.Message
					select {
					case got = <-remote.Receiver():
					default:
					}
					if got != nil {
						if got.Message.Type != p2p.Message_PIECE_PAYLOAD {
							res = "sent-garbled"
							break
						}
						b, _ := io.ReadAll(got.Payload)
						got.Payload.Close()
						if !bytes.Equal(b, w.blobs[i].piece(pi)) {
							res = "sent-garbled"
						}
						break
					}
					if local.IsClosed() || remote.IsClosed() {
						break
					}
				}
			}
		case p2p.Message_ERROR:
			res = "rejected"
		}
	}
	return res
}

// deliverPiece makes the fake peer send piece pi of torrent i (corrupted when !good) and reports
// what the write did to the torrent: "absent", "ok" (piece newly complete), "dup" (was complete),
// "invalid" (still missing).
func (w *vWorld) deliverPiece(i, pi int, good bool) string {
	p := w.peer(i)
	if p == nil {
		return "absent"
	}
	ctrl := w.ctrl(i)
	data := append([]byte(nil), w.blobs[i].piece(pi)...)
	if !good && len(data) > 0 {
		data[0] ^= 0xff
	}
	had := pi >= 0 && pi < w.np && ctrl.dispatcher.Stat().Bitfield().Test(uint(pi))
	msg := &conn.Message{Message: &p2p.Message{Type: p2p.Message_PIECE_PAYLOAD,
		PiecePayload: &p2p.PiecePayloadMessage{Index: int32(pi), Offset: 0, Length: int32(len(data))}},
		Payload: piecereader.NewBuffer(data)}
	p.roundTrip(msg)
	p.drainSent()
	has := pi >= 0 && pi < w.np && ctrl.dispatcher.Stat().Bitfield().Test(uint(pi))
	switch {
	case had:
		return "dup"
	case has:
		return "ok"
	default:
		return "invalid"
	}
}

// takeCompletion waits for the DispatcherComplete notice sent by dispatcher d and removes it from
// the queue.
func (w *vWorld) takeCompletion(d *dispatch.Dispatcher, wait time.Duration) (dispatcherCompleteEvent, bool) {
	e, ok := w.loop.take(func(e event) bool {
		ce, ok := e.(dispatcherCompleteEvent)
		return ok && ce.dispatcher == d
	}, wait)
	if !ok {
		return dispatcherCompleteEvent{}, false
	}
	return e.(dispatcherCompleteEvent), true
}

// waitFor blocks until an event accepted by match is queued (without removing it).
func (l *vLoop) waitFor(match func(event) bool, wait time.Duration) bool {
	deadline := time.Now().Add(wait)
	for {
		l.mu.Lock()
		for _, e := range l.q {
			if match(e) {
				l.mu.Unlock()
				return true
			}
		}
		l.mu.Unlock()
		if time.Now().After(deadline) {
			return false
		}
		time.Sleep(50 * time.Microsecond)
	}
}

// submit does what the scheduler's API methods and goroutines do with an event: hand it to the
// event loop, which applies it when it is still running (baseEventLoop.send returns false once the
// loop has been stopped, and the event is then never applied).
func (w *vWorld) submit(e event) bool {
	if w.loop.isStopped() {
		return false
	}
	e.apply(w.st)
	return true
}

// ---------------------------------------------------------------- incoming connections

// vIncoming is what became of one incoming connection attempt.
type vIncoming struct {
	res    string     // acceptfail | rejected | failed | active | connrejected
	c      *conn.Conn // the established conn (active / connrejected)
	remote net.Conn   // the remote peer's end of the pipe
}

// incoming plays a remote peer that opens a connection: it sends a handshake whose Name is the digest of
// torrent `name`, whose InfoHash is `claim` and whose bitfield is `bf`, and then reads whatever comes
// back. On our side the real path runs: Handshaker.Accept, incomingHandshakeEvent (applied here),
// scheduler.establishIncomingHandshake (on its own goroutine, as in the code), and the event it sends —
// incomingConnEvent or failedIncomingHandshakeEvent — is applied when it arrives.
func (w *vWorld) incoming(peerID core.PeerID, name int, claim core.InfoHash, bfBytes []byte) *vIncoming {
	nc1, nc2 := net.Pipe()
	out := &vIncoming{remote: nc2}
	w.remotes = append(w.remotes, nc2)
	msg := &p2p.Message{Type: p2p.Message_BITFIELD, Bitfield: &p2p.BitfieldMessage{
		PeerID: peerID.String(), InfoHash: claim.Hex(), Name: w.blobs[name].digest.Hex(), Namespace: vNamespace,
		BitfieldBytes: bfBytes}}
	data, err := proto.Marshal(msg)
	if err != nil {
		panic(err)
	}
	go func() {
		var hdr [4]byte
		binary.BigEndian.PutUint32(hdr[:], uint32(len(data)))
		nc2.Write(append(hdr[:], data...))
		io.Copy(io.Discard, nc2) // read the reply handshake and anything else until our side closes
	}()
	pc, err := w.sched.handshaker.Accept(nc1)
	if err != nil {
		nc1.Close()
		out.res = "acceptfail"
		return out
	}
	// will AddPending accept the pair? (probe, undone at once) — incomingHandshakeEvent reports nothing
	if perr := w.st.conns.AddPending(peerID, claim, nil); perr != nil {
		incomingHandshakeEvent{pc}.apply(w.st)
		out.res = "rejected"
		return out
	}
	w.st.conns.DeletePending(peerID, claim)
	incomingHandshakeEvent{pc}.apply(w.st)
	e, ok := w.loop.take(func(e event) bool {
		switch x := e.(type) {
		case incomingConnEvent:
			return x.c.PeerID() == peerID
		case failedIncomingHandshakeEvent:
			return x.peerID == peerID
		}
		return false
	}, 10*time.Second)
	if !ok {
		panic("harness: the incoming handshake produced no event")
	}
	e.apply(w.st)
	if ce, isConn := e.(incomingConnEvent); isConn {
		out.c = ce.c
		if ce.c.IsClosed() {
			out.res = "connrejected"
		} else {
			out.res = "active"
		}
	} else {
		out.res = "failed"
	}
	return out
}

// pairStatus reports what connstate holds for (peer, hash), through its public API only.
func (w *vWorld) pairStatus(peerID core.PeerID, h core.InfoHash) string {
	switch err := w.st.conns.AddPending(peerID, h, nil); err {
	case nil:
		w.st.conns.DeletePending(peerID, h)
		return "free"
	case connstate.ErrConnAlreadyPending:
		return "pending"
	case connstate.ErrConnAlreadyActive:
		return "active"
	case connstate.ErrTorrentAtCapacity:
		return "cap"
	default:
		return "other"
	}
}

// stConns returns the active conns of the current state (nil before the first state exists).
func (w *vWorld) stConns() []*conn.Conn {
	if w.st == nil {
		return nil
	}
	return w.st.conns.ActiveConns()
}

// ---------------------------------------------------------------- scripted announce client

// vAnnounce is one announce request the scheduler has sent to the tracker and not yet got an answer for.
type vAnnounce struct {
	h        core.InfoHash
	complete bool
	reply    chan error
}

// vAnnounceClient is the announceclient.Client of the harness scheduler. Unscripted (the default) it
// answers like announceclient.Disabled(). Scripted, every Announce call blocks until the harness releases
// it, so the real announce goroutines of the scheduler (scheduler.announce → announcer.Announce) run and
// their announceResultEvent / announceErrEvent are produced by the real code when the schedule says so.
type vAnnounceClient struct {
	mu       sync.Mutex
	scripted bool
	inflight []*vAnnounce
	total    int
}

func (c *vAnnounceClient) CheckReadiness() error { return nil }

func (c *vAnnounceClient) Announce(
	d core.Digest, h core.InfoHash, complete bool, version int) ([]*core.PeerInfo, time.Duration, error) {

	c.mu.Lock()
	if !c.scripted {
		c.mu.Unlock()
		return nil, 0, announceclient.ErrDisabled
	}
	a := &vAnnounce{h: h, complete: complete, reply: make(chan error, 1)}
	c.inflight = append(c.inflight, a)
	c.total++
	c.mu.Unlock()
	if err := <-a.reply; err != nil {
		return nil, 0, err
	}
	return nil, time.Second, nil
}

// waitTotal waits until n announce requests have been received in total.
func (c *vAnnounceClient) waitTotal(n int) {
	deadline := time.Now().Add(10 * time.Second)
	for {
		c.mu.Lock()
		t := c.total
		c.mu.Unlock()
		if t >= n {
			return
		}
		if time.Now().After(deadline) {
			panic(fmt.Sprintf("harness: expected %d announce requests, saw %d", n, t))
		}
		time.Sleep(50 * time.Microsecond)
	}
}

func (c *vAnnounceClient) count(h core.InfoHash) int {
	c.mu.Lock()
	defer c.mu.Unlock()
	n := 0
	for _, a := range c.inflight {
		if a.h == h {
			n++
		}
	}
	return n
}

// release answers the oldest in-flight announce of h; false when there is none.
func (c *vAnnounceClient) release(h core.InfoHash, err error) bool {
	c.mu.Lock()
	defer c.mu.Unlock()
	for i, a := range c.inflight {
		if a.h == h {
			c.inflight = append(c.inflight[:i:i], c.inflight[i+1:]...)
			a.reply <- err
			return true
		}
	}
	return false
}

// reset answers everything that is still in flight like a disabled client (no event results) and
// switches scripting off.
func (c *vAnnounceClient) reset() {
	c.mu.Lock()
	defer c.mu.Unlock()
	for _, a := range c.inflight {
		a.reply <- announceclient.ErrDisabled
	}
	c.inflight, c.total, c.scripted = nil, 0, false
}
