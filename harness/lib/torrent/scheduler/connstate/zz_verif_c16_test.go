//go:build verif

package connstate_test

import (
	"fmt"
	"net"
	"sort"
	"strconv"
	"strings"
	"testing"
	"time"

	"github.com/andres-erbsen/clock"
	"github.com/uber-go/tally"
	"go.uber.org/zap"

	"github.com/uber/kraken/core"
	"github.com/uber/kraken/lib/torrent/networkevent"
	"github.com/uber/kraken/lib/torrent/scheduler/conn"
	"github.com/uber/kraken/lib/torrent/scheduler/connstate"
	"github.com/uber/kraken/lib/torrent/storage"
	"github.com/uber/kraken/utils/verifh"
)

// C16 harness: drives connstate.State through its public API with real *conn.Conn values
// (made by a real handshake over loopback TCP, public conn.Handshaker API) and a clock.Mock.

const (
	c16NumHashes = 3
	c16NumPeers  = 4
)

// c16Clock is a clock.Mock whose Now() can be advanced without the 1ms real sleep clock.Mock.Add
// performs after every call (connstate only reads Now()).
type c16Clock struct {
	*clock.Mock
	off time.Duration
}

func (c *c16Clock) Now() time.Time { return c.Mock.Now().Add(c.off) }

type c16NoopEvents struct{}

func (c16NoopEvents) ConnClosed(*conn.Conn) {}

type c16Env struct {
	infos   []*storage.TorrentInfo
	peers   []core.PeerID
	ln      net.Listener
	local   *conn.Handshaker
	localID core.PeerID
	remote  []*conn.Handshaker
	pool    map[[2]int][]*conn.Conn // open, currently unused connections per (hash, peer)
	made    int
}

func c16Handshaker(id core.PeerID) *conn.Handshaker {
	h, err := conn.NewHandshaker(conn.Config{}, tally.NoopScope, clock.New(), networkevent.NewTestProducer(),
		id, c16NoopEvents{}, zap.NewNop().Sugar())
	if err != nil {
		panic(err)
	}
	return h
}

func c16NewEnv() *c16Env {
	e := &c16Env{pool: map[[2]int][]*conn.Conn{}}
	for i := 0; i < c16NumHashes; i++ {
		e.infos = append(e.infos, storage.TorrentInfoFixture(4, 1))
	}
	for i := 0; i < c16NumPeers; i++ {
		p, err := core.NewPeerID(strings.Repeat(fmt.Sprintf("%02x", i+1), 20))
		if err != nil {
			panic(err)
		}
		e.peers = append(e.peers, p)
		e.remote = append(e.remote, c16Handshaker(p))
	}
	e.localID = core.PeerIDFixture()
	e.local = c16Handshaker(e.localID)
	ln, err := net.Listen("tcp", "127.0.0.1:0")
	if err != nil {
		panic(err)
	}
	e.ln = ln
	return e
}

// dial makes a fresh local *conn.Conn whose PeerID is peers[p] and InfoHash is infos[h].
func (e *c16Env) dial(h, p int) *conn.Conn {
	type res struct {
		r   *conn.HandshakeResult
		err error
	}
	done := make(chan res, 1)
	go func() {
		// The remote side (peer p) opens the connection; we are the acceptor.
		r, err := e.remote[p].Initialize(e.localID, false, e.ln.Addr().String(), e.infos[h], nil, "ns")
		done <- res{r, err}
	}()
	nc, err := e.ln.Accept()
	if err != nil {
		panic(err)
	}
	pc, err := e.local.Accept(nc)
	if err != nil {
		panic(err)
	}
	c, err := e.local.Establish(pc, e.infos[h], nil)
	if err != nil {
		panic(err)
	}
	// The remote's own Conn is not needed: only the local object identity matters to connstate.
	r := <-done
	if r.err != nil {
		panic(r.err)
	}
	r.r.Conn.Close()
	e.made++
	if c.PeerID() != e.peers[p] || c.InfoHash() != e.infos[h].InfoHash() {
		panic("c16: handshake produced a conn for the wrong peer/hash")
	}
	return c
}

func (e *c16Env) take(h, p int) *conn.Conn {
	k := [2]int{h, p}
	if l := e.pool[k]; len(l) > 0 {
		c := l[len(l)-1]
		e.pool[k] = l[:len(l)-1]
		return c
	}
	return e.dial(h, p)
}

func (e *c16Env) giveBack(h, p int, c *conn.Conn) {
	if c.IsClosed() {
		return
	}
	k := [2]int{h, p}
	e.pool[k] = append(e.pool[k], c)
}

func c16Idx(tok string, pfx byte, n int) (int, bool) {
	if len(tok) < 2 || tok[0] != pfx {
		return 0, false
	}
	i, err := strconv.Atoi(tok[1:])
	if err != nil || i < 0 || i >= n {
		return 0, false
	}
	return i, true
}

type c16Conn struct {
	c    *conn.Conn
	h, p int
}

func c16AddRes(err error) string {
	switch err {
	case nil:
		return "ok"
	case connstate.ErrTorrentAtCapacity:
		return "cap"
	case connstate.ErrConnAlreadyPending:
		return "pend"
	case connstate.ErrConnAlreadyActive:
		return "act"
	case connstate.ErrTooManyMutualConns:
		return "mutual"
	}
	return "other:" + verifh.Str(err.Error())
}

func c16CfgInt(cfg []string, key string) (int64, bool) {
	for _, t := range cfg {
		if strings.HasPrefix(t, key+"=") {
			v, err := strconv.ParseInt(t[len(key)+1:], 10, 64)
			return v, err == nil
		}
	}
	return 0, false
}

func c16Exec(t *verifh.T, e *c16Env, c verifh.Case) {
	max, ok1 := c16CfgInt(c.Cfg, "max")
	mutual, ok2 := c16CfgInt(c.Cfg, "mutual")
	disable, ok3 := c16CfgInt(c.Cfg, "disable")
	dur, ok4 := c16CfgInt(c.Cfg, "dur")
	if !(ok1 && ok2 && ok3 && ok4) {
		return
	}
	clk := &c16Clock{Mock: clock.NewMock()}
	s := connstate.New(connstate.Config{
		MaxOpenConnectionsPerTorrent: int(max),
		MaxMutualConnections:         int(mutual),
		DisableBlacklist:             disable != 0,
		BlacklistDuration:            time.Duration(dur),
	}, clk, core.PeerIDFixture(), networkevent.NewTestProducer(), zap.NewNop().Sugar())
	t.Cfg(c.Cfg...)

	conns := map[int]*c16Conn{}
	byPtr := map[*conn.Conn]int{}
	usedH := map[int]bool{}
	usedP := map[int]bool{}
	newConn := func(k, h, p int) {
		cc := &c16Conn{c: e.take(h, p), h: h, p: p}
		conns[k] = cc
		byPtr[cc.c] = k
	}
	ph := func(op []string) (p, h int, ok bool) {
		if len(op) < 4 {
			return 0, 0, false
		}
		p, okp := c16Idx(op[2], 'p', c16NumPeers)
		h, okh := c16Idx(op[3], 'h', c16NumHashes)
		if okp && okh {
			usedH[h], usedP[p] = true, true
		}
		return p, h, okp && okh
	}
	do := func(op []string) {
		if len(op) < 2 || op[0] != "op" {
			return
		}
		switch op[1] {
		case "add":
			if len(op) != 5 {
				return
			}
			p, h, ok := ph(op)
			if !ok {
				return
			}
			var nbrs []core.PeerID
			for _, nt := range verifh.Unlist(op[4]) {
				q, ok := c16Idx(nt, 'p', c16NumPeers)
				if !ok {
					return
				}
				nbrs = append(nbrs, e.peers[q])
			}
			t.Op(op[1:], c16AddRes(s.AddPending(e.peers[p], e.infos[h].InfoHash(), nbrs)))
		case "delp":
			if p, h, ok := ph(op); ok && len(op) == 4 {
				s.DeletePending(e.peers[p], e.infos[h].InfoHash())
				t.Op(op[1:], "ok")
			}
		case "newconn":
			if len(op) != 5 {
				return
			}
			k, okk := c16Idx(op[2], 'c', 1<<20)
			h, okh := c16Idx(op[3], 'h', c16NumHashes)
			p, okp := c16Idx(op[4], 'p', c16NumPeers)
			if !okk || !okh || !okp || conns[k] != nil {
				return
			}
			usedH[h], usedP[p] = true, true
			newConn(k, h, p)
			t.Op(op[1:], "ok")
		case "close", "move", "dela":
			if len(op) != 3 {
				return
			}
			k, okk := c16Idx(op[2], 'c', 1<<20)
			if !okk || conns[k] == nil {
				return
			}
			cc := conns[k]
			switch op[1] {
			case "close":
				cc.c.Close()
				t.Op(op[1:], "ok")
			case "move":
				switch err := s.MovePendingToActive(cc.c); err {
				case nil:
					t.Op(op[1:], "ok")
				case connstate.ErrConnClosed:
					t.Op(op[1:], "closed")
				case connstate.ErrInvalidActiveTransition:
					t.Op(op[1:], "invalid")
				default:
					t.Op(op[1:], "other:"+verifh.Str(err.Error()))
				}
			case "dela":
				s.DeleteActive(cc.c)
				t.Op(op[1:], "ok")
			}
		case "bl":
			if p, h, ok := ph(op); ok && len(op) == 4 {
				if err := s.Blacklist(e.peers[p], e.infos[h].InfoHash()); err != nil {
					t.Op(op[1:], "already")
				} else {
					t.Op(op[1:], "ok")
				}
			}
		case "isbl":
			if p, h, ok := ph(op); ok && len(op) == 4 {
				t.Op(op[1:], verifh.Bool(s.Blacklisted(e.peers[p], e.infos[h].InfoHash())))
			}
		case "clearbl", "sat":
			if len(op) != 3 {
				return
			}
			h, ok := c16Idx(op[2], 'h', c16NumHashes)
			if !ok {
				return
			}
			usedH[h] = true
			if op[1] == "clearbl" {
				s.ClearBlacklist(e.infos[h].InfoHash())
				t.Op(op[1:], "ok")
			} else {
				t.Op(op[1:], verifh.Bool(s.Saturated(e.infos[h].InfoHash())))
			}
		case "active":
			if len(op) != 2 {
				return
			}
			var ks []int
			unknown := 0
			for _, c := range s.ActiveConns() {
				if k, ok := byPtr[c]; ok {
					ks = append(ks, k)
				} else {
					unknown++
				}
			}
			sort.Ints(ks)
			var toks []string
			for _, k := range ks {
				toks = append(toks, fmt.Sprintf("c%d", k))
			}
			for i := 0; i < unknown; i++ {
				toks = append(toks, "c?")
			}
			t.Op(op[1:], verifh.List(toks))
		case "snap":
			if len(op) != 2 {
				return
			}
			type row struct {
				h, p int
				rem  int64
			}
			var rows []row
			for _, b := range s.BlacklistSnapshot() {
				r := row{-1, -1, int64(b.Remaining)}
				for i, inf := range e.infos {
					if inf.InfoHash() == b.InfoHash {
						r.h = i
					}
				}
				for i, p := range e.peers {
					if p == b.PeerID {
						r.p = i
					}
				}
				rows = append(rows, r)
			}
			sort.Slice(rows, func(i, j int) bool {
				if rows[i].h != rows[j].h {
					return rows[i].h < rows[j].h
				}
				return rows[i].p < rows[j].p
			})
			var toks []string
			for _, r := range rows {
				toks = append(toks, fmt.Sprintf("h%d:p%d:%d", r.h, r.p, r.rem))
			}
			t.Op(op[1:], verifh.List(toks))
		case "adv":
			if len(op) != 3 {
				return
			}
			d, err := strconv.ParseInt(op[2], 10, 64)
			if err != nil || d < 0 || d > 1<<50 {
				return
			}
			clk.off += time.Duration(d)
			t.Op(op[1:], "ok")
		}
	}
	for _, op := range c.Ops {
		if p := verifh.Protect(func() { do(op) }); p != "" {
			t.PropFail("panic", verifh.Str(p))
		}
	}
	// drain: expose the whole state through the public API. Active conns are listed; an entry is
	// pending iff a fresh open conn for it can be moved to active.
	if p := verifh.Protect(func() {
		do([]string{"op", "active"})
		do([]string{"op", "snap"})
		var hs, ps []int
		for h := range usedH {
			hs = append(hs, h)
		}
		for p := range usedP {
			ps = append(ps, p)
		}
		sort.Ints(hs)
		sort.Ints(ps)
		k := 1000
		for _, h := range hs {
			do([]string{"op", "sat", fmt.Sprintf("h%d", h)})
			for _, p := range ps {
				do([]string{"op", "isbl", fmt.Sprintf("p%d", p), fmt.Sprintf("h%d", h)})
				for conns[k] != nil {
					k++
				}
				do([]string{"op", "newconn", fmt.Sprintf("c%d", k), fmt.Sprintf("h%d", h), fmt.Sprintf("p%d", p)})
				do([]string{"op", "move", fmt.Sprintf("c%d", k)})
			}
		}
		do([]string{"op", "active"})
	}); p != "" {
		t.PropFail("panic", verifh.Str(p))
	}
	t.End()
	for _, cc := range conns {
		e.giveBack(cc.h, cc.p, cc.c)
	}
}

func c16Cfg(max, mutual, disable int, dur int64) []string {
	return []string{fmt.Sprintf("max=%d", max), fmt.Sprintf("mutual=%d", mutual), fmt.Sprintf("disable=%d", disable),
		fmt.Sprintf("dur=%d", dur)}
}

func c16Op(toks ...string) []string { return append([]string{"op"}, toks...) }

func TestVerif_C16(t *testing.T) {
	tr := verifh.Open("cs")
	defer tr.Close()
	env := c16NewEnv()
	defer env.ln.Close()
	cases, replayOnly := verifh.InputCases("cs")
	for _, c := range cases {
		c16Exec(tr, env, c)
		tr.Count("corpus_or_replay_cases", 1)
	}
	if replayOnly {
		return
	}
	exhaust := func(name string, cfg []string, prefix, alpha [][]string, depth int) {
		var rec func(ops [][]string, d int)
		rec = func(ops [][]string, d int) {
			if d == 0 {
				c16Exec(tr, env, verifh.Case{Cfg: cfg, Ops: ops})
				tr.Count("exhaustive_"+name, 1)
				return
			}
			for _, o := range alpha {
				rec(append(ops[:len(ops):len(ops)], o), d-1)
			}
		}
		for d := 0; d <= depth; d++ {
			rec(prefix, d)
		}
	}
	// (a1) connection life cycle: one torrent, two peers, two connections to the same peer (the
	// replaced-connection scenario) and one to the other peer, a third peer arriving with both as
	// neighbours; Max 1 and 3, MaxMutual 1. Neighbour lists are duplicate-free (in production they
	// are the keys of a map), so nothing here depends on how a repeated neighbour would be counted.
	pre := [][]string{c16Op("newconn", "c0", "h0", "p0"), c16Op("newconn", "c1", "h0", "p0"), c16Op("newconn", "c2", "h0", "p1")}
	alphaConn := [][]string{
		c16Op("add", "p0", "h0", "-"), c16Op("add", "p1", "h0", "-"), c16Op("add", "p2", "h0", "p0,p1"), c16Op("delp", "p0", "h0"),
		c16Op("move", "c0"), c16Op("move", "c1"), c16Op("move", "c2"), c16Op("dela", "c0"), c16Op("dela", "c1"),
		c16Op("close", "c1"),
	}
	for _, max := range []int{1, 3} {
		exhaust(fmt.Sprintf("conn_max%d", max), c16Cfg(max, 1, 0, 10), pre, alphaConn, verifh.Scale(4, 5))
	}
	// (a2) blacklist timing: duration 10ns, advances across the expiry boundary.
	alphaBl := [][]string{
		c16Op("bl", "p0", "h0"), c16Op("isbl", "p0", "h0"), c16Op("clearbl", "h0"), c16Op("adv", "9"), c16Op("adv", "1"),
		c16Op("bl", "p1", "h0"), c16Op("bl", "p0", "h1"), c16Op("clearbl", "h1"),
	}
	exhaust("blacklist", c16Cfg(2, 0, 0, 10), nil, alphaBl, verifh.Scale(4, 5))
	exhaust("blacklist_disabled", c16Cfg(2, 0, 1, 10), nil, alphaBl, verifh.Scale(3, 4))

	// (b) random long histories over 3 torrents x 4 peers with random configurations
	r := verifh.NewRand(verifh.Seed(), "c16")
	for i := 0; i < verifh.Scale(1500, 40000); i++ {
		max := []int{0, 1, 1, 2, 2, 3, 3, 4}[r.Intn(8)]
		if r.Chance(1, 25) {
			max = -1
			tr.Count("random_cfg_negative_max", 1)
		}
		mutual := []int{0, 1, 1, 2, 3, 5}[r.Intn(6)]
		disable := 0
		if r.Chance(1, 10) {
			disable = 1
		}
		dur := []int64{0, 1, 5, 10, 10, 1000, -3}[r.Intn(7)]
		effDur := dur
		if effDur == 0 {
			effDur = 30000000000
		}
		nh, np := 1+r.Intn(c16NumHashes), 2+r.Intn(c16NumPeers-1)
		var ops [][]string
		var made []int
		n := 5 + r.Intn(60)
		pt := func() string { return fmt.Sprintf("p%d", r.Intn(np)) }
		ht := func() string { return fmt.Sprintf("h%d", r.Intn(nh)) }
		anyConn := func() string {
			if len(made) == 0 || r.Chance(1, 30) {
				return fmt.Sprintf("c%d", r.Intn(8)) // possibly unknown: skipped by the executor
			}
			return fmt.Sprintf("c%d", made[r.Intn(len(made))])
		}
		for j := 0; j < n; j++ {
			var o []string
			switch x := r.Intn(100); {
			case x < 22:
				var nb []string
				for q := 0; q < np; q++ {
					if r.Chance(1, 3) {
						nb = append(nb, fmt.Sprintf("p%d", q))
					}
				}
				o = c16Op("add", pt(), ht(), verifh.List(nb))
			case x < 28:
				o = c16Op("delp", pt(), ht())
			case x < 40:
				k := len(made)
				made = append(made, k)
				o = c16Op("newconn", fmt.Sprintf("c%d", k), ht(), pt())
			case x < 43:
				o = c16Op("close", anyConn())
			case x < 58:
				o = c16Op("move", anyConn())
			case x < 68:
				o = c16Op("dela", anyConn())
			case x < 76:
				o = c16Op("bl", pt(), ht())
			case x < 84:
				o = c16Op("isbl", pt(), ht())
			case x < 86:
				o = c16Op("clearbl", ht())
			case x < 89:
				o = c16Op("sat", ht())
			case x < 92:
				o = c16Op("active")
			case x < 93:
				o = c16Op("snap")
			default:
				var d int64
				switch r.Intn(5) {
				case 0:
					d = 0
				case 1:
					d = 1
				case 2:
					d = effDur - 1
				case 3:
					d = effDur
				case 4:
					d = effDur + 1
				}
				if d < 0 {
					d = 0
				}
				o = c16Op("adv", strconv.FormatInt(d, 10))
			}
			ops = append(ops, o)
			tr.Count("random_op_"+o[1], 1)
		}
		// malformed stream: a few syntactically odd records which the executor must skip
		if r.Chance(1, 20) {
			ops = append(ops, c16Op("move", "c999"), c16Op("add", "p9", "h0", "-"), c16Op("adv", "-5"))
			tr.Count("random_malformed", 1)
		}
		cs := verifh.Case{Cfg: c16Cfg(max, mutual, disable, dur), Ops: ops}
		if i < 2 {
			tr.Sample(fmt.Sprint(cs.Cfg, cs.Ops))
		}
		c16Exec(tr, env, cs)
		tr.Count("random_cases", 1)
	}
	tr.Count("tcp_handshakes", env.made)
}
