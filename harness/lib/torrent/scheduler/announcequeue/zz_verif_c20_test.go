//go:build verif

package announcequeue_test

import (
	"fmt"
	"strings"
	"testing"

	"github.com/uber/kraken/core"
	"github.com/uber/kraken/lib/torrent/scheduler/announcequeue"
	"github.com/uber/kraken/utils/verifh"
)

// C20 harness: drives announcequeue.QueueImpl through its public API and records what it returns.

var c20Hashes = func() []core.InfoHash {
	var hs []core.InfoHash
	for i := 0; i < 4; i++ {
		h, err := core.NewInfoHashFromHex(strings.Repeat(fmt.Sprintf("%02x", i+1), 20))
		if err != nil {
			panic(err)
		}
		hs = append(hs, h)
	}
	return hs
}()

func c20Hash(tok string) (core.InfoHash, bool) {
	var i int
	if _, err := fmt.Sscanf(tok, "h%d", &i); err != nil || i < 0 || i >= len(c20Hashes) {
		return core.InfoHash{}, false
	}
	return c20Hashes[i], true
}

func c20Tok(h core.InfoHash) string {
	for i, x := range c20Hashes {
		if x == h {
			return fmt.Sprintf("h%d", i)
		}
	}
	return "h?" + h.Hex()
}

func c20Exec(t *verifh.T, c verifh.Case) {
	q := announcequeue.New()
	t.Cfg()
	n := 0
	do := func(op []string) {
		switch {
		case len(op) == 3 && op[1] == "add":
			if h, ok := c20Hash(op[2]); ok {
				q.Add(h)
				n++
				t.Op(op[1:], "ok")
			}
		case len(op) == 2 && op[1] == "next":
			h, ok := q.Next()
			if ok {
				t.Op(op[1:], "some", c20Tok(h))
			} else {
				t.Op(op[1:], "none")
			}
		case len(op) == 3 && op[1] == "ready":
			if h, ok := c20Hash(op[2]); ok {
				q.Ready(h)
				t.Op(op[1:], "ok")
			}
		case len(op) == 3 && op[1] == "eject":
			if h, ok := c20Hash(op[2]); ok {
				q.Eject(h)
				t.Op(op[1:], "ok")
			}
		}
	}
	for _, op := range c.Ops {
		if p := verifh.Protect(func() { do(op) }); p != "" {
			t.PropFail("panic", verifh.Str(p))
		}
	}
	// drain: observe the remaining ready list through the public API
	for i := 0; i <= n+1; i++ {
		h, ok := q.Next()
		if !ok {
			t.Op([]string{"next"}, "none")
			break
		}
		t.Op([]string{"next"}, "some", c20Tok(h))
	}
	t.End()
}

func c20Alphabet(nh int) [][]string {
	ops := [][]string{{"op", "next"}}
	for i := 0; i < nh; i++ {
		h := fmt.Sprintf("h%d", i)
		ops = append(ops, []string{"op", "add", h}, []string{"op", "ready", h}, []string{"op", "eject", h})
	}
	return ops
}

func TestVerif_C20(t *testing.T) {
	tr := verifh.Open("aq")
	defer tr.Close()
	cases, replayOnly := verifh.InputCases("aq")
	for _, c := range cases {
		c20Exec(tr, c)
		tr.Count("corpus_or_replay_cases", 1)
	}
	if replayOnly {
		return
	}
	// (a) bounded-exhaustive: every op sequence up to depth d over 2 hashes (7 ops) …
	alpha := c20Alphabet(2)
	depth := verifh.Scale(5, 7)
	var rec func(prefix [][]string, d int)
	rec = func(prefix [][]string, d int) {
		if d == 0 {
			c20Exec(tr, verifh.Case{Ops: prefix})
			tr.Count("exhaustive_cases", 1)
			return
		}
		for _, o := range alpha {
			rec(append(prefix[:len(prefix):len(prefix)], o), d-1)
		}
	}
	for d := 0; d <= depth; d++ {
		rec(nil, d)
	}
	// (b) random long histories over 4 hashes, weighted towards precondition-respecting Adds
	r := verifh.NewRand(verifh.Seed(), "c20")
	alpha4 := c20Alphabet(4)
	for i := 0; i < verifh.Scale(2000, 200000); i++ {
		n := 1 + r.Intn(40)
		var ops [][]string
		inq := map[string]bool{}
		for j := 0; j < n; j++ {
			o := alpha4[r.Intn(len(alpha4))]
			if o[1] == "add" && inq[o[2]] && r.Chance(9, 10) {
				tr.Count("random_add_dup_avoided", 1)
				continue
			}
			if o[1] == "add" {
				inq[o[2]] = true
			}
			if o[1] == "eject" {
				delete(inq, o[2])
			}
			ops = append(ops, o)
			tr.Count("random_op_"+o[1], 1)
		}
		if i < 2 {
			tr.Sample(fmt.Sprint(ops))
		}
		c20Exec(tr, verifh.Case{Ops: ops})
		tr.Count("random_cases", 1)
	}
}
