//go:build verif

package scheduler

import (
	"bytes"
	"fmt"
	"io"
	"net"
	"os"
	"sort"
	"strconv"
	"strings"
	"sync"
	"testing"
	"time"

	"github.com/uber-go/tally"

	"github.com/uber/kraken/core"
	"github.com/uber/kraken/lib/hashring"
	"github.com/uber/kraken/lib/store/metadata"
	"github.com/uber/kraken/lib/torrent/storage/originstorage"
	"github.com/uber/kraken/tracker/peerhandoutpolicy"
	"github.com/uber/kraken/tracker/peerstore"
	"github.com/uber/kraken/lib/hostlist"
	"github.com/uber/kraken/lib/store"
	"github.com/uber/kraken/lib/torrent/networkevent"
	"github.com/uber/kraken/lib/torrent/scheduler/announcequeue"
	"github.com/uber/kraken/lib/torrent/scheduler/conn"
	"github.com/uber/kraken/lib/torrent/scheduler/connstate"
	"github.com/uber/kraken/lib/torrent/scheduler/dispatch"
	"github.com/uber/kraken/lib/torrent/storage"
	"github.com/uber/kraken/lib/torrent/storage/agentstorage"
	"github.com/uber/kraken/lib/torrent/storage/piecereader"
	"github.com/uber/kraken/tracker/announceclient"
	"github.com/uber/kraken/tracker/trackerserver"
	"github.com/uber/kraken/utils/log"
	"github.com/uber/kraken/utils/testutil"
	"github.com/uber/kraken/utils/verifh"
)

// C19 harness: in-process swarms of real schedulers on localhost with the real tracker fixture.
// Every peer's storage.TorrentArchive is wrapped: the wrapper records every WritePiece call
// (payload, result, globally sequenced invocation / response) and, for the corrupting peer,
// makes GetPieceReader return flipped bytes.  The network events of all peers go to one
// sequenced log.  The merged trace is one transcript case of machine "sw".
//
// Roles: s honest seeder on agent storage, o origin (originstorage over a CAStore, handed out by the
// tracker's origin store with origin=true, not announcing), c seeder corrupting every piece it serves,
// i seeder corrupting every other piece it serves, a agent, k agent that serves corrupted pieces.
// A case is described by its cfg only (pl, blob, roles, limits, join delays, departures, timing);
// the ops of a corpus / replay case are ignored: the swarm is re-run from the cfg.

type c19Rec struct {
	seq  int64
	toks []string
	obs  []string
}

type c19Log struct {
	mu   sync.Mutex
	seq  int64
	recs []c19Rec
	ids  map[string]int // peer id -> index
}

func (l *c19Log) next() int64 {
	l.mu.Lock()
	defer l.mu.Unlock()
	l.seq++
	return l.seq
}

func (l *c19Log) add(toks []string, obs []string) {
	l.mu.Lock()
	defer l.mu.Unlock()
	l.seq++
	l.recs = append(l.recs, c19Rec{l.seq, toks, obs})
}

func (l *c19Log) addAt(seq int64, toks []string, obs []string) {
	l.mu.Lock()
	defer l.mu.Unlock()
	l.recs = append(l.recs, c19Rec{seq, toks, obs})
}

func (l *c19Log) peer(id string) string {
	if i, ok := l.ids[id]; ok {
		return fmt.Sprintf("p%d", i)
	}
	return "p?"
}

// c19Producer is the networkevent.Producer of one peer.
type c19Producer struct {
	log *c19Log
}

func (p *c19Producer) Close() error { return nil }

func (p *c19Producer) Produce(e *networkevent.Event) {
	l := p.log
	self := l.peer(e.Self)
	switch e.Name {
	case networkevent.AddTorrent:
		var sb strings.Builder
		for _, b := range e.Bitfield {
			if b {
				sb.WriteByte('1')
			} else {
				sb.WriteByte('0')
			}
		}
		bits := sb.String()
		if bits == "" {
			bits = "-"
		}
		l.add([]string{"add_torrent", self}, []string{bits})
	case networkevent.AddActiveConn:
		l.add([]string{"conn", self, l.peer(e.Peer)}, nil)
	case networkevent.DropActiveConn:
		l.add([]string{"drop", self, l.peer(e.Peer)}, nil)
	case networkevent.RequestPiece:
		l.add([]string{"request", self, l.peer(e.Peer), strconv.Itoa(e.Piece)}, nil)
	case networkevent.ReceivePiece:
		l.add([]string{"receive", self, l.peer(e.Peer), strconv.Itoa(e.Piece)}, []string{"ok"})
	case networkevent.TorrentComplete:
		l.add([]string{"complete", self}, nil)
	}
}

// c19Torrent decorates a storage.Torrent.
type c19Torrent struct {
	storage.Torrent
	log     *c19Log
	self    string
	corrupt string // "": honest, "all": every served piece is corrupted, "alt": every other one
	served  *int64
	mu      *sync.Mutex
}

func c19Class(err error) string {
	switch {
	case err == nil:
		return "ok"
	case err == storage.ErrPieceComplete:
		return "errComplete"
	case err.Error() == "piece is already being written to":
		return "errConflict"
	case strings.HasPrefix(err.Error(), "invalid piece index"):
		return "errIndex"
	case strings.HasPrefix(err.Error(), "invalid piece length"):
		return "errLength"
	case err.Error() == "write piece: invalid piece sum":
		return "errSum"
	}
	return "errStore"
}

func (t *c19Torrent) WritePiece(src storage.PieceReader, pi int) error {
	data, rerr := io.ReadAll(src)
	if rerr != nil {
		return t.Torrent.WritePiece(src, pi)
	}
	inv := t.log.next()
	res := "panic"
	var err error
	func() {
		defer func() {
			if r := recover(); r != nil {
				resp := t.log.next()
				t.log.addAt(resp, []string{"w", t.self, fmt.Sprintf("c%d", inv), strconv.Itoa(pi), verifh.Hex(data),
					strconv.FormatInt(inv, 10), strconv.FormatInt(resp, 10)}, []string{"panic"})
				panic(r)
			}
		}()
		err = t.Torrent.WritePiece(piecereader.NewBuffer(data), pi)
		res = c19Class(err)
	}()
	resp := t.log.next()
	t.log.addAt(resp, []string{"w", t.self, fmt.Sprintf("c%d", inv), strconv.Itoa(pi), verifh.Hex(data),
		strconv.FormatInt(inv, 10), strconv.FormatInt(resp, 10)}, []string{res})
	return err
}

func (t *c19Torrent) GetPieceReader(pi int) (storage.PieceReader, error) {
	r, err := t.Torrent.GetPieceReader(pi)
	if err != nil || t.corrupt == "" {
		return r, err
	}
	t.mu.Lock()
	*t.served++
	n := *t.served
	t.mu.Unlock()
	if t.corrupt == "alt" && n%2 == 0 {
		return r, nil
	}
	defer r.Close()
	data, err := io.ReadAll(r)
	if err != nil {
		return nil, err
	}
	if len(data) > 0 {
		data[(pi*7)%len(data)] ^= 0xFF
	}
	t.log.add([]string{"corrupt_served", t.self, strconv.Itoa(pi)}, nil)
	return piecereader.NewBuffer(data), nil
}

type c19Archive struct {
	storage.TorrentArchive
	log     *c19Log
	self    string
	corrupt string
	served  int64
	mu      sync.Mutex
}

func (a *c19Archive) wrap(t storage.Torrent, err error) (storage.Torrent, error) {
	if err != nil {
		return nil, err
	}
	return &c19Torrent{Torrent: t, log: a.log, self: a.self, corrupt: a.corrupt, served: &a.served, mu: &a.mu}, nil
}

func (a *c19Archive) CreateTorrent(ns string, d core.Digest) (storage.Torrent, error) {
	return a.wrap(a.TorrentArchive.CreateTorrent(ns, d))
}

func (a *c19Archive) GetTorrent(ns string, d core.Digest) (storage.Torrent, error) {
	return a.wrap(a.TorrentArchive.GetTorrent(ns, d))
}

type c19MetaInfoClient struct{ mi *core.MetaInfo }

func (c *c19MetaInfoClient) Download(namespace string, d core.Digest) (*core.MetaInfo, error) {
	return c.mi, nil
}

// c19OriginStore is the tracker's origin store: it hands out the swarm's origins.
type c19OriginStore struct {
	mu      sync.Mutex
	origins []*core.PeerInfo
}

func (o *c19OriginStore) GetOrigins(d core.Digest) ([]*core.PeerInfo, error) {
	o.mu.Lock()
	defer o.mu.Unlock()
	return append([]*core.PeerInfo(nil), o.origins...), nil
}

type c19Peer struct {
	idx   int
	role  string
	cads  *store.CADownloadStore
	cas   *store.CAStore
	inner *agentstorage.TorrentArchive
	sched *scheduler
	dl    string // result of Download
	left  bool
}

func c19FreePort() int {
	l, err := net.Listen("tcp", "localhost:0")
	if err != nil {
		panic(err)
	}
	defer l.Close()
	_, p, _ := net.SplitHostPort(l.Addr().String())
	port, _ := strconv.Atoi(p)
	return port
}

type c19Cfg struct {
	pl       int
	blob     []byte
	roles    []string
	maxconn  int
	pipeline int
	delays   []int // ms before each peer starts its download
	depart   []int // peers that leave mid-transfer
	departMs int
	endgame  bool
	blms     int // blacklist duration
	prtms    int // piece request min timeout
	conntti  int // idle connection timeout (ms)
	opipe    int // pipeline limit towards origins
}

func c19IsAgent(r string) bool { return r == "a" || r == "k" }

func c19ParseCfg(cfg []string) (*c19Cfg, error) {
	kv := map[string]string{}
	for _, c := range cfg {
		if i := strings.IndexByte(c, '='); i > 0 {
			kv[c[:i]] = c[i+1:]
		}
	}
	c := &c19Cfg{}
	var err error
	if c.pl, err = strconv.Atoi(kv["pl"]); err != nil || c.pl <= 0 {
		return nil, fmt.Errorf("pl")
	}
	if c.blob, err = verifh.Unhex(kv["blob"]); err != nil || len(c.blob) == 0 {
		return nil, fmt.Errorf("blob")
	}
	c.roles = verifh.Unlist(kv["roles"])
	if len(c.roles) < 2 || len(c.roles) > 12 {
		return nil, fmt.Errorf("roles")
	}
	for _, r := range c.roles {
		if !strings.Contains("s o c i a k", r) || len(r) != 1 {
			return nil, fmt.Errorf("role")
		}
	}
	if c.maxconn, err = strconv.Atoi(kv["maxconn"]); err != nil || c.maxconn < 1 {
		return nil, fmt.Errorf("maxconn")
	}
	if c.pipeline, err = strconv.Atoi(kv["pipeline"]); err != nil || c.pipeline < 1 {
		return nil, fmt.Errorf("pipeline")
	}
	for _, d := range verifh.Unlist(kv["delays"]) {
		v, _ := strconv.Atoi(d)
		c.delays = append(c.delays, v)
	}
	for len(c.delays) < len(c.roles) {
		c.delays = append(c.delays, 0)
	}
	for _, d := range verifh.Unlist(kv["depart"]) {
		if v, err := strconv.Atoi(d); err == nil && v >= 0 && v < len(c.roles) {
			c.depart = append(c.depart, v)
		}
	}
	// at least one honest seeder / origin stays
	stays := false
	for i, r := range c.roles {
		gone := false
		for _, d := range c.depart {
			gone = gone || d == i
		}
		stays = stays || ((r == "s" || r == "o") && !gone)
	}
	if !stays {
		return nil, fmt.Errorf("no honest seeder stays")
	}
	c.departMs, _ = strconv.Atoi(kv["departms"])
	c.endgame = kv["endgame"] != "0"
	if c.blms, _ = strconv.Atoi(kv["blms"]); c.blms <= 0 {
		c.blms = 300
	}
	if c.prtms, _ = strconv.Atoi(kv["prtms"]); c.prtms <= 0 {
		c.prtms = 500
	}
	if c.conntti, _ = strconv.Atoi(kv["conntti"]); c.conntti <= 0 {
		c.conntti = 10000
	}
	if c.opipe, _ = strconv.Atoi(kv["opipeline"]); c.opipe <= 0 {
		c.opipe = c.pipeline + 1
	}
	return c, nil
}

// c19RunSwarm runs one swarm; returns the merged records and whether every remaining agent converged.
func c19RunSwarm(c *c19Cfg, timeout time.Duration, timeoutTok string) (recs []c19Rec, converged bool, setupErr string) {
	var cleanup testutil.Cleanup
	defer cleanup.Run()

	ostore := &c19OriginStore{}
	tracker := trackerserver.New(trackerserver.Config{AnnounceInterval: 250 * time.Millisecond}, tally.NoopScope,
		peerhandoutpolicy.DefaultPriorityPolicyFixture(), peerstore.NewTestStore(), ostore, nil)
	trackerAddr, stop := testutil.StartServer(tracker.Handler())
	cleanup.Add(stop)

	d, err := core.NewDigester().FromBytes(c.blob)
	if err != nil {
		panic(err)
	}
	mi, err := core.NewMetaInfo(d, bytes.NewReader(c.blob), int64(c.pl))
	if err != nil {
		panic(err)
	}
	lg := &c19Log{ids: map[string]int{}}
	config := Config{
		SeederTTI:          5 * time.Minute,
		LeecherTTI:         5 * time.Minute,
		PreemptionInterval: 500 * time.Millisecond,
		ConnTTI:            time.Duration(c.conntti) * time.Millisecond,
		ConnTTL:            5 * time.Minute,
		ConnState:          connstate.Config{MaxOpenConnectionsPerTorrent: c.maxconn, BlacklistDuration: time.Duration(c.blms) * time.Millisecond},
		Conn:               conn.ConfigFixture(),
		Dispatch: dispatch.Config{PieceRequestMinTimeout: time.Duration(c.prtms) * time.Millisecond, PieceRequestTimeoutPerMb: time.Millisecond,
			AgentPipelineLimit: c.pipeline, OriginPipelineLimit: c.opipe, DisableEndgame: !c.endgame},
		TorrentLog: log.Config{Disable: true},
		Log:        log.Config{Disable: true},
	}
	ns := "verif/c19"
	var peers []*c19Peer
	for i, role := range c.roles {
		dir, err := os.MkdirTemp("", "verif-c19-")
		if err != nil {
			panic(err)
		}
		cleanup.Add(func() { os.RemoveAll(dir) })
		p := &c19Peer{idx: i, role: role}
		peerID := core.PeerIDFixture()
		lg.ids[peerID.String()] = i
		self := fmt.Sprintf("p%d", i)
		corrupt := map[string]string{"c": "all", "k": "all", "i": "alt"}[role]
		var ta storage.TorrentArchive
		if role == "o" {
			cas, err := store.NewCAStore(store.CAStoreConfig{UploadDir: dir + "/upload", CacheDir: dir + "/cache"}, tally.NoopScope)
			if err != nil {
				panic(err)
			}
			cleanup.Add(cas.Close)
			if err := cas.CreateCacheFile(d.Hex(), bytes.NewReader(c.blob)); err != nil {
				return nil, false, "origin: create cache file: " + err.Error()
			}
			if _, err := cas.SetCacheFileMetadata(d.Hex(), metadata.NewTorrentMeta(mi)); err != nil {
				return nil, false, "origin: set torrent meta: " + err.Error()
			}
			p.cas = cas
			ta = &c19Archive{TorrentArchive: originstorage.NewTorrentArchive(cas, nil), log: lg, self: self}
		} else {
			cads, err := store.NewCADownloadStore(store.CADownloadStoreConfig{DownloadDir: dir + "/download", CacheDir: dir + "/cache"}, tally.NoopScope)
			if err != nil {
				panic(err)
			}
			cleanup.Add(cads.Close)
			p.cads = cads
			p.inner = agentstorage.NewTorrentArchive(tally.NoopScope, cads, &c19MetaInfoClient{mi})
			ta = &c19Archive{TorrentArchive: p.inner, log: lg, self: self, corrupt: corrupt}
		}
		// another process may grab the probed port before the scheduler listens on it: retry with a new one
		var s *scheduler
		var pctx core.PeerContext
		for try := 0; ; try++ {
			pctx = core.PeerContext{PeerID: peerID, Zone: "zone1", IP: "localhost", Port: c19FreePort(), Origin: role == "o"}
			ac := announceclient.New(pctx, hashring.NoopPassiveRing(hostlist.Fixture(trackerAddr)), nil)
			var aq announcequeue.Queue = announcequeue.New()
			if role == "o" {
				ac = announceclient.Disabled()
				aq = announcequeue.Disabled()
			}
			s, err = newScheduler(config, ta, tally.NoopScope, pctx, ac, &c19Producer{lg})
			if err != nil {
				panic(err)
			}
			if err = s.start(aq); err == nil {
				break
			}
			if try > 50 {
				panic(err)
			}
		}
		cleanup.Add(s.Stop)
		p.sched = s
		if role == "o" {
			ostore.mu.Lock()
			ostore.origins = append(ostore.origins, core.PeerInfoFromContext(pctx, true))
			ostore.mu.Unlock()
		}
		peers = append(peers, p)
	}
	// seeders hold the blob before they join (written through the unwrapped archive: not part of the trace)
	for _, p := range peers {
		if c19IsAgent(p.role) || p.role == "o" {
			continue
		}
		t, err := p.inner.CreateTorrent(ns, d)
		if err != nil {
			return nil, false, "create torrent: " + err.Error()
		}
		for i := 0; i < t.NumPieces(); i++ {
			lo := int64(i) * mi.PieceLength()
			if err := t.WritePiece(piecereader.NewBuffer(c.blob[lo:lo+t.PieceLength(i)]), i); err != nil {
				return nil, false, fmt.Sprintf("seeder p%d: the blob's piece %d was rejected: %s", p.idx, i, err)
			}
		}
	}
	var wg sync.WaitGroup
	var mu sync.Mutex
	for _, p := range peers {
		if p.role == "o" {
			continue // an origin opens the torrent when the first agent connects
		}
		p := p
		wg.Add(1)
		go func() {
			defer wg.Done()
			time.Sleep(time.Duration(c.delays[p.idx]) * time.Millisecond)
			res := "ok"
			if err := p.sched.Download(ns, d); err != nil {
				switch err {
				case ErrSchedulerStopped:
					res = "stopped"
				case ErrTorrentTimeout:
					res = "torrent_timeout"
				case ErrTorrentRemoved:
					res = "removed"
				case ErrTorrentNotFound:
					res = "not_found"
				default:
					res = "err:" + verifh.Str(err.Error())
				}
			}
			mu.Lock()
			if p.dl == "" {
				p.dl = res
			}
			mu.Unlock()
		}()
	}
	for _, di := range c.depart {
		dp := peers[di]
		go func() {
			time.Sleep(time.Duration(c.delays[dp.idx]+c.departMs) * time.Millisecond)
			mu.Lock()
			dp.left = true
			if dp.dl == "" {
				dp.dl = "left"
			}
			mu.Unlock()
			lg.add([]string{"leave", fmt.Sprintf("p%d", dp.idx)}, nil)
			dp.sched.Stop()
		}()
	}
	done := make(chan struct{})
	go func() { wg.Wait(); close(done) }()
	converged = true
	select {
	case <-done:
	case <-time.After(timeout):
		converged = false
	}
	// a Download whose blob is already complete in the cache returns within moments: before calling it a
	// hang, give it a generous grace period (machine load delays goroutines, not a lost wake-up)
	if !converged {
		grace := time.Now().Add(45 * time.Second)
		for time.Now().Before(grace) {
			pendingComplete := false
			mu.Lock()
			for _, p := range peers {
				if p.dl == "" && p.cads != nil {
					if r, err := p.cads.Cache().GetFileReader(d.Hex()); err == nil {
						r.Close()
						pendingComplete = true
					}
				}
			}
			mu.Unlock()
			if !pendingComplete {
				break
			}
			time.Sleep(50 * time.Millisecond)
		}
	}
	// freeze the outcome of every Download, then stop all schedulers so that the trace is closed
	mu.Lock()
	for _, p := range peers {
		if p.dl == "" {
			p.dl = timeoutTok
		}
	}
	mu.Unlock()
	for _, p := range peers {
		p.sched.Stop()
	}
	// every accepted write has produced its receive_piece event
	settled := false
	deadline := time.Now().Add(120 * time.Second)
	for time.Now().Before(deadline) {
		lg.mu.Lock()
		okw, rcv := 0, 0
		for _, r := range lg.recs {
			if r.toks[0] == "w" && len(r.obs) == 1 && r.obs[0] == "ok" {
				okw++
			}
			if r.toks[0] == "receive" {
				rcv++
			}
		}
		lg.mu.Unlock()
		if okw == rcv {
			settled = true
			break
		}
		time.Sleep(20 * time.Millisecond)
	}
	if !settled {
		// the trace is not closed (an accepted write without its event): it cannot be replayed faithfully
		return nil, converged, "unsettled"
	}
	// final observations of every peer (the departed ones too)
	for _, p := range peers {
		mu.Lock()
		dl := p.dl
		mu.Unlock()
		if p.role == "o" {
			dl = "origin"
		}
		cm, bf, cache := "0", "-", "-"
		if p.role == "o" {
			if r, err := p.cas.GetCacheFileReader(d.Hex()); err == nil {
				if b, err := io.ReadAll(r); err == nil {
					cache, cm = verifh.Hex(b), "1"
				}
				r.Close()
			}
			bf = strings.Repeat("1", mi.NumPieces())
		} else {
			if info, err := p.inner.Stat(ns, d); err == nil {
				var sb strings.Builder
				b := info.Bitfield()
				for i := 0; i < mi.NumPieces(); i++ {
					if b.Test(uint(i)) {
						sb.WriteByte('1')
					} else {
						sb.WriteByte('0')
					}
				}
				bf = sb.String()
			} else if c19IsAgent(p.role) {
				bf = strings.Repeat("0", mi.NumPieces()) // the download was never opened
			}
			if r, err := p.cads.Cache().GetFileReader(d.Hex()); err == nil {
				if b, err := io.ReadAll(r); err == nil {
					cache = verifh.Hex(b)
					cm = "1" // complete == committed to the cache directory
				}
				r.Close()
			}
		}
		lg.add([]string{"final", fmt.Sprintf("p%d", p.idx)}, []string{"dl=" + dl, "complete=" + cm, "bf=" + bf, "cache=" + cache})
	}
	lg.mu.Lock()
	recs = append(recs, lg.recs...)
	lg.mu.Unlock()
	sort.SliceStable(recs, func(i, j int) bool { return recs[i].seq < recs[j].seq })
	return recs, converged, ""
}

func c19Emit(tr *verifh.T, cfg []string, attempt int, recs []c19Rec) {
	tr.Cfg(append(append([]string{}, cfg...), fmt.Sprintf("attempt=%d", attempt))...)
	for _, r := range recs {
		tr.Rec("op", r.toks, r.obs)
	}
	tr.Op([]string{"done"}, "ok")
	tr.End()
	tr.Count("trace_records", len(recs))
}

func c19Exec(tr *verifh.T, c verifh.Case) {
	var raw []string
	for _, t := range c.Cfg {
		if !strings.HasPrefix(t, "attempt=") {
			raw = append(raw, t)
		}
	}
	cfg, err := c19ParseCfg(raw)
	if err != nil {
		return
	}
	timeout := time.Duration(verifh.Scale(90, 180)) * time.Second
	t0 := time.Now()
	defer func() { tr.Count("swarm_wall_ms_total", int(time.Since(t0).Milliseconds())) }()
	recs, ok, setupErr := c19RunSwarm(cfg, timeout, "timeout1")
	if setupErr == "unsettled" {
		tr.Comment("swarm trace did not settle within the deadline; not reported")
		tr.Count("swarms_unsettled", 1)
		return
	}
	if setupErr != "" {
		// writing the blob's own pieces, in order, into a fresh torrent must succeed
		tr.Cfg(raw...)
		tr.PropFail("seeder-setup-rejected", verifh.Str(setupErr))
		tr.End()
		return
	}
	// the first trace is always reported: its monitors run whether or not it converged
	c19Emit(tr, raw, 1, recs)
	tr.Count("swarms", 1)
	if !ok {
		// "did not converge within the timeout" as such is only reported after a retry of the whole swarm
		tr.Count("swarm_retries", 1)
		tr.Comment("swarm did not converge within the timeout; retrying once")
		var serr string
		recs, ok, serr = c19RunSwarm(cfg, 2*timeout, "timeout")
		if serr != "" {
			tr.Comment("retry of the swarm could not be recorded: " + serr)
			tr.Count("swarms_unsettled", 1)
			return
		}
		c19Emit(tr, raw, 2, recs)
		if !ok {
			tr.Count("swarms_not_converged", 1)
		}
	}
}

func c19GenCfg(r *verifh.Rand) []string {
	pl := []int{1, 3, 8, 16, 64}[r.Intn(5)]
	np := 1 + r.Intn(24)
	blob := r.Bytes(pl*(np-1) + 1 + r.Intn(pl))
	roles := []string{}
	nseed := 1 + r.Intn(2)
	for i := 0; i < nseed; i++ {
		if r.Chance(1, 2) {
			roles = append(roles, "o")
		} else {
			roles = append(roles, "s")
		}
	}
	nhonest := len(roles)
	switch r.Intn(6) {
	case 0, 1:
		roles = append(roles, "c")
	case 2:
		roles = append(roles, "i")
	case 3:
		roles = append(roles, "k")
	}
	nagent := 2 + r.Intn(4)
	for i := 0; i < nagent; i++ {
		roles = append(roles, "a")
	}
	// shuffle so that peer indexes do not encode roles
	for i, j := range r.Perm(len(roles)) {
		roles[i], roles[j] = roles[j], roles[i]
	}
	var delays []string
	for range roles {
		delays = append(delays, strconv.Itoa(r.Intn(4)*r.Intn(60)))
	}
	var depart []string
	if r.Chance(1, 2) {
		var agents, seeders []int
		for i, ro := range roles {
			if ro == "a" {
				agents = append(agents, i)
			}
			if ro == "s" || ro == "o" {
				seeders = append(seeders, i)
			}
		}
		depart = append(depart, strconv.Itoa(agents[r.Intn(len(agents))]))
		if nhonest >= 2 && r.Chance(1, 2) {
			depart = append(depart, strconv.Itoa(seeders[r.Intn(len(seeders))])) // one honest seeder stays
		}
	}
	// tight connection limits (1 and 2) make refused handshakes, connect-backs and slot reuse frequent
	maxconn := []int{1, 2, 2, 3, 5, 10}[r.Intn(6)]
	if maxconn < 3 && len(roles) > 5 {
		maxconn = 3
	}
	conntti := 10000
	if maxconn <= 2 {
		conntti = 2000 // two starving agents holding each other's only slot give up quickly
	}
	pipeline := []int{1, 1, 2, 3, 4}[r.Intn(5)]
	opipeline := []int{1, pipeline, pipeline + 1}[r.Intn(3)]
	return []string{fmt.Sprintf("pl=%d", pl), "blob=" + verifh.Hex(blob), "roles=" + verifh.List(roles),
		fmt.Sprintf("maxconn=%d", maxconn), fmt.Sprintf("pipeline=%d", pipeline), fmt.Sprintf("opipeline=%d", opipeline), "delays=" + verifh.List(delays),
		"depart=" + verifh.List(depart), fmt.Sprintf("departms=%d", r.Intn(120)), "endgame=" + verifh.Bool(r.Chance(3, 4)),
		fmt.Sprintf("blms=%d", []int{300, 1500, 6000}[r.Intn(3)]), fmt.Sprintf("prtms=%d", []int{500, 500, 2000}[r.Intn(3)]),
		fmt.Sprintf("conntti=%d", conntti)}
}

func TestVerif_C19(t *testing.T) {
	tr := verifh.Open("sw")
	defer tr.Close()
	cases, replayOnly := verifh.InputCases("sw")
	for _, c := range cases {
		c19Exec(tr, c)
		tr.Count("corpus_or_replay_cases", 1)
	}
	if replayOnly {
		return
	}
	r := verifh.NewRand(verifh.Seed(), "c19")
	for i := 0; i < verifh.Scale(7, 300); i++ {
		cfg := c19GenCfg(r)
		if i < 2 {
			tr.Sample(strings.Join(cfg, " "))
		}
		c19Exec(tr, verifh.Case{Cfg: cfg})
	}
}
