//go:build verif

package agentstorage

// C39 harness, machine "ps": pieceStatusMetadata Serialize / Deserialize (unexported, in-package).

import (
	"strconv"
	"testing"

	"github.com/uber/kraken/utils/verifh"
)

func c39StatusList(m *pieceStatusMetadata) string {
	var xs []string
	for _, p := range m.pieces {
		xs = append(xs, strconv.Itoa(int(p.status)))
	}
	return verifh.List(xs)
}

func c39PsOp(t *verifh.T, op []string) {
	if len(op) != 2 {
		return
	}
	switch op[0] {
	case "pser":
		var pieces []*piece
		for _, s := range verifh.Unlist(op[1]) {
			v, err := strconv.Atoi(s)
			if err != nil || v < 0 || v > 2 {
				return
			}
			pieces = append(pieces, &piece{status: pieceStatus(v)})
		}
		b, err := newPieceStatusMetadata(pieces).Serialize()
		if err != nil {
			t.One(op, "err")
			return
		}
		var back pieceStatusMetadata
		if err := back.Deserialize(b); err != nil {
			t.One(op, verifh.Hex(b), "back=err")
			return
		}
		t.One(op, verifh.Hex(b), "back="+c39StatusList(&back))
	case "pde":
		b, err := verifh.Unhex(op[1])
		if err != nil {
			return
		}
		var m pieceStatusMetadata
		if err := m.Deserialize(b); err != nil {
			t.One(op, "err")
			return
		}
		t.One(op, c39StatusList(&m))
	}
}

func c39PsExec(t *verifh.T, c verifh.Case) {
	for _, op := range c.Ops {
		if len(op) < 2 || op[0] != "one" {
			continue
		}
		o := op[1:]
		if p := verifh.Protect(func() { c39PsOp(t, o) }); p != "" {
			t.One(o, "panic")
			t.PropFail("panic", verifh.Str(p))
		}
	}
}

func TestVerif_C39_Ps(t *testing.T) {
	tr := verifh.Open("ps")
	defer tr.Close()
	cases, replayOnly := verifh.InputCases("ps")
	for _, c := range cases {
		c39PsExec(tr, c)
		tr.Count("corpus_or_replay_cases", 1)
	}
	if replayOnly {
		return
	}
	r := verifh.NewRand(verifh.Seed(), "c39ps")
	run := func(toks ...string) {
		c39PsExec(tr, verifh.Case{Ops: [][]string{append([]string{"one"}, toks...)}})
	}
	// (a) exhaustive: every status vector up to length 5 (6) over {empty, complete, dirty}
	var rec func(prefix []string, d int)
	rec = func(prefix []string, d int) {
		run("pser", verifh.List(prefix))
		tr.Count("pser_exhaustive", 1)
		if d == 0 {
			return
		}
		for _, s := range []string{"0", "1", "2"} {
			rec(append(prefix[:len(prefix):len(prefix)], s), d-1)
		}
	}
	rec(nil, verifh.Scale(5, 7))
	// every byte string up to length 3 over a small alphabet, all single bytes
	for b := 0; b < 256; b++ {
		run("pde", verifh.Hex([]byte{byte(b)}))
	}
	alpha := []byte{0, 1, 2, 3, 255}
	var recb func(prefix []byte, d int)
	recb = func(prefix []byte, d int) {
		run("pde", verifh.Hex(prefix))
		tr.Count("pde_exhaustive", 1)
		if d == 0 {
			return
		}
		for _, a := range alpha {
			recb(append(prefix[:len(prefix):len(prefix)], a), d-1)
		}
	}
	recb(nil, verifh.Scale(3, 5))
	// (b) random long vectors
	for i := 0; i < verifh.Scale(300, 30000); i++ {
		n := r.Intn(200)
		var xs []string
		for j := 0; j < n; j++ {
			if r.Chance(1, 15) {
				xs = append(xs, "2")
			} else {
				xs = append(xs, strconv.Itoa(r.Intn(2)))
			}
		}
		run("pser", verifh.List(xs))
		run("pde", verifh.Hex(r.Bytes(r.Intn(100))))
		tr.Count("random", 2)
	}
}
