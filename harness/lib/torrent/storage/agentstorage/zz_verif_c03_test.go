//go:build verif

package agentstorage_test

import (
	"bytes"
	"errors"
	"fmt"
	"io"
	"os"
	"path/filepath"
	"runtime"
	"sort"
	"strconv"
	"strings"
	"sync"
	"sync/atomic"
	"testing"
	"time"

	"github.com/uber-go/tally"

	"github.com/uber/kraken/core"
	"github.com/uber/kraken/lib/store"
	"github.com/uber/kraken/lib/torrent/storage"
	"github.com/uber/kraken/lib/torrent/storage/agentstorage"
	"github.com/uber/kraken/lib/torrent/storage/piecereader"
	"github.com/uber/kraken/tracker/metainfoclient"
	"github.com/uber/kraken/utils/verifh"
)

// C03 harness: drives agentstorage.Torrent on a real CADownloadStore.
//
// machine "at":  an interpreter of op records
//   write <pi> <payload>        WritePiece in the calling goroutine
//   spawn <w> <pi> <payload>    register a writer goroutine (not started)
//   run <w> <k>                 let writer w run to its next gate (or to the end); k = bytes its next Read returns
//   obs / read <pi> / has <pi> / plen <pi> / metainfo / reopen
//   burst <w,w,…> <k>           release all listed writers at the same instant, wait until each is parked again or done
// Gates (where a writer goroutine is parked; they are the program points of the Lean model). The cfg
// token gates=<list> selects which ones are active in a case (default g1,g2,g3,g4):
//   fc piece.complete()   fd piece.dirty()   td piece.tryMarkDirty()   (agentstorage.VerifPoint hook)
//   g1 GetDownloadFileReadWriter (after tryMarkDirty)   g2 every Read of the payload (before each file write)
//   g3 Download() of markPieceComplete (after the checksum matched)
//   mc piece.markComplete()   in numComplete.Inc()   ld numComplete.Load()          (hook)
//   g4 MoveDownloadFileToCache   sc committed.Store(true)   me piece.markEmpty()    (hook)
// machine "atc": free-running concurrent writers (history + final state, monitors only).

// ---------------------------------------------------------------- gating

type c03Release struct {
	k       int
	barrier *int32 // spin barrier of a burst: the released writers are all running when it opens
}

func c03Spin(b *int32) {
	for i := 0; atomic.LoadInt32(b) == 0; i++ {
		if i%100000 == 99999 {
			runtime.Gosched()
		}
	}
}

type c03Worker struct {
	name    string
	pi      int
	payload []byte
	arrive  chan string
	release chan c03Release
	started bool
	done    bool
}

// c03Ctl parks writer goroutines at the active gates. A goroutine is recognised by its id, so that
// several writers can run at the same time (burst); any other goroutine passes every gate.
type c03Ctl struct {
	mu      sync.Mutex
	byGoid  map[int64]*c03Worker
	enabled map[string]bool
}

func c03Goid() int64 {
	var buf [64]byte
	n := runtime.Stack(buf[:], false)
	f := strings.Fields(string(buf[:n]))
	if len(f) < 2 {
		return -1
	}
	id, _ := strconv.ParseInt(f[1], 10, 64)
	return id
}

var c03Current *c03Ctl // the controller of the case being executed (cases run one at a time)

var c03HookNames = map[string]string{
	"complete": "fc", "dirty": "fd", "try_mark_dirty": "td", "mark_complete": "mc",
	"inc_num_complete": "in", "load_num_complete": "ld", "set_committed": "sc", "mark_empty": "me",
}

func init() {
	agentstorage.VerifPoint = func(point string) {
		if c := c03Current; c != nil {
			if g, ok := c03HookNames[point]; ok {
				c.gate(g)
			}
		}
	}
}

func (c *c03Ctl) gate(name string) int {
	if !c.enabled[name] {
		return 1 << 30
	}
	c.mu.Lock()
	w := c.byGoid[c03Goid()]
	c.mu.Unlock()
	if w == nil {
		return 1 << 30
	}
	w.arrive <- name
	r := <-w.release
	if r.barrier != nil {
		c03Spin(r.barrier)
	}
	return r.k
}

// c03Cads wraps the real store; it only parks the calling writer at the gates.
type c03Cads struct {
	*store.CADownloadStore
	ctl       *c03Ctl
	closeFail int32 // 1: the next Close of a download file handle reports an error
}

func (g *c03Cads) GetDownloadFileReadWriter(name string) (store.FileReadWriter, error) {
	g.ctl.gate("g1")
	rw, err := g.CADownloadStore.GetDownloadFileReadWriter(name)
	if err != nil {
		return rw, err
	}
	return &c03RW{FileReadWriter: rw, cads: g}, nil
}

// c03RW is the download file handle; its Close really closes the file and then, when a close fault
// is armed (op `closefail`), reports an error (as a file system that surfaces deferred write errors does).
type c03RW struct {
	store.FileReadWriter
	cads *c03Cads
}

func (r *c03RW) Close() error {
	err := r.FileReadWriter.Close()
	if atomic.CompareAndSwapInt32(&r.cads.closeFail, 1, 0) {
		return errors.New("verif: injected close error")
	}
	return err
}

func (g *c03Cads) Download() *store.CADownloadStoreScope {
	g.ctl.gate("g3")
	return g.CADownloadStore.Download()
}

func (g *c03Cads) MoveDownloadFileToCache(name string) error {
	g.ctl.gate("g4")
	return g.CADownloadStore.MoveDownloadFileToCache(name)
}

// c03Reader is a storage.PieceReader over a byte slice that parks at every Read.
type c03Reader struct {
	ctl  *c03Ctl
	data []byte
	off  int
}

func (r *c03Reader) Read(p []byte) (int, error) {
	k := r.ctl.gate("g2")
	if r.off >= len(r.data) {
		return 0, io.EOF
	}
	n := len(r.data) - r.off
	if k < n {
		n = k
	}
	if len(p) < n {
		n = len(p)
	}
	copy(p, r.data[r.off:r.off+n])
	r.off += n
	return n, nil
}

func (r *c03Reader) Close() error { return nil }
func (r *c03Reader) Length() int  { return len(r.data) }

// ---------------------------------------------------------------- environment of one case

type c03Env struct {
	dir     string
	cads    *store.CADownloadStore
	gcads   *c03Cads
	ctl     *c03Ctl
	archive *agentstorage.TorrentArchive
	mi      *core.MetaInfo
	blob    []byte
	gated   bool
	t       storage.Torrent
	workers map[string]*c03Worker
	order   []string
}

func c03Classify(err error) string {
	switch {
	case err == nil:
		return "ok"
	case err == storage.ErrPieceComplete:
		return "errComplete"
	case err.Error() == "piece is already being written to":
		return "errConflict"
	case strings.HasPrefix(err.Error(), "invalid piece index"):
		return "errIndex"
	case strings.HasPrefix(err.Error(), "invalid piece length"):
		return "errLength"
	case err.Error() == "write piece: invalid piece sum":
		return "errSum"
	}
	return "errStore"
}

func c03NewEnv(cfg []string) (*c03Env, error) {
	kv := map[string]string{}
	for _, c := range cfg {
		if i := strings.IndexByte(c, '='); i > 0 {
			kv[c[:i]] = c[i+1:]
		}
	}
	pl, err := strconv.Atoi(kv["pl"])
	if err != nil || pl <= 0 {
		return nil, fmt.Errorf("bad pl")
	}
	blob, err := verifh.Unhex(kv["blob"])
	if err != nil {
		return nil, err
	}
	wps, _ := strconv.Atoi(kv["wps"])
	dir, err := os.MkdirTemp("", "verif-c03-")
	if err != nil {
		return nil, err
	}
	cads, err := store.NewCADownloadStore(store.CADownloadStoreConfig{
		DownloadDir: dir + "/download", CacheDir: dir + "/cache", WritePartSize: wps,
	}, tally.NoopScope)
	if err != nil {
		os.RemoveAll(dir)
		return nil, err
	}
	e := &c03Env{dir: dir, cads: cads, blob: blob, gated: kv["mode"] == "gated", workers: map[string]*c03Worker{}}
	e.ctl = &c03Ctl{byGoid: map[int64]*c03Worker{}, enabled: map[string]bool{}}
	gates := kv["gates"]
	if gates == "" {
		gates = "g1,g2,g3,g4"
	}
	for _, g := range strings.Split(gates, ",") {
		e.ctl.enabled[g] = true
	}
	c03Current = e.ctl
	e.gcads = &c03Cads{CADownloadStore: cads, ctl: e.ctl}
	d, err := core.NewDigester().FromBytes(blob)
	if err != nil {
		e.close()
		return nil, err
	}
	e.mi, err = core.NewMetaInfo(d, bytes.NewReader(blob), int64(pl))
	if err != nil {
		e.close()
		return nil, err
	}
	tc := metainfoclient.NewTestClient()
	if err := tc.Upload(e.mi); err != nil {
		e.close()
		return nil, err
	}
	e.archive = agentstorage.NewTorrentArchive(tally.NoopScope, cads, tc)
	t, err := e.archive.CreateTorrent("ns", d)
	if err != nil {
		e.close()
		return nil, err
	}
	e.t = t
	if e.gated {
		gt, err := agentstorage.NewTorrent(e.gcads, e.mi)
		if err != nil {
			e.close()
			return nil, err
		}
		e.t = gt
	}
	return e, nil
}

func (e *c03Env) close() {
	c03Current = nil
	e.cads.Close()
	os.RemoveAll(e.dir)
}

func (e *c03Env) live() []string {
	var out []string
	for _, n := range e.order {
		if !e.workers[n].done {
			out = append(out, n)
		}
	}
	return out
}

// kick starts or releases worker w (it then runs until its next active gate or its end).
func (e *c03Env) kick(w *c03Worker, k int, barrier *int32) {
	if !w.started {
		w.started = true
		t := e.t
		go func() {
			e.ctl.mu.Lock()
			e.ctl.byGoid[c03Goid()] = w
			e.ctl.mu.Unlock()
			if barrier != nil {
				c03Spin(barrier)
			}
			res := "panic"
			func() {
				defer func() { recover() }()
				res = c03Classify(t.WritePiece(&c03Reader{ctl: e.ctl, data: w.payload}, w.pi))
			}()
			w.arrive <- "done " + res
		}()
	} else {
		w.release <- c03Release{k, barrier}
	}
}

func (e *c03Env) await(w *c03Worker) string {
	ev := <-w.arrive
	if strings.HasPrefix(ev, "done ") {
		w.done = true
		return "done." + ev[5:]
	}
	return "at." + ev
}

// run lets worker w proceed to its next gate; returns the observation tokens.
func (e *c03Env) run(w *c03Worker, k int) []string {
	e.kick(w, k, nil)
	return strings.SplitN(e.await(w), ".", 2)
}

// burst releases several workers at the same instant and waits for all of them.
func (e *c03Env) burst(ws []*c03Worker, k int) []string {
	barrier := new(int32)
	for _, w := range ws {
		e.kick(w, k, barrier)
	}
	time.Sleep(200 * time.Microsecond) // let every released writer reach the spin loop
	atomic.StoreInt32(barrier, 1)
	var out []string
	for _, w := range ws {
		out = append(out, w.name+"="+e.await(w))
	}
	return out
}

func (e *c03Env) readFile(cacheOnly bool) string {
	var r store.FileReader
	var err error
	if cacheOnly {
		r, err = e.cads.Cache().GetFileReader(e.mi.Digest().Hex())
	} else {
		r, err = e.cads.Any().GetFileReader(e.mi.Digest().Hex())
	}
	if err != nil {
		return "-"
	}
	defer r.Close()
	b, err := io.ReadAll(r)
	if err != nil {
		return "-"
	}
	return verifh.Hex(b)
}

func (e *c03Env) obs() []string {
	t := e.t
	n := t.NumPieces()
	bf := t.Bitfield()
	var sb strings.Builder
	for i := 0; i < n; i++ {
		if bf.Test(uint(i)) {
			sb.WriteByte('1')
		} else {
			sb.WriteByte('0')
		}
	}
	bits := sb.String()
	if bits == "" {
		bits = "-"
	}
	var miss []string
	for _, i := range t.MissingPieces() {
		miss = append(miss, strconv.Itoa(i))
	}
	return []string{"bf=" + bits, fmt.Sprintf("bd=%d", t.BytesDownloaded()), "complete=" + verifh.Bool(t.Complete()),
		"missing=" + verifh.List(miss), "file=" + e.readFile(false), "cache=" + e.readFile(true)}
}

// rec is where records go: straight to the transcript, or into a buffer (exploration).
type c03Rec struct {
	tr  *verifh.T
	buf [][2][]string // (toks, obs)
	hld bool
}

func (r *c03Rec) op(toks []string, obs ...string) {
	if r.hld {
		r.buf = append(r.buf, [2][]string{append([]string{}, toks...), obs})
		return
	}
	r.tr.Op(toks, obs...)
}

// c03Exec runs one case. When hold is true nothing is written; the records are returned.
func c03Exec(tr *verifh.T, c verifh.Case, hold bool) (recs [][2][]string, live []string) {
	e, err := c03NewEnv(c.Cfg)
	if err != nil {
		return nil, nil
	}
	defer e.close()
	r := &c03Rec{tr: tr, hld: hold}
	if !hold {
		tr.Cfg(c.Cfg...)
	}
	atoi := func(s string) (int, bool) { v, err := strconv.Atoi(s); return v, err == nil }
	do := func(op []string) {
		if len(op) < 2 || op[0] != "op" {
			return
		}
		a := op[1:]
		switch {
		case a[0] == "metainfo" && len(a) == 1:
			var sums []string
			for i := 0; i < e.mi.NumPieces(); i++ {
				sums = append(sums, strconv.FormatUint(uint64(e.mi.GetPieceSum(i)), 10))
			}
			r.op(a, strconv.FormatInt(e.mi.Length(), 10), strconv.Itoa(e.mi.NumPieces()), verifh.List(sums))
		case a[0] == "plen" && len(a) == 2:
			if pi, ok := atoi(a[1]); ok {
				r.op(a, strconv.FormatInt(e.t.PieceLength(pi), 10))
			}
		case a[0] == "write" && len(a) == 3:
			pi, ok := atoi(a[1])
			p, err := verifh.Unhex(a[2])
			if !ok || err != nil {
				return
			}
			res := "panic"
			verifh.Protect(func() { res = c03Classify(e.t.WritePiece(piecereader.NewBuffer(p), pi)) })
			r.op(a, res)
		case a[0] == "spawn" && len(a) == 4:
			pi, ok := atoi(a[2])
			p, err := verifh.Unhex(a[3])
			if !ok || err != nil || !e.gated || e.workers[a[1]] != nil {
				return
			}
			e.workers[a[1]] = &c03Worker{name: a[1], pi: pi, payload: p, arrive: make(chan string), release: make(chan c03Release)}
			e.order = append(e.order, a[1])
			r.op(a, "ok")
		case a[0] == "run" && len(a) == 3:
			w := e.workers[a[1]]
			k, ok := atoi(a[2])
			if w == nil || w.done || !ok || k < 0 {
				return
			}
			r.op(a, e.run(w, k)...)
		case a[0] == "burst" && len(a) == 3:
			k, ok := atoi(a[2])
			var ws []*c03Worker
			seen := map[string]bool{}
			for _, n := range verifh.Unlist(a[1]) {
				if w := e.workers[n]; w != nil && !w.done && !seen[n] {
					ws = append(ws, w)
					seen[n] = true
				}
			}
			if !ok || k < 0 || len(ws) == 0 {
				return
			}
			var names []string
			for _, w := range ws {
				names = append(names, w.name)
			}
			r.op([]string{"burst", verifh.List(names), a[2]}, e.burst(ws, k)...)
		case a[0] == "obs" && len(a) == 1:
			r.op(a, e.obs()...)
		case a[0] == "read" && len(a) == 2:
			pi, ok := atoi(a[1])
			if !ok {
				return
			}
			out := []string{"panic"}
			verifh.Protect(func() {
				pr, err := e.t.GetPieceReader(pi)
				if err != nil {
					switch {
					case strings.HasPrefix(err.Error(), "invalid piece index"):
						out = []string{"errIndex"}
					case err.Error() == "piece not complete":
						out = []string{"errNotComplete"}
					default:
						out = []string{"err", verifh.Str(err.Error())}
					}
					return
				}
				defer pr.Close()
				b, err := io.ReadAll(pr)
				if err != nil {
					out = []string{"err", verifh.Str(err.Error())}
					return
				}
				out = []string{"bytes", verifh.Hex(b)}
			})
			r.op(a, out...)
		case a[0] == "has" && len(a) == 2:
			pi, ok := atoi(a[1])
			if !ok {
				return
			}
			out := "panic"
			verifh.Protect(func() { out = verifh.Bool(e.t.HasPiece(pi)) })
			r.op(a, out)
		case a[0] == "closefail" && len(a) == 1:
			// the next Close of the download file handle fails (only the gated mode goes through the wrapper)
			if !e.gated {
				return
			}
			atomic.StoreInt32(&e.gcads.closeFail, 1)
			r.op(a, "ok")
		case a[0] == "recreate" && len(a) == 1:
			// TorrentArchive.DeleteTorrent, then CreateTorrent again: file, sidecars and statuses start over
			if len(e.live()) > 0 {
				return
			}
			if err := e.archive.DeleteTorrent(e.mi.Digest()); err != nil {
				r.op(a, "err", verifh.Str(err.Error()))
				return
			}
			t, err := e.archive.CreateTorrent("ns", e.mi.Digest())
			if err == nil && e.gated {
				t, err = agentstorage.NewTorrent(e.gcads, e.mi)
			}
			if err != nil {
				r.op(a, "err", verifh.Str(err.Error()))
				return
			}
			e.t = t
			r.op(a, "ok")
		case a[0] == "delfile" && len(a) == 1:
			// the download entry disappears (TorrentArchive.DeleteTorrent / download-dir cleanup) while calls may be
			// parked, e.g. right before the commit move. Only an entry that is still in the download state is deleted.
			if !e.gated || e.t.Complete() {
				return
			}
			if err := e.cads.Download().DeleteFile(e.mi.Digest().Hex()); err != nil {
				r.op(a, "err")
				return
			}
			r.op(a, "ok")
		case a[0] == "tornreopen" && len(a) == 2:
			// a crash left the `_status` sidecar with n bytes (a prefix of its content, or zero padded), then the
			// process restarts: a new Torrent instance over the same store. Only while the file is in the download
			// state and no call is in flight.
			n, ok := atoi(a[1])
			if !ok || n < 0 || n > 64 || len(e.live()) > 0 || e.t.Complete() {
				return
			}
			var path string
			filepath.Walk(e.dir+"/download", func(p string, info os.FileInfo, err error) error {
				if err == nil && !info.IsDir() && info.Name() == "_status" {
					path = p
				}
				return nil
			})
			if path == "" {
				return
			}
			old, err := os.ReadFile(path)
			if err != nil {
				return
			}
			torn := make([]byte, n)
			copy(torn, old)
			if err := os.WriteFile(path, torn, 0644); err != nil {
				return
			}
			var t storage.Torrent
			if e.gated {
				t, err = agentstorage.NewTorrent(e.gcads, e.mi)
			} else {
				t, err = e.archive.GetTorrent("ns", e.mi.Digest())
			}
			if err != nil {
				r.op(a, "err", verifh.Str(err.Error()))
				return
			}
			e.t = t
			r.op(a, "ok")
		case a[0] == "reopen" && len(a) == 1:
			if len(e.live()) > 0 {
				return
			}
			var t storage.Torrent
			var err error
			if e.gated {
				t, err = agentstorage.NewTorrent(e.gcads, e.mi)
			} else {
				t, err = e.archive.GetTorrent("ns", e.mi.Digest())
			}
			if err != nil {
				r.op(a, "err", verifh.Str(err.Error()))
				return
			}
			e.t = t
			r.op(a, "ok")
		}
	}
	for _, op := range c.Ops {
		do(op)
	}
	live = e.live()
	if hold {
		// exploration: leave the remaining writers parked; finish them without recording
		for _, n := range e.live() {
			w := e.workers[n]
			for !w.done {
				e.run(w, 1<<20)
			}
		}
		return r.buf, live
	}
	// drain: every parked writer runs to its end (recorded), then the final observations
	for _, n := range e.live() {
		w := e.workers[n]
		for !w.done {
			a := []string{"run", n, "1048576"}
			r.op(a, e.run(w, 1<<20)...)
		}
	}
	r.op([]string{"obs"}, e.obs()...)
	for i := -1; i <= e.mi.NumPieces(); i++ {
		do([]string{"op", "read", strconv.Itoa(i)})
	}
	tr.Op([]string{"done"}, "ok")
	tr.End()
	return nil, nil
}

// ---------------------------------------------------------------- generators

const (
	c03Coarse = "g1,g2,g3,g4"
	c03Fine   = "fc,fd,td,g1,g2,g3,mc,in,ld,g4,sc,me"
	c03Commit = "mc,in,ld,g4"
	c03Front  = "fd,td,g1"
)

func c03Cfg(blob []byte, pl int, gated bool, wps int) []string {
	return c03CfgG(blob, pl, gated, wps, c03Coarse)
}

func c03CfgG(blob []byte, pl int, gated bool, wps int, gates string) []string {
	mode := "seq"
	if gated {
		mode = "gated"
	}
	return []string{fmt.Sprintf("pl=%d", pl), "blob=" + verifh.Hex(blob), "mode=" + mode, fmt.Sprintf("wps=%d", wps), "gates=" + gates}
}

func c03Blob(n int) []byte {
	b := make([]byte, n)
	for i := range b {
		b[i] = byte(17 + 7*i)
	}
	return b
}

func c03Piece(blob []byte, pl, i int) []byte {
	lo := pl * i
	if i < 0 || lo >= len(blob) {
		return nil
	}
	hi := lo + pl
	if hi > len(blob) {
		hi = len(blob)
	}
	return blob[lo:hi]
}

func c03NumPieces(blob []byte, pl int) int { return (len(blob) + pl - 1) / pl }

// payload kinds for index i; checksum separation is enforced here (a colliding corrupt payload is replaced).
func c03Payload(blob []byte, pl, i int, kind string, r *verifh.Rand) []byte {
	p := append([]byte{}, c03Piece(blob, pl, i)...)
	switch kind {
	case "correct":
	case "corrupt":
		if len(p) == 0 {
			return []byte{0xEE}
		}
		j := 0
		if r != nil {
			j = r.Intn(len(p))
		}
		p[j] ^= 0x5A
	case "short":
		if len(p) > 0 {
			p = p[:len(p)-1]
		}
	case "long":
		p = append(p, 0x33)
	case "empty":
		p = nil
	case "other":
		n := c03NumPieces(blob, pl)
		if n > 0 {
			p = append([]byte{}, c03Piece(blob, pl, (i+1+n)%n)...)
		}
	case "random":
		if r != nil {
			p = r.Bytes(len(p))
		}
	}
	if q := c03Piece(blob, pl, i); q != nil && len(p) == len(q) && !bytes.Equal(p, q) && core.PieceSum(p) == core.PieceSum(q) {
		p[0] ^= 0x01 // keep the history inside the separation hypothesis (single-bit errors never collide)
	}
	return p
}

func c03Write(pi int, p []byte) []string {
	return []string{"op", "write", strconv.Itoa(pi), verifh.Hex(p)}
}

var c03Kinds = []string{"correct", "corrupt", "short", "long"}

func c03SeqAlphabet(blob []byte, pl int) [][]string {
	n := c03NumPieces(blob, pl)
	var ops [][]string
	for i := 0; i < n; i++ {
		for _, k := range c03Kinds {
			ops = append(ops, c03Write(i, c03Payload(blob, pl, i, k, nil)))
		}
	}
	for _, i := range []int{-1, n, n + 1} {
		p := c03Piece(blob, pl, 0)
		if p == nil {
			p = []byte{1}
		}
		ops = append(ops, c03Write(i, p))
	}
	ops = append(ops, []string{"op", "reopen"})
	if n <= 2 {
		ops = append(ops, []string{"op", "recreate"})
	}
	if n == 2 {
		// a torn status sidecar: shorter (non-empty when possible), longer
		ops = append(ops, []string{"op", "tornreopen", strconv.Itoa(n - 1)}, []string{"op", "tornreopen", strconv.Itoa(n + 1)})
	}
	return ops
}

func c03WithObs(ops [][]string) [][]string {
	out := [][]string{{"op", "metainfo"}}
	for _, o := range ops {
		out = append(out, o, []string{"op", "obs"})
	}
	return out
}

func c03Permutations(n int, f func([]int)) {
	p := make([]int, n)
	for i := range p {
		p[i] = i
	}
	var rec func(k int)
	rec = func(k int) {
		if k == n {
			f(append([]int{}, p...))
			return
		}
		for i := k; i < n; i++ {
			p[k], p[i] = p[i], p[k]
			rec(k + 1)
			p[k], p[i] = p[i], p[k]
		}
	}
	rec(0)
}

// c03Explore enumerates every interleaving of the registered writers' macro steps (chunk k per write).
func c03Explore(tr *verifh.T, cfg []string, spawns [][]string, k int, limit int) int {
	leaves := 0
	var rec func(prefix [][]string)
	rec = func(prefix [][]string) {
		if leaves >= limit {
			return
		}
		ops := append(append([][]string{}, spawns...), prefix...)
		_, live := c03Exec(tr, verifh.Case{Cfg: cfg, Ops: ops}, true)
		if len(live) == 0 {
			// leaf: replay the interleaving with the observations after every step
			full := append([][]string{{"op", "metainfo"}}, spawns...)
			for j, o := range prefix {
				full = append(full, o, []string{"op", "obs"})
				if j%3 == 2 {
					full = append(full, []string{"op", "read", "0"}, []string{"op", "read", "1"})
				}
			}
			c03Exec(tr, verifh.Case{Cfg: cfg, Ops: full}, false)
			leaves++
			return
		}
		for _, w := range live {
			rec(append(prefix[:len(prefix):len(prefix)], []string{"op", "run", w, strconv.Itoa(k)}))
		}
	}
	rec(nil)
	return leaves
}

func TestVerif_C03(t *testing.T) {
	tr := verifh.Open("at")
	defer tr.Close()
	cases, replayOnly := verifh.InputCases("at")
	for _, c := range cases {
		c03Exec(tr, c, false)
		tr.Count("corpus_or_replay_cases", 1)
	}
	if replayOnly {
		return
	}
	// (a) sequential, bounded-exhaustive: blobs of 0..4 pieces, last piece shorter / equal
	type shape struct{ n, pl int }
	shapes := []shape{{0, 2}, {1, 2}, {2, 2}, {3, 2}, {4, 2}, {5, 2}, {7, 2}, {7, 3}, {3, 1}}
	if verifh.Thorough() {
		shapes = append(shapes, shape{6, 2}, shape{8, 2}, shape{4, 4}, shape{9, 3})
	}
	for _, sh := range shapes {
		blob := c03Blob(sh.n)
		np := c03NumPieces(blob, sh.pl)
		alpha := c03SeqAlphabet(blob, sh.pl)
		depth := verifh.Scale(2, 3)
		if np <= 2 {
			depth = verifh.Scale(3, 4)
		}
		if np >= 4 {
			depth = verifh.Scale(1, 2)
		}
		if sh == (shape{4, 2}) || sh == (shape{1, 2}) {
			depth = verifh.Scale(2, 4) // the quick tier goes to depth 3 on one 1-piece and one 2-piece blob only
		}
		var rec func(prefix [][]string, d int)
		rec = func(prefix [][]string, d int) {
			if d == 0 {
				c03Exec(tr, verifh.Case{Cfg: c03Cfg(blob, sh.pl, false, 0), Ops: c03WithObs(prefix)}, false)
				tr.Count("seq_exhaustive_cases", 1)
				return
			}
			for _, o := range alpha {
				rec(append(prefix[:len(prefix):len(prefix)], o), d-1)
			}
		}
		for d := 0; d <= depth; d++ {
			rec(nil, d)
		}
		// every ordering of the correct piece writes, with one corrupt write and a duplicate in between
		if np >= 2 && np <= 4 {
			c03Permutations(np, func(perm []int) {
				var ops [][]string
				for j, i := range perm {
					if j == 1 {
						ops = append(ops, c03Write(perm[0], c03Payload(blob, sh.pl, perm[0], "corrupt", nil)))
						ops = append(ops, c03Write(i, c03Payload(blob, sh.pl, i, "corrupt", nil)))
					}
					ops = append(ops, c03Write(i, c03Payload(blob, sh.pl, i, "correct", nil)))
				}
				ops = append(ops, c03Write(perm[0], c03Payload(blob, sh.pl, perm[0], "correct", nil)), []string{"op", "reopen"})
				c03Exec(tr, verifh.Case{Cfg: c03Cfg(blob, sh.pl, false, 1), Ops: c03WithObs(ops)}, false)
				tr.Count("seq_permutation_cases", 1)
			})
		}
	}
	// (b) gated, exhaustive: every interleaving of two (thorough: also three) writers' macro steps
	type wr struct {
		pi   int
		kind string
	}
	type gcfg struct {
		n, pl int
		ws    []wr
		k     int
		gates string
	}
	gcfgs := []gcfg{
		{3, 2, []wr{{0, "correct"}, {0, "correct"}}, 1 << 20, c03Coarse},
		{3, 2, []wr{{0, "corrupt"}, {0, "correct"}}, 1 << 20, c03Coarse},
		{3, 2, []wr{{0, "correct"}, {1, "correct"}}, 1 << 20, c03Coarse},
		{2, 2, []wr{{0, "correct"}, {0, "correct"}}, 1, c03Coarse},
		{1, 1, []wr{{0, "corrupt"}, {0, "correct"}}, 1, c03Coarse},
		// the commit race: SetMetadataAt | markComplete | Inc | Load | move of the writers of the last two pieces
		{3, 2, []wr{{0, "correct"}, {1, "correct"}}, 1 << 20, c03Commit},
		// the fast path: dirty() | tryMarkDirty | open of two writers of one piece
		{2, 2, []wr{{0, "correct"}, {0, "correct"}}, 1 << 20, c03Front},
		// a failing writer releases the piece (markEmpty) around a second writer's fast path
		{2, 2, []wr{{0, "corrupt"}, {0, "correct"}}, 1 << 20, "td,g1,me"},
	}
	if verifh.Thorough() {
		gcfgs = append(gcfgs,
			gcfg{4, 2, []wr{{0, "correct"}, {1, "correct"}}, 1, c03Coarse},
			gcfg{4, 2, []wr{{1, "corrupt"}, {1, "correct"}}, 1, c03Coarse},
			gcfg{3, 2, []wr{{0, "correct"}, {1, "correct"}, {1, "correct"}}, 1 << 20, c03Coarse},
			gcfg{3, 2, []wr{{0, "corrupt"}, {0, "correct"}, {1, "correct"}}, 1 << 20, c03Coarse},
			gcfg{3, 2, []wr{{0, "correct"}, {1, "correct"}}, 1 << 20, "g3,mc,in,ld,g4,sc"},
			gcfg{2, 2, []wr{{0, "correct"}, {0, "correct"}}, 1 << 20, "fc,fd,td,g1,g3"},
			gcfg{2, 2, []wr{{0, "corrupt"}, {0, "correct"}}, 1 << 20, "fc,fd,td,g1,g3,me"},
			gcfg{5, 2, []wr{{0, "correct"}, {1, "correct"}, {2, "correct"}}, 1 << 20, "mc,ld"},
		)
	}
	for _, g := range gcfgs {
		blob := c03Blob(g.n)
		var spawns [][]string
		for i, w := range g.ws {
			spawns = append(spawns, []string{"op", "spawn", fmt.Sprintf("w%d", i), strconv.Itoa(w.pi),
				verifh.Hex(c03Payload(blob, g.pl, w.pi, w.kind, nil))})
		}
		n := c03Explore(tr, c03CfgG(blob, g.pl, true, 0, g.gates), spawns, g.k, verifh.Scale(1500, 8000))
		tr.Count("gated_exhaustive_interleavings", n)
	}
	// (b2) bursts: several writers of one piece are parked in front of tryMarkDirty and released at the
	// same instant; exactly one may get the piece. Also with a second piece so that the commit follows.
	rb := verifh.NewRand(verifh.Seed(), "c03burst")
	for it := 0; it < verifh.Scale(80, 3000); it++ {
		pl := 1 + rb.Intn(4)
		np := 1 + rb.Intn(2)
		blob := rb.Bytes(pl*(np-1) + 1 + rb.Intn(pl))
		nw := 2 + rb.Intn(6)
		ops := [][]string{{"op", "metainfo"}}
		var names []string
		for j := 0; j < nw; j++ {
			kind := "correct"
			if rb.Chance(1, 4) {
				kind = "corrupt"
			}
			name := fmt.Sprintf("w%d", j)
			names = append(names, name)
			ops = append(ops, []string{"op", "spawn", name, "0", verifh.Hex(c03Payload(blob, pl, 0, kind, rb))})
		}
		if np == 2 && rb.Chance(1, 2) {
			ops = append(ops, c03Write(1, c03Payload(blob, pl, 1, "correct", rb)))
		}
		for _, n := range names {
			ops = append(ops, []string{"op", "run", n, "0"}) // to the td gate
		}
		ops = append(ops, []string{"op", "burst", verifh.List(names), "1048576"}, []string{"op", "obs"})
		c03Exec(tr, verifh.Case{Cfg: c03CfgG(blob, pl, true, 0, "td,g1,g3"), Ops: ops}, false)
		tr.Count("burst_cases", 1)
		tr.Count("burst_writers", nw)
	}
	// (b3) close faults: the download file handle reports an error on Close (which the code ignores: the
	// bytes were written and verified); every sequence over a small alphabet, observed after every op
	for _, sh := range []shape{{3, 2}, {5, 2}} {
		blob := c03Blob(sh.n)
		np := c03NumPieces(blob, sh.pl)
		alpha := [][]string{{"op", "closefail"}, {"op", "reopen"}}
		for i := 0; i < np; i++ {
			alpha = append(alpha, c03Write(i, c03Payload(blob, sh.pl, i, "correct", nil)))
		}
		alpha = append(alpha, c03Write(0, c03Payload(blob, sh.pl, 0, "corrupt", nil)))
		depth := verifh.Scale(4, 6)
		if np > 2 {
			depth = verifh.Scale(3, 5)
		}
		var rec func(prefix [][]string, d int)
		rec = func(prefix [][]string, d int) {
			if d == 0 {
				c03Exec(tr, verifh.Case{Cfg: c03CfgG(blob, sh.pl, true, 0, c03Coarse), Ops: c03WithObs(prefix)}, false)
				tr.Count("closefault_cases", 1)
				return
			}
			for _, o := range alpha {
				rec(append(prefix[:len(prefix):len(prefix)], o), d-1)
			}
		}
		rec(nil, depth)
	}
	// (b4) the download entry is deleted while the last writer is parked at one of its gates (in particular at
	// g4, after every piece was verified and right before the move into the cache)
	for _, np := range []int{1, 2, 3} {
		blob := c03Blob(2*np - 1)
		for stop := 0; stop <= 5; stop++ {
			ops := [][]string{{"op", "metainfo"}}
			for i := 0; i < np-1; i++ {
				ops = append(ops, c03Write(i, c03Payload(blob, 2, i, "correct", nil)))
			}
			last := np - 1
			ops = append(ops, []string{"op", "spawn", "w0", strconv.Itoa(last), verifh.Hex(c03Payload(blob, 2, last, "correct", nil))})
			for j := 0; j < stop; j++ {
				ops = append(ops, []string{"op", "run", "w0", "1048576"})
			}
			ops = append(ops, []string{"op", "obs"}, []string{"op", "delfile"}, []string{"op", "obs"})
			c03Exec(tr, verifh.Case{Cfg: c03CfgG(blob, 2, true, 0, c03Coarse), Ops: ops}, false)
			tr.Count("delete_before_commit_cases", 1)
		}
	}
	// (c) random histories: sequential and gated mixes, random blobs and piece lengths
	r := verifh.NewRand(verifh.Seed(), "c03")
	kinds := []string{"correct", "correct", "correct", "corrupt", "short", "long", "empty", "other", "random"}
	for it := 0; it < verifh.Scale(300, 20000); it++ {
		pl := 1 + r.Intn(8)
		blob := r.Bytes(r.Intn(5*pl + 1))
		if r.Chance(1, 6) {
			blob = r.Bytes(pl * r.Intn(5)) // exact multiple
		}
		np := c03NumPieces(blob, pl)
		gated := r.Chance(1, 2)
		idx := func() int {
			switch {
			case np > 0 && r.Chance(9, 10):
				return r.Intn(np)
			case r.Chance(1, 3):
				return -1 - r.Intn(2)
			default:
				return np + r.Intn(3)
			}
		}
		ops := [][]string{{"op", "metainfo"}}
		nw := 0
		for j, nops := 0, 3+r.Intn(40); j < nops; j++ {
			switch x := r.Intn(20); {
			case gated && x < 4 && nw < 6:
				i := idx()
				ops = append(ops, []string{"op", "spawn", fmt.Sprintf("w%d", nw), strconv.Itoa(i),
					verifh.Hex(c03Payload(blob, pl, i, kinds[r.Intn(len(kinds))], r))})
				nw++
				tr.Count("random_spawn", 1)
			case gated && x < 13 && nw > 0:
				ks := []int{0, 1, 2, 3, pl, 1 << 20}
				ops = append(ops, []string{"op", "run", fmt.Sprintf("w%d", r.Intn(nw)), strconv.Itoa(ks[r.Intn(len(ks))])})
				tr.Count("random_run", 1)
			case x < 15:
				i := idx()
				k := kinds[r.Intn(len(kinds))]
				ops = append(ops, c03Write(i, c03Payload(blob, pl, i, k, r)))
				tr.Count("random_write_"+k, 1)
			case x < 17:
				ops = append(ops, []string{"op", "obs"})
			case x < 18:
				ops = append(ops, []string{"op", "read", strconv.Itoa(idx())}, []string{"op", "has", strconv.Itoa(idx())},
					[]string{"op", "plen", strconv.Itoa(idx())})
			case gated && x < 19 && r.Chance(1, 6):
				ops = append(ops, []string{"op", "delfile"})
				tr.Count("random_delfile", 1)
			case gated && x < 19 && r.Chance(1, 3):
				ops = append(ops, []string{"op", "closefail"})
				tr.Count("random_closefail", 1)
			case x < 19:
				if r.Chance(1, 3) {
					ops = append(ops, []string{"op", "tornreopen", strconv.Itoa(r.Intn(np + 3))})
					tr.Count("random_tornreopen", 1)
				} else if r.Chance(1, 4) {
					ops = append(ops, []string{"op", "recreate"})
				} else {
					ops = append(ops, []string{"op", "reopen"})
				}
			default:
				// finish every piece in a random order
				for _, i := range r.Perm(np) {
					ops = append(ops, c03Write(i, c03Payload(blob, pl, i, "correct", r)))
				}
			}
		}
		if it < 2 {
			tr.Sample(fmt.Sprint(c03Cfg(blob, pl, gated, 0), ops))
		}
		gates := []string{c03Coarse, c03Coarse, c03Fine, c03Commit, c03Front, "td,g2,mc,me"}[r.Intn(6)]
		c03Exec(tr, verifh.Case{Cfg: c03CfgG(blob, pl, gated, r.Intn(4), gates), Ops: ops}, false)
		tr.Count("random_cases", 1)
		if gated {
			tr.Count("random_gated_gates_"+gates, 1)
		}
	}
}

// ---------------------------------------------------------------- free-running concurrency (machine atc)

func c03ExecConc(tr *verifh.T, c verifh.Case) {
	e, err := c03NewEnv(c.Cfg)
	if err != nil {
		return
	}
	defer e.close()
	c03Current = nil // free-running: no gate is active
	type item struct {
		id        string
		pi        int
		payload   []byte
		inv, resp int64
		res       string
	}
	groups := map[string][]*item{}
	var gnames []string
	for _, op := range c.Ops {
		if len(op) < 5 || op[0] != "op" || op[1] != "w" {
			continue
		}
		pi, err1 := strconv.Atoi(op[3])
		p, err2 := verifh.Unhex(op[4])
		if err1 != nil || err2 != nil {
			continue
		}
		g := strings.SplitN(op[2], ".", 2)[0]
		if _, ok := groups[g]; !ok {
			gnames = append(gnames, g)
		}
		groups[g] = append(groups[g], &item{id: op[2], pi: pi, payload: p})
	}
	sort.Strings(gnames)
	tr.Cfg(c.Cfg...)
	var clock int64
	var wg sync.WaitGroup
	start := make(chan struct{})
	for _, g := range gnames {
		items := groups[g]
		wg.Add(1)
		go func() {
			defer wg.Done()
			<-start
			for _, it := range items {
				it.res = "panic"
				it.inv = atomic.AddInt64(&clock, 1)
				func() {
					defer func() { recover() }()
					it.res = c03Classify(e.t.WritePiece(piecereader.NewBuffer(it.payload), it.pi))
				}()
				it.resp = atomic.AddInt64(&clock, 1)
			}
		}()
	}
	close(start)
	wg.Wait()
	for _, g := range gnames {
		for _, it := range groups[g] {
			tr.Op([]string{"w", it.id, strconv.Itoa(it.pi), verifh.Hex(it.payload),
				strconv.FormatInt(it.inv, 10), strconv.FormatInt(it.resp, 10)}, it.res)
		}
	}
	tr.Op([]string{"obs"}, e.obs()...)
	tr.End()
}

func TestVerif_C03Conc(t *testing.T) {
	tr := verifh.Open("atc")
	defer tr.Close()
	cases, replayOnly := verifh.InputCases("atc")
	for _, c := range cases {
		c03ExecConc(tr, c)
		tr.Count("corpus_or_replay_cases", 1)
	}
	if replayOnly {
		return
	}
	r := verifh.NewRand(verifh.Seed(), "c03conc")
	kinds := []string{"correct", "correct", "correct", "corrupt", "short", "random"}
	for it := 0; it < verifh.Scale(300, 6000); it++ {
		pl := 1 + r.Intn(64)
		np := 1 + r.Intn(6)
		ng := 2 + r.Intn(7)
		if r.Chance(1, 10) {
			pl = 30000 + r.Intn(40000) // several io.Copy rounds / write parts per piece
			np = 1 + r.Intn(2)
			ng = 2 + r.Intn(2)
		}
		blob := r.Bytes(pl*(np-1) + 1 + r.Intn(pl))
		var ops [][]string
		for g := 0; g < ng; g++ {
			for j, n := 0, 1+r.Intn(2*np+1); j < n; j++ {
				i := r.Intn(np)
				if r.Chance(1, 20) {
					i = np + r.Intn(2)
				}
				k := kinds[r.Intn(len(kinds))]
				ops = append(ops, []string{"op", "w", fmt.Sprintf("g%d.%d", g, j), strconv.Itoa(i),
					verifh.Hex(c03Payload(blob, pl, i, k, r))})
				tr.Count("conc_write_"+k, 1)
			}
		}
		// often: every goroutine additionally tries to complete every piece
		if r.Chance(2, 3) {
			for g := 0; g < ng; g++ {
				for j, i := range r.Perm(np) {
					ops = append(ops, []string{"op", "w", fmt.Sprintf("g%d.f%d", g, j), strconv.Itoa(i),
						verifh.Hex(c03Payload(blob, pl, i, "correct", r))})
				}
			}
		}
		c03ExecConc(tr, verifh.Case{Cfg: c03Cfg(blob, pl, false, []int{0, 0, 7, 4096}[r.Intn(4)]), Ops: ops})
		tr.Count("conc_cases", 1)
		tr.Count("conc_goroutines", ng)
	}
}
