//go:build verif

package agentstorage_test

// C04 harness: an agent downloads one blob through TorrentArchive.CreateTorrent / Torrent.WritePiece on
// a CADownloadStore. Given the syscall plans recorded by harness/tools/crash_strace.py, the tree a
// process crash would leave after every prefix of every operation's plan is materialised; a new
// process (NewCADownloadStore + NewTorrentArchive + CreateTorrent) is started on it, what it reports
// is recorded, and the download is finished with the correct pieces.

import (
	"bytes"
	"encoding/binary"
	"errors"
	"fmt"
	"os"
	"path/filepath"
	"strconv"
	"strings"
	"testing"
	"time"

	"github.com/uber-go/tally"
	"github.com/uber/kraken/core"
	"github.com/uber/kraken/lib/store"
	"github.com/uber/kraken/lib/store/metadata"
	"github.com/uber/kraken/lib/torrent/storage"
	"github.com/uber/kraken/lib/torrent/storage/agentstorage"
	"github.com/uber/kraken/lib/torrent/storage/piecereader"
	"github.com/uber/kraken/utils/log"
	"github.com/uber/kraken/utils/verifh"
	"go.uber.org/zap"
)

type c04Mic struct{ mi *core.MetaInfo }

func (m c04Mic) Download(namespace string, d core.Digest) (*core.MetaInfo, error) { return m.mi, nil }

type c04Env struct {
	t         *verifh.T
	blob      []byte
	pl        int64
	wps       int
	crashMode string
	d         core.Digest
	mi        *core.MetaInfo
	root      string
	scratch   string
	cads      *store.CADownloadStore
	archive   *agentstorage.TorrentArchive
	tor       storage.Torrent
	caseIdx   int
	phase     string
	plans     map[[2]int][]verifh.FSCall
	r         *verifh.Rand
	maxSub    int
}

func (e *c04Env) start(root string) (*store.CADownloadStore, *agentstorage.TorrentArchive, error) {
	cads, err := store.NewCADownloadStore(store.CADownloadStoreConfig{
		DownloadDir:     filepath.Join(root, "download"),
		CacheDir:        filepath.Join(root, "cache"),
		DownloadCleanup: store.CleanupConfig{Disabled: true},
		CacheCleanup:    store.CleanupConfig{Disabled: true},
		WritePartSize:   e.wps,
	}, tally.NoopScope)
	if err != nil {
		return nil, nil, err
	}
	return cads, agentstorage.NewTorrentArchive(tally.NoopScope, cads, c04Mic{e.mi}), nil
}

func (e *c04Env) entryDir(root, state string) string {
	n := e.d.Hex()
	return filepath.Join(root, state, n[0:2], n[2:4], n)
}

func c04File(path string) string {
	b, err := os.ReadFile(path)
	if err != nil {
		return "-"
	}
	return verifh.Hex(b)
}

func c04Bits(t storage.Torrent) string {
	var sb strings.Builder
	for i := 0; i < t.NumPieces(); i++ {
		if t.HasPiece(i) {
			sb.WriteByte('1')
		} else {
			sb.WriteByte('0')
		}
	}
	if sb.Len() == 0 {
		return "-"
	}
	return sb.String()
}

// observe renders what the torrent and the two directories show.
func (e *c04Env) observe(root string, t storage.Torrent) []string {
	out := []string{}
	if t != nil {
		out = append(out, "c="+verifh.Bool(t.Complete()), "bits="+c04Bits(t))
	} else {
		out = append(out, "c=-", "bits=-")
	}
	return append(out,
		"dl="+c04File(filepath.Join(e.entryDir(root, "download"), "data")),
		"ca="+c04File(filepath.Join(e.entryDir(root, "cache"), "data")),
		"st="+c04File(filepath.Join(e.entryDir(root, "download"), "_status")))
}

func c04CreateErr(err error) string {
	switch {
	case err == nil:
		return "ok"
	case err == storage.ErrNotFound:
		return "err-notfound"
	case strings.Contains(err.Error(), "get metainfo") || strings.Contains(err.Error(), "get or set metainfo"):
		return "err-metainfo"
	case strings.Contains(err.Error(), "initialize torrent"):
		return "err-init"
	}
	return "err-other"
}

func c04WriteErr(err error) string {
	switch {
	case err == nil:
		return "ok"
	case err == storage.ErrPieceComplete:
		return "complete"
	case strings.Contains(err.Error(), "invalid piece sum"):
		return "badsum"
	case strings.Contains(err.Error(), "invalid piece length"):
		return "badlen"
	case strings.Contains(err.Error(), "invalid piece index"):
		return "badindex"
	case strings.Contains(err.Error(), "already being written"):
		return "conflict"
	}
	return "err-other"
}

func (e *c04Env) piece(i int) []byte {
	lo := int64(i) * e.pl
	hi := lo + e.pl
	if hi > int64(len(e.blob)) {
		hi = int64(len(e.blob))
	}
	return e.blob[lo:hi]
}

// LAT payloads depend on the wall clock: the transcript shows `LAT` for a current one and `OLD` for one
// that the file map would refresh (older than its five minute resolution).
func c04LatTok(hexTok string) string {
	b, err := verifh.Unhex(hexTok)
	if err != nil || len(b) == 0 {
		return hexTok
	}
	sec, n := binary.Varint(b)
	if n > 0 && time.Since(time.Unix(sec, 0)) < 4*time.Minute {
		return "x4c4154"
	}
	return "x4f4c44"
}

func c04Canon(tok string) string {
	p := strings.Split(tok, ":")
	switch {
	case len(p) == 3 && p[0] == "f" && strings.HasSuffix(p[1], "/_last_access_time"):
		return "f:" + p[1] + ":" + c04LatTok(p[2])
	case len(p) == 4 && p[0] == "pwrite" && strings.HasSuffix(p[1], "/_last_access_time"):
		return "pwrite:" + p[1] + ":" + p[2] + ":" + c04LatTok(p[3])
	case len(p) == 3 && p[0] == "trunc" && strings.HasSuffix(p[1], "/_last_access_time") && p[2] != "0":
		return "trunc:" + p[1] + ":3"
	}
	return tok
}

// c04Materialize turns the stand-ins of an `fs` record into real last access times.
func c04Materialize(tok string) string {
	p := strings.Split(tok, ":")
	if len(p) == 3 && p[0] == "f" && strings.HasSuffix(p[1], "/_last_access_time") {
		switch p[2] {
		case "x4c4154":
			b, _ := metadata.NewLastAccessTime(time.Now()).Serialize()
			return "f:" + p[1] + ":" + verifh.Hex(b)
		case "x4f4c44":
			b, _ := metadata.NewLastAccessTime(time.Unix(1000, 0)).Serialize()
			return "f:" + p[1] + ":" + verifh.Hex(b)
		}
	}
	return tok
}

func c04CanonAll(toks []string) []string {
	out := make([]string, len(toks))
	for i, t := range toks {
		out[i] = c04Canon(t)
	}
	return out
}

// c04Freshen: the last access times a recorded plan writes carry the recording run's clock; replayed
// minutes later they would look old to the file map (5 minute resolution). Times of this run are
// replaced by the current time when the plan is used.
func c04Freshen(plan []verifh.FSCall) []verifh.FSCall {
	out := make([]verifh.FSCall, len(plan))
	copy(out, plan)
	for i, c := range out {
		if c.Kind != "pwrite" || !strings.HasSuffix(c.A, "/_last_access_time") || c.Off != 0 {
			continue
		}
		sec, n := binary.Varint(c.Data)
		if n > 0 && time.Since(time.Unix(sec, 0)) < 24*time.Hour {
			b, err := metadata.NewLastAccessTime(time.Now()).Serialize()
			if err == nil && len(b) == len(c.Data) {
				out[i].Data = b
			}
		}
	}
	return out
}

func (e *c04Env) fresh(name string) string {
	p := filepath.Join(e.scratch, name)
	os.RemoveAll(p)
	return p
}

// recover starts a new process on root and reports: CreateTorrent, what it shows, then the rest of
// the download with the correct pieces.
func (e *c04Env) recover(root string) []string {
	cads, archive, err := e.start(root)
	if err != nil {
		return []string{"start-err"}
	}
	defer cads.Close()
	var t storage.Torrent
	var cerr error
	if p := verifh.Protect(func() { t, cerr = archive.CreateTorrent("ns", e.d) }); p != "" {
		return []string{"panic"}
	}
	out := []string{c04CreateErr(cerr)}
	if cerr != nil {
		return append(out, e.observe(root, nil)...)
	}
	out = append(out, e.observe(root, t)...)
	out = append(out, "|")
	for _, i := range t.MissingPieces() {
		var werr error
		if p := verifh.Protect(func() { werr = t.WritePiece(piecereader.NewBuffer(e.piece(i)), i) }); p != "" {
			out = append(out, fmt.Sprintf("w%d=panic", i))
			continue
		}
		out = append(out, fmt.Sprintf("w%d=%s", i, c04WriteErr(werr)))
	}
	out = append(out, "|")
	return append(out, e.observe(root, t)...)
}

func (e *c04Env) explore(snap string, plan []verifh.FSCall) {
	type point struct {
		k     int
		first []string
	}
	var pts []point
	for k := 0; k <= len(plan); k++ {
		pts = append(pts, point{k, nil})
	}
	for _, seg := range verifh.RemovalSegments(plan) {
		n := seg[1] - seg[0]
		if n < 2 || n > 8 {
			continue
		}
		var subs []point
		for mask := 1; mask < (1<<n)-1; mask++ {
			var first []string
			prefix := true
			for i := 0; i < n; i++ {
				if mask&(1<<i) != 0 {
					first = append(first, plan[seg[0]+i].A)
					if i >= len(first) {
						prefix = false
					}
				}
			}
			if prefix {
				continue
			}
			subs = append(subs, point{seg[0] + len(first), first})
		}
		if len(subs) > e.maxSub {
			for _, i := range e.r.Perm(len(subs))[:e.maxSub] {
				pts = append(pts, subs[i])
			}
		} else {
			pts = append(pts, subs...)
		}
	}
	for _, pt := range pts {
		dir := e.fresh("crash")
		if err := verifh.CopyTree(snap, dir); err != nil {
			panic(err)
		}
		p := verifh.ReorderRemovals(plan, pt.first)
		failed := ""
		for i := 0; i < pt.k; i++ {
			if err := p[i].Apply(dir); err != nil {
				failed = fmt.Sprintf("planerr=%d:%s", i, verifh.Str(err.Error()))
				break
			}
		}
		at := "start"
		if pt.k > 0 {
			base := filepath.Base(p[pt.k-1].A)
			if base != "data" && !strings.HasPrefix(base, "_") {
				base = "dir"
			}
			at = p[pt.k-1].Kind + "-" + strings.SplitN(p[pt.k-1].A, "/", 2)[0] + "-" + base
		}
		args := []string{"k=" + strconv.Itoa(pt.k), "ord=" + verifh.List(pt.first), "at=" + at}
		obs := []string{"fs=" + verifh.List(c04CanonAll(verifh.DumpTree(dir)))}
		if failed != "" {
			obs = append(obs, failed)
		} else {
			obs = append(obs, e.recover(dir)...)
			e.t.Count("crash_points", 1)
		}
		e.t.Rec("crash", args, obs)
	}
}

func c04Exec(t *verifh.T, c verifh.Case, caseIdx int, base string, plans map[[2]int][]verifh.FSCall) {
	e := &c04Env{t: t, pl: 2, crashMode: "all", caseIdx: caseIdx, phase: verifh.CrashPhase(), plans: plans,
		r: verifh.NewRand(verifh.Seed()+uint64(caseIdx), "c04x"), maxSub: verifh.Scale(6, 64)}
	for _, tok := range c.Cfg {
		kv := strings.SplitN(tok, "=", 2)
		if len(kv) != 2 {
			continue
		}
		n, _ := strconv.Atoi(kv[1])
		switch kv[0] {
		case "blob":
			if b, err := verifh.Unhex(kv[1]); err == nil {
				e.blob = b
			}
		case "pl":
			if n > 0 {
				e.pl = int64(n)
			}
		case "wps":
			e.wps = n
		case "crash":
			e.crashMode = kv[1]
		}
	}
	d, err := core.NewDigester().FromBytes(e.blob)
	if err != nil {
		panic(err)
	}
	e.d = d
	mi, err := core.NewMetaInfo(d, bytes.NewReader(e.blob), e.pl)
	if err != nil {
		panic(err)
	}
	e.mi = mi
	miBytes, _ := mi.Serialize()
	e.root = filepath.Join(base, strconv.Itoa(caseIdx))
	e.scratch = filepath.Join(base, "scratch"+strconv.Itoa(caseIdx))
	os.RemoveAll(e.root)
	os.RemoveAll(e.scratch)
	os.MkdirAll(e.root, 0775)
	os.MkdirAll(e.scratch, 0775)
	defer os.RemoveAll(e.root)
	defer os.RemoveAll(e.scratch)
	quiet := e.phase == "A"
	if !quiet {
		// the name and the serialized metainfo are derived from the blob: the model takes them from here
		t.Cfg(append(append([]string{}, c.Cfg...), "name="+d.Hex(), "mi="+verifh.Hex(miBytes))...)
	}
	// a case may start from a given tree (`fs` record with `$` standing for the entry's relative directory)
	for _, op := range c.Ops {
		if op[0] == "fs" {
			var toks []string
			n := d.Hex()
			for _, tk := range op[1:] {
				toks = append(toks, c04Materialize(strings.ReplaceAll(tk, "$", n[0:2]+"/"+n[2:4]+"/"+n)))
			}
			if err := verifh.MaterializeTree(e.root, toks); err != nil {
				panic(err)
			}
			if !quiet {
				t.Rec("fs", c04CanonAll(verifh.DumpTree(e.root)), nil)
			}
		}
	}
	e.cads, e.archive, err = e.start(e.root)
	if err != nil {
		panic(err)
	}
	defer func() { e.cads.Close() }()
	lastOp := -1
	for i, op := range c.Ops {
		if op[0] == "op" {
			lastOp = i
		}
	}
	for i, op := range c.Ops {
		if op[0] != "op" || len(op) < 2 {
			continue
		}
		wantCrash := e.crashMode == "all" || (e.crashMode == "last" && i == lastOp)
		var plan []verifh.FSCall
		havePlan := false
		snap := ""
		if e.phase == "B" && wantCrash {
			plan, havePlan = plans[[2]int{caseIdx, i}]
			plan = c04Freshen(plan)
		}
		if havePlan {
			snap = e.fresh("snap")
			if err := verifh.CopyTree(e.root, snap); err != nil {
				panic(err)
			}
		}
		var obs []string
		run := func() {
			mark := e.phase == "A" && wantCrash
			switch op[1] {
			case "create":
				if mark {
					verifh.Mark("B", caseIdx, i)
				}
				tor, err := e.archive.CreateTorrent("ns", e.d)
				if mark {
					verifh.Mark("E", caseIdx, i)
				}
				if err == nil {
					e.tor = tor
				}
				obs = []string{c04CreateErr(err)}
			case "write":
				if len(op) < 4 {
					obs = []string{"badop"}
					return
				}
				pi, err1 := strconv.Atoi(op[2])
				data, err2 := verifh.Unhex(op[3])
				if err1 != nil || err2 != nil {
					obs = []string{"badop"}
					return
				}
				if e.tor == nil {
					obs = []string{"notorrent"}
					return
				}
				if mark {
					verifh.Mark("B", caseIdx, i)
				}
				err := e.tor.WritePiece(piecereader.NewBuffer(data), pi)
				if mark {
					verifh.Mark("E", caseIdx, i)
				}
				obs = []string{c04WriteErr(err)}
			case "restart":
				// a new process on the same directories (NewCADownloadStore creates the two state directories)
				e.cads.Close()
				e.tor = nil
				if mark {
					verifh.Mark("B", caseIdx, i)
				}
				cads, archive, err := e.start(e.root)
				if mark {
					verifh.Mark("E", caseIdx, i)
				}
				if err != nil {
					panic(err)
				}
				e.cads, e.archive = cads, archive
				obs = []string{"ok"}
			case "evict":
				// TorrentArchive.DeleteTorrent = Any().DeleteFile: what the TTL clean-up of either directory
				// (and a cache eviction) does to the entry; the torrent object is not used afterwards
				if mark {
					verifh.Mark("B", caseIdx, i)
				}
				err := e.archive.DeleteTorrent(e.d)
				if mark {
					verifh.Mark("E", caseIdx, i)
				}
				e.tor = nil
				if err != nil {
					obs = []string{"err-other"}
				} else {
					obs = []string{"ok"}
				}
			default:
				obs = []string{"badop"}
			}
		}
		if p := verifh.Protect(run); p != "" {
			obs = []string{"panic"}
			if !quiet {
				t.PropFail("panic", verifh.Str(p))
			}
		}
		if quiet {
			continue
		}
		obs = append(obs, e.observe(e.root, e.tor)...)
		t.Count("op_"+op[1], 1)
		if havePlan {
			t.Rec("begin", append(append(append([]string{}, op[1:]...), "|"), obs...), nil)
			t.Rec("plan", c04CanonAll(verifh.PlanToks(plan)), nil)
			chk := e.fresh("chk")
			verifh.CopyTree(snap, chk)
			for _, pc := range plan {
				pc.Apply(chk)
			}
			if a, b := verifh.List(c04CanonAll(verifh.DumpTree(chk))), verifh.List(c04CanonAll(verifh.DumpTree(e.root))); a != b {
				t.Rec("planerr", []string{"replayed=" + a, "real=" + b}, nil)
			}
			e.explore(snap, plan)
			t.Rec("planchk", nil, []string{})
		}
		t.Op(op[1:], obs...)
	}
	if !quiet {
		t.End()
	}
}

// ---------------------------------------------------------------- generators

func c04Blob(r *verifh.Rand, n int) []byte {
	b := make([]byte, n)
	for i := range b {
		b[i] = byte('a' + r.Intn(20))
	}
	return b
}

// wrong returns a payload of the same length as p whose checksum differs from p's.
func c04Wrong(r *verifh.Rand, p []byte) []byte {
	for {
		q := append([]byte(nil), p...)
		if len(q) == 0 {
			return q
		}
		q[r.Intn(len(q))] ^= byte(1 + r.Intn(200))
		if core.PieceSum(q) != core.PieceSum(p) {
			return q
		}
	}
}

func c04Cases() []verifh.Case {
	var out []verifh.Case
	r := verifh.NewRand(verifh.Seed(), "c04")
	piece := func(blob []byte, pl, i int) []byte {
		lo, hi := i*pl, i*pl+pl
		if hi > len(blob) {
			hi = len(blob)
		}
		return blob[lo:hi]
	}
	// every order of writing the pieces of blobs with 0..3 pieces, each with every crash point
	for _, shape := range []struct{ n, pl, wps int }{{0, 2, 0}, {1, 2, 0}, {2, 2, 0}, {3, 2, 1}, {5, 2, 0}, {4, 2, 2}, {7, 3, 2}, {6, 2, 0}} {
		blob := c04Blob(r, shape.n)
		np := (shape.n + shape.pl - 1) / shape.pl
		cfg := []string{"blob=" + verifh.Hex(blob), "pl=" + strconv.Itoa(shape.pl), "wps=" + strconv.Itoa(shape.wps), "crash=all"}
		var perms [][]int
		var gen func(cur []int, used []bool)
		gen = func(cur []int, used []bool) {
			if len(cur) == np {
				perms = append(perms, append([]int(nil), cur...))
				return
			}
			for i := 0; i < np; i++ {
				if !used[i] {
					used[i] = true
					gen(append(cur, i), used)
					used[i] = false
				}
			}
		}
		gen(nil, make([]bool, np))
		if len(perms) > verifh.Scale(3, 24) {
			perms = perms[:verifh.Scale(3, 24)]
		}
		for _, perm := range perms {
			ops := [][]string{{"op", "create"}}
			for _, i := range perm {
				ops = append(ops, []string{"op", "write", strconv.Itoa(i), verifh.Hex(piece(blob, shape.pl, i))})
			}
			ops = append(ops, []string{"op", "create"})
			if len(out)%2 == 0 {
				// the cached blob is evicted (cache clean-up) and downloaded again
				ops = append(ops, []string{"op", "evict"}, []string{"op", "create"})
				for _, i := range perm {
					ops = append(ops, []string{"op", "write", strconv.Itoa(i), verifh.Hex(piece(blob, shape.pl, i))})
				}
			}
			out = append(out, verifh.Case{Cfg: cfg, Ops: ops})
		}
	}
	// what a crash followed by a clean-up (or a clean-up cut short) can leave: a directory without the blob
	// file but with sidecars of the earlier incarnation, a stale status vector in particular (monitored)
	for c := 0; c < verifh.Scale(16, 300); c++ {
		n := 1 + r.Intn(6)
		pl := 1 + r.Intn(2)
		blob := c04Blob(r, n)
		np := (n + pl - 1) / pl
		d, _ := core.NewDigester().FromBytes(blob)
		mi, _ := core.NewMetaInfo(d, bytes.NewReader(blob), int64(pl))
		miBytes, _ := mi.Serialize()
		cfg := []string{"blob=" + verifh.Hex(blob), "pl=" + strconv.Itoa(pl), "wps=" + r.Pick("0", "1"), "crash=all"}
		fs := []string{"fs", "d:download/$"}
		st := make([]byte, np)
		for i := range st {
			if r.Chance(2, 3) {
				st[i] = 1
			}
		}
		fs = append(fs, "f:download/$/_status:"+r.Pick("x", verifh.Hex(st), verifh.Hex(bytes.Repeat([]byte{1}, np))))
		if r.Chance(1, 2) {
			fs = append(fs, "f:download/$/_torrentmeta:"+r.Pick("x", verifh.Hex(miBytes)))
		}
		if r.Chance(1, 2) {
			fs = append(fs, "f:download/$/_last_access_time:"+r.Pick("x", "x4c4154", "x4f4c44"))
		}
		if r.Chance(1, 4) {
			fs = append(fs, "d:cache/$", "f:cache/$/_status:"+verifh.Hex(bytes.Repeat([]byte{1}, np)))
		}
		ops := [][]string{fs, {"op", "create"}}
		for j := 0; j < 1+r.Intn(3); j++ {
			i := r.Intn(np)
			ops = append(ops, []string{"op", "write", strconv.Itoa(i), verifh.Hex(piece(blob, pl, i))})
		}
		if r.Chance(1, 3) {
			ops = append(ops, []string{"op", "evict"}, []string{"op", "create"})
		}
		out = append(out, verifh.Case{Cfg: cfg, Ops: ops})
	}
	// random histories: wrong payloads, repeated writes, restarts in between
	for c := 0; c < verifh.Scale(60, 1500); c++ {
		n := 1 + r.Intn(7)
		pl := 1 + r.Intn(3)
		blob := c04Blob(r, n)
		np := (n + pl - 1) / pl
		cfg := []string{"blob=" + verifh.Hex(blob), "pl=" + strconv.Itoa(pl), "wps=" + r.Pick("0", "1", "2"), "crash=all"}
		ops := [][]string{{"op", "create"}}
		for j := 0; j < 2+r.Intn(8); j++ {
			switch r.Intn(11) {
			case 10:
				ops = append(ops, []string{"op", "evict"}, []string{"op", "create"})
			case 0:
				ops = append(ops, []string{"op", "restart"}, []string{"op", "create"})
			case 1:
				ops = append(ops, []string{"op", "create"})
			case 2, 3:
				i := r.Intn(np)
				ops = append(ops, []string{"op", "write", strconv.Itoa(i), verifh.Hex(c04Wrong(r, piece(blob, pl, i)))})
			case 4:
				i := r.Intn(np + 1)
				ops = append(ops, []string{"op", "write", strconv.Itoa(i), verifh.Hex(c04Blob(r, r.Intn(4)))})
			default:
				i := r.Intn(np)
				ops = append(ops, []string{"op", "write", strconv.Itoa(i), verifh.Hex(piece(blob, pl, i))})
			}
		}
		out = append(out, verifh.Case{Cfg: cfg, Ops: ops})
	}
	// cases that start from an arbitrary leftover tree (compared with the model, not monitored)
	for c := 0; c < verifh.Scale(40, 1000); c++ {
		n := 1 + r.Intn(5)
		pl := 1 + r.Intn(2)
		blob := c04Blob(r, n)
		np := (n + pl - 1) / pl
		d, _ := core.NewDigester().FromBytes(blob)
		mi, _ := core.NewMetaInfo(d, bytes.NewReader(blob), int64(pl))
		miBytes, _ := mi.Serialize()
		cfg := []string{"blob=" + verifh.Hex(blob), "pl=" + strconv.Itoa(pl), "wps=" + r.Pick("0", "1"), "crash=all", "mon=0"}
		fs := []string{"fs"}
		where := r.Intn(3) // blob file: nowhere, download, cache
		for si, state := range []string{"download", "cache"} {
			if !r.Chance(3, 4) {
				continue
			}
			dir := state + "/$"
			fs = append(fs, "d:"+dir)
			if where == si+1 {
				data := r.Pick(verifh.Hex(blob), verifh.Hex(make([]byte, n)), "x")
				if state == "cache" {
					data = verifh.Hex(blob)
				}
				fs = append(fs, "f:"+dir+"/data:"+data)
			}
			if r.Chance(1, 2) {
				fs = append(fs, "f:"+dir+"/_last_access_time:"+r.Pick("x", "x00000000000000000000", "x4c4154", "x4f4c44"))
			}
			if r.Chance(1, 2) {
				fs = append(fs, "f:"+dir+"/_torrentmeta:"+r.Pick("x", verifh.Hex(make([]byte, len(miBytes))), verifh.Hex(miBytes)))
			}
			if r.Chance(1, 2) {
				st := make([]byte, np)
				fs = append(fs, "f:"+dir+"/_status:"+r.Pick("x", verifh.Hex(st)))
			}
		}
		ops := [][]string{fs, {"op", "create"}}
		for j := 0; j < r.Intn(3); j++ {
			i := r.Intn(np)
			ops = append(ops, []string{"op", "write", strconv.Itoa(i), verifh.Hex(piece(blob, pl, i))})
		}
		out = append(out, verifh.Case{Cfg: cfg, Ops: ops})
	}
	return out
}

func TestVerif_C04(t *testing.T) {
	log.SetGlobalLogger(zap.NewNop().Sugar())
	tr := verifh.Open("ag")
	defer tr.Close()
	base := verifh.CrashBase()
	os.MkdirAll(base, 0775)
	var plans map[[2]int][]verifh.FSCall
	if p := os.Getenv("VERIF_CRASH_PLANS"); p != "" {
		var err error
		if plans, err = verifh.LoadPlans(p); err != nil {
			t.Fatal(err)
		}
	}
	cases, replayOnly := verifh.InputCases("ag")
	tr.Count("corpus_or_replay_cases", len(cases))
	if !replayOnly {
		gen := c04Cases()
		tr.Count("generated_cases", len(gen))
		if len(gen) > 0 {
			tr.Sample(fmt.Sprint(gen[len(gen)/2].Cfg, gen[len(gen)/2].Ops))
			tr.Sample(fmt.Sprint(gen[len(gen)-1].Cfg, gen[len(gen)-1].Ops))
		}
		cases = append(cases, gen...)
	}
	for i, c := range cases {
		// replayed cases carry the derived cfg tokens: drop them, they are recomputed
		var cfg []string
		for _, tok := range c.Cfg {
			if !strings.HasPrefix(tok, "name=") && !strings.HasPrefix(tok, "mi=") {
				cfg = append(cfg, tok)
			}
		}
		c.Cfg = cfg
		c04Exec(tr, c, i, base, plans)
	}
	_ = errors.New
}
