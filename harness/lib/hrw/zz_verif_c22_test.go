//go:build verif

package hrw_test

import (
	"crypto/sha256"
	"encoding/binary"
	"encoding/hex"
	"fmt"
	"hash"
	"math"
	"math/bits"
	"strconv"
	"strings"
	"sync"
	"testing"

	"github.com/uber/kraken/lib/hrw"
	"github.com/uber/kraken/utils/verifh"
)

// C22 harness: drives hrw.RendezvousHash through AddNode / RemoveNode / GetOrderedNodes and records
// the node lists it returns together with the float scores the real code computes (as an
// order-preserving integer), so that the Lean driver can check "sorted permutation" without
// re-implementing murmur3 / float arithmetic.

// c22ScoreTok maps a float64 to an integer whose order is the float order (NaN -> "nan", -0 == +0).
func c22ScoreTok(f float64) string {
	if math.IsNaN(f) {
		return "nan"
	}
	if f == 0 {
		return "0"
	}
	b := math.Float64bits(f)
	mag := int64(b &^ (1 << 63))
	if b>>63 == 1 {
		return strconv.FormatInt(-mag, 10)
	}
	return strconv.FormatInt(mag, 10)
}

func c22NodeTok(n *hrw.RendezvousHashNode) string {
	return verifh.Str(n.Label) + "*" + strconv.Itoa(n.Weight)
}

func c22NodesTok(ns []*hrw.RendezvousHashNode) string {
	var xs []string
	for _, n := range ns {
		xs = append(xs, c22NodeTok(n))
	}
	return verifh.List(xs)
}

func c22New(cfg []string) *hrw.RendezvousHash {
	for _, c := range cfg {
		if c == "hash=sha256" {
			return hrw.NewRendezvousHash(func() hash.Hash { return sha256.New() }, hrw.BigIntToFloat64)
		}
	}
	return hrw.NewRendezvousHash(hrw.Murmur3Hash, hrw.UInt64ToFloat64)
}

func c22Exec(t *verifh.T, c verifh.Case) {
	cfg := c.Cfg
	if len(cfg) == 0 {
		cfg = []string{"hash=murmur"}
	}
	rh := c22New(cfg)
	t.Cfg(cfg...)
	do := func(op []string) {
		if len(op) == 3 && op[0] == "one" && op[1] == "unitfloat" {
			// UInt64ToFloat64 on a hash whose low 53 bits are zero (the rehash-on-zero branch)
			b, err := verifh.Unhex(op[2])
			if err != nil || len(b) != 8 {
				return
			}
			f := hrw.UInt64ToFloat64(b, []byte{255, 255, 255, 255, 255, 255, 255, 255}, hrw.Murmur3Hash())
			cls := "in01"
			switch {
			case math.IsNaN(f):
				cls = "nan"
			case f <= 0:
				cls = "zero-or-negative"
			case f >= 1:
				cls = "one-or-more"
			}
			t.One(op[1:], cls)
			return
		}
		if len(op) < 2 || op[0] != "op" {
			return // tbl rows are regenerated, never replayed
		}
		if op[1] == "conc" && len(op) == 4 {
			c22Concurrent(t, rh, cfg, op)
			return
		}
		switch {
		case op[1] == "add" && len(op) == 4:
			label, err := verifh.Unstr(op[2])
			w, err2 := strconv.Atoi(op[3])
			if err != nil || err2 != nil {
				return
			}
			rh.AddNode(label, w)
			t.Op(op[1:], "ok")
		case op[1] == "remove" && len(op) == 3:
			label, err := verifh.Unstr(op[2])
			if err != nil {
				return
			}
			rh.RemoveNode(label)
			t.Op(op[1:], "ok")
		case op[1] == "nodes" && len(op) == 2:
			t.Op(op[1:], c22NodesTok(rh.Nodes))
		case op[1] == "get" && len(op) == 4:
			key, err := verifh.Unstr(op[2])
			n, err2 := strconv.Atoi(op[3])
			if err != nil || err2 != nil {
				return
			}
			// the oracle score of a node is computed on a FRESH RendezvousHash holding only that node, so that no state
			// the queried object may keep between Score calls (pooled / reused hashers) can leak into the oracle
			row := []string{op[2]}
			for _, nd := range rh.Nodes {
				fresh := c22New(cfg)
				fresh.AddNode(nd.Label, nd.Weight)
				row = append(row, c22NodeTok(nd)+"="+c22ScoreTok(fresh.Nodes[0].Score(key)))
			}
			t.Rec("tbl", row, nil)
			var out []*hrw.RendezvousHashNode
			if p := verifh.Protect(func() { out = rh.GetOrderedNodes(key, n) }); p != "" {
				t.Op(op[1:], "panic")
				if n >= 0 {
					t.PropFail("panic", verifh.Str(p))
				}
				return
			}
			t.Op(op[1:], "ok", c22NodesTok(out))
		}
	}
	for _, op := range c.Ops {
		if p := verifh.Protect(func() { do(op) }); p != "" {
			t.PropFail("panic", verifh.Str(p))
		}
	}
	t.End()
}

// c22Concurrent: `op conc <goroutines> <calls per goroutine>`: GetOrderedNodes is a read-only query (hashring
// calls it under a read lock from many goroutines); every concurrent answer must equal the answer of a
// second RendezvousHash with the same nodes that is only used sequentially.
func c22Concurrent(t *verifh.T, rh *hrw.RendezvousHash, cfg []string, op []string) {
	g, _ := strconv.Atoi(op[2])
	calls, _ := strconv.Atoi(op[3])
	if g < 1 || g > 64 || calls < 1 || calls > 1000000 {
		return
	}
	ref := c22New(cfg)
	for _, n := range rh.Nodes {
		ref.AddNode(n.Label, n.Weight)
	}
	var keys []string
	want := map[string]string{}
	for i := 0; i < 64; i++ {
		k := fmt.Sprintf("%04x", (i*1021+7)%65536)
		keys = append(keys, k)
		want[k] = c22NodesTok(ref.GetOrderedNodes(k, len(ref.Nodes)))
	}
	var mu sync.Mutex
	first := ""
	var wg sync.WaitGroup
	for w := 0; w < g; w++ {
		wg.Add(1)
		go func(w int) {
			defer wg.Done()
			for i := 0; i < calls; i++ {
				k := keys[(i+w*7)%len(keys)]
				var got string
				if p := verifh.Protect(func() { got = c22NodesTok(rh.GetOrderedNodes(k, len(rh.Nodes))) }); p != "" {
					got = "panic:" + verifh.Str(p)
				}
				if got != want[k] {
					mu.Lock()
					if first == "" {
						first = "key=" + k + " concurrent=" + got + " sequential=" + want[k]
					}
					mu.Unlock()
					return
				}
			}
		}(w)
	}
	wg.Wait()
	t.Op(op[1:], "ok")
	if first != "" {
		t.PropFail("wrong-order-concurrent", strings.Fields(first)...)
	}
}

const (
	c22mc1 = 0x87c37b91114253d5
	c22mc2 = 0x4cf5ad432745937f
)

func c22Inv64(a uint64) uint64 { // inverse of an odd number modulo 2^64
	x := a
	for i := 0; i < 6; i++ {
		x *= 2 - a*x
	}
	return x
}

func c22InvFmix(k uint64) uint64 {
	k ^= k >> 33
	k *= c22Inv64(0xc4ceb9fe1a85ec53)
	k ^= k >> 33
	k *= c22Inv64(0xff51afd7ed558ccd)
	k ^= k >> 33
	return k
}

// c22ZeroKey constructs a 32-hex-digit key such that murmur3_64(key bytes ++ label) has its 53 low bits zero
// (label of at most 8 bytes), by inverting murmur3's finaliser, tail and body step.  Such keys make Score take
// the re-hash-on-zero branch of UInt64ToFloat64; random keys practically never do (2^-53).
func c22ZeroKey(label string, salt, top uint64) string {
	n := uint64(16 + len(label))
	u2 := salt*0x9e3779b97f4a7c15 + 12345
	u1 := top<<53 - u2
	h1pp, h2pp := c22InvFmix(u1), c22InvFmix(u2)
	h2p := h2pp - h1pp
	h1p := h1pp - h2p
	h1t, h2t := h1p^n, h2p^n
	var k1t uint64
	for i := len(label) - 1; i >= 0; i-- {
		k1t = k1t<<8 | uint64(label[i])
	}
	k1t = bits.RotateLeft64(k1t*c22mc1, 31) * c22mc2
	h1b, h2b := h1t^k1t, h2t
	x := (h1b - 0x52dce729) * c22Inv64(5)
	k1 := bits.RotateLeft64(bits.RotateLeft64(x, -27)*c22Inv64(c22mc2), -31) * c22Inv64(c22mc1)
	y := (h2b-0x38495ab5)*c22Inv64(5) - h1b
	k2 := bits.RotateLeft64(bits.RotateLeft64(y, -31)*c22Inv64(c22mc1), -33) * c22Inv64(c22mc2)
	b := make([]byte, 16)
	binary.LittleEndian.PutUint64(b[0:], k1)
	binary.LittleEndian.PutUint64(b[8:], k2)
	key := hex.EncodeToString(b)
	h := hrw.Murmur3Hash()
	h.Write(append(b, label...))
	if binary.BigEndian.Uint64(h.Sum(nil))&(1<<53-1) != 0 {
		panic("c22ZeroKey: construction failed for " + label)
	}
	return key
}

func c22Perms(n int) [][]int {
	if n == 0 {
		return [][]int{{}}
	}
	var out [][]int
	for _, p := range c22Perms(n - 1) {
		for i := 0; i <= len(p); i++ {
			q := append(append(append([]int{}, p[:i]...), n-1), p[i:]...)
			out = append(out, q)
		}
	}
	return out
}

func c22Op(xs ...string) []string { return append([]string{"op"}, xs...) }

type c22Node struct {
	label  string
	weight int
}

func c22Add(n c22Node) []string { return c22Op("add", verifh.Str(n.label), strconv.Itoa(n.weight)) }

// c22Membership draws k distinct labels with positive weights.
func c22Membership(r *verifh.Rand, k int) []c22Node {
	var ns []c22Node
	seen := map[string]bool{}
	for len(ns) < k {
		var l string
		switch r.Intn(3) {
		case 0:
			l = fmt.Sprintf("host%d:%d", r.Intn(50), 1000+r.Intn(5))
		case 1:
			l = fmt.Sprintf("/mnt/vol%d", r.Intn(40))
		default:
			l = "n" + hex.EncodeToString(r.Bytes(1+r.Intn(6)))
		}
		if seen[l] {
			continue
		}
		seen[l] = true
		w := 1
		switch r.Intn(3) {
		case 0:
			w = 1 + r.Intn(5)
		case 1:
			w = 1 + r.Intn(1000)
		}
		ns = append(ns, c22Node{l, w})
	}
	return ns
}

// c22SweepCase: one membership, a chunk of keys; each key is queried on the membership in its
// first insertion order, after a removal, after re-adding the removed node (same membership, other
// insertion order) and after adding a new node.
func c22SweepCase(r *verifh.Rand, ms []c22Node, extra c22Node, keys []string, hashCfg string, prefixes bool) verifh.Case {
	c := verifh.Case{Cfg: []string{hashCfg}}
	perm := r.Perm(len(ms))
	for _, i := range perm {
		c.Ops = append(c.Ops, c22Add(ms[i]))
	}
	full := strconv.Itoa(len(ms) + 1)
	gets := func(n string) {
		for _, k := range keys {
			c.Ops = append(c.Ops, c22Op("get", verifh.Str(k), n))
		}
	}
	gets(full)
	x := ms[r.Intn(len(ms))]
	c.Ops = append(c.Ops, c22Op("remove", verifh.Str(x.label)))
	gets(full)
	c.Ops = append(c.Ops, c22Add(x))
	gets(full)
	c.Ops = append(c.Ops, c22Add(extra), c22Op("nodes"))
	gets(full)
	if prefixes {
		gets("1") // what initCASVolumes asks for
		gets(strconv.Itoa(1 + r.Intn(len(ms)+1)))
	}
	return c
}

func c22RandKey(r *verifh.Rand) string {
	return hex.EncodeToString(r.Bytes(r.Intn(40)))
}

// TestVerif_C22Concurrent: concurrent read-only use of one RendezvousHash (built with -race in the thorough tier).
func TestVerif_C22Concurrent(t *testing.T) {
	tr := verifh.Open("hrw")
	defer tr.Close()
	cases, replayOnly := verifh.InputCases("hrw")
	for _, c := range cases {
		for _, o := range c.Ops {
			if len(o) > 1 && o[1] == "conc" {
				c22Exec(tr, c)
				break
			}
		}
	}
	if replayOnly {
		return
	}
	r := verifh.NewRand(verifh.Seed(), "c22conc")
	for i := 0; i < verifh.Scale(6, 40); i++ {
		hashCfg := "hash=murmur"
		if i%3 == 2 {
			hashCfg = "hash=sha256"
		}
		c := verifh.Case{Cfg: []string{hashCfg}}
		for _, n := range c22Membership(r, 2+r.Intn(9)) {
			c.Ops = append(c.Ops, c22Add(n))
		}
		c.Ops = append(c.Ops, c22Op("conc", "8", strconv.Itoa(verifh.Scale(1500, 6000))), c22Op("nodes"))
		c22Exec(tr, c)
		tr.Count("concurrent_cases", 1)
	}
}

func TestVerif_C22(t *testing.T) {
	tr := verifh.Open("hrw")
	defer tr.Close()
	cases, replayOnly := verifh.InputCases("hrw")
	for _, c := range cases {
		c22Exec(tr, c)
		tr.Count("corpus_or_replay_cases", 1)
	}
	if replayOnly {
		return
	}
	r := verifh.NewRand(verifh.Seed(), "c22")

	// (0) the rehash-on-zero branch of UInt64ToFloat64: hashes whose low 53 bits are all zero
	for i := 0; i < 2048; i += verifh.Scale(16, 1) {
		b := []byte{byte(i >> 3), byte(i<<5) & 0xe0, 0, 0, 0, 0, 0, 0}
		c22Exec(tr, verifh.Case{Ops: [][]string{{"one", "unitfloat", verifh.Hex(b)}}})
		tr.Count("unitfloat_cases", 1)
	}

	// (0b) keys that make Score itself take the re-hash-on-zero branch for one of the nodes: memberships of 3 and
	// 4 nodes in EVERY insertion order, then every single removal and re-addition
	labels := []string{"node-a", "node-b", "node-c", "node-d", "n1", "host7:80"}
	for li := 0; li < verifh.Scale(3, len(labels)); li++ {
		target := labels[(li*2+int(verifh.Seed()))%len(labels)]
		for size := 3; size <= 4; size++ {
			var ms []c22Node
			ms = append(ms, c22Node{target, 1 + li})
			for _, l := range labels {
				if l != target && len(ms) < size {
					ms = append(ms, c22Node{l, 1 + len(ms)%3})
				}
			}
			keys := []string{c22ZeroKey(target, uint64(li), 1), c22ZeroKey(target, uint64(li)+7, uint64(3+li)), c22ZeroKey(ms[1].label, 1, 2)}
			for _, perm := range c22Perms(size) {
				c := verifh.Case{Cfg: []string{"hash=murmur"}}
				for _, i := range perm {
					c.Ops = append(c.Ops, c22Add(ms[i]))
				}
				full := strconv.Itoa(size)
				for _, k := range keys {
					c.Ops = append(c.Ops, c22Op("get", k, full), c22Op("get", k, "1"))
				}
				x := ms[perm[0]]
				c.Ops = append(c.Ops, c22Op("remove", verifh.Str(x.label)))
				for _, k := range keys {
					c.Ops = append(c.Ops, c22Op("get", k, full))
				}
				c.Ops = append(c.Ops, c22Add(x))
				for _, k := range keys {
					c.Ops = append(c.Ops, c22Op("get", k, full), c22Op("get", k, full))
				}
				c22Exec(tr, c)
				tr.Count("rehash_key_cases", 1)
			}
		}
	}

	// (a) the exhaustive shard space: all 65536 four-hex-digit keys
	type sweep struct {
		hash  string
		size  int
		every int // take every n-th key (1 = all)
	}
	var sweeps []sweep
	if verifh.Thorough() {
		for _, k := range []int{1, 2, 3, 5, 8, 12} {
			sweeps = append(sweeps, sweep{"hash=murmur", k, 1})
		}
		sweeps = append(sweeps, sweep{"hash=sha256", 4, 1}, sweep{"hash=sha256", 9, 1})
	} else {
		sweeps = []sweep{{"hash=murmur", 5, 1}, {"hash=murmur", 2 + r.Intn(10), 16}, {"hash=sha256", 3 + r.Intn(5), 32}}
	}
	for _, sw := range sweeps {
		ms := c22Membership(r, sw.size+1)
		extra, ms := ms[sw.size], ms[:sw.size]
		var chunk []string
		flush := func() {
			if len(chunk) > 0 {
				c22Exec(tr, c22SweepCase(r, ms, extra, chunk, sw.hash, sw.every > 1 || verifh.Thorough()))
				tr.Count("sweep_cases", 1)
				tr.Count("sweep_keys_"+sw.hash[5:], len(chunk))
				chunk = nil
			}
		}
		for k := 0; k < 65536; k += sw.every {
			chunk = append(chunk, fmt.Sprintf("%04x", k))
			if len(chunk) == 8 {
				flush()
			}
		}
		flush()
	}

	// (b) bounded-exhaustive histories over three labels (duplicate adds included) and two keys
	alpha := [][]string{
		c22Op("add", "a", "1"), c22Op("add", "b", "2"), c22Op("add", "c", "1"),
		c22Op("remove", "a"), c22Op("remove", "b"), c22Op("remove", "c"),
		c22Op("get", "00ff", "9"), c22Op("get", "a1", "1"),
	}
	depth := verifh.Scale(4, 6)
	var rec func(prefix [][]string, d int)
	rec = func(prefix [][]string, d int) {
		if d == 0 {
			ops := append(prefix[:len(prefix):len(prefix)], c22Op("nodes"), c22Op("get", "00ff", "9"))
			c22Exec(tr, verifh.Case{Cfg: []string{"hash=murmur"}, Ops: ops})
			tr.Count("exhaustive_cases", 1)
			return
		}
		for _, o := range alpha {
			rec(append(prefix[:len(prefix):len(prefix)], o), d-1)
		}
	}
	for d := 0; d <= depth; d++ {
		rec(nil, d)
	}

	// (c) random histories: long random keys, 1..12 weighted nodes, additions / removals / prefixes
	for i := 0; i < verifh.Scale(1500, 60000); i++ {
		hashCfg := "hash=murmur"
		if r.Chance(1, 3) {
			hashCfg = "hash=sha256"
		}
		pool := c22Membership(r, 2+r.Intn(12))
		in := map[string]bool{}
		var keys []string
		for j := 0; j < 1+r.Intn(4); j++ {
			keys = append(keys, c22RandKey(r))
		}
		var ops [][]string
		for j := 0; j < 3+r.Intn(30); j++ {
			nd := pool[r.Intn(len(pool))]
			switch x := r.Intn(10); {
			case x < 3:
				if in[nd.label] && r.Chance(19, 20) {
					continue
				}
				in[nd.label] = true
				ops = append(ops, c22Add(nd))
				tr.Count("random_add", 1)
			case x < 5:
				delete(in, nd.label)
				ops = append(ops, c22Op("remove", verifh.Str(nd.label)))
				tr.Count("random_remove", 1)
			case x < 6:
				ops = append(ops, c22Op("nodes"))
			default:
				n := len(pool) + 1
				if r.Chance(1, 2) {
					n = r.Intn(len(pool) + 2)
				}
				ops = append(ops, c22Op("get", verifh.Str(keys[r.Intn(len(keys))]), strconv.Itoa(n)))
				tr.Count("random_get", 1)
			}
		}
		if i < 2 {
			tr.Sample(fmt.Sprint(ops))
		}
		c22Exec(tr, verifh.Case{Cfg: []string{hashCfg}, Ops: ops})
		tr.Count("random_cases", 1)
	}

	// (d) malformed stream: non-hex keys (NaN scores), zero / negative weights, duplicate labels,
	// negative n, the empty key, the empty ring
	for i := 0; i < verifh.Scale(300, 10000); i++ {
		var ops [][]string
		labels := []string{"a", "b", "c", "a,b", "x=1*2", "", " "}
		keys := []string{"", "zz", "abc", "00", strings.Repeat("f", 64), "0G", "ABCDEF"}
		for j := 0; j < 1+r.Intn(12); j++ {
			switch r.Intn(4) {
			case 0, 1:
				ops = append(ops, c22Op("add", verifh.Str(labels[r.Intn(len(labels))]), strconv.Itoa(r.Intn(5)-1)))
			case 2:
				ops = append(ops, c22Op("remove", verifh.Str(labels[r.Intn(len(labels))])))
			default:
				ops = append(ops, c22Op("get", verifh.Str(keys[r.Intn(len(keys))]), strconv.Itoa(r.Intn(6)-1)))
			}
		}
		ops = append(ops, c22Op("nodes"), c22Op("get", verifh.Str(keys[r.Intn(len(keys))]), "3"))
		c22Exec(tr, verifh.Case{Cfg: []string{"hash=murmur"}, Ops: ops})
		tr.Count("malformed_cases", 1)
	}
}
