//go:build verif

package dockerregistry_test

// C38 harness, machine "rp": ParsePath and the Get* extractors of lib/dockerregistry/paths.go.
// Record format: /verif/lean/Driver/C38.lean.

import (
	"fmt"
	"strings"
	"testing"

	"github.com/uber/kraken/lib/dockerregistry"
	"github.com/uber/kraken/utils/verifh"
)

func c38Op(t *verifh.T, op []string) {
	if len(op) < 2 || op[0] != "path" {
		return
	}
	p, err := verifh.Unstr(op[1])
	if err != nil {
		return
	}
	var obs []string
	ty, st, perr := dockerregistry.ParsePath(p)
	if perr != nil {
		obs = append(obs, "parse=err")
	} else {
		obs = append(obs, "parse=ok:"+ty.String()+":"+string(st))
	}
	if r, err := dockerregistry.GetRepo(p); err != nil {
		obs = append(obs, "repo=err")
	} else {
		obs = append(obs, "repo=ok:"+verifh.Str(r))
	}
	if tg, cur, err := dockerregistry.GetManifestTag(p); err != nil {
		obs = append(obs, "tag=err")
	} else {
		obs = append(obs, "tag=ok:"+verifh.Str(tg)+":"+verifh.Bool(cur))
	}
	dig := func(name string, f func(string) (interface{ Hex() string }, error)) {
		d, err := f(p)
		switch {
		case err == nil:
			obs = append(obs, name+"=ok:"+d.Hex())
		case strings.HasPrefix(err.Error(), "new digest:"):
			obs = append(obs, name+"=bad")
		default:
			obs = append(obs, name+"=err")
		}
	}
	dig("mdig", func(s string) (interface{ Hex() string }, error) { return dockerregistry.GetManifestDigest(s) })
	dig("ldig", func(s string) (interface{ Hex() string }, error) { return dockerregistry.GetLayerDigest(s) })
	dig("bdig", func(s string) (interface{ Hex() string }, error) { return dockerregistry.GetBlobDigest(s) })
	if u, err := dockerregistry.GetUploadUUID(p); err != nil {
		obs = append(obs, "uuid=err")
	} else {
		obs = append(obs, "uuid=ok:"+verifh.Str(u))
	}
	if a, o, err := dockerregistry.GetUploadAlgoAndOffset(p); err != nil {
		obs = append(obs, "ao=err")
	} else {
		obs = append(obs, "ao=ok:"+a+":"+o)
	}
	t.One(op, obs...)
}

func c38Exec(t *verifh.T, c verifh.Case) {
	for _, op := range c.Ops {
		if len(op) < 2 || op[0] != "one" {
			continue
		}
		o := op[1:]
		if p := verifh.Protect(func() { c38Op(t, o) }); p != "" {
			t.One(o, "panic")
			t.PropFail("panic", verifh.Str(p))
		}
	}
}

const c38Root = "/docker/registry/v2"

type c38Comp struct{ repo, tag, hex, uuid, algo, off string }

// c38Build returns the path of a layout entry and the meta tokens naming its components.
func c38Build(kind string, c c38Comp) (string, []string) {
	r := c38Root + "/repositories/" + c.repo
	meta := []string{"kind=" + kind, "repo=" + verifh.Str(c.repo)}
	switch kind {
	case "tagsdir":
		return r + "/_manifests/tags", meta
	case "revsdir":
		return r + "/_manifests/revisions", meta
	case "tagcurrent":
		return r + "/_manifests/tags/" + c.tag + "/current/link", append(meta, "tag="+verifh.Str(c.tag))
	case "tagindex":
		return r + "/_manifests/tags/" + c.tag + "/index/sha256/" + c.hex + "/link", append(meta, "tag="+verifh.Str(c.tag), "hex="+c.hex)
	case "revision":
		return r + "/_manifests/revisions/sha256/" + c.hex + "/link", append(meta, "hex="+c.hex)
	case "layerlink":
		return r + "/_layers/sha256/" + c.hex + "/link", append(meta, "hex="+c.hex)
	case "layerdata":
		return r + "/_layers/sha256/" + c.hex + "/data", append(meta, "hex="+c.hex)
	case "blob":
		return c38Root + "/blobs/sha256/" + c.hex[:2] + "/" + c.hex + "/data", []string{"kind=blob", "hex=" + c.hex}
	case "updata":
		return r + "/_uploads/" + c.uuid + "/data", append(meta, "uuid="+verifh.Str(c.uuid))
	case "upstarted":
		return r + "/_uploads/" + c.uuid + "/startedat", append(meta, "uuid="+verifh.Str(c.uuid))
	case "uphash":
		return r + "/_uploads/" + c.uuid + "/hashstates/" + c.algo, append(meta, "uuid="+verifh.Str(c.uuid), "algo="+c.algo)
	default: // uphashoff
		return r + "/_uploads/" + c.uuid + "/hashstates/" + c.algo + "/" + c.off, append(meta, "uuid="+verifh.Str(c.uuid), "algo="+c.algo, "off="+c.off)
	}
}

var c38Kinds = []string{"tagsdir", "revsdir", "tagcurrent", "tagindex", "revision", "layerlink", "layerdata", "blob", "updata", "upstarted", "uphash", "uphashoff"}

// valid Docker repository names, including elements equal to layout keywords
var c38Repos = []string{"kraken", "library/ubuntu", "a/b/c", "namespace-foo/kraken", "a.b_c-d/e__f", "a/repositories/b", "repositories", "repositories/x",
	"x/repositories", "blobs/sha256/ab", "tags", "a/tags/b", "revisions", "link", "data", "current/link", "sha256", "index", "hashstates", "startedat",
	"0", "a/manifests", "a/layers/b", "uploads"}

// valid tags: [A-Za-z0-9_][A-Za-z0-9_.-]*
var c38Tags = []string{"latest", "v1.2.3", "current", "index", "link", "tags", "_manifests", "_layers", "_uploads", "_", "sha256", "A-b_c.d", "repositories", "data"}

func c38Hex(r *verifh.Rand) string { return fmt.Sprintf("%x", r.Bytes(32)) }

func c38UUID(r *verifh.Rand) string {
	b := r.Bytes(16)
	return fmt.Sprintf("%x-%x-%x-%x-%x", b[0:4], b[4:6], b[6:8], b[8:10], b[10:16])
}

func c38RandRepo(r *verifh.Rand) string {
	n := 1 + r.Intn(3)
	var cs []string
	for i := 0; i < n; i++ {
		if r.Chance(1, 3) {
			cs = append(cs, r.Pick("repositories", "blobs", "tags", "sha256", "link", "data", "revisions", "manifests", "layers", "uploads"))
			continue
		}
		alpha := "abcxyz019"
		m := 1 + r.Intn(6)
		b := make([]byte, m)
		for j := range b {
			b[j] = alpha[r.Intn(len(alpha))]
		}
		s := string(b)
		if r.Chance(1, 3) {
			s += r.Pick(".", "_", "__", "-", "--") + "q"
		}
		cs = append(cs, s)
	}
	return strings.Join(cs, "/")
}

func TestVerif_C38(t *testing.T) {
	tr := verifh.Open("rp")
	defer tr.Close()
	cases, replayOnly := verifh.InputCases("rp")
	for _, c := range cases {
		c38Exec(tr, c)
		tr.Count("corpus_or_replay_cases", 1)
	}
	if replayOnly {
		return
	}
	r := verifh.NewRand(verifh.Seed(), "c38")
	run := func(p string, meta []string) {
		c38Exec(tr, verifh.Case{Ops: [][]string{append([]string{"one", "path", verifh.Str(p)}, meta...)}})
	}
	// (a) grid: every layout entry x every listed repo x every listed tag
	for _, k := range c38Kinds {
		for _, repo := range c38Repos {
			tags := c38Tags
			if k != "tagcurrent" && k != "tagindex" {
				tags = tags[:1]
			}
			for _, tag := range tags {
				c := c38Comp{repo, tag, c38Hex(r), c38UUID(r), r.Pick("sha256", "sha512", "SHA1"), fmt.Sprint(r.Intn(1 << 30))}
				p, meta := c38Build(k, c)
				run(p, meta)
				tr.Count("grid_"+k, 1)
			}
		}
	}
	// (a') every byte value at every element boundary of the tail of one built path per layout entry: the separator,
	// the first two and the last character of every element (thorough: every offset of the tail)
	for _, k := range c38Kinds {
		c := c38Comp{"library/ubuntu", "v1", c38Hex(r), c38UUID(r), "sha256", "42"}
		p, _ := c38Build(k, c)
		start := len(c38Root + "/repositories/library/ubuntu")
		if k == "blob" {
			start = len(c38Root)
		}
		offs := map[int]bool{}
		for i := start; i < len(p); i++ {
			if verifh.Thorough() || p[i] == '/' || p[i-1] == '/' || (i >= 2 && p[i-2] == '/') || i+1 == len(p) || p[i+1] == '/' {
				offs[i] = true
			}
		}
		for i := start; i < len(p); i++ {
			if !offs[i] {
				continue
			}
			for b := 0; b < 256; b++ {
				run(p[:i]+string([]byte{byte(b)})+p[i+1:], nil)
				tr.Count("byte_subst", 1)
			}
		}
	}
	// (a'') other storage roots
	for _, root := range []string{"/v2", "/a/b/c", "x", "/docker/registry/v2/blobs"} {
		for _, k := range c38Kinds {
			c := c38Comp{c38Repos[r.Intn(len(c38Repos))], c38Tags[r.Intn(len(c38Tags))], c38Hex(r), c38UUID(r), "sha256", "7"}
			p, meta := c38Build(k, c)
			run(root+strings.TrimPrefix(p, c38Root), meta)
			tr.Count("other_roots", 1)
		}
	}
	// (a3) boundary LENGTHS of every component: tags 1/127/128 (the Docker maximum) are valid, 129+ are not; repository
	// names up to 255 characters in total; upload ids are 36-character UUIDs; digests are exactly 64 characters
	{
		rep := func(ch string, n int) string { return strings.Repeat(ch, n) }
		longRepo := rep("a", 51) + "/" + rep("b", 50) + "/" + rep("c", 50) + "/" + rep("d", 50) + "/" + rep("e", 50) // 255
		validRepos := []string{"a", rep("r", 255), longRepo, rep("x", 254), "a/" + rep("y", 253)}
		validTags := []string{"a", "_", "0", rep("t", 127), "T" + rep("-", 126), rep("t", 128), "_" + rep(".", 127), "9" + rep("Z", 127)}
		for _, k := range c38Kinds {
			for _, repo := range validRepos {
				tags := validTags
				if k != "tagcurrent" && k != "tagindex" {
					tags = tags[:1]
				}
				for _, tag := range tags {
					c := c38Comp{repo, tag, c38Hex(r), c38UUID(r), r.Pick("a", rep("Z", 100), "sha256"), r.Pick("0", "9223372036854775807", rep("9", 30))}
					p, meta := c38Build(k, c)
					run(p, meta)
					tr.Count("boundary_valid", 1)
				}
			}
		}
		// just outside the grammar: not labelled as built (the layout specification says they are no layout paths)
		hex := c38Hex(r)
		id := c38UUID(r)
		for _, k := range c38Kinds {
			for _, c := range []c38Comp{
				{"kraken", rep("t", 129), hex, id, "sha256", "1"}, {"kraken", rep("t", 256), hex, id, "sha256", "1"}, {"kraken", ".t", hex, id, "sha256", "1"},
				{rep("r", 256), "v1", hex, id, "sha256", "1"}, {longRepo + "x", "v1", hex, id, "sha256", "1"},
				{"kraken", "v1", hex[:63], id, "sha256", "1"}, {"kraken", "v1", hex + "0", id, "sha256", "1"},
				{"kraken", "v1", hex, id[:35], "sha256", "1"}, {"kraken", "v1", hex, id + "0", "sha256", "1"}, {"kraken", "v1", hex, strings.ToUpper(id), "sha256", "1"},
			} {
				p, _ := c38Build(k, c)
				run(p, nil)
				tr.Count("boundary_invalid", 1)
			}
		}
	}
	// (b) random valid components, and mutations of the built paths (rejected or reclassified — compared with the model)
	for i := 0; i < verifh.Scale(1500, 100000); i++ {
		c := c38Comp{c38RandRepo(r), c38Tags[r.Intn(len(c38Tags))], c38Hex(r), c38UUID(r), r.Pick("sha256", "sha512", "md5", "X9"), fmt.Sprint(r.Intn(1 << 20))}
		if r.Chance(1, 2) {
			c.repo = c38Repos[r.Intn(len(c38Repos))]
		}
		k := c38Kinds[r.Intn(len(c38Kinds))]
		p, meta := c38Build(k, c)
		run(p, meta)
		tr.Count("random_built", 1)
		if i < 2 {
			tr.Sample(p)
		}
		// mutations
		parts := strings.Split(p, "/")
		m := append([]string(nil), parts...)
		switch r.Intn(12) {
		case 0: // drop an element
			j := r.Intn(len(m))
			m = append(m[:j], m[j+1:]...)
		case 1: // duplicate an element
			j := r.Intn(len(m))
			m = append(m[:j+1], m[j:]...)
		case 2: // rename an element
			m[r.Intn(len(m))] = r.Pick("_manifests", "_layers", "_uploads", "tags", "revisions", "link", "data", "x", "", "sha256", "blobs", "repositories", "hashstates", "startedat", "current", "index")
		case 3: // truncate
			m = m[:r.Intn(len(m)+1)]
		case 4: // append
			m = append(m, r.Pick("link", "data", "x", "", "0", "sha256"))
		case 5: // upper-case / short digest
			for j := range m {
				if len(m[j]) == 64 {
					m[j] = r.Pick(strings.ToUpper(m[j]), m[j][:63], m[j]+"0", "g"+m[j][1:], m[j][:10])
				}
			}
		case 6: // strip the root
			m = m[r.Intn(5):]
		case 7: // character-level mutation
			s := strings.Join(m, "/")
			if len(s) > 0 {
				b := []byte(s)
				b[r.Intn(len(b))] = "/_a0.-\n:"[r.Intn(8)]
				m = strings.Split(string(b), "/")
			}
		case 8: // swap two elements
			a, b := r.Intn(len(m)), r.Intn(len(m))
			m[a], m[b] = m[b], m[a]
		case 9: // glue two paths
			p2, _ := c38Build(c38Kinds[r.Intn(len(c38Kinds))], c)
			m = append(m, strings.Split(p2, "/")...)
		}
		run(strings.Join(m, "/"), nil)
		tr.Count("random_mutated", 1)
	}
	for _, p := range []string{"", "/", "//", "/_manifests/tags", "x/_manifests/tags", "/x/_manifests/tags/", "x/_manifests/tags/a/link", "x/_manifests/tags//link",
		"/v2/repositories/_manifests", "/v2/repositories/kraken/_manifests", "repositories/kraken/_manifests", "/repositories/kraken/_manifests",
		"/v2/repositories//_manifests", "/v2/repositories/a/_manifestsx", "/v2/repositories/a/b_manifests/_layers", "x/_uploads/u/hashstatesfoo",
		"x/_uploads/u/hashstates", "x/_uploads/u/hashstates/", "x/_uploads/u/hashstates/sha256/", "x/_uploads/u/hashstates/sha256/12/3", "x/_uploads//data",
		"x/_uploads/u/data/", "/v2/blobs/sha256/ab/abcd/data", "blobs/sha256/ab/abcd/data", "/blobs/sha256/ab/abcd/data", "x/blobs/sha256/abc/abcd/data"} {
		run(p, nil)
		tr.Count("listed_odd", 1)
	}
}
