// Package verifc37 is the shared part of the C37 correspondence harnesses (it exists only in the
// `go test -overlay` view of the module): a stateful in-memory implementation of the s3backend.S3
// interface with real ListObjectsV2 pagination, and a generic interpreter of backend.Client op
// records with its case generators.
package verifc37

import (
	"bytes"
	"encoding/hex"
	"errors"
	"fmt"
	"io"
	"net/http"
	"net/http/httptest"
	"regexp"
	"sort"
	"strconv"
	"strings"
	"sync"

	"github.com/aws/aws-sdk-go/aws"
	"github.com/aws/aws-sdk-go/aws/awserr"
	"github.com/aws/aws-sdk-go/service/s3"
	"github.com/aws/aws-sdk-go/service/s3/s3manager"

	"github.com/uber-go/tally"
	"go.uber.org/zap"

	"github.com/uber/kraken/lib/backend"
	"github.com/uber/kraken/lib/backend/backenderrors"
	"github.com/uber/kraken/lib/backend/s3backend"
	"github.com/uber/kraken/lib/backend/sqlbackend"
	"github.com/uber/kraken/lib/backend/testfs"
	"github.com/uber/kraken/utils/httputil"
	"github.com/uber/kraken/utils/log"
	"github.com/uber/kraken/utils/verifh"
)

// ---------------------------------------------------------------- in-memory S3

// FakeS3 remembers uploads and answers like S3: keys are compared bytewise, listings are in key
// order, filtered by string prefix, paged by MaxKeys (and by Cap, S3 may return fewer keys than
// asked for) with IsTruncated / NextContinuationToken; a missing key is NoSuchKey / NotFound.
// Like the SDK's REST path cleaning it ignores a leading slash of a key.
type FakeS3 struct {
	mu   sync.Mutex
	objs map[string][]byte
	Cap  int // server-side page size limit (0: 1000)
}

func NewFakeS3(cap int) *FakeS3 { return &FakeS3{objs: map[string][]byte{}, Cap: cap} }

// Reset empties the store.
func (f *FakeS3) Reset(cap int) {
	f.mu.Lock()
	f.objs, f.Cap = map[string][]byte{}, cap
	f.mu.Unlock()
}

func s3key(k *string) string { return strings.TrimLeft(aws.StringValue(k), "/") }

func (f *FakeS3) HeadObject(in *s3.HeadObjectInput) (*s3.HeadObjectOutput, error) {
	f.mu.Lock()
	defer f.mu.Unlock()
	b, ok := f.objs[s3key(in.Key)]
	if !ok {
		return nil, awserr.NewRequestFailure(awserr.New("NotFound", "Not Found", nil), 404, "fake")
	}
	return &s3.HeadObjectOutput{ContentLength: aws.Int64(int64(len(b)))}, nil
}

func (f *FakeS3) Download(w io.WriterAt, in *s3.GetObjectInput, _ ...func(*s3manager.Downloader)) (int64, error) {
	f.mu.Lock()
	b, ok := f.objs[s3key(in.Key)]
	f.mu.Unlock()
	if !ok {
		return 0, awserr.NewRequestFailure(awserr.New(s3.ErrCodeNoSuchKey, "The specified key does not exist.", nil), 404, "fake")
	}
	// the real downloader writes parts at their offsets, possibly out of order
	half := len(b) / 2
	if _, err := w.WriteAt(b[half:], int64(half)); err != nil {
		return 0, err
	}
	if _, err := w.WriteAt(b[:half], 0); err != nil {
		return 0, err
	}
	return int64(len(b)), nil
}

func (f *FakeS3) Upload(in *s3manager.UploadInput, _ ...func(*s3manager.Uploader)) (*s3manager.UploadOutput, error) {
	b, err := io.ReadAll(in.Body)
	if err != nil {
		return nil, err
	}
	f.mu.Lock()
	f.objs[s3key(in.Key)] = b
	f.mu.Unlock()
	return &s3manager.UploadOutput{}, nil
}

// Token encodes a continuation token (opaque to the client): the last key returned.
func Token(key string) string { return "k" + hex.EncodeToString([]byte(key)) }

func (f *FakeS3) ListObjectsV2Pages(in *s3.ListObjectsV2Input, fn func(*s3.ListObjectsV2Output, bool) bool) error {
	tok := in.ContinuationToken
	for {
		f.mu.Lock()
		var keys []string
		for k := range f.objs {
			if strings.HasPrefix(k, aws.StringValue(in.Prefix)) {
				keys = append(keys, k)
			}
		}
		f.mu.Unlock()
		sort.Strings(keys)
		if tok != nil {
			t := aws.StringValue(tok)
			raw, err := hex.DecodeString(strings.TrimPrefix(t, "k"))
			if err != nil || !strings.HasPrefix(t, "k") {
				return awserr.New("InvalidArgument", "The continuation token provided is incorrect", nil)
			}
			i := sort.SearchStrings(keys, string(raw))
			if i < len(keys) && keys[i] == string(raw) {
				i++
			}
			keys = keys[i:]
		}
		size := 1000
		if in.MaxKeys != nil && int(*in.MaxKeys) < size {
			size = int(*in.MaxKeys)
		}
		if f.Cap > 0 && f.Cap < size {
			size = f.Cap
		}
		if size < 0 {
			size = 0
		}
		page := &s3.ListObjectsV2Output{IsTruncated: aws.Bool(false)}
		n := len(keys)
		if n > size {
			n = size
		}
		for _, k := range keys[:n] {
			page.Contents = append(page.Contents, &s3.Object{Key: aws.String(k)})
		}
		page.KeyCount = aws.Int64(int64(n))
		more := size > 0 && len(keys) > n
		if more {
			page.IsTruncated = aws.Bool(true)
			page.NextContinuationToken = aws.String(Token(keys[n-1]))
		}
		if !fn(page, !more) || !more {
			return nil
		}
		tok = page.NextContinuationToken
	}
}

// ---------------------------------------------------------------- interpreter

// Env is one freshly created, empty backend under test.
type Env struct {
	Client backend.Client
	Active backend.Client // shadow only: the two wrapped clients (for direct uploads)
	Shadow backend.Client
	Raw    func(key string, b []byte) // s3 only: store an object under a key behind the client's back
	Close  func()
}

// Factory builds an empty backend from the cfg tokens of a case (nil Env: cfg not understood).
type Factory func(cfg []string) *Env

func KV(toks []string, k string) string {
	for _, t := range toks {
		if strings.HasPrefix(t, k+"=") {
			return t[len(k)+1:]
		}
	}
	return ""
}

var nameRe = regexp.MustCompile(`^[a-z0-9_.:-]+(/[a-z0-9_.:-]+)*$`)

type onlyReader struct{ r io.Reader }

func (o onlyReader) Read(p []byte) (int, error) { return o.r.Read(p) }

// memWriterAt is an io.Writer + io.WriterAt destination.
type memWriterAt struct{ b []byte }

func (m *memWriterAt) WriteAt(p []byte, off int64) (int, error) {
	if need := int(off) + len(p); need > len(m.b) {
		m.b = append(m.b, make([]byte, need-len(m.b))...)
	}
	copy(m.b[off:], p)
	return len(p), nil
}
func (m *memWriterAt) Write(p []byte) (int, error) { m.b = append(m.b, p...); return len(p), nil }

func errClass(err error) string {
	var se httputil.StatusError
	switch {
	case err == nil:
		return "ok"
	case err == backenderrors.ErrBlobNotFound:
		return "notfound"
	case strings.Contains(err.Error(), "pagination not supported"):
		return "err:nopagination"
	case strings.Contains(err.Error(), "refusing upload"):
		return "err:refused"
	case strings.Contains(err.Error(), "name must be in format") || strings.Contains(err.Error(), "must be non-empty"):
		return "err:badname"
	case errors.As(err, &se):
		return "err:status" + strconv.Itoa(se.Status)
	}
	return "err:other"
}

// Exec runs one case against a fresh backend and writes its transcript.
func Exec(t *verifh.T, c verifh.Case, mk Factory) bool {
	env := mk(c.Cfg)
	if env == nil {
		return false
	}
	defer env.Close()
	t.Cfg(c.Cfg...)
	prevTok := map[string]string{}
	for _, op := range c.Ops {
		if len(op) < 2 || op[0] != "op" {
			continue
		}
		var obs []string
		rec := op[1:]
		p := verifh.Protect(func() {
			switch {
			case (op[1] == "upload" || op[1] == "upload@active" || op[1] == "upload@shadow") && (len(op) == 4 || len(op) == 5):
				cl := env.Client
				if op[1] == "upload@active" {
					cl = env.Active
				} else if op[1] == "upload@shadow" {
					cl = env.Shadow
				}
				b, err := verifh.Unhex(op[3])
				if cl == nil || err != nil || !nameRe.MatchString(op[2]) {
					return
				}
				var src io.Reader = bytes.NewReader(b)
				if len(op) == 5 {
					if op[4] != "r=plain" {
						return
					}
					src = onlyReader{bytes.NewReader(b)}
				}
				obs = []string{errClass(cl.Upload("ns", op[2], src))}
			case op[1] == "put-raw" && len(op) == 4:
				key, err := verifh.Unstr(op[2])
				b, err2 := verifh.Unhex(op[3])
				// only keys the docker_tag pather cannot convert back to a name
				if env.Raw == nil || err != nil || err2 != nil || KV(c.Cfg, "pather") != "docker_tag" || !nameRe.MatchString(key) ||
					strings.HasSuffix(key, "/current/link") {
					return
				}
				env.Raw(key, b)
				obs = []string{"ok"}
			case (op[1] == "download@shadow" || op[1] == "download@active") && len(op) == 3 && nameRe.MatchString(op[2]):
				// read one wrapped backend of the shadow client directly
				cl := env.Shadow
				if op[1] == "download@active" {
					cl = env.Active
				}
				if cl == nil {
					return
				}
				var w bytes.Buffer
				if err := cl.Download("ns", op[2], &w); err == nil {
					obs = []string{"bytes", verifh.Hex(w.Bytes())}
				} else {
					obs = []string{errClass(err)}
				}
			case op[1] == "download" && (len(op) == 3 || len(op) == 4) && nameRe.MatchString(op[2]):
				var err error
				var got []byte
				if len(op) == 4 && op[3] == "w=at" {
					w := &memWriterAt{}
					err = env.Client.Download("ns", op[2], w)
					got = w.b
				} else if len(op) == 3 {
					var w bytes.Buffer
					err = env.Client.Download("ns", op[2], &w)
					got = w.Bytes()
				} else {
					return
				}
				if err == nil {
					obs = []string{"bytes", verifh.Hex(got)}
				} else {
					obs = []string{errClass(err)}
				}
			case op[1] == "stat" && len(op) == 3 && nameRe.MatchString(op[2]):
				bi, err := env.Client.Stat("ns", op[2])
				if err == nil {
					obs = []string{"size", strconv.FormatInt(bi.Size, 10)}
				} else {
					obs = []string{errClass(err)}
				}
			case op[1] == "list" && len(op) == 3:
				pfx, err := verifh.Unstr(op[2])
				if err != nil || (pfx != "" && !nameRe.MatchString(strings.TrimPrefix(pfx, "/"))) {
					return
				}
				res, err := env.Client.List(pfx)
				if err == nil {
					obs = []string{"names", verifh.SortedList(res.Names)}
				} else {
					obs = []string{errClass(err)}
				}
			case op[1] == "page" && len(op) == 5:
				pfx, err := verifh.Unstr(op[2])
				k, err2 := strconv.Atoi(op[3])
				if err != nil || err2 != nil || k < 1 || k > 1000 || (pfx != "" && !nameRe.MatchString(strings.TrimPrefix(pfx, "/"))) {
					return
				}
				tok := op[4]
				sess := op[2] + " " + op[3]
				if tok == "@prev" {
					tok = prevTok[sess]
					if tok == "" {
						tok = "-"
					}
				}
				rec = []string{"page", op[2], op[3], tok}
				opts := []backend.ListOption{backend.ListWithPagination(), backend.ListWithMaxKeys(k)}
				if tok != "-" {
					opts = append(opts, backend.ListWithContinuationToken(tok))
				}
				res, err := env.Client.List(pfx, opts...)
				if err == nil {
					next := res.ContinuationToken
					if next == "" {
						next = "-"
					}
					prevTok[sess] = next
					obs = []string{"names", verifh.List(res.Names), "next=" + next}
				} else {
					obs = []string{errClass(err)}
				}
			}
		})
		if p != "" {
			t.Op(rec, "panic")
			t.PropFail("panic", verifh.Str(p))
			continue
		}
		if obs != nil {
			t.Op(rec, obs...)
		}
	}
	t.End()
	return true
}

// ---------------------------------------------------------------- the backends that run in-process

var (
	tfsMu  sync.Mutex
	tfsSrv *httptest.Server
	tfsCur http.Handler
)

// NewTestfs: a fresh testfs.Server (own temp dir) behind one long-lived listener, and a real Client.
func NewTestfs(cfg []string) *Env {
	tfsMu.Lock()
	defer tfsMu.Unlock()
	if tfsSrv == nil {
		tfsSrv = httptest.NewServer(http.HandlerFunc(func(w http.ResponseWriter, r *http.Request) {
			tfsMu.Lock()
			h := tfsCur
			tfsMu.Unlock()
			h.ServeHTTP(w, r)
		}))
	}
	s := testfs.NewServer()
	tfsCur = s.Handler()
	c, err := testfs.NewClient(testfs.Config{Addr: strings.TrimPrefix(tfsSrv.URL, "http://"), Root: KV(cfg, "root"),
		NamePath: KV(cfg, "pather")}, tally.NoopScope)
	if err != nil {
		s.Cleanup()
		return nil
	}
	return &Env{Client: c, Close: s.Cleanup}
}

// NewSQL: a real sqlbackend.Client over a fresh in-memory SQLite database.
func NewSQL(cfg []string) *Env {
	c, err := sqlbackend.NewClient(sqlbackend.Config{Dialect: "sqlite3", ConnectionString: ":memory:"},
		sqlbackend.UserAuthConfig{}, tally.NoopScope)
	if err != nil {
		panic(err)
	}
	return &Env{Client: c, Close: func() { c.Close() }}
}

type s3Cached struct {
	c    *s3backend.Client
	fake *FakeS3
}

var (
	s3Mu    sync.Mutex
	s3Cache = map[string]*s3Cached{}
)

// NewS3: a real s3backend.Client over an empty FakeS3. Clients are cached per configuration
// (building an AWS session is slow); the fake behind a cached client is emptied for every case.
func NewS3(cfg []string) *Env {
	listmax, err1 := strconv.Atoi(KV(cfg, "listmax"))
	cap, err2 := strconv.Atoi(KV(cfg, "cap"))
	if err1 != nil || err2 != nil || listmax < 1 || cap < 0 {
		return nil
	}
	key := KV(cfg, "root") + " " + KV(cfg, "pather") + " " + KV(cfg, "listmax")
	s3Mu.Lock()
	defer s3Mu.Unlock()
	raw := func(f *FakeS3) func(string, []byte) {
		return func(k string, b []byte) {
			f.Upload(&s3manager.UploadInput{Key: aws.String(k), Body: bytes.NewReader(b)})
		}
	}
	if e, ok := s3Cache[key]; ok {
		e.fake.Reset(cap)
		return &Env{Client: e.c, Raw: raw(e.fake), Close: func() {}}
	}
	auth := s3backend.UserAuthConfig{}
	a := s3backend.AuthConfig{}
	a.S3.AccessKeyID, a.S3.AccessSecretKey = "id", "secret"
	auth["verif"] = a
	fake := NewFakeS3(cap)
	c, err := s3backend.NewClient(s3backend.Config{Username: "verif", Region: "us-west-1", Bucket: "bucket",
		RootDirectory: KV(cfg, "root"), NamePath: KV(cfg, "pather"), ListMaxKeys: listmax}, auth, tally.NoopScope,
		s3backend.WithS3(fake))
	if err != nil {
		return nil
	}
	s3Cache[key] = &s3Cached{c, fake}
	return &Env{Client: c, Raw: raw(fake), Close: func() {}}
}

// NewPlain builds the backend named by the token `be=` (testfs, sql, s3).
func NewPlain(be string, cfg []string) *Env {
	switch be {
	case "testfs":
		return NewTestfs(cfg)
	case "sql":
		return NewSQL(cfg)
	case "s3":
		return NewS3(cfg)
	}
	return nil
}

var dockerNames = []string{"r0:t0", "r0:t1", "r1:t0", "lib/r2:t0", "r0:t2", "r1:t1", "r0-x:t0"}
var dockerBad = []string{"nocolon", "a:b:c", ":t", "r:"}
var dockerPrefixes = []string{"r0/_manifests/tags", "r1/_manifests/tags", "", "lib/r2/_manifests/tags", "zz/_manifests/tags"}
var identNames = []string{"d0/a", "d0/b", "d1/a", "d0/sub/c", "d0/c", "d1/b", "d0-x/a"}
var identPrefixes = []string{"d0", "", "d1", "d0/sub", "zz", "d0/a"}

// Profiles of the three plain backends (also used as the active side of shadow configurations).
func TestfsProfiles() map[string]Profile {
	return map[string]Profile{
		"testfs-identity": {Cfg: []string{"be=testfs", "pather=identity", "root=root", "match=dir", "sizes=1", "paged=err", "emptylist=err"},
			Names: identNames, Prefixes: identPrefixes},
		"testfs-identity-deeproot": {Cfg: []string{"be=testfs", "pather=identity", "root=a/b.c", "match=dir", "sizes=1", "paged=err", "emptylist=err"},
			Names: identNames, Prefixes: identPrefixes},
		"testfs-dockertag": {Cfg: []string{"be=testfs", "pather=docker_tag", "root=root", "match=dir", "sizes=1", "paged=err", "emptylist=err"},
			Names: dockerNames, BadNames: dockerBad, Prefixes: append([]string{"lib"}, dockerPrefixes...)},
	}
}

func SQLProfiles() map[string]Profile {
	return map[string]Profile{
		"sql": {Cfg: []string{"be=sql", "pather=none", "root=-", "match=repo", "sizes=0", "paged=ignore", "emptylist=ok"},
			Names: dockerNames, BadNames: dockerBad, Prefixes: append([]string{"/r0/_manifests/tags"}, dockerPrefixes...), Paged: true},
	}
}

// rawKeys: objects a real registry bucket holds under the listed prefixes next to the tag links
// (they do not convert back to a name; the server counts them against MaxKeys all the same).
func rawKeys(root string) []string {
	base := strings.Trim(root, "/")
	if base != "" {
		base += "/"
	}
	base += "docker/registry/v2/repositories/"
	return []string{base + "r0/_manifests/tags/t0/index/sha256/ab/link", base + "r0/_layers/sha256/cd/link",
		base + "r0/_manifests/tags/t1/index/sha256/ef/link", base + "r0-x/_uploads/u1/data",
		base + "r1/_manifests/revisions/sha256/aa/link", base + "r0/_manifests/tags/t0/zz"}
}

func S3Profiles() map[string]Profile {
	mk := func(root, pather, listmax, cap string, names, bad, prefixes []string) Profile {
		p := Profile{Cfg: []string{"be=s3", "pather=" + pather, "root=" + root, "match=str", "sizes=1", "paged=1", "emptylist=ok",
			"listmax=" + listmax, "cap=" + cap}, Names: names, BadNames: bad, Prefixes: prefixes, Paged: true}
		if pather == "docker_tag" {
			p.RawKeys = rawKeys(root)
		}
		return p
	}
	return map[string]Profile{
		"s3-identity-max3":      mk("/root", "identity", "3", "0", identNames, nil, append([]string{"d", "d0/s"}, identPrefixes...)),
		"s3-identity-shortpage": mk("/root", "identity", "250", "2", identNames, nil, append([]string{"d"}, identPrefixes...)),
		"s3-dockertag-max2cap1": mk("/root", "docker_tag", "2", "1", dockerNames, dockerBad, append([]string{"r", "r0"}, dockerPrefixes...)),
		"s3-dockertag-max3":     mk("/a.b+c", "docker_tag", "3", "2", dockerNames, dockerBad, append([]string{"r0"}, dockerPrefixes...)),
		"s3-identity-slashroot": mk("/", "identity", "2", "0", identNames, nil, append([]string{"d"}, identPrefixes...)),
		"s3-identity-deeproot":  mk("/a/b/", "identity", "250", "3", identNames, nil, identPrefixes),
	}
}

// ---------------------------------------------------------------- generators

// Profile describes the name space and the op mix of one backend configuration.
type Profile struct {
	Cfg      []string // cfg tokens
	Names    []string
	BadNames []string
	Prefixes []string
	Paged    bool     // generate page ops
	RawKeys  []string // s3: keys of foreign objects stored under the listed prefixes
	SubOps   bool     // shadow: direct uploads into the wrapped clients, non-seekable sources
}

var contents = [][]byte{nil, []byte("a"), []byte("bb")}

func (p Profile) alphabet(nNames int) [][]string {
	var ops [][]string
	names := p.Names
	if len(names) > nNames {
		names = names[:nNames]
	}
	for _, n := range names {
		for _, b := range contents {
			ops = append(ops, []string{"op", "upload", n, verifh.Hex(b)})
		}
		ops = append(ops, []string{"op", "download", n}, []string{"op", "stat", n})
	}
	for i, k := range p.RawKeys {
		if i < 2 {
			ops = append(ops, []string{"op", "put-raw", verifh.Str(k), "x7a"})
		}
	}
	for _, pf := range p.Prefixes {
		ops = append(ops, []string{"op", "list", verifh.Str(pf)})
	}
	return ops
}

// Generate runs the bounded-exhaustive and the seeded random cases of a profile.
func Generate(t *verifh.T, label string, p Profile, mk Factory) {
	// (a) every op sequence up to a depth over 2 names x 3 contents (+ download/stat/list)
	alpha := p.alphabet(2)
	depth := verifh.Scale(2, 3)
	var rec func(prefix [][]string, d int)
	rec = func(prefix [][]string, d int) {
		if d == 0 {
			ops := append(prefix[:len(prefix):len(prefix)], alpha[len(alpha)-len(p.Prefixes):]...)
			for _, n := range p.Names[:2] {
				ops = append(ops, []string{"op", "download", n}, []string{"op", "stat", n})
				if p.SubOps {
					ops = append(ops, []string{"op", "download@shadow", n})
				}
			}
			if p.Paged {
				pf := verifh.Str(p.Prefixes[0])
				ops = append(ops, []string{"op", "page", pf, "1", "-"}, []string{"op", "page", pf, "1", "@prev"},
					[]string{"op", "page", pf, "1", "@prev"})
			}
			Exec(t, verifh.Case{Cfg: p.Cfg, Ops: ops}, mk)
			t.Count(label+"_exhaustive_cases", 1)
			return
		}
		for _, o := range alpha {
			if o[1] != "upload" && o[1] != "put-raw" && d > 1 {
				continue // reads in the middle do not change the state: all reads follow every prefix anyway
			}
			rec(append(prefix[:len(prefix):len(prefix)], o), d-1)
		}
	}
	for d := 0; d <= depth; d++ {
		rec(nil, d)
	}
	// (b) seeded random histories over the whole name space, arbitrary contents, page sessions
	r := verifh.NewRand(verifh.Seed(), "c37"+label)
	for i := 0; i < verifh.Scale(70, 2500); i++ {
		var ops [][]string
		n := 1 + r.Intn(40)
		for j := 0; j < n; j++ {
			name := p.Names[r.Intn(len(p.Names))]
			switch x := r.Intn(20); {
			case x < 8:
				var b []byte
				switch r.Intn(6) {
				case 0:
				case 1:
					b = r.Bytes(300 + r.Intn(3000))
				default:
					b = r.Bytes(1 + r.Intn(12))
				}
				op := []string{"op", "upload", name, verifh.Hex(b)}
				if p.SubOps && r.Chance(1, 6) {
					op[1] = r.Pick("upload@active", "upload@shadow")
				} else if p.SubOps && r.Chance(1, 8) {
					op = append(op, "r=plain")
				}
				ops = append(ops, op)
			case x < 11:
				op := []string{"op", "download", name}
				if p.SubOps && r.Chance(1, 3) {
					op[1] = r.Pick("download@shadow", "download@active")
				} else if r.Chance(1, 2) {
					op = append(op, "w=at")
				}
				ops = append(ops, op)
			case x < 13:
				ops = append(ops, []string{"op", "stat", name})
			case x < 14 && len(p.BadNames) > 0:
				bad := p.BadNames[r.Intn(len(p.BadNames))]
				switch r.Intn(3) {
				case 0:
					ops = append(ops, []string{"op", "upload", bad, "x61"})
				case 1:
					ops = append(ops, []string{"op", "download", bad})
				default:
					ops = append(ops, []string{"op", "stat", bad})
				}
			case x < 15 && len(p.RawKeys) > 0:
				ops = append(ops, []string{"op", "put-raw", verifh.Str(p.RawKeys[r.Intn(len(p.RawKeys))]), verifh.Hex(r.Bytes(1 + r.Intn(3)))})
			case x < 16:
				ops = append(ops, []string{"op", "list", verifh.Str(p.Prefixes[r.Intn(len(p.Prefixes))])})
			default:
				if !p.Paged && r.Chance(3, 4) {
					ops = append(ops, []string{"op", "list", verifh.Str(p.Prefixes[r.Intn(len(p.Prefixes))])})
					break
				}
				// a whole pagination session: follow the tokens (sometimes with uploads in between)
				pf := verifh.Str(p.Prefixes[r.Intn(len(p.Prefixes))])
				k := strconv.Itoa(1 + r.Intn(4))
				ops = append(ops, []string{"op", "page", pf, k, "-"})
				for q := 0; q < len(p.Names)+1; q++ {
					if r.Chance(1, 12) {
						ops = append(ops, []string{"op", "upload", p.Names[r.Intn(len(p.Names))], verifh.Hex(r.Bytes(2))})
					}
					ops = append(ops, []string{"op", "page", pf, k, "@prev"})
				}
			}
		}
		if i < 2 {
			t.Sample(fmt.Sprint(label, " ", ops))
		}
		Exec(t, verifh.Case{Cfg: p.Cfg, Ops: ops}, mk)
		t.Count(label+"_random_cases", 1)
	}
}

// Main is the body of every C37 harness test: corpus/replay cases of this backend, then generation.
func Main(t *verifh.T, be string, profiles map[string]Profile, mk Factory) {
	log.SetGlobalLogger(zap.NewNop().Sugar())
	cases, replayOnly := verifh.InputCases("be")
	for _, c := range cases {
		if KV(c.Cfg, "be") != be {
			continue
		}
		Exec(t, c, mk)
		t.Count("corpus_or_replay_cases", 1)
	}
	if replayOnly {
		return
	}
	var labels []string
	for l := range profiles {
		labels = append(labels, l)
	}
	sort.Strings(labels)
	for _, l := range labels {
		Generate(t, l, profiles[l], mk)
	}
}
