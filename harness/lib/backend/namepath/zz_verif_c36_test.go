//go:build verif

package namepath_test

// C36 harness, machine "np" (public API of lib/backend/namepath).
// Record formats: /verif/lean/Driver/C36.lean.

import (
	"path"
	"strings"
	"testing"

	"github.com/uber/kraken/lib/backend/namepath"
	"github.com/uber/kraken/utils/verifh"
)

func c36Kv(toks []string, k string) (string, bool) {
	for _, t := range toks {
		if strings.HasPrefix(t, k+"=") {
			return t[len(k)+1:], true
		}
	}
	return "", false
}

var c36Schemes = map[string]string{"tag": namepath.DockerTag, "shard": namepath.ShardedDockerBlob, "ident": namepath.Identity}

func c36BlobErr(err error) string {
	switch {
	case strings.Contains(err.Error(), "repo:tag"):
		return "format"
	case strings.Contains(err.Error(), "repo must be non-empty"):
		return "emptyrepo"
	case strings.Contains(err.Error(), "tag must be non-empty"):
		return "emptytag"
	case strings.Contains(err.Error(), "too short"):
		return "short"
	}
	return "other"
}

func c36Name(p namepath.Pather, bp string) string {
	var n string
	var err error
	if pn := verifh.Protect(func() { n, err = p.NameFromBlobPath(bp) }); pn != "" {
		return "panic"
	}
	if err != nil {
		return "err"
	}
	return "ok:" + verifh.Str(n)
}

func c36Op(t *verifh.T, op []string) {
	switch op[0] {
	case "rt", "name":
		sc, ok1 := c36Kv(op, "scheme")
		rootS, ok2 := c36Kv(op, "root")
		id, ok3 := c36Schemes[sc]
		root, err := verifh.Unstr(rootS)
		if !(ok1 && ok2 && ok3) || err != nil {
			return
		}
		p, err := namepath.New(root, id)
		if err != nil {
			return
		}
		if op[0] == "name" {
			bpS, _ := c36Kv(op, "bp")
			bp, err := verifh.Unstr(bpS)
			if err != nil {
				return
			}
			t.One(op, c36Name(p, bp))
			return
		}
		nameS, _ := c36Kv(op, "name")
		name, err := verifh.Unstr(nameS)
		if err != nil {
			return
		}
		var bp string
		var berr error
		if pn := verifh.Protect(func() { bp, berr = p.BlobPath(name) }); pn != "" {
			t.One(op, "blob=panic", "back=-")
			t.PropFail("blob-path-panic", verifh.Str(pn))
			return
		}
		if berr != nil {
			t.One(op, "blob=err:"+c36BlobErr(berr), "back=-")
			return
		}
		t.One(op, "blob=ok:"+verifh.Str(bp), "back="+c36Name(p, bp))
	case "join":
		var es []string
		for _, e := range op[1:] {
			s, err := verifh.Unstr(e)
			if err != nil {
				return
			}
			es = append(es, s)
		}
		t.One(op, verifh.Str(path.Join(es...)))
	}
}

func c36Exec(t *verifh.T, c verifh.Case) {
	for _, op := range c.Ops {
		if len(op) < 2 || op[0] != "one" {
			continue
		}
		o := op[1:]
		if p := verifh.Protect(func() { c36Op(t, o) }); p != "" {
			t.One(o, "harness-panic")
			t.PropFail("panic", verifh.Str(p))
		}
	}
}

var c36Roots = []string{"/", "/a", "/a/", "/a/b/c", "/a/b/c/", "", ".", "./", "a", "a/b/", "//a//b//", "/a/./b/../c/", "..", "../x/",
	"/data/kraken+cache", "/a.b", "/a(b", "/x[1]", "/w*", "/q?", "/p|q", "/^s$", "/c\\d", "/br{2}", "/sp ace/", "/üñ", "/_manifests/tags", "/docker/registry/v2/repositories",
	"/r\xff", "\xc3", "/a/\xe2\x82/b", "/€/é"}

var c36Repos = []string{"a", "library/ubuntu", "a/b/c", "repo-bar", "a.b_c-d/e", "x/_manifests/tags/y", "a/current/link", "docker/registry/v2/repositories/z",
	"0", "a/repositories/b", "sha256"}
var c36Tags = []string{"latest", "v1.2.3", "current", "_manifests", "link", "a", "0", "_", "T-1_x.y", "data"}

func c36RandName(r *verifh.Rand, alpha string, max int) string {
	n := r.Intn(max + 1)
	b := make([]byte, n)
	for i := range b {
		b[i] = alpha[r.Intn(len(alpha))]
	}
	return string(b)
}

func TestVerif_C36(t *testing.T) {
	tr := verifh.Open("np")
	defer tr.Close()
	cases, replayOnly := verifh.InputCases("np")
	for _, c := range cases {
		c36Exec(tr, c)
		tr.Count("corpus_or_replay_cases", 1)
	}
	if replayOnly {
		return
	}
	r := verifh.NewRand(verifh.Seed(), "c36")
	run := func(toks ...string) {
		c36Exec(tr, verifh.Case{Ops: [][]string{append([]string{"one"}, toks...)}})
	}
	rt := func(scheme, root, name string) {
		run("rt", "scheme="+scheme, "root="+verifh.Str(root), "name="+verifh.Str(name))
	}
	hexd := func() string { return strings.Repeat("0123456789abcdef", 4)[r.Intn(8):][:56] + "ff85ceb9" }
	// (a) every listed root x every listed valid name, all three schemes
	for _, root := range c36Roots {
		for _, repo := range c36Repos {
			for _, tag := range c36Tags {
				rt("tag", root, repo+":"+tag)
				tr.Count("grid_tag", 1)
			}
			rt("ident", root, repo)
			tr.Count("grid_ident", 1)
		}
		for _, n := range []string{hexd(), strings.ToUpper(hexd()), "abc", "..a", "a..", "ab/", "xyz", "da/ta", "sha256",
			"éab", "éa", "aéb", "abé", "€ab", "a€b", "\xffab", "a\xffb", "ab\xff", "\xc3ab", "\xc3\xa9\xc3\xa9", "ñ\n1"} {
			rt("shard", root, n)
			tr.Count("grid_shard", 1)
		}
		for _, n := range []string{"", ".", "..", "/", "a//b", "a/./b", "a/../b", "/abs", "trail/", ":", "a:", ":b", "a:b:c", "a:b", "x", "ab", "a\nb:t", "r:t\n"} {
			for _, s := range []string{"tag", "shard", "ident"} {
				rt(s, root, n)
				tr.Count("grid_odd_names", 1)
			}
		}
	}
	// (a2) boundary LENGTHS: repository names up to 255 characters, tags up to 128, digests of exactly 64 characters and
	// their neighbours, the shortest blob names, long identity names and deep roots
	{
		rep := strings.Repeat
		longRoot := "/" + rep("d/", 200) + rep("r", 255)
		for _, root := range []string{"/r", "/", "", longRoot, longRoot + "/"} {
			for _, repo := range []string{"a", rep("r", 255), rep("a", 127) + "/" + rep("b", 127), rep("x/", 127) + "y"} {
				for _, tag := range []string{"a", rep("t", 127), rep("t", 128), rep("t", 129), "_" + rep(".", 127)} {
					rt("tag", root, repo+":"+tag)
					tr.Count("boundary_tag", 1)
				}
				rt("ident", root, repo)
				rt("ident", root, repo+"/"+rep("z", 4096))
				tr.Count("boundary_ident", 2)
			}
			h64 := rep("0123456789abcdef", 4)
			for _, n := range []string{"", "a", "ab", "abc", "abcd", h64[:63], h64, h64 + "0", rep(h64, 4), strings.ToUpper(h64), "ab" + rep("c", 4096)} {
				rt("shard", root, n)
				tr.Count("boundary_shard", 1)
			}
		}
	}
	// (b) exhaustive: roots and names over a tiny alphabet (identity scheme and path.Join itself)
	alpha := []string{"/", ".", "a", "b"}
	var all []string
	var rec func(prefix string, d int)
	rec = func(prefix string, d int) {
		all = append(all, prefix)
		if d == 0 {
			return
		}
		for _, a := range alpha {
			rec(prefix+a, d-1)
		}
	}
	rec("", verifh.Scale(3, 4))
	for _, root := range all {
		for _, name := range all {
			run("join", verifh.Str(root), verifh.Str(name))
			tr.Count("exhaustive_join", 1)
			if r.Chance(1, verifh.Scale(6, 2)) {
				rt("ident", root, name)
				tr.Count("exhaustive_ident", 1)
			}
		}
	}
	// (b') every byte value at positions spread over one blob path of every scheme
	for sc, name := range map[string]string{"tag": "library/ubuntu:v1", "shard": "ff85ceb9734a3c2f", "ident": "foo/bar"} {
		root := "/r.t"
		p, _ := namepath.New(root, c36Schemes[sc])
		bp, _ := p.BlobPath(name)
		for _, i := range []int{0, 1, len(root), len(root) + 1, len(bp) / 2, len(bp) - 12, len(bp) - 6, len(bp) - 5, len(bp) - 1} {
			if i < 0 || i >= len(bp) {
				continue
			}
			for b := 0; b < 256; b++ {
				run("name", "scheme="+sc, "root="+verifh.Str(root), "bp="+verifh.Str(bp[:i]+string([]byte{byte(b)})+bp[i+1:]))
				tr.Count("name_byte_subst", 1)
			}
		}
	}
	// (c) random roots / names, and arbitrary paths into NameFromBlobPath
	for i := 0; i < verifh.Scale(1500, 100000); i++ {
		root := c36Roots[r.Intn(len(c36Roots))]
		if r.Chance(1, 2) {
			root = c36RandName(r, "/ab._-+(", 8)
		}
		repo := c36Repos[r.Intn(len(c36Repos))]
		if r.Chance(1, 2) {
			repo = c36RandName(r, "ab/._-", 10)
		}
		tag := c36Tags[r.Intn(len(c36Tags))]
		if r.Chance(1, 3) {
			tag = c36RandName(r, "ab._-/:", 5)
		}
		rt("tag", root, repo+":"+tag)
		rt("ident", root, repo)
		rt("shard", root, c36RandName(r, "0123456789abcdef./", 12))
		run("join", verifh.Str(root), verifh.Str(repo), verifh.Str(c36RandName(r, "/.a", 4)), verifh.Str(tag))
		tr.Count("random_rt", 3)
		// arbitrary / mutated blob paths
		sc := r.Pick("tag", "shard", "ident")
		p, err := namepath.New(root, c36Schemes[sc])
		if err != nil {
			continue
		}
		bp, err := p.BlobPath(map[string]string{"tag": repo + ":" + tag, "shard": "abcdef0123", "ident": repo}[sc])
		if err != nil {
			bp = root + "/x"
		}
		switch r.Intn(7) {
		case 0:
			bp = bp[:r.Intn(len(bp)+1)]
		case 1:
			bp = "/prefix" + bp
		case 2:
			bp = bp + r.Pick("/extra", "/current/link", "/data", "x")
		case 3:
			bp = strings.Replace(bp, "/", "//", 1)
		case 4:
			bp = strings.Replace(bp, r.Pick("_manifests", "tags", "sha256", "current", "data", "repositories"), r.Pick("", "x", "_manifests/tags"), 1)
		case 5:
			bp = bp + bp
		}
		run("name", "scheme="+sc, "root="+verifh.Str(root), "bp="+verifh.Str(bp))
		tr.Count("random_name", 1)
		if i < 2 {
			tr.Sample("name " + sc + " " + bp)
		}
	}
}
