//go:build verif

package shadowbackend

import (
	"testing"

	"github.com/uber-go/tally"

	"github.com/uber/kraken/lib/backend/verifc37"
	"github.com/uber/kraken/utils/verifh"
)

// C37: one test binary for the four backends that run in-process (it lives in shadowbackend
// because the shadow Client's two wrapped clients are set directly; testfs, sqlbackend and
// s3backend are driven through their public constructors by package verifc37).
//   testfs   real Client against the real Server (fresh temp dir per case) over HTTP
//   sql      real Client over a fresh in-memory SQLite database per case
//   s3       real Client over verifc37.FakeS3 (stateful in-memory S3 with real pagination)
//   shadow   real shadow Client over two of the above
func c37Shadow(cfg []string) *verifc37.Env {
	a := verifc37.NewPlain(verifc37.KV(cfg, "active"), cfg)
	if a == nil {
		return nil
	}
	s := verifc37.NewPlain(verifc37.KV(cfg, "shadow"), cfg)
	if s == nil {
		a.Close()
		return nil
	}
	c := &Client{active: a.Client, shadow: s.Client, stats: tally.NoopScope}
	return &verifc37.Env{Client: c, Active: a.Client, Shadow: s.Client, Close: func() { a.Close(); s.Close() }}
}

func TestVerif_C37(t *testing.T) {
	tr := verifh.Open("be")
	defer tr.Close()
	verifc37.Main(tr, "testfs", verifc37.TestfsProfiles(), verifc37.NewTestfs)
	verifc37.Main(tr, "sql", verifc37.SQLProfiles(), verifc37.NewSQL)
	verifc37.Main(tr, "s3", verifc37.S3Profiles(), verifc37.NewS3)
	profiles := map[string]verifc37.Profile{}
	add := func(label, active, shadow string, p verifc37.Profile) {
		cfg := append([]string{"be=shadow", "active=" + active, "shadow=" + shadow}, p.Cfg[1:]...)
		p.Cfg, p.SubOps = cfg, true
		profiles[label] = p
	}
	add("shadow-sql-sql", "sql", "sql", verifc37.SQLProfiles()["sql"])
	add("shadow-testfs-sql", "testfs", "sql", verifc37.TestfsProfiles()["testfs-dockertag"])
	add("shadow-s3-testfs", "s3", "testfs", verifc37.S3Profiles()["s3-dockertag-max2cap1"])
	verifc37.Main(tr, "shadow", profiles, c37Shadow)
}
